/-
C06 — min_element / max_element / minmax_element: for every strict weak order and every range in its
context the models return exactly the declarative indices: the first smallest, the first largest, and
for minmax_element (first smallest, LAST largest).
-/
import TetlProofs.C06.Fold
import TetlProofs.C06.Order
namespace Tetl.C06
open Tetl
variable {α : Type}

/-! ### the declarative indices, characterised over a processed prefix of length `k` -/

/-- `s` is the first smallest element of the prefix `R.take k` -/
def minmaxMinAt (lt : α → α → Bool) (R : List α) (k s : Nat) : Prop :=
  ∃ hs : s < R.length, s < k ∧ (∀ j (hj : j < R.length), j < k → lt R[j] R[s] = false) ∧
    (∀ j (hj : j < R.length), j < s → lt R[s] R[j] = true)

/-- `s` is the first largest element of the prefix `R.take k` -/
def minmaxMaxAt (lt : α → α → Bool) (R : List α) (k s : Nat) : Prop :=
  ∃ hs : s < R.length, s < k ∧ (∀ j (hj : j < R.length), j < k → lt R[s] R[j] = false) ∧
    (∀ j (hj : j < R.length), j < s → lt R[j] R[s] = true)

/-- `s` is the last largest element of the prefix `R.take k` -/
def minmaxMaxLastAt (lt : α → α → Bool) (R : List α) (k s : Nat) : Prop :=
  ∃ hs : s < R.length, s < k ∧ (∀ j (hj : j < R.length), j < k → lt R[s] R[j] = false) ∧
    (∀ j (hj : j < R.length), s < j → j < k → lt R[j] R[s] = true)

theorem minmax_minAt_spec {lt : α → α → Bool} {R : List α} {s : Nat}
    (h : minmaxMinAt lt R R.length s) : Spec.minElement lt R = s := by
  obtain ⟨hs, _, hle, hfirst⟩ := h
  unfold Spec.minElement
  rw [List.findIdx_eq hs]
  constructor
  · rw [List.all_eq_true]
    intro y hy
    obtain ⟨j, hj, rfl⟩ := List.getElem_of_mem hy
    rw [hle j hj hj]; rfl
  · intro j hji
    rw [List.all_eq_false]
    refine ⟨R[s], List.getElem_mem hs, ?_⟩
    rw [hfirst j (by omega) hji]; simp

theorem minmax_maxAt_spec {lt : α → α → Bool} {R : List α} {s : Nat}
    (h : minmaxMaxAt lt R R.length s) : Spec.maxElement lt R = s := by
  obtain ⟨hs, _, hle, hfirst⟩ := h
  unfold Spec.maxElement
  rw [List.findIdx_eq hs]
  constructor
  · rw [List.all_eq_true]
    intro y hy
    obtain ⟨j, hj, rfl⟩ := List.getElem_of_mem hy
    rw [hle j hj hj]; rfl
  · intro j hji
    rw [List.all_eq_false]
    refine ⟨R[s], List.getElem_mem hs, ?_⟩
    rw [hfirst j (by omega) hji]; simp

theorem minmax_maxLastAt_spec {lt : α → α → Bool} {R : List α} {s : Nat}
    (h : minmaxMaxLastAt lt R R.length s) : Spec.maxElementLast lt R = s := by
  obtain ⟨hs, _, hle, hlast⟩ := h
  unfold Spec.maxElementLast
  have hne : R.isEmpty = false := by
    cases R with
    | nil => simp at hs
    | cons x xs => rfl
  rw [hne]
  simp only [Bool.false_eq_true, if_false]
  have hidx : R.reverse.findIdx (fun x => R.all (fun y => !lt x y)) = R.length - 1 - s := by
    have hlen : R.length - 1 - s < R.reverse.length := by rw [List.length_reverse]; omega
    rw [List.findIdx_eq hlen]
    constructor
    · rw [List.getElem_reverse, List.all_eq_true]
      intro y hy
      obtain ⟨j, hj, rfl⟩ := List.getElem_of_mem hy
      have : R.length - 1 - (R.length - 1 - s) = s := by omega
      simp only [this]
      rw [hle j hj hj]; rfl
    · intro j hji
      rw [List.getElem_reverse, List.all_eq_false]
      refine ⟨R[s], List.getElem_mem hs, ?_⟩
      rw [hlast (R.length - 1 - j) (by omega) (by omega) (by omega)]; simp
  rw [hidx]; omega

/-! ### one more element -/

theorem minmax_minAt_step {lt : α → α → Bool} (hlt : StrictWeak lt) {R : List α} {k s : Nat}
    (h : minmaxMinAt lt R k s) (hk : k < R.length) (hs : s < R.length) :
    minmaxMinAt lt R (k + 1) (if lt R[k] R[s] then k else s) := by
  obtain ⟨_, hsk, hle, hfirst⟩ := h
  cases hc : lt R[k] R[s] with
  | true =>
    simp only [if_true]
    have hall : ∀ j (hj : j < R.length), j < k → lt R[k] R[j] = true :=
      fun j hj hjk => hlt.lt_of_lt_of_le hc (hle j hj hjk)
    refine ⟨hk, by omega, ?_, hall⟩
    intro j hj hjk
    by_cases hjk' : j = k
    · subst hjk'; exact hlt.irrefl _
    · exact hlt.asymm (hall j hj (by omega))
  | false =>
    simp only [Bool.false_eq_true, if_false]
    refine ⟨hs, by omega, ?_, hfirst⟩
    intro j hj hjk
    by_cases hjk' : j = k
    · subst hjk'; exact hc
    · exact hle j hj (by omega)

theorem minmax_maxAt_step {lt : α → α → Bool} (hlt : StrictWeak lt) {R : List α} {k s : Nat}
    (h : minmaxMaxAt lt R k s) (hk : k < R.length) (hs : s < R.length) :
    minmaxMaxAt lt R (k + 1) (if lt R[s] R[k] then k else s) := by
  obtain ⟨_, hsk, hle, hfirst⟩ := h
  cases hc : lt R[s] R[k] with
  | true =>
    simp only [if_true]
    have hall : ∀ j (hj : j < R.length), j < k → lt R[j] R[k] = true :=
      fun j hj hjk => hlt.lt_of_le_of_lt (hle j hj hjk) hc
    refine ⟨hk, by omega, ?_, hall⟩
    intro j hj hjk
    by_cases hjk' : j = k
    · subst hjk'; exact hlt.irrefl _
    · exact hlt.asymm (hall j hj (by omega))
  | false =>
    simp only [Bool.false_eq_true, if_false]
    refine ⟨hs, by omega, ?_, hfirst⟩
    intro j hj hjk
    by_cases hjk' : j = k
    · subst hjk'; exact hc
    · exact hle j hj (by omega)

theorem minmax_maxLastAt_step {lt : α → α → Bool} (hlt : StrictWeak lt) {R : List α} {k s : Nat}
    (h : minmaxMaxLastAt lt R k s) (hk : k < R.length) (hs : s < R.length) :
    minmaxMaxLastAt lt R (k + 1) (if !lt R[k] R[s] then k else s) := by
  obtain ⟨_, hsk, hle, hlast⟩ := h
  cases hc : lt R[k] R[s] with
  | false =>
    simp only [Bool.not_false, if_true]
    refine ⟨hk, by omega, ?_, ?_⟩
    · intro j hj hjk
      by_cases hjk' : j = k
      · subst hjk'; exact hlt.irrefl _
      · exact hlt.le_trans (hle j hj (by omega)) hc
    · intro j hj h1 h2; omega
  | true =>
    simp only [Bool.not_true, Bool.false_eq_true, if_false]
    refine ⟨hs, by omega, ?_, ?_⟩
    · intro j hj hjk
      by_cases hjk' : j = k
      · subst hjk'; exact hlt.asymm hc
      · exact hle j hj (by omega)
    · intro j hj h1 h2
      by_cases hjk' : j = k
      · subst hjk'; exact hc
      · exact hlast j hj h1 (by omega)

/-! ### min_element -/

theorem minmax_minElemLoop_spec (lt : α → α → Bool) (hlt : StrictWeak lt) (P R S : List α) :
    ∀ (n k s : Nat), k + n = R.length → minmaxMinAt lt R k s →
    minElemLoop lt (P ++ R ++ S) P.length (P.length + R.length) n (P.length + k) (P.length + s)
      = .ok (P.length + Spec.minElement lt R) := by
  intro n
  induction n with
  | zero =>
    intro k s hk h
    have hk' : k = R.length := by omega
    subst hk'
    rw [minmax_minAt_spec h]; rfl
  | succ n ih =>
    intro k s hk h
    have hk' : k < R.length := by omega
    obtain ⟨hs, _⟩ := id h
    unfold minElemLoop
    rw [rdR_ctx P R S k hk', ok_bind, rdR_ctx P R S s hs, ok_bind]
    have e : (if lt R[k] R[s] = true then P.length + k else P.length + s)
        = P.length + (if lt R[k] R[s] then k else s) := by
      cases lt R[k] R[s] <;> rfl
    rw [e, show P.length + k + 1 = P.length + (k + 1) from by omega]
    exact ih (k + 1) _ (by omega) (minmax_minAt_step hlt h hk' hs)

theorem minElement_spec (lt : α → α → Bool) (hlt : StrictWeak lt) (P R S : List α) :
    minElement lt (P ++ R ++ S) P.length (P.length + R.length) = .ok (P.length + Spec.minElement lt R) := by
  unfold minElement
  cases R with
  | nil => simp [Spec.minElement]
  | cons x xs =>
    have hne : (P.length == P.length + (x :: xs).length) = false := by simp
    rw [hne]
    simp only [Bool.false_eq_true, if_false]
    have h0 : minmaxMinAt lt (x :: xs) 1 0 := by
      refine ⟨by simp, by omega, ?_, ?_⟩
      · intro j hj hj1
        have : j = 0 := by omega
        subst this; exact hlt.irrefl _
      · intro j hj hj0; omega
    have := minmax_minElemLoop_spec lt hlt P (x :: xs) S xs.length 1 0 (by simp; omega) h0
    rw [show P.length + (x :: xs).length - P.length - 1 = xs.length from by simp]
    exact this

example : minElement (fun x y : Nat => decide (x < y)) ([9] ++ [3, 1, 2, 1] ++ [0]) 1 5 = .ok (1 + 1) :=
  minElement_spec _ strictWeak_nat [9] [3, 1, 2, 1] [0]
example : StrictWeak (fun x y : Nat => decide (x < y)) := strictWeak_nat

/-! ### max_element -/

theorem minmax_maxElemLoop_spec (lt : α → α → Bool) (hlt : StrictWeak lt) (P R S : List α) :
    ∀ (n k s : Nat), k + n = R.length → minmaxMaxAt lt R k s →
    maxElemLoop lt (P ++ R ++ S) P.length (P.length + R.length) n (P.length + k) (P.length + s)
      = .ok (P.length + Spec.maxElement lt R) := by
  intro n
  induction n with
  | zero =>
    intro k s hk h
    have hk' : k = R.length := by omega
    subst hk'
    rw [minmax_maxAt_spec h]; rfl
  | succ n ih =>
    intro k s hk h
    have hk' : k < R.length := by omega
    obtain ⟨hs, _⟩ := id h
    unfold maxElemLoop
    rw [rdR_ctx P R S s hs, ok_bind, rdR_ctx P R S k hk', ok_bind]
    have e : (if lt R[s] R[k] = true then P.length + k else P.length + s)
        = P.length + (if lt R[s] R[k] then k else s) := by
      cases lt R[s] R[k] <;> rfl
    rw [e, show P.length + k + 1 = P.length + (k + 1) from by omega]
    exact ih (k + 1) _ (by omega) (minmax_maxAt_step hlt h hk' hs)

theorem maxElement_spec (lt : α → α → Bool) (hlt : StrictWeak lt) (P R S : List α) :
    maxElement lt (P ++ R ++ S) P.length (P.length + R.length) = .ok (P.length + Spec.maxElement lt R) := by
  unfold maxElement
  cases R with
  | nil => simp [Spec.maxElement]
  | cons x xs =>
    have hne : (P.length == P.length + (x :: xs).length) = false := by simp
    rw [hne]
    simp only [Bool.false_eq_true, if_false]
    have h0 : minmaxMaxAt lt (x :: xs) 1 0 := by
      refine ⟨by simp, by omega, ?_, ?_⟩
      · intro j hj hj1
        have : j = 0 := by omega
        subst this; exact hlt.irrefl _
      · intro j hj hj0; omega
    have := minmax_maxElemLoop_spec lt hlt P (x :: xs) S xs.length 1 0 (by simp; omega) h0
    rw [show P.length + (x :: xs).length - P.length - 1 = xs.length from by simp]
    exact this

example : maxElement (fun x y : Nat => decide (x < y)) ([9] ++ [3, 1, 3, 1] ++ [0]) 1 5 = .ok (1 + 0) :=
  maxElement_spec _ strictWeak_nat [9] [3, 1, 3, 1] [0]
example : StrictWeak (fun x y : Nat => decide (x < y)) := strictWeak_nat

/-! ### minmax_element -/

theorem minmax_minAt_step' {lt : α → α → Bool} (hlt : StrictWeak lt) {R : List α} {k s s' : Nat}
    (h : minmaxMinAt lt R k s) (hk : k < R.length) (hs : s < R.length)
    (e : s' = if lt R[k] R[s] then k else s) : minmaxMinAt lt R (k + 1) s' :=
  e ▸ minmax_minAt_step hlt h hk hs

theorem minmax_maxLastAt_step' {lt : α → α → Bool} (hlt : StrictWeak lt) {R : List α} {k s s' : Nat}
    (h : minmaxMaxLastAt lt R k s) (hk : k < R.length) (hs : s < R.length)
    (e : s' = if !lt R[k] R[s] then k else s) : minmaxMaxLastAt lt R (k + 1) s' :=
  e ▸ minmax_maxLastAt_step hlt h hk hs

/-- a pair `R[k+1] < R[k]`: only `R[k+1]` can be the new minimum, only `R[k]` the new maximum -/
theorem minmax_pair_lt {lt : α → α → Bool} (hlt : StrictWeak lt) {R : List α} {k mn mx : Nat}
    (hmn : minmaxMinAt lt R k mn) (hmx : minmaxMaxLastAt lt R k mx) (hk : k < R.length) (hk1 : k + 1 < R.length)
    (hsn : mn < R.length) (hsx : mx < R.length) (hd : lt R[k + 1] R[k] = true) :
    minmaxMinAt lt R (k + 2) (if lt R[k + 1] R[mn] then k + 1 else mn) ∧
    minmaxMaxLastAt lt R (k + 2) (if !lt R[k] R[mx] then k else mx) := by
  constructor
  · cases hc : lt R[k] R[mn] with
    | true =>
      have h1 : minmaxMinAt lt R (k + 1) k := minmax_minAt_step' hlt hmn hk hsn (by simp [hc])
      have hb : lt R[k + 1] R[mn] = true := hlt.trans _ _ _ hd hc
      exact minmax_minAt_step' hlt h1 hk1 hk (by simp [hb, hd])
    | false =>
      have h1 : minmaxMinAt lt R (k + 1) mn := minmax_minAt_step' hlt hmn hk hsn (by simp [hc])
      exact minmax_minAt_step' hlt h1 hk1 hsn rfl
  · cases hc : lt R[k] R[mx] with
    | false =>
      have h1 : minmaxMaxLastAt lt R (k + 1) k := minmax_maxLastAt_step' hlt hmx hk hsx (by simp [hc])
      exact minmax_maxLastAt_step' hlt h1 hk1 hk (by simp [hd])
    | true =>
      have h1 : minmaxMaxLastAt lt R (k + 1) mx := minmax_maxLastAt_step' hlt hmx hk hsx (by simp [hc])
      have hb : lt R[k + 1] R[mx] = true := hlt.trans _ _ _ hd hc
      exact minmax_maxLastAt_step' hlt h1 hk1 hsx (by simp [hb])

/-- a pair `R[k] ≤ R[k+1]`: only `R[k]` can be the new minimum, only `R[k+1]` the new maximum -/
theorem minmax_pair_ge {lt : α → α → Bool} (hlt : StrictWeak lt) {R : List α} {k mn mx : Nat}
    (hmn : minmaxMinAt lt R k mn) (hmx : minmaxMaxLastAt lt R k mx) (hk : k < R.length) (hk1 : k + 1 < R.length)
    (hsn : mn < R.length) (hsx : mx < R.length) (hd : lt R[k + 1] R[k] = false) :
    minmaxMinAt lt R (k + 2) (if lt R[k] R[mn] then k else mn) ∧
    minmaxMaxLastAt lt R (k + 2) (if !lt R[k + 1] R[mx] then k + 1 else mx) := by
  constructor
  · cases hc : lt R[k] R[mn] with
    | true =>
      have h1 : minmaxMinAt lt R (k + 1) k := minmax_minAt_step' hlt hmn hk hsn (by simp [hc])
      exact minmax_minAt_step' hlt h1 hk1 hk (by simp [hd])
    | false =>
      have h1 : minmaxMinAt lt R (k + 1) mn := minmax_minAt_step' hlt hmn hk hsn (by simp [hc])
      have hb : lt R[k + 1] R[mn] = false := hlt.le_trans hc hd
      exact minmax_minAt_step' hlt h1 hk1 hsn (by simp [hb])
  · cases hb : lt R[k + 1] R[mx] with
    | false =>
      cases hc : lt R[k] R[mx] with
      | false =>
        have h1 : minmaxMaxLastAt lt R (k + 1) k := minmax_maxLastAt_step' hlt hmx hk hsx (by simp [hc])
        exact minmax_maxLastAt_step' hlt h1 hk1 hk (by simp [hd])
      | true =>
        have h1 : minmaxMaxLastAt lt R (k + 1) mx := minmax_maxLastAt_step' hlt hmx hk hsx (by simp [hc])
        exact minmax_maxLastAt_step' hlt h1 hk1 hsx (by simp [hb])
    | true =>
      have hc : lt R[k] R[mx] = true := hlt.lt_of_le_of_lt hd hb
      have h1 : minmaxMaxLastAt lt R (k + 1) mx := minmax_maxLastAt_step' hlt hmx hk hsx (by simp [hc])
      exact minmax_maxLastAt_step' hlt h1 hk1 hsx (by simp [hb])

/-- the odd last element `R[k]` -/
theorem minmax_last {lt : α → α → Bool} (hlt : StrictWeak lt) {R : List α} {k mn mx : Nat}
    (hmn : minmaxMinAt lt R k mn) (hmx : minmaxMaxLastAt lt R k mx) (hk : k < R.length)
    (hsn : mn < R.length) (hsx : mx < R.length) :
    minmaxMinAt lt R (k + 1) (if lt R[k] R[mn] then k else mn) ∧
    minmaxMaxLastAt lt R (k + 1) (if lt R[k] R[mn] then mx else if !lt R[k] R[mx] then k else mx) := by
  refine ⟨minmax_minAt_step hlt hmn hk hsn, ?_⟩
  cases hc : lt R[k] R[mn] with
  | true =>
    have hle : lt R[mx] R[mn] = false := hmn.2.2.1 mx hsx hmx.2.1
    have hb : lt R[k] R[mx] = true := hlt.lt_of_lt_of_le hc hle
    exact minmax_maxLastAt_step' hlt hmx hk hsx (by simp [hb])
  | false => exact minmax_maxLastAt_step' hlt hmx hk hsx (by simp)

theorem minmax_loop_spec (lt : α → α → Bool) (hlt : StrictWeak lt) (P R S : List α) :
    ∀ (fuel p mn mx : Nat), p + 1 ≤ R.length → R.length ≤ p + fuel →
    minmaxMinAt lt R (p + 1) mn → minmaxMaxLastAt lt R (p + 1) mx →
    minmaxLoop lt (P ++ R ++ S) P.length (P.length + R.length) fuel (P.length + p) (P.length + mn) (P.length + mx)
      = .ok (P.length + Spec.minElement lt R, P.length + Spec.maxElementLast lt R) := by
  intro fuel
  induction fuel with
  | zero => intro p mn mx h1 h2; omega
  | succ fuel ih =>
    intro p mn mx hp hfuel hmn hmx
    obtain ⟨hsn, _⟩ := id hmn
    obtain ⟨hsx, _⟩ := id hmx
    unfold minmaxLoop
    simp only []
    rw [show P.length + p + 1 = P.length + (p + 1) from by omega,
      show P.length + (p + 1) + 1 = P.length + (p + 2) from by omega]
    by_cases h1 : p + 1 = R.length
    · rw [if_pos (by simp [h1])]
      rw [h1] at hmn hmx
      rw [minmax_minAt_spec hmn, minmax_maxLastAt_spec hmx]
    · have hk : p + 1 < R.length := by omega
      rw [if_neg (by simp; omega)]
      by_cases h2 : p + 2 = R.length
      · rw [if_pos (by simp [h2])]
        rw [rdR_ctx P R S (p + 1) hk, ok_bind, rdR_ctx P R S mn hsn, ok_bind]
        obtain ⟨hmn', hmx'⟩ := minmax_last hlt hmn hmx hk hsn hsx
        rw [show p + 1 + 1 = R.length from by omega] at hmn' hmx'
        rw [minmax_minAt_spec hmn', minmax_maxLastAt_spec hmx']
        cases hc : lt R[p + 1] R[mn] with
        | true => simp only [if_true]
        | false =>
          simp only [Bool.false_eq_true, if_false]
          rw [rdR_ctx P R S mx hsx, ok_bind]
          cases lt R[p + 1] R[mx] <;> rfl
      · have hk1 : p + 2 < R.length := by omega
        rw [if_neg (by simp; omega)]
        rw [rdR_ctx P R S (p + 2) hk1, ok_bind, rdR_ctx P R S (p + 1) hk, ok_bind]
        cases hd : lt R[p + 2] R[p + 1] with
        | true =>
          simp only [if_true]
          rw [rdR_ctx P R S mn hsn, ok_bind, rdR_ctx P R S mx hsx, ok_bind]
          obtain ⟨hmn', hmx'⟩ := minmax_pair_lt hlt hmn hmx hk hk1 hsn hsx hd
          have e1 : (if lt R[p + 2] R[mn] = true then P.length + (p + 2) else P.length + mn)
              = P.length + (if lt R[p + 1 + 1] R[mn] then p + 1 + 1 else mn) := by
            cases lt R[p + 2] R[mn] <;> rfl
          have e2 : (if (!lt R[p + 1] R[mx]) = true then P.length + (p + 1) else P.length + mx)
              = P.length + (if !lt R[p + 1] R[mx] then p + 1 else mx) := by
            cases lt R[p + 1] R[mx] <;> rfl
          rw [e1, e2]
          exact ih (p + 2) _ _ (by omega) (by omega) hmn' hmx'
        | false =>
          simp only [Bool.false_eq_true, if_false]
          rw [rdR_ctx P R S mn hsn, ok_bind, rdR_ctx P R S mx hsx, ok_bind]
          obtain ⟨hmn', hmx'⟩ := minmax_pair_ge hlt hmn hmx hk hk1 hsn hsx hd
          have e1 : (if lt R[p + 1] R[mn] = true then P.length + (p + 1) else P.length + mn)
              = P.length + (if lt R[p + 1] R[mn] then p + 1 else mn) := by
            cases lt R[p + 1] R[mn] <;> rfl
          have e2 : (if (!lt R[p + 2] R[mx]) = true then P.length + (p + 2) else P.length + mx)
              = P.length + (if !lt R[p + 1 + 1] R[mx] then p + 1 + 1 else mx) := by
            cases lt R[p + 2] R[mx] <;> rfl
          rw [e1, e2]
          exact ih (p + 2) _ _ (by omega) (by omega) hmn' hmx'

theorem minmax_minAt_one {lt : α → α → Bool} (hlt : StrictWeak lt) {R : List α} (h : 0 < R.length) :
    minmaxMinAt lt R 1 0 := by
  refine ⟨h, by omega, ?_, ?_⟩
  · intro j hj hj1
    have : j = 0 := by omega
    subst this; exact hlt.irrefl _
  · intro j hj hj0; omega

theorem minmax_maxLastAt_one {lt : α → α → Bool} (hlt : StrictWeak lt) {R : List α} (h : 0 < R.length) :
    minmaxMaxLastAt lt R 1 0 := by
  refine ⟨h, by omega, ?_, ?_⟩
  · intro j hj hj1
    have : j = 0 := by omega
    subst this; exact hlt.irrefl _
  · intro j hj h0 h1; omega

theorem minmaxElement_spec (lt : α → α → Bool) (hlt : StrictWeak lt) (P R S : List α) :
    minmaxElement lt (P ++ R ++ S) P.length (P.length + R.length)
      = .ok (P.length + Spec.minElement lt R, P.length + Spec.maxElementLast lt R) := by
  unfold minmaxElement
  by_cases h0 : R.length = 0
  · have : R = [] := List.eq_nil_of_length_eq_zero h0
    subst this
    simp [Spec.minElement, Spec.maxElementLast]
  · have hpos : 0 < R.length := by omega
    have hmn1 := minmax_minAt_one hlt hpos
    have hmx1 := minmax_maxLastAt_one hlt hpos
    by_cases h1 : R.length = 1
    · have hc : (P.length == P.length + R.length || P.length + 1 == P.length + R.length) = true := by
        simp [h1]
      rw [if_pos hc]
      rw [show (1 : Nat) = R.length from h1.symm] at hmn1 hmx1
      rw [minmax_minAt_spec hmn1, minmax_maxLastAt_spec hmx1]
      rfl
    · have hk : 1 < R.length := by omega
      have hc : ¬ (P.length == P.length + R.length || P.length + 1 == P.length + R.length) = true := by
        simp only [Bool.or_eq_true, beq_iff_eq]
        omega
      rw [if_neg hc]
      have hr0 := rdR_ctx P R S 0 hpos
      rw [Nat.add_zero] at hr0
      simp only []
      rw [rdR_ctx P R S 1 hk, ok_bind, hr0, ok_bind]
      have hmn2 := minmax_minAt_step hlt hmn1 hk hpos
      have hmx2 := minmax_maxLastAt_step hlt hmx1 hk hpos
      rw [show P.length + R.length - P.length = R.length from Nat.add_sub_cancel_left ..]
      cases hd : lt R[1] R[0] with
      | true =>
        rw [hd] at hmn2 hmx2
        simp only [if_true]
        have := minmax_loop_spec lt hlt P R S R.length 1 1 0 (by omega) (by omega) hmn2 hmx2
        rw [Nat.add_zero] at this
        exact this
      | false =>
        rw [hd] at hmn2 hmx2
        simp only [Bool.false_eq_true, if_false]
        have := minmax_loop_spec lt hlt P R S R.length 1 0 1 (by omega) (by omega) hmn2 hmx2
        rw [Nat.add_zero] at this
        exact this

example : minmaxElement (fun x y : Nat => decide (x < y)) ([9] ++ [3, 1, 3, 1, 2] ++ [0]) 1 6 = .ok (1 + 1, 1 + 2) :=
  minmaxElement_spec _ strictWeak_nat [9] [3, 1, 3, 1, 2] [0]
example : StrictWeak (fun x y : Nat => decide (x < y)) := strictWeak_nat

end Tetl.C06
