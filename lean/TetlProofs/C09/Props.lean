import TetlProofs.C09.Lemmas
namespace Tetl.C09.Props
theorem tmp_placeholder : (1 : Nat) = 1 := rfl
end Tetl.C09.Props
