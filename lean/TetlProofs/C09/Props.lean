/-
C09 — property theorems.  For every strict total comparator, every capacity and every sorted
vector (no size bound):  each modelled member of static_set / flat_set returns `.ok` (no access
outside the vector, no violated static_vector precondition, no exhausted loop bound: the C02 face)
of exactly what the declarative `std::set` spec prescribes; sortedness (= strict ascent, hence
uniqueness) and the capacity bound are invariants of every history; whole histories refine the spec.
-/
import TetlProofs.C09.Order
namespace Tetl.C09.Props
open Tetl Tetl.C09

variable {α : Type} {lt : α → α → Bool}

/-! ## lookups -/

theorem lowerBound_eq (hst : StrictTotal lt) {l : List α} (hs : Sorted lt l) (k : α) :
    lowerBound lt l k = .ok (Spec.lowerBound lt l k) := by
  obtain ⟨A, B, rfl, hA, hB, hr⟩ := lowerBound_split hst hs k
  rw [hr, spec_lowerBound hA hB]

theorem upperBound_eq (hst : StrictTotal lt) {l : List α} (hs : Sorted lt l) (k : α) :
    upperBound lt l k = .ok (Spec.upperBound lt l k) := by
  obtain ⟨A, B, rfl, hA, hB, hr⟩ := upperBound_split hst hs k
  rw [hr, spec_upperBound hA hB]

theorem equalRange_eq (hst : StrictTotal lt) {l : List α} (hs : Sorted lt l) (k : α) :
    equalRange lt l k = .ok (Spec.lowerBound lt l k, Spec.upperBound lt l k) := by
  simp [equalRange, lowerBound_eq hst hs, upperBound_eq hst hs]

example : Sorted (fun a b : Nat => decide (a < b)) [1, 3, 5] := by unfold Sorted; decide

/-- what the `lower_bound` + equivalence test sees, in terms of the spec -/
theorem probe (hst : StrictTotal lt) {l : List α} (hs : Sorted lt l) (k : α) :
    ∃ A B, l = A ++ B ∧ lowerBound lt l k = .ok A.length ∧ Spec.lowerBound lt l k = A.length ∧
      (∀ x ∈ A, lt x k = true) ∧ (∀ x ∈ A, lt k x = false) ∧ (∀ x ∈ B, lt x k = false) ∧
      ((∃ B', B = k :: B' ∧ (∀ x ∈ B', lt k x = true) ∧
          equivAt (fun x => lt k x) l A.length = .ok true ∧ Spec.contains lt l k = true) ∨
       ((∀ x ∈ B, lt k x = true) ∧
          equivAt (fun x => lt k x) l A.length = .ok false ∧ Spec.contains lt l k = false)) := by
  obtain ⟨A, B, rfl, hA, hB, hr⟩ := lowerBound_split hst hs k
  obtain ⟨hA', hcase⟩ := classify hst hs hA hB
  refine ⟨A, B, rfl, hr, spec_lowerBound hA hB, hA, hA', hB, ?_⟩
  rcases hcase with ⟨B', rfl, hB'⟩ | hB'
  · left
    refine ⟨B', rfl, hB', ?_, (spec_present hst hA hB').1⟩
    simp [equivAt, rd_append_mid, hst.irrefl]
  · right
    refine ⟨hB', ?_, (spec_absent hA hA' hB hB').1⟩
    cases B with
    | nil => simp [equivAt]
    | cons b B' => simp [equivAt, rd_append_mid, hB' b]

/-- `find` through `lower_bound` (flat_set::find, static_set's transparent find) -/
theorem findLB_eq (hst : StrictTotal lt) {l : List α} (hs : Sorted lt l) (k : α) :
    findLB (fun x => lt x k) (fun x => lt k x) l = .ok (Spec.find lt l k) := by
  obtain ⟨A, B, hl, hr, hsl, _, _, _, hcase⟩ := probe hst hs k
  have hr' : boundLoop l (fun x => lt x k) 0 l.length = .ok A.length := hr
  unfold findLB Spec.find
  rcases hcase with ⟨B', _, _, he, hc⟩ | ⟨_, he, hc⟩
  · simp [hr', he, hc, hsl]
  · simp [hr', he, hc]

/-- static_set::find(key): the linear `etl::find` gives the same answer on a sorted set -/
theorem ssFind_eq [DecidableEq α] (hst : StrictTotal lt) {l : List α} (hs : Sorted lt l) (k : α) :
    ssFind l k = .ok (Spec.find lt l k) := by
  obtain ⟨A, B, hl, _, hsl, hA, _, _, hcase⟩ := probe hst hs k
  obtain ⟨W, D, hWD, hW, hD, hres⟩ := findIfLoop_split (fun x => decide (x = k)) l []
  simp only [List.nil_append, List.length_nil, Nat.zero_add] at hres
  unfold ssFind Spec.find
  rw [hres]
  have hkA : k ∉ A := fun h => by have := hA k h; rw [hst.irrefl] at this; cases this
  have hkW : k ∉ W := fun h => by have := hW k h; simp at this
  have hDk : ∀ d D', D = d :: D' → d = k := fun d D' h => by simpa using hD d D' h
  rcases hcase with ⟨B', hB, hB', _, hc⟩ | ⟨hB', _, hc⟩
  · rw [hc, hsl]; simp only [if_true]
    subst hB
    have heq : W ++ D = A ++ k :: B' := by rw [← hWD, hl]
    rcases List.append_eq_append_iff.mp heq with ⟨a', ha, hd⟩ | ⟨c', hc', hd⟩
    · cases a' with
      | nil => simp at ha; rw [ha]
      | cons x a'' =>
        exfalso
        have : x = k := hDk x _ hd
        apply hkA; rw [ha, this]; simp
    · cases c' with
      | nil => simp at hc'; rw [hc']
      | cons y c'' =>
        exfalso
        have : k = y := by simp at hd; exact hd.1
        apply hkW; rw [hc', ← this]; simp
  · rw [hc]; simp only [Bool.false_eq_true, if_false]
    have hkl : k ∉ l := by
      rw [hl]; intro h
      rcases List.mem_append.mp h with h | h
      · exact hkA h
      · have := hB' k h; rw [hst.irrefl] at this; cases this
    cases D with
    | nil => rw [hWD]; simp
    | cons d D' =>
      exfalso
      have : d = k := hDk d D' rfl
      apply hkl; rw [hWD, this]; simp

/-! ## insert / emplace -/

theorem spec_insert_inv (hst : StrictTotal lt) {cap : Nat} {l : List α} (h : Inv1 lt cap l) (k : α) :
    Inv1 lt cap (Spec.insert lt cap l k).1 := by
  obtain ⟨hs, hc⟩ := h
  obtain ⟨A, B, hl, _, _, hA, hA', hB, hcase⟩ := probe hst hs k
  unfold Spec.insert
  rcases hcase with ⟨B', _, _, _, hct⟩ | ⟨hB', _, hct⟩
  · simp [hct]; exact ⟨hs, hc⟩
  · rw [hct]; simp only [Bool.false_eq_true, if_false]
    by_cases hfull : l.length ≥ cap
    · simp [hfull]; exact ⟨hs, hc⟩
    · simp only [hfull, if_false]
      subst hl
      obtain ⟨_, f1, f2, _, _⟩ := spec_absent hA hA' hB hB'
      rw [f1, f2]
      exact ⟨sorted_insert hs hA hB', by simp at hfull ⊢; omega⟩

/-- static_set::insert / emplace = spec insert, in particular `(position, inserted)` -/
theorem ssInsert_eq (hst : StrictTotal lt) {cap : Nat} {l : List α} (h : Inv1 lt cap l) (k : α) :
    ssInsert lt cap l k = .ok (Spec.insert lt cap l k) := by
  obtain ⟨hs, hc⟩ := h
  obtain ⟨A, B, hl, hr, hsl, hA, hA', hB, hcase⟩ := probe hst hs k
  unfold ssInsert Spec.insert
  rcases hcase with ⟨B', _, _, he, hct⟩ | ⟨hB', he, hct⟩
  · simp [hr, he, hct, hsl]
  · simp only [hr, he, hct, ok_bind, Bool.false_eq_true, if_false]
    by_cases hfull : l.length = cap
    · simp [hfull]
    · have hlt : ¬ l.length ≥ cap := by omega
      simp only [hfull, hlt, if_false]
      subst hl
      obtain ⟨_, f1, f2, _, _⟩ := spec_absent hA hA' hB hB'
      rw [f1, f2, hsl]
      have hlt' : A.length + B.length < cap := by simpa using hlt
      have hpb : svPushBack cap (A ++ B) k = .ok (A ++ B ++ [k]) := by
        simp [svPushBack]; omega
      have hrot := rotate_spec (A.length + B.length + 2) A B [k] [] (by simp; omega)
      have hrot' : rotate ((A ++ B ++ [k]).length + 1) (A ++ B ++ [k]) A.length
          ((A ++ B ++ [k]).length - 1) (A ++ B ++ [k]).length = .ok (A ++ [k] ++ B, A.length + 1) := by
        have e1 : (A ++ B ++ [k]).length - 1 = A.length + B.length := by simp
        have e2 : (A ++ B ++ [k]).length = A.length + B.length + 1 := by simp; omega
        rw [e1, e2]; simpa using hrot
      simp only [hpb, ok_bind, hrot']
      simp

/-- flat_set::emplace over static_vector = spec insert -/
theorem fsEmplace_eq (hst : StrictTotal lt) {cap : Nat} {l : List α} (h : Inv1 lt cap l) (k : α) :
    fsEmplace lt cap l k = .ok (Spec.insert lt cap l k) := by
  obtain ⟨hs, hc⟩ := h
  obtain ⟨A, B, hl, hr, hsl, hA, hA', hB, hcase⟩ := probe hst hs k
  unfold fsEmplace Spec.insert
  rcases hcase with ⟨B', _, _, he, hct⟩ | ⟨hB', he, hct⟩
  · simp [hr, he, hct, hsl]
  · simp only [hr, he, hct, ok_bind, Bool.false_eq_true, if_false, Bool.not_false, if_true]
    by_cases hfull : l.length = cap
    · simp [hfull]
    · have hlt : ¬ l.length ≥ cap := by omega
      simp only [hfull, hlt, if_false]
      subst hl
      obtain ⟨_, f1, f2, _, _⟩ := spec_absent hA hA' hB hB'
      rw [f1, f2, hsl]
      have hlt' : A.length + B.length < cap := by simpa using hlt
      have hrot := rotate_spec (A.length + B.length + 2) A B [k] [] (by simp; omega)
      have hrot' : rotate ((A ++ B).length + 2) (A ++ B ++ [k]) A.length (A ++ B).length
          ((A ++ B).length + 1) = .ok (A ++ [k] ++ B, A.length + 1) := by
        have e1 : (A ++ B).length = A.length + B.length := by simp
        rw [e1]; simpa using hrot
      have hem : svEmplace cap (A ++ B) A.length k = .ok (A ++ [k] ++ B, A.length) := by
        unfold svEmplace
        rw [if_neg hlt, if_neg (by simp), hrot']
      simp [hem]

/-- flat_set::emplace over the inplace-vector-like container = spec insert -/
theorem fiEmplace_eq (hst : StrictTotal lt) {cap : Nat} {l : List α} (h : Inv1 lt cap l) (k : α) :
    fiEmplace lt cap l k = .ok (Spec.insert lt cap l k) := by
  obtain ⟨hs, hc⟩ := h
  obtain ⟨A, B, hl, hr, hsl, hA, hA', hB, hcase⟩ := probe hst hs k
  unfold fiEmplace Spec.insert
  rcases hcase with ⟨B', _, _, he, hct⟩ | ⟨hB', he, hct⟩
  · simp [hr, he, hct, hsl]
  · simp only [hr, he, hct, ok_bind, Bool.false_eq_true, if_false, Bool.not_false, if_true]
    by_cases hfull : l.length = cap
    · simp [hfull]
    · have hlt : ¬ l.length ≥ cap := by omega
      simp only [hfull, hlt, if_false]
      subst hl
      obtain ⟨_, f1, f2, _, _⟩ := spec_absent hA hA' hB hB'
      rw [f1, f2, hsl]
      have hlt' : ¬ cap ≤ A.length + B.length := by simpa using hlt
      have h2 : ¬ (A.length + B.length < A.length) := by omega
      simp [miniEmplace, hlt', h2]

/-- Inserting a new key into a full set reports failure and leaves the set unchanged
    (all three set kinds, through the three refinement theorems above). -/
theorem full_insert_new_key (hst : StrictTotal lt) {cap : Nat} {l : List α} (h : Inv1 lt cap l) (k : α)
    (hfull : l.length = cap) (hnew : Spec.contains lt l k = false) :
    ssInsert lt cap l k = .ok (l, .full) ∧ fsEmplace lt cap l k = .ok (l, .full) ∧
      fiEmplace lt cap l k = .ok (l, .full) := by
  have : Spec.insert lt cap l k = (l, .full) := by simp [Spec.insert, hnew, hfull]
  rw [ssInsert_eq hst h, fsEmplace_eq hst h, fiEmplace_eq hst h, this]
  exact ⟨rfl, rfl, rfl⟩

example : Inv1 (fun a b : Nat => decide (a < b)) 3 [1, 3, 5] ∧
    Spec.contains (fun a b : Nat => decide (a < b)) [1, 3, 5] 4 = false :=
  ⟨⟨by unfold Sorted; decide, by decide⟩, by decide⟩

/-! ## erase -/

/-- static_set::erase(key) = spec (`filter` + count) -/
theorem ssEraseKey_eq (hst : StrictTotal lt) {l : List α} (hs : Sorted lt l) (k : α) :
    ssEraseKey lt l k = .ok (Spec.eraseKey lt l k) := by
  obtain ⟨A, B, hl, hr, hsl, hA, hA', hB, hcase⟩ := probe hst hs k
  unfold ssEraseKey Spec.eraseKey
  rcases hcase with ⟨B', hB2, hB', he, _⟩ | ⟨hB', he, _⟩
  · subst hB2; subst hl
    obtain ⟨_, f1, f2, _⟩ := spec_present hst hA hB'
    have her : ssEraseAt (A ++ k :: B') A.length = .ok (A ++ B', A.length) := by
      unfold ssEraseAt
      rw [if_neg (by simp), svErase_eq _ _ _ (by omega) (by simp)]
      simp
    simp [hr, he, her, f1, f2]
  · subst hl
    obtain ⟨_, _, _, f1, f2⟩ := spec_absent hA hA' hB hB'
    simp [hr, he, f1, f2]

/-- what `remove` + `erase(it, end())` leaves and counts, in spec terms -/
theorem remove_erase_spec [DecidableEq α] (hst : StrictTotal lt) (l : List α) (k : α) :
    ∃ l1, removeIf l (fun x => decide (x = k)) = .ok (l1, (Spec.eraseKey lt l k).1.length) ∧
      l1.take (Spec.eraseKey lt l k).1.length ++ l1.drop l1.length = (Spec.eraseKey lt l k).1 ∧
      (Spec.eraseKey lt l k).1.length ≤ l1.length ∧
      l1.length - (Spec.eraseKey lt l k).1.length = (Spec.eraseKey lt l k).2 := by
  have hq : (fun x => !Spec.equiv lt k x) = (fun x => !(fun x => decide (x = k)) x) := by
    funext x; rw [equiv_iff_eq hst]
  have hq2 : Spec.equiv lt k = (fun x => decide (x = k)) := by funext x; rw [equiv_iff_eq hst]
  obtain ⟨l1, h1, h2, h3⟩ := removeIf_spec (fun x => decide (x = k)) l
  refine ⟨l1, ?_, ?_, ?_, ?_⟩
  · simp only [Spec.eraseKey, hq]; exact h1
  · simp only [Spec.eraseKey, hq]; rw [h2]; simp
  · simp only [Spec.eraseKey, hq]; rw [h3]; exact List.length_filter_le _ _
  · simp only [Spec.eraseKey, hq, hq2, h3]
    have := countP_add_not (fun x => decide (x = k)) l
    omega

/-- flat_set::erase(key) (`remove` + `erase(it,end)`) = spec -/
theorem fsEraseKey_eq [DecidableEq α] (hst : StrictTotal lt) (l : List α) (k : α) :
    fsEraseKey l k = .ok (Spec.eraseKey lt l k) := by
  obtain ⟨l1, h1, h2, h3, h4⟩ := remove_erase_spec hst l k
  unfold fsEraseKey
  simp only [h1, ok_bind]
  rw [svErase_eq _ _ _ h3 (Nat.le_refl _)]
  simp only [ok_bind, h2, h4]

/-- erase(pos) and erase(first,last) on a valid position / range = spec -/
theorem ssEraseRange_eq (l : List α) (f la : Nat) (h1 : f ≤ la) (h2 : la ≤ l.length) :
    ssEraseRange l f la = .ok (Spec.eraseRange l f la) := svErase_eq l f la h1 h2

theorem ssEraseAt_eq (l : List α) (pos : Nat) (h : pos < l.length) :
    ssEraseAt l pos = .ok (Spec.eraseRange l pos (pos + 1)) := by
  unfold ssEraseAt
  rw [if_neg (by omega), svErase_eq _ _ _ (by omega) (by omega)]
  rfl

example : (1 : Nat) < [1, 3, 5].length := by decide

/-! ## range insert -/

theorem ssInsertRange_eq (hst : StrictTotal lt) {cap : Nat} (ks : List α) : ∀ {l : List α}, Inv1 lt cap l →
    ssInsertRange lt cap l ks = .ok (Spec.insertRange lt cap l ks) := by
  induction ks with
  | nil => intro l _; rfl
  | cons k ks ih =>
    intro l h
    simp only [ssInsertRange, Spec.insertRange, ssInsert_eq hst h, ok_bind]
    exact ih (spec_insert_inv hst h k)

theorem fsInsertRange_eq (hst : StrictTotal lt) {cap : Nat} (ks : List α) : ∀ {l : List α}, Inv1 lt cap l →
    fsInsertRange lt cap l ks = .ok (Spec.insertRange lt cap l ks) := by
  induction ks with
  | nil => intro l _; rfl
  | cons k ks ih =>
    intro l h
    simp only [fsInsertRange, Spec.insertRange, fsEmplace_eq hst h, ok_bind]
    exact ih (spec_insert_inv hst h k)

theorem fiInsertRange_eq (hst : StrictTotal lt) {cap : Nat} (ks : List α) : ∀ {l : List α}, Inv1 lt cap l →
    fiInsertRange lt cap l ks = .ok (Spec.insertRange lt cap l ks) := by
  induction ks with
  | nil => intro l _; rfl
  | cons k ks ih =>
    intro l h
    simp only [fiInsertRange, Spec.insertRange, fiEmplace_eq hst h, ok_bind]
    exact ih (spec_insert_inv hst h k)

theorem spec_insertRange_inv (hst : StrictTotal lt) {cap : Nat} (ks : List α) : ∀ {l : List α}, Inv1 lt cap l →
    Inv1 lt cap (Spec.insertRange lt cap l ks) := by
  induction ks with
  | nil => intro l h; exact h
  | cons k ks ih => intro l h; exact ih (spec_insert_inv hst h k)

/-! ## histories -/

theorem spec_eraseKey_inv {cap : Nat} {l : List α} (h : Inv1 lt cap l) (k : α) :
    Inv1 lt cap (Spec.eraseKey lt l k).1 :=
  ⟨sorted_filter h.1 _, Nat.le_trans (List.length_filter_le _ _) h.2⟩

theorem spec_eraseRange_inv {cap : Nat} {l : List α} (h : Inv1 lt cap l) (f la : Nat) (hfl : f ≤ la) :
    Inv1 lt cap (Spec.eraseRange l f la).1 := by
  refine ⟨sorted_eraseRange h.1 f la hfl, ?_⟩
  have := h.2
  simp [Spec.eraseRange]; omega

/-- every operation keeps both sets strictly ascending (hence unique) and within capacity -/
theorem step_inv (hst : StrictTotal lt) (isSet : Bool) {cap : Nat} {s : St α} (hinv : Inv lt cap s) (op : Op α)
    (hv : Spec.valid cap lt s op = true) : Inv lt cap (Spec.step isSet lt cap s op).1 := by
  obtain ⟨h1, h2⟩ := hinv
  cases op with
  | insert k => exact ⟨spec_insert_inv hst h1 k, h2⟩
  | insertRange ks => exact ⟨spec_insertRange_inv hst ks h1, h2⟩
  | eraseKey k => exact ⟨spec_eraseKey_inv h1 k, h2⟩
  | eraseAt pos => exact ⟨spec_eraseRange_inv h1 pos (pos + 1) (by omega), h2⟩
  | eraseRange f la =>
    simp [Spec.valid] at hv
    exact ⟨spec_eraseRange_inv h1 f la hv.1, h2⟩
  | clear => exact ⟨⟨List.Pairwise.nil, Nat.zero_le _⟩, h2⟩
  | swap => exact ⟨h2, h1⟩
  | extract =>
    cases isSet
    · exact ⟨⟨List.Pairwise.nil, Nat.zero_le _⟩, h2⟩
    · exact ⟨h1, h2⟩
  | replace c =>
    simp [Spec.valid] at hv
    cases isSet
    · exact ⟨⟨hv.2, hv.1⟩, h2⟩
    · exact ⟨h1, h2⟩
  | find k het => exact ⟨h1, h2⟩
  | contains k het => exact ⟨h1, h2⟩
  | count k het => exact ⟨h1, h2⟩
  | lowerBound k => exact ⟨h1, h2⟩
  | upperBound k => exact ⟨h1, h2⟩
  | equalRange k => exact ⟨h1, h2⟩

/-- One operation of any of the three set kinds on a state satisfying the invariant: the model
    never errors and produces exactly the spec's new state and observable result. -/
theorem step_refines [DecidableEq α] (hst : StrictTotal lt) (kind : Kind) {cap : Nat} {s : St α}
    (hinv : Inv lt cap s) (op : Op α) (hv : Spec.valid cap lt s op = true) (hk : opOk kind op = true) :
    step kind lt cap s op = .ok (Spec.step (kind == .ss) lt cap s op) := by
  obtain ⟨h1, h2⟩ := hinv
  have hs := h1.1
  cases op with
  | insert k =>
    cases kind <;> simp [step, Spec.step, ssInsert_eq hst h1, fsEmplace_eq hst h1, fiEmplace_eq hst h1]
  | insertRange ks =>
    cases kind <;>
      simp [step, Spec.step, ssInsertRange_eq hst ks h1, fsInsertRange_eq hst ks h1, fiInsertRange_eq hst ks h1]
  | eraseKey k =>
    cases kind
    · simp [step, Spec.step, ssEraseKey_eq hst hs]
    · simp [step, Spec.step, fsEraseKey_eq hst]
    · obtain ⟨l1, e1, e2, e3, e4⟩ := remove_erase_spec hst s.cur k
      have hme : miniErase l1 (Spec.eraseKey lt s.cur k).1.length l1.length
          = .ok (l1.take (Spec.eraseKey lt s.cur k).1.length ++ l1.drop l1.length,
              (Spec.eraseKey lt s.cur k).1.length) := by
        unfold miniErase
        have : (decide ((Spec.eraseKey lt s.cur k).1.length > l1.length) || decide (l1.length > l1.length)) = false := by
          simp; omega
        rw [this]; rfl
      have e2' : l1.take (Spec.eraseKey lt s.cur k).1.length = (Spec.eraseKey lt s.cur k).1 := by simpa using e2
      simp [step, Spec.step, e1, hme, e2', e4]
  | eraseAt pos =>
    simp [Spec.valid] at hv
    cases kind
    · simp [step, Spec.step, ssEraseAt_eq _ _ hv]
    · simp [step, Spec.step, ssEraseAt_eq _ _ hv]
    · have : (decide (pos > pos + 1) || decide (pos + 1 > s.cur.length)) = false := by simp; omega
      simp [step, Spec.step, miniErase, this, Spec.eraseRange]
  | eraseRange f la =>
    simp [Spec.valid] at hv
    cases kind
    · simp [step, Spec.step, ssEraseRange_eq _ _ _ hv.1 hv.2]
    · simp [step, Spec.step, ssEraseRange_eq _ _ _ hv.1 hv.2]
    · have : (decide (f > la) || decide (la > s.cur.length)) = false := by simp; omega
      simp [step, Spec.step, miniErase, this, Spec.eraseRange]
  | clear => cases kind <;> simp [step, Spec.step]
  | swap => cases kind <;> simp [step, Spec.step]
  | extract => cases kind <;> simp [opOk] at hk <;> simp [step, Spec.step]
  | replace c =>
    simp [Spec.valid] at hv
    have : ¬ c.length > cap := by omega
    cases kind <;> simp [opOk] at hk <;> simp [step, Spec.step, this]
  | find k het =>
    cases kind <;> cases het <;> simp [step, Spec.step, ssFind_eq hst hs, findLB_eq hst hs]
  | contains k het =>
    have hc : ((Spec.find lt s.cur k) != s.cur.length) = Spec.contains lt s.cur k := by
      unfold Spec.find
      cases hcc : Spec.contains lt s.cur k with
      | false => simp
      | true =>
        simp only [if_true]
        obtain ⟨A, B, hl, _, hsl, _, _, _, hcase⟩ := probe hst hs k
        rcases hcase with ⟨B', hB, _, _, _⟩ | ⟨_, _, hcf⟩
        · rw [hsl, hl, hB]; simp
        · rw [hcf] at hcc; cases hcc
    cases kind <;> cases het <;> simp [step, Spec.step, ssFind_eq hst hs, findLB_eq hst hs, hc]
  | count k het =>
    have hc : ((Spec.find lt s.cur k) != s.cur.length) = Spec.contains lt s.cur k := by
      unfold Spec.find
      cases hcc : Spec.contains lt s.cur k with
      | false => simp
      | true =>
        simp only [if_true]
        obtain ⟨A, B, hl, _, hsl, _, _, _, hcase⟩ := probe hst hs k
        rcases hcase with ⟨B', hB, _, _, _⟩ | ⟨_, _, hcf⟩
        · rw [hsl, hl, hB]; simp
        · rw [hcf] at hcc; cases hcc
    have hc2 : (if Spec.find lt s.cur k = s.cur.length then 0 else 1)
        = (if Spec.contains lt s.cur k = true then 1 else 0) := by
      cases hcc : Spec.contains lt s.cur k with
      | false => rw [hcc] at hc; simp at hc; simp [hc]
      | true => rw [hcc] at hc; simp at hc; simp [hc]
    cases kind <;> cases het <;> simp [step, Spec.step, ssFind_eq hst hs, findLB_eq hst hs, hc2]
  | lowerBound k => cases kind <;> simp [step, Spec.step, lowerBound_eq hst hs]
  | upperBound k => cases kind <;> simp [step, Spec.step, upperBound_eq hst hs]
  | equalRange k => cases kind <;> simp [step, Spec.step, equalRange_eq hst hs]

/-- MAIN THEOREM (refinement over histories).  From any state whose two sets are strictly
    ascending and within capacity, every history of insert/emplace, range insert, erase by
    key/position/range, clear, swap, extract, replace and all lookups — of any length, for any
    capacity, key type and strict total comparator, for static_set and both flat_set backings —
    runs without a single out-of-vector access, precondition violation or exhausted loop bound,
    and its outputs (positions, inserted flags, `full` reports, erased counts, lookup answers,
    extracted contents) and final state equal those of the std::set specification. -/
theorem run_refines [DecidableEq α] (hst : StrictTotal lt) (kind : Kind) (cap : Nat) :
    ∀ (ops : List (Op α)) (s : St α), Inv lt cap s → opsOk kind ops = true →
      validHist (kind == .ss) lt cap s ops = true →
      run kind lt cap s ops = .ok (Spec.run (kind == .ss) lt cap s ops) := by
  intro ops
  induction ops with
  | nil => intro s _ _ _; rfl
  | cons op ops ih =>
    intro s hinv hok hv
    simp only [opsOk, List.all_cons, Bool.and_eq_true] at hok
    simp only [validHist, Bool.and_eq_true] at hv
    have hstep := step_refines hst kind hinv op hv.1 hok.1
    have hinv' := step_inv hst (kind == .ss) hinv op hv.1
    have hrest := ih (Spec.step (kind == .ss) lt cap s op).1 hinv' hok.2 hv.2
    simp only [run, Spec.run, hstep, ok_bind, hrest]

/-- MAIN THEOREM (invariant over histories): after every valid history both sets are strictly
    ascending w.r.t. the comparator — hence duplicate-free — and within capacity. -/
theorem inv_history (hst : StrictTotal lt) (isSet : Bool) (cap : Nat) :
    ∀ (ops : List (Op α)) (s : St α), Inv lt cap s → validHist isSet lt cap s ops = true →
      Inv lt cap (Spec.run isSet lt cap s ops).1 := by
  intro ops
  induction ops with
  | nil => intro s h _; exact h
  | cons op ops ih =>
    intro s hinv hv
    simp only [validHist, Bool.and_eq_true] at hv
    exact ih _ (step_inv hst isSet hinv op hv.1) hv.2

/-- the comparators of the harness satisfy the hypothesis -/
theorem strictTotal_nat_lt : StrictTotal (fun a b : Nat => decide (a < b)) :=
  ⟨by simp, by intro a b c; simp; omega, by intro a b; simp; omega⟩
theorem strictTotal_nat_gt : StrictTotal (fun a b : Nat => decide (a > b)) :=
  ⟨by simp, by intro a b c; simp; omega, by intro a b; simp; omega⟩

-- non-vacuity: a concrete state and history satisfying every hypothesis of `run_refines`
example : Inv (fun a b : Nat => decide (a < b)) 3 { cur := [1, 3, 5], other := [2] } :=
  ⟨⟨by unfold Sorted; decide, by decide⟩, ⟨by unfold Sorted; decide, by decide⟩⟩
example : validHist false (fun a b : Nat => decide (a < b)) 3 { cur := [1, 3, 5], other := [2] }
    [.insert 4, .eraseKey 2, .eraseAt 1, .insert 4, .swap, .eraseRange 0 1, .replace [0, 7], .extract] = true := by
  decide
example : opsOk Kind.fs ([.insert 4, .swap, .replace [0, 7], .extract] : List (Op Nat)) = true := by decide

end Tetl.C09.Props
