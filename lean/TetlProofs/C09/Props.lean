/-
C09 — property theorems.  For every strict total comparator, every capacity and every sorted
vector (no size bound):  each modelled member of static_set / flat_set returns `.ok` (no access
outside the vector, no violated static_vector precondition, no exhausted loop bound: the C02 face)
of exactly what the declarative `std::set` spec prescribes; sortedness (= strict ascent, hence
uniqueness) and the capacity bound are invariants of every history; whole histories refine the spec.
-/
import TetlProofs.C09.Order
namespace Tetl.C09.Props
open Tetl Tetl.C09

variable {α : Type} {lt : α → α → Bool}

/-! ## lookups -/

theorem lowerBound_eq (hst : StrictTotal lt) {l : List α} (hs : Sorted lt l) (k : α) :
    lowerBound lt l k = .ok (Spec.lowerBound lt l k) := by
  obtain ⟨A, B, rfl, hA, hB, hr⟩ := lowerBound_split hst hs k
  rw [hr, spec_lowerBound hA hB]

theorem upperBound_eq (hst : StrictTotal lt) {l : List α} (hs : Sorted lt l) (k : α) :
    upperBound lt l k = .ok (Spec.upperBound lt l k) := by
  obtain ⟨A, B, rfl, hA, hB, hr⟩ := upperBound_split hst hs k
  rw [hr, spec_upperBound hA hB]

theorem equalRange_eq (hst : StrictTotal lt) {l : List α} (hs : Sorted lt l) (k : α) :
    equalRange lt l k = .ok (Spec.lowerBound lt l k, Spec.upperBound lt l k) := by
  simp [equalRange, lowerBound_eq hst hs, upperBound_eq hst hs]

example : Sorted (fun a b : Nat => decide (a < b)) [1, 3, 5] := by unfold Sorted; decide

/-- what the `lower_bound` + equivalence test sees, in terms of the spec -/
theorem probe (hst : StrictTotal lt) {l : List α} (hs : Sorted lt l) (k : α) :
    ∃ A B, l = A ++ B ∧ lowerBound lt l k = .ok A.length ∧ Spec.lowerBound lt l k = A.length ∧
      (∀ x ∈ A, lt x k = true) ∧ (∀ x ∈ A, lt k x = false) ∧ (∀ x ∈ B, lt x k = false) ∧
      ((∃ B', B = k :: B' ∧ (∀ x ∈ B', lt k x = true) ∧
          equivAt (fun x => lt k x) l A.length = .ok true ∧ Spec.contains lt l k = true) ∨
       ((∀ x ∈ B, lt k x = true) ∧
          equivAt (fun x => lt k x) l A.length = .ok false ∧ Spec.contains lt l k = false)) := by
  obtain ⟨A, B, rfl, hA, hB, hr⟩ := lowerBound_split hst hs k
  obtain ⟨hA', hcase⟩ := classify hst hs hA hB
  refine ⟨A, B, rfl, hr, spec_lowerBound hA hB, hA, hA', hB, ?_⟩
  rcases hcase with ⟨B', rfl, hB'⟩ | hB'
  · left
    refine ⟨B', rfl, hB', ?_, (spec_present hst hA hB').1⟩
    simp [equivAt, rd_append_mid, hst.irrefl]
  · right
    refine ⟨hB', ?_, (spec_absent hA hA' hB hB').1⟩
    cases B with
    | nil => simp [equivAt]
    | cons b B' => simp [equivAt, rd_append_mid, hB' b]

/-- `find` through `lower_bound` (flat_set::find, static_set's transparent find) -/
theorem findLB_eq (hst : StrictTotal lt) {l : List α} (hs : Sorted lt l) (k : α) :
    findLB (fun x => lt x k) (fun x => lt k x) l = .ok (Spec.find lt l k) := by
  obtain ⟨A, B, hl, hr, hsl, _, _, _, hcase⟩ := probe hst hs k
  have hr' : boundLoop l (fun x => lt x k) 0 l.length = .ok A.length := hr
  unfold findLB Spec.find
  rcases hcase with ⟨B', _, _, he, hc⟩ | ⟨_, he, hc⟩
  · simp [hr', he, hc, hsl]
  · simp [hr', he, hc]

/-- static_set::find(key): the linear `etl::find` gives the same answer on a sorted set -/
theorem ssFind_eq [DecidableEq α] (hst : StrictTotal lt) {l : List α} (hs : Sorted lt l) (k : α) :
    ssFind l k = .ok (Spec.find lt l k) := by
  obtain ⟨A, B, hl, _, hsl, hA, _, _, hcase⟩ := probe hst hs k
  obtain ⟨W, D, hWD, hW, hD, hres⟩ := findIfLoop_split (fun x => decide (x = k)) l []
  simp only [List.nil_append, List.length_nil, Nat.zero_add] at hres
  unfold ssFind Spec.find
  rw [hres]
  have hkA : k ∉ A := fun h => by have := hA k h; rw [hst.irrefl] at this; cases this
  have hkW : k ∉ W := fun h => by have := hW k h; simp at this
  have hDk : ∀ d D', D = d :: D' → d = k := fun d D' h => by simpa using hD d D' h
  rcases hcase with ⟨B', hB, hB', _, hc⟩ | ⟨hB', _, hc⟩
  · rw [hc, hsl]; simp only [if_true]
    subst hB
    have heq : W ++ D = A ++ k :: B' := by rw [← hWD, hl]
    rcases List.append_eq_append_iff.mp heq with ⟨a', ha, hd⟩ | ⟨c', hc', hd⟩
    · cases a' with
      | nil => simp at ha; rw [ha]
      | cons x a'' =>
        exfalso
        have : x = k := hDk x _ hd
        apply hkA; rw [ha, this]; simp
    · cases c' with
      | nil => simp at hc'; rw [hc']
      | cons y c'' =>
        exfalso
        have : k = y := by simp at hd; exact hd.1
        apply hkW; rw [hc', ← this]; simp
  · rw [hc]; simp only [Bool.false_eq_true, if_false]
    have hkl : k ∉ l := by
      rw [hl]; intro h
      rcases List.mem_append.mp h with h | h
      · exact hkA h
      · have := hB' k h; rw [hst.irrefl] at this; cases this
    cases D with
    | nil => rw [hWD]; simp
    | cons d D' =>
      exfalso
      have : d = k := hDk d D' rfl
      apply hkl; rw [hWD, this]; simp

/-! ## insert / emplace -/

/-- invariant of one set: strictly ascending and within capacity -/
def Inv1 (lt : α → α → Bool) (cap : Nat) (l : List α) : Prop := Sorted lt l ∧ l.length ≤ cap

theorem spec_insert_inv (hst : StrictTotal lt) {cap : Nat} {l : List α} (h : Inv1 lt cap l) (k : α) :
    Inv1 lt cap (Spec.insert lt cap l k).1 := by
  obtain ⟨hs, hc⟩ := h
  obtain ⟨A, B, hl, _, _, hA, hA', hB, hcase⟩ := probe hst hs k
  unfold Spec.insert
  rcases hcase with ⟨B', _, _, _, hct⟩ | ⟨hB', _, hct⟩
  · simp [hct]; exact ⟨hs, hc⟩
  · rw [hct]; simp only [Bool.false_eq_true, if_false]
    by_cases hfull : l.length ≥ cap
    · simp [hfull]; exact ⟨hs, hc⟩
    · simp only [hfull, if_false]
      subst hl
      obtain ⟨_, f1, f2, _, _⟩ := spec_absent hA hA' hB hB'
      rw [f1, f2]
      exact ⟨sorted_insert hs hA hB', by simp at hfull ⊢; omega⟩

/-- static_set::insert / emplace = spec insert, in particular `(position, inserted)` -/
theorem ssInsert_eq (hst : StrictTotal lt) {cap : Nat} {l : List α} (h : Inv1 lt cap l) (k : α) :
    ssInsert lt cap l k = .ok (Spec.insert lt cap l k) := by
  obtain ⟨hs, hc⟩ := h
  obtain ⟨A, B, hl, hr, hsl, hA, hA', hB, hcase⟩ := probe hst hs k
  unfold ssInsert Spec.insert
  rcases hcase with ⟨B', _, _, he, hct⟩ | ⟨hB', he, hct⟩
  · simp [hr, he, hct, hsl]
  · simp only [hr, he, hct, ok_bind, Bool.false_eq_true, if_false]
    by_cases hfull : l.length = cap
    · simp [hfull]
    · have hlt : ¬ l.length ≥ cap := by omega
      simp only [hfull, hlt, if_false]
      subst hl
      obtain ⟨_, f1, f2, _, _⟩ := spec_absent hA hA' hB hB'
      rw [f1, f2, hsl]
      have hlt' : A.length + B.length < cap := by simpa using hlt
      have hpb : svPushBack cap (A ++ B) k = .ok (A ++ B ++ [k]) := by
        simp [svPushBack]; omega
      have hrot := rotate_spec (A.length + B.length + 2) A B [k] [] (by simp; omega)
      have hrot' : rotate ((A ++ B ++ [k]).length + 1) (A ++ B ++ [k]) A.length
          ((A ++ B ++ [k]).length - 1) (A ++ B ++ [k]).length = .ok (A ++ [k] ++ B, A.length + 1) := by
        have e1 : (A ++ B ++ [k]).length - 1 = A.length + B.length := by simp
        have e2 : (A ++ B ++ [k]).length = A.length + B.length + 1 := by simp; omega
        rw [e1, e2]; simpa using hrot
      simp only [hpb, ok_bind, hrot']
      simp

/-- flat_set::emplace over static_vector = spec insert -/
theorem fsEmplace_eq (hst : StrictTotal lt) {cap : Nat} {l : List α} (h : Inv1 lt cap l) (k : α) :
    fsEmplace lt cap l k = .ok (Spec.insert lt cap l k) := by
  obtain ⟨hs, hc⟩ := h
  obtain ⟨A, B, hl, hr, hsl, hA, hA', hB, hcase⟩ := probe hst hs k
  unfold fsEmplace Spec.insert
  rcases hcase with ⟨B', _, _, he, hct⟩ | ⟨hB', he, hct⟩
  · simp [hr, he, hct, hsl]
  · simp only [hr, he, hct, ok_bind, Bool.false_eq_true, if_false, Bool.not_false, if_true]
    by_cases hfull : l.length = cap
    · simp [hfull]
    · have hlt : ¬ l.length ≥ cap := by omega
      simp only [hfull, hlt, if_false]
      subst hl
      obtain ⟨_, f1, f2, _, _⟩ := spec_absent hA hA' hB hB'
      rw [f1, f2, hsl]
      have hlt' : A.length + B.length < cap := by simpa using hlt
      have hrot := rotate_spec (A.length + B.length + 2) A B [k] [] (by simp; omega)
      have hrot' : rotate ((A ++ B).length + 2) (A ++ B ++ [k]) A.length (A ++ B).length
          ((A ++ B).length + 1) = .ok (A ++ [k] ++ B, A.length + 1) := by
        have e1 : (A ++ B).length = A.length + B.length := by simp
        rw [e1]; simpa using hrot
      have hem : svEmplace cap (A ++ B) A.length k = .ok (A ++ [k] ++ B, A.length) := by
        unfold svEmplace
        rw [if_neg hlt, if_neg (by simp), hrot']
      simp [hem]

/-- flat_set::emplace over the inplace-vector-like container = spec insert -/
theorem fiEmplace_eq (hst : StrictTotal lt) {cap : Nat} {l : List α} (h : Inv1 lt cap l) (k : α) :
    fiEmplace lt cap l k = .ok (Spec.insert lt cap l k) := by
  obtain ⟨hs, hc⟩ := h
  obtain ⟨A, B, hl, hr, hsl, hA, hA', hB, hcase⟩ := probe hst hs k
  unfold fiEmplace Spec.insert
  rcases hcase with ⟨B', _, _, he, hct⟩ | ⟨hB', he, hct⟩
  · simp [hr, he, hct, hsl]
  · simp only [hr, he, hct, ok_bind, Bool.false_eq_true, if_false, Bool.not_false, if_true]
    by_cases hfull : l.length = cap
    · simp [hfull]
    · have hlt : ¬ l.length ≥ cap := by omega
      simp only [hfull, hlt, if_false]
      subst hl
      obtain ⟨_, f1, f2, _, _⟩ := spec_absent hA hA' hB hB'
      rw [f1, f2, hsl]
      have hlt' : ¬ cap ≤ A.length + B.length := by simpa using hlt
      have h2 : ¬ (A.length + B.length < A.length) := by omega
      simp [miniEmplace, hlt', h2]

/-- Inserting a new key into a full set reports failure and leaves the set unchanged
    (all three set kinds, through the three refinement theorems above). -/
theorem full_insert_new_key (hst : StrictTotal lt) {cap : Nat} {l : List α} (h : Inv1 lt cap l) (k : α)
    (hfull : l.length = cap) (hnew : Spec.contains lt l k = false) :
    ssInsert lt cap l k = .ok (l, .full) ∧ fsEmplace lt cap l k = .ok (l, .full) ∧
      fiEmplace lt cap l k = .ok (l, .full) := by
  have : Spec.insert lt cap l k = (l, .full) := by simp [Spec.insert, hnew, hfull]
  rw [ssInsert_eq hst h, fsEmplace_eq hst h, fiEmplace_eq hst h, this]
  exact ⟨rfl, rfl, rfl⟩

example : Inv1 (fun a b : Nat => decide (a < b)) 3 [1, 3, 5] ∧
    Spec.contains (fun a b : Nat => decide (a < b)) [1, 3, 5] 4 = false :=
  ⟨⟨by unfold Sorted; decide, by decide⟩, by decide⟩

/-! ## erase -/

/-- static_set::erase(key) = spec (`filter` + count) -/
theorem ssEraseKey_eq (hst : StrictTotal lt) {l : List α} (hs : Sorted lt l) (k : α) :
    ssEraseKey lt l k = .ok (Spec.eraseKey lt l k) := by
  obtain ⟨A, B, hl, hr, hsl, hA, hA', hB, hcase⟩ := probe hst hs k
  unfold ssEraseKey Spec.eraseKey
  rcases hcase with ⟨B', hB2, hB', he, _⟩ | ⟨hB', he, _⟩
  · subst hB2; subst hl
    obtain ⟨_, f1, f2, _⟩ := spec_present hst hA hB'
    have her : ssEraseAt (A ++ k :: B') A.length = .ok (A ++ B', A.length) := by
      unfold ssEraseAt
      rw [if_neg (by simp), svErase_eq _ _ _ (by omega) (by simp)]
      simp
    simp [hr, he, her, f1, f2]
  · subst hl
    obtain ⟨_, _, _, f1, f2⟩ := spec_absent hA hA' hB hB'
    simp [hr, he, f1, f2]

theorem equiv_iff_eq [DecidableEq α] (hst : StrictTotal lt) (k x : α) :
    Spec.equiv lt k x = decide (x = k) := by
  by_cases h : x = k
  · subst h; simp [Spec.equiv, hst.irrefl]
  · simp only [h, decide_false]
    cases h1 : lt x k with
    | true => simp [Spec.equiv, h1]
    | false =>
      cases h2 : lt k x with
      | true => simp [Spec.equiv, h2]
      | false => exact absurd (hst.total x k h1 h2) h

theorem countP_add_not (q : α → Bool) (l : List α) :
    l.countP q + (l.filter (fun x => !q x)).length = l.length := by
  induction l with
  | nil => rfl
  | cons x xs ih => cases h : q x <;> simp [h, List.countP_cons, List.filter_cons] <;> omega

/-- what `remove` + `erase(it, end())` leaves and counts, in spec terms -/
theorem remove_erase_spec [DecidableEq α] (hst : StrictTotal lt) (l : List α) (k : α) :
    ∃ l1, removeIf l (fun x => decide (x = k)) = .ok (l1, (Spec.eraseKey lt l k).1.length) ∧
      l1.take (Spec.eraseKey lt l k).1.length ++ l1.drop l1.length = (Spec.eraseKey lt l k).1 ∧
      (Spec.eraseKey lt l k).1.length ≤ l1.length ∧
      l1.length - (Spec.eraseKey lt l k).1.length = (Spec.eraseKey lt l k).2 := by
  have hq : (fun x => !Spec.equiv lt k x) = (fun x => !(fun x => decide (x = k)) x) := by
    funext x; rw [equiv_iff_eq hst]
  have hq2 : Spec.equiv lt k = (fun x => decide (x = k)) := by funext x; rw [equiv_iff_eq hst]
  obtain ⟨l1, h1, h2, h3⟩ := removeIf_spec (fun x => decide (x = k)) l
  refine ⟨l1, ?_, ?_, ?_, ?_⟩
  · simp only [Spec.eraseKey, hq]; exact h1
  · simp only [Spec.eraseKey, hq]; rw [h2]; simp
  · simp only [Spec.eraseKey, hq]; rw [h3]; exact List.length_filter_le _ _
  · simp only [Spec.eraseKey, hq, hq2, h3]
    have := countP_add_not (fun x => decide (x = k)) l
    omega

/-- flat_set::erase(key) (`remove` + `erase(it,end)`) = spec -/
theorem fsEraseKey_eq [DecidableEq α] (hst : StrictTotal lt) (l : List α) (k : α) :
    fsEraseKey l k = .ok (Spec.eraseKey lt l k) := by
  obtain ⟨l1, h1, h2, h3, h4⟩ := remove_erase_spec hst l k
  unfold fsEraseKey
  simp only [h1, ok_bind]
  rw [svErase_eq _ _ _ h3 (Nat.le_refl _)]
  simp only [ok_bind, h2, h4]

/-- erase(pos) and erase(first,last) on a valid position / range = spec -/
theorem ssEraseRange_eq (l : List α) (f la : Nat) (h1 : f ≤ la) (h2 : la ≤ l.length) :
    ssEraseRange l f la = .ok (Spec.eraseRange l f la) := svErase_eq l f la h1 h2

theorem ssEraseAt_eq (l : List α) (pos : Nat) (h : pos < l.length) :
    ssEraseAt l pos = .ok (Spec.eraseRange l pos (pos + 1)) := by
  unfold ssEraseAt
  rw [if_neg (by omega), svErase_eq _ _ _ (by omega) (by omega)]
  rfl

example : (1 : Nat) < [1, 3, 5].length := by decide

/-! ## range insert -/

theorem ssInsertRange_eq (hst : StrictTotal lt) {cap : Nat} (ks : List α) : ∀ {l : List α}, Inv1 lt cap l →
    ssInsertRange lt cap l ks = .ok (Spec.insertRange lt cap l ks) := by
  induction ks with
  | nil => intro l _; rfl
  | cons k ks ih =>
    intro l h
    simp only [ssInsertRange, Spec.insertRange, ssInsert_eq hst h, ok_bind]
    exact ih (spec_insert_inv hst h k)

theorem fsInsertRange_eq (hst : StrictTotal lt) {cap : Nat} (ks : List α) : ∀ {l : List α}, Inv1 lt cap l →
    fsInsertRange lt cap l ks = .ok (Spec.insertRange lt cap l ks) := by
  induction ks with
  | nil => intro l _; rfl
  | cons k ks ih =>
    intro l h
    simp only [fsInsertRange, Spec.insertRange, fsEmplace_eq hst h, ok_bind]
    exact ih (spec_insert_inv hst h k)

theorem fiInsertRange_eq (hst : StrictTotal lt) {cap : Nat} (ks : List α) : ∀ {l : List α}, Inv1 lt cap l →
    fiInsertRange lt cap l ks = .ok (Spec.insertRange lt cap l ks) := by
  induction ks with
  | nil => intro l _; rfl
  | cons k ks ih =>
    intro l h
    simp only [fiInsertRange, Spec.insertRange, fiEmplace_eq hst h, ok_bind]
    exact ih (spec_insert_inv hst h k)

theorem spec_insertRange_inv (hst : StrictTotal lt) {cap : Nat} (ks : List α) : ∀ {l : List α}, Inv1 lt cap l →
    Inv1 lt cap (Spec.insertRange lt cap l ks) := by
  induction ks with
  | nil => intro l h; exact h
  | cons k ks ih => intro l h; exact ih (spec_insert_inv hst h k)

end Tetl.C09.Props
