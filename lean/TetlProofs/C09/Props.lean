/-
C09 — property theorems.  For every comparator that is a STRICT WEAK ORDER (the standard's requirement on
`Compare`; equivalent keys need not be equal), every capacity and every sorted vector (no size bound): each
modelled member of static_set / flat_set returns `.ok` (no access outside the vector, no violated static_vector
precondition, no exhausted loop bound: the C02 face) of exactly what the declarative `std::set` spec prescribes;
sortedness (= strict ascent, hence uniqueness) and the capacity bound are invariants of every history; whole
histories refine the spec.

No theorem needs `operator==` to agree with the comparator's equivalence: the two members that were written with
`operator==` (`static_set::find(key_type const&)`, `flat_set::erase(key_type const&)`) were found to diverge from
`std::set` for such comparators and repaired (F-C09-ss-find-eq, F-C09-fs-erase-key-eq).  The heterogeneous (`K const&`)
overloads are modelled with their own pair of comparison functions and proved under the consistency condition `HetOk`.
-/
import TetlProofs.C09.Hint
import TetlProofs.C09.Mset
import TetlProofs.C09.Rel
import TetlProofs.C09.Bridge01
namespace Tetl.C09.Props
open Tetl Tetl.C09

variable {α κ : Type} {lt : α → α → Bool}

/-! ## lookups -/

theorem lowerBound_eq (hw : StrictWeak lt) {l : List α} (hs : Sorted lt l) (k : α) :
    lowerBound lt l k = .ok (Spec.lowerBound lt l k) :=
  lowerBoundP_eq (fun x => lt x k) (parted_hom hw hs k).below_mono

theorem upperBound_eq (hw : StrictWeak lt) {l : List α} (hs : Sorted lt l) (k : α) :
    upperBound lt l k = .ok (Spec.upperBound lt l k) :=
  upperBoundP_eq (fun x => lt k x) (parted_hom hw hs k).above_mono

theorem equalRange_eq (hw : StrictWeak lt) {l : List α} (hs : Sorted lt l) (k : α) :
    equalRange lt l k = .ok (Spec.lowerBound lt l k, Spec.upperBound lt l k) :=
  equalRangeP_eq (parted_hom hw hs k)

example : Sorted (fun a b : Nat => decide (a < b)) [1, 3, 5] := by unfold Sorted; decide

/-- what the `lower_bound` + equivalence test sees, in terms of the spec -/
theorem probe (hw : StrictWeak lt) {l : List α} (hs : Sorted lt l) (k : α) :
    ∃ A B, l = A ++ B ∧ lowerBound lt l k = .ok A.length ∧ Spec.lowerBound lt l k = A.length ∧
      (∀ x ∈ A, lt x k = true) ∧ (∀ x ∈ A, lt k x = false) ∧ (∀ x ∈ B, lt x k = false) ∧
      ((∃ b B', B = b :: B' ∧ lt b k = false ∧ lt k b = false ∧ (∀ x ∈ B', lt k x = true) ∧
          equivAt (fun x => lt k x) l A.length = .ok true ∧ Spec.contains lt l k = true) ∨
       ((∀ x ∈ B, lt k x = true) ∧
          equivAt (fun x => lt k x) l A.length = .ok false ∧ Spec.contains lt l k = false)) :=
  probeW hw hs k

/-- `find` through `lower_bound` (flat_set::find, static_set's transparent find) -/
theorem findLB_eq (hw : StrictWeak lt) {l : List α} (hs : Sorted lt l) (k : α) :
    findLB (fun x => lt x k) (fun x => lt k x) l = .ok (Spec.find lt l k) :=
  findLBP_eq (parted_hom hw hs k)

/-- every lookup member written through the comparator (all of flat_set's; static_set's bounds), `key_type const&` overload -/
theorem lookup_eq (hw : StrictWeak lt) {l : List α} (hs : Sorted lt l) (k : α) (w : Lk) :
    lookupP (fun x => lt x k) (fun x => lt k x) l w = .ok (Spec.lookupP (fun x => lt x k) (fun x => lt k x) l w) :=
  lookupP_eq (parted_hom hw hs k) w

/-- HETEROGENEOUS lookups (`K const&` overloads of find / contains / count / lower_bound / upper_bound / equal_range,
    static_set and flat_set): for a key of another type compared through `h.ek` / `h.ke`, consistent with the set's
    order (`HetOk`), every member returns the answer [associative.reqmts] prescribes for `kl` / `ku` / `ke` -/
theorem hlookup_eq {h : Het α κ} (hh : HetOk lt h) {l : List α} (hs : Sorted lt l) (k : κ) (w : Lk) :
    hlookupP (fun x => h.ek x k) (fun x => h.ke k x) l w
      = .ok (Spec.hlookupP (fun x => h.ek x k) (fun x => h.ke k x) l w) :=
  hlookupP_eq (parted_het hh hs k) w

/-- the homogeneous comparison is a consistent heterogeneous one -/
theorem hetOk_hom (hw : StrictWeak lt) : HetOk lt ({ ek := lt, ke := lt } : Het α α) :=
  ⟨fun k a b hab hb => hw.trans a b k hab hb, fun k a b hab ha => hw.trans k a b ha hab, fun _ _ h => hw.asymm h⟩

-- non-vacuity of `HetOk` on a genuinely heterogeneous key: elements are `Nat`, keys are pairs compared by their
-- first component only
example : HetOk (fun a b : Nat => decide (a < b))
    ({ ek := fun x k => decide (x < k.1), ke := fun k x => decide (k.1 < x) } : Het Nat (Nat × Bool)) :=
  ⟨by intro k a b; simp; omega, by intro k a b; simp; omega, by intro k a; simp; omega⟩

/-! ## insert / emplace -/

theorem spec_insert_inv (hw : StrictWeak lt) {cap : Nat} {l : List α} (h : Inv1 lt cap l) (k : α) :
    Inv1 lt cap (Spec.insert lt cap l k).1 := spec_insert_inv' hw h k

/-- static_set::insert / emplace = spec insert, in particular `(position, inserted)` -/
theorem ssInsert_eq (hw : StrictWeak lt) {cap : Nat} {l : List α} (h : Inv1 lt cap l) (k : α) :
    ssInsert lt cap l k = .ok (Spec.insert lt cap l k) := by
  obtain ⟨hs, hc⟩ := h
  obtain ⟨A, B, hl, hr, hsl, hA, hA', hB, hcase⟩ := probe hw hs k
  unfold ssInsert Spec.insert
  rcases hcase with ⟨b, B', _, _, _, _, he, hct⟩ | ⟨hB', he, hct⟩
  · simp [hr, he, hct, hsl]
  · simp only [hr, he, hct, ok_bind, Bool.false_eq_true, if_false]
    by_cases hfull : l.length = cap
    · simp [hfull]
    · have hlt : ¬ l.length ≥ cap := by omega
      simp only [hfull, hlt, if_false]
      subst hl
      obtain ⟨_, f1, f2, _, _⟩ := spec_absent hA hA' hB hB'
      rw [f1, f2, hsl]
      have hlt' : A.length + B.length < cap := by simpa using hlt
      have hpb : svPushBack cap (A ++ B) k = .ok (A ++ B ++ [k]) := by
        simp [svPushBack]; omega
      have hrot := rotate_spec (A.length + B.length + 2) A B [k] [] (by simp; omega)
      have hrot' : rotate ((A ++ B ++ [k]).length + 1) (A ++ B ++ [k]) A.length
          ((A ++ B ++ [k]).length - 1) (A ++ B ++ [k]).length = .ok (A ++ [k] ++ B, A.length + 1) := by
        have e1 : (A ++ B ++ [k]).length - 1 = A.length + B.length := by simp
        have e2 : (A ++ B ++ [k]).length = A.length + B.length + 1 := by simp; omega
        rw [e1, e2]; simpa using hrot
      simp only [hpb, ok_bind, hrot']
      simp

/-- flat_set::emplace over static_vector = spec insert -/
theorem fsEmplace_eq (hw : StrictWeak lt) {cap : Nat} {l : List α} (h : Inv1 lt cap l) (k : α) :
    fsEmplace lt cap l k = .ok (Spec.insert lt cap l k) := by
  obtain ⟨hs, hc⟩ := h
  obtain ⟨A, B, hl, hr, hsl, hA, hA', hB, hcase⟩ := probe hw hs k
  unfold fsEmplace Spec.insert
  rcases hcase with ⟨b, B', _, _, _, _, he, hct⟩ | ⟨hB', he, hct⟩
  · simp [hr, he, hct, hsl]
  · simp only [hr, he, hct, ok_bind, Bool.false_eq_true, if_false, Bool.not_false, if_true]
    by_cases hfull : l.length = cap
    · simp [hfull]
    · have hlt : ¬ l.length ≥ cap := by omega
      simp only [hfull, hlt, if_false]
      subst hl
      obtain ⟨_, f1, f2, _, _⟩ := spec_absent hA hA' hB hB'
      rw [f1, f2, hsl]
      have hlt' : A.length + B.length < cap := by simpa using hlt
      have hrot := rotate_spec (A.length + B.length + 2) A B [k] [] (by simp; omega)
      have hrot' : rotate ((A ++ B).length + 2) (A ++ B ++ [k]) A.length (A ++ B).length
          ((A ++ B).length + 1) = .ok (A ++ [k] ++ B, A.length + 1) := by
        have e1 : (A ++ B).length = A.length + B.length := by simp
        rw [e1]; simpa using hrot
      have hem : svEmplace cap (A ++ B) A.length k = .ok (A ++ [k] ++ B, A.length) := by
        unfold svEmplace
        rw [if_neg hlt, if_neg (by simp), hrot']
      simp [hem]

/-- flat_set::emplace over the inplace-vector-like container = spec insert -/
theorem fiEmplace_eq (hw : StrictWeak lt) {cap : Nat} {l : List α} (h : Inv1 lt cap l) (k : α) :
    fiEmplace lt cap l k = .ok (Spec.insert lt cap l k) := by
  obtain ⟨hs, hc⟩ := h
  obtain ⟨A, B, hl, hr, hsl, hA, hA', hB, hcase⟩ := probe hw hs k
  unfold fiEmplace Spec.insert
  rcases hcase with ⟨b, B', _, _, _, _, he, hct⟩ | ⟨hB', he, hct⟩
  · simp [hr, he, hct, hsl]
  · simp only [hr, he, hct, ok_bind, Bool.false_eq_true, if_false, Bool.not_false, if_true]
    by_cases hfull : l.length = cap
    · simp [hfull]
    · have hlt : ¬ l.length ≥ cap := by omega
      simp only [hfull, hlt, if_false]
      subst hl
      obtain ⟨_, f1, f2, _, _⟩ := spec_absent hA hA' hB hB'
      rw [f1, f2, hsl]
      have hlt' : ¬ cap ≤ A.length + B.length := by simpa using hlt
      have h2 : ¬ (A.length + B.length < A.length) := by omega
      simp [miniEmplace, hlt', h2]

/-- insert / emplace of every set kind -/
theorem setEmplace_eq (hw : StrictWeak lt) (kind : Kind) {cap : Nat} {l : List α} (h : Inv1 lt cap l) (k : α) :
    setEmplace kind lt cap l k = .ok (Spec.insert lt cap l k) := by
  cases kind
  · exact ssInsert_eq hw h k
  · exact fsEmplace_eq hw h k
  · exact fiEmplace_eq hw h k

/-- Inserting a new key into a full set reports failure and leaves the set unchanged
    (all three set kinds, through the three refinement theorems above). -/
theorem full_insert_new_key (hw : StrictWeak lt) {cap : Nat} {l : List α} (h : Inv1 lt cap l) (k : α)
    (hfull : l.length = cap) (hnew : Spec.contains lt l k = false) :
    ssInsert lt cap l k = .ok (l, .full) ∧ fsEmplace lt cap l k = .ok (l, .full) ∧
      fiEmplace lt cap l k = .ok (l, .full) := by
  have : Spec.insert lt cap l k = (l, .full) := by simp [Spec.insert, hnew, hfull]
  rw [ssInsert_eq hw h, fsEmplace_eq hw h, fiEmplace_eq hw h, this]
  exact ⟨rfl, rfl, rfl⟩

example : Inv1 (fun a b : Nat => decide (a < b)) 3 [1, 3, 5] ∧
    Spec.contains (fun a b : Nat => decide (a < b)) [1, 3, 5] 4 = false :=
  ⟨⟨by unfold Sorted; decide, by decide⟩, by decide⟩

/-- flat_set::insert(const_iterator hint, x) / emplace_hint: whatever the hint, the set changes as by `insert(x)` and the
    iterator returned designates the element equivalent to `x` in the resulting set (`end()` when a new key met a full set) -/
theorem fsInsertHint_eq (hw : StrictWeak lt) (kind : Kind) {cap : Nat} {l : List α} (h : Inv1 lt cap l)
    (hint : Nat) (k : α) :
    fsInsertHint kind lt cap l hint k = .ok (Spec.insertHint lt cap l hint k) := by
  simp only [fsInsertHint, setEmplace_eq hw kind h k, Spec.insertHint, hi_first_eq_find hw h k]

/-! ## erase -/

/-- static_set::erase(key) = spec (`filter` + count) -/
theorem ssEraseKey_eq (hw : StrictWeak lt) {l : List α} (hs : Sorted lt l) (k : α) :
    ssEraseKey lt l k = .ok (Spec.eraseKey lt l k) := by
  obtain ⟨A, B, hl, hr, hsl, hA, hA', hB, hcase⟩ := probe hw hs k
  unfold ssEraseKey Spec.eraseKey
  rcases hcase with ⟨b, B', hB2, hb1, hb2, hB', he, _⟩ | ⟨hB', he, _⟩
  · subst hB2; subst hl
    obtain ⟨_, f1, f2⟩ := spec_present hb1 hb2 hA hB'
    have her : ssEraseAt (A ++ b :: B') A.length = .ok (A ++ B', A.length) := by
      unfold ssEraseAt
      rw [if_neg (by simp), svErase_eq _ _ _ (by omega) (by simp)]
      simp
    simp [hr, he, her, f1, f2]
  · subst hl
    obtain ⟨_, _, _, f1, f2⟩ := spec_absent hA hA' hB hB'
    simp [hr, he, f1, f2]

/-- flat_set::erase(key) (`find` + `erase(it)`) over static_vector = spec -/
theorem fsEraseKey_eq (hw : StrictWeak lt) {l : List α} (hs : Sorted lt l) (k : α) :
    fsEraseKey lt l k = .ok (Spec.eraseKey lt l k) := by
  obtain ⟨A, B, hl, hr, hsl, hA, hA', hB, hcase⟩ := probe hw hs k
  have hr' : boundLoop l (fun x => lt x k) 0 l.length = .ok A.length := hr
  unfold fsEraseKey findLB Spec.eraseKey
  rcases hcase with ⟨b, B', hB2, hb1, hb2, hB', he, _⟩ | ⟨hB', he, _⟩
  · subst hB2; subst hl
    obtain ⟨_, f1, f2⟩ := spec_present hb1 hb2 hA hB'
    have her : ssEraseAt (A ++ b :: B') A.length = .ok (A ++ B', A.length) := by
      unfold ssEraseAt
      rw [if_neg (by simp), svErase_eq _ _ _ (by omega) (by simp)]
      simp
    have hne : ¬ A.length = (A ++ b :: B').length := by simp
    simp only [hr', ok_bind, he]
    simp [her, f1, f2]
  · subst hl
    obtain ⟨_, _, _, f1, f2⟩ := spec_absent hA hA' hB hB'
    simp only [hr', ok_bind, he]
    simp [f1, f2]

/-- erase(key) of every set kind -/
theorem setEraseKey_eq (hw : StrictWeak lt) (kind : Kind) {l : List α} (hs : Sorted lt l) (k : α) :
    setEraseKey kind lt l k = .ok (Spec.eraseKey lt l k) := by
  cases kind
  · exact ssEraseKey_eq hw hs k
  · exact fsEraseKey_eq hw hs k
  · obtain ⟨A, B, hl, hr, hsl, hA, hA', hB, hcase⟩ := probe hw hs k
    have hr' : boundLoop l (fun x => lt x k) 0 l.length = .ok A.length := hr
    unfold setEraseKey findLB Spec.eraseKey
    rcases hcase with ⟨b, B', hB2, hb1, hb2, hB', he, _⟩ | ⟨hB', he, _⟩
    · subst hB2; subst hl
      obtain ⟨_, f1, f2⟩ := spec_present hb1 hb2 hA hB'
      have hne : ¬ A.length = (A ++ b :: B').length := by simp
      have hme : miniErase (A ++ b :: B') A.length (A.length + 1) = .ok (A ++ B', A.length) := by
        simp [miniErase]
      simp only [hr', ok_bind, he]
      simp [hme, f1, f2]
    · subst hl
      obtain ⟨_, _, _, f1, f2⟩ := spec_absent hA hA' hB hB'
      simp only [hr', ok_bind, he]
      simp [f1, f2]

/-- erase(pos) and erase(first,last) on a valid position / range = spec -/
theorem ssEraseRange_eq (l : List α) (f la : Nat) (h1 : f ≤ la) (h2 : la ≤ l.length) :
    ssEraseRange l f la = .ok (Spec.eraseRange l f la) := svErase_eq l f la h1 h2

theorem ssEraseAt_eq (l : List α) (pos : Nat) (h : pos < l.length) :
    ssEraseAt l pos = .ok (Spec.eraseRange l pos (pos + 1)) := by
  unfold ssEraseAt
  rw [if_neg (by omega), svErase_eq _ _ _ (by omega) (by omega)]
  rfl

example : (1 : Nat) < [1, 3, 5].length := by decide

/-! ## range insert -/

theorem ssInsertRange_eq (hw : StrictWeak lt) {cap : Nat} (ks : List α) : ∀ {l : List α}, Inv1 lt cap l →
    ssInsertRange lt cap l ks = .ok (Spec.insertRange lt cap l ks) := by
  induction ks with
  | nil => intro l _; rfl
  | cons k ks ih =>
    intro l h
    simp only [ssInsertRange, Spec.insertRange, ssInsert_eq hw h, ok_bind]
    exact ih (spec_insert_inv hw h k)

theorem fsInsertRange_eq (hw : StrictWeak lt) {cap : Nat} (ks : List α) : ∀ {l : List α}, Inv1 lt cap l →
    fsInsertRange lt cap l ks = .ok (Spec.insertRange lt cap l ks) := by
  induction ks with
  | nil => intro l _; rfl
  | cons k ks ih =>
    intro l h
    simp only [fsInsertRange, Spec.insertRange, fsEmplace_eq hw h, ok_bind]
    exact ih (spec_insert_inv hw h k)

theorem fiInsertRange_eq (hw : StrictWeak lt) {cap : Nat} (ks : List α) : ∀ {l : List α}, Inv1 lt cap l →
    fiInsertRange lt cap l ks = .ok (Spec.insertRange lt cap l ks) := by
  induction ks with
  | nil => intro l _; rfl
  | cons k ks ih =>
    intro l h
    simp only [fiInsertRange, Spec.insertRange, fiEmplace_eq hw h, ok_bind]
    exact ih (spec_insert_inv hw h k)

theorem setInsertRange_eq (hw : StrictWeak lt) (kind : Kind) {cap : Nat} (ks : List α) {l : List α} (h : Inv1 lt cap l) :
    setInsertRange kind lt cap l ks = .ok (Spec.insertRange lt cap l ks) := by
  cases kind
  · exact ssInsertRange_eq hw ks h
  · exact fsInsertRange_eq hw ks h
  · exact fiInsertRange_eq hw ks h

theorem spec_insertRange_inv (hw : StrictWeak lt) {cap : Nat} (ks : List α) {l : List α} (h : Inv1 lt cap l) :
    Inv1 lt cap (Spec.insertRange lt cap l ks) := spec_insertRange_inv' hw ks h

/-! ## clear, swap, extract, replace, reverse iteration: the container operations underneath -/

/-- `clear()` leaves the empty set -/
theorem clear_eq (kind : Kind) (l : List α) : setClear kind l = [] := Tetl.C09.setClear_eq kind l

/-- `swap`: the three moves of `static_vector::swap` (clear + append loop + rotate each) stay inside both vectors,
    violate no precondition and exchange the two element sequences -/
theorem swap_eq (kind : Kind) {cap : Nat} {a b : List α} (ha : a.length ≤ cap) (hb : b.length ≤ cap) :
    setSwap kind cap a b = .ok (b, a) := Tetl.C09.setSwap_eq kind cap a b ha hb

/-- `extract() &&` returns the elements (the `fix:` of F-C09-fs-extract-empty) and leaves the set empty -/
theorem extract_eq (kind : Kind) {cap : Nat} {l : List α} (h : l.length ≤ cap) :
    fsExtract kind cap l = .ok ([], l) := Tetl.C09.fsExtract_eq kind cap l h

/-- `replace(c)` adopts the container's elements -/
theorem replace_eq (kind : Kind) {cap : Nat} (l : List α) {c : List α} (h : c.length ≤ cap) :
    fsReplace kind cap l c = .ok c := Tetl.C09.fsReplace_eq kind cap l c h

/-- `rbegin()..rend()` visits the elements back to front, reading inside the vector only -/
theorem riter_eq (l : List α) : riter l = .ok l.reverse := Tetl.C09.riter_eq l

example : ([1, 3, 5] : List Nat).length ≤ 3 := by decide

/-! ## erase_if, relational operators, size observers -/

/-- `erase_if(set, pred)` of static_set and both flat_set backings (`remove_if` loop of C06 + the container's erase of the tail):
    no access outside the vector; leaves exactly the elements that do not satisfy `pred`, in order, and returns how many went
    ([associative.erasure], [flat.set.erasure]) — for EVERY vector, sorted or not -/
theorem setEraseIf_eq (kind : Kind) (p : α → Bool) (l : List α) :
    setEraseIf kind p l = .ok (Spec.eraseIf p l) := setEraseIf_eq' kind p l

theorem spec_eraseIf_inv {cap : Nat} {l : List α} (h : Inv1 lt cap l) (p : α → Bool) :
    Inv1 lt cap (Spec.eraseIf p l).1 :=
  ⟨sorted_filter h.1 _, Nat.le_trans (List.length_filter_le _ _) h.2⟩

/-- `operator==` (static_set: size test + 3-iterator `equal`; flat_set: 4-iterator `equal`): same length and element-wise `==` -/
theorem setEq_eq (kind : Kind) (e : Elem α) (a b : List α) :
    setEq kind e a b = .ok (Tetl.C06.Spec.equal e.eq a b) := setEq_eq' kind e a b

/-- `operator<`: `std::lexicographical_compare` of the two iteration sequences with the element `operator<` -/
theorem setLt_eq (e : Elem α) (a b : List α) : setLt e a b = .ok (Tetl.C06.Spec.lexLt e.lt a b) := setLt_eq' e a b

/-- all six relational operators (`==`, `!=`, `<`, `<=`, `>`, `>=`) of static_set / flat_set answer like those of `std::set`:
    no read outside either vector, for any two vectors (no sortedness needed) -/
theorem relOps_eq (kind : Kind) (e : Elem α) (a b : List α) : relOps kind e a b = .ok (Spec.relOps e a b) :=
  relOps_eq' kind e a b

/-- `size()`, `empty()`, `full()` (static_set), `max_size()` -/
theorem sizes_eq (kind : Kind) (cap : Nat) (l : List α) : setSizes kind cap l = Spec.sizes (kind == .ss) cap l :=
  setSizes_eq' kind cap l

/-- in particular: `full()` holds exactly when `size() == max_size()`, `empty()` exactly when `size() == 0` -/
theorem sizes_consistent (cap : Nat) (l : List α) :
    setSizes .ss cap l = .sizes l.length (l.length == 0) (some (l.length == cap)) cap := rfl

/-! ## constructors -/

/-- Every constructor on input satisfying its documented precondition (`Spec.validCtor`: the range / container fits;
    for the `sorted_unique` constructors: sorted w.r.t. the comparator and unique) builds exactly the spec's set … -/
theorem construct_eq (hw : StrictWeak lt) (kind : Kind) (cap : Nat) (ctor : Ctor) (init : List α)
    (hk : kind = .ss → ctor = .range) (hv : Spec.validCtor lt cap ctor init = true) :
    construct kind lt cap ctor init = .ok (Spec.construct lt cap ctor init) := by
  have hnil : Inv1 lt cap ([] : List α) := inv1_nil cap
  cases kind <;> cases ctor <;> first | (exact absurd (hk rfl) (by decide)) | skip
  all_goals simp only [Spec.validCtor, decide_eq_true_eq, Bool.and_eq_true] at hv
  · have : ¬ init.length > cap := by omega
    simp only [construct, this, if_false, Spec.construct]
    exact ssInsertRange_eq hw init hnil
  · exact fsInsertRange_eq hw init hnil
  · simp only [construct, svCtor_eq cap init hv, Spec.construct]
    exact fsInsertRange_eq hw init hnil
  · simp only [construct, svCtor_eq cap init hv.1, Spec.construct]
  · simp only [construct, svCtor_eq cap init hv.1, Spec.construct]
  · exact fiInsertRange_eq hw init hnil
  · simp only [construct, miniCtor_eq cap init hv, Spec.construct]
    exact fiInsertRange_eq hw init hnil
  · simp only [construct, miniCtor_eq cap init hv.1, Spec.construct]
  · simp only [construct, miniCtor_eq cap init hv.1, Spec.construct]

/-- … and that set satisfies the invariant (strictly ascending, within capacity) -/
theorem construct_inv (hw : StrictWeak lt) (cap : Nat) (ctor : Ctor) (init : List α)
    (hv : Spec.validCtor lt cap ctor init = true) : Inv1 lt cap (Spec.construct lt cap ctor init) := by
  cases ctor <;> simp only [Spec.validCtor, decide_eq_true_eq, Bool.and_eq_true] at hv
  · exact spec_insertRange_inv hw init (inv1_nil cap)
  · exact spec_insertRange_inv hw init (inv1_nil cap)
  · exact ⟨(sortedUnique_iff init).mp hv.2, hv.1⟩
  · exact ⟨(sortedUnique_iff init).mp hv.2, hv.1⟩

example : Spec.validCtor (fun a b : Nat => decide (a < b)) 3 .su [1, 3, 5] = true := by decide
example : Spec.validCtor (fun a b : Nat => decide (a < b)) 3 .cont [5, 1, 5] = true := by decide

/-! ## flat_multiset -/

/-- `flat_multiset(KeyContainer)` (DESIGN §4 `C09.multiset_sorted_perm`): for every strict weak order and every container
    that fits, the constructor — move of the container, then `etl::sort` = gnome sort — touches nothing outside the vector,
    does not exhaust its loop bound and leaves the same elements (a permutation) in weakly ascending order -/
theorem multiset_sorted_perm (hw : StrictWeak lt) (cap : Nat) (c : List α) (hfit : c.length ≤ cap) :
    ∃ r, msetCtor lt cap c = .ok r ∧ r.Perm c ∧ r.Pairwise (fun a b => lt b a = false) :=
  msetCtor_spec hw cap c hfit

/-- when moreover `==` is the comparator's equivalence the result is THE sorted sequence: the spec's stable sort,
    which the run compares with `std::multiset` -/
theorem multiset_eq_spec (hw : StrictWeak lt) (heq : EquivIsEq lt) (cap : Nat) (c : List α) (hfit : c.length ≤ cap) :
    msetCtor lt cap c = .ok (Spec.multiset lt c) := msetCtor_eq_spec hw heq cap c hfit

/-- STABILITY of `flat_multiset(KeyContainer)` for EVERY strict weak order (no assumption relating `==` and the comparator):
    gnome sort only exchanges adjacent elements that are strictly out of order, so equivalent elements keep the order they had in
    the container; the constructor's result is exactly the spec's stable sort — the sequence `std::multiset` builds from the same
    range ([associative.reqmts] insert of equivalent keys at the upper bound).  Subsumes `multiset_eq_spec`. -/
theorem multiset_eq_stable (hw : StrictWeak lt) (cap : Nat) (c : List α) (hfit : c.length ≤ cap) :
    msetCtor lt cap c = .ok (Spec.multiset lt c) := msetCtor_eq_stable hw cap c hfit

/-- the same over the harness' inplace-vector-like container (contract) … -/
theorem multiset_eq_stable_contract (hw : StrictWeak lt) (cap : Nat) (c : List α) (hfit : c.length ≤ cap) :
    fiMsetCtor lt cap c = .ok (Spec.multiset lt c) := fiMsetCtor_eq' hw cap c hfit

/-- … and over `etl::inplace_vector` (C01 model of its move constructor) -/
theorem multiset_eq_stable_inplace_vector {lt : Nat → Nat → Bool} (hw : StrictWeak lt) (cap : Nat) (c : List Nat)
    (hfit : c.length ≤ cap) : fvMsetCtor lt cap c = .ok (Spec.multiset lt c) := fvMsetCtor_eq' hw cap c hfit

/-- the stable sort keeps every class of equivalent elements in container order (what "stable" means), is a permutation and is
    weakly ascending: the three facts that characterise `Spec.multiset` (uniqueness: `Tetl.C06.stableSort_unique`) -/
theorem multiset_spec_stable (hw : StrictWeak lt) (c : List α) (x : α) :
    (Spec.multiset lt c).filter (fun y => !lt x y && !lt y x) = c.filter (fun y => !lt x y && !lt y x) := by
  have e : Tetl.C06.Spec.equiv lt x = fun y => !lt x y && !lt y x := by
    funext y; simp [Tetl.C06.Spec.equiv]
  have := Tetl.C06.stableSort_filter hw.toC06 c x
  rw [e] at this
  exact this

example : ([2, 0, 2, 1] : List Nat).length ≤ 8 := by decide
-- sample (a test, not a proof): with the comparator `a/2 < b/2` the equivalent keys 3 and 2 keep their container order
example : msetCtor (fun a b : Nat => decide (a / 2 < b / 2)) 8 [3, 0, 2, 1] = .ok [0, 1, 3, 2] := by rfl

/-! ## flat_set over etl::inplace_vector (the members that compile) and the container contract -/

/-- `flat_set(sorted_unique, inplace_vector)`: the two container moves (C01 model of `inplace_vector(inplace_vector&&)`) adopt
    the sequence; on input meeting the precondition the result satisfies the invariant, so every lookup theorem
    (`lookup_eq`, `hlookup_eq`), `relOps_eq` and `sizes_eq` applies to it -/
theorem fv_construct_eq (cap : Nat) (c : List Nat) (h : c.length ≤ cap) : fvCtor cap c = .ok c := fvCtor_eq' cap c h

theorem fv_clear_eq (cap : Nat) (l : List Nat) (hc : cap < 2 ^ 64) : fvClear cap l = .ok [] := fvClear_eq' cap l hc

theorem fv_extract_eq (cap : Nat) (l : List Nat) (hc : cap < 2 ^ 64) (h : l.length ≤ cap) :
    fvExtract cap l = .ok ([], l) := fvExtract_eq' cap l hc h

example : ([1, 3, 5] : List Nat).length ≤ 4 ∧ (4 : Nat) < 2 ^ 64 := by decide

/-- The container contract under which flat_set is proved for the `.fi` backing is the C01 model of `etl::static_vector`
    (`emplace(pos, x)` = `insertRv`, `erase(first, last)` = `eraseRange`, range / copy construction, `clear`) on every input
    meeting the container's preconditions: C01 proves those members equal to `std::vector`'s, so the `.fi` theorems are
    theorems about flat_set over any `std::vector`-like container, tetl's own included. -/
theorem contract_is_static_vector (cap : Nat) (l : List Nat) (hc : cap < 2 ^ 64) (hcap : l.length ≤ cap) :
    (∀ pos x, l.length < cap → pos ≤ l.length → miniEmplace cap l pos x = Tetl.C01.insertRv cap l pos x) ∧
    (∀ f la, f ≤ la → la ≤ l.length → miniErase l f la = Tetl.C01.eraseRange cap l f la) ∧
    miniCtor cap l = Tetl.C01.ctorRange cap l ∧ miniCtor cap l = Tetl.C01.copyCtor cap l ∧
    Tetl.C01.clear cap l = .ok (miniClear l) :=
  ⟨fun pos x hn hp => miniEmplace_is_c01 cap l pos x hc hn hp,
   fun f la hfl hl => miniErase_is_c01 cap l f la hc hcap hfl hl,
   (miniCtor_is_c01 cap l hc hcap).1, (miniCtor_is_c01 cap l hc hcap).2, miniClear_is_c01 cap l hc⟩

/-- C09's own loop-level model of the static_vector members flat_set calls agrees with the C01 model of the same members -/
theorem static_vector_models_agree (cap : Nat) (l : List Nat) (hc : cap < 2 ^ 64) (hcap : l.length ≤ cap) :
    (∀ pos x, l.length < cap → pos ≤ l.length → svEmplace cap l pos x = Tetl.C01.insertRv cap l pos x) ∧
    (∀ f la, f ≤ la → la ≤ l.length → svErase l f la = Tetl.C01.eraseRange cap l f la) ∧
    svCtor cap l = Tetl.C01.ctorRange cap l ∧ Tetl.C01.clear cap l = .ok (svClear l) :=
  ⟨fun pos x hn hp => svEmplace_is_c01 cap l pos x hc hn hp,
   fun f la hfl hl => svErase_is_c01 cap l f la hc hcap hfl hl,
   svCtor_is_c01 cap l hc hcap, svClear_is_c01 cap l hc⟩

example : (4 : Nat) < 2 ^ 64 ∧ ([1, 3, 5] : List Nat).length ≤ 4 := by decide

/-! ## histories -/

theorem spec_eraseKey_inv {cap : Nat} {l : List α} (h : Inv1 lt cap l) (k : α) :
    Inv1 lt cap (Spec.eraseKey lt l k).1 :=
  ⟨sorted_filter h.1 _, Nat.le_trans (List.length_filter_le _ _) h.2⟩

theorem spec_eraseRange_inv {cap : Nat} {l : List α} (h : Inv1 lt cap l) (f la : Nat) (hfl : f ≤ la) :
    Inv1 lt cap (Spec.eraseRange l f la).1 := by
  refine ⟨sorted_eraseRange h.1 f la hfl, ?_⟩
  have := h.2
  simp [Spec.eraseRange]; omega

/-- every operation keeps both sets strictly ascending (hence unique) and within capacity -/
theorem step_inv (hw : StrictWeak lt) (h : Het α κ) (isSet : Bool) {cap : Nat} {s : St α} (hinv : Inv lt cap s)
    (op : Op α κ) (hv : Spec.valid cap lt s op = true) : Inv lt cap (Spec.step isSet lt h cap s op).1 := by
  obtain ⟨h1, h2⟩ := hinv
  cases op with
  | insert k => exact ⟨spec_insert_inv hw h1 k, h2⟩
  | insertHint pos k =>
    cases isSet
    · exact ⟨spec_insert_inv hw h1 k, h2⟩
    · exact ⟨h1, h2⟩
  | insertRange ks => exact ⟨spec_insertRange_inv hw ks h1, h2⟩
  | eraseKey k => exact ⟨spec_eraseKey_inv h1 k, h2⟩
  | eraseAt pos => exact ⟨spec_eraseRange_inv h1 pos (pos + 1) (by omega), h2⟩
  | eraseRange f la =>
    simp [Spec.valid] at hv
    exact ⟨spec_eraseRange_inv h1 f la hv.1, h2⟩
  | clear => exact ⟨⟨List.Pairwise.nil, Nat.zero_le _⟩, h2⟩
  | swap => exact ⟨h2, h1⟩
  | extract =>
    cases isSet
    · exact ⟨⟨List.Pairwise.nil, Nat.zero_le _⟩, h2⟩
    · exact ⟨h1, h2⟩
  | replace c =>
    simp [Spec.valid] at hv
    cases isSet
    · exact ⟨⟨hv.2, hv.1⟩, h2⟩
    · exact ⟨h1, h2⟩
  | lookup w k => exact ⟨h1, h2⟩
  | hlookup w k => exact ⟨h1, h2⟩
  | riter => exact ⟨h1, h2⟩

/-- One operation of any of the three set kinds on a state satisfying the invariant: the model
    never errors and produces exactly the spec's new state and observable result. -/
theorem step_refines (hw : StrictWeak lt) {h : Het α κ} (hh : HetOk lt h) (kind : Kind) {cap : Nat}
    {s : St α} (hinv : Inv lt cap s) (op : Op α κ) (hv : Spec.valid cap lt s op = true) (hk : opOk kind op = true) :
    step kind lt h cap s op = .ok (Spec.step (kind == .ss) lt h cap s op) := by
  obtain ⟨h1, h2⟩ := hinv
  have hs := h1.1
  cases op with
  | insert k => simp [step, Spec.step, setEmplace_eq hw kind h1 k]
  | insertHint pos k =>
    cases kind <;> simp [opOk] at hk <;> simp [step, Spec.step, fsInsertHint_eq hw _ h1]
  | insertRange ks => simp [step, Spec.step, setInsertRange_eq hw kind ks h1]
  | eraseKey k =>
    simp [step, Spec.step, setEraseKey_eq hw kind hs k]
  | eraseAt pos =>
    simp [Spec.valid] at hv
    cases kind
    · simp [step, Spec.step, ssEraseAt_eq _ _ hv]
    · simp [step, Spec.step, ssEraseAt_eq _ _ hv]
    · have : (decide (pos > pos + 1) || decide (pos + 1 > s.cur.length)) = false := by simp; omega
      simp [step, Spec.step, miniErase, this, Spec.eraseRange]
  | eraseRange f la =>
    simp [Spec.valid] at hv
    cases kind
    · simp [step, Spec.step, ssEraseRange_eq _ _ _ hv.1 hv.2]
    · simp [step, Spec.step, ssEraseRange_eq _ _ _ hv.1 hv.2]
    · have : (decide (f > la) || decide (la > s.cur.length)) = false := by simp; omega
      simp [step, Spec.step, miniErase, this, Spec.eraseRange]
  | clear => simp [step, Spec.step, clear_eq]
  | swap => simp [step, Spec.step, swap_eq kind h1.2 h2.2]
  | extract => cases kind <;> simp [opOk] at hk <;> simp [step, Spec.step, extract_eq _ h1.2]
  | replace c =>
    simp [Spec.valid] at hv
    cases kind <;> simp [opOk] at hk <;>
      simp [step, Spec.step, svCtor_eq cap c hv.1, miniCtor_eq cap c hv.1, replace_eq _ _ hv.1]
  | lookup w k => simp [step, Spec.step, lookup_eq hw hs k]
  | hlookup w k => simp [step, Spec.step, hlookup_eq hh hs k]
  | riter => simp [step, Spec.step, riter_eq]

/-- MAIN THEOREM (refinement over histories).  From any state whose two sets are strictly
    ascending and within capacity, every history of insert/emplace, insert with hint, range insert, erase by
    key/position/range, clear, swap, extract, replace, all lookups (homogeneous and heterogeneous) and reverse
    iteration — of any length, for any capacity, key type and strict weak order, any consistent heterogeneous
    comparison, for static_set and both flat_set backings — runs without a single out-of-vector access,
    precondition violation or exhausted loop bound, and its outputs (positions, inserted flags, `full` reports,
    erased counts, lookup answers, extracted contents) and final state equal those of the std::set specification. -/
theorem run_refines (hw : StrictWeak lt) {h : Het α κ} (hh : HetOk lt h) (kind : Kind) (cap : Nat) :
    ∀ (ops : List (Op α κ)) (s : St α), Inv lt cap s → opsOk kind ops = true →
      validHist (kind == .ss) lt h cap s ops = true →
      run kind lt h cap s ops = .ok (Spec.run (kind == .ss) lt h cap s ops) := by
  intro ops
  induction ops with
  | nil => intro s _ _ _; rfl
  | cons op ops ih =>
    intro s hinv hok hv
    simp only [opsOk, List.all_cons, Bool.and_eq_true] at hok
    simp only [validHist, Bool.and_eq_true] at hv
    have hstep := step_refines hw hh kind hinv op hv.1 hok.1
    have hinv' := step_inv hw h (kind == .ss) hinv op hv.1
    have hrest := ih (Spec.step (kind == .ss) lt h cap s op).1 hinv' hok.2 hv.2
    simp only [run, Spec.run, hstep, ok_bind, hrest]

/-- MAIN THEOREM (invariant over histories): after every valid history both sets are strictly
    ascending w.r.t. the comparator — hence duplicate-free — and within capacity. -/
theorem inv_history (hw : StrictWeak lt) (h : Het α κ) (isSet : Bool) (cap : Nat) :
    ∀ (ops : List (Op α κ)) (s : St α), Inv lt cap s → validHist isSet lt h cap s ops = true →
      Inv lt cap (Spec.run isSet lt h cap s ops).1 := by
  intro ops
  induction ops with
  | nil => intro s h _; exact h
  | cons op ops ih =>
    intro s hinv hv
    simp only [validHist, Bool.and_eq_true] at hv
    exact ih _ (step_inv hw h isSet hinv op hv.1) hv.2

/-! ### histories extended by erase_if, the relational operators and the size observers (`XOp`) -/

theorem xstep_inv (hw : StrictWeak lt) (h : Het α κ) (e : Elem α) (isSet : Bool) {cap : Nat} {s : St α} (hinv : Inv lt cap s)
    (op : XOp α κ) (hv : Spec.xvalid cap lt s op = true) : Inv lt cap (Spec.xstep isSet lt h e cap s op).1 := by
  cases op with
  | base op => exact step_inv hw h isSet hinv op hv
  | eraseIf p => exact ⟨spec_eraseIf_inv hinv.1 p, hinv.2⟩
  | cmp => exact hinv
  | sizes => exact hinv

/-- one operation of an extended history: the model never errors and produces the spec's state and result -/
theorem xstep_refines (hw : StrictWeak lt) {h : Het α κ} (hh : HetOk lt h) (e : Elem α) (kind : Kind) {cap : Nat}
    {s : St α} (hinv : Inv lt cap s) (op : XOp α κ) (hv : Spec.xvalid cap lt s op = true) (hk : xopOk kind op = true) :
    xstep kind lt h e cap s op = .ok (Spec.xstep (kind == .ss) lt h e cap s op) := by
  cases op with
  | base op => simp only [xstep, Spec.xstep, step_refines hw hh kind hinv op hv hk, ok_bind]
  | eraseIf p => simp only [xstep, Spec.xstep, setEraseIf_eq, ok_bind]
  | cmp => simp only [xstep, Spec.xstep, relOps_eq, ok_bind]
  | sizes => simp only [xstep, Spec.xstep, sizes_eq]

/-- MAIN THEOREM, extended: every history in which `erase_if(pred)` (any predicate), the six relational operators against the
    other live set and `size()/empty()/full()/max_size()` are interleaved with all the operations of `run_refines` runs
    without a single out-of-vector access or violated precondition and yields the outputs and final state of the
    std::set specification — any length, capacity, key type, strict weak order, element `==` / `<`, all three set kinds. -/
theorem xrun_refines (hw : StrictWeak lt) {h : Het α κ} (hh : HetOk lt h) (e : Elem α) (kind : Kind) (cap : Nat) :
    ∀ (ops : List (XOp α κ)) (s : St α), Inv lt cap s → xopsOk kind ops = true →
      xvalidHist (kind == .ss) lt h e cap s ops = true →
      xrun kind lt h e cap s ops = .ok (Spec.xrun (kind == .ss) lt h e cap s ops) := by
  intro ops
  induction ops with
  | nil => intro s _ _ _; rfl
  | cons op ops ih =>
    intro s hinv hok hv
    simp only [xopsOk, List.all_cons, Bool.and_eq_true] at hok
    simp only [xvalidHist, Bool.and_eq_true] at hv
    have hstep := xstep_refines hw hh e kind hinv op hv.1 hok.1
    have hinv' := xstep_inv hw h e (kind == .ss) hinv op hv.1
    have hrest := ih (Spec.xstep (kind == .ss) lt h e cap s op).1 hinv' hok.2 hv.2
    simp only [xrun, Spec.xrun, hstep, ok_bind, hrest]

/-- the invariant (strictly ascending, within capacity) over extended histories -/
theorem xinv_history (hw : StrictWeak lt) (h : Het α κ) (e : Elem α) (isSet : Bool) (cap : Nat) :
    ∀ (ops : List (XOp α κ)) (s : St α), Inv lt cap s → xvalidHist isSet lt h e cap s ops = true →
      Inv lt cap (Spec.xrun isSet lt h e cap s ops).1 := by
  intro ops
  induction ops with
  | nil => intro s h _; exact h
  | cons op ops ih =>
    intro s hinv hv
    simp only [xvalidHist, Bool.and_eq_true] at hv
    exact ih _ (xstep_inv hw h e isSet hinv op hv.1) hv.2

/-- the comparators of the harness satisfy the hypotheses: `less` / `greater` on integers are strict total orders
    (hence strict weak orders); ordering by `k / 2` is a strict weak order that is not total -/
theorem strictTotal_nat_lt : StrictTotal (fun a b : Nat => decide (a < b)) :=
  ⟨by simp, by intro a b c; simp; omega, by intro a b; simp; omega⟩
theorem strictTotal_nat_gt : StrictTotal (fun a b : Nat => decide (a > b)) :=
  ⟨by simp, by intro a b c; simp; omega, by intro a b; simp; omega⟩
theorem strictWeak_nat_half : StrictWeak (fun a b : Nat => decide (a / 2 < b / 2)) :=
  ⟨by intro a; simp, by intro a b c; simp; omega, by intro a b c; simp; omega⟩

/-- the hypothesis `StrictWeak` as a decidable predicate on samples: a strict weak order passes `strictWeakOn` on every finite
    sample of keys (so a comparator failing it on some sample is outside every theorem of this file) -/
theorem strictWeak_on_samples (hw : StrictWeak lt) (xs : List α) : strictWeakOn lt xs = true := by
  simp only [strictWeakOn, Bool.and_eq_true, List.all_eq_true]
  refine ⟨⟨fun a _ => by simp [hw.irrefl a], fun a _ b _ c _ => ?_⟩, fun a _ b _ c _ => ?_⟩
  · cases hab : lt a b <;> cases hbc : lt b c <;> simp
    exact hw.trans a b c hab hbc
  · cases hab : lt a b <;> cases hba : lt b a <;> cases hbc : lt b c <;> cases hcb : lt c b <;> simp
    exact hw.incomp_trans a b c hab hba hbc hcb

-- samples (tests, not proofs): the harness' strict-weak-only comparator passes on its key universe; `≤` fails
example : strictWeakOn (fun a b : Nat => decide (a / 2 < b / 2)) [0, 1, 2, 3, 4, 5, 6, 7] = true := by decide
example : strictWeakOn (fun a b : Nat => decide (a ≤ b)) [0, 1] = false := by decide

theorem half_not_total : ¬ EquivIsEq (fun a b : Nat => decide (a / 2 < b / 2)) :=
  fun h => absurd (h 2 3 (by decide) (by decide)) (by decide)

-- non-vacuity of the hypothesis `StrictWeak` of every theorem above: the comparators of the harness
example : StrictWeak (fun a b : Nat => decide (a < b)) := strictTotal_nat_lt.toWeak
example : StrictWeak (fun a b : Nat => decide (a > b)) := strictTotal_nat_gt.toWeak

/-- the former hypothesis `StrictTotal` is exactly `StrictWeak` + `EquivIsEq` (`==` is the comparator's equivalence) -/
theorem strictTotal_iff : StrictTotal lt ↔ StrictWeak lt ∧ EquivIsEq lt :=
  ⟨fun h => ⟨h.toWeak, h.equivIsEq⟩, fun h => StrictTotal.of h.1 h.2⟩

-- non-vacuity: a concrete state and history satisfying every hypothesis of `run_refines`
example : Inv (fun a b : Nat => decide (a < b)) 3 { cur := [1, 3, 5], other := [2] } :=
  ⟨⟨by unfold Sorted; decide, by decide⟩, ⟨by unfold Sorted; decide, by decide⟩⟩
example : validHist false (fun a b : Nat => decide (a < b)) ({ ek := fun x k => decide (x < k), ke := fun k x => decide (k < x) } : Het Nat Nat)
    3 { cur := [1, 3, 5], other := [2] }
    [.insert 4, .eraseKey 2, .eraseAt 1, .insertHint 0 4, .swap, .eraseRange 0 1, .replace [0, 7], .hlookup .find 7,
      .riter, .extract] = true := by
  decide
-- non-vacuity of `xrun_refines`: an extended history satisfying its hypotheses
example : xvalidHist false (fun a b : Nat => decide (a < b)) ({ ek := fun x k => decide (x < k), ke := fun k x => decide (k < x) } : Het Nat Nat)
    ({ eq := fun a b => a == b, lt := fun a b => decide (a < b) } : Elem Nat)
    3 { cur := [1, 3, 5], other := [2] }
    [.base (.insert 4), .cmp, .base .swap, .eraseIf (fun v => v % 2 == 1), .sizes, .base (.eraseRange 0 0), .cmp,
      .base (.replace [0, 7]), .eraseIf (fun v => v == 7), .base .extract] = true := by
  decide
example : xopsOk Kind.fs ([.base (.insert 4), .cmp, .eraseIf (fun v => v == 7), .sizes, .base .extract] : List (XOp Nat Nat)) = true := by
  decide
example : opsOk Kind.fs ([.insert 4, .swap, .replace [0, 7], .insertHint 1 3, .extract] : List (Op Nat Nat)) = true := by decide

/-- The band key `{k, k+1}` of the harness (`het=2`, a heterogeneous key equivalent to up to two elements) is consistent
    with the order of `less` / `less<>` … -/
theorem bandOf_ok_less : HetOk (fun a b : Nat => decide (a < b)) (bandOf (fun a b : Nat => decide (a < b))) := by
  constructor
  · intro k a b hab hb
    simp only [bandOf, Bool.and_eq_true, decide_eq_true_eq] at *
    omega
  · intro k a b hab ha
    simp only [bandOf, Bool.and_eq_true, decide_eq_true_eq] at *
    omega
  · intro k a h
    simp only [bandOf, Bool.and_eq_true, Bool.and_eq_false_iff, decide_eq_true_eq, decide_eq_false_iff_not] at *
    omega

/-- … and of `greater` / `greater<>`, so every `HetOk` lookup theorem above applies to the band-key lines of the run. -/
theorem bandOf_ok_greater : HetOk (fun a b : Nat => decide (a > b)) (bandOf (fun a b : Nat => decide (a > b))) := by
  constructor
  · intro k a b hab hb
    simp only [bandOf, Bool.and_eq_true, decide_eq_true_eq, gt_iff_lt] at *
    omega
  · intro k a b hab ha
    simp only [bandOf, Bool.and_eq_true, decide_eq_true_eq, gt_iff_lt] at *
    omega
  · intro k a h
    simp only [bandOf, Bool.and_eq_true, Bool.and_eq_false_iff, decide_eq_true_eq, decide_eq_false_iff_not, gt_iff_lt] at *
    omega

/-- the band key really is equivalent to two elements of a set: neither before nor after 3 and 4 -/
example : let h := bandOf (fun a b : Nat => decide (a < b)); (h.ek 3 3 = false ∧ h.ke 3 3 = false) ∧ (h.ek 4 3 = false ∧ h.ke 3 4 = false) := by decide

end Tetl.C09.Props
