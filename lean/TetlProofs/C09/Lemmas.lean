/-
C09 — helper lemmas: checked reads, the binary-search loop, order facts of a strict total
comparator on a sorted list.
-/
import Tetl.C09.Model
import Tetl.C09.Spec
namespace Tetl.C09
open Tetl

variable {α : Type}

@[simp] theorem ok_bind {ε α β} (a : α) (f : α → Except ε β) : (Except.ok a >>= f) = f a := rfl
@[simp] theorem error_bind {ε α β} (e : ε) (f : α → Except ε β) : (Except.error e >>= f) = Except.error e := rfl
@[simp] theorem pure_eq_ok {ε α} (a : α) : (pure a : Except ε α) = Except.ok a := rfl

theorem rd_append_mid (P : List α) (x : α) (S : List α) : rd (P ++ x :: S) P.length = .ok x := by
  simp [rd]

theorem rd_mid' (P : List α) (x : α) (S : List α) (i : Nat) (h : i = P.length) :
    rd (P ++ x :: S) i = .ok x := by subst h; exact rd_append_mid P x S

/-! ### the comparator -/

/-- documented requirement on `Compare` for the members modelled here: a strict total order
    (irreflexive, transitive, and two keys that are not ordered either way are the same key —
    true for `less`/`greater` on integers).  -/
structure StrictTotal (lt : α → α → Bool) : Prop where
  irrefl : ∀ a, lt a a = false
  trans : ∀ a b c, lt a b = true → lt b c = true → lt a c = true
  total : ∀ a b, lt a b = false → lt b a = false → a = b

theorem StrictTotal.asymm {lt : α → α → Bool} (h : StrictTotal lt) {a b : α} (hab : lt a b = true) :
    lt b a = false := by
  cases hba : lt b a with
  | false => rfl
  | true => have := h.trans a b a hab hba; rw [h.irrefl] at this; cases this

/-- The requirement the standard puts on `Compare` ([alg.sorting]/4): a strict weak ordering —
    irreflexive, transitive, and incomparability (`equiv`) is transitive.  This is all the members
    that work through the comparator need. -/
structure StrictWeak (lt : α → α → Bool) : Prop where
  irrefl : ∀ a, lt a a = false
  trans : ∀ a b c, lt a b = true → lt b c = true → lt a c = true
  incomp_trans : ∀ a b c, lt a b = false → lt b a = false → lt b c = false → lt c b = false →
    lt a c = false ∧ lt c a = false

/-- the three clauses of `StrictWeak`, evaluated on a finite sample of keys: a decidable check that a test of a user
    comparator can run (`StrictWeak` itself quantifies over all keys) -/
def strictWeakOn (lt : α → α → Bool) (xs : List α) : Bool :=
  xs.all (fun a => !lt a a) &&
  xs.all (fun a => xs.all fun b => xs.all fun c => !(lt a b && lt b c) || lt a c) &&
  xs.all (fun a => xs.all fun b => xs.all fun c =>
    !(!lt a b && !lt b a && !lt b c && !lt c b) || (!lt a c && !lt c a))

/-- `operator==` of the key type agrees with the equivalence the comparator induces: two keys that are
    not ordered either way are the same key.  NO member of static_set / flat_set depends on it any more (the two
    that did — `static_set::find(key_type const&)` through `etl::find`, `flat_set::erase(key_type const&)` through
    `etl::remove` — were repaired, findings F-C09-ss-find-eq / F-C09-fs-erase-key-eq); it remains as the
    difference between the former hypothesis `StrictTotal` and `StrictWeak`, and as the condition under which
    the sorted permutation `flat_multiset` builds is unique. -/
def EquivIsEq (lt : α → α → Bool) : Prop := ∀ a b, lt a b = false → lt b a = false → a = b

theorem StrictWeak.asymm {lt : α → α → Bool} (h : StrictWeak lt) {a b : α} (hab : lt a b = true) :
    lt b a = false := by
  cases hba : lt b a with
  | false => rfl
  | true => have := h.trans a b a hab hba; rw [h.irrefl] at this; cases this

/-- a strict total order is a strict weak order whose equivalence is equality — and conversely -/
theorem StrictTotal.toWeak {lt : α → α → Bool} (h : StrictTotal lt) : StrictWeak lt where
  irrefl := h.irrefl
  trans := h.trans
  incomp_trans := by
    intro a b c h1 h2 h3 h4
    have e1 := h.total a b h1 h2
    have e2 := h.total b c h3 h4
    subst e1; subst e2
    exact ⟨h.irrefl _, h.irrefl _⟩

theorem StrictTotal.equivIsEq {lt : α → α → Bool} (h : StrictTotal lt) : EquivIsEq lt := h.total

theorem StrictTotal.of {lt : α → α → Bool} (hw : StrictWeak lt) (he : EquivIsEq lt) : StrictTotal lt :=
  ⟨hw.irrefl, hw.trans, he⟩

/-- Consistency of a transparent comparator with the order of the set ([associative.reqmts]: a key `k`
    of another type may be looked up when the elements are partitioned w.r.t. `c(x, k)` and `!c(k, x)`,
    with `c(x, k)` implying `!c(k, x)`): stated against the comparator, so that it holds in every state. -/
structure HetOk (lt : α → α → Bool) (h : Het α κ) : Prop where
  below_mono : ∀ k a b, lt a b = true → h.ek b k = true → h.ek a k = true
  above_mono : ∀ k a b, lt a b = true → h.ke k a = true → h.ke k b = true
  excl : ∀ k a, h.ek a k = true → h.ke k a = false

/-- what a lookup with the predicates `below x = c(x, key)`, `above x = c(key, x)` needs of the list:
    it is partitioned w.r.t. `below` and w.r.t. `!above`, and `below` excludes `above` -/
structure Parted (below above : α → Bool) (l : List α) : Prop where
  below_mono : l.Pairwise (fun a b => below b = true → below a = true)
  above_mono : l.Pairwise (fun a b => above a = true → above b = true)
  excl : ∀ x ∈ l, below x = true → above x = false

/-- strictly ascending w.r.t. the comparator (hence unique) -/
def Sorted (lt : α → α → Bool) (l : List α) : Prop := l.Pairwise (fun a b => lt a b = true)

theorem parted_het {lt : α → α → Bool} {h : Het α κ} (hh : HetOk lt h) {l : List α} (hs : Sorted lt l) (k : κ) :
    Parted (fun x => h.ek x k) (fun x => h.ke k x) l :=
  ⟨List.Pairwise.imp (fun {a b} hab hb => hh.below_mono k a b hab hb) hs,
   List.Pairwise.imp (fun {a b} hab ha => hh.above_mono k a b hab ha) hs,
   fun x _ hx => hh.excl k x hx⟩

theorem parted_hom {lt : α → α → Bool} (hw : StrictWeak lt) {l : List α} (hs : Sorted lt l) (k : α) :
    Parted (fun x => lt x k) (fun x => lt k x) l :=
  ⟨List.Pairwise.imp (fun {a b} hab hb => hw.trans a b k hab hb) hs,
   List.Pairwise.imp (fun {a b} hab ha => hw.trans k a b ha hab) hs,
   fun x _ hx => hw.asymm hx⟩

/-! ### the loop of lower_bound / upper_bound -/

theorem boundLoop_zero (l : List α) (p : α → Bool) (first : Nat) : boundLoop l p first 0 = .ok first := by
  rw [boundLoop]; simp

theorem boundLoop_step (l : List α) (p : α → Bool) (first count : Nat) (x : α) (hc : count > 0)
    (hx : rd l (first + count / 2) = .ok x) :
    boundLoop l p first count =
      if p x then boundLoop l p (first + count / 2 + 1) (count - (count / 2 + 1))
      else boundLoop l p first (count / 2) := by
  conv => lhs; rw [boundLoop]
  simp [hc, hx]

/-- The loop finds the partition point of any range that is partitioned w.r.t. `p`, reading only
    inside the range: on `P ++ M ++ S` with `first = |P|`, `count = |M|` it returns `|P| + |A|`
    where `M = A ++ B`, `p` holds on all of `A` and on none of `B`. -/
theorem boundLoop_spec (p : α → Bool) : ∀ (n : Nat) (P M S : List α), M.length = n →
    M.Pairwise (fun a b => p b = true → p a = true) →
    ∃ A B, M = A ++ B ∧ (∀ x ∈ A, p x = true) ∧ (∀ x ∈ B, p x = false) ∧
      boundLoop (P ++ M ++ S) p P.length M.length = .ok (P.length + A.length) := by
  intro n
  induction n using Nat.strongRecOn with
  | _ n ih =>
    intro P M S hn hpw
    by_cases h0 : M.length = 0
    · have : M = [] := List.eq_nil_of_length_eq_zero h0
      subst this
      exact ⟨[], [], rfl, by simp, by simp, by simp [boundLoop_zero]⟩
    · have hpos : M.length > 0 := Nat.pos_of_ne_zero h0
      have hstep : M.length / 2 < M.length := Nat.div_lt_self hpos (by decide)
      -- split M at step
      obtain ⟨M1, x, M2, hM, hM1⟩ : ∃ M1 x M2, M = M1 ++ x :: M2 ∧ M1.length = M.length / 2 := by
        refine ⟨M.take (M.length / 2), M[M.length / 2], M.drop (M.length / 2 + 1), ?_, ?_⟩
        · rw [List.getElem_cons_drop]; simp
        · simp; omega
      have hlen : M.length = M1.length + M2.length + 1 := by rw [hM]; simp; omega
      have hrd : rd (P ++ M ++ S) (P.length + M.length / 2) = .ok x := by
        have e : P ++ M ++ S = (P ++ M1) ++ x :: (M2 ++ S) := by rw [hM]; simp
        rw [e]; exact rd_mid' _ _ _ _ (by simp [hM1])
      rw [boundLoop_step _ _ _ _ x hpos hrd]
      rw [hM] at hpw
      have hpw' := List.pairwise_append.mp hpw
      obtain ⟨hpw1, hpw2, hcross⟩ := hpw'
      cases hpx : p x with
      | true =>
        simp only [if_true]
        have hA1 : ∀ y ∈ M1, p y = true := fun y hy => hcross y hy x (by simp) hpx
        have hpwM2 : M2.Pairwise (fun a b => p b = true → p a = true) := (List.pairwise_cons.mp hpw2).2
        obtain ⟨A', B', hM2, hA', hB', hres⟩ := ih M2.length (by omega) (P ++ M1 ++ [x]) M2 S rfl hpwM2
        refine ⟨M1 ++ x :: A', B', ?_, ?_, hB', ?_⟩
        · rw [hM, hM2]; simp
        · intro y hy
          rcases List.mem_append.mp hy with h | h
          · exact hA1 y h
          · rcases List.mem_cons.mp h with h | h
            · rw [h]; exact hpx
            · exact hA' y h
        · have e1 : P ++ M ++ S = (P ++ M1 ++ [x]) ++ M2 ++ S := by rw [hM]; simp
          have e2 : P.length + M.length / 2 + 1 = (P ++ M1 ++ [x]).length := by simp [hM1]; omega
          have e3 : M.length - (M.length / 2 + 1) = M2.length := by omega
          rw [e1, e2, e3, hres]
          simp; omega
      | false =>
        simp only [Bool.false_eq_true, if_false]
        have hB2 : ∀ y ∈ M2, p y = false := by
          intro y hy
          have := (List.pairwise_cons.mp hpw2).1 y hy
          cases hpy : p y with
          | false => rfl
          | true => rw [this hpy] at hpx; cases hpx
        have hpwM1 : M1.Pairwise (fun a b => p b = true → p a = true) := hpw1
        obtain ⟨A', B', hM1', hA', hB', hres⟩ := ih M1.length (by omega) P M1 (x :: M2 ++ S) rfl hpwM1
        refine ⟨A', B' ++ x :: M2, ?_, hA', ?_, ?_⟩
        · rw [hM, hM1']; simp
        · intro y hy
          rcases List.mem_append.mp hy with h | h
          · exact hB' y h
          · rcases List.mem_cons.mp h with h | h
            · rw [h]; exact hpx
            · exact hB2 y h
        · have e1 : P ++ M ++ S = P ++ M1 ++ (x :: M2 ++ S) := by rw [hM]; simp
          rw [e1, ← hM1, hres]

end Tetl.C09
