import Tetl.C09.Model
import Tetl.C09.Spec
namespace Tetl.C09
end Tetl.C09
