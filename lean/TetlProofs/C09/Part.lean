/-
C09 — the lookup members for a key of ANY type (the `K const&` overloads of a transparent comparator and,
as the instance `below = (lt · k)`, `above = (lt k ·)`, the `key_type const&` overloads): on a list that is
partitioned w.r.t. `below x = comp(x, key)` and `!above x = !comp(key, x)` the binary-search loops return the
counting-based answers of the spec.
-/
import TetlProofs.C09.Vector
namespace Tetl.C09
open Tetl
variable {α : Type}

/-- the loop over the whole list -/
theorem pt_bound (p : α → Bool) {l : List α} (h : l.Pairwise (fun a b => p b = true → p a = true)) :
    ∃ A B, l = A ++ B ∧ (∀ x ∈ A, p x = true) ∧ (∀ x ∈ B, p x = false) ∧
      boundLoop l p 0 l.length = .ok A.length := by
  obtain ⟨A, B, hl, hA, hB, hres⟩ := boundLoop_spec p l.length [] l [] rfl h
  simp only [List.nil_append, List.append_nil, List.length_nil, Nat.zero_add] at hres
  exact ⟨A, B, hl, hA, hB, hres⟩

theorem pt_countP (p : α → Bool) {A B : List α} (hA : ∀ x ∈ A, p x = true) (hB : ∀ x ∈ B, p x = false) :
    (A ++ B).countP p = A.length := by
  rw [List.countP_append, List.countP_eq_length.mpr hA, List.countP_eq_zero.mpr (by
    intro x hx; rw [hB x hx]; exact Bool.false_ne_true)]
  rfl

theorem pt_above_pw (above : α → Bool) {l : List α}
    (h : l.Pairwise (fun a b => above a = true → above b = true)) :
    l.Pairwise (fun a b => (fun x => !above x) b = true → (fun x => !above x) a = true) := by
  refine List.Pairwise.imp ?_ h
  intro a b hab hb
  have hb' : (!above b) = true := hb
  show (!above a) = true
  cases ha : above a with
  | false => rfl
  | true => rw [hab ha] at hb'; exact hb'

theorem lowerBoundP_eq (below : α → Bool) {l : List α}
    (h : l.Pairwise (fun a b => below b = true → below a = true)) :
    lowerBoundP below l = .ok (Spec.lowerBoundP below l) := by
  obtain ⟨A, B, hl, hA, hB, hres⟩ := pt_bound below h
  unfold lowerBoundP Spec.lowerBoundP
  rw [hres, hl, pt_countP below hA hB]

theorem upperBoundP_eq (above : α → Bool) {l : List α}
    (h : l.Pairwise (fun a b => above a = true → above b = true)) :
    upperBoundP above l = .ok (Spec.upperBoundP above l) := by
  obtain ⟨A, B, hl, hA, hB, hres⟩ := pt_bound (fun x => !above x) (pt_above_pw above h)
  unfold upperBoundP Spec.upperBoundP
  rw [hres, hl, pt_countP (fun x => !above x) hA hB]

theorem equalRangeP_eq {below above : α → Bool} {l : List α} (h : Parted below above l) :
    equalRangeP below above l = .ok (Spec.lowerBoundP below l, Spec.upperBoundP above l) := by
  unfold equalRangeP
  rw [lowerBoundP_eq below h.below_mono, upperBoundP_eq above h.above_mono]
  rfl

theorem pt_equivAt_end (gt : α → Bool) (A : List α) : equivAt gt (A ++ []) A.length = .ok false := by
  unfold equivAt
  simp only [List.append_nil, if_true]

theorem pt_equivAt_mid (gt : α → Bool) (A : List α) (b : α) (B : List α) :
    equivAt gt (A ++ b :: B) A.length = .ok (!gt b) := by
  unfold equivAt
  have hne : ¬ (A.length = (A ++ b :: B).length) := by
    rw [List.length_append, List.length_cons]; omega
  rw [if_neg hne, rd_append_mid]

theorem pt_contains_false {below above : α → Bool} {A B : List α}
    (hA : ∀ x ∈ A, below x = true) (hB : ∀ x ∈ B, above x = true) :
    Spec.containsP below above (A ++ B) = false := by
  unfold Spec.containsP
  rw [List.any_eq_false]
  intro x hx
  unfold Spec.equivP
  rcases List.mem_append.mp hx with h | h
  · rw [hA x h]; simp
  · rw [hB x h]; simp

/-- what the `lower_bound` + `it == end() or comp(key, *it)` test sees, in terms of the spec:
    the list splits at the lower bound into `A` (all below) and `B` (none below); either `B` starts with an element
    equivalent to the key (neither below nor above) and the key is contained, or all of `B` is above and it is not. -/
theorem probeP {below above : α → Bool} {l : List α} (h : Parted below above l) :
    ∃ A B, l = A ++ B ∧ lowerBoundP below l = .ok A.length ∧ Spec.lowerBoundP below l = A.length ∧
      (∀ x ∈ A, below x = true) ∧ (∀ x ∈ A, above x = false) ∧ (∀ x ∈ B, below x = false) ∧
      ((∃ b B', B = b :: B' ∧ above b = false ∧
          equivAt above l A.length = .ok true ∧ Spec.containsP below above l = true) ∨
       ((∀ x ∈ B, above x = true) ∧
          equivAt above l A.length = .ok false ∧ Spec.containsP below above l = false)) := by
  obtain ⟨A, B, hl, hA, hB, hres⟩ := pt_bound below h.below_mono
  have hspec : Spec.lowerBoundP below l = A.length := by
    unfold Spec.lowerBoundP; rw [hl, pt_countP below hA hB]
  have hAab : ∀ x ∈ A, above x = false := fun x hx =>
    h.excl x (by rw [hl]; exact List.mem_append_left _ hx) (hA x hx)
  refine ⟨A, B, hl, hres, hspec, hA, hAab, hB, ?_⟩
  cases B with
  | nil =>
    right
    refine ⟨(by intro x hx; cases hx), ?_, ?_⟩
    · rw [hl]; exact pt_equivAt_end above A
    · rw [hl]; exact pt_contains_false hA (by intro x hx; cases hx)
  | cons b B' =>
    cases hab : above b with
    | false =>
      left
      refine ⟨b, B', rfl, hab, ?_, ?_⟩
      · rw [hl, pt_equivAt_mid, hab]; rfl
      · unfold Spec.containsP
        rw [List.any_eq_true]
        refine ⟨b, by rw [hl]; simp, ?_⟩
        unfold Spec.equivP
        rw [hB b (by simp), hab]; rfl
    | true =>
      right
      have hpw := h.above_mono
      rw [hl] at hpw
      have hpwB := (List.pairwise_append.mp hpw).2.1
      have hB'ab : ∀ x ∈ B', above x = true := fun x hx => (List.pairwise_cons.mp hpwB).1 x hx hab
      have hBab : ∀ x ∈ b :: B', above x = true := by
        intro x hx
        rcases List.mem_cons.mp hx with e | e
        · rw [e]; exact hab
        · exact hB'ab x e
      refine ⟨hBab, ?_, ?_⟩
      · rw [hl, pt_equivAt_mid, hab]; rfl
      · rw [hl]; exact pt_contains_false hA hBab

/-- `find` through `lower_bound` -/
theorem findLBP_eq {below above : α → Bool} {l : List α} (h : Parted below above l) :
    findLB below above l = .ok (Spec.findP below above l) := by
  obtain ⟨A, B, _, hlb, hspec, _, _, _, hcase⟩ := probeP h
  unfold lowerBoundP at hlb
  unfold findLB Spec.findP
  rcases hcase with ⟨_, _, _, _, heq, hc⟩ | ⟨_, heq, hc⟩
  · simp only [hlb, ok_bind, heq, hc, hspec, if_true]
  · simp only [hlb, ok_bind, heq, hc, Bool.false_eq_true, if_false]

/-- `find(key) != end()` is `contains` -/
theorem findP_ne_length {below above : α → Bool} {l : List α} (h : Parted below above l) :
    (Spec.findP below above l != l.length) = Spec.containsP below above l := by
  obtain ⟨A, B, hl, _, hspec, _, _, _, hcase⟩ := probeP h
  unfold Spec.findP
  rcases hcase with ⟨b, B', hB, _, _, hc⟩ | ⟨_, _, hc⟩
  · rw [hc, if_pos rfl, hspec]
    have : A.length ≠ l.length := by
      rw [hl, hB, List.length_append, List.length_cons]; omega
    simpa using this
  · rw [hc]; simp

/-- every lookup member = its spec answer -/
theorem lookupP_eq {below above : α → Bool} {l : List α} (h : Parted below above l) (w : Lk) :
    lookupP below above l w = .ok (Spec.lookupP below above l w) := by
  cases w
  · simp only [lookupP, Spec.lookupP, findLBP_eq h, ok_bind]
  · simp only [lookupP, Spec.lookupP, findLBP_eq h, ok_bind, findP_ne_length h]
  · simp only [lookupP, Spec.lookupP, findLBP_eq h, ok_bind, findP_ne_length h]
  · simp only [lookupP, Spec.lookupP, lowerBoundP_eq below h.below_mono, ok_bind]
  · simp only [lookupP, Spec.lookupP, upperBoundP_eq above h.above_mono, ok_bind]
  · simp only [lookupP, Spec.lookupP, equalRangeP_eq h, ok_bind]

/-- the elements not after the key are those before it plus those equivalent to it -/
theorem countP_not_above_eq {below above : α → Bool} (l : List α) (h : ∀ x ∈ l, below x = true → above x = false) :
    l.countP (fun x => !above x) = l.countP below + l.countP (Spec.equivP below above) := by
  induction l with
  | nil => simp
  | cons x xs ih =>
    have hx := h x (by simp)
    have ih' := ih (fun y hy => h y (by simp [hy]))
    have hx' : below x = true → above x = false := hx
    rw [List.countP_cons, List.countP_cons, List.countP_cons, ih']
    unfold Spec.equivP
    cases hb : below x <;> cases ha : above x <;> simp_all <;> omega

/-- every lookup member with a key of another type = its spec answer; `count` is the number of equivalent elements -/
theorem hlookupP_eq {below above : α → Bool} {l : List α} (h : Parted below above l) (w : Lk) :
    hlookupP below above l w = .ok (Spec.hlookupP below above l w) := by
  cases w
  case count =>
    simp only [hlookupP, Spec.hlookupP, equalRangeP_eq h, ok_bind, Spec.upperBoundP, Spec.lowerBoundP,
      countP_not_above_eq l h.excl]
    congr 2
    omega
  all_goals (simp only [hlookupP, Spec.hlookupP]; exact lookupP_eq h _)

end Tetl.C09
