/-
C09 — bridge to C01 (fixed-capacity vectors).

(1) The container contract `miniEmplace / miniErase / miniCtor / miniClear` under which `flat_set` is proved for the `.fi`
    backing (the harness' inplace-vector-like container) is not an ad-hoc statement: on every input meeting the container's
    documented preconditions it is EXACTLY what the C01 model of `etl::static_vector` (Tetl/C01/Model.lean: `insertRv` =
    `emplace(pos, x)`, `eraseRange`, `ctorRange`, `clear`) computes — the equations C01 proves against `std::vector`
    (`Tetl.C01.insertRv_eq`, `eraseRange_eq`, `ctorRange_eq`, `clear_eq`).  So the `.fi` theorems hold for every container that
    behaves like `std::vector` within capacity, and tetl's own `static_vector` is one (C01).
(2) C09's own loop-level model of the `static_vector` members (`svEmplace`, `svErase`, `svCtor`, `svPushBack`, written for an
    arbitrary element type) agrees with the C01 model of the same members (written for the harness' element values).
(3) `flat_set` / `flat_multiset` over `etl::inplace_vector`: the members that compile (`fvCtor`, `fvClear`, `fvExtract`,
    `fvMsetCtor`) are written with the C01 model of `inplace_vector` and proved from the C01 theorems
    (`ipvMoveCtor_eq`, `ipvClear_eq`).
-/
import TetlProofs.C09.Move
import TetlProofs.C09.Mset
import TetlProofs.C01.Members3
namespace Tetl.C09
open Tetl

/-! ### C09's `static_vector::emplace(pos, x)` in closed form -/

theorem svEmplace_eq {α : Type} (cap : Nat) (l : List α) (pos : Nat) (x : α) (hn : l.length < cap) (hp : pos ≤ l.length) :
    svEmplace cap l pos x = .ok (l.take pos ++ x :: l.drop pos, pos) := by
  have hrot := rotate_spec (l.length + 2) (l.take pos) (l.drop pos) [x] [] (by simp; omega)
  have e0 : l.take pos ++ l.drop pos = l := List.take_append_drop pos l
  have e1 : (l.take pos).length = pos := by simp; omega
  have e2 : (l.take pos).length + (l.drop pos).length = l.length := by rw [← List.length_append, e0]
  have e3 : l.take pos ++ l.drop pos ++ [x] ++ [] = l ++ [x] := by simp
  rw [e3, e2, e1] at hrot
  simp only [List.length_singleton] at hrot
  unfold svEmplace
  rw [if_neg (by omega), if_neg (by omega), hrot]
  simp

/-! ### (1) the container contract is the C01 model of static_vector -/

theorem miniEmplace_is_c01 (cap : Nat) (l : List Nat) (pos x : Nat) (hc : cap < 2 ^ 64) (hn : l.length < cap)
    (hp : pos ≤ l.length) : miniEmplace cap l pos x = Tetl.C01.insertRv cap l pos x := by
  rw [Tetl.C01.insertRv_eq l pos x hc hp hn]
  unfold miniEmplace
  rw [if_neg (by omega), if_neg (by omega)]
  simp [Tetl.C01.Spec.insertAt]

theorem miniErase_is_c01 (cap : Nat) (l : List Nat) (f la : Nat) (hc : cap < 2 ^ 64) (hcap : l.length ≤ cap)
    (hfl : f ≤ la) (hl : la ≤ l.length) : miniErase l f la = Tetl.C01.eraseRange cap l f la := by
  rw [Tetl.C01.eraseRange_eq l f la hc hcap hfl hl]
  have : (decide (f > la) || decide (la > l.length)) = false := by simp; omega
  simp [miniErase, this, Tetl.C01.Spec.eraseRange]

theorem miniCtor_is_c01 (cap : Nat) (c : List Nat) (hc : cap < 2 ^ 64) (hn : c.length ≤ cap) :
    miniCtor cap c = Tetl.C01.ctorRange cap c ∧ miniCtor cap c = Tetl.C01.copyCtor cap c := by
  rw [Tetl.C01.ctorRange_eq c hc hn, Tetl.C01.copyCtor_eq c hc hn, miniCtor_eq cap c hn]
  exact ⟨rfl, rfl⟩

theorem miniClear_is_c01 (cap : Nat) (l : List Nat) (hc : cap < 2 ^ 64) : Tetl.C01.clear cap l = .ok (miniClear l) := by
  rw [Tetl.C01.clear_eq l hc]; rfl

/-! ### (2) C09's static_vector member models agree with C01's -/

theorem svEmplace_is_c01 (cap : Nat) (l : List Nat) (pos x : Nat) (hc : cap < 2 ^ 64) (hn : l.length < cap)
    (hp : pos ≤ l.length) : svEmplace cap l pos x = Tetl.C01.insertRv cap l pos x := by
  rw [Tetl.C01.insertRv_eq l pos x hc hp hn, svEmplace_eq cap l pos x hn hp]
  simp [Tetl.C01.Spec.insertAt]

theorem svErase_is_c01 (cap : Nat) (l : List Nat) (f la : Nat) (hc : cap < 2 ^ 64) (hcap : l.length ≤ cap)
    (hfl : f ≤ la) (hl : la ≤ l.length) : svErase l f la = Tetl.C01.eraseRange cap l f la := by
  rw [Tetl.C01.eraseRange_eq l f la hc hcap hfl hl, svErase_eq l f la hfl hl]
  rfl

theorem svCtor_is_c01 (cap : Nat) (c : List Nat) (hc : cap < 2 ^ 64) (hn : c.length ≤ cap) :
    svCtor cap c = Tetl.C01.ctorRange cap c := by
  rw [Tetl.C01.ctorRange_eq c hc hn, svCtor_eq cap c hn]

theorem svClear_is_c01 (cap : Nat) (l : List Nat) (hc : cap < 2 ^ 64) : Tetl.C01.clear cap l = .ok (svClear l) := by
  rw [Tetl.C01.clear_eq l hc]; rfl

/-! ### (3) flat_set / flat_multiset over etl::inplace_vector -/

theorem fvCtor_eq' (cap : Nat) (c : List Nat) (h : c.length ≤ cap) : fvCtor cap c = .ok c := by
  simp only [fvCtor, Tetl.C01.ipvMoveCtor_eq .triv c h, ok_bind]

theorem fvClear_eq' (cap : Nat) (l : List Nat) (hc : cap < 2 ^ 64) : fvClear cap l = .ok [] :=
  Tetl.C01.ipvClear_eq l hc

theorem fvExtract_eq' (cap : Nat) (l : List Nat) (hc : cap < 2 ^ 64) (h : l.length ≤ cap) :
    fvExtract cap l = .ok ([], l) := by
  simp only [fvExtract, Tetl.C01.ipvMoveCtor_eq .triv l h, ok_bind, Tetl.C01.ipvClear_eq l hc]

theorem fvMsetCtor_eq' {lt : Nat → Nat → Bool} (hw : StrictWeak lt) (cap : Nat) (c : List Nat) (h : c.length ≤ cap) :
    fvMsetCtor lt cap c = .ok (Spec.multiset lt c) := by
  simp only [fvMsetCtor, fvCtor_eq' cap c h, ok_bind, ms_sort_stable hw c]

/-- `flat_multiset` over the contract container: memberwise move, then the same sort -/
theorem fiMsetCtor_eq' {α : Type} {lt : α → α → Bool} (hw : StrictWeak lt) (cap : Nat) (c : List α) (h : c.length ≤ cap) :
    fiMsetCtor lt cap c = .ok (Spec.multiset lt c) := by
  simp only [fiMsetCtor, miniCtor_eq cap c h, ms_sort_stable hw c]

end Tetl.C09
