/-
C09 — `flat_multiset(KeyContainer)`: the move of the container (Move.lean) followed by `etl::sort` = gnome sort,
whose sorted-permutation theorem for every strict weak order is the C06 theorem `gnomeSort_spec`
(TetlProofs/C06/Gnome.lean; restated as `gnomeSort_eq` / `sort_eq` in TetlProofs/C06/Props.lean).
-/
import TetlProofs.C09.Move
import TetlProofs.C06.Gnome
import TetlProofs.C09.Stable
namespace Tetl.C09
open Tetl

variable {α : Type} {lt : α → α → Bool}

/-- the C09 and the C06 statement of "strict weak ordering" are the same three clauses -/
theorem StrictWeak.toC06 (h : StrictWeak lt) : Tetl.C06.StrictWeak lt :=
  ⟨h.irrefl, h.trans, h.incomp_trans⟩

/-- `etl::sort` over the whole vector: a sorted permutation, no access outside it, loop bound not exhausted -/
theorem ms_sort_whole (hw : StrictWeak lt) (l : List α) :
    ∃ r, Tetl.C06.sort lt l 0 l.length = .ok r ∧ r.Perm l ∧ r.Pairwise (fun a b => lt b a = false) := by
  obtain ⟨r, h1, h2, h3⟩ := Tetl.C06.gnomeSort_spec lt hw.toC06 [] l []
  refine ⟨r, ?_, h2, h3⟩
  simpa [Tetl.C06.sort] using h1

theorem msetCtor_spec (hw : StrictWeak lt) (cap : Nat) (c : List α) (hfit : c.length ≤ cap) :
    ∃ r, msetCtor lt cap c = .ok r ∧ r.Perm c ∧ r.Pairwise (fun a b => lt b a = false) := by
  obtain ⟨r, h1, h2, h3⟩ := ms_sort_whole hw c
  refine ⟨r, ?_, h2, h3⟩
  simp only [msetCtor, svCtor_eq cap c hfit, h1]

/-- when the equivalence of the comparator is equality, the sorted permutation is unique: it is the stable sort
    of the spec (`List.mergeSort`), which is what the correspondence run compares with -/
theorem msetCtor_eq_spec (hw : StrictWeak lt) (heq : EquivIsEq lt) (cap : Nat) (c : List α) (hfit : c.length ≤ cap) :
    msetCtor lt cap c = .ok (Spec.multiset lt c) := by
  classical
  obtain ⟨r, h1, h2, h3⟩ := msetCtor_spec hw cap c hfit
  rw [h1]
  congr 1
  have he : ∀ x y, Tetl.C06.Spec.equiv lt x y = decide (y = x) := by
    intro x y
    by_cases hxy : y = x
    · subst hxy; simp [Tetl.C06.Spec.equiv, hw.irrefl]
    · simp only [hxy, decide_false]
      cases h1 : lt x y with
      | true => simp [Tetl.C06.Spec.equiv, h1]
      | false =>
        cases h2 : lt y x with
        | true => simp [Tetl.C06.Spec.equiv, h2]
        | false => exact absurd (heq y x h2 h1) hxy
  have hf : ∀ x, r.filter (Tetl.C06.Spec.equiv lt x) = c.filter (Tetl.C06.Spec.equiv lt x) := by
    intro x
    have e : Tetl.C06.Spec.equiv lt x = (fun y => decide (y = x)) := funext (he x)
    rw [e]
    have hr : ∀ (l : List α), l.filter (fun y => decide (y = x)) = List.replicate (l.count x) x := by
      intro l
      induction l with
      | nil => rfl
      | cons a l ih =>
        by_cases ha : a = x
        · subst ha; simp [ih, List.replicate_succ]
        · simp [ha, ih]
    rw [hr, hr, h2.count_eq]
  exact Tetl.C06.stableSort_unique hw.toC06 r c h2 h3 hf

/-- `etl::sort` (gnome sort) over the whole vector IS the stable sort, for every strict weak order -/
theorem ms_sort_stable (hw : StrictWeak lt) (l : List α) :
    Tetl.C06.sort lt l 0 l.length = .ok (Spec.multiset lt l) := by
  have := gnomeSort_eq_stableSort lt hw.toC06 [] l []
  simpa [Tetl.C06.sort, Spec.multiset, Tetl.C06.Spec.stableSort] using this

/-- STABILITY, no hypothesis on `==`: for every strict weak order the constructor leaves exactly the stable sort of the
    container (equivalent elements keep their order) — the sequence `std::multiset` builds from the same range -/
theorem msetCtor_eq_stable (hw : StrictWeak lt) (cap : Nat) (c : List α) (hfit : c.length ≤ cap) :
    msetCtor lt cap c = .ok (Spec.multiset lt c) := by
  simp only [msetCtor, svCtor_eq cap c hfit, ms_sort_stable hw c]

end Tetl.C09
