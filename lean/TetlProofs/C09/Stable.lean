/- C09 — gnome sort (etl::sort) is STABLE: every swap exchanges two adjacent elements that are strictly out of order, hence
   not equivalent, so every class of equivalent elements keeps its order; with `stableSort_unique` the result IS the stable sort. -/
import TetlProofs.C06.Gnome
namespace Tetl.C09
open Tetl Tetl.C06
variable {α : Type}

/-- exchanging two adjacent non-equivalent elements changes no class of equivalent elements -/
theorem filter_equiv_swap {lt : α → α → Bool} (hlt : Tetl.C06.StrictWeak lt) (x y z : α) (hxy : lt x y = true) (X Y : List α) :
    (X ++ x :: y :: Y).filter (Tetl.C06.Spec.equiv lt z) = (X ++ y :: x :: Y).filter (Tetl.C06.Spec.equiv lt z) := by
  cases hx : Tetl.C06.Spec.equiv lt z x with
  | false => simp [List.filter_append, List.filter_cons, hx]
  | true =>
    cases hy : Tetl.C06.Spec.equiv lt z y with
    | false => simp [List.filter_append, List.filter_cons, hx, hy]
    | true =>
      exfalso
      have h := hlt.equiv_trans (hlt.equiv_symm hx) hy
      simp only [Tetl.C06.Spec.equiv, Bool.and_eq_true, Bool.not_eq_true'] at h
      rw [hxy] at h
      exact absurd h.1 (by simp)

theorem gnome_loop_stable (lt : α → α → Bool) (hlt : Tetl.C06.StrictWeak lt) (P S : List α) :
    ∀ (fuel : Nat) (A B : List α) (l i : Nat) (a : List α), l = P.length + A.length + B.length →
      i = P.length + A.length → a = P ++ (A ++ B) ++ S → Tetl.C06.Sorted lt A →
      2 * gnome_inv lt (A ++ B) + B.length < fuel →
      ∃ M', gnomeLoop lt P.length l fuel a i = .ok (P ++ M' ++ S) ∧ M'.Perm (A ++ B) ∧ Tetl.C06.Sorted lt M' ∧
        ∀ z, M'.filter (Tetl.C06.Spec.equiv lt z) = (A ++ B).filter (Tetl.C06.Spec.equiv lt z) := by
  intro fuel
  induction fuel with
  | zero => intro A B l i a _ _ _ _ h; omega
  | succ fuel ih =>
    intro A B l i a hl hi ha hs hμ
    rw [gnomeLoop]
    match B, hl, ha, hμ with
    | [], hl, ha, _ =>
      have : (i != l) = false := by simp at hl ⊢; omega
      rw [this]
      refine ⟨A, ?_, by simp, hs, by simp⟩
      simp [ha]
    | x :: B', hl, ha, hμ =>
      have hne : (i != l) = true := by simp at hl ⊢; omega
      rw [if_pos hne]
      rcases List.eq_nil_or_concat A with hA | ⟨A', y, hA⟩
      · subst hA
        have hif : (i == P.length) = true := by simp [hi]
        rw [if_pos hif]
        obtain ⟨M', h1, h2, h3, h4⟩ := ih [x] B' l (i + 1) a (by simp at hl ⊢; omega) (by simp at hi ⊢; omega)
          (by simp [ha]) (List.pairwise_singleton _ _) (by simp at hμ ⊢; omega)
        exact ⟨M', h1, by simpa using h2, h3, by intro z; simpa using h4 z⟩
      · rw [List.concat_eq_append] at hA
        subst hA
        have hif : (i == P.length) = false := by simp [hi]
        rw [hif]
        simp only [Bool.false_eq_true, if_false]
        simp only [List.length_append, List.length_cons, List.length_nil] at hl hi
        have ea : a = (P ++ A' ++ [y]) ++ x :: (B' ++ S) := by simp [ha]
        have ea2 : a = (P ++ A') ++ y :: (x :: B' ++ S) := by simp [ha]
        have r1 : rdR a P.length l i = .ok x := by
          rw [ea]
          have : i = (P ++ A' ++ [y]).length := by simp; omega
          rw [this]
          exact rdR_mid _ _ _ _ _ (by simp) (by simp; omega)
        have r2 : rdR a P.length l (i - 1) = .ok y := by
          rw [ea2]
          have : i - 1 = (P ++ A').length := by simp; omega
          rw [this]
          exact rdR_mid _ _ _ _ _ (by simp) (by simp; omega)
        rw [r1, ok_bind, r2, ok_bind]
        cases hxy : lt x y with
        | false =>
          simp only [Bool.not_false, if_true]
          obtain ⟨M', h1, h2, h3, h4⟩ := ih ((A' ++ [y]) ++ [x]) B' l (i + 1) a (by simp; omega) (by simp; omega)
            (by simp [ha]) (gnome_sorted_snoc hlt A' y x hs hxy) (by simp at hμ ⊢; omega)
          refine ⟨M', h1, by simpa using h2, h3, ?_⟩
          intro z
          have e : (A' ++ [y]) ++ x :: B' = ((A' ++ [y]) ++ [x]) ++ B' := by simp
          rw [e]
          exact h4 z
        | true =>
          simp only [Bool.not_true, Bool.false_eq_true, if_false]
          have hyx := hlt.asymm hxy
          have sw : swapR a P.length l i (i - 1) = .ok (P ++ (A' ++ x :: y :: B') ++ S) := by
            have h0 := gnome_swap_adj (P ++ A') (B' ++ S) x y P.length l (by simp) (by simp; omega)
            have e1 : i = (P ++ A').length + 1 := by simp; omega
            have e2 : i - 1 = (P ++ A').length := by simp; omega
            rw [e2, e1, ea2]
            simp only [List.append_assoc, List.cons_append] at h0 ⊢
            exact h0
          rw [sw, ok_bind]
          have hinv := gnome_inv_swap lt x y hxy hyx B' A'
          obtain ⟨M', h1, h2, h3, h4⟩ := ih A' (x :: y :: B') l (i - 1) _ (by simp; omega) (by omega) rfl
            (List.pairwise_append.mp hs).1
            (by
              have e : (A' ++ [y]) ++ x :: B' = A' ++ y :: x :: B' := by simp
              rw [e, hinv] at hμ
              simp only [List.length_cons] at hμ ⊢
              omega)
          have e : (A' ++ [y]) ++ x :: B' = A' ++ y :: x :: B' := by simp
          refine ⟨M', h1, h2.trans ?_, h3, ?_⟩
          · rw [e]
            exact List.Perm.append_left _ (List.Perm.swap _ _ _)
          · intro z
            rw [e, h4 z]
            exact filter_equiv_swap hlt x y z hxy A' B'

theorem gnomeSort_stable (lt : α → α → Bool) (hlt : Tetl.C06.StrictWeak lt) (P R S : List α) :
    ∃ R', gnomeSort lt (P ++ R ++ S) P.length (P.length + R.length) = .ok (P ++ R' ++ S)
        ∧ R'.Perm R ∧ Tetl.C06.Sorted lt R' ∧ ∀ z, R'.filter (Tetl.C06.Spec.equiv lt z) = R.filter (Tetl.C06.Spec.equiv lt z) := by
  unfold gnomeSort
  rw [Nat.add_sub_cancel_left]
  have hb := gnome_inv_bound lt R
  obtain ⟨M', h1, h2, h3, h4⟩ := gnome_loop_stable lt hlt P S (R.length * R.length + R.length + 1) [] R
    (P.length + R.length) P.length (P ++ R ++ S) (by simp) (by simp) (by simp) List.Pairwise.nil
    (by simp only [List.nil_append]; omega)
  exact ⟨M', h1, by simpa using h2, h3, by intro z; simpa using h4 z⟩

/-- gnome sort = the stable sort of the spec, for every strict weak order -/
theorem gnomeSort_eq_stableSort (lt : α → α → Bool) (hlt : Tetl.C06.StrictWeak lt) (P R S : List α) :
    gnomeSort lt (P ++ R ++ S) P.length (P.length + R.length) = .ok (P ++ Tetl.C06.Spec.stableSort lt R ++ S) := by
  obtain ⟨R', h1, hp, hs, hf⟩ := gnomeSort_stable lt hlt P R S
  have e : R' = Tetl.C06.Spec.stableSort lt R := Tetl.C06.stableSort_unique hlt R' R hp hs hf
  rw [← e]
  exact h1

end Tetl.C09
