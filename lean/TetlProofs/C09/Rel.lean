/-
C09 — `erase_if(set, pred)`, the relational operators and the size observers.  The algorithms underneath
(`remove_if`, `equal`, `lexicographical_compare`) are the C06 models; their loop theorems are the C06 ones
(TetlProofs/C06/Remove.lean, TwoRange.lean), instantiated for the whole vector (`P = S = []`).
-/
import TetlProofs.C09.Vector
import TetlProofs.C06.Remove
import TetlProofs.C06.TwoRange
namespace Tetl.C09
open Tetl

variable {α : Type}

theorem countP_add_filter_not (p : α → Bool) : ∀ l : List α, l.countP p + (l.filter (fun x => !p x)).length = l.length := by
  intro l
  induction l with
  | nil => rfl
  | cons x xs ih => cases h : p x <;> simp [h] <;> omega

/-- `erase_if` of every set kind: `remove_if` + erase of the tail = the spec's filter and count; no access outside the vector -/
theorem setEraseIf_eq' (kind : Kind) (p : α → Bool) (l : List α) :
    setEraseIf kind p l = .ok (Spec.eraseIf p l) := by
  obtain ⟨Z, h1, h2⟩ := Tetl.C06.removeIf_spec p [] l []
  simp only [List.nil_append, List.append_nil, List.length_nil, Nat.zero_add] at h1 h2
  unfold setEraseIf Spec.eraseIf
  rw [h1]
  simp only [ok_bind, Tetl.C06.Spec.remove] at h2 ⊢
  have hlen : (l.filter (fun x => !p x)).length ≤ (l.filter (fun x => !p x) ++ Z).length := by simp
  have hcnt : (l.filter (fun x => !p x) ++ Z).length - (l.filter (fun x => !p x)).length = l.countP p := by
    have := countP_add_filter_not p l
    omega
  have htake : (l.filter (fun x => !p x) ++ Z).take (l.filter (fun x => !p x)).length = l.filter (fun x => !p x) := by simp
  have hdrop : (l.filter (fun x => !p x) ++ Z).drop (l.filter (fun x => !p x) ++ Z).length = [] := by simp
  cases kind
  · simp only [svErase_eq _ _ _ hlen (Nat.le_refl _), ok_bind, htake, hdrop, hcnt, List.append_nil]
  · simp only [svErase_eq _ _ _ hlen (Nat.le_refl _), ok_bind, htake, hdrop, hcnt, List.append_nil]
  · have hc : (decide ((l.filter (fun x => !p x)).length > (l.filter (fun x => !p x) ++ Z).length) ||
        decide ((l.filter (fun x => !p x) ++ Z).length > (l.filter (fun x => !p x) ++ Z).length)) = false := by
      simp
    simp only [miniErase, hc, Bool.false_eq_true, if_false, ok_bind, htake, hdrop, hcnt, List.append_nil]

/-- `operator==` of every set kind = the spec's sequence equality -/
theorem setEq_eq' (kind : Kind) (e : Elem α) (a b : List α) :
    setEq kind e a b = .ok (Tetl.C06.Spec.equal e.eq a b) := by
  have h4 : Tetl.C06.equal4RA e.eq a 0 a.length b 0 b.length = .ok (Tetl.C06.Spec.equal e.eq a b) := by
    unfold Tetl.C06.equal4RA Tetl.C06.Spec.equal
    by_cases h : a.length = b.length
    · have := Tetl.C06.equalLoop_spec e.eq [] a [] [] b [] a.length 0 (by simp; omega) (Nat.zero_le _) (Nat.zero_le _)
      simp only [List.nil_append, List.append_nil, List.length_nil, Nat.zero_add, Nat.add_zero, List.drop_zero] at this
      rw [if_neg (by simp [h])]
      unfold Tetl.C06.equal3
      simp only [Nat.sub_zero]
      rw [this]
      simp [h]
    · rw [if_pos (by simpa using h)]
      simp [h]
  cases kind
  · unfold setEq
    simp only
    by_cases h : a.length = b.length
    · have h3 : Tetl.C06.equal3 e.eq a 0 a.length b 0 b.length = .ok (Tetl.C06.Spec.equal e.eq a b) := by
        have := h4
        unfold Tetl.C06.equal4RA at this
        rwa [if_neg (by simp [h])] at this
      rw [if_pos (by simpa using h), h3]
    · rw [if_neg (by simpa using h)]
      simp [Tetl.C06.Spec.equal, h]
  · exact h4
  · exact h4

/-- `operator<` = lexicographical comparison of the two element sequences -/
theorem setLt_eq' (e : Elem α) (a b : List α) : setLt e a b = .ok (Tetl.C06.Spec.lexLt e.lt a b) := by
  have := Tetl.C06.lexLoop_spec e.lt [] a [] [] b [] (min a.length b.length) 0 (by simp) (Nat.zero_le _) (Nat.zero_le _)
  unfold setLt Tetl.C06.lexicographicalCompare
  simpa using this

theorem relOps_eq' (kind : Kind) (e : Elem α) (a b : List α) : relOps kind e a b = .ok (Spec.relOps e a b) := by
  simp only [relOps, setEq_eq', setLt_eq', ok_bind, Spec.relOps]

theorem setSizes_eq' (kind : Kind) (cap : Nat) (l : List α) : setSizes kind cap l = Spec.sizes (kind == .ss) cap l := by
  cases kind <;> cases l <;> simp [setSizes, Spec.sizes]

end Tetl.C09
