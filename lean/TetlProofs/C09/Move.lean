/-
C09 — the static_vector members underneath clear / swap / extract / replace / the constructors:
range insert (append loop + rotate), move construction, move assignment, the three-move swap;
the set members that forward to them; reverse iteration.
-/
import TetlProofs.C09.Vector
namespace Tetl.C09
open Tetl
variable {α : Type}

/-- the append loop never meets a full vector when everything fits -/
theorem svAppendLoop_eq (cap : Nat) : ∀ (src l : List α), l.length + src.length ≤ cap →
    svAppendLoop cap l src = .ok (l ++ src) := by
  intro src
  induction src with
  | nil => intro l _; simp [svAppendLoop]
  | cons x xs ih =>
    intro l h
    have hlt : ¬ l.length ≥ cap := by simp only [List.length_cons] at h; omega
    have h' : (l ++ [x]).length + xs.length ≤ cap := by
      simp only [List.length_cons, List.length_append, List.length_nil] at h ⊢; omega
    simp only [svAppendLoop, if_neg hlt]
    rw [ih (l ++ [x]) h']
    simp

/-- the rotate call of `insert(pos, first, last)` after the append loop -/
theorem mv_rotate (l : List α) (pos : Nat) (src : List α) (hp : pos ≤ l.length) :
    rotate ((l ++ src).length + 1) (l ++ src) pos l.length (l ++ src).length
      = .ok (l.take pos ++ src ++ l.drop pos, pos + src.length) := by
  have hP : (l.take pos).length = pos := by rw [List.length_take]; exact Nat.min_eq_left hp
  have hD : (l.drop pos).length = l.length - pos := List.length_drop
  have hfuel : (l.drop pos).length + src.length < (l ++ src).length + 1 := by
    rw [hD, List.length_append]; omega
  have h := rotate_spec ((l ++ src).length + 1) (l.take pos) (l.drop pos) src [] hfuel
  rw [List.take_append_drop, List.append_nil, List.append_nil, hP, hD] at h
  have e1 : pos + (l.length - pos) = l.length := by omega
  have e2 : (l ++ src).length = l.length + src.length := List.length_append
  rw [e1] at h
  conv => lhs; arg 5; rw [e2]
  exact h

/-- `insert(pos, first, last)` / `move_insert`: no violated precondition, no out-of-range swap, no exhausted
    fuel; the new elements stand at `pos` in their order -/
theorem svInsertRange_eq (cap : Nat) (l : List α) (pos : Nat) (src : List α) (hp : pos ≤ l.length)
    (hfit : l.length + src.length ≤ cap) :
    svInsertRange cap l pos src = .ok (l.take pos ++ src ++ l.drop pos, pos) := by
  unfold svInsertRange
  rw [if_neg (by omega), if_neg (by omega), svAppendLoop_eq cap src l hfit]
  simp only
  rw [mv_rotate l pos src hp]

theorem svCtor_eq (cap : Nat) (src : List α) (h : src.length ≤ cap) : svCtor cap src = .ok src := by
  unfold svCtor
  rw [svInsertRange_eq cap [] 0 src (Nat.le_refl _) (by simpa using h)]
  simp

theorem svMoveAssign_eq (cap : Nat) (dst src : List α) (h : src.length ≤ cap) : svMoveAssign cap dst src = .ok src := by
  unfold svMoveAssign
  have e : svClear dst = ([] : List α) := rfl
  rw [e, svInsertRange_eq cap [] 0 src (Nat.le_refl _) (by simpa using h)]
  simp

/-- `static_vector::swap`: the three moves exchange the contents -/
theorem svSwap_eq (cap : Nat) (a b : List α) (ha : a.length ≤ cap) (hb : b.length ≤ cap) :
    svSwap cap a b = .ok (b, a) := by
  unfold svSwap
  rw [svCtor_eq cap b hb]
  simp only
  rw [svMoveAssign_eq cap b a ha]
  simp only
  rw [svMoveAssign_eq cap a b hb]

theorem miniCtor_eq (cap : Nat) (src : List α) (h : src.length ≤ cap) : miniCtor cap src = .ok src := by
  unfold miniCtor
  rw [if_neg (by omega)]

/-- swap of any set kind exchanges the two element sequences -/
theorem setSwap_eq (kind : Kind) (cap : Nat) (a b : List α) (ha : a.length ≤ cap) (hb : b.length ≤ cap) :
    setSwap kind cap a b = .ok (b, a) := by
  cases kind
  · simp only [setSwap]; exact svSwap_eq cap a b ha hb
  · simp only [setSwap]; exact svSwap_eq cap a b ha hb
  · simp only [setSwap, miniCtor_eq cap b hb, miniCtor_eq cap a ha]

theorem setClear_eq (kind : Kind) (l : List α) : setClear kind l = [] := by
  cases kind <;> rfl

/-- `extract`: the returned container holds the elements, the set is left empty -/
theorem fsExtract_eq (kind : Kind) (cap : Nat) (l : List α) (h : l.length ≤ cap) :
    fsExtract kind cap l = .ok ([], l) := by
  cases kind
  · simp only [fsExtract, svCtor_eq cap l h, setClear_eq]
  · simp only [fsExtract, svCtor_eq cap l h, setClear_eq]
  · simp only [fsExtract, miniCtor_eq cap l h, setClear_eq]

/-- `replace`: the set holds exactly the elements of the container handed in -/
theorem fsReplace_eq (kind : Kind) (cap : Nat) (l c : List α) (h : c.length ≤ cap) :
    fsReplace kind cap l c = .ok c := by
  cases kind
  · simp only [fsReplace]; exact svMoveAssign_eq cap l c h
  · simp only [fsReplace]; exact svMoveAssign_eq cap l c h
  · simp only [fsReplace]; exact miniCtor_eq cap c h

/-- the reverse loop from base `|P|` on `P ++ S` reads `P` back to front -/
theorem mv_riterLoop : ∀ (P S acc : List α), riterLoop (P ++ S) P.length acc = .ok (acc ++ P.reverse) := by
  intro P
  induction P using List.reverseRecOn with
  | nil => intro S acc; simp [riterLoop]
  | append_singleton Q x ih =>
    intro S acc
    have e : Q ++ [x] ++ S = Q ++ x :: S := by simp
    have e2 : (Q ++ [x]).length = Q.length + 1 := by simp
    rw [e, e2]
    simp only [riterLoop, rd_append_mid]
    have := ih (x :: S) (acc ++ [x])
    rw [this]
    simp

/-- reverse iteration reads inside the vector and yields the elements back to front -/
theorem riter_eq (l : List α) : riter l = .ok l.reverse := by
  unfold riter
  have := mv_riterLoop l [] []
  simpa using this

end Tetl.C09
