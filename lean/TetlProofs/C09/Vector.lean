/-
C09 — the `static_vector` / algorithm loops the sets call: move-down erase, linear find_if,
remove_if compaction.  Each is shown to stay inside the vector and to equal the list function
it implements.
-/
import TetlProofs.C09.Rotate
namespace Tetl.C09
open Tetl

variable {α : Type}

theorem wr_mid (P : List α) (g x : α) (S : List α) : wr (P ++ g :: S) P.length x = .ok (P ++ x :: S) := by
  simp [wr]

/-- `etl::move(first,last,dest)` downwards over a gap `G`: `P ++ G ++ T` becomes `P ++ T ++ G'` -/
theorem moveLoop_spec : ∀ (T P G : List α), G ≠ [] →
    ∃ G', moveLoop T.length (P ++ G ++ T) (P.length + G.length) P.length = .ok (P ++ T ++ G')
      ∧ G'.length = G.length := by
  intro T
  induction T with
  | nil => intro P G _; exact ⟨G, by simp [moveLoop], rfl⟩
  | cons t T ih =>
    intro P G hG
    obtain ⟨g, G', rfl⟩ := List.exists_cons_of_ne_nil hG
    have hrd : rd (P ++ (g :: G') ++ t :: T) (P.length + (g :: G').length) = .ok t := by
      have e : P ++ (g :: G') ++ t :: T = (P ++ g :: G') ++ t :: T := by simp
      rw [e]; exact rd_mid' _ _ _ _ (by simp)
    have hwr : wr (P ++ (g :: G') ++ t :: T) P.length t = .ok (P ++ t :: (G' ++ t :: T)) := by
      have e : P ++ (g :: G') ++ t :: T = P ++ g :: (G' ++ t :: T) := by simp
      rw [e]; exact wr_mid _ _ _ _
    obtain ⟨G2, h2, hl2⟩ := ih (P ++ [t]) (G' ++ [t]) (by simp)
    refine ⟨G2, ?_, by simp at hl2 ⊢; omega⟩
    simp only [List.length_cons] at hrd
    simp only [List.length_cons, moveLoop, hrd, hwr]
    have e1 : P ++ t :: (G' ++ t :: T) = (P ++ [t]) ++ (G' ++ [t]) ++ T := by simp
    have e2 : P.length + (G'.length + 1) + 1 = (P ++ [t]).length + (G' ++ [t]).length := by simp; omega
    have e3 : P.length + 1 = (P ++ [t]).length := by simp
    rw [e1, e2, e3, h2]; simp

/-- `static_vector::erase(first,last)` on a valid range: stays inside the vector and removes
    exactly the range -/
theorem svErase_eq (l : List α) (f la : Nat) (h1 : f ≤ la) (h2 : la ≤ l.length) :
    svErase l f la = .ok (l.take f ++ l.drop la, f) := by
  unfold svErase
  have hc : (decide (f > l.length) || decide (la > l.length) || decide (f > la)) = false := by
    simp; omega
  rw [hc]
  simp only [Bool.false_eq_true, if_false]
  by_cases hfl : f = la
  · subst hfl; simp
  · rw [if_neg hfl]
    have hl : l = l.take f ++ (l.drop f).take (la - f) ++ l.drop la := by
      have : l.drop la = (l.drop f).drop (la - f) := by rw [List.drop_drop]; congr 1; omega
      rw [this, List.append_assoc, List.take_append_drop, List.take_append_drop]
    have hG : (l.drop f).take (la - f) ≠ [] := by
      intro h
      have := congrArg List.length h
      simp at this; omega
    obtain ⟨G', hm, hlen⟩ := moveLoop_spec (l.drop la) (l.take f) ((l.drop f).take (la - f)) hG
    have e1 : l.length - la = (l.drop la).length := by simp
    have e2 : la = (l.take f).length + ((l.drop f).take (la - f)).length := by simp; omega
    have e3 : f = (l.take f).length := by simp; omega
    have hm' : moveLoop (l.length - la) l la f = .ok (l.take f ++ l.drop la ++ G') := by
      rw [e1]
      conv => lhs; arg 2; rw [hl]
      conv => lhs; arg 3; rw [e2]
      conv => lhs; arg 4; rw [e3]
      exact hm
    rw [hm']
    simp only
    have : l.length - (la - f) = (l.take f ++ l.drop la).length := by simp; omega
    rw [this, List.take_left']
    rfl

/-- `find_if`: stops at the first element satisfying `p` (offset `|W|`), or at `end()` -/
theorem findIfLoop_split (p : α → Bool) : ∀ (R P : List α),
    ∃ W D, R = W ++ D ∧ (∀ x ∈ W, p x = false) ∧ (∀ d D', D = d :: D' → p d = true) ∧
      findIfLoop (P ++ R) p R.length P.length = .ok (P.length + W.length) := by
  intro R
  induction R with
  | nil => intro P; exact ⟨[], [], rfl, by simp, by simp, by simp [findIfLoop]⟩
  | cons r R ih =>
    intro P
    cases hp : p r with
    | true =>
      refine ⟨[], r :: R, rfl, by simp, ?_, ?_⟩
      · intro d D' h; cases h; exact hp
      · simp [findIfLoop, rd_append_mid, hp]
    | false =>
      obtain ⟨W, D, hR, hW, hD, hres⟩ := ih (P ++ [r])
      refine ⟨r :: W, D, by rw [hR]; simp, ?_, hD, ?_⟩
      · intro x hx
        rcases List.mem_cons.mp hx with h | h
        · rw [h]; exact hp
        · exact hW x h
      · simp only [List.length_cons, findIfLoop, rd_append_mid, hp, Bool.false_eq_true, if_false]
        have e : P ++ r :: R = (P ++ [r]) ++ R := by simp
        have e2 : P.length + 1 = (P ++ [r]).length := by simp
        rw [e, e2, hres]
        simp; omega

/-- compaction loop of `remove_if`: kept prefix `W`, garbage `G` (non-empty), unread `R` -/
theorem removeLoop_spec (p : α → Bool) : ∀ (R W G : List α), G ≠ [] →
    ∃ G2, removeLoop p R.length (W ++ G ++ R) W.length (W.length + G.length)
        = .ok (W ++ R.filter (fun x => !p x) ++ G2, W.length + (R.filter (fun x => !p x)).length)
      ∧ (W ++ R.filter (fun x => !p x) ++ G2).length = (W ++ G ++ R).length := by
  intro R
  induction R with
  | nil => intro W G _; exact ⟨G, by simp [removeLoop], by simp⟩
  | cons r R ih =>
    intro W G hG
    obtain ⟨g, G', rfl⟩ := List.exists_cons_of_ne_nil hG
    have hrd : rd (W ++ (g :: G') ++ r :: R) (W.length + (g :: G').length) = .ok r := by
      have e : W ++ (g :: G') ++ r :: R = (W ++ g :: G') ++ r :: R := by simp
      rw [e]; exact rd_mid' _ _ _ _ (by simp)
    simp only [List.length_cons] at hrd
    cases hp : p r with
    | false =>
      have hwr : wr (W ++ (g :: G') ++ r :: R) W.length r = .ok (W ++ r :: (G' ++ r :: R)) := by
        have e : W ++ (g :: G') ++ r :: R = W ++ g :: (G' ++ r :: R) := by simp
        rw [e]; exact wr_mid _ _ _ _
      obtain ⟨G2, h2, hl2⟩ := ih (W ++ [r]) (G' ++ [r]) (by simp)
      refine ⟨G2, ?_, ?_⟩
      · simp only [List.length_cons, removeLoop, hrd, hp, Bool.not_false, if_true, hwr]
        have e1 : W ++ r :: (G' ++ r :: R) = (W ++ [r]) ++ (G' ++ [r]) ++ R := by simp
        have e2 : W.length + (G'.length + 1) + 1 = (W ++ [r]).length + (G' ++ [r]).length := by simp; omega
        have e3 : W.length + 1 = (W ++ [r]).length := by simp
        rw [e1, e2, e3, h2]
        simp [List.filter, hp]; omega
      · simp [List.filter, hp] at hl2 ⊢; omega
    | true =>
      obtain ⟨G2, h2, hl2⟩ := ih W (g :: G' ++ [r]) (by simp)
      refine ⟨G2, ?_, ?_⟩
      · simp only [List.length_cons, removeLoop, hrd, hp, Bool.not_true, Bool.false_eq_true, if_false]
        have e1 : W ++ (g :: G') ++ r :: R = W ++ (g :: G' ++ [r]) ++ R := by simp
        have e2 : W.length + (G'.length + 1) + 1 = W.length + (g :: G' ++ [r]).length := by simp; omega
        rw [e1, e2, h2]
        simp [List.filter, hp]
      · simp [List.filter, hp] at hl2 ⊢; omega

/-- `remove_if(begin,end,pred)`: the first `n` elements of the result are the kept elements in
    order, `n` their number, and the vector keeps its length -/
theorem removeIf_spec (p : α → Bool) (l : List α) :
    ∃ l' , removeIf l p = .ok (l', (l.filter (fun x => !p x)).length)
      ∧ l'.take (l.filter (fun x => !p x)).length = l.filter (fun x => !p x) ∧ l'.length = l.length := by
  unfold removeIf
  obtain ⟨W, D, hl, hW, hD, hf⟩ := findIfLoop_split p l []
  simp only [List.nil_append, List.length_nil, Nat.zero_add] at hf
  rw [hf]
  simp only
  have hWf : W.filter (fun x => !p x) = W := by
    rw [List.filter_eq_self]; intro x hx; simp [hW x hx]
  cases D with
  | nil =>
    simp only [List.append_nil] at hl
    subst hl
    rw [if_neg (by simp)]
    exact ⟨l, by rw [hWf], by rw [hWf]; simp, rfl⟩
  | cons d D =>
    have hpd : p d = true := hD d D rfl
    have hne : W.length ≠ l.length := by rw [hl]; simp
    rw [if_pos hne]
    have hl' : l = W ++ [d] ++ D := by rw [hl]; simp
    obtain ⟨G2, h2, hl2⟩ := removeLoop_spec p D W [d] (by simp)
    have hfil : l.filter (fun x => !p x) = W ++ D.filter (fun x => !p x) := by
      rw [hl']; simp [List.filter_append, hWf, List.filter, hpd]
    have e1 : l.length - W.length - 1 = D.length := by rw [hl']; simp
    have hcall : removeLoop p (l.length - W.length - 1) l W.length (W.length + 1)
        = .ok (W ++ D.filter (fun x => !p x) ++ G2, W.length + (D.filter (fun x => !p x)).length) := by
      rw [e1]
      conv => lhs; arg 3; rw [hl']
      simpa using h2
    refine ⟨W ++ D.filter (fun x => !p x) ++ G2, ?_, ?_, ?_⟩
    · rw [hcall, hfil]; simp
    · rw [hfil, List.take_left']
      rfl
    · rw [hl2, hl']

end Tetl.C09
