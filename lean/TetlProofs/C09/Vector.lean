/-
C09 — the `static_vector` loop the sets call for erase: the move-down of the tail.  It is shown to
stay inside the vector and to equal the list function it implements.
-/
import TetlProofs.C09.Rotate
namespace Tetl.C09
open Tetl

variable {α : Type}

theorem wr_mid (P : List α) (g x : α) (S : List α) : wr (P ++ g :: S) P.length x = .ok (P ++ x :: S) := by
  simp [wr]

/-- `etl::move(first,last,dest)` downwards over a gap `G`: `P ++ G ++ T` becomes `P ++ T ++ G'` -/
theorem moveLoop_spec : ∀ (T P G : List α), G ≠ [] →
    ∃ G', moveLoop T.length (P ++ G ++ T) (P.length + G.length) P.length = .ok (P ++ T ++ G')
      ∧ G'.length = G.length := by
  intro T
  induction T with
  | nil => intro P G _; exact ⟨G, by simp [moveLoop], rfl⟩
  | cons t T ih =>
    intro P G hG
    obtain ⟨g, G', rfl⟩ := List.exists_cons_of_ne_nil hG
    have hrd : rd (P ++ (g :: G') ++ t :: T) (P.length + (g :: G').length) = .ok t := by
      have e : P ++ (g :: G') ++ t :: T = (P ++ g :: G') ++ t :: T := by simp
      rw [e]; exact rd_mid' _ _ _ _ (by simp)
    have hwr : wr (P ++ (g :: G') ++ t :: T) P.length t = .ok (P ++ t :: (G' ++ t :: T)) := by
      have e : P ++ (g :: G') ++ t :: T = P ++ g :: (G' ++ t :: T) := by simp
      rw [e]; exact wr_mid _ _ _ _
    obtain ⟨G2, h2, hl2⟩ := ih (P ++ [t]) (G' ++ [t]) (by simp)
    refine ⟨G2, ?_, by simp at hl2 ⊢; omega⟩
    simp only [List.length_cons] at hrd
    simp only [List.length_cons, moveLoop, hrd, hwr]
    have e1 : P ++ t :: (G' ++ t :: T) = (P ++ [t]) ++ (G' ++ [t]) ++ T := by simp
    have e2 : P.length + (G'.length + 1) + 1 = (P ++ [t]).length + (G' ++ [t]).length := by simp; omega
    have e3 : P.length + 1 = (P ++ [t]).length := by simp
    rw [e1, e2, e3, h2]; simp

/-- `static_vector::erase(first,last)` on a valid range: stays inside the vector and removes
    exactly the range -/
theorem svErase_eq (l : List α) (f la : Nat) (h1 : f ≤ la) (h2 : la ≤ l.length) :
    svErase l f la = .ok (l.take f ++ l.drop la, f) := by
  unfold svErase
  have hc : (decide (f > l.length) || decide (la > l.length) || decide (f > la)) = false := by
    simp; omega
  rw [hc]
  simp only [Bool.false_eq_true, if_false]
  by_cases hfl : f = la
  · subst hfl; simp
  · rw [if_neg hfl]
    have hl : l = l.take f ++ (l.drop f).take (la - f) ++ l.drop la := by
      have : l.drop la = (l.drop f).drop (la - f) := by rw [List.drop_drop]; congr 1; omega
      rw [this, List.append_assoc, List.take_append_drop, List.take_append_drop]
    have hG : (l.drop f).take (la - f) ≠ [] := by
      intro h
      have := congrArg List.length h
      simp at this; omega
    obtain ⟨G', hm, hlen⟩ := moveLoop_spec (l.drop la) (l.take f) ((l.drop f).take (la - f)) hG
    have e1 : l.length - la = (l.drop la).length := by simp
    have e2 : la = (l.take f).length + ((l.drop f).take (la - f)).length := by simp; omega
    have e3 : f = (l.take f).length := by simp; omega
    have hm' : moveLoop (l.length - la) l la f = .ok (l.take f ++ l.drop la ++ G') := by
      rw [e1]
      conv => lhs; arg 2; rw [hl]
      conv => lhs; arg 3; rw [e2]
      conv => lhs; arg 4; rw [e3]
      exact hm
    rw [hm']
    simp only
    have : l.length - (la - f) = (l.take f ++ l.drop la).length := by simp; omega
    rw [this, List.take_left']
    rfl

end Tetl.C09
