/-
C09 — helper lemmas for `insert(hint, x)` (the iterator returned is where the spec finds the key afterwards),
for the preservation of the invariant by the spec's insert, and for the constructors.
-/
import TetlProofs.C09.Order
import TetlProofs.C09.Move
namespace Tetl.C09
open Tetl

variable {α : Type} {lt : α → α → Bool}

/-- the three outcomes of the spec's insert on a set satisfying the invariant -/
theorem hi_insert_cases (hw : StrictWeak lt) {cap : Nat} {l : List α} (h : Inv1 lt cap l) (k : α) :
    (Spec.insert lt cap l k = (l, .exists_ (Spec.lowerBound lt l k)) ∧ Spec.contains lt l k = true) ∨
    (Spec.insert lt cap l k = (l, .full) ∧ Spec.contains lt l k = false ∧ l.length = cap) ∨
    (∃ A B, l = A ++ B ∧ Spec.insert lt cap l k = (A ++ k :: B, .inserted A.length) ∧
      (∀ x ∈ A, lt x k = true) ∧ (∀ x ∈ B, lt x k = false) ∧ (∀ x ∈ B, lt k x = true) ∧ l.length < cap) := by
  obtain ⟨hs, hc⟩ := h
  obtain ⟨A, B, hl, _, hsl, hA, hA', hB, hcase⟩ := probeW hw hs k
  unfold Spec.insert
  rcases hcase with ⟨b, B', _, _, _, _, _, hct⟩ | ⟨hB', _, hct⟩
  · left; simp [hct]
  · right
    rw [hct]; simp only [Bool.false_eq_true, if_false]
    by_cases hfull : l.length ≥ cap
    · left; simp [hfull]; omega
    · right
      simp only [hfull, if_false]
      refine ⟨A, B, hl, ?_, hA, hB, hB', by omega⟩
      subst hl
      obtain ⟨_, f1, f2, _, _⟩ := spec_absent hA hA' hB hB'
      rw [f1, f2, hsl]

theorem spec_insert_inv' (hw : StrictWeak lt) {cap : Nat} {l : List α} (h : Inv1 lt cap l) (k : α) :
    Inv1 lt cap (Spec.insert lt cap l k).1 := by
  rcases hi_insert_cases hw h k with ⟨e, _⟩ | ⟨e, _⟩ | ⟨A, B, hl, e, hA, _, hB', hlen⟩
  · rw [e]; exact h
  · rw [e]; exact h
  · rw [e]
    subst hl
    exact ⟨sorted_insert h.1 hA hB', by simp at hlen ⊢; omega⟩

/-- the iterator `emplace(x).first` is where the spec finds `x` in the resulting set (`end()` after `full`) -/
theorem hi_first_eq_find (hw : StrictWeak lt) {cap : Nat} {l : List α} (h : Inv1 lt cap l) (k : α) :
    (Spec.insert lt cap l k).2.first (Spec.insert lt cap l k).1.length
      = Spec.find lt (Spec.insert lt cap l k).1 k := by
  rcases hi_insert_cases hw h k with ⟨e, hc⟩ | ⟨e, hc, _⟩ | ⟨A, B, hl, e, hA, hB, hB', _⟩
  · rw [e]; simp [InsRes.first, Spec.find, hc]
  · rw [e]; simp [InsRes.first, Spec.find, hc]
  · rw [e]
    have hc : Spec.contains lt (A ++ k :: B) k = true := by
      simp [Spec.contains, Spec.equiv, hw.irrefl]
    have hkB : ∀ x ∈ k :: B, lt x k = false := by
      intro x hx
      rcases List.mem_cons.mp hx with h | h
      · rw [h]; exact hw.irrefl k
      · exact hB x h
    simp only [InsRes.first, Spec.find, hc, if_true]
    exact (spec_lowerBound hA hkB).symm

theorem spec_insertRange_inv' (hw : StrictWeak lt) {cap : Nat} (ks : List α) : ∀ {l : List α}, Inv1 lt cap l →
    Inv1 lt cap (Spec.insertRange lt cap l ks) := by
  induction ks with
  | nil => intro l h; exact h
  | cons k ks ih => intro l h; exact ih (spec_insert_inv' hw h k)

theorem inv1_nil (cap : Nat) : Inv1 lt cap ([] : List α) := ⟨List.Pairwise.nil, Nat.zero_le _⟩

theorem sortedUnique_iff (c : List α) : Spec.sortedUnique lt c = true ↔ Sorted lt c := by
  simp [Spec.sortedUnique, Sorted]

end Tetl.C09
