/-
C09 — what the declarative spec evaluates to on a sorted list split at the lower bound of a key, for a
comparator that is a strict weak order (no totality: equivalent keys need not be equal).
-/
import TetlProofs.C09.Part
namespace Tetl.C09
open Tetl

variable {α κ : Type} {lt : α → α → Bool}

/-- negative transitivity: `x < z → x < y ∨ y < z` -/
theorem StrictWeak.neg_trans (h : StrictWeak lt) {x z : α} (y : α) (hxz : lt x z = true) :
    lt x y = true ∨ lt y z = true := by
  cases hxy : lt x y with
  | true => exact Or.inl rfl
  | false =>
    cases hyz : lt y z with
    | true => exact Or.inr rfl
    | false =>
      exfalso
      cases hyx : lt y x with
      | true => have := h.trans y x z hyx hxz; rw [hyz] at this; cases this
      | false =>
        cases hzy : lt z y with
        | true => have := h.trans x z y hxz hzy; rw [hxy] at this; cases this
        | false => have := (h.incomp_trans x y z hxy hyx hyz hzy).1; rw [hxz] at this; cases this

/-- `k ≤ b < x → k < x` -/
theorem StrictWeak.lt_of_le_of_lt (h : StrictWeak lt) {k b x : α} (hkb : lt b k = false) (hbx : lt b x = true) :
    lt k x = true := by
  rcases h.neg_trans k hbx with h1 | h1
  · rw [hkb] at h1; cases h1
  · exact h1

/-- What `lower_bound(k)` followed by the test `it != end() && !comp(k, *it)` sees on a sorted list, in terms
    of the spec: the list splits at the lower bound into `A` (all before `k`) and `B`; either `B` starts with
    THE element equivalent to `k` (everything behind it is after `k`) and the key is contained, or all of `B`
    is after `k` and it is not. -/
theorem probeW (hw : StrictWeak lt) {l : List α} (hs : Sorted lt l) (k : α) :
    ∃ A B, l = A ++ B ∧ lowerBound lt l k = .ok A.length ∧ Spec.lowerBound lt l k = A.length ∧
      (∀ x ∈ A, lt x k = true) ∧ (∀ x ∈ A, lt k x = false) ∧ (∀ x ∈ B, lt x k = false) ∧
      ((∃ b B', B = b :: B' ∧ lt b k = false ∧ lt k b = false ∧ (∀ x ∈ B', lt k x = true) ∧
          equivAt (fun x => lt k x) l A.length = .ok true ∧ Spec.contains lt l k = true) ∨
       ((∀ x ∈ B, lt k x = true) ∧
          equivAt (fun x => lt k x) l A.length = .ok false ∧ Spec.contains lt l k = false)) := by
  obtain ⟨A, B, hl, hr, hsl, hA, hA', hB, hcase⟩ := probeP (parted_hom hw hs k)
  refine ⟨A, B, hl, hr, hsl, hA, hA', hB, ?_⟩
  rcases hcase with ⟨b, B', hB2, hb, he, hc⟩ | ⟨hB', he, hc⟩
  · left
    refine ⟨b, B', hB2, hB b (by rw [hB2]; simp), hb, ?_, he, hc⟩
    intro x hx
    have hsB : Sorted lt (b :: B') := by
      rw [hl, hB2] at hs; exact (List.pairwise_append.mp hs).2.1
    exact hw.lt_of_le_of_lt (hB b (by rw [hB2]; simp)) ((List.pairwise_cons.mp hsB).1 x hx)
  · right; exact ⟨hB', he, hc⟩

section eval
variable {A B : List α} {k : α}

theorem equiv_false_of_lt {x : α} (h : lt x k = true) : Spec.equiv lt k x = false := by
  simp [Spec.equiv, h]
theorem equiv_false_of_gt {x : α} (h : lt k x = true) : Spec.equiv lt k x = false := by
  simp [Spec.equiv, h]

theorem filter_all {q : α → Bool} {l : List α} (h : ∀ x ∈ l, q x = true) : l.filter q = l :=
  List.filter_eq_self.mpr h
theorem filter_none {q : α → Bool} {l : List α} (h : ∀ x ∈ l, q x = false) : l.filter q = [] :=
  List.filter_eq_nil_iff.mpr (fun x hx => by simp [h x hx])
theorem countP_all {q : α → Bool} {l : List α} (h : ∀ x ∈ l, q x = true) : l.countP q = l.length :=
  List.countP_eq_length.mpr h
theorem countP_none {q : α → Bool} {l : List α} (h : ∀ x ∈ l, q x = false) : l.countP q = 0 :=
  List.countP_eq_zero.mpr (fun x hx => by simp [h x hx])
theorem any_none {q : α → Bool} {l : List α} (h : ∀ x ∈ l, q x = false) : l.any q = false :=
  List.any_eq_false.mpr (fun x hx => by simp [h x hx])

theorem spec_lowerBound (hA : ∀ x ∈ A, lt x k = true) (hB : ∀ x ∈ B, lt x k = false) :
    Spec.lowerBound lt (A ++ B) k = A.length := by
  simp [Spec.lowerBound, List.countP_append, countP_all hA, countP_none hB]

theorem spec_upperBound (hA : ∀ x ∈ A, lt k x = false) (hB : ∀ x ∈ B, lt k x = true) :
    Spec.upperBound lt (A ++ B) k = A.length := by
  have h1 : ∀ x ∈ A, (fun x => !lt k x) x = true := fun x hx => by simp [hA x hx]
  have h2 : ∀ x ∈ B, (fun x => !lt k x) x = false := fun x hx => by simp [hB x hx]
  simp [Spec.upperBound, List.countP_append, countP_all h1, countP_none h2]

/-- key absent -/
theorem spec_absent (hA : ∀ x ∈ A, lt x k = true) (hA' : ∀ x ∈ A, lt k x = false)
    (hB : ∀ x ∈ B, lt x k = false) (hB' : ∀ x ∈ B, lt k x = true) :
    Spec.contains lt (A ++ B) k = false ∧
    (A ++ B).filter (fun x => lt x k) = A ∧ (A ++ B).filter (fun x => lt k x) = B ∧
    (A ++ B).filter (fun x => !Spec.equiv lt k x) = A ++ B ∧ (A ++ B).countP (Spec.equiv lt k) = 0 := by
  have e1 : ∀ x ∈ A ++ B, Spec.equiv lt k x = false := by
    intro x hx
    rcases List.mem_append.mp hx with h | h
    · exact equiv_false_of_lt (hA x h)
    · exact equiv_false_of_gt (hB' x h)
  refine ⟨any_none e1, ?_, ?_, ?_, countP_none e1⟩
  · rw [List.filter_append, filter_all hA, filter_none hB]; simp
  · rw [List.filter_append, filter_none hA', filter_all hB']; simp
  · exact filter_all (fun x hx => by simp [e1 x hx])

/-- key present: the second part starts with the element `b` equivalent to it -/
theorem spec_present {b : α} {B' : List α} (hb1 : lt b k = false) (hb2 : lt k b = false)
    (hA : ∀ x ∈ A, lt x k = true) (hB' : ∀ x ∈ B', lt k x = true) :
    Spec.contains lt (A ++ b :: B') k = true ∧
    (A ++ b :: B').filter (fun x => !Spec.equiv lt k x) = A ++ B' ∧
    (A ++ b :: B').countP (Spec.equiv lt k) = 1 := by
  have eb : Spec.equiv lt k b = true := by simp [Spec.equiv, hb1, hb2]
  have eA : ∀ x ∈ A, Spec.equiv lt k x = false := fun x hx => equiv_false_of_lt (hA x hx)
  have eB : ∀ x ∈ B', Spec.equiv lt k x = false := fun x hx => equiv_false_of_gt (hB' x hx)
  have eAn : ∀ x ∈ A, (fun x => !Spec.equiv lt k x) x = true := fun x hx => by simp [eA x hx]
  have eBn : ∀ x ∈ B', (fun x => !Spec.equiv lt k x) x = true := fun x hx => by simp [eB x hx]
  refine ⟨?_, ?_, ?_⟩
  · simp [Spec.contains, eb]
  · rw [List.filter_append, filter_all eAn, List.filter_cons]
    simp [eb, filter_all eBn]
  · rw [List.countP_append, countP_none eA, List.countP_cons, countP_none eB]
    simp [eb]

end eval

/-! ### sortedness is preserved by what the spec does -/

theorem sorted_insert {A B : List α} {k : α} (hs : Sorted lt (A ++ B))
    (hA : ∀ x ∈ A, lt x k = true) (hB : ∀ x ∈ B, lt k x = true) : Sorted lt (A ++ k :: B) := by
  obtain ⟨h1, h2, h3⟩ := List.pairwise_append.mp hs
  refine List.pairwise_append.mpr ⟨h1, List.pairwise_cons.mpr ⟨hB, h2⟩, ?_⟩
  intro a ha b hb
  rcases List.mem_cons.mp hb with h | h
  · rw [h]; exact hA a ha
  · exact h3 a ha b h

theorem sorted_filter {l : List α} (hs : Sorted lt l) (q : α → Bool) : Sorted lt (l.filter q) :=
  List.Pairwise.sublist List.filter_sublist hs

theorem sorted_eraseRange {l : List α} (hs : Sorted lt l) (f la : Nat) (h : f ≤ la) :
    Sorted lt (l.take f ++ l.drop la) := by
  have hsub : (l.take f ++ l.drop la).Sublist l := by
    have h1 : (l.drop la).Sublist (l.drop f) := by
      have : l.drop la = (l.drop f).drop (la - f) := by rw [List.drop_drop]; congr 1; omega
      rw [this]; exact List.drop_sublist _ _
    have := List.Sublist.append (List.Sublist.refl (l.take f)) h1
    rwa [List.take_append_drop] at this
  exact List.Pairwise.sublist hsub hs

theorem countP_add_not (q : α → Bool) (l : List α) :
    l.countP q + (l.filter (fun x => !q x)).length = l.length := by
  induction l with
  | nil => rfl
  | cons x xs ih => cases h : q x <;> simp [h, List.countP_cons, List.filter_cons] <;> omega


/-! ### invariants and history preconditions (definitions used by the property theorems) -/

/-- invariant of one set: strictly ascending and within capacity -/
def Inv1 (lt : α → α → Bool) (cap : Nat) (l : List α) : Prop := Sorted lt l ∧ l.length ≤ cap

/-- invariant of a history state: both live sets are strictly ascending and within capacity -/
def Inv (lt : α → α → Bool) (cap : Nat) (s : St α) : Prop := Inv1 lt cap s.cur ∧ Inv1 lt cap s.other

/-- extract / replace / insert(hint, x) exist for flat_set only -/
def opOk (kind : Kind) : Op α κ → Bool
  | .extract | .replace _ | .insertHint _ _ => kind != .ss
  | _ => true

/-- all operations of the history are defined for this kind of set -/
def opsOk (kind : Kind) (ops : List (Op α κ)) : Bool := ops.all (opOk kind)

/-- precondition of a history as the generator uses it: every operation meets its documented
    precondition in the state the *spec* reaches -/
def validHist (isSet : Bool) (lt : α → α → Bool) (h : Het α κ) (cap : Nat) : St α → List (Op α κ) → Bool
  | _, [] => true
  | s, op :: ops => Spec.valid cap lt s op && validHist isSet lt h cap (Spec.step isSet lt h cap s op).1 ops

/-- the same for extended histories (`XOp`) -/
def xopOk (kind : Kind) : XOp α κ → Bool
  | .base op => opOk kind op
  | _ => true

def xopsOk (kind : Kind) (ops : List (XOp α κ)) : Bool := ops.all (xopOk kind)

def xvalidHist (isSet : Bool) (lt : α → α → Bool) (h : Het α κ) (e : Elem α) (cap : Nat) : St α → List (XOp α κ) → Bool
  | _, [] => true
  | s, op :: ops => Spec.xvalid cap lt s op && xvalidHist isSet lt h e cap (Spec.xstep isSet lt h e cap s op).1 ops


/-! equation lemmas of the recursive definitions are generated here (not in Props.lean, where the
    audit would count them as obligations) -/
theorem run_nil [DecidableEq α] (kind : Kind) (h : Het α κ) (cap : Nat) (s : St α) :
    run kind lt h cap s [] = .ok (s, []) := by simp only [run]
theorem spec_run_nil (b : Bool) (h : Het α κ) (cap : Nat) (s : St α) : Spec.run b lt h cap s [] = (s, []) := by
  simp only [Spec.run]
theorem spec_insertRange_nil (cap : Nat) (l : List α) : Spec.insertRange lt cap l [] = l := by
  simp only [Spec.insertRange]
theorem ssInsertRange_nil (cap : Nat) (l : List α) : ssInsertRange lt cap l [] = .ok l := by
  simp only [ssInsertRange]
theorem fsInsertRange_nil (cap : Nat) (l : List α) : fsInsertRange lt cap l [] = .ok l := by
  simp only [fsInsertRange]
theorem fiInsertRange_nil (cap : Nat) (l : List α) : fiInsertRange lt cap l [] = .ok l := by
  simp only [fiInsertRange]
theorem validHist_nil (b : Bool) (h : Het α κ) (cap : Nat) (s : St α) : validHist b lt h cap s [] = true := by
  simp only [validHist]

end Tetl.C09
