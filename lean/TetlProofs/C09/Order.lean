/-
C09 — what the declarative spec evaluates to on a sorted list split at the lower bound of a key.
-/
import TetlProofs.C09.Vector
namespace Tetl.C09
open Tetl

variable {α : Type} {lt : α → α → Bool}

theorem mono_lower (hst : StrictTotal lt) {l : List α} (hs : Sorted lt l) (k : α) :
    l.Pairwise (fun a b => (fun x => lt x k) b = true → (fun x => lt x k) a = true) :=
  List.Pairwise.imp (fun {a b} hab hbk => hst.trans a b k hab hbk) hs

theorem mono_upper (hst : StrictTotal lt) {l : List α} (hs : Sorted lt l) (k : α) :
    l.Pairwise (fun a b => (fun x => !lt k x) b = true → (fun x => !lt k x) a = true) := by
  refine List.Pairwise.imp (fun {a b} hab hb => ?_) hs
  cases hka : lt k a with
  | false => simp [hka]
  | true => have := hst.trans k a b hka hab; simp [this] at hb

/-- the split the lower-bound loop finds -/
theorem lowerBound_split (hst : StrictTotal lt) {l : List α} (hs : Sorted lt l) (k : α) :
    ∃ A B, l = A ++ B ∧ (∀ x ∈ A, lt x k = true) ∧ (∀ x ∈ B, lt x k = false) ∧
      lowerBound lt l k = .ok A.length := by
  obtain ⟨A, B, h1, h2, h3, h4⟩ := boundLoop_spec (fun x => lt x k) l.length [] l [] rfl (mono_lower hst hs k)
  exact ⟨A, B, h1, h2, h3, by simpa [lowerBound] using h4⟩

theorem upperBound_split (hst : StrictTotal lt) {l : List α} (hs : Sorted lt l) (k : α) :
    ∃ A B, l = A ++ B ∧ (∀ x ∈ A, lt k x = false) ∧ (∀ x ∈ B, lt k x = true) ∧
      upperBound lt l k = .ok A.length := by
  obtain ⟨A, B, h1, h2, h3, h4⟩ := boundLoop_spec (fun x => !lt k x) l.length [] l [] rfl (mono_upper hst hs k)
  refine ⟨A, B, h1, ?_, ?_, by simpa [upperBound] using h4⟩
  · intro x hx; simpa using h2 x hx
  · intro x hx; simpa using h3 x hx

/-- position of the key relative to the split: either the second part starts with the key itself
    (and everything behind it is above), or everything in the second part is above the key -/
theorem classify (hst : StrictTotal lt) {A B : List α} {k : α} (hs : Sorted lt (A ++ B))
    (hA : ∀ x ∈ A, lt x k = true) (hB : ∀ x ∈ B, lt x k = false) :
    (∀ x ∈ A, lt k x = false) ∧
      ((∃ B', B = k :: B' ∧ ∀ x ∈ B', lt k x = true) ∨ (∀ x ∈ B, lt k x = true)) := by
  refine ⟨fun x hx => hst.asymm (hA x hx), ?_⟩
  cases B with
  | nil => right; simp
  | cons b B' =>
    have hsB : Sorted lt (b :: B') := (List.pairwise_append.mp hs).2.1
    have hbB : ∀ x ∈ B', lt b x = true := (List.pairwise_cons.mp hsB).1
    cases hkb : lt k b with
    | true =>
      right
      intro x hx
      rcases List.mem_cons.mp hx with h | h
      · rw [h]; exact hkb
      · exact hst.trans k b x hkb (hbB x h)
    | false =>
      left
      have hbk : b = k := (hst.total k b hkb (hB b (by simp))).symm
      subst hbk
      exact ⟨B', rfl, hbB⟩

section eval
variable {A B : List α} {k : α}

theorem equiv_false_of_lt {x : α} (h : lt x k = true) : Spec.equiv lt k x = false := by
  simp [Spec.equiv, h]
theorem equiv_false_of_gt {x : α} (h : lt k x = true) : Spec.equiv lt k x = false := by
  simp [Spec.equiv, h]
theorem equiv_self (hst : StrictTotal lt) : Spec.equiv lt k k = true := by
  simp [Spec.equiv, hst.irrefl]

theorem filter_all {q : α → Bool} {l : List α} (h : ∀ x ∈ l, q x = true) : l.filter q = l :=
  List.filter_eq_self.mpr h
theorem filter_none {q : α → Bool} {l : List α} (h : ∀ x ∈ l, q x = false) : l.filter q = [] :=
  List.filter_eq_nil_iff.mpr (fun x hx => by simp [h x hx])
theorem countP_all {q : α → Bool} {l : List α} (h : ∀ x ∈ l, q x = true) : l.countP q = l.length :=
  List.countP_eq_length.mpr h
theorem countP_none {q : α → Bool} {l : List α} (h : ∀ x ∈ l, q x = false) : l.countP q = 0 :=
  List.countP_eq_zero.mpr (fun x hx => by simp [h x hx])
theorem any_none {q : α → Bool} {l : List α} (h : ∀ x ∈ l, q x = false) : l.any q = false :=
  List.any_eq_false.mpr (fun x hx => by simp [h x hx])

theorem spec_lowerBound (hA : ∀ x ∈ A, lt x k = true) (hB : ∀ x ∈ B, lt x k = false) :
    Spec.lowerBound lt (A ++ B) k = A.length := by
  simp [Spec.lowerBound, List.countP_append, countP_all hA, countP_none hB]

theorem spec_upperBound (hA : ∀ x ∈ A, lt k x = false) (hB : ∀ x ∈ B, lt k x = true) :
    Spec.upperBound lt (A ++ B) k = A.length := by
  have h1 : ∀ x ∈ A, (fun x => !lt k x) x = true := fun x hx => by simp [hA x hx]
  have h2 : ∀ x ∈ B, (fun x => !lt k x) x = false := fun x hx => by simp [hB x hx]
  simp [Spec.upperBound, List.countP_append, countP_all h1, countP_none h2]

/-- key absent -/
theorem spec_absent (hA : ∀ x ∈ A, lt x k = true) (hA' : ∀ x ∈ A, lt k x = false)
    (hB : ∀ x ∈ B, lt x k = false) (hB' : ∀ x ∈ B, lt k x = true) :
    Spec.contains lt (A ++ B) k = false ∧
    (A ++ B).filter (fun x => lt x k) = A ∧ (A ++ B).filter (fun x => lt k x) = B ∧
    (A ++ B).filter (fun x => !Spec.equiv lt k x) = A ++ B ∧ (A ++ B).countP (Spec.equiv lt k) = 0 := by
  have e1 : ∀ x ∈ A ++ B, Spec.equiv lt k x = false := by
    intro x hx
    rcases List.mem_append.mp hx with h | h
    · exact equiv_false_of_lt (hA x h)
    · exact equiv_false_of_gt (hB' x h)
  refine ⟨any_none e1, ?_, ?_, ?_, countP_none e1⟩
  · rw [List.filter_append, filter_all hA, filter_none hB]; simp
  · rw [List.filter_append, filter_none hA', filter_all hB']; simp
  · exact filter_all (fun x hx => by simp [e1 x hx])

/-- key present: the second part starts with it -/
theorem spec_present (hst : StrictTotal lt) {B' : List α} (hA : ∀ x ∈ A, lt x k = true)
    (hB' : ∀ x ∈ B', lt k x = true) :
    Spec.contains lt (A ++ k :: B') k = true ∧
    (A ++ k :: B').filter (fun x => !Spec.equiv lt k x) = A ++ B' ∧
    (A ++ k :: B').countP (Spec.equiv lt k) = 1 ∧
    Spec.upperBound lt (A ++ k :: B') k = A.length + 1 := by
  have eA : ∀ x ∈ A, Spec.equiv lt k x = false := fun x hx => equiv_false_of_lt (hA x hx)
  have eB : ∀ x ∈ B', Spec.equiv lt k x = false := fun x hx => equiv_false_of_gt (hB' x hx)
  have eAn : ∀ x ∈ A, (fun x => !Spec.equiv lt k x) x = true := fun x hx => by simp [eA x hx]
  have eBn : ∀ x ∈ B', (fun x => !Spec.equiv lt k x) x = true := fun x hx => by simp [eB x hx]
  refine ⟨?_, ?_, ?_, ?_⟩
  · simp [Spec.contains, equiv_self hst]
  · rw [List.filter_append, filter_all eAn, List.filter_cons]
    simp [equiv_self hst, filter_all eBn]
  · rw [List.countP_append, countP_none eA, List.countP_cons, countP_none eB]
    simp [equiv_self hst]
  · have h1 : ∀ x ∈ A ++ [k], lt k x = false := by
      intro x hx
      rcases List.mem_append.mp hx with h | h
      · exact hst.asymm (hA x h)
      · simp at h; rw [h]; exact hst.irrefl k
    have := spec_upperBound (A := A ++ [k]) (B := B') (k := k) h1 hB'
    simpa using this

end eval

/-! ### sortedness is preserved by what the spec does -/

theorem sorted_insert {A B : List α} {k : α} (hs : Sorted lt (A ++ B))
    (hA : ∀ x ∈ A, lt x k = true) (hB : ∀ x ∈ B, lt k x = true) : Sorted lt (A ++ k :: B) := by
  obtain ⟨h1, h2, h3⟩ := List.pairwise_append.mp hs
  refine List.pairwise_append.mpr ⟨h1, List.pairwise_cons.mpr ⟨hB, h2⟩, ?_⟩
  intro a ha b hb
  rcases List.mem_cons.mp hb with h | h
  · rw [h]; exact hA a ha
  · exact h3 a ha b h

theorem sorted_filter {l : List α} (hs : Sorted lt l) (q : α → Bool) : Sorted lt (l.filter q) :=
  List.Pairwise.sublist List.filter_sublist hs

theorem sorted_eraseRange {l : List α} (hs : Sorted lt l) (f la : Nat) (h : f ≤ la) :
    Sorted lt (l.take f ++ l.drop la) := by
  have hsub : (l.take f ++ l.drop la).Sublist l := by
    have h1 : (l.drop la).Sublist (l.drop f) := by
      have : l.drop la = (l.drop f).drop (la - f) := by rw [List.drop_drop]; congr 1; omega
      rw [this]; exact List.drop_sublist _ _
    have := List.Sublist.append (List.Sublist.refl (l.take f)) h1
    rwa [List.take_append_drop] at this
  exact List.Pairwise.sublist hsub hs

theorem equiv_iff_eq [DecidableEq α] (hst : StrictTotal lt) (k x : α) :
    Spec.equiv lt k x = decide (x = k) := by
  by_cases h : x = k
  · subst h; simp [Spec.equiv, hst.irrefl]
  · simp only [h, decide_false]
    cases h1 : lt x k with
    | true => simp [Spec.equiv, h1]
    | false =>
      cases h2 : lt k x with
      | true => simp [Spec.equiv, h2]
      | false => exact absurd (hst.total x k h1 h2) h

theorem countP_add_not (q : α → Bool) (l : List α) :
    l.countP q + (l.filter (fun x => !q x)).length = l.length := by
  induction l with
  | nil => rfl
  | cons x xs ih => cases h : q x <;> simp [h, List.countP_cons, List.filter_cons] <;> omega


/-! ### invariants and history preconditions (definitions used by the property theorems) -/

/-- invariant of one set: strictly ascending and within capacity -/
def Inv1 (lt : α → α → Bool) (cap : Nat) (l : List α) : Prop := Sorted lt l ∧ l.length ≤ cap

/-- invariant of a history state: both live sets are strictly ascending and within capacity -/
def Inv (lt : α → α → Bool) (cap : Nat) (s : St α) : Prop := Inv1 lt cap s.cur ∧ Inv1 lt cap s.other

/-- extract/replace exist for flat_set only -/
def opOk (kind : Kind) : Op α → Bool
  | .extract | .replace _ => kind != .ss
  | _ => true

/-- all operations of the history are defined for this kind of set -/
def opsOk (kind : Kind) (ops : List (Op α)) : Bool := ops.all (opOk kind)

/-- precondition of a history as the generator uses it: every operation meets its documented
    precondition in the state the *spec* reaches -/
def validHist (isSet : Bool) (lt : α → α → Bool) (cap : Nat) : St α → List (Op α) → Bool
  | _, [] => true
  | s, op :: ops => Spec.valid cap lt s op && validHist isSet lt cap (Spec.step isSet lt cap s op).1 ops


/-! equation lemmas of the recursive definitions are generated here (not in Props.lean, where the
    audit would count them as obligations) -/
theorem run_nil [DecidableEq α] (kind : Kind) (cap : Nat) (s : St α) :
    run kind lt cap s [] = .ok (s, []) := by simp only [run]
theorem spec_run_nil (b : Bool) (cap : Nat) (s : St α) : Spec.run b lt cap s [] = (s, []) := by
  simp only [Spec.run]
theorem spec_insertRange_nil (cap : Nat) (l : List α) : Spec.insertRange lt cap l [] = l := by
  simp only [Spec.insertRange]
theorem ssInsertRange_nil (cap : Nat) (l : List α) : ssInsertRange lt cap l [] = .ok l := by
  simp only [ssInsertRange]
theorem fsInsertRange_nil (cap : Nat) (l : List α) : fsInsertRange lt cap l [] = .ok l := by
  simp only [fsInsertRange]
theorem fiInsertRange_nil (cap : Nat) (l : List α) : fiInsertRange lt cap l [] = .ok l := by
  simp only [fiInsertRange]
theorem validHist_nil (b : Bool) (cap : Nat) (s : St α) : validHist b lt cap s [] = true := by
  simp only [validHist]

end Tetl.C09
