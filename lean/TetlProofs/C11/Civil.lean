/-
C11 — bridge between the generated (Int, explicit wrap) locals of civil_from_days / days_from_civil and the
Nat formulas of EraDefs.lean, and the era decomposition.  Everything here is re-checked against the
regenerated `Tetl.C11.Gen`.
-/
import Tetl.C11.Gen
import Tetl.C11.Spec
import TetlProofs.CSemLemmas
import TetlProofs.C11.Era
namespace Tetl.C11
open Tetl.CSem

theorem floor146097 (a : Int) : cdiv (if decide (a ≥ 0) = true then a else a - 146096) 146097 = a / 146097 := by
  rw [cdiv_pos _ 146097 (by decide)]; c_omega
theorem floor400 (a : Int) : cdiv (if decide (a ≥ 0) = true then a else a - 399) 400 = a / 400 := by
  rw [cdiv_pos _ 400 (by decide)]; c_omega

/-! ### era decomposition of civil_from_days -/

theorem cfd_era_eq (z1 : Int) : Gen.civil_from_days_era z1 = z1 / 146097 := by
  unfold Gen.civil_from_days_era; exact floor146097 z1

theorem cfd_doe_eq (z1 : Int) : Gen.civil_from_days_doe (z1 / 146097) z1 = z1 % 146097 := by
  unfold Gen.civil_from_days_doe; simp only [wrapU32]; omega

/-! ### in-era locals: Int form = cast of the Nat form -/

theorem yoe_bridge (n : Nat) (h : n < 146097) : Gen.civil_from_days_yoe (n : Int) = (N.yoe n : Int) := by
  unfold Gen.civil_from_days_yoe N.yoe
  rw [wrapU32_id ((n:Int) - (n:Int) / 1460) (by omega)]
  rw [wrapU32_id ((n:Int) - (n:Int) / 1460 + (n:Int) / 36524) (by omega)]
  rw [wrapU32_id ((n:Int) - (n:Int) / 1460 + (n:Int) / 36524 - (n:Int) / 146096) (by omega)]
  omega

theorem doy_bridge (n y : Nat) (h : n < 146097) (hy : y ≤ 399) (h2 : y / 100 ≤ 365 * y + y / 4)
    (h3 : 365 * y + y / 4 - y / 100 ≤ n) :
    Gen.civil_from_days_doy (n : Int) (y : Int) = (N.doy n y : Int) := by
  unfold Gen.civil_from_days_doy N.doy
  rw [wrapU32_id (365 * (y:Int)) (by omega)]
  rw [wrapU32_id (365 * (y:Int) + (y:Int) / 4) (by omega)]
  rw [wrapU32_id (365 * (y:Int) + (y:Int) / 4 - (y:Int) / 100) (by omega)]
  rw [wrapU32_id ((n:Int) - (365 * (y:Int) + (y:Int) / 4 - (y:Int) / 100)) (by omega)]
  omega

theorem mp_bridge (dy : Nat) (h : dy ≤ 365) : Gen.civil_from_days_mp (dy : Int) = (N.mp dy : Int) := by
  unfold Gen.civil_from_days_mp N.mp
  rw [wrapU32_id (5 * (dy:Int)) (by omega), wrapU32_id (5 * (dy:Int) + 2) (by omega)]
  omega

theorem d_bridge (dy p : Nat) (h : dy ≤ 365) (hp : p ≤ 11) (h4 : (153 * p + 2) / 5 ≤ dy) :
    Gen.civil_from_days_d (dy : Int) (p : Int) = (N.d dy p : Int) := by
  unfold Gen.civil_from_days_d N.d
  rw [wrapU32_id (153 * (p:Int)) (by omega), wrapU32_id (153 * (p:Int) + 2) (by omega)]
  rw [wrapU32_id ((dy:Int) - (153 * (p:Int) + 2) / 5) (by omega)]
  rw [wrapU32_id ((dy:Int) - (153 * (p:Int) + 2) / 5 + 1) (by omega)]
  omega

theorem m_bridge (p : Nat) (hp : p ≤ 11) : Gen.civil_from_days_m (p : Int) = (N.m p : Int) := by
  unfold Gen.civil_from_days_m N.m
  by_cases h : p < 10
  · have : decide ((p : Int) < 10) = true := by simp only [decide_eq_true_eq]; omega
    simp only [this, h, if_true]
    rw [wrapU32_id _ (by omega)]; omega
  · have : decide ((p : Int) < 10) = false := by simp only [decide_eq_false_iff_not]; omega
    simp only [this, h, if_false, Bool.false_eq_true]
    rw [wrapU32_id _ (by omega)]; omega


/-! ### days_from_civil locals -/

theorem dfc_era_yoe (y : Nat) (era : Int) (hy : y ≤ 399) :
    Gen.days_from_civil_era ((y : Int) + era * 400) = era ∧
    Gen.days_from_civil_yoe era ((y : Int) + era * 400) = (y : Int) := by
  unfold Gen.days_from_civil_era Gen.days_from_civil_yoe
  rw [floor400]
  constructor
  · omega
  · rw [wrapU32_id _ (by omega)]; omega

theorem dfc_doy_bridge (m d : Nat) (hm : 1 ≤ m ∧ m ≤ 12) (hd : 1 ≤ d ∧ d ≤ 31) :
    Gen.days_from_civil_doy (d : Int) (m : Int) = (N.dfcDoy m d : Int) := by
  unfold Gen.days_from_civil_doy N.dfcDoy
  by_cases h : m > 2
  · have : decide ((m : Int) > 2) = true := by simp only [decide_eq_true_eq]; omega
    simp only [this, h, if_true]
    rw [wrapU32_id ((m:Int) - 3) (by omega), wrapU32_id (153 * ((m:Int) - 3)) (by omega),
      wrapU32_id (153 * ((m:Int) - 3) + 2) (by omega), wrapU32_id ((153 * ((m:Int) - 3) + 2) / 5 + (d:Int)) (by omega),
      wrapU32_id _ (by omega)]
    omega
  · have : decide ((m : Int) > 2) = false := by simp only [decide_eq_false_iff_not]; omega
    simp only [this, h, if_false, Bool.false_eq_true]
    rw [wrapU32_id ((m:Int) + 9) (by omega), wrapU32_id (153 * ((m:Int) + 9)) (by omega),
      wrapU32_id (153 * ((m:Int) + 9) + 2) (by omega), wrapU32_id ((153 * ((m:Int) + 9) + 2) / 5 + (d:Int)) (by omega),
      wrapU32_id _ (by omega)]
    omega

theorem dfc_doe_bridge (dy y : Nat) (hy : y ≤ 399) (hdy : dy ≤ 400) :
    Gen.days_from_civil_doe (dy : Int) (y : Int) = (N.dfcDoe y dy : Int) := by
  unfold Gen.days_from_civil_doe N.dfcDoe
  rw [wrapU32_id ((y:Int) * 365) (by omega), wrapU32_id ((y:Int) * 365 + (y:Int) / 4) (by omega),
    wrapU32_id ((y:Int) * 365 + (y:Int) / 4 - (y:Int) / 100) (by omega), wrapU32_id _ (by omega)]
  omega

end Tetl.C11
