import TetlProofs.C11.Era2Defs
namespace Tetl.C11.N
/-- kernel evaluation of `tail2Ok` on triples [98304, 114688) (complete sub-domain) -/
theorem chunkB6 : allBits 14 98304 tail2Ok = true := by decide +kernel
end Tetl.C11.N
