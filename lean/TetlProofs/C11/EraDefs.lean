/-
C11 — the part of civil_from_days / days_from_civil that is a closed function of the day-of-era
`doe ∈ [0, 146097)`, written over `Nat` (so that the kernel's GMP arithmetic applies), and the Boolean
predicate `tailOk` that is checked for *every* day of an era by kernel evaluation (EraChunk*.lean).
-/
namespace Tetl.C11.N

def yoe (doe : Nat) : Nat := (doe - doe / 1460 + doe / 36524 - doe / 146096) / 365
def doy (doe yoe : Nat) : Nat := doe - (365 * yoe + yoe / 4 - yoe / 100)
def mp (doy : Nat) : Nat := (5 * doy + 2) / 153
def d (doy mp : Nat) : Nat := doy - (153 * mp + 2) / 5 + 1
def m (mp : Nat) : Nat := if mp < 10 then mp + 3 else mp - 9
def dfcDoy (m d : Nat) : Nat := (153 * (if m > 2 then m - 3 else m + 9) + 2) / 5 + d - 1
def dfcDoe (yoe doy : Nat) : Nat := yoe * 365 + yoe / 4 - yoe / 100 + doy

/-- leap rule on the calendar year of the era `cy ∈ [0,400]` (same residues mod 400 as the real year) -/
def leap (cy : Nat) : Bool := (cy % 4 == 0 && cy % 100 != 0) || cy % 400 == 0
def monthLen (cy m : Nat) : Nat :=
  match m with
  | 1 => 31 | 2 => if leap cy then 29 else 28 | 3 => 31 | 4 => 30 | 5 => 31 | 6 => 30
  | 7 => 31 | 8 => 31 | 9 => 30 | 10 => 31 | 11 => 30 | 12 => 31 | _ => 0

/-- (calendar year of era, month, day) of day-of-era `doe` -/
def civ (doe : Nat) : Nat × Nat × Nat :=
  let y := yoe doe
  let dy := doy doe y
  let p := mp dy
  (y + (if m p ≤ 2 then 1 else 0), m p, d dy p)

def next (t : Nat × Nat × Nat) : Nat × Nat × Nat :=
  if t.2.2 < monthLen t.1 t.2.1 then (t.1, t.2.1, t.2.2 + 1)
  else if t.2.1 < 12 then (t.1, t.2.1 + 1, 1)
  else (t.1 + 1, 1, 1)

def tripleEq (a b : Nat × Nat × Nat) : Bool := Nat.beq a.1 b.1 && Nat.beq a.2.1 b.2.1 && Nat.beq a.2.2 b.2.2

/-- everything the assembly needs to know about one day of an era, as a Boolean -/
def tailOk (doe : Nat) : Bool :=
  let y := yoe doe
  let dy := doy doe y
  let p := mp dy
  let dd := d dy p
  let mm := m p
  Nat.ble 146097 doe ||
  ( -- no truncated subtraction in the Nat formulas (= no unsigned wrap in the C code)
    Nat.ble (doe / 146096) (doe - doe / 1460 + doe / 36524) &&
    Nat.ble (yoe doe / 100) (365 * y + y / 4) &&
    Nat.ble (365 * y + y / 4 - y / 100) doe &&
    Nat.ble ((153 * p + 2) / 5) dy &&
    -- ranges
    Nat.ble y 399 && Nat.ble dy 365 && Nat.ble p 11 && Nat.ble 1 mm && Nat.ble mm 12 && Nat.ble 1 dd &&
    Nat.ble dd (monthLen (y + (if mm ≤ 2 then 1 else 0)) mm) &&
    -- days_from_civil inverts it
    Nat.ble 1 ((153 * (if mm > 2 then mm - 3 else mm + 9) + 2) / 5 + dd) &&
    Nat.ble (y / 100) (y * 365 + y / 4) &&
    Nat.beq (dfcDoe y (dfcDoy mm dd)) doe &&
    -- the next day of the era is the calendar successor
    (Nat.ble 146096 doe || tripleEq (civ (doe + 1)) (next (civ doe))) )

/-- binary-splitting conjunction over `[base, base + 2^k)` -/
def allBits : (k : Nat) → (base : Nat) → (Nat → Bool) → Bool
  | 0, b, f => f b
  | k + 1, b, f => allBits k b f && allBits k (b + 2 ^ k) f

theorem allBits_sound (k base : Nat) (f : Nat → Bool) (h : allBits k base f = true) :
    ∀ i, i < 2 ^ k → f (base + i) = true := by
  induction k generalizing base with
  | zero => intro i hi; have : i = 0 := by omega
            subst this; simpa [allBits] using h
  | succ k ih =>
    simp only [allBits, Bool.and_eq_true] at h
    intro i hi
    by_cases hlt : i < 2 ^ k
    · exact ih base h.1 i hlt
    · have := ih (base + 2 ^ k) h.2 (i - 2 ^ k) (by rw [Nat.pow_succ] at hi; omega)
      have e : base + 2 ^ k + (i - 2 ^ k) = base + i := by omega
      rwa [e] at this

end Tetl.C11.N
