import TetlProofs.C11.EraDefs
namespace Tetl.C11.N
/-- kernel evaluation of `tailOk` on days [98304, 114688) of the era (complete sub-domain) -/
theorem chunk6 : allBits 14 98304 tailOk = true := by decide +kernel
end Tetl.C11.N
