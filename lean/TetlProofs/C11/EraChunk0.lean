import TetlProofs.C11.EraDefs
namespace Tetl.C11.N
/-- kernel evaluation of `tailOk` on days [0, 16384) of the era (complete sub-domain) -/
theorem chunk0 : allBits 14 0 tailOk = true := by decide +kernel
end Tetl.C11.N
