/- C11 — every day of an era satisfies `tailOk` (nine kernel-evaluated chunks), and what that means. -/
import TetlProofs.C11.EraChunk0
import TetlProofs.C11.EraChunk1
import TetlProofs.C11.EraChunk2
import TetlProofs.C11.EraChunk3
import TetlProofs.C11.EraChunk4
import TetlProofs.C11.EraChunk5
import TetlProofs.C11.EraChunk6
import TetlProofs.C11.EraChunk7
import TetlProofs.C11.EraChunk8
namespace Tetl.C11.N

theorem tail_all (doe : Nat) : tailOk doe = true := by
  by_cases hb : 146097 ≤ doe
  · unfold tailOk; simp [Nat.ble_eq, hb]
  have pick : ∀ (base : Nat), allBits 14 base tailOk = true → base ≤ doe → doe < base + 16384 → tailOk doe = true := by
    intro base hc h1 h2
    have := allBits_sound 14 base tailOk hc (doe - base) (by omega)
    rwa [show base + (doe - base) = doe by omega] at this
  by_cases h0 : doe < 16384
  · exact pick 0 chunk0 (by omega) (by omega)
  by_cases h1 : doe < 32768
  · exact pick 16384 chunk1 (by omega) (by omega)
  by_cases h2 : doe < 49152
  · exact pick 32768 chunk2 (by omega) (by omega)
  by_cases h3 : doe < 65536
  · exact pick 49152 chunk3 (by omega) (by omega)
  by_cases h4 : doe < 81920
  · exact pick 65536 chunk4 (by omega) (by omega)
  by_cases h5 : doe < 98304
  · exact pick 81920 chunk5 (by omega) (by omega)
  by_cases h6 : doe < 114688
  · exact pick 98304 chunk6 (by omega) (by omega)
  by_cases h7 : doe < 131072
  · exact pick 114688 chunk7 (by omega) (by omega)
  · exact pick 131072 chunk8 (by omega) (by omega)

/-- the facts packed into `tailOk`, as propositions -/
theorem tail_facts (doe : Nat) (h : doe < 146097) :
    doe / 146096 ≤ doe - doe / 1460 + doe / 36524 ∧
    yoe doe / 100 ≤ 365 * yoe doe + yoe doe / 4 ∧
    365 * yoe doe + yoe doe / 4 - yoe doe / 100 ≤ doe ∧
    (153 * mp (doy doe (yoe doe)) + 2) / 5 ≤ doy doe (yoe doe) ∧
    yoe doe ≤ 399 ∧ doy doe (yoe doe) ≤ 365 ∧ mp (doy doe (yoe doe)) ≤ 11 ∧
    1 ≤ m (mp (doy doe (yoe doe))) ∧ m (mp (doy doe (yoe doe))) ≤ 12 ∧
    1 ≤ d (doy doe (yoe doe)) (mp (doy doe (yoe doe))) ∧
    d (doy doe (yoe doe)) (mp (doy doe (yoe doe))) ≤
      monthLen (yoe doe + (if m (mp (doy doe (yoe doe))) ≤ 2 then 1 else 0)) (m (mp (doy doe (yoe doe)))) ∧
    dfcDoe (yoe doe) (dfcDoy (m (mp (doy doe (yoe doe)))) (d (doy doe (yoe doe)) (mp (doy doe (yoe doe))))) = doe ∧
    (doe < 146096 → civ (doe + 1) = next (civ doe)) := by
  have ht := tail_all doe
  unfold tailOk at ht
  have hnb : Nat.ble 146097 doe = false := by
    cases hb : Nat.ble 146097 doe with
    | false => rfl
    | true => have := Nat.le_of_ble_eq_true hb; omega
  simp only [hnb, Bool.false_or, Bool.and_eq_true, Bool.or_eq_true, Nat.ble_eq, Nat.beq_eq_true_eq] at ht
  obtain ⟨⟨⟨⟨⟨⟨⟨⟨⟨⟨⟨⟨⟨⟨a1, a2⟩, a3⟩, a4⟩, a5⟩, a6⟩, a7⟩, a8⟩, a9⟩, a10⟩, a11⟩, _a12⟩, _a13⟩, a14⟩, a15⟩ := ht
  refine ⟨a1, a2, a3, a4, a5, a6, a7, a8, a9, a10, a11, Nat.eq_of_beq_eq_true a14, ?_⟩
  intro hlt
  rcases a15 with hge | heq
  · omega
  · simp only [tripleEq, Bool.and_eq_true, Nat.beq_eq_true_eq] at heq
    obtain ⟨⟨e1, e2⟩, e3⟩ := heq
    exact Prod.ext (Nat.eq_of_beq_eq_true e1) (Prod.ext (Nat.eq_of_beq_eq_true e2) (Nat.eq_of_beq_eq_true e3))

end Tetl.C11.N
