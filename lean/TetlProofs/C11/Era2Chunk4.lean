import TetlProofs.C11.Era2Defs
namespace Tetl.C11.N
/-- kernel evaluation of `tail2Ok` on triples [65536, 81920) (complete sub-domain) -/
theorem chunkB4 : allBits 14 65536 tail2Ok = true := by decide +kernel
end Tetl.C11.N
