import TetlProofs.C11.Era2Defs
namespace Tetl.C11.N
/-- kernel evaluation of `tail2Ok` on triples [49152, 65536) (complete sub-domain) -/
theorem chunkB3 : allBits 14 49152 tail2Ok = true := by decide +kernel
end Tetl.C11.N
