import TetlProofs.C11.EraDefs
namespace Tetl.C11.N
/-- kernel evaluation of `tailOk` on days [16384, 32768) of the era (complete sub-domain) -/
theorem chunk1 : allBits 14 16384 tailOk = true := by decide +kernel
end Tetl.C11.N
