import TetlProofs.C11.Era2Defs
namespace Tetl.C11.N
/-- kernel evaluation of `tail2Ok` on triples [114688, 131072) (complete sub-domain) -/
theorem chunkB7 : allBits 14 114688 tail2Ok = true := by decide +kernel
end Tetl.C11.N
