/- C11 — second direction of the bijection: every valid (year-of-era, month, day) is the image under `civ`
   of the day-of-era that days_from_civil computes for it.  Checked for all 400·12·31 triples by kernel evaluation. -/
import TetlProofs.C11.EraDefs
namespace Tetl.C11.N

def tail2Ok (k : Nat) : Bool :=
  let y := k / 372
  let mm := (k % 372) / 31 + 1
  let dd := k % 31 + 1
  let cy := y + (if mm ≤ 2 then 1 else 0)
  Nat.ble 148800 k || !(Nat.ble dd (monthLen cy mm)) ||
  ( let doe := dfcDoe y (dfcDoy mm dd)
    Nat.ble 1 ((153 * (if mm > 2 then mm - 3 else mm + 9) + 2) / 5 + dd) &&
    Nat.ble (y / 100) (y * 365 + y / 4) &&
    Nat.ble (dfcDoy mm dd) 400 &&
    Nat.ble (doe + 1) 146097 &&
    tripleEq (civ doe) (cy, mm, dd) )

end Tetl.C11.N
