import TetlProofs.C11.Era2Defs
namespace Tetl.C11.N
/-- kernel evaluation of `tail2Ok` on triples [32768, 49152) (complete sub-domain) -/
theorem chunkB2 : allBits 14 32768 tail2Ok = true := by decide +kernel
end Tetl.C11.N
