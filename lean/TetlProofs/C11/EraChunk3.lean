import TetlProofs.C11.EraDefs
namespace Tetl.C11.N
/-- kernel evaluation of `tailOk` on days [49152, 65536) of the era (complete sub-domain) -/
theorem chunk3 : allBits 14 49152 tailOk = true := by decide +kernel
end Tetl.C11.N
