/-
C11 — `± months` / `± years` of year_month, year_month_day, year_month_day_last, year_month_weekday and
year_month_weekday_last: every operand order, `+=`, `-=` (50 generated functions, Tetl/C11/Gen.lean).

One theorem per generated operator: under the precondition that makes the std result defined
  * the month is an `ok()` month (1..12) for month arithmetic; no condition on it for year arithmetic,
  * the delta is a value of the 32-bit `rep`; for the `-` / `-=` forms additionally `k ≠ INT32_MIN`, because
    `x - d` is `x + -d` ([time.cal.ym.nonmembers] etc.; libstdc++ performs the same negation, so this is std's
    precondition as well, not an artefact of tetl),
  * the resulting year is a value of `year`'s 16-bit representation (as `year_plus_eq` / `year_month_plus_eq` state it),
the generated function returns exactly the Spec value — (year, month) + delta with the month normalised into 1..12 and
the carry in the year, every other field (day, weekday_indexed, weekday_last: an opaque token `f`) unchanged — and its
`_ub` obligation (no signed overflow in any intermediate, the negation included) holds.
The proofs only unfold the generated composition and rewrite with `year_month_plus_eq`, `year_plus_eq`, `year_minus_eq`
(Props.lean): if an operator stops forwarding to `year_month + months` / `year + years` the rewrite fails.
-/
import TetlProofs.C11.Props
namespace Tetl.C11.Props
open Tetl.CSem Tetl.C11

/-! ## `year_month` ± months / years -/

/-- `year_month + months` (Props.year_month_plus_eq / year_month_plus_no_ub, in the joint form used below) -/
theorem year_month_plus_months_eq (y m k : Int) (hm : 1 ≤ m ∧ m ≤ 12) (hk : -2147483648 ≤ k ∧ k ≤ 2147483647) (hy : -32768 ≤ y + (m - 1 + k) / 12 ∧ y + (m - 1 + k) / 12 ≤ 32767) :
    Gen.year_month_plus y m k = Spec.yearMonthPlus y m k ∧ Gen.year_month_plus_ub y m k = true :=
  ⟨year_month_plus_eq y m k hm hk hy, year_month_plus_no_ub y m k hm hk (by omega)⟩

theorem months_plus_year_month_eq (y m k : Int) (hm : 1 ≤ m ∧ m ≤ 12) (hk : -2147483648 ≤ k ∧ k ≤ 2147483647) (hy : -32768 ≤ y + (m - 1 + k) / 12 ∧ y + (m - 1 + k) / 12 ≤ 32767) :
    Gen.months_plus_year_month k y m = Spec.yearMonthPlus y m k ∧ Gen.months_plus_year_month_ub k y m = true := by
  unfold Gen.months_plus_year_month Gen.months_plus_year_month_ub
  exact year_month_plus_months_eq y m k hm hk hy

/-- `year_month - months` is `+ (-months)`: the negation is the only extra obligation (`k ≠ INT32_MIN`, as in libstdc++) -/
theorem year_month_minus_months_eq (y m k : Int) (hm : 1 ≤ m ∧ m ≤ 12) (hk : -2147483647 ≤ k ∧ k ≤ 2147483647) (hy : -32768 ≤ y + (m - 1 - k) / 12 ∧ y + (m - 1 - k) / 12 ≤ 32767) :
    Gen.year_month_minus_months y m k = Spec.yearMonthPlus y m (-k) ∧ Gen.year_month_minus_months_ub y m k = true := by
  unfold Gen.year_month_minus_months Gen.year_month_minus_months_ub
  have h := year_month_plus_months_eq y m (-k) hm (by omega) (by omega)
  refine ⟨h.1, ?_⟩
  rw [h.2]; simp only [inRangeS32, Bool.and_true, Bool.and_eq_true, decide_eq_true_eq]; omega

/-- `year_month += months`: the value of `*this` afterwards, which is also the value returned -/
theorem year_month_add_assign_months_eq (y m k : Int) (hm : 1 ≤ m ∧ m ≤ 12) (hk : -2147483648 ≤ k ∧ k ≤ 2147483647) (hy : -32768 ≤ y + (m - 1 + k) / 12 ∧ y + (m - 1 + k) / 12 ≤ 32767) :
    Gen.year_month_add_assign_months y m k = Spec.yearMonthPlus y m k ∧ Gen.year_month_add_assign_months_ub y m k = true := by
  unfold Gen.year_month_add_assign_months Gen.year_month_add_assign_months_ub Gen.year_month_add_assign_months_self_1
  exact year_month_plus_months_eq y m k hm hk hy

theorem year_month_sub_assign_months_eq (y m k : Int) (hm : 1 ≤ m ∧ m ≤ 12) (hk : -2147483647 ≤ k ∧ k ≤ 2147483647) (hy : -32768 ≤ y + (m - 1 - k) / 12 ∧ y + (m - 1 - k) / 12 ≤ 32767) :
    Gen.year_month_sub_assign_months y m k = Spec.yearMonthPlus y m (-k) ∧ Gen.year_month_sub_assign_months_ub y m k = true := by
  unfold Gen.year_month_sub_assign_months Gen.year_month_sub_assign_months_ub Gen.year_month_sub_assign_months_self_1
  exact year_month_minus_months_eq y m k hm hk hy

/-- `year_month + years`: only the year changes -/
theorem year_month_plus_years_eq (y m k : Int) (hy : -32768 ≤ y + k ∧ y + k ≤ 32767) :
    Gen.year_month_plus_years y m k = Spec.yearMonthPlusYears y m k ∧ Gen.year_month_plus_years_ub y m k = true := by
  unfold Gen.year_month_plus_years Gen.year_month_plus_years_ub Spec.yearMonthPlusYears
  rw [year_plus_eq y k hy, year_plus_no_ub y k (by omega)]
  exact ⟨rfl, rfl⟩

theorem years_plus_year_month_eq (y m k : Int) (hy : -32768 ≤ y + k ∧ y + k ≤ 32767) :
    Gen.years_plus_year_month k y m = Spec.yearMonthPlusYears y m k ∧ Gen.years_plus_year_month_ub k y m = true := by
  unfold Gen.years_plus_year_month Gen.years_plus_year_month_ub Spec.yearMonthPlusYears
  rw [year_plus_eq y k hy, year_plus_no_ub y k (by omega)]
  exact ⟨rfl, rfl⟩

/-- `year_month - years` goes through `year - years` (= `year + (-years)`) -/
theorem year_month_minus_years_eq (y m k : Int) (hk : -2147483647 ≤ k ∧ k ≤ 2147483647) (hy : -32768 ≤ y - k ∧ y - k ≤ 32767) :
    Gen.year_month_minus_years y m k = Spec.yearMonthPlusYears y m (-k) ∧ Gen.year_month_minus_years_ub y m k = true := by
  unfold Gen.year_month_minus_years Gen.year_month_minus_years_ub Spec.yearMonthPlusYears
  have h := year_minus_eq y k hk hy
  rw [h.1, h.2]
  exact ⟨by rw [Int.sub_eq_add_neg], rfl⟩

theorem year_month_add_assign_years_eq (y m k : Int) (hy : -32768 ≤ y + k ∧ y + k ≤ 32767) :
    Gen.year_month_add_assign_years y m k = Spec.yearMonthPlusYears y m k ∧ Gen.year_month_add_assign_years_ub y m k = true := by
  unfold Gen.year_month_add_assign_years Gen.year_month_add_assign_years_ub Gen.year_month_add_assign_years_self_1
  exact year_month_plus_years_eq y m k hy

theorem year_month_sub_assign_years_eq (y m k : Int) (hk : -2147483647 ≤ k ∧ k ≤ 2147483647) (hy : -32768 ≤ y - k ∧ y - k ≤ 32767) :
    Gen.year_month_sub_assign_years y m k = Spec.yearMonthPlusYears y m (-k) ∧ Gen.year_month_sub_assign_years_ub y m k = true := by
  unfold Gen.year_month_sub_assign_years Gen.year_month_sub_assign_years_ub Gen.year_month_sub_assign_years_self_1
  exact year_month_minus_years_eq y m k hk hy

example : Gen.months_plus_year_month 1 2020 12 = (2021, 1) ∧ Gen.year_month_sub_assign_months 2020 1 13 = (2018, 12) ∧
    Gen.year_month_minus_years (-32000) 7 767 = (-32767, 7) := by decide

/-! ## `year_month_day` ± months / years -/

/-- `year_month_day + months`: (year, month) + months with the carry, the day is kept -/
theorem ymd_plus_months_eq (y m d k : Int) (hm : 1 ≤ m ∧ m ≤ 12) (hk : -2147483648 ≤ k ∧ k ≤ 2147483647) (hy : -32768 ≤ y + (m - 1 + k) / 12 ∧ y + (m - 1 + k) / 12 ≤ 32767) :
    Gen.ymd_plus_months y m d k = Spec.datePlusMonths y m d k ∧ Gen.ymd_plus_months_ub y m d k = true := by
  unfold Gen.ymd_plus_months Gen.ymd_plus_months_ub Gen.ymd_plus_months_ym Spec.datePlusMonths
  rw [year_month_plus_eq y m k hm hk hy, year_month_plus_no_ub y m k hm hk (by omega)]
  exact ⟨rfl, rfl⟩

theorem months_plus_ymd_eq (y m d k : Int) (hm : 1 ≤ m ∧ m ≤ 12) (hk : -2147483648 ≤ k ∧ k ≤ 2147483647) (hy : -32768 ≤ y + (m - 1 + k) / 12 ∧ y + (m - 1 + k) / 12 ≤ 32767) :
    Gen.months_plus_ymd k y m d = Spec.datePlusMonths y m d k ∧ Gen.months_plus_ymd_ub k y m d = true := by
  unfold Gen.months_plus_ymd Gen.months_plus_ymd_ub
  exact ymd_plus_months_eq y m d k hm hk hy

/-- `year_month_day - months` is `+ (-months)`: the negation is the only extra obligation (`k ≠ INT32_MIN`, as in libstdc++) -/
theorem ymd_minus_months_eq (y m d k : Int) (hm : 1 ≤ m ∧ m ≤ 12) (hk : -2147483647 ≤ k ∧ k ≤ 2147483647) (hy : -32768 ≤ y + (m - 1 - k) / 12 ∧ y + (m - 1 - k) / 12 ≤ 32767) :
    Gen.ymd_minus_months y m d k = Spec.datePlusMonths y m d (-k) ∧ Gen.ymd_minus_months_ub y m d k = true := by
  unfold Gen.ymd_minus_months Gen.ymd_minus_months_ub
  have h := ymd_plus_months_eq y m d (-k) hm (by omega) (by omega)
  refine ⟨h.1, ?_⟩
  rw [h.2]; simp only [inRangeS32, Bool.and_true, Bool.and_eq_true, decide_eq_true_eq]; omega

/-- `year_month_day += months`: the value of `*this` afterwards, which is also the value returned -/
theorem ymd_add_assign_months_eq (y m d k : Int) (hm : 1 ≤ m ∧ m ≤ 12) (hk : -2147483648 ≤ k ∧ k ≤ 2147483647) (hy : -32768 ≤ y + (m - 1 + k) / 12 ∧ y + (m - 1 + k) / 12 ≤ 32767) :
    Gen.ymd_add_assign_months y m d k = Spec.datePlusMonths y m d k ∧ Gen.ymd_add_assign_months_ub y m d k = true := by
  unfold Gen.ymd_add_assign_months Gen.ymd_add_assign_months_ub Gen.ymd_add_assign_months_self_1
  exact ymd_plus_months_eq y m d k hm hk hy

theorem ymd_sub_assign_months_eq (y m d k : Int) (hm : 1 ≤ m ∧ m ≤ 12) (hk : -2147483647 ≤ k ∧ k ≤ 2147483647) (hy : -32768 ≤ y + (m - 1 - k) / 12 ∧ y + (m - 1 - k) / 12 ≤ 32767) :
    Gen.ymd_sub_assign_months y m d k = Spec.datePlusMonths y m d (-k) ∧ Gen.ymd_sub_assign_months_ub y m d k = true := by
  unfold Gen.ymd_sub_assign_months Gen.ymd_sub_assign_months_ub Gen.ymd_sub_assign_months_self_1
  exact ymd_minus_months_eq y m d k hm hk hy

/-- `year_month_day + years`: only the year changes -/
theorem ymd_plus_years_eq (y m d k : Int) (hy : -32768 ≤ y + k ∧ y + k ≤ 32767) :
    Gen.ymd_plus_years y m d k = Spec.datePlusYears y m d k ∧ Gen.ymd_plus_years_ub y m d k = true := by
  unfold Gen.ymd_plus_years Gen.ymd_plus_years_ub Spec.datePlusYears
  rw [year_plus_eq y k hy, year_plus_no_ub y k (by omega)]
  exact ⟨rfl, rfl⟩

theorem years_plus_ymd_eq (y m d k : Int) (hy : -32768 ≤ y + k ∧ y + k ≤ 32767) :
    Gen.years_plus_ymd k y m d = Spec.datePlusYears y m d k ∧ Gen.years_plus_ymd_ub k y m d = true := by
  unfold Gen.years_plus_ymd Gen.years_plus_ymd_ub
  exact ymd_plus_years_eq y m d k hy

theorem ymd_minus_years_eq (y m d k : Int) (hk : -2147483647 ≤ k ∧ k ≤ 2147483647) (hy : -32768 ≤ y - k ∧ y - k ≤ 32767) :
    Gen.ymd_minus_years y m d k = Spec.datePlusYears y m d (-k) ∧ Gen.ymd_minus_years_ub y m d k = true := by
  unfold Gen.ymd_minus_years Gen.ymd_minus_years_ub
  have h := ymd_plus_years_eq y m d (-k) (by omega)
  refine ⟨h.1, ?_⟩
  rw [h.2]; simp only [inRangeS32, Bool.and_true, Bool.and_eq_true, decide_eq_true_eq]; omega

theorem ymd_add_assign_years_eq (y m d k : Int) (hy : -32768 ≤ y + k ∧ y + k ≤ 32767) :
    Gen.ymd_add_assign_years y m d k = Spec.datePlusYears y m d k ∧ Gen.ymd_add_assign_years_ub y m d k = true := by
  unfold Gen.ymd_add_assign_years Gen.ymd_add_assign_years_ub Gen.ymd_add_assign_years_self_1
  exact ymd_plus_years_eq y m d k hy

theorem ymd_sub_assign_years_eq (y m d k : Int) (hk : -2147483647 ≤ k ∧ k ≤ 2147483647) (hy : -32768 ≤ y - k ∧ y - k ≤ 32767) :
    Gen.ymd_sub_assign_years y m d k = Spec.datePlusYears y m d (-k) ∧ Gen.ymd_sub_assign_years_ub y m d k = true := by
  unfold Gen.ymd_sub_assign_years Gen.ymd_sub_assign_years_ub Gen.ymd_sub_assign_years_self_1
  exact ymd_minus_years_eq y m d k hk hy

example : Gen.ymd_plus_months 2020 12 29 1 = (2021, 1, 29) ∧ Gen.ymd_sub_assign_months 2020 1 43 13 = (2018, 12, 43) ∧
    Gen.ymd_minus_years (-32000) 7 5 767 = (-32767, 7, 5) := by decide

/-! ## `year_month_day_last` ± months / years -/

/-- `year_month_day_last + months`: (year, month) + months with the carry, the month_day_last is rebuilt from the new month -/
theorem ymdl_plus_months_eq (y m k : Int) (hm : 1 ≤ m ∧ m ≤ 12) (hk : -2147483648 ≤ k ∧ k ≤ 2147483647) (hy : -32768 ≤ y + (m - 1 + k) / 12 ∧ y + (m - 1 + k) / 12 ≤ 32767) :
    Gen.ymdl_plus_months y m k = Spec.yearMonthPlus y m k ∧ Gen.ymdl_plus_months_ub y m k = true := by
  unfold Gen.ymdl_plus_months Gen.ymdl_plus_months_ub Gen.ymdl_plus_months_ym
  rw [year_month_plus_eq y m k hm hk hy, year_month_plus_no_ub y m k hm hk (by omega)]
  exact ⟨rfl, rfl⟩

theorem months_plus_ymdl_eq (y m k : Int) (hm : 1 ≤ m ∧ m ≤ 12) (hk : -2147483648 ≤ k ∧ k ≤ 2147483647) (hy : -32768 ≤ y + (m - 1 + k) / 12 ∧ y + (m - 1 + k) / 12 ≤ 32767) :
    Gen.months_plus_ymdl k y m = Spec.yearMonthPlus y m k ∧ Gen.months_plus_ymdl_ub k y m = true := by
  unfold Gen.months_plus_ymdl Gen.months_plus_ymdl_ub
  exact ymdl_plus_months_eq y m k hm hk hy

/-- `year_month_day_last - months` is `+ (-months)`: the negation is the only extra obligation (`k ≠ INT32_MIN`, as in libstdc++) -/
theorem ymdl_minus_months_eq (y m k : Int) (hm : 1 ≤ m ∧ m ≤ 12) (hk : -2147483647 ≤ k ∧ k ≤ 2147483647) (hy : -32768 ≤ y + (m - 1 - k) / 12 ∧ y + (m - 1 - k) / 12 ≤ 32767) :
    Gen.ymdl_minus_months y m k = Spec.yearMonthPlus y m (-k) ∧ Gen.ymdl_minus_months_ub y m k = true := by
  unfold Gen.ymdl_minus_months Gen.ymdl_minus_months_ub
  have h := ymdl_plus_months_eq y m (-k) hm (by omega) (by omega)
  refine ⟨h.1, ?_⟩
  rw [h.2]; simp only [inRangeS32, Bool.and_true, Bool.and_eq_true, decide_eq_true_eq]; omega

/-- `year_month_day_last += months`: the value of `*this` afterwards, which is also the value returned -/
theorem ymdl_add_assign_months_eq (y m k : Int) (hm : 1 ≤ m ∧ m ≤ 12) (hk : -2147483648 ≤ k ∧ k ≤ 2147483647) (hy : -32768 ≤ y + (m - 1 + k) / 12 ∧ y + (m - 1 + k) / 12 ≤ 32767) :
    Gen.ymdl_add_assign_months y m k = Spec.yearMonthPlus y m k ∧ Gen.ymdl_add_assign_months_ub y m k = true := by
  unfold Gen.ymdl_add_assign_months Gen.ymdl_add_assign_months_ub Gen.ymdl_add_assign_months_self_1
  exact ymdl_plus_months_eq y m k hm hk hy

theorem ymdl_sub_assign_months_eq (y m k : Int) (hm : 1 ≤ m ∧ m ≤ 12) (hk : -2147483647 ≤ k ∧ k ≤ 2147483647) (hy : -32768 ≤ y + (m - 1 - k) / 12 ∧ y + (m - 1 - k) / 12 ≤ 32767) :
    Gen.ymdl_sub_assign_months y m k = Spec.yearMonthPlus y m (-k) ∧ Gen.ymdl_sub_assign_months_ub y m k = true := by
  unfold Gen.ymdl_sub_assign_months Gen.ymdl_sub_assign_months_ub Gen.ymdl_sub_assign_months_self_1
  exact ymdl_minus_months_eq y m k hm hk hy

/-- `year_month_day_last + years`: only the year changes -/
theorem ymdl_plus_years_eq (y m k : Int) (hy : -32768 ≤ y + k ∧ y + k ≤ 32767) :
    Gen.ymdl_plus_years y m k = Spec.yearMonthPlusYears y m k ∧ Gen.ymdl_plus_years_ub y m k = true := by
  unfold Gen.ymdl_plus_years Gen.ymdl_plus_years_ub Spec.yearMonthPlusYears
  rw [year_plus_eq y k hy, year_plus_no_ub y k (by omega)]
  exact ⟨rfl, rfl⟩

theorem years_plus_ymdl_eq (y m k : Int) (hy : -32768 ≤ y + k ∧ y + k ≤ 32767) :
    Gen.years_plus_ymdl k y m = Spec.yearMonthPlusYears y m k ∧ Gen.years_plus_ymdl_ub k y m = true := by
  unfold Gen.years_plus_ymdl Gen.years_plus_ymdl_ub
  exact ymdl_plus_years_eq y m k hy

theorem ymdl_minus_years_eq (y m k : Int) (hk : -2147483647 ≤ k ∧ k ≤ 2147483647) (hy : -32768 ≤ y - k ∧ y - k ≤ 32767) :
    Gen.ymdl_minus_years y m k = Spec.yearMonthPlusYears y m (-k) ∧ Gen.ymdl_minus_years_ub y m k = true := by
  unfold Gen.ymdl_minus_years Gen.ymdl_minus_years_ub
  have h := ymdl_plus_years_eq y m (-k) (by omega)
  refine ⟨h.1, ?_⟩
  rw [h.2]; simp only [inRangeS32, Bool.and_true, Bool.and_eq_true, decide_eq_true_eq]; omega

theorem ymdl_add_assign_years_eq (y m k : Int) (hy : -32768 ≤ y + k ∧ y + k ≤ 32767) :
    Gen.ymdl_add_assign_years y m k = Spec.yearMonthPlusYears y m k ∧ Gen.ymdl_add_assign_years_ub y m k = true := by
  unfold Gen.ymdl_add_assign_years Gen.ymdl_add_assign_years_ub Gen.ymdl_add_assign_years_self_1
  exact ymdl_plus_years_eq y m k hy

theorem ymdl_sub_assign_years_eq (y m k : Int) (hk : -2147483647 ≤ k ∧ k ≤ 2147483647) (hy : -32768 ≤ y - k ∧ y - k ≤ 32767) :
    Gen.ymdl_sub_assign_years y m k = Spec.yearMonthPlusYears y m (-k) ∧ Gen.ymdl_sub_assign_years_ub y m k = true := by
  unfold Gen.ymdl_sub_assign_years Gen.ymdl_sub_assign_years_ub Gen.ymdl_sub_assign_years_self_1
  exact ymdl_minus_years_eq y m k hk hy

example : Gen.ymdl_plus_months 2020 12 1 = (2021, 1) ∧ Gen.ymdl_sub_assign_months 2020 1 13 = (2018, 12) ∧
    Gen.ymdl_minus_years (-32000) 7 767 = (-32767, 7) := by decide

/-! ## `year_month_weekday` ± months / years -/

/-- `year_month_weekday + months`: (year, month) + months with the carry, the weekday_indexed is kept -/
theorem ymw_plus_months_eq (y m f k : Int) (hm : 1 ≤ m ∧ m ≤ 12) (hk : -2147483648 ≤ k ∧ k ≤ 2147483647) (hy : -32768 ≤ y + (m - 1 + k) / 12 ∧ y + (m - 1 + k) / 12 ≤ 32767) :
    Gen.ymw_plus_months y m f k = Spec.datePlusMonths y m f k ∧ Gen.ymw_plus_months_ub y m f k = true := by
  unfold Gen.ymw_plus_months Gen.ymw_plus_months_ub Gen.ymw_plus_months_ym Spec.datePlusMonths
  rw [year_month_plus_eq y m k hm hk hy, year_month_plus_no_ub y m k hm hk (by omega)]
  exact ⟨rfl, rfl⟩

theorem months_plus_ymw_eq (y m f k : Int) (hm : 1 ≤ m ∧ m ≤ 12) (hk : -2147483648 ≤ k ∧ k ≤ 2147483647) (hy : -32768 ≤ y + (m - 1 + k) / 12 ∧ y + (m - 1 + k) / 12 ≤ 32767) :
    Gen.months_plus_ymw k y m f = Spec.datePlusMonths y m f k ∧ Gen.months_plus_ymw_ub k y m f = true := by
  unfold Gen.months_plus_ymw Gen.months_plus_ymw_ub
  exact ymw_plus_months_eq y m f k hm hk hy

/-- `year_month_weekday - months` is `+ (-months)`: the negation is the only extra obligation (`k ≠ INT32_MIN`, as in libstdc++) -/
theorem ymw_minus_months_eq (y m f k : Int) (hm : 1 ≤ m ∧ m ≤ 12) (hk : -2147483647 ≤ k ∧ k ≤ 2147483647) (hy : -32768 ≤ y + (m - 1 - k) / 12 ∧ y + (m - 1 - k) / 12 ≤ 32767) :
    Gen.ymw_minus_months y m f k = Spec.datePlusMonths y m f (-k) ∧ Gen.ymw_minus_months_ub y m f k = true := by
  unfold Gen.ymw_minus_months Gen.ymw_minus_months_ub
  have h := ymw_plus_months_eq y m f (-k) hm (by omega) (by omega)
  refine ⟨h.1, ?_⟩
  rw [h.2]; simp only [inRangeS32, Bool.and_true, Bool.and_eq_true, decide_eq_true_eq]; omega

/-- `year_month_weekday += months`: the value of `*this` afterwards, which is also the value returned -/
theorem ymw_add_assign_months_eq (y m f k : Int) (hm : 1 ≤ m ∧ m ≤ 12) (hk : -2147483648 ≤ k ∧ k ≤ 2147483647) (hy : -32768 ≤ y + (m - 1 + k) / 12 ∧ y + (m - 1 + k) / 12 ≤ 32767) :
    Gen.ymw_add_assign_months y m f k = Spec.datePlusMonths y m f k ∧ Gen.ymw_add_assign_months_ub y m f k = true := by
  unfold Gen.ymw_add_assign_months Gen.ymw_add_assign_months_ub Gen.ymw_add_assign_months_self_1
  exact ymw_plus_months_eq y m f k hm hk hy

theorem ymw_sub_assign_months_eq (y m f k : Int) (hm : 1 ≤ m ∧ m ≤ 12) (hk : -2147483647 ≤ k ∧ k ≤ 2147483647) (hy : -32768 ≤ y + (m - 1 - k) / 12 ∧ y + (m - 1 - k) / 12 ≤ 32767) :
    Gen.ymw_sub_assign_months y m f k = Spec.datePlusMonths y m f (-k) ∧ Gen.ymw_sub_assign_months_ub y m f k = true := by
  unfold Gen.ymw_sub_assign_months Gen.ymw_sub_assign_months_ub Gen.ymw_sub_assign_months_self_1
  exact ymw_minus_months_eq y m f k hm hk hy

/-- `year_month_weekday + years`: only the year changes -/
theorem ymw_plus_years_eq (y m f k : Int) (hy : -32768 ≤ y + k ∧ y + k ≤ 32767) :
    Gen.ymw_plus_years y m f k = Spec.datePlusYears y m f k ∧ Gen.ymw_plus_years_ub y m f k = true := by
  unfold Gen.ymw_plus_years Gen.ymw_plus_years_ub Spec.datePlusYears
  rw [year_plus_eq y k hy, year_plus_no_ub y k (by omega)]
  exact ⟨rfl, rfl⟩

theorem years_plus_ymw_eq (y m f k : Int) (hy : -32768 ≤ y + k ∧ y + k ≤ 32767) :
    Gen.years_plus_ymw k y m f = Spec.datePlusYears y m f k ∧ Gen.years_plus_ymw_ub k y m f = true := by
  unfold Gen.years_plus_ymw Gen.years_plus_ymw_ub
  exact ymw_plus_years_eq y m f k hy

theorem ymw_minus_years_eq (y m f k : Int) (hk : -2147483647 ≤ k ∧ k ≤ 2147483647) (hy : -32768 ≤ y - k ∧ y - k ≤ 32767) :
    Gen.ymw_minus_years y m f k = Spec.datePlusYears y m f (-k) ∧ Gen.ymw_minus_years_ub y m f k = true := by
  unfold Gen.ymw_minus_years Gen.ymw_minus_years_ub
  have h := ymw_plus_years_eq y m f (-k) (by omega)
  refine ⟨h.1, ?_⟩
  rw [h.2]; simp only [inRangeS32, Bool.and_true, Bool.and_eq_true, decide_eq_true_eq]; omega

theorem ymw_add_assign_years_eq (y m f k : Int) (hy : -32768 ≤ y + k ∧ y + k ≤ 32767) :
    Gen.ymw_add_assign_years y m f k = Spec.datePlusYears y m f k ∧ Gen.ymw_add_assign_years_ub y m f k = true := by
  unfold Gen.ymw_add_assign_years Gen.ymw_add_assign_years_ub Gen.ymw_add_assign_years_self_1
  exact ymw_plus_years_eq y m f k hy

theorem ymw_sub_assign_years_eq (y m f k : Int) (hk : -2147483647 ≤ k ∧ k ≤ 2147483647) (hy : -32768 ≤ y - k ∧ y - k ≤ 32767) :
    Gen.ymw_sub_assign_years y m f k = Spec.datePlusYears y m f (-k) ∧ Gen.ymw_sub_assign_years_ub y m f k = true := by
  unfold Gen.ymw_sub_assign_years Gen.ymw_sub_assign_years_ub Gen.ymw_sub_assign_years_self_1
  exact ymw_minus_years_eq y m f k hk hy

example : Gen.ymw_plus_months 2020 12 29 1 = (2021, 1, 29) ∧ Gen.ymw_sub_assign_months 2020 1 43 13 = (2018, 12, 43) ∧
    Gen.ymw_minus_years (-32000) 7 5 767 = (-32767, 7, 5) := by decide

/-! ## `year_month_weekday_last` ± months / years -/

/-- `year_month_weekday_last + months`: (year, month) + months with the carry, the weekday_last is kept -/
theorem ymwl_plus_months_eq (y m f k : Int) (hm : 1 ≤ m ∧ m ≤ 12) (hk : -2147483648 ≤ k ∧ k ≤ 2147483647) (hy : -32768 ≤ y + (m - 1 + k) / 12 ∧ y + (m - 1 + k) / 12 ≤ 32767) :
    Gen.ymwl_plus_months y m f k = Spec.datePlusMonths y m f k ∧ Gen.ymwl_plus_months_ub y m f k = true := by
  unfold Gen.ymwl_plus_months Gen.ymwl_plus_months_ub Gen.ymwl_plus_months_ym Spec.datePlusMonths
  rw [year_month_plus_eq y m k hm hk hy, year_month_plus_no_ub y m k hm hk (by omega)]
  exact ⟨rfl, rfl⟩

theorem months_plus_ymwl_eq (y m f k : Int) (hm : 1 ≤ m ∧ m ≤ 12) (hk : -2147483648 ≤ k ∧ k ≤ 2147483647) (hy : -32768 ≤ y + (m - 1 + k) / 12 ∧ y + (m - 1 + k) / 12 ≤ 32767) :
    Gen.months_plus_ymwl k y m f = Spec.datePlusMonths y m f k ∧ Gen.months_plus_ymwl_ub k y m f = true := by
  unfold Gen.months_plus_ymwl Gen.months_plus_ymwl_ub
  exact ymwl_plus_months_eq y m f k hm hk hy

/-- `year_month_weekday_last - months` is `+ (-months)`: the negation is the only extra obligation (`k ≠ INT32_MIN`, as in libstdc++) -/
theorem ymwl_minus_months_eq (y m f k : Int) (hm : 1 ≤ m ∧ m ≤ 12) (hk : -2147483647 ≤ k ∧ k ≤ 2147483647) (hy : -32768 ≤ y + (m - 1 - k) / 12 ∧ y + (m - 1 - k) / 12 ≤ 32767) :
    Gen.ymwl_minus_months y m f k = Spec.datePlusMonths y m f (-k) ∧ Gen.ymwl_minus_months_ub y m f k = true := by
  unfold Gen.ymwl_minus_months Gen.ymwl_minus_months_ub
  have h := ymwl_plus_months_eq y m f (-k) hm (by omega) (by omega)
  refine ⟨h.1, ?_⟩
  rw [h.2]; simp only [inRangeS32, Bool.and_true, Bool.and_eq_true, decide_eq_true_eq]; omega

/-- `year_month_weekday_last += months`: the value of `*this` afterwards, which is also the value returned -/
theorem ymwl_add_assign_months_eq (y m f k : Int) (hm : 1 ≤ m ∧ m ≤ 12) (hk : -2147483648 ≤ k ∧ k ≤ 2147483647) (hy : -32768 ≤ y + (m - 1 + k) / 12 ∧ y + (m - 1 + k) / 12 ≤ 32767) :
    Gen.ymwl_add_assign_months y m f k = Spec.datePlusMonths y m f k ∧ Gen.ymwl_add_assign_months_ub y m f k = true := by
  unfold Gen.ymwl_add_assign_months Gen.ymwl_add_assign_months_ub Gen.ymwl_add_assign_months_self_1
  exact ymwl_plus_months_eq y m f k hm hk hy

theorem ymwl_sub_assign_months_eq (y m f k : Int) (hm : 1 ≤ m ∧ m ≤ 12) (hk : -2147483647 ≤ k ∧ k ≤ 2147483647) (hy : -32768 ≤ y + (m - 1 - k) / 12 ∧ y + (m - 1 - k) / 12 ≤ 32767) :
    Gen.ymwl_sub_assign_months y m f k = Spec.datePlusMonths y m f (-k) ∧ Gen.ymwl_sub_assign_months_ub y m f k = true := by
  unfold Gen.ymwl_sub_assign_months Gen.ymwl_sub_assign_months_ub Gen.ymwl_sub_assign_months_self_1
  exact ymwl_minus_months_eq y m f k hm hk hy

/-- `year_month_weekday_last + years`: only the year changes -/
theorem ymwl_plus_years_eq (y m f k : Int) (hy : -32768 ≤ y + k ∧ y + k ≤ 32767) :
    Gen.ymwl_plus_years y m f k = Spec.datePlusYears y m f k ∧ Gen.ymwl_plus_years_ub y m f k = true := by
  unfold Gen.ymwl_plus_years Gen.ymwl_plus_years_ub Spec.datePlusYears
  rw [year_plus_eq y k hy, year_plus_no_ub y k (by omega)]
  exact ⟨rfl, rfl⟩

theorem years_plus_ymwl_eq (y m f k : Int) (hy : -32768 ≤ y + k ∧ y + k ≤ 32767) :
    Gen.years_plus_ymwl k y m f = Spec.datePlusYears y m f k ∧ Gen.years_plus_ymwl_ub k y m f = true := by
  unfold Gen.years_plus_ymwl Gen.years_plus_ymwl_ub
  exact ymwl_plus_years_eq y m f k hy

theorem ymwl_minus_years_eq (y m f k : Int) (hk : -2147483647 ≤ k ∧ k ≤ 2147483647) (hy : -32768 ≤ y - k ∧ y - k ≤ 32767) :
    Gen.ymwl_minus_years y m f k = Spec.datePlusYears y m f (-k) ∧ Gen.ymwl_minus_years_ub y m f k = true := by
  unfold Gen.ymwl_minus_years Gen.ymwl_minus_years_ub
  have h := ymwl_plus_years_eq y m f (-k) (by omega)
  refine ⟨h.1, ?_⟩
  rw [h.2]; simp only [inRangeS32, Bool.and_true, Bool.and_eq_true, decide_eq_true_eq]; omega

theorem ymwl_add_assign_years_eq (y m f k : Int) (hy : -32768 ≤ y + k ∧ y + k ≤ 32767) :
    Gen.ymwl_add_assign_years y m f k = Spec.datePlusYears y m f k ∧ Gen.ymwl_add_assign_years_ub y m f k = true := by
  unfold Gen.ymwl_add_assign_years Gen.ymwl_add_assign_years_ub Gen.ymwl_add_assign_years_self_1
  exact ymwl_plus_years_eq y m f k hy

theorem ymwl_sub_assign_years_eq (y m f k : Int) (hk : -2147483647 ≤ k ∧ k ≤ 2147483647) (hy : -32768 ≤ y - k ∧ y - k ≤ 32767) :
    Gen.ymwl_sub_assign_years y m f k = Spec.datePlusYears y m f (-k) ∧ Gen.ymwl_sub_assign_years_ub y m f k = true := by
  unfold Gen.ymwl_sub_assign_years Gen.ymwl_sub_assign_years_ub Gen.ymwl_sub_assign_years_self_1
  exact ymwl_minus_years_eq y m f k hk hy

example : Gen.ymwl_plus_months 2020 12 29 1 = (2021, 1, 29) ∧ Gen.ymwl_sub_assign_months 2020 1 43 13 = (2018, 12, 43) ∧
    Gen.ymwl_minus_years (-32000) 7 5 767 = (-32767, 7, 5) := by decide

end Tetl.C11.Props
