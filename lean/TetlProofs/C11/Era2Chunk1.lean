import TetlProofs.C11.Era2Defs
namespace Tetl.C11.N
/-- kernel evaluation of `tail2Ok` on triples [16384, 32768) (complete sub-domain) -/
theorem chunkB1 : allBits 14 16384 tail2Ok = true := by decide +kernel
end Tetl.C11.N
