import TetlProofs.C11.Era2Chunk0
import TetlProofs.C11.Era2Chunk1
import TetlProofs.C11.Era2Chunk2
import TetlProofs.C11.Era2Chunk3
import TetlProofs.C11.Era2Chunk4
import TetlProofs.C11.Era2Chunk5
import TetlProofs.C11.Era2Chunk6
import TetlProofs.C11.Era2Chunk7
import TetlProofs.C11.Era2Chunk8
import TetlProofs.C11.Era2Chunk9
namespace Tetl.C11.N

theorem tail2_all (k : Nat) : tail2Ok k = true := by
  by_cases hb : 148800 ≤ k
  · unfold tail2Ok; simp [Nat.ble_eq, hb]
  have pick : ∀ (base : Nat), allBits 14 base tail2Ok = true → base ≤ k → k < base + 16384 → tail2Ok k = true := by
    intro base hc h1 h2
    have := allBits_sound 14 base tail2Ok hc (k - base) (by omega)
    rwa [show base + (k - base) = k by omega] at this
  by_cases h0 : k < 16384
  · exact pick 0 chunkB0 (by omega) (by omega)
  by_cases h1 : k < 32768
  · exact pick 16384 chunkB1 (by omega) (by omega)
  by_cases h2 : k < 49152
  · exact pick 32768 chunkB2 (by omega) (by omega)
  by_cases h3 : k < 65536
  · exact pick 49152 chunkB3 (by omega) (by omega)
  by_cases h4 : k < 81920
  · exact pick 65536 chunkB4 (by omega) (by omega)
  by_cases h5 : k < 98304
  · exact pick 81920 chunkB5 (by omega) (by omega)
  by_cases h6 : k < 114688
  · exact pick 98304 chunkB6 (by omega) (by omega)
  by_cases h7 : k < 131072
  · exact pick 114688 chunkB7 (by omega) (by omega)
  by_cases h8 : k < 147456
  · exact pick 131072 chunkB8 (by omega) (by omega)
  · exact pick 147456 chunkB9 (by omega) (by omega)

/-- for every year-of-era, month and existing day: what days_from_civil computes, `civ` maps back -/
theorem tail2_facts (y mm dd : Nat) (hy : y ≤ 399) (hm : 1 ≤ mm ∧ mm ≤ 12) (hd : 1 ≤ dd ∧ dd ≤ 31)
    (hv : dd ≤ monthLen (y + (if mm ≤ 2 then 1 else 0)) mm) :
    1 ≤ (153 * (if mm > 2 then mm - 3 else mm + 9) + 2) / 5 + dd ∧
    y / 100 ≤ y * 365 + y / 4 ∧ dfcDoy mm dd ≤ 400 ∧
    dfcDoe y (dfcDoy mm dd) < 146097 ∧
    civ (dfcDoe y (dfcDoy mm dd)) = (y + (if mm ≤ 2 then 1 else 0), mm, dd) := by
  have ht := tail2_all (y * 372 + (mm - 1) * 31 + (dd - 1))
  unfold tail2Ok at ht
  have e1 : (y * 372 + (mm - 1) * 31 + (dd - 1)) / 372 = y := by omega
  have e2 : (y * 372 + (mm - 1) * 31 + (dd - 1)) % 372 / 31 + 1 = mm := by omega
  have e3 : (y * 372 + (mm - 1) * 31 + (dd - 1)) % 31 + 1 = dd := by omega
  simp only [e1, e2, e3] at ht
  have hnb : Nat.ble 148800 (y * 372 + (mm - 1) * 31 + (dd - 1)) = false := by
    cases hb : Nat.ble 148800 (y * 372 + (mm - 1) * 31 + (dd - 1)) with
    | false => rfl
    | true => have := Nat.le_of_ble_eq_true hb; omega
  have hvb : Nat.ble dd (monthLen (y + if mm ≤ 2 then 1 else 0) mm) = true := Nat.ble_eq_true_of_le hv
  simp only [hnb, hvb, Bool.not_true, Bool.false_or, Bool.and_eq_true, Nat.ble_eq] at ht
  obtain ⟨⟨⟨⟨a1, a2⟩, a3⟩, a4⟩, a5⟩ := ht
  refine ⟨a1, a2, a3, by omega, ?_⟩
  simp only [tripleEq, Bool.and_eq_true] at a5
  obtain ⟨⟨e1, e2⟩, e3⟩ := a5
  exact Prod.ext (Nat.eq_of_beq_eq_true e1) (Prod.ext (Nat.eq_of_beq_eq_true e2) (Nat.eq_of_beq_eq_true e3))

end Tetl.C11.N
