/- C11 — the closed forms agree with *counting* days: whole years (365 + leap day) and whole months. -/
import TetlProofs.C11.Assemble2
namespace Tetl.C11
open Tetl.CSem

theorem leaps_step (y : Int) : Spec.leapsUpTo y - Spec.leapsUpTo (y - 1) = if Spec.isLeap y then 1 else 0 := by
  unfold Spec.leapsUpTo Spec.isLeap
  by_cases h4 : y % 4 = 0 <;> by_cases h100 : y % 100 = 0 <;> by_cases h400 : y % 400 = 0 <;>
    simp [h4, h100, h400] <;> omega

theorem dby_step (y : Int) : Spec.daysBeforeYear (y + 1) = Spec.daysBeforeYear y + 365 + (if Spec.isLeap y then 1 else 0) := by
  unfold Spec.daysBeforeYear
  have := leaps_step y
  have e : y + 1 - 1 = y := by omega
  rw [e]; omega

theorem dbm_succ (y : Int) (m : Nat) (hm : 1 ≤ m) :
    Spec.daysBeforeMonth y (m + 1) = Spec.daysBeforeMonth y m + Spec.monthLength y m := by
  unfold Spec.daysBeforeMonth
  have : m + 1 - 1 = (m - 1) + 1 := by omega
  rw [this, List.range_succ, List.map_append, List.sum_append]
  simp
  congr 2; omega

theorem dbm_12 (y : Int) : Spec.daysBeforeMonth y 12 + 31 = 365 + (if Spec.isLeap y then 1 else 0) := by
  unfold Spec.daysBeforeMonth
  cases h : Spec.isLeap y <;> simp [List.range_succ, Spec.monthLength, h]

/-- counting days: the successor of an existing date has the next day number -/
theorem daysOf_next (t : Spec.Date) (hv : t.Valid = true) : Spec.daysOf (Spec.nextDay t) = Spec.daysOf t + 1 := by
  unfold Spec.Date.Valid at hv
  simp only [Bool.and_eq_true, decide_eq_true_eq] at hv
  obtain ⟨⟨⟨h1, h2⟩, h3⟩, h4⟩ := hv
  unfold Spec.nextDay
  split
  · unfold Spec.daysOf; simp only; push_cast; omega
  · rename_i hd
    have hd' : t.d = Spec.monthLength t.y t.m := by omega
    split
    · unfold Spec.daysOf; simp only
      rw [dbm_succ t.y t.m h1, hd']; push_cast; omega
    · have hm12 : t.m = 12 := by omega
      unfold Spec.daysOf; simp only
      rw [dby_step]
      have h12 := dbm_12 t.y
      have hml : Spec.monthLength t.y 12 = 31 := rfl
      rw [hm12] at hd' ⊢
      rw [hd', hml]
      have hb1 : Spec.daysBeforeMonth (t.y + 1) 1 = 0 := rfl
      rw [hb1]
      cases hl : Spec.isLeap t.y <;> simp only [hl, if_true, if_false, Bool.false_eq_true] at h12 ⊢ <;>
        (push_cast; omega)

theorem civT_valid (z : Int) : (toDate (civT z)).Valid = true := by
  have hlt := doeOf_lt z
  obtain ⟨_, _, _, _, _, _, _, a8, a9, a10, a11, _, _⟩ := N.tail_facts (doeOf z) hlt
  unfold toDate civT Spec.Date.Valid
  simp only [Int.toNat_natCast, Bool.and_eq_true, decide_eq_true_eq]
  unfold N.civ
  simp only [monthLength_eq]
  exact ⟨⟨⟨a8, a9⟩, a10⟩, a11⟩

/-- the date computed for day `z` has counting day number `z` — for every integer `z` -/
theorem daysOf_civT (z : Int) : Spec.daysOf (toDate (civT z)) = z := by
  have h0 : Spec.daysOf (toDate (civT 0)) = 0 := by decide
  have step : ∀ w : Int, Spec.daysOf (toDate (civT (w + 1))) = Spec.daysOf (toDate (civT w)) + 1 := by
    intro w; rw [succ_T, daysOf_next _ (civT_valid w)]
  have pos : ∀ n : Nat, Spec.daysOf (toDate (civT (n : Int))) = (n : Int) := by
    intro n
    induction n with
    | zero => exact h0
    | succ n ih => rw [show ((n + 1 : Nat) : Int) = (n : Int) + 1 by omega, step, ih]
  have neg : ∀ n : Nat, Spec.daysOf (toDate (civT (-(n : Int)))) = -(n : Int) := by
    intro n
    induction n with
    | zero => exact h0
    | succ n ih =>
      have := step (-((n + 1 : Nat) : Int))
      rw [show -((n + 1 : Nat) : Int) + 1 = -(n : Int) by omega, ih] at this
      omega
  by_cases hz : 0 ≤ z
  · have := pos z.toNat; rwa [show ((z.toNat : Nat) : Int) = z by omega] at this
  · have := neg (-z).toNat; rwa [show -(((-z).toNat : Nat) : Int) = z by omega] at this

end Tetl.C11
