import TetlProofs.C11.EraDefs
namespace Tetl.C11.N
/-- kernel evaluation of `tailOk` on days [81920, 98304) of the era (complete sub-domain) -/
theorem chunk5 : allBits 14 81920 tailOk = true := by decide +kernel
end Tetl.C11.N
