/- C11 — assembly: civil_from_days / days_from_civil of the generated model through the era decomposition. -/
import TetlProofs.C11.Civil
namespace Tetl.C11
open Tetl.CSem

/-- era and day-of-era of day number `z` -/
def eraOf (z : Int) : Int := (z + 719468) / 146097
def doeOf (z : Int) : Nat := ((z + 719468) % 146097).toNat

theorem doeOf_lt (z : Int) : doeOf z < 146097 := by unfold doeOf; omega
theorem doeOf_cast (z : Int) : ((doeOf z : Nat) : Int) = (z + 719468) % 146097 := by unfold doeOf; omega
theorem era_doe (z : Int) : z + 719468 = eraOf z * 146097 + (doeOf z : Int) := by
  rw [doeOf_cast]; unfold eraOf; omega

/-- civil date of `z` as (calendar year, month, day) over `Int`, via the Nat formulas -/
def civT (z : Int) : Int × Int × Int :=
  (((N.civ (doeOf z)).1 : Int) + eraOf z * 400, ((N.civ (doeOf z)).2.1 : Int), ((N.civ (doeOf z)).2.2 : Int))

theorem civil_eq (z : Int) :
    Gen.civil_from_days z =
      (Gen.mkYear (civT z).1, Gen.mkMonth (civT z).2.1, Gen.mkDay (civT z).2.2) := by
  have hlt := doeOf_lt z
  obtain ⟨a1, a2, a3, a4, a5, a6, a7, a8, a9, a10, a11, a14, _⟩ := N.tail_facts (doeOf z) hlt
  unfold Gen.civil_from_days
  simp only [Gen.civil_from_days_z_1, cfd_era_eq, cfd_doe_eq, ← doeOf_cast]
  rw [yoe_bridge _ hlt, doy_bridge _ _ hlt a5 a2 a3, mp_bridge _ a6, d_bridge _ _ a6 a7 a4, m_bridge _ a7]
  unfold civT N.civ Gen.civil_from_days_y eraOf
  simp only
  rw [wrapS32_id _ (by omega)]
  congr 2
  by_cases hm : N.m (N.mp (N.doy (doeOf z) (N.yoe (doeOf z)))) ≤ 2
  · have : decide (((N.m (N.mp (N.doy (doeOf z) (N.yoe (doeOf z)))) : Nat) : Int) ≤ 2) = true := by
      simp only [decide_eq_true_eq]; omega
    simp only [this, hm, if_true]
    rw [wrapS32_id 1 (by decide)]; omega
  · have : decide (((N.m (N.mp (N.doy (doeOf z) (N.yoe (doeOf z)))) : Nat) : Int) ≤ 2) = false := by
      simp only [decide_eq_false_iff_not]; omega
    simp only [this, hm, if_false, Bool.false_eq_true]
    rw [wrapS32_id 0 (by decide)]; omega


theorem monthLen_le (cy m : Nat) : N.monthLen cy m ≤ 31 := by
  unfold N.monthLen; split <;> (try split) <;> omega

/-- `days_from_civil` inverts `civil_from_days` on every day number whose result fits the 32-bit `days` type -/
theorem round_trip_T (z : Int) (hz : -2147483648 ≤ z ∧ z ≤ 2147483647) :
    Gen.days_from_civil (civT z).1 (civT z).2.1 (civT z).2.2 = z := by
  have hlt := doeOf_lt z
  obtain ⟨a1, a2, a3, a4, a5, a6, a7, a8, a9, a10, a11, a14, _⟩ := N.tail_facts (doeOf z) hlt
  have hd31 := Nat.le_trans a11 (monthLen_le _ _)
  have hed := era_doe z
  unfold Gen.days_from_civil civT N.civ
  simp only
  generalize hmm : N.m (N.mp (N.doy (doeOf z) (N.yoe (doeOf z)))) = mm at *
  generalize hdd : N.d (N.doy (doeOf z) (N.yoe (doeOf z))) (N.mp (N.doy (doeOf z) (N.yoe (doeOf z)))) = dd at *
  generalize hyy : N.yoe (doeOf z) = yy at *
  have hy1 : Gen.days_from_civil_y_1 (mm : Int) (((yy + if mm ≤ 2 then 1 else 0 : Nat) : Int) + eraOf z * 400)
      = (yy : Int) + eraOf z * 400 := by
    unfold Gen.days_from_civil_y_1
    by_cases hm : mm ≤ 2
    · have : decide ((mm : Int) ≤ 2) = true := by simp only [decide_eq_true_eq]; omega
      simp only [this, hm, if_true]; rw [wrapS32_id 1 (by decide)]; omega
    · have : decide ((mm : Int) ≤ 2) = false := by simp only [decide_eq_false_iff_not]; omega
      simp only [this, hm, if_false, Bool.false_eq_true]; rw [wrapS32_id 0 (by decide)]; omega
  rw [hy1, (dfc_era_yoe yy (eraOf z) a5).1, (dfc_era_yoe yy (eraOf z) a5).2,
    dfc_doy_bridge mm dd ⟨a8, a9⟩ ⟨a10, hd31⟩]
  have hdy : N.dfcDoy mm dd ≤ 400 := by
    unfold N.dfcDoy; split <;> omega
  rw [dfc_doe_bridge _ _ a5 hdy, a14]
  rw [wrapS32_id _ (by omega), mkDur_id _ (by omega)]
  omega


/-! ### the calendar year is monotone inside an era; year range on the supported day range -/

theorem cy_le_400 (doe : Nat) (h : doe < 146097) : (N.civ doe).1 ≤ 400 := by
  obtain ⟨_, _, _, _, a5, _⟩ := N.tail_facts doe h
  unfold N.civ; simp only; split <;> omega

theorem cy_mono_step (doe : Nat) (h : doe < 146096) : (N.civ doe).1 ≤ (N.civ (doe + 1)).1 := by
  have := (N.tail_facts doe (by omega)).2.2.2.2.2.2.2.2.2.2.2.2 h
  rw [this]; unfold N.next; split
  · exact Nat.le_refl _
  · split
    · exact Nat.le_refl _
    · exact Nat.le_succ _

theorem cy_mono (a k : Nat) (hb : a + k < 146097) : (N.civ a).1 ≤ (N.civ (a + k)).1 := by
  induction k with
  | zero => exact Nat.le_refl _
  | succ k ih =>
    exact Nat.le_trans (ih (by omega)) (by rw [← Nat.add_assoc]; exact cy_mono_step (a + k) (by omega))

/-- day numbers of -32767-01-01 and 32767-12-31 -/
def LO : Int := -12687428
def HI : Int := 11248737

theorem year_range (z : Int) (hz : LO ≤ z ∧ z ≤ HI) : -32767 ≤ (civT z).1 ∧ (civT z).1 ≤ 32767 := by
  unfold LO HI at hz
  have hlt := doeOf_lt z
  have hed := era_doe z
  have h400 := cy_le_400 (doeOf z) hlt
  have he : -82 ≤ eraOf z ∧ eraOf z ≤ 81 := by unfold eraOf; omega
  unfold civT; simp only
  by_cases h1 : eraOf z = -82
  · have hd : 11994 ≤ doeOf z := by omega
    have hm := cy_mono 11994 (doeOf z - 11994) (by omega)
    rw [show 11994 + (doeOf z - 11994) = doeOf z by omega] at hm
    have h33 : (N.civ 11994).1 = 33 := by decide
    omega
  · by_cases h2 : eraOf z = 81
    · have hd : doeOf z ≤ 134348 := by omega
      have hm := cy_mono (doeOf z) (134348 - doeOf z) (by omega)
      rw [show doeOf z + (134348 - doeOf z) = 134348 by omega] at hm
      have h367 : (N.civ 134348).1 = 367 := by decide
      omega
    · omega

/-! ### successor -/

def toDate (t : Int × Int × Int) : Spec.Date := ⟨t.1, t.2.1.toNat, t.2.2.toNat⟩

theorem leap_eq (cy : Nat) (e : Int) : Spec.isLeap ((cy : Int) + e * 400) = N.leap cy := by
  unfold Spec.isLeap N.leap
  rw [Bool.eq_iff_iff]
  simp only [Bool.or_eq_true, Bool.and_eq_true, beq_iff_eq, bne_iff_ne, ne_eq]
  omega

theorem monthLength_eq (cy : Nat) (e : Int) (m : Nat) :
    Spec.monthLength ((cy : Int) + e * 400) m = N.monthLen cy m := by
  unfold Spec.monthLength N.monthLen
  split <;> simp only [leap_eq]

theorem succ_T (z : Int) :
    toDate (civT (z + 1)) = Spec.nextDay (toDate (civT z)) := by
  have hlt := doeOf_lt z
  have hed := era_doe z
  have hed1 := era_doe (z + 1)
  have hlt1 := doeOf_lt (z + 1)
  by_cases hb : doeOf z < 146096
  · -- same era, next day of the era
    have he : eraOf (z + 1) = eraOf z := by unfold eraOf at *; omega
    have hd : doeOf (z + 1) = doeOf z + 1 := by omega
    have hn := (N.tail_facts (doeOf z) hlt).2.2.2.2.2.2.2.2.2.2.2.2 hb
    unfold civT toDate
    simp only [he, hd, hn, Int.toNat_natCast]
    generalize N.civ (doeOf z) = t
    obtain ⟨cy, m, d⟩ := t
    unfold Spec.nextDay N.next
    simp only [monthLength_eq]
    split
    · rfl
    · split
      · rfl
      · simp only [Spec.Date.mk.injEq, and_true]; push_cast; omega
  · -- last day of the era: (400, Feb, 29) -> (0, Mar, 1) of the next era
    have hd0 : doeOf z = 146096 := by omega
    have he : eraOf (z + 1) = eraOf z + 1 := by unfold eraOf at *; omega
    have hd : doeOf (z + 1) = 0 := by omega
    have c1 : N.civ 146096 = (400, 2, 29) := by decide
    have c0 : N.civ 0 = (0, 3, 1) := by decide
    unfold civT toDate
    simp only [he, hd, hd0, c1, c0, Int.toNat_natCast]
    unfold Spec.nextDay
    have hml : Spec.monthLength (((400 : Nat) : Int) + eraOf z * 400) 2 = 29 := by
      rw [monthLength_eq]; decide
    simp only [hml]
    have h1 : ¬ (29 < 29) := by decide
    have h2 : (2 : Nat) < 12 := by decide
    rw [if_neg h1, if_pos h2]
    have c400 : ((400 : Nat) : Int) = 400 := rfl
    have c0' : ((0 : Nat) : Int) = 0 := rfl
    have hy : ((0 : Nat) : Int) + (eraOf z + 1) * 400 = ((400 : Nat) : Int) + eraOf z * 400 := by
      rw [c400, c0']; omega
    rw [hy]

end Tetl.C11
