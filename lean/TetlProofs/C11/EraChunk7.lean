import TetlProofs.C11.EraDefs
namespace Tetl.C11.N
/-- kernel evaluation of `tailOk` on days [114688, 131072) of the era (complete sub-domain) -/
theorem chunk7 : allBits 14 114688 tailOk = true := by decide +kernel
end Tetl.C11.N
