import TetlProofs.C11.EraDefs
namespace Tetl.C11.N
/-- kernel evaluation of `tailOk` on days [65536, 81920) of the era (complete sub-domain) -/
theorem chunk4 : allBits 14 65536 tailOk = true := by decide +kernel
end Tetl.C11.N
