import TetlProofs.C11.Era2Defs
namespace Tetl.C11.N
/-- kernel evaluation of `tail2Ok` on triples [131072, 147456) (complete sub-domain) -/
theorem chunkB8 : allBits 14 131072 tail2Ok = true := by decide +kernel
end Tetl.C11.N
