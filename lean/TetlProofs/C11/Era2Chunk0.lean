import TetlProofs.C11.Era2Defs
namespace Tetl.C11.N
/-- kernel evaluation of `tail2Ok` on triples [0, 16384) (complete sub-domain) -/
theorem chunkB0 : allBits 14 0 tail2Ok = true := by decide +kernel
end Tetl.C11.N
