import TetlProofs.C11.Era2Defs
namespace Tetl.C11.N
/-- kernel evaluation of `tail2Ok` on triples [81920, 98304) (complete sub-domain) -/
theorem chunkB5 : allBits 14 81920 tail2Ok = true := by decide +kernel
end Tetl.C11.N
