/- C11 — civil_from_days inverts days_from_civil on every existing date (second direction of the bijection). -/
import TetlProofs.C11.Assemble
import TetlProofs.C11.Era2
namespace Tetl.C11
open Tetl.CSem

theorem days_eq (y : Int) (mm dd : Nat) (hy : -32768 ≤ y ∧ y ≤ 32767) (hm : 1 ≤ mm ∧ mm ≤ 12) (hd : 1 ≤ dd ∧ dd ≤ 31)
    (hv : dd ≤ Spec.monthLength y mm) :
    let y1 := y - (if mm ≤ 2 then 1 else 0)
    let yoe := (y1 % 400).toNat
    Gen.days_from_civil y (mm : Int) (dd : Int)
      = (y1 / 400) * 146097 + (N.dfcDoe yoe (N.dfcDoy mm dd) : Int) - 719468 ∧
    N.dfcDoe yoe (N.dfcDoy mm dd) < 146097 ∧
    N.civ (N.dfcDoe yoe (N.dfcDoy mm dd)) = (yoe + (if mm ≤ 2 then 1 else 0), mm, dd) := by
  intro y1 yoe
  have hyoe : yoe ≤ 399 := by show (y1 % 400).toNat ≤ 399; omega
  have hy1 : y1 = (yoe : Int) + (y1 / 400) * 400 := by
    show y1 = (((y1 % 400).toNat : Nat) : Int) + (y1 / 400) * 400; omega
  have hyc : y = ((yoe + (if mm ≤ 2 then 1 else 0) : Nat) : Int) + (y1 / 400) * 400 := by
    have : y = y1 + (if mm ≤ 2 then 1 else 0) := by show y = y - (if mm ≤ 2 then 1 else 0) + _; omega
    rw [this, hy1]; split <;> (push_cast; omega)
  have hml : Spec.monthLength y mm = N.monthLen (yoe + (if mm ≤ 2 then 1 else 0)) mm := by
    rw [hyc]; exact monthLength_eq _ _ _
  obtain ⟨b1, b2, b3, b4, b5⟩ := N.tail2_facts yoe mm dd hyoe hm hd (by rw [← hml]; exact hv)
  refine ⟨?_, b4, b5⟩
  unfold Gen.days_from_civil
  simp only
  have hy1' : Gen.days_from_civil_y_1 (mm : Int) y = (yoe : Int) + (y1 / 400) * 400 := by
    unfold Gen.days_from_civil_y_1
    rw [← hy1]
    show _ = y - (if mm ≤ 2 then 1 else 0)
    by_cases h : mm ≤ 2
    · have : decide ((mm : Int) ≤ 2) = true := by simp only [decide_eq_true_eq]; omega
      simp only [this, h, if_true]; rw [wrapS32_id 1 (by decide)]
    · have : decide ((mm : Int) ≤ 2) = false := by simp only [decide_eq_false_iff_not]; omega
      simp only [this, h, if_false, Bool.false_eq_true]; rw [wrapS32_id 0 (by decide)]
  rw [hy1', (dfc_era_yoe yoe _ hyoe).1, (dfc_era_yoe yoe _ hyoe).2, dfc_doy_bridge mm dd hm hd,
    dfc_doe_bridge _ _ hyoe b3]
  have he : -83 ≤ y1 / 400 ∧ y1 / 400 ≤ 82 := by
    have : -32769 ≤ y1 ∧ y1 ≤ 32767 := by
      show -32769 ≤ y - (if mm ≤ 2 then 1 else 0) ∧ y - (if mm ≤ 2 then 1 else 0) ≤ 32767
      split <;> omega
    omega
  rw [wrapS32_id _ (by omega), mkDur_id _ (by omega)]

/-- the era decomposition of `days_from_civil t` is `t` again -/
theorem civT_days (y : Int) (mm dd : Nat) (hy : -32768 ≤ y ∧ y ≤ 32767) (hm : 1 ≤ mm ∧ mm ≤ 12)
    (hd : 1 ≤ dd ∧ dd ≤ 31) (hv : dd ≤ Spec.monthLength y mm) :
    civT (Gen.days_from_civil y (mm : Int) (dd : Int)) = (y, (mm : Int), (dd : Int)) := by
  obtain ⟨e1, e2, e3⟩ := days_eq y mm dd hy hm hd hv
  generalize hy1 : y - (if mm ≤ 2 then 1 else 0) = y1 at *
  generalize hyoe : (y1 % 400).toNat = yoe at *
  generalize hdoe : N.dfcDoe yoe (N.dfcDoy mm dd) = doe at *
  have hyoe' : (yoe : Int) = y1 % 400 := by rw [← hyoe]; omega
  rw [e1]
  have hera : eraOf (y1 / 400 * 146097 + (doe : Int) - 719468) = y1 / 400 := by unfold eraOf; omega
  have hdoe' : doeOf (y1 / 400 * 146097 + (doe : Int) - 719468) = doe := by unfold doeOf; omega
  unfold civT
  simp only [hera, hdoe', e3]
  have hyy : ((yoe + (if mm ≤ 2 then 1 else 0) : Nat) : Int) + y1 / 400 * 400 = y := by
    rw [← hy1] at hyoe' ⊢
    split <;> (push_cast; omega)
  rw [hyy]

/-- `civil_from_days (days_from_civil t) = t` for every existing date with a representable year. -/
theorem round_trip_inv_nat (y : Int) (mm dd : Nat) (hy : -32768 ≤ y ∧ y ≤ 32767) (hm : 1 ≤ mm ∧ mm ≤ 12)
    (hd : 1 ≤ dd ∧ dd ≤ 31) (hv : dd ≤ Spec.monthLength y mm) :
    Gen.civil_from_days (Gen.days_from_civil y (mm : Int) (dd : Int)) = (y, (mm : Int), (dd : Int)) := by
  rw [civil_eq, civT_days y mm dd hy hm hd hv]
  simp only
  unfold Gen.mkYear Gen.mkMonth Gen.mkDay
  rw [wrapS16_id _ (by omega), wrapU8_id _ (by omega), wrapU8_id _ (by omega)]

end Tetl.C11
