import TetlProofs.C11.EraDefs
namespace Tetl.C11.N
/-- kernel evaluation of `tailOk` on days [131072, 147456) of the era (complete sub-domain) -/
theorem chunk8 : allBits 14 131072 tailOk = true := by decide +kernel
end Tetl.C11.N
