import TetlProofs.C11.Era2Defs
namespace Tetl.C11.N
/-- kernel evaluation of `tail2Ok` on triples [147456, 163840) (complete sub-domain) -/
theorem chunkB9 : allBits 14 147456 tail2Ok = true := by decide +kernel
end Tetl.C11.N
