import TetlProofs.C11.EraDefs
namespace Tetl.C11.N
/-- kernel evaluation of `tailOk` on days [32768, 49152) of the era (complete sub-domain) -/
theorem chunk2 : allBits 14 32768 tailOk = true := by decide +kernel
end Tetl.C11.N
