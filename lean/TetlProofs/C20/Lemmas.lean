/- C20 — helper lemmas. -/
import Tetl.C20.Model
import Tetl.C20.Spec
namespace Tetl.C20
open Tetl

end Tetl.C20
