/-
C20 — helper lemmas: the vtable thunks under the consistency invariant, every member of
`inplace_function` as an explicit state update, the refinement relation.
-/
import Tetl.C20.Model
import Tetl.C20.Spec
namespace Tetl.C20
open Tetl

theorem upd_same {β : Type} (f : Addr → β) (a : Addr) (v : β) : upd f a v a = v := by simp [upd]
theorem upd_other {β : Type} (f : Addr → β) {a x : Addr} (h : x ≠ a) (v : β) : upd f a v x = f x := by simp [upd, h]

theorem upd_none_self (m : Addr → Option Fn) (a : Addr) (h : m a = none) : upd m a none = m := by
  funext x; by_cases hx : x = a <;> simp [upd, hx, h]

theorem vDestroy_ok {vt : Option Nat} {m : Addr → Option Fn} {a : Addr} (h : vt = (m a).map (·.ty)) :
    vDestroy vt m a = .ok (upd m a none) := by
  cases hm : m a with
  | none =>
    have hv : vt = none := by simp [h, hm]
    subst hv
    simp [vDestroy, upd_none_self m a hm]
  | some f =>
    have hv : vt = some f.ty := by simp [h, hm]
    subst hv
    simp [vDestroy, destroy, load, hm, bind, Except.bind]

theorem vCopy_ok {vt : Option Nat} {m : Addr → Option Fn} {dst src : Addr} (h : vt = (m src).map (·.ty))
    (hd : m dst = none) : vCopy vt m dst src = .ok (upd m dst (m src)) := by
  cases hm : m src with
  | none =>
    have hv : vt = none := by simp [h, hm]
    subst hv
    simp [vCopy, upd_none_self m dst hd]
  | some f =>
    have hv : vt = some f.ty := by simp [h, hm]
    subst hv
    simp [vCopy, load, hm, construct, hd, bind, Except.bind]

theorem vRelocate_ok {vt : Option Nat} {m : Addr → Option Fn} {dst src : Addr} (h : vt = (m src).map (·.ty))
    (hd : m dst = none) (hne : dst ≠ src) :
    vRelocate vt m dst src = .ok (upd (upd m dst (m src)) src none) := by
  cases hm : m src with
  | none =>
    have hv : vt = none := by simp [h, hm]
    subst hv
    simp [vRelocate, upd_none_self m dst hd, upd_none_self m src hm]
  | some f =>
    have hv : vt = some f.ty := by simp [h, hm]
    subst hv
    have hsrc : upd m dst (some f) src = some f := by rw [upd_other _ (Ne.symm hne)]; exact hm
    simp [vRelocate, load, hm, construct, hd, destroy, hsrc, bind, Except.bind]

/-- vtable and storage agree: the vtable is the empty one iff the storage holds nothing, else it is the
    vtable of the stored closure's type -/
def Con (s : St) : Prop := ∀ a, s.vt a = (s.mem a).map (·.ty)
/-- invariant between operations: consistent, and no temporary is alive -/
def Inv (s : St) : Prop := Con s ∧ s.mem .tmp = none
def abs (s : St) : Spec.ASt := fun k => s.mem (.obj k)

theorem dtor_ok {s : St} {a : Addr} (h : s.vt a = (s.mem a).map (·.ty)) :
    dtor s a = .ok { vt := upd s.vt a none, mem := upd s.mem a none } := by
  simp [dtor, vDestroy_ok h, bind, Except.bind]

theorem ctorFn_ok {s : St} {a : Addr} (f : Fn) (hd : s.mem a = none) :
    ctorFn s a f = .ok { vt := upd s.vt a (some f.ty), mem := upd s.mem a (some f) } := by
  simp [ctorFn, construct, hd, bind, Except.bind]

theorem ctorCopy_ok {s : St} {a o : Addr} (h : s.vt o = (s.mem o).map (·.ty)) (hd : s.mem a = none) :
    ctorCopy s a o = .ok { vt := upd s.vt a (s.vt o), mem := upd s.mem a (s.mem o) } := by
  simp [ctorCopy, vCopy_ok h hd, bind, Except.bind]

theorem ctorConvCopy_ok {s : St} {a o : Addr} (h : s.vt o = (s.mem o).map (·.ty)) (hd : s.mem a = none) :
    ctorConvCopy s a o = .ok { vt := upd s.vt a (s.vt o), mem := upd s.mem a (s.mem o) } := by
  simp [ctorConvCopy, vCopy_ok h hd, bind, Except.bind]

theorem ctorMove_ok {s : St} {a o : Addr} (h : s.vt o = (s.mem o).map (·.ty)) (hd : s.mem a = none) (hne : a ≠ o) :
    ctorMove s a o = .ok { vt := upd (upd s.vt o none) a (s.vt o), mem := upd (upd s.mem a (s.mem o)) o none } := by
  simp [ctorMove, vRelocate_ok h hd hne, bind, Except.bind]

theorem ctorConvMove_ok {s : St} {a o : Addr} (h : s.vt o = (s.mem o).map (·.ty)) (hd : s.mem a = none) (hne : a ≠ o) :
    ctorConvMove s a o = .ok { vt := upd (upd s.vt a (s.vt o)) o none, mem := upd (upd s.mem a (s.mem o)) o none } := by
  simp [ctorConvMove, vRelocate_ok h hd hne, bind, Except.bind]

theorem assignNull_ok {s : St} {a : Addr} (h : s.vt a = (s.mem a).map (·.ty)) :
    assignNull s a = .ok { vt := upd s.vt a none, mem := upd s.mem a none } := by
  simp [assignNull, vDestroy_ok h, bind, Except.bind]

theorem assignBody_ok {s : St} {a : Addr} (ha : s.vt a = (s.mem a).map (·.ty))
    (ht : s.vt .tmp = (s.mem .tmp).map (·.ty)) (hat : a ≠ .tmp) :
    assignBody s a = .ok { vt := upd (upd (upd s.vt .tmp none) a (s.vt .tmp)) .tmp none,
                           mem := upd (upd (upd s.mem a none) a (s.mem .tmp)) .tmp none } := by
  have h1 : (upd s.mem a none) .tmp = s.mem .tmp := upd_other _ (Ne.symm hat) _
  have h2 : s.vt .tmp = ((upd s.mem a none) .tmp).map (·.ty) := by rw [h1]; exact ht
  have h3 : (upd s.mem a none) a = none := upd_same _ _ _
  have h4 : upd (upd s.vt Addr.tmp none) a (s.vt Addr.tmp) Addr.tmp = none := by
    rw [upd_other _ (Ne.symm hat)]; exact upd_same _ _ _
  unfold assignBody
  rw [vDestroy_ok ha]
  simp only [bind, Except.bind]
  rw [vRelocate_ok h2 h3 hat]
  simp only [dtor, h4, vDestroy, bind, Except.bind, h1]

theorem swap_ok {s : St} {a o : Addr} (hc : Con s) (ht : s.mem .tmp = none) (ha : a ≠ .tmp) (ho : o ≠ .tmp) (hne : a ≠ o) :
    swap s a o = .ok { vt := upd (upd s.vt a (s.vt o)) o (s.vt a),
                       mem := upd (upd (upd (upd (upd (upd s.mem .tmp (s.mem a)) a none) a (s.mem o)) o none) o (s.mem a)) .tmp none } := by
  have e1 := vRelocate_ok (vt := s.vt a) (m := s.mem) (dst := .tmp) (src := a) (hc a) ht (Ne.symm ha)
  let m1 := upd (upd s.mem .tmp (s.mem a)) a none
  have m1o : m1 o = s.mem o := by
    show upd (upd s.mem .tmp (s.mem a)) a none o = _
    rw [upd_other _ (Ne.symm hne), upd_other _ ho]
  have m1a : m1 a = none := upd_same _ _ _
  have e2 := vRelocate_ok (vt := s.vt o) (m := m1) (dst := a) (src := o) (by rw [m1o]; exact hc o) m1a hne
  let m2 := upd (upd m1 a (m1 o)) o none
  have m2t : m2 .tmp = s.mem a := by
    show upd (upd m1 a (m1 o)) o none .tmp = _
    rw [upd_other _ (Ne.symm ho), upd_other _ (Ne.symm ha)]
    show upd (upd s.mem .tmp (s.mem a)) a none .tmp = _
    rw [upd_other _ (Ne.symm ha), upd_same]
  have m2o : m2 o = none := upd_same _ _ _
  have e3 := vRelocate_ok (vt := s.vt a) (m := m2) (dst := o) (src := .tmp) (by rw [m2t]; exact hc a) m2o ho
  unfold swap
  rw [if_neg hne]
  simp only [bind, Except.bind]
  rw [e1]
  simp only []
  rw [e2]
  simp only []
  rw [e3]
  simp only [m1, m2] at m2t m1o ⊢
  rw [m2t, m1o]


theorem obj_ne_tmp (k : Nat) : Addr.obj k ≠ Addr.tmp := by intro h; cases h
theorem tmp_ne_obj (k : Nat) : Addr.tmp ≠ Addr.obj k := by intro h; cases h

/-- the model's result is `.ok`, satisfies the invariant, abstracts to the spec's state, and produces the spec's output and log -/
def Refines (r : Except Err (St × Out × Log)) (sp : Spec.ASt × Out × Log) : Prop :=
  match r with
  | .ok (s', o, lg) => Inv s' ∧ abs s' = sp.1 ∧ o = sp.2.1 ∧ lg = sp.2.2
  | .error _ => False

macro "inv_pt" hc:ident i:term "," j:term : tactic =>
  `(tactic| (intro x; have h0 := $hc x; have hi := $hc (.obj $i); have hj := $hc (.obj $j); have htmp := $hc .tmp
             by_cases h1 : x = .obj $i <;> by_cases h2 : x = .obj $j <;> by_cases h3 : x = .tmp <;> simp_all [upd]))

macro "abs_pt" i:term "," j:term : tactic =>
  `(tactic| (funext k; simp only [abs, Spec.set, upd]
             by_cases h1 : k = $i <;> by_cases h2 : k = $j <;> simp_all [Ne.symm]))


theorem refines_ok {r : Except Err (St × Out × Log)} {sp : Spec.ASt × Out × Log} (h : Refines r sp) :
    ∃ s', r = .ok (s', sp.2.1, sp.2.2) ∧ Inv s' ∧ abs s' = sp.1 := by
  cases r with
  | error e => exact absurd h (by simp [Refines])
  | ok v =>
    obtain ⟨s', o, lg⟩ := v
    obtain ⟨h1, h2, h3, h4⟩ := h
    exact ⟨s', by rw [h3, h4], h1, h2⟩

theorem inv_init : Inv St.init := ⟨fun _ => rfl, rfl⟩

/-! ### element reads -/

theorem getFrom_drop (t : List Int) : ∀ (n i : Nat), i + n = t.length → getFrom t n i = .ok (t.drop i)
  | 0, i, h => by
    have : t.drop i = [] := List.drop_eq_nil_of_le (by omega)
    simp [getFrom, this]
  | n + 1, i, h => by
    have hi : i < t.length := by omega
    have ih := getFrom_drop t n (i + 1) (by omega)
    have hd : t.drop i = t[i] :: t.drop (i + 1) := (List.getElem_cons_drop hi).symm
    simp only [getFrom, getAt, rd, List.getElem?_eq_getElem hi, ih, bind, Except.bind, hd]

/-- the index-sequence expansion `get<Is>(t)...` yields all elements in order and never leaves the tuple -/
theorem getAll_ok (t : List Int) : getAll t = .ok t := by
  have := getFrom_drop t t.length 0 (by omega)
  simpa [getAll] using this


section rel
variable {α β : Type}

/-- an order relation that never holds in both directions -/
def Asymm (lt : α → α → Bool) : Prop := ∀ x y, lt x y = true → lt y x = false

/-- a strict total order whose equivalence is `eq` -/
structure StrictTotal (eq lt : α → α → Bool) : Prop where
  irrefl : ∀ x, lt x x = false
  trans : ∀ x y z, lt x y = true → lt y z = true → lt x z = true
  tri : ∀ x y, lt x y = true ∨ eq x y = true ∨ lt y x = true
  eq_iff : ∀ x y, eq x y = true ↔ x = y

theorem StrictTotal.asymm {eq lt : α → α → Bool} (h : StrictTotal eq lt) : Asymm lt := by
  intro x y hxy
  cases hyx : lt y x with
  | false => rfl
  | true => have := h.trans x y x hxy hyx; rw [h.irrefl] at this; cases this

/-- the equality fold of tuple `operator==` never fails on tuples of equal arity and decides element-wise equality -/
theorem eqFold_iff {eq : α → α → Bool} (heq : ∀ x y, eq x y = true ↔ x = y) :
    ∀ (a b : List α), a.length = b.length → ∃ r, eqFold eq a b = .ok r ∧ (r = true ↔ a = b)
  | [], [], _ => ⟨true, rfl, by simp⟩
  | x :: xs, y :: ys, h => by
    obtain ⟨r, hr, ih⟩ := eqFold_iff heq xs ys (by simpa using h)
    refine ⟨eq x y && r, by simp [eqFold, hr, bind, Except.bind], ?_⟩
    simp [heq, ih]
  | [], _ :: _, h => by simp at h
  | _ :: _, [], h => by simp at h

end rel

theorem tri_facts (x y : Int) :
    (x < y ∧ ¬ y < x ∧ ¬ x = y ∧ ¬ y = x) ∨ (x = y) ∨ (y < x ∧ ¬ x < y ∧ ¬ x = y ∧ ¬ y = x) := by omega

theorem concat_eq (t1 t2 : List Int) : concat t1 t2 = .ok (t1 ++ t2) := by
  simp [concat, getAll_ok, bind, Except.bind]

theorem catGo_eq : ∀ (ts : List (List Int)) (r : List Int), catGo r ts = .ok (r ++ ts.flatten)
  | [], r => by simp [catGo, getAll_ok]
  | t :: ts, r => by
    simp [catGo, concat_eq, bind, Except.bind, catGo_eq ts (r ++ t), List.append_assoc]

/-! ### calls

The model of each forwarding wrapper equals the executable spec that the harness validates against libstdc++.
For these wrappers the header's code and the standard's definition are the same few lines, so these are
transcription checks (a case split on the callee kind and `rfl`, plus "the checked element reads of the bound /
applied tuple succeed").  They are helper lemmas and are NOT counted as property theorems; the property theorems
(`Props.*_once`) are stated against the predicate `Spec.CalledOnce`. -/

theorem objExpr_eq (o : ObjK) : Spec.objExpr o = o.expr := by
  cases o with
  | obj q => rfl
  | refw q => cases q <;> rfl
  | ptr q => cases q <;> rfl

theorem arrives_eq (a : Arg) : Spec.arrives a = paramArrives a := by
  obtain ⟨v, x⟩ := a; cases v <;> rfl

theorem theCall_eq (tid : Nat) (self : Option Cat) (args : List Arg) : Spec.theCall tid self args = callTarget tid self args := rfl

theorem invoke_spec (f : Callee) (args : List Arg) (h : ∀ o v, f = .memdata o v → args = []) :
    invoke f args = .ok (Spec.invoke f args) := by
  cases f with
  | fn tid => rfl
  | fob tid q => rfl
  | memfn tid o => simp [invoke, Spec.invoke, objExpr_eq, theCall_eq]
  | memdata o v => simp [invoke, Spec.invoke, h o v rfl]

theorem refWrap_spec (tid : Nat) (cst : Bool) (args : List Arg) :
    refWrapCall tid cst args = .ok (Spec.refWrapCall tid cst args) := rfl

theorem functionRef_spec (callee : Callee) (args : List Arg) (h : ∀ o v, callee = .memdata o v → args = []) :
    functionRefCall callee args = .ok (Spec.functionRefCall callee args) := by
  have hm : args.map Spec.arrives = args.map paramArrives := by
    apply List.map_congr_left; intro a _; exact arrives_eq a
  cases callee with
  | fn tid => simp [functionRefCall, Spec.functionRefCall, Spec.frefTarget?, Spec.target?, invoke, hm, theCall_eq]
  | fob tid q => cases q <;> simp [functionRefCall, Spec.functionRefCall, Spec.frefTarget?, invoke, hm, theCall_eq, Cat.asLvalue]
  | memfn tid o => simp [functionRefCall, Spec.functionRefCall, Spec.frefTarget?, Spec.target?, invoke, hm, theCall_eq, objExpr_eq]
  | memdata o v =>
    have := h o v rfl
    subst this
    simp [functionRefCall, Spec.functionRefCall, invoke]

theorem bound_arrives (q : Cat) (bound : List Bound) :
    (bound.zip (bound.map (·.value))).map (fun p => p.1.arrives q p.2) = bound.map (Spec.boundArrives q) := by
  induction bound with
  | nil => rfl
  | cons b bs ih =>
    simp only [List.map_cons, List.zip_cons_cons, ih]
    cases b <;> rfl

theorem bindFront_spec (mk : Cat → Callee) (q : Cat) (bound : List Bound) (args : List Arg)
    (h : ∀ o v, mk q ≠ .memdata o v) :
    bindFrontCall mk q bound args = .ok (Spec.bindFrontCall mk q bound args) := by
  have hi := invoke_spec (mk q) (bound.map (Spec.boundArrives q) ++ args) (fun o v he => absurd he (h o v))
  simp only [bindFrontCall, getAll_ok, bind, Except.bind, bound_arrives, hi, Spec.bindFrontCall]

theorem notFn_spec (tid : Nat) (q : Cat) (pred : Bool) (args : List Arg) :
    notFnCall tid q pred args = .ok (Spec.notFnCall tid q pred args) := rfl

theorem apply_spec (f : Callee) (tc : Cat) (t : List Int) (h : ∀ o v, f ≠ .memdata o v) :
    apply f tc t = .ok (Spec.apply f tc t) := by
  have hi := invoke_spec f (t.map (boundArg tc)) (fun o v he => absurd he (h o v))
  simp only [apply, getAll_ok, bind, Except.bind, hi, Spec.apply]
  rfl

/-- one call of one target satisfies the property's predicate -/
theorem calledOnce_theCall (tid : Nat) (self : Option Cat) (args : List Arg) :
    Spec.CalledOnce tid self args (resultOf tid (args.map (·.2))) (Spec.theCall tid self args) :=
  ⟨rfl, by intro c hc; simp [Spec.theCall] at hc; subst hc; exact ⟨rfl, rfl, rfl⟩, rfl⟩

theorem target_not_memdata {f : Callee} {tid : Nat} {self : Option Cat} (ht : Spec.target? f = some (tid, self)) :
    ∀ o v, f ≠ .memdata o v := by
  intro o v h; subst h; simp [Spec.target?] at ht

/-- whenever `INVOKE` has a target, the prescribed outcome is that one call -/
theorem spec_invoke_target {f : Callee} {tid : Nat} {self : Option Cat} (ht : Spec.target? f = some (tid, self))
    (args : List Arg) : Spec.invoke f args = Spec.theCall tid self args := by
  cases f with
  | fn t => simp [Spec.target?] at ht; obtain ⟨rfl, rfl⟩ := ht; rfl
  | fob t q => simp [Spec.target?] at ht; obtain ⟨rfl, rfl⟩ := ht; rfl
  | memfn t o => simp [Spec.target?] at ht; obtain ⟨rfl, rfl⟩ := ht; rfl
  | memdata o v => simp [Spec.target?] at ht

/-! ## reference_wrapper / function_ref objects: forward execution = backward resolution -/

/-- backward resolution with given initial pointers -/
def desFrom (s0 : Nat → Option Nat) : List RefOp → Nat → Option Nat
  | [], w => s0 w
  | .bind w' tid :: h, w => if w = w' then some tid else desFrom s0 h w
  | .copy w' v :: h, w => if w = w' then desFrom s0 h v else desFrom s0 h w
  | .assign w' v :: h, w => if w = w' then desFrom s0 h v else desFrom s0 h w

theorem desFrom_none : ∀ (h : List RefOp) (w : Nat), Spec.designatesRev h w = desFrom (fun _ => none) h w
  | [], _ => rfl
  | .bind w' tid :: h, w => by simp [Spec.designatesRev, desFrom, desFrom_none h]
  | .copy w' v :: h, w => by simp [Spec.designatesRev, desFrom, desFrom_none h]
  | .assign w' v :: h, w => by simp [Spec.designatesRev, desFrom, desFrom_none h]

/-- the oldest operation of a history acts on the initial pointers -/
theorem desFrom_snoc (s0 : Nat → Option Nat) (op : RefOp) :
    ∀ (h : List RefOp) (w : Nat), desFrom s0 (h ++ [op]) w = desFrom (refStep s0 op) h w
  | [], w => by cases op <;> simp [desFrom, refStep]
  | .bind w' tid :: h, w => by simp [desFrom, desFrom_snoc s0 op h]
  | .copy w' v :: h, w => by simp [desFrom, desFrom_snoc s0 op h]
  | .assign w' v :: h, w => by simp [desFrom, desFrom_snoc s0 op h]

theorem foldl_desFrom : ∀ (ops : List RefOp) (s0 : Nat → Option Nat) (w : Nat),
    ops.foldl refStep s0 w = desFrom s0 ops.reverse w
  | [], _, _ => rfl
  | op :: ops, s0, w => by
    rw [List.foldl_cons, foldl_desFrom ops (refStep s0 op) w, List.reverse_cons, desFrom_snoc]

end Tetl.C20
