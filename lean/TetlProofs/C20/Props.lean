/- C20 — property theorems (under construction). -/
import TetlProofs.C20.Lemmas
namespace Tetl.C20.Props
open Tetl Tetl.C20

theorem copyAll_eq (t : List El) : copyAll t = Spec.copy t := by
  induction t with
  | nil => rfl
  | cons e t ih => obtain ⟨k, v⟩ := e; simp [copyAll, Spec.copy, ih]

end Tetl.C20.Props
