/-
C20 — property theorems.  No bound on arity, argument lists, element values, number of objects or
history length.

* pair / tuple values: every member-wise operation of the model (a recursion over the element list) equals the
  `map` / `sum` form of the whole-object spec.  These are bookkeeping identities (the recursion IS a map); their
  content is "the member-wise expansion treats every element alike, in order"; element reads never leave the tuple.
* relations: the six pair relations as the header computes them (through `operator<` only) equal
  the lexicographic three-way comparison of [pairs.spec] whenever the element three-way comparison
  is the one synthesised from an asymmetric `<`; for strict total element orders they form a strict
  total order with its derived relations.  For `double` elements (NaN unordered) the header's relations equal
  `std::pair`'s exactly outside the input class `Spec.unorderedPair` and differ on every input inside it.
  Nothing links `==` to `<` in `pair_rels_eq_synth3`; the key + payload element (`<` on the key, `==` on key and payload)
  is an instance (`pair_rels_kp`) on which a tie decided by `==` differs from [pairs.spec] (`pair_lt_via_eq_differs`).
  Tuple `==` is list equality for every arity, 0 included, and for an arbitrary element `==` the conjunction of the
  element comparisons (`tuple_eq_by`).  (etl::tuple has no `<`, `<=`, `>`, `>=`; the property claims equality only.)
* tuple_cat of any number of tuples is their concatenation; no read out of range.
* calls: `invoke`, `reference_wrapper`, `function_ref`, `bind_front`, `not_fn`, `apply` never fail and their
  outcome satisfies the predicate `Spec.CalledOnce`: one log entry, for the wrapped target, called through the
  prescribed object category with the given arguments (a bound `reference_wrapper` stays a wrapper), result handed
  back unchanged.  The models of these wrappers are transcriptions of one-line headers, so the proofs are a
  case split; the statements are what is of value.
* inplace_function: every history refines the abstract owner semantics and never fails.
-/
import TetlProofs.C20.Lemmas
namespace Tetl.C20.Props
open Tetl Tetl.C20

/-! ## pair / tuple values -/

theorem defaultAll_eq (ks : List EK) : defaultAll ks = Spec.dflt ks := by
  induction ks with
  | nil => rfl
  | cons k t ih => simp [defaultAll, Spec.dflt, ih, List.replicate_succ]

theorem copyAll_eq (t : List El) : copyAll t = Spec.copy t := by
  induction t with
  | nil => rfl
  | cons e t ih => obtain ⟨k, v⟩ := e; simp [copyAll, Spec.copy, ih]

theorem moveAll_eq (t : List El) : moveAll t = Spec.move t := by
  induction t with
  | nil => rfl
  | cons e t ih => obtain ⟨k, v⟩ := e; simp [moveAll, Spec.move, ih]

theorem assignAll_eq (t : List El2) : assignAll t = Spec.assign t := by
  induction t with
  | nil => rfl
  | cons e t ih => obtain ⟨k, x, y⟩ := e; simp [assignAll, Spec.assign, ih]

theorem moveAssignAll_eq (t : List El2) : moveAssignAll t = Spec.moveAssign t := by
  induction t with
  | nil => rfl
  | cons e t ih => obtain ⟨k, x, y⟩ := e; simp [moveAssignAll, Spec.moveAssign, ih]

theorem swapAll_eq (t : List El2) : swapAll t = Spec.swap t := by
  induction t with
  | nil => rfl
  | cons e t ih =>
    obtain ⟨k, x, y⟩ := e
    simp only [swapAll, swapElem, ih, Spec.swap, List.map_cons, List.sum_cons]
    simp [Nat.mul_add]

/-- converting copy assignment (`pair<T1,T2> = pair<U1,U2> const&`): the member-wise assignments, each decided by the
    class and the value category of `p.first` (always an lvalue), equal the whole-object form of [pairs.pair] -/
theorem convAssignAll_eq (t : List ElX) : convAssignAll t = Spec.convAssign t := by
  induction t with
  | nil => rfl
  | cons e t ih =>
    obtain ⟨kd, ks, x, y⟩ := e
    simp only [convAssignAll, ih, Spec.convAssign, List.map_cons, List.sum_cons]
    cases ks <;> rfl

/-- converting move assignment (`pair<T1,T2> = pair<U1,U2>&&`): assigning `forward<U>(p.first)` member by member - an
    rvalue of the class unless `U` is a reference - leaves in the source and copies exactly what [pairs.pair] says for
    the source kind; in particular the referent of a reference element is never moved from -/
theorem convMoveAssignAll_eq (t : List ElX) : convMoveAssignAll t = Spec.convMoveAssign t := by
  induction t with
  | nil => rfl
  | cons e t ih =>
    obtain ⟨kd, ks, x, y⟩ := e
    simp only [convMoveAssignAll, ih, Spec.convMoveAssign, List.map_cons, List.sum_cons]
    cases ks <;> rfl

/-- when source and destination have the same element kinds the converting copy assignment is the copy assignment -/
theorem convAssignAll_same (t : List El2) :
    convAssignAll (t.map fun e => (e.1, e.1, e.2.1, e.2.2)) = assignAll t := by
  rw [convAssignAll_eq, assignAll_eq]
  simp [Spec.convAssign, Spec.assign, List.map_map, Function.comp_def]

/-- ... and the converting move assignment is the move assignment -/
theorem convMoveAssignAll_same (t : List El2) :
    convMoveAssignAll (t.map fun e => (e.1, e.1, e.2.1, e.2.2)) = moveAssignAll t := by
  rw [convMoveAssignAll_eq, moveAssignAll_eq]
  simp [Spec.convMoveAssign, Spec.moveAssign, List.map_map, Function.comp_def]

/-- the referents of reference elements survive a move assignment: whatever the destination kinds, a source element of
    reference kind holds its value afterwards (the defect repaired in round C20s moved from it) -/
theorem convMoveAssign_keeps_referents (t : List ElX) (h : ∀ e ∈ t, e.2.1.forwardsRvalue = false) :
    (convMoveAssignAll t).2.1 = t.map (·.2.2.2) := by
  rw [convMoveAssignAll_eq]
  simp only [Spec.convMoveAssign]
  apply List.map_congr_left
  intro e he
  have := h e he
  obtain ⟨kd, ks, x, y⟩ := e
  cases ks <;> simp_all [EK.forwardsRvalue, EK.residue]

example : ∀ e ∈ [((EK.trk, EK.tref, 1, 3) : ElX), (.tref, .tcref, 2, 4)], e.2.1.forwardsRvalue = false := by decide

/-- a moved-from source keeps its arity and every copy-only / plain element keeps its value -/
theorem move_source_length (t : List El) : (moveAll t).2.1.length = t.length := by
  rw [moveAll_eq]; simp [Spec.move]

/-- `get<I>` with `I < sizeof...(Ts)` (the header's static_assert) reads element `I` -/
theorem getAt_eq (t : List Int) (i : Nat) (h : i < t.length) : getAt t i = .ok t[i] := by
  simp [getAt, rd, List.getElem?_eq_getElem h]

example : (1 : Nat) < [4, 5, 6].length := by decide

/-- the index-sequence expansion `get<Is>(t)...` yields all elements in order and never leaves the tuple -/
theorem getAll_eq (t : List Int) : getAll t = .ok t := getAll_ok t

/-! ## relations -/

section rel
variable {α β : Type}

/-- `<` on pairs is exactly [pairs.spec]: first elements decide unless neither is less -/
theorem pair_lt_iff (lt1 : α → α → Bool) (lt2 : β → β → Bool) (a b : α × β) :
    pairLt lt1 lt2 a b = true ↔ (lt1 a.1 b.1 = true ∨ (lt1 b.1 a.1 = false ∧ lt2 a.2 b.2 = true)) := by
  unfold pairLt
  cases h1 : lt1 a.1 b.1 <;> cases h2 : lt1 b.1 a.1 <;> cases h3 : lt2 a.2 b.2 <;> simp

/-- All six relations of the header equal the C++20 definition through the three-way comparison, for every
    element type whose three-way comparison is synthesised from an asymmetric `<` (every type without
    unordered values: `int`, the instrumented classes).  This theorem does not speak about element types whose
    three-way comparison is NOT the synthesised one (`double`: `Spec.dCmp ≠ Spec.synth3 Spec.dLt` on NaN); for
    those see `pair_rels_dbl_partial`.  (Formerly named `pair_rels_eq_partial`; statement unchanged.) -/
theorem pair_rels_eq_synth3 (eq1 : α → α → Bool) (eq2 : β → β → Bool) {lt1 : α → α → Bool} {lt2 : β → β → Bool}
    (h1 : Asymm lt1) (h2 : Asymm lt2) (a b : α × β) :
    Spec.modelRels eq1 eq2 lt1 lt2 a b = Spec.pairRels eq1 eq2 (Spec.synth3 lt1) (Spec.synth3 lt2) a b := by
  have a1 := h1 a.1 b.1
  have a2 := h1 b.1 a.1
  have b1 := h2 a.2 b.2
  have b2 := h2 b.2 a.2
  simp only [Spec.modelRels, Spec.pairRels, pairEq, pairNe, pairLt, pairLe, pairGt, pairGe, Spec.pairCmp3, Spec.synth3]
  cases e1 : lt1 a.1 b.1 <;> cases e2 : lt1 b.1 a.1 <;> cases e3 : lt2 a.2 b.2 <;> cases e4 : lt2 b.2 a.2 <;>
    simp_all [Spec.Ord3.isLt, Spec.Ord3.isLe, Spec.Ord3.isGt, Spec.Ord3.isGe]

example : Asymm (fun a b : Int => decide (a < b)) := by
  intro x y h; simp at h ⊢; omega

/-! ### an element type whose `==` is finer than the equivalence of its `<` (key + payload, `KP` of the harness)

`pair_rels_eq_synth3` assumes NOTHING that links `eq` to `lt`: `<, <=, >, >=` go through `lt` only, `==, !=` through `eq`
only.  Over `int` (equivalent = equal) a tie on `first` decided by `==` cannot be told from one decided by "neither is
less"; the key + payload element tells them apart. -/

/-- the key order of the key + payload element is asymmetric ... -/
theorem kpLt_asymm : Asymm Spec.kpLt := by
  intro x y h; simp [Spec.kpLt] at h ⊢; omega

/-- ... and its `==` is strictly finer than the equivalence the order induces: 2 and 3 are equivalent, not equal -/
theorem kp_equivalent_not_equal :
    Spec.kpLt 2 3 = false ∧ Spec.kpLt 3 2 = false ∧ Spec.kpEq 2 3 = false := by decide

/-- the six relations of `pair<KP, T>` as the header computes them are the C++20 ones (`T`: any type with an asymmetric
    `<`; `pair<T, KP>` and `pair<KP, KP>` are instances of `pair_rels_eq_synth3` in the same way) -/
theorem pair_rels_kp (eq2 : β → β → Bool) {lt2 : β → β → Bool} (h2 : Asymm lt2) (a b : Int × β) :
    Spec.modelRels Spec.kpEq eq2 Spec.kpLt lt2 a b
      = Spec.pairRels Spec.kpEq eq2 (Spec.synth3 Spec.kpLt) (Spec.synth3 lt2) a b :=
  pair_rels_eq_synth3 Spec.kpEq eq2 kpLt_asymm h2 a b

/-- deciding the tie on `first` by `==` is NOT [pairs.spec]: `(KP{1,0}, 1) < (KP{1,1}, 2)` holds, the one-liner
    `x.first < y.first || (x.first == y.first && x.second < y.second)` says false -/
theorem pair_lt_via_eq_differs :
    pairLt Spec.kpLt (fun x y : Int => decide (x < y)) (2, 1) (3, 2) = true ∧
    Spec.pairLtViaEq Spec.kpEq Spec.kpLt (fun x y : Int => decide (x < y)) (2, 1) (3, 2) = false := by decide

/-- ... and no element type with a strict total order whose equivalence is `==` (`int`) can show it -/
theorem pair_lt_via_eq_same_of_total {eq1 lt1 : α → α → Bool} (h1 : StrictTotal eq1 lt1) (lt2 : β → β → Bool) (a b : α × β) :
    Spec.pairLtViaEq eq1 lt1 lt2 a b = pairLt lt1 lt2 a b := by
  unfold Spec.pairLtViaEq pairLt
  have hir := h1.irrefl
  have hasym := h1.asymm
  have htri := h1.tri a.1 b.1
  have heq := h1.eq_iff a.1 b.1
  cases e1 : lt1 a.1 b.1 <;> cases e2 : lt1 b.1 a.1 <;> cases e3 : eq1 a.1 b.1 <;> cases e4 : lt2 a.2 b.2 <;> simp_all

/-- `double` elements, exact form: the header's six relations equal those of `std::pair<double,double>` (through
    `<=>` with `partial_ordering`) on an input **iff** the input is outside the class `Spec.unorderedPair`. -/
theorem pair_rels_dbl_iff (a b : Int × Int) :
    Spec.modelRels Spec.dEq Spec.dEq Spec.dLt Spec.dLt a b = Spec.pairRels Spec.dEq Spec.dEq Spec.dCmp Spec.dCmp a b
      ↔ Spec.unorderedPair a b = false := by
  obtain ⟨a1, a2⟩ := a
  obtain ⟨b1, b2⟩ := b
  simp only [Spec.modelRels, Spec.pairRels, pairEq, pairNe, pairLt, pairLe, pairGt, pairGe, Spec.pairCmp3, Spec.dCmp,
    Spec.dLt, Spec.dEq, Spec.unorderedPair, Spec.NaN]
  by_cases h1 : a1 = 9 <;> by_cases h2 : b1 = 9 <;> by_cases h3 : a2 = 9 <;> by_cases h4 : b2 = 9 <;>
  rcases tri_facts a1 b1 with ⟨h, hx, hy, hz⟩ | h | ⟨h, hx, hy, hz⟩ <;>
  rcases tri_facts a2 b2 with ⟨g, gx, gy, gz⟩ | g | ⟨g, gx, gy, gz⟩ <;>
  first
    | omega
    | (subst_vars; simp [*, Spec.Ord3.isLt, Spec.Ord3.isLe, Spec.Ord3.isGt, Spec.Ord3.isGe])

/-- PARTIAL (known finding F-C20-pair-rel-unordered): for `double` elements the header's relations are the C++20
    ones on every input outside the class "the three-way comparison of the two pairs is unordered" — the extra
    hypothesis is exactly that class, the predicate `classify()` of checks/props/c20.py recomputes per case. -/
theorem pair_rels_dbl_partial (a b : Int × Int) (h : Spec.unorderedPair a b = false) :
    Spec.modelRels Spec.dEq Spec.dEq Spec.dLt Spec.dLt a b = Spec.pairRels Spec.dEq Spec.dEq Spec.dCmp Spec.dCmp a b :=
  (pair_rels_dbl_iff a b).mpr h

example : Spec.unorderedPair (1, Spec.NaN) (0, 1) = false := by decide

/-- The class contains failing inputs: `(NaN, 1) < (1, 2)` is true for the header, false for `std::pair` -/
theorem pair_rels_unordered_counterexample :
    Spec.unorderedPair (Spec.NaN, 1) (1, 2) = true ∧
    Spec.modelRels Spec.dEq Spec.dEq Spec.dLt Spec.dLt (Spec.NaN, 1) (1, 2)
      ≠ Spec.pairRels Spec.dEq Spec.dEq Spec.dCmp Spec.dCmp (Spec.NaN, 1) (1, 2) := by decide

/-- ... and only failing inputs: inside the class the header never agrees with `std::pair` -/
theorem pair_rels_unordered_all_differ (a b : Int × Int) (h : Spec.unorderedPair a b = true) :
    Spec.modelRels Spec.dEq Spec.dEq Spec.dLt Spec.dLt a b ≠ Spec.pairRels Spec.dEq Spec.dEq Spec.dCmp Spec.dCmp a b := by
  intro he
  have := (pair_rels_dbl_iff a b).mp he
  rw [h] at this; cases this

example : Spec.unorderedPair (1, Spec.NaN) (1, 0) = true := by decide

/-- exactly one of `a < b`, `a == b`, `b < a` holds -/
theorem pair_trichotomy {eq1 lt1 : α → α → Bool} {eq2 lt2 : β → β → Bool} (h1 : StrictTotal eq1 lt1)
    (h2 : StrictTotal eq2 lt2) (a b : α × β) :
    (pairLt lt1 lt2 a b = true ∧ pairEq eq1 eq2 a b = false ∧ pairLt lt1 lt2 b a = false) ∨
    (pairLt lt1 lt2 a b = false ∧ pairEq eq1 eq2 a b = true ∧ pairLt lt1 lt2 b a = false) ∨
    (pairLt lt1 lt2 a b = false ∧ pairEq eq1 eq2 a b = false ∧ pairLt lt1 lt2 b a = true) := by
  obtain ⟨a1, a2⟩ := a
  obtain ⟨b1, b2⟩ := b
  have as1 := h1.asymm
  have as2 := h2.asymm
  have e1 : eq1 a1 b1 = true ↔ a1 = b1 := h1.eq_iff _ _
  have e2 : eq2 a2 b2 = true ↔ a2 = b2 := h2.eq_iff _ _
  simp only [pairLt, pairEq]
  rcases h1.tri a1 b1 with h | h | h
  · have := as1 _ _ h
    have hne : eq1 a1 b1 = false := by
      cases he : eq1 a1 b1 with
      | false => rfl
      | true => have := e1.mp he; subst this; rw [h1.irrefl] at h; cases h
    simp [h, this, hne]
  · have hab := e1.mp h
    subst hab
    have ir := h1.irrefl a1
    rcases h2.tri a2 b2 with g | g | g
    · have := as2 _ _ g
      have hne : eq2 a2 b2 = false := by
        cases he : eq2 a2 b2 with
        | false => rfl
        | true => have := e2.mp he; subst this; rw [h2.irrefl] at g; cases g
      simp [ir, h, g, this, hne]
    · have hab := e2.mp g
      subst hab
      simp [ir, h, g, h2.irrefl]
    · have := as2 _ _ g
      have hne : eq2 a2 b2 = false := by
        cases he : eq2 a2 b2 with
        | false => rfl
        | true => have := e2.mp he; subst this; rw [h2.irrefl] at g; cases g
      simp [ir, h, g, this, hne]
  · have := as1 _ _ h
    have hne : eq1 a1 b1 = false := by
      cases he : eq1 a1 b1 with
      | false => rfl
      | true => have := e1.mp he; subst this; rw [h1.irrefl] at h; cases h
    simp [h, this, hne]

/-- `<=`, `>`, `>=`, `!=` are the derived relations of that order -/
theorem pair_derived {eq1 lt1 : α → α → Bool} {eq2 lt2 : β → β → Bool} (h1 : StrictTotal eq1 lt1)
    (h2 : StrictTotal eq2 lt2) (a b : α × β) :
    pairLe lt1 lt2 a b = (pairLt lt1 lt2 a b || pairEq eq1 eq2 a b) ∧
    pairGe lt1 lt2 a b = (pairLt lt1 lt2 b a || pairEq eq1 eq2 a b) ∧
    pairGt lt1 lt2 a b = pairLt lt1 lt2 b a ∧
    pairNe eq1 eq2 a b = !pairEq eq1 eq2 a b := by
  rcases pair_trichotomy h1 h2 a b with ⟨x, y, z⟩ | ⟨x, y, z⟩ | ⟨x, y, z⟩ <;>
    simp [pairLe, pairGe, pairGt, pairNe, x, y, z]

theorem strictTotal_int : StrictTotal (fun a b : Int => a == b) (fun a b : Int => decide (a < b)) where
  irrefl := by intro x; simp
  trans := by intro x y z; simp; omega
  tri := by intro x y; simp; omega
  eq_iff := by intro x y; simp

/-- transitivity of the pair order -/
theorem pair_lt_trans {eq1 lt1 : α → α → Bool} {eq2 lt2 : β → β → Bool} (h1 : StrictTotal eq1 lt1)
    (h2 : StrictTotal eq2 lt2) (a b c : α × β) (hab : pairLt lt1 lt2 a b = true) (hbc : pairLt lt1 lt2 b c = true) :
    pairLt lt1 lt2 a c = true := by
  rw [pair_lt_iff] at hab hbc ⊢
  have as1 := h1.asymm
  have total : ∀ x y, lt1 x y = false → lt1 y x = false → x = y := by
    intro x y hx hy
    rcases h1.tri x y with h | h | h
    · rw [hx] at h; cases h
    · exact (h1.eq_iff _ _).mp h
    · rw [hy] at h; cases h
  have norm : ∀ p q : α × β, (lt1 p.1 q.1 = true ∨ (lt1 q.1 p.1 = false ∧ lt2 p.2 q.2 = true)) →
      (lt1 p.1 q.1 = true ∨ (p.1 = q.1 ∧ lt2 p.2 q.2 = true)) := by
    intro p q h
    cases hpq : lt1 p.1 q.1 with
    | true => exact Or.inl rfl
    | false =>
      rcases h with h | ⟨hn, h⟩
      · rw [hpq] at h; cases h
      · exact Or.inr ⟨total _ _ hpq hn, h⟩
  rcases norm a b hab with h | ⟨he, h⟩
  · rcases norm b c hbc with g | ⟨ge, g⟩
    · exact Or.inl (h1.trans _ _ _ h g)
    · rw [← ge]; exact Or.inl h
  · rcases norm b c hbc with g | ⟨ge, g⟩
    · rw [he]; exact Or.inl g
    · right
      refine ⟨?_, h2.trans _ _ _ h g⟩
      rw [he, ge]; exact h1.irrefl _

/-- tuple `==` (equal arity, as the `requires` clause demands; arity 0 included) never fails and is equality of the
    element lists -/
theorem tuple_eq_iff (a b : List Int) (hlen : a.length = b.length) :
    tupleEq (fun x y : Int => x == y) a b = .ok (Spec.tupleEq a b) := by
  obtain ⟨r, hr, hiff⟩ := eqFold_iff (eq := fun x y : Int => x == y) (by intro x y; simp) a b hlen
  have hspec : Spec.tupleEq a b = r := by
    cases r with
    | true => simp [Spec.tupleEq, hiff.mp rfl]
    | false =>
      have : a ≠ b := by intro hab; have := hiff.mpr hab; cases this
      simp [Spec.tupleEq, this]
  by_cases h0 : a.length = 0
  · have ha : a = [] := List.length_eq_zero_iff.mp h0
    have hb : b = [] := List.length_eq_zero_iff.mp (by omega)
    subst ha; subst hb
    simp [tupleEq, Spec.tupleEq]
  · have hb : ¬ b.length = 0 := by omega
    simp [tupleEq, hlen, hb, hr, hspec]

example : ([1, 2] : List Int).length = [1, 3].length := by decide
example : tupleEq (fun x y : Int => x == y) [] [] = .ok true := rfl

/-- tuple `==` for an ARBITRARY element `==` (nothing assumed about it: not reflexive, not related to any `<`): the fold of
    the header never fails on equal arity and is [tuple.rel]'s "`get<i>(t) == get<i>(u)` for all `i`", arity 0 included -/
theorem tuple_eq_by (eq : α → α → Bool) (a b : List α) (hlen : a.length = b.length) :
    tupleEq eq a b = .ok (Spec.tupleEqBy eq a b) := by
  have hfold : ∀ (a b : List α), a.length = b.length → eqFold eq a b = .ok (Spec.tupleEqBy eq a b) := by
    intro a
    induction a with
    | nil => intro b h; cases b with
      | nil => rfl
      | cons y ys => simp at h
    | cons x xs ih => intro b h; cases b with
      | nil => simp at h
      | cons y ys =>
        have := ih ys (by simpa using h)
        simp [eqFold, this, bind, Except.bind, Spec.tupleEqBy]
  by_cases h0 : a.length = 0
  · have ha : a = [] := List.length_eq_zero_iff.mp h0
    have hb : b = [] := List.length_eq_zero_iff.mp (by omega)
    subst ha; subst hb
    simp [tupleEq, Spec.tupleEqBy]
  · have hb : ¬ b.length = 0 := by omega
    simp [tupleEq, hlen, hb, hfold a b hlen]

/-- a tuple of key + payload elements with equivalent, unequal elements is not equal -/
example : tupleEq Spec.kpEq [2, 1] [3, 1] = .ok false := rfl

end rel

/-! ## tuple_cat / apply -/

/-- `tuple_cat` of any number of tuples (none included: the empty tuple) is their concatenation (all elements, in order);
    no element read leaves its tuple.  (Formerly stated for one or more tuples: `tuple_cat()` did not exist in the header.) -/
theorem tuple_cat_eq (ts : List (List Int)) : tupleCat ts = .ok (Spec.tupleCat ts) := by
  cases ts with
  | nil => rfl
  | cons t ts => simp [tupleCat, catGo_eq, Spec.tupleCat]

/-! ## calls

Stated against the predicate `Spec.CalledOnce` (exactly one log entry; it names the wrapped target, the category
of the object expression the standard prescribes, and exactly the given arguments; the result is handed back). -/

/-- `invoke(f, args...)` with a function, function object or member-function pointer: exactly the one call
    `INVOKE` prescribes — `f` itself with its own value category (`forward<F>(f)`), a member function on the
    object expression of [func.require] (`t1`, `t1.get()`, `*t1`) — with the arguments unchanged -/
theorem invoke_once (f : Callee) (args : List Arg) (tid : Nat) (self : Option Cat)
    (ht : Spec.target? f = some (tid, self)) :
    ∃ out, invoke f args = .ok out ∧ Spec.CalledOnce tid self args (resultOf tid (args.map (·.2))) out := by
  refine ⟨Spec.theCall tid self args, ?_, calledOnce_theCall tid self args⟩
  rw [invoke_spec f args (fun o v he => absurd he (target_not_memdata ht o v)), spec_invoke_target ht]

example : Spec.target? (.memfn 5 (.ptr .c)) = some (5, some .c) := rfl
example : Spec.target? (.fob 4 .k) = some (4, some .k) := rfl

/-- a pointer to data member yields the member and calls nothing -/
theorem invoke_memdata (o : ObjK) (v : Int) : invoke (.memdata o v) [] = .ok (v, []) := rfl

/-- `reference_wrapper<T>::operator()`: one call of the referenced object as an lvalue (const for
    `reference_wrapper<T const>`), arguments unchanged -/
theorem refWrap_once (tid : Nat) (cst : Bool) (args : List Arg) :
    ∃ out, refWrapCall tid cst args = .ok out ∧
      Spec.CalledOnce tid (some (if cst then .c else .l)) args (resultOf tid (args.map (·.2))) out :=
  ⟨_, refWrap_spec tid cst args, calledOnce_theCall _ _ _⟩

/-- `function_ref<R(Args...)>::operator()`: one call of the referenced entity (a function object as an lvalue of
    the const-ness it was bound with); every parameter arrives as `forward<Args>(args)`: a by-value parameter as
    an rvalue, a reference parameter unchanged; the values are unchanged -/
theorem functionRef_once (callee : Callee) (args : List Arg) (tid : Nat) (self : Option Cat)
    (ht : Spec.frefTarget? callee = some (tid, self)) :
    ∃ out, functionRefCall callee args = .ok out ∧
      Spec.CalledOnce tid self (args.map Spec.arrives) (resultOf tid (args.map (·.2))) out := by
  have hv : (args.map Spec.arrives).map (·.2) = args.map (·.2) := by
    rw [List.map_map]; apply List.map_congr_left; intro a _; obtain ⟨v, x⟩ := a; cases v <;> rfl
  have hnm : ∀ o v, callee = .memdata o v → args = [] := by
    intro o v h; subst h; simp [Spec.frefTarget?, Spec.target?] at ht
  refine ⟨Spec.theCall tid self (args.map Spec.arrives), ?_, hv ▸ calledOnce_theCall tid self (args.map Spec.arrives)⟩
  rw [functionRef_spec callee args hnm]
  cases callee with
  | memdata o v => simp [Spec.frefTarget?, Spec.target?] at ht
  | fn t => simp [Spec.functionRefCall, ht]
  | fob t q => simp [Spec.functionRefCall, ht]
  | memfn t o => simp [Spec.functionRefCall, ht]

example : Spec.frefTarget? (.fob 4 .c) = some (4, some .c) := rfl
example : Spec.frefTarget? (.fob 4 .r) = some (4, some .l) := rfl

/-- `bind_front(f, bound...)(args...)` called through a `q`-qualified wrapper: one call of `f` qualified like the
    wrapper; the bound arguments first, each as the `q`-qualified stored object — a plain argument as the stored
    copy, a `reference_wrapper` argument still as a `reference_wrapper` (not unwrapped) —, then the call arguments
    unchanged; every read of the bound-argument tuple is in range -/
theorem bindFront_once (mk : Cat → Callee) (q : Cat) (bound : List Bound) (args : List Arg) (tid : Nat)
    (self : Option Cat) (ht : Spec.target? (mk q) = some (tid, self)) :
    ∃ out, bindFrontCall mk q bound args = .ok out ∧
      Spec.CalledOnce tid self (bound.map (Spec.boundArrives q) ++ args)
        (resultOf tid (bound.map (·.value) ++ args.map (·.2))) out := by
  have hv : (bound.map (Spec.boundArrives q) ++ args).map (·.2) = bound.map (·.value) ++ args.map (·.2) := by
    rw [List.map_append, List.map_map]; congr 1
    apply List.map_congr_left; intro b _; cases b <;> rfl
  refine ⟨Spec.theCall tid self (bound.map (Spec.boundArrives q) ++ args), ?_, hv ▸ calledOnce_theCall tid self _⟩
  rw [bindFront_spec mk q bound args (target_not_memdata ht), Spec.bindFrontCall, spec_invoke_target ht]

example : Spec.target? ((fun q => Callee.fob 6 q) Cat.k) = some (6, some .k) := rfl

/-- `not_fn(f)(args...)` called through a `q`-qualified wrapper: one call of `f` qualified like the wrapper,
    arguments unchanged; the result is the negation of what `f` returned -/
theorem notFn_once (tid : Nat) (q : Cat) (pred : Bool) (args : List Arg) :
    ∃ out, notFnCall tid q pred args = .ok out ∧ Spec.CalledOnce tid (some q) args (!pred) out :=
  ⟨_, notFn_spec tid q pred args,
    ⟨rfl, by intro c hc; simp [Spec.notFnCall] at hc; subst hc; exact ⟨rfl, rfl, rfl⟩, rfl⟩⟩

/-- `apply(f, t)`: one call of `f` (with its own category) with all elements of `t` in order, each with the
    tuple's category; every element read is in range -/
theorem apply_once (f : Callee) (tc : Cat) (t : List Int) (tid : Nat) (self : Option Cat)
    (ht : Spec.target? f = some (tid, self)) :
    ∃ out, apply f tc t = .ok out ∧
      Spec.CalledOnce tid self (t.map (fun v => (Via.fwd tc, v))) (resultOf tid t) out := by
  have hv : (t.map (fun v => ((Via.fwd tc, v) : Arg))).map (·.2) = t := by
    rw [List.map_map]; simp [Function.comp_def]
  have := calledOnce_theCall tid self (t.map (fun v => ((Via.fwd tc, v) : Arg)))
  rw [hv] at this
  refine ⟨Spec.theCall tid self (t.map (fun v => (Via.fwd tc, v))), ?_, this⟩
  rw [apply_spec f tc t (target_not_memdata ht), Spec.apply, spec_invoke_target ht]

example : Spec.target? (.fob 7 .r) = some (7, some .r) := rfl

/-- `make_from_tuple<T>(t)` hands all elements, in order, to the constructor; no read leaves the tuple
    (bookkeeping: it IS the index-sequence expansion `getAll`) -/
theorem makeFromTuple_eq (t : List Int) : makeFromTuple t = .ok t := getAll_eq t

/-- `make_from_tuple<T>(t)` initialises `T` as the direct-non-list-initialisation `T(e0, …, en-1)` of [tuple.apply] does, for
    every target kind (also those with an `initializer_list` constructor, aggregates, explicit constructors, narrowing
    parameters) and every tuple of at most three elements (the arities the target types of the harness accept); no read leaves
    the tuple -/
theorem makeFromTupleT_eq (tg : Target) (t : List Int) (h : t.length ≤ 3) :
    makeFromTupleT tg t = .ok (Spec.directInit tg t) := by
  simp only [makeFromTupleT, getAll_eq, bind, Except.bind]
  cases tg <;> simp [parenInit, aggMembers, h, Spec.directInit, Spec.aggFrom]

example : ([3, 7] : List Int).length ≤ 3 := by decide
example : makeFromTupleT .il [3, 7] = .ok (.ctor [3, 7]) := rfl

/-- The specification distinguishes parentheses from braces: for a target with a viable `initializer_list` constructor
    list-initialisation of a non-empty tuple hands the elements over as ONE list, and for a target whose parameters narrow it
    does not compile — in both cases not what [tuple.apply] prescribes (the class of the seeded change `T{get<I>(t)...}`) -/
theorem listInit_differs (tg : Target) (x : Int) (xs : List Int)
    (h : tg = .il ∨ tg = .ilWide ∨ tg = .aggNarrow ∨ tg = .ctorNarrow) :
    Spec.listInit tg (x :: xs) ≠ Spec.directInit tg (x :: xs) := by
  rcases h with h | h | h | h <;> subst h <;> simp [Spec.listInit, Spec.directInit, Spec.aggFrom]

example : Spec.listInit .il [3, 7] = .list [3, 7] ∧ Spec.directInit .il [3, 7] = .ctor [3, 7] := by decide

/-- … and only there: for every other target kind, and for the empty tuple, the two forms initialise alike -/
theorem listInit_same (tg : Target) (t : List Int)
    (h : t = [] ∨ tg = .plain ∨ tg = .ilOther ∨ tg = .agg ∨ tg = .expl) :
    Spec.listInit tg t = Spec.directInit tg t := by
  rcases h with h | h | h | h | h <;> subst h <;> first | (cases tg <;> rfl) | (cases t <;> rfl) | rfl

example : Spec.listInit .ilOther [3, 7] = Spec.directInit .ilOther [3, 7] := rfl

/-! ## inplace_function -/

theorem step_refines {s : St} (hinv : Inv s) (op : Op) (hv : Spec.valid op = true) :
    Refines (step s op) (Spec.step (abs s) op) := by
  obtain ⟨hc, ht⟩ := hinv
  cases op with
  | ctorEmpty i =>
    have e1 := dtor_ok (hc (.obj i))
    simp only [step, ctorEmpty, bind, Except.bind, e1, Spec.step, Refines]
    refine ⟨⟨?_, ?_⟩, ?_, trivial, trivial⟩
    · inv_pt hc i, i
    · simp [upd, ht]
    · abs_pt i, i
  | ctorFn i f =>
    have e1 := dtor_ok (hc (.obj i))
    have hd : (upd s.mem (.obj i) none) (.obj i) = none := upd_same _ _ _
    have e2 := ctorFn_ok (s := { vt := upd s.vt (.obj i) none, mem := upd s.mem (.obj i) none }) f hd
    simp only [step, bind, Except.bind, e1, e2, Spec.step, Refines]
    refine ⟨⟨?_, ?_⟩, ?_, trivial, trivial⟩
    · inv_pt hc i, i
    · simp [upd, ht]
    · abs_pt i, i
  | ctorFrom i j conv q =>
    have hij : i ≠ j := by simpa [Spec.valid] using hv
    have hne : Addr.obj i ≠ Addr.obj j := by intro h; cases h; exact hij rfl
    have e1 := dtor_ok (hc (.obj i))
    have hd : (upd s.mem (.obj i) none) (.obj i) = none := upd_same _ _ _
    have hco : (upd s.vt (.obj i) none) (.obj j) = ((upd s.mem (.obj i) none) (.obj j)).map (·.ty) := by
      rw [upd_other _ (Ne.symm hne), upd_other _ (Ne.symm hne)]; exact hc _
    have e2 := ctorCopy_ok (s := { vt := upd s.vt (.obj i) none, mem := upd s.mem (.obj i) none }) hco hd
    have e3 := ctorConvCopy_ok (s := { vt := upd s.vt (.obj i) none, mem := upd s.mem (.obj i) none }) hco hd
    have e4 := ctorMove_ok (s := { vt := upd s.vt (.obj i) none, mem := upd s.mem (.obj i) none }) hco hd hne
    have e5 := ctorConvMove_ok (s := { vt := upd s.vt (.obj i) none, mem := upd s.mem (.obj i) none }) hco hd hne
    -- the four source categories select the copying or the relocating constructor; plain and converting form each
    cases q <;> cases conv <;>
      (simp only [step, ctorFrom, selectCtor, bind, Except.bind, e1, e2, e3, e4, e5, Spec.step, Spec.gives, Refines,
        Bool.false_eq_true, if_false, if_true, beq_self_eq_true, show (Cat.l == Cat.r) = false from rfl,
        show (Cat.c == Cat.r) = false from rfl, show (Cat.k == Cat.r) = false from rfl]
       refine ⟨⟨?_, ?_⟩, ?_, trivial, trivial⟩
       · inv_pt hc i, j
       · simp [upd, ht]
       · abs_pt i, j)
  | assignFrom i j conv q =>
    -- copy form: the by-value parameter is copy-constructed in `.tmp`
    have copyCase : Refines (do let r ← assignCopy s (.obj i) (.obj j) conv; Except.ok (r, Out.unit, ([] : Log)))
        (Spec.set (abs s) i (abs s j), Out.unit, []) := by
      have e1 := ctorCopy_ok (s := s) (a := .tmp) (hc (.obj j)) ht
      have e1' := ctorConvCopy_ok (s := s) (a := .tmp) (hc (.obj j)) ht
      have ha : (upd s.vt .tmp (s.vt (.obj j))) (.obj i) = ((upd s.mem .tmp (s.mem (.obj j))) (.obj i)).map (·.ty) := by
        rw [upd_other _ (obj_ne_tmp i), upd_other _ (obj_ne_tmp i)]; exact hc _
      have htt : (upd s.vt .tmp (s.vt (.obj j))) .tmp = ((upd s.mem .tmp (s.mem (.obj j))) .tmp).map (·.ty) := by
        rw [upd_same, upd_same]; exact hc _
      have e2 := assignBody_ok (s := { vt := upd s.vt .tmp (s.vt (.obj j)), mem := upd s.mem .tmp (s.mem (.obj j)) })
        (a := .obj i) ha htt (obj_ne_tmp i)
      cases conv
      · simp only [assignCopy, bind, Except.bind, e1, e2, Refines, Bool.false_eq_true, if_false]
        refine ⟨⟨?_, ?_⟩, ?_, trivial, trivial⟩
        · inv_pt hc i, j
        · simp [upd]
        · abs_pt i, j
      · simp only [assignCopy, bind, Except.bind, e1', e2, Refines, if_true]
        refine ⟨⟨?_, ?_⟩, ?_, trivial, trivial⟩
        · inv_pt hc i, j
        · simp [upd]
        · abs_pt i, j
    -- move form: the parameter is move-constructed in `.tmp`, the source's vtable becomes the empty one
    have moveCase : Refines (do let r ← assignMove s (.obj i) (.obj j) conv; Except.ok (r, Out.unit, ([] : Log)))
        (Spec.set (Spec.set (abs s) j none) i (abs s j), Out.unit, []) := by
      have e1 := ctorMove_ok (s := s) (a := .tmp) (hc (.obj j)) ht (tmp_ne_obj j)
      have e1' := ctorConvMove_ok (s := s) (a := .tmp) (hc (.obj j)) ht (tmp_ne_obj j)
      have ha : ∀ (vt : Addr → Option Nat), (∀ x, vt x = (upd (upd s.mem .tmp (s.mem (.obj j))) (.obj j) none x).map (·.ty)) →
          Refines (do let r ← assignBody { vt := vt, mem := upd (upd s.mem .tmp (s.mem (.obj j))) (.obj j) none } (.obj i); pure (r, Out.unit, ([] : Log)))
            (Spec.set (Spec.set (abs s) j none) i (abs s j), Out.unit, []) := by
        intro vt hvt
        have e2 := assignBody_ok (s := { vt := vt, mem := upd (upd s.mem .tmp (s.mem (.obj j))) (.obj j) none })
          (a := .obj i) (hvt _) (hvt _) (obj_ne_tmp i)
        simp only [bind, Except.bind, e2, pure, Except.pure, Refines]
        refine ⟨⟨?_, ?_⟩, ?_, trivial, trivial⟩
        · intro x
          have h0 := hvt x; have hi := hvt (.obj i); have hj := hvt (.obj j); have htmp := hvt .tmp
          by_cases h1 : x = .obj i <;> by_cases h2 : x = .obj j <;> by_cases h3 : x = .tmp <;> simp_all [upd]
        · simp [upd]
        · abs_pt i, j
      cases conv
      · have := ha (upd (upd s.vt (.obj j) none) .tmp (s.vt (.obj j))) (by
          intro x; have h0 := hc x; have hj := hc (.obj j)
          by_cases h2 : x = .obj j <;> by_cases h3 : x = .tmp <;> simp_all [upd])
        simpa only [assignMove, bind, Except.bind, e1, Bool.false_eq_true, if_false, pure, Except.pure] using this
      · have := ha (upd (upd s.vt .tmp (s.vt (.obj j))) (.obj j) none) (by
          intro x; have h0 := hc x; have hj := hc (.obj j)
          by_cases h2 : x = .obj j <;> by_cases h3 : x = .tmp <;> simp_all [upd])
        simpa only [assignMove, bind, Except.bind, e1', if_true, pure, Except.pure] using this
    cases q
    case r => simpa only [step, assignFrom, selectCtor, Spec.step, Spec.gives, beq_self_eq_true, if_true] using moveCase
    all_goals
      simpa only [step, assignFrom, selectCtor, Spec.step, Spec.gives, show (Cat.l == Cat.r) = false from rfl,
        show (Cat.c == Cat.r) = false from rfl, show (Cat.k == Cat.r) = false from rfl, Bool.false_eq_true, if_false] using copyCase
  | assignFn i f =>
    have e1 := ctorFn_ok (s := s) (a := .tmp) f ht
    have ha : (upd s.vt .tmp (some f.ty)) (.obj i) = ((upd s.mem .tmp (some f)) (.obj i)).map (·.ty) := by
      rw [upd_other _ (obj_ne_tmp i), upd_other _ (obj_ne_tmp i)]; exact hc _
    have htt : (upd s.vt .tmp (some f.ty)) .tmp = ((upd s.mem .tmp (some f)) .tmp).map (·.ty) := by
      rw [upd_same, upd_same]; rfl
    have e2 := assignBody_ok (s := { vt := upd s.vt .tmp (some f.ty), mem := upd s.mem .tmp (some f) })
      (a := .obj i) ha htt (obj_ne_tmp i)
    simp only [step, assignFn, bind, Except.bind, e1, e2, Spec.step, Refines]
    refine ⟨⟨?_, ?_⟩, ?_, trivial, trivial⟩
    · inv_pt hc i, i
    · simp [upd]
    · abs_pt i, i
  | assignNull i =>
    have e1 := assignNull_ok (hc (.obj i))
    simp only [step, bind, Except.bind, e1, Spec.step, Refines]
    refine ⟨⟨?_, ?_⟩, ?_, trivial, trivial⟩
    · inv_pt hc i, i
    · simp [upd, ht]
    · abs_pt i, i
  | swap i j =>
    by_cases hij : i = j
    · subst hij
      simp only [step, swap, if_true, bind, Except.bind, Spec.step, Refines]
      refine ⟨⟨hc, ht⟩, ?_, trivial, trivial⟩
      abs_pt i, i
    · have hne : Addr.obj i ≠ Addr.obj j := by intro h; cases h; exact hij rfl
      have e1 := swap_ok hc ht (obj_ne_tmp i) (obj_ne_tmp j) hne
      simp only [step, bind, Except.bind, e1, Spec.step, Refines]
      refine ⟨⟨?_, ?_⟩, ?_, trivial, trivial⟩
      · inv_pt hc i, j
      · simp [upd]
      · abs_pt i, j
  | call i x =>
    have hi := hc (.obj i)
    cases hm : s.mem (.obj i) with
    | none =>
      have hv' : s.vt (.obj i) = none := by simp [hi, hm]
      have habs : abs s i = none := hm
      simp only [step, call, hv', bind, Except.bind, Spec.step, habs, Refines]
      exact ⟨⟨hc, ht⟩, trivial, trivial, trivial⟩
    | some f =>
      have hv' : s.vt (.obj i) = some f.ty := by simp [hi, hm]
      have habs : abs s i = some f := hm
      simp only [step, call, hv', load, hm, bind, Except.bind, Spec.step, habs, Refines, ne_eq, not_true, if_false]
      refine ⟨⟨?_, ?_⟩, ?_, trivial, trivial⟩
      · inv_pt hc i, i
      · simp [upd, ht]
      · abs_pt i, i
  | bool i =>
    have hi := hc (.obj i)
    simp only [step, toBool, Spec.step, Refines]
    refine ⟨⟨hc, ht⟩, trivial, ?_, trivial⟩
    rw [hi]; simp [abs]
  | fswap i j =>
    -- the free function calls the member: the same thunk sequence
    by_cases hij : i = j
    · subst hij
      simp only [step, swap, if_true, bind, Except.bind, Spec.step, Refines]
      refine ⟨⟨hc, ht⟩, ?_, trivial, trivial⟩
      abs_pt i, i
    · have hne : Addr.obj i ≠ Addr.obj j := by intro h; cases h; exact hij rfl
      have e1 := swap_ok hc ht (obj_ne_tmp i) (obj_ne_tmp j) hne
      simp only [step, bind, Except.bind, e1, Spec.step, Refines]
      refine ⟨⟨?_, ?_⟩, ?_, trivial, trivial⟩
      · inv_pt hc i, j
      · simp [upd]
      · abs_pt i, j
  | eqNull i =>
    have hi := hc (.obj i)
    simp only [step, toBool, Spec.step, Refines]
    refine ⟨⟨hc, ht⟩, trivial, ?_, trivial⟩
    rw [hi]; cases hm : s.mem (.obj i) <;> simp [abs, hm]
  | neNull i =>
    have hi := hc (.obj i)
    simp only [step, toBool, Spec.step, Refines]
    refine ⟨⟨hc, ht⟩, trivial, ?_, trivial⟩
    rw [hi]; simp [abs]


example : Inv St.init ∧ Spec.valid (.ctorFrom 0 1 false .l) = true := ⟨inv_init, rfl⟩

/-- refinement of whole histories -/
def RefinesRun (r : Except Err (St × List Out × Log)) (sp : Spec.ASt × List Out × Log) : Prop :=
  match r with
  | .ok (s', os, lg) => Inv s' ∧ abs s' = sp.1 ∧ os = sp.2.1 ∧ lg = sp.2.2
  | .error _ => False

/-- Every history (any length, any objects, self-assignment and self-swap included) of
    construct / copy / move / assign / swap / reset / call keeps the invariant, never fails, and produces exactly the
    outputs, the call log and the final owners of the abstract semantics. -/
theorem run_refines : ∀ (ops : List Op) (s : St), Inv s → ops.all Spec.valid = true →
    RefinesRun (run s ops) (Spec.run (abs s) ops)
  | [], s, hinv, _ => by simp [run, Spec.run, RefinesRun, hinv]
  | op :: ops, s, hinv, hv => by
    have hv1 : Spec.valid op = true := by simp [List.all_cons] at hv; exact hv.1
    have hv2 : ops.all Spec.valid = true := by simp [List.all_cons] at hv; simpa using hv.2
    obtain ⟨s1, hs1, hinv1, habs1⟩ := refines_ok (step_refines hinv op hv1)
    have ih := run_refines ops s1 hinv1 hv2
    rw [habs1] at ih
    cases hr : run s1 ops with
    | error e => rw [hr] at ih; exact absurd ih (by simp [RefinesRun])
    | ok v =>
      obtain ⟨s2, os, lg⟩ := v
      rw [hr] at ih
      obtain ⟨i1, i2, i3, i4⟩ := ih
      simp only [run, hs1, hr, bind, Except.bind, Spec.run, RefinesRun]
      exact ⟨i1, i2, by rw [i3], by rw [i4]⟩

example : Inv St.init ∧ ([.ctorFn 0 ⟨3, 5, 0⟩, .swap 0 0, .assignFrom 1 0 false .r, .ctorFrom 2 1 true .l, .call 2 7] : List Op).all Spec.valid = true :=
  ⟨inv_init, by decide⟩

/-- the memory-safety / lifetime face: no history reads a destroyed closure, constructs over a live one, or
    meets a vtable of another type -/
theorem run_never_errors (ops : List Op) (hv : ops.all Spec.valid = true) :
    ∃ r, run St.init ops = .ok r := by
  have := run_refines ops St.init inv_init hv
  cases h : run St.init ops with
  | ok r => exact ⟨r, rfl⟩
  | error e => rw [h] at this; exact absurd this (by simp [RefinesRun])

/-- the invariant (vtable matches storage, no temporary alive) holds after every history -/
theorem inv_history (ops : List Op) (hv : ops.all Spec.valid = true) :
    ∀ r, run St.init ops = .ok r → Inv r.1 := by
  intro r hr
  have := run_refines ops St.init inv_init hv
  rw [hr] at this
  exact this.1

/-- an empty wrapper reports `bad_function_call`, calls nothing and changes nothing -/
theorem empty_never_calls {s : St} (hinv : Inv s) (i : Nat) (x : Int) (he : abs s i = none) :
    step s (.call i x) = .ok (s, .res .bad, []) := by
  have hv : s.vt (.obj i) = none := by rw [hinv.1 (.obj i)]; simp [show s.mem (.obj i) = none from he]
  simp [step, call, hv, bind, Except.bind]

example : Inv St.init ∧ abs St.init 2 = none := ⟨inv_init, rfl⟩

/-- a non-empty wrapper calls its target exactly once: one log entry, for the stored target, with the given
    argument; the target's result is returned unchanged; only the target's own state advances -/
theorem call_once {s : St} (hinv : Inv s) (i : Nat) (x : Int) (f : Fn) (hf : abs s i = some f) :
    ∃ s', step s (.call i x) = .ok (s', .res (.ret (fnResult f x)), [fnLog f x]) ∧ Inv s' ∧
      abs s' = Spec.set (abs s) i (some { f with n := f.n + 1 }) := by
  obtain ⟨s', h1, h2, h3⟩ := refines_ok (step_refines hinv (.call i x) rfl)
  simp only [Spec.step, hf] at h1 h3
  exact ⟨s', h1, h2, h3⟩

example : Inv St.init ∧ abs St.init 0 = none := ⟨inv_init, rfl⟩
example : ∃ s, step St.init (.ctorFn 0 ⟨3, 5, 0⟩) = .ok (s, .unit, []) ∧ Inv s ∧ abs s 0 = some ⟨3, 5, 0⟩ := by
  obtain ⟨s', h1, h2, h3⟩ := refines_ok (step_refines inv_init (.ctorFn 0 ⟨3, 5, 0⟩) rfl)
  exact ⟨s', h1, h2, by rw [h3]; rfl⟩

/-- copying — construction from a source expression of any category but a non-const rvalue: a non-const lvalue, a const lvalue,
    a const rvalue; from the same or (`conv`) from another specialisation — yields two wrappers with equivalent targets; in
    particular the copy of an empty wrapper is empty; nothing else changes.  (Formerly stated for the const-lvalue form only.) -/
theorem copy_equivalent {s : St} (hinv : Inv s) (i j : Nat) (conv : Bool) (q : Cat) (hq : Spec.gives q = false) (hij : i ≠ j) :
    ∃ s', step s (.ctorFrom i j conv q) = .ok (s', .unit, []) ∧ Inv s' ∧
      abs s' i = abs s j ∧ abs s' j = abs s j ∧ ∀ k, k ≠ i → abs s' k = abs s k := by
  have hv : Spec.valid (.ctorFrom i j conv q) = true := by simp [Spec.valid, hij]
  obtain ⟨s', h1, h2, h3⟩ := refines_ok (step_refines hinv _ hv)
  refine ⟨s', h1, h2, ?_, ?_, ?_⟩ <;> simp [h3, Spec.step, hq, Spec.set, Ne.symm hij]
  intro k hk; simp [hk]

example : Inv St.init ∧ Spec.gives .l = false ∧ Spec.gives .k = false ∧ (0 : Nat) ≠ 1 := ⟨inv_init, rfl, rfl, by decide⟩

/-- moving — construction from a non-const rvalue — transfers the target and leaves the source empty -/
theorem move_transfers {s : St} (hinv : Inv s) (i j : Nat) (conv : Bool) (hij : i ≠ j) :
    ∃ s', step s (.ctorFrom i j conv .r) = .ok (s', .unit, []) ∧ Inv s' ∧
      abs s' i = abs s j ∧ abs s' j = none ∧ ∀ k, k ≠ i → k ≠ j → abs s' k = abs s k := by
  have hv : Spec.valid (.ctorFrom i j conv .r) = true := by simp [Spec.valid, hij]
  obtain ⟨s', h1, h2, h3⟩ := refines_ok (step_refines hinv _ hv)
  refine ⟨s', h1, h2, ?_, ?_, ?_⟩ <;> simp [h3, Spec.step, Spec.gives, Spec.set, Ne.symm hij]
  intro k hk hkj; simp [hk, hkj]

/-- a wrapper constructed or assigned from an EMPTY wrapper is empty — whatever the category of the source expression and
    whether or not the source is of another specialisation: it reports empty (`operator bool`, `== nullptr`, `!= nullptr`)
    and a call reports `bad_function_call` and calls nothing -/
theorem from_empty_is_empty {s : St} (hinv : Inv s) (i j : Nat) (conv : Bool) (q : Cat) (hij : i ≠ j) (he : abs s j = none) :
    (∃ s', step s (.ctorFrom i j conv q) = .ok (s', .unit, []) ∧ Inv s' ∧ abs s' i = none ∧
        step s' (.bool i) = .ok (s', .flag false, []) ∧ step s' (.eqNull i) = .ok (s', .flag true, []) ∧
        step s' (.neNull i) = .ok (s', .flag false, []) ∧ ∀ x, step s' (.call i x) = .ok (s', .res .bad, [])) ∧
    (∃ s', step s (.assignFrom i j conv q) = .ok (s', .unit, []) ∧ Inv s' ∧ abs s' i = none ∧
        step s' (.bool i) = .ok (s', .flag false, []) ∧ step s' (.eqNull i) = .ok (s', .flag true, []) ∧
        step s' (.neNull i) = .ok (s', .flag false, []) ∧ ∀ x, step s' (.call i x) = .ok (s', .res .bad, [])) := by
  have obs : ∀ s' : St, Inv s' → abs s' i = none →
      step s' (.bool i) = .ok (s', .flag false, []) ∧ step s' (.eqNull i) = .ok (s', .flag true, []) ∧
      step s' (.neNull i) = .ok (s', .flag false, []) ∧ ∀ x, step s' (.call i x) = .ok (s', .res .bad, []) := by
    intro s' hinv' he'
    have hv : s'.vt (.obj i) = none := by rw [hinv'.1 (.obj i)]; simp [show s'.mem (.obj i) = none from he']
    refine ⟨?_, ?_, ?_, ?_⟩ <;> simp [step, toBool, call, hv, bind, Except.bind]
  constructor
  · have hv : Spec.valid (.ctorFrom i j conv q) = true := by simp [Spec.valid, hij]
    obtain ⟨s', h1, h2, h3⟩ := refines_ok (step_refines hinv _ hv)
    have h4 : abs s' i = none := by simp [h3, Spec.step, Spec.set, he]
    exact ⟨s', h1, h2, h4, obs s' h2 h4⟩
  · obtain ⟨s', h1, h2, h3⟩ := refines_ok (step_refines hinv (.assignFrom i j conv q) rfl)
    have h4 : abs s' i = none := by simp [h3, Spec.step, Spec.set, he]
    exact ⟨s', h1, h2, h4, obs s' h2 h4⟩

example : Inv St.init ∧ (0 : Nat) ≠ 3 ∧ abs St.init 3 = none := ⟨inv_init, by decide, rfl⟩

/-- swapping exchanges the targets — and a self-swap changes nothing -/
theorem swap_exchanges {s : St} (hinv : Inv s) (i j : Nat) :
    ∃ s', step s (.swap i j) = .ok (s', .unit, []) ∧ Inv s' ∧
      abs s' i = abs s j ∧ abs s' j = abs s i ∧ ∀ k, k ≠ i → k ≠ j → abs s' k = abs s k := by
  obtain ⟨s', h1, h2, h3⟩ := refines_ok (step_refines hinv (.swap i j) rfl)
  refine ⟨s', h1, h2, ?_, ?_, ?_⟩
  · by_cases h : i = j <;> simp [h3, Spec.step, Spec.set, h]
  · simp [h3, Spec.step, Spec.set]
  · intro k hk hkj; simp [h3, Spec.step, Spec.set, hk, hkj]

/-- assignment from a source expression of any category (also from itself, also from another specialisation) makes the
    target of `j` the target of `i`; from anything but a non-const rvalue the source and every other wrapper are unchanged;
    from a non-const rvalue the source is emptied unless it is `i` itself -/
theorem assign_equivalent {s : St} (hinv : Inv s) (i j : Nat) (conv : Bool) (q : Cat) :
    ∃ s', step s (.assignFrom i j conv q) = .ok (s', .unit, []) ∧ Inv s' ∧ abs s' i = abs s j ∧
      (Spec.gives q = false → ∀ k, k ≠ i → abs s' k = abs s k) ∧
      (Spec.gives q = true → i ≠ j → abs s' j = none) := by
  obtain ⟨s', h1, h2, h3⟩ := refines_ok (step_refines hinv (.assignFrom i j conv q) rfl)
  refine ⟨s', h1, h2, ?_, ?_, ?_⟩
  · simp [h3, Spec.step, Spec.set]
  · intro hq k hk; simp [h3, Spec.step, hq, Spec.set, hk]
  · intro hq hij; simp [h3, Spec.step, hq, Spec.set, Ne.symm hij]

/-- the free `swap(lhs, rhs)` exchanges the targets exactly as the member does -/
theorem fswap_exchanges {s : St} (hinv : Inv s) (i j : Nat) :
    ∃ s', step s (.fswap i j) = .ok (s', .unit, []) ∧ Inv s' ∧
      abs s' i = abs s j ∧ abs s' j = abs s i ∧ ∀ k, k ≠ i → k ≠ j → abs s' k = abs s k := by
  obtain ⟨s', h1, h2, h3⟩ := refines_ok (step_refines hinv (.fswap i j) rfl)
  refine ⟨s', h1, h2, ?_, ?_, ?_⟩
  · by_cases h : i = j <;> simp [h3, Spec.step, Spec.set, h]
  · simp [h3, Spec.step, Spec.set]
  · intro k hk hkj; simp [h3, Spec.step, Spec.set, hk, hkj]

/-- `f == nullptr` (and `nullptr == f`) holds exactly for an empty wrapper, `f != nullptr` exactly for a non-empty one; neither
    changes anything or calls anything -/
theorem null_comparison {s : St} (hinv : Inv s) (i : Nat) :
    step s (.eqNull i) = .ok (s, .flag (abs s i).isNone, []) ∧ step s (.neNull i) = .ok (s, .flag (abs s i).isSome, []) := by
  have hi := hinv.1 (.obj i)
  constructor <;> (simp only [step, toBool, hi]; cases hm : s.mem (.obj i) <;> simp [abs, hm])

example : Inv St.init ∧ (abs St.init 1).isNone = true := ⟨inv_init, rfl⟩

/-! ## reference_wrapper / function_ref as objects: copy, rebinding -/

/-- the pointer members the model computes by executing the history forwards designate exactly the target the
    specification finds by resolving the history backwards from its most recent operation -/
theorem refPtrs_designates (ops : List RefOp) (w : Nat) : refPtrs ops w = Spec.designates ops w := by
  rw [refPtrs, Spec.designates, foldl_desFrom, desFrom_none]

/-- copying a wrapper yields a wrapper that designates the same target; the source and every other wrapper are unchanged -/
theorem ref_copy_equivalent (ops : List RefOp) (w v : Nat) :
    refPtrs (ops ++ [.copy w v]) w = refPtrs ops v ∧ ∀ u, u ≠ w → refPtrs (ops ++ [.copy w v]) u = refPtrs ops u := by
  simp only [refPtrs, List.foldl_append, List.foldl_cons, List.foldl_nil, refStep]
  exact ⟨by simp, fun u hu => by simp [hu]⟩

/-- assignment rebinds the assigned wrapper only: it then designates what the right-hand side designates; copies made
    earlier keep their target -/
theorem ref_assign_rebinds (ops : List RefOp) (w v : Nat) :
    refPtrs (ops ++ [.assign w v]) w = refPtrs ops v ∧ ∀ u, u ≠ w → refPtrs (ops ++ [.assign w v]) u = refPtrs ops u := by
  simp only [refPtrs, List.foldl_append, List.foldl_cons, List.foldl_nil, refStep]
  exact ⟨by simp, fun u hu => by simp [hu]⟩

/-- a call through a `reference_wrapper` object after any history of construction, copy and assignment: exactly one call, of
    the target the wrapper designates, as an lvalue (const for `reference_wrapper<T const>`), arguments unchanged -/
theorem refWrap_object_once (ops : List RefOp) (w tid : Nat) (cst : Bool) (args : List Arg)
    (hd : Spec.designates ops w = some tid) :
    ∃ out, refCallAfter ops w (fun t => refWrapCall t cst args) = .ok out ∧
      Spec.CalledOnce tid (some (if cst then .c else .l)) args (resultOf tid (args.map (·.2))) out := by
  rw [refCallAfter, refPtrs_designates, hd]
  exact refWrap_once tid cst args

example : Spec.designates [.bind 0 4, .bind 1 9, .assign 0 1, .copy 2 0] 2 = some 9 := by decide

/-- the same for a `function_ref` object (`mk t` = the referenced entity for target `t`) -/
theorem functionRef_object_once (ops : List RefOp) (w t : Nat) (mk : Nat → Callee) (args : List Arg) (tid : Nat)
    (self : Option Cat) (hd : Spec.designates ops w = some t) (ht : Spec.frefTarget? (mk t) = some (tid, self)) :
    ∃ out, refCallAfter ops w (fun t => functionRefCall (mk t) args) = .ok out ∧
      Spec.CalledOnce tid self (args.map Spec.arrives) (resultOf tid (args.map (·.2))) out := by
  rw [refCallAfter, refPtrs_designates, hd]
  exact functionRef_once (mk t) args tid self ht

example : Spec.designates [.bind 0 9, .bind 1 4, .assign 0 1] 0 = some 4 ∧
    Spec.frefTarget? ((fun t => Callee.fob t .c) 4) = some (4, some .c) := by decide

/-! ## pointers to members through apply / bind_front / not_fn, and the stateless not_fn -/

/-- `apply(pm, t)` with a pointer to member function: one call of the member on the first tuple element, which has the
    tuple's category, with the remaining elements in order and in the tuple's category -/
theorem applyMember_once (mk : ObjK → Callee) (tc : Cat) (rest : List Int) (tid : Nat) (self : Option Cat)
    (ht : Spec.target? (mk (.obj tc)) = some (tid, self)) :
    ∃ out, applyMember mk tc rest = .ok out ∧
      Spec.CalledOnce tid self (rest.map (fun v => (Via.fwd tc, v))) (resultOf tid rest) out := by
  have := apply_once (mk (.obj tc)) tc rest tid self ht
  simpa [applyMember, apply] using this

example : Spec.target? ((fun o => Callee.memfn 5 o) (.obj .k)) = some (5, some .k) := rfl

/-- `apply(&S::member, tuple<S>)` yields the member of the element and calls nothing -/
theorem applyMember_data (tc : Cat) (v : Int) : applyMember (fun o => .memdata o v) tc [] = .ok (v, []) := rfl

/-- `not_fn(f)(args...)` and the stateless `not_fn<f>()(args...)` for every callable `f` (function, function object, pointer
    to member function with the object as first argument): one call of `f` as `INVOKE` prescribes, arguments unchanged, the
    result negated -/
theorem notFnOf_once (f : Callee) (pred : Bool) (args : List Arg) (tid : Nat) (self : Option Cat)
    (ht : Spec.target? f = some (tid, self)) :
    ∃ out, notFnOf f pred args = .ok out ∧ Spec.CalledOnce tid self args (!pred) out := by
  obtain ⟨o, ho, ⟨h1, h2, _⟩⟩ := invoke_once f args tid self ht
  refine ⟨(!pred, o.2), ?_, ⟨h1, h2, rfl⟩⟩
  simp [notFnOf, ho, bind, Except.bind]

example : Spec.target? (.memfn 11 (.obj .r)) = some (11, some .r) := rfl

/-- around a pointer to data member nothing is called: the negation of the member's truth value -/
theorem notFnOf_data (o : ObjK) (v : Int) (pred : Bool) : notFnOf (.memdata o v) pred [] = .ok (!pred, []) := rfl

/-- `bind_front(pm, obj)(args...)` through a `q`-qualified wrapper: one call of the member on the stored object qualified like
    the wrapper — or on the pointee of a stored pointer / reference_wrapper, whatever the qualification —, call arguments unchanged -/
theorem bindFrontMember_once (mk : ObjK → Callee) (q : Cat) (o : BoundObj) (args : List Arg) (tid : Nat) (self : Option Cat)
    (ht : Spec.target? (mk (o.expr q)) = some (tid, self)) :
    ∃ out, bindFrontMember mk q o args = .ok out ∧ Spec.CalledOnce tid self args (resultOf tid (args.map (·.2))) out := by
  have := bindFront_once (fun q' => mk (o.expr q')) q [] args tid self ht
  simpa [bindFrontMember] using this

example : Spec.target? ((fun k => Callee.memfn 5 k) (BoundObj.expr .k (.ptr .l))) = some (5, some .l) := rfl
example : Spec.target? ((fun k => Callee.memfn 5 k) (BoundObj.expr .k .obj)) = some (5, some .k) := rfl

end Tetl.C20.Props
