/- Lemmas about the C integer semantics helpers (Tetl/CSem.lean), shared by the T-tied properties. -/
import Tetl.CSem
namespace Tetl.CSem

theorem wrapU_def (w : Nat) (x : Int) : wrapU w x = x % ((2 ^ w : Nat) : Int) := rfl
@[simp] theorem wrapU8 (x : Int) : wrapU 8 x = x % 256 := rfl
@[simp] theorem wrapU32 (x : Int) : wrapU 32 x = x % 4294967296 := rfl
@[simp] theorem wrapU64 (x : Int) : wrapU 64 x = x % 18446744073709551616 := rfl
@[simp] theorem wrapS16 (x : Int) : wrapS 16 x = (x + 32768) % 65536 - 32768 := rfl
@[simp] theorem wrapS32 (x : Int) : wrapS 32 x = (x + 2147483648) % 4294967296 - 2147483648 := rfl
@[simp] theorem wrapS64 (x : Int) : wrapS 64 x = (x + 9223372036854775808) % 18446744073709551616 - 9223372036854775808 := rfl
@[simp] theorem inRangeS32 (x : Int) : inRangeS 32 x = (decide (-2147483648 ≤ x) && decide (x < 2147483648)) := rfl
@[simp] theorem inRangeS64 (x : Int) : inRangeS 64 x = (decide (-9223372036854775808 ≤ x) && decide (x < 9223372036854775808)) := rfl
@[simp] theorem mkDur_def (x : Int) : mkDur x = (x + 2147483648) % 4294967296 - 2147483648 := rfl

theorem wrapS16_id (x : Int) (h : -32768 ≤ x ∧ x < 32768) : wrapS 16 x = x := by
  simp only [wrapS16]; omega
theorem wrapS32_id (x : Int) (h : -2147483648 ≤ x ∧ x < 2147483648) : wrapS 32 x = x := by
  simp only [wrapS32]; omega
theorem wrapS64_id (x : Int) (h : -9223372036854775808 ≤ x ∧ x < 9223372036854775808) : wrapS 64 x = x := by
  simp only [wrapS64]; omega
theorem wrapU8_id (x : Int) (h : 0 ≤ x ∧ x < 256) : wrapU 8 x = x := by
  simp only [wrapU8]; omega
theorem wrapU32_id (x : Int) (h : 0 ≤ x ∧ x < 4294967296) : wrapU 32 x = x := by
  simp only [wrapU32]; omega
theorem mkDur_id (x : Int) (h : -2147483648 ≤ x ∧ x < 2147483648) : mkDur x = x := by
  simp only [mkDur_def]; omega

theorem cdiv_pos (a b : Int) (hb : 0 < b) : cdiv a b = if 0 ≤ a then a / b else -((-a) / b) := by
  unfold cdiv
  split
  · exact Int.tdiv_eq_ediv_of_nonneg ‹_›
  · have : a = -(-a) := by omega
    rw [this, Int.neg_tdiv, Int.tdiv_eq_ediv_of_nonneg (by omega)]
    simp

theorem cmod_pos (a b : Int) (hb : 0 < b) : cmod a b = if 0 ≤ a then a % b else -((-a) % b) := by
  unfold cmod
  split
  · exact Int.tmod_eq_emod_of_nonneg ‹_›
  · have : a = -(-a) := by omega
    rw [this, Int.neg_tmod, Int.tmod_eq_emod_of_nonneg (by omega)]
    simp


/-- case-split every `if`, turn the `decide … = true` hypotheses into propositions, finish with `omega` -/
macro "c_omega" : tactic =>
  `(tactic| ((repeat' split) <;>
      (try simp only [decide_eq_true_eq, decide_eq_false_iff_not, Bool.not_eq_true, ge_iff_le, gt_iff_lt,
        Int.not_le, Int.not_lt, beq_iff_eq, bne_iff_ne, ne_eq] at *) <;> omega))

end Tetl.CSem
