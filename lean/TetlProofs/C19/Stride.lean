/- C19: injectivity of explicit (padded, permuted) strides under the standard's uniqueness precondition. -/
import Mathlib.Data.List.Perm.Subperm
import TetlProofs.C19.Lemmas
namespace Tetl.C19.Lemmas
open Tetl Tetl.C19 Tetl.C19.Spec

/-- Σ over a list of dimension numbers -/
def offSum (s i : List Nat) (ks : List Nat) : Nat := (ks.map (fun k => i.getD k 0 * s.getD k 0)).sum

theorem offStride_eq_offSum : ∀ (s i : List Nat), s.length = i.length → offStride s i = offSum s i (List.range s.length)
  | [], [], _ => by simp [offStride, offSum]
  | s :: ss, i :: is, h => by
      have ih := offStride_eq_offSum ss is (by simpa using h)
      simp only [offStride, ih, offSum, List.length_cons]
      rw [List.range_succ_eq_map]
      simp [List.map_map, Function.comp_def]
  | [], _ :: _, h => by simp at h
  | _ :: _, [], h => by simp at h

theorem offSum_perm (s i : List Nat) (a b : List Nat) (h : a.Perm b) : offSum s i a = offSum s i b :=
  (h.map _).sum_nat

theorem perm_range (perm : List Nat) (n : Nat) (hl : perm.length = n) (hall : ∀ k, k < n → k ∈ perm) :
    (List.range n).Perm perm := by
  have hsub : List.range n ⊆ perm := fun k hk => hall k (List.mem_range.mp hk)
  exact (List.nodup_range.subperm hsub).perm_of_length_le (by simp [hl])

theorem permPairs_spec (e s i : List Nat) (he : InRange e i) (hs : s.length = e.length) :
    ∀ (perm : List Nat) (l : List (Nat × Nat)), permPairs e s perm = some l →
      offP l (perm.map (fun k => i.getD k 0)) = offSum s i perm ∧ InRangeP l (perm.map (fun k => i.getD k 0))
  | [], l, h => by
      simp [permPairs] at h
      subst h
      simp [offP, offSum, InRangeP]
  | k :: ks, l, h => by
      simp only [permPairs, List.mapM_cons, Option.bind_eq_bind] at h
      cases hek : e[k]? with
      | none => simp [hek] at h
      | some a =>
        cases hsk : s[k]? with
        | none => simp [hek, hsk] at h
        | some b =>
          cases hr : permPairs e s ks with
          | none => simp [hek, hsk, permPairs] at h hr; simp [hr] at h
          | some rest =>
            have hl : l = (a, b) :: rest := by
              simp only [permPairs] at hr
              simp [hek, hsk, hr] at h
              exact h.symm
            subst hl
            obtain ⟨ih1, ih2⟩ := permPairs_spec e s i he hs ks rest hr
            have hk : k < e.length := by
              rcases Nat.lt_or_ge k e.length with h' | h'
              · exact h'
              · rw [List.getElem?_eq_none h'] at hek; cases hek
            have hlen := inRange_length e i he
            have hik : i.getD k 0 = i[k]'(by omega) := by simp [List.getD_eq_getElem?_getD, List.getElem?_eq_getElem (by omega : k < i.length)]
            have hsk' : s.getD k 0 = b := by simp [List.getD_eq_getElem?_getD, hsk]
            have hek' : e[k]'hk = a := by
              rw [List.getElem?_eq_getElem hk] at hek; exact Option.some.inj hek
            have hlt := inRange_getElem e i he k (by omega) hk
            refine ⟨?_, ?_⟩
            · simp only [List.map_cons, offP, ih1, offSum, List.sum_cons, hsk']
            · simp only [List.map_cons, InRangeP]
              exact ⟨by rw [hik, ← hek']; exact hlt, ih2⟩

theorem offStride_inj (e s perm i j : List Nat) (hok : StrideOK e s perm = true) (hi : InRange e i) (hj : InRange e j)
    (h : offStride s i = offStride s j) : i = j := by
  unfold StrideOK at hok
  simp only [Bool.and_eq_true, decide_eq_true_eq, List.all_eq_true, List.mem_range, List.contains_iff_mem] at hok
  obtain ⟨⟨⟨hs, hp⟩, hall⟩, hd⟩ := hok
  cases hl : permPairs e s perm with
  | none => simp [hl] at hd
  | some l =>
    simp only [hl, decide_eq_true_eq] at hd
    have hli := inRange_length e i hi
    have hlj := inRange_length e j hj
    have hperm := perm_range perm e.length hp (fun k hk => by simpa using hall k hk)
    obtain ⟨a1, a2⟩ := permPairs_spec e s i hi hs perm l hl
    obtain ⟨b1, b2⟩ := permPairs_spec e s j hj hs perm l hl
    rw [offStride_eq_offSum s i (by omega), offStride_eq_offSum s j (by omega), hs,
      offSum_perm s i _ _ hperm, offSum_perm s j _ _ hperm, ← a1, ← b1] at h
    have hmap := offP_inj l _ _ hd a2 b2 h
    rw [List.map_inj_left] at hmap
    apply List.ext_getElem (by omega)
    intro k h1 h2
    have hk : k ∈ perm := by simpa using hall k (by omega)
    have := hmap k hk
    simpa [List.getD_eq_getElem?_getD, List.getElem?_eq_getElem h1, List.getElem?_eq_getElem h2] using this

end Tetl.C19.Lemmas
