/- C19: `layout_stride::mapping::operator==` and the converting constructors between layout_stride and
   layout_left / layout_right mappings. -/
import TetlProofs.C19.StrideModel
import TetlProofs.C19.Members
import TetlProofs.C19.Extents
namespace Tetl.C19.Lemmas
open Tetl Tetl.C19 Tetl.C19.Spec

theorem seq_zeros_inRange : ∀ (e : List Nat), prod e ≠ 0 → InRange e (List.replicate e.length 0)
  | [], _ => trivial
  | x :: es, h => by
    simp only [prod] at h
    have hx : x ≠ 0 := fun h0 => h (by simp [h0])
    have hes : prod es ≠ 0 := fun h0 => h (by simp [h0])
    exact ⟨Nat.pos_of_ne_zero hx, seq_zeros_inRange es hes⟩

theorem seq_offStride_zeros : ∀ (s : List Nat) (n : Nat), offStride s (List.replicate n 0) = 0
  | [], _ => by simp [offStride]
  | _ :: _, 0 => by simp [offStride]
  | x :: ss, n + 1 => by simp [List.replicate_succ, offStride, seq_offStride_zeros ss n]

theorem seq_offLeft_zeros : ∀ (s : List Nat) (n : Nat), offLeft s (List.replicate n 0) = 0
  | [], _ => by simp [offLeft]
  | _ :: _, 0 => by simp [offLeft]
  | x :: ss, n + 1 => by simp [List.replicate_succ, offLeft, seq_offLeft_zeros ss n]

theorem seq_offR_zeros : ∀ (s : List Nat) (n : Nat), offR s (List.replicate n 0) = 0
  | [], _ => by simp [offR]
  | _ :: _, 0 => by simp [offR]
  | x :: ss, n + 1 => by simp [List.replicate_succ, offR, seq_offR_zeros ss n]

theorem seq_offSpec_zeros (l : Lay) (e : List Nat) : offSpec l e (List.replicate e.length 0) = 0 := by
  cases l with
  | left => exact seq_offLeft_zeros e _
  | right => simp only [offSpec]; rw [offRight_eq e _ (by simp)]; exact seq_offR_zeros e _

theorem seq_map_zeros (n : Nat) : (List.replicate n (0 : Nat)).map Int.ofNat = List.replicate n (0 : Int) := by
  simp

theorem seq_strideEqLoop (m : StrideMap) (oStride : Nat → Except Err Int) :
    ∀ (a b : List Nat) (k : Nat), a.length = b.length →
      (∀ j (h : j < a.length), m.stride (k + j) = .ok ((a[j] : Nat) : Int)) →
      (∀ j (h : j < b.length), oStride (k + j) = .ok ((b[j] : Nat) : Int)) →
      strideEqLoop m oStride (List.range' k a.length) = .ok (decide (a = b))
  | [], [], k, _, _, _ => by simp [strideEqLoop]
  | x :: as, y :: bs, k, hl, ha, hb => by
    have h0 := ha 0 (by simp)
    have h1 := hb 0 (by simp)
    simp only [Nat.add_zero, List.getElem_cons_zero] at h0 h1
    simp only [List.length_cons, List.range'_succ, strideEqLoop, h0, h1, bind, Except.bind, pure, Except.pure]
    by_cases hxy : x = y
    · subst hxy
      rw [if_neg (by simp)]
      rw [seq_strideEqLoop m oStride as bs (k + 1) (by simpa using hl)
        (fun j h => by have := ha (j + 1) (by simp; omega); simpa [Nat.add_assoc, Nat.add_comm 1 j] using this)
        (fun j h => by have := hb (j + 1) (by simp; omega); simpa [Nat.add_assoc, Nat.add_comm 1 j] using this)]
      simp
    · rw [if_pos (by intro h; exact hxy (by exact_mod_cast h))]
      simp [hxy]
  | [], _ :: _, _, h, _, _ => by simp at h
  | _ :: _, [], _, h, _, _ => by simp at h

theorem seq_stridesOfLoop (t : IdxT) (hv : IdxT.Valid t) (get : Nat → Except Err Int) :
    ∀ (vs : List Nat) (pre : List Int) (k : Nat), pre.length = k →
      (∀ j (h : j < vs.length), get (k + j) = .ok ((vs[j] : Nat) : Int)) →
      (∀ x ∈ vs, x ≤ t.maxV) →
      stridesOfLoop t get (List.range' k vs.length) (pre ++ List.replicate vs.length 0)
        = .ok (pre ++ vs.map Int.ofNat)
  | [], pre, k, _, _, _ => by simp [stridesOfLoop]
  | v :: vs, pre, k, hk, hg, hm => by
    have h0 := hg 0 (by simp)
    simp only [Nat.add_zero, List.getElem_cons_zero] at h0
    have hw : t.wrap ((v : Nat) : Int) = ((v : Nat) : Int) :=
      wrap_id t hv _ (Int.natCast_nonneg _) (by exact_mod_cast hm v (by simp))
    have hwr : wr (pre ++ List.replicate (vs.length + 1) (0 : Int)) k ((v : Nat) : Int)
        = .ok ((pre ++ [((v : Nat) : Int)]) ++ List.replicate vs.length 0) := by
      unfold wr
      rw [if_pos (by simp; omega)]
      subst hk
      simp [List.replicate_succ]
    simp only [List.length_cons, List.range'_succ, stridesOfLoop, h0, hw, hwr, bind, Except.bind]
    rw [seq_stridesOfLoop t hv get vs (pre ++ [((v : Nat) : Int)]) (k + 1) (by simp [hk])
      (fun j h => by have := hg (j + 1) (by simp; omega); simpa [Nat.add_assoc, Nat.add_comm 1 j] using this)
      (fun x hx => hm x (by simp [hx]))]
    simp

/-- the strides `stride(0) … stride(rank-1)` of a contiguous layout -/
def stridesSpec (l : Lay) (vals : List Nat) : List Nat := (List.range vals.length).map (strideSpec l vals)

theorem seq_offsetOf (ts : IdxT) (hvs : IdxT.Valid ts) (oe : Ext) (ovals : List Nat) (oMap : List Int → Except Err Int)
    (hoe : ExtIs ts oe ovals) (hfe : Fits ts ovals)
    (hmap : prod ovals ≠ 0 → oMap (List.replicate ovals.length 0) = .ok 0) :
    offsetOf ts oe oMap ovals.length = .ok 0 := by
  have hsz : sz 0 = 0 := by simp [sz]
  unfold offsetOf
  split
  · rename_i h0
    have hnil : ovals = [] := List.eq_nil_of_length_eq_zero h0
    subst hnil
    have := hmap (by simp [prod])
    simp only [List.length_nil, List.replicate_zero] at this
    simp only [this, bind, Except.bind, pure, Except.pure, hsz]
  · rw [fwdProd_eq ts hvs oe ovals hoe hfe ovals.length (Nat.le_refl _), List.take_length]
    simp only [bind, Except.bind, pure, Except.pure]
    by_cases hp : prod ovals = 0
    · rw [if_pos (by simp [hp])]
    · rw [if_neg (by exact_mod_cast hp), hmap hp]
      simp only [hsz]

theorem seq_eqMapping (t ts : IdxT) (hvs : IdxT.Valid ts) (e oe : Ext) (vals ovals s os : List Nat)
    (oStride : Nat → Except Err Int) (oMap : List Int → Except Err Int)
    (he : ExtIs t e vals) (hoe : ExtIs ts oe ovals) (hrank : ovals.length = vals.length)
    (hs : s.length = vals.length) (hos : os.length = ovals.length) (hfe : Fits ts ovals)
    (hstr : ∀ r (h : r < os.length), oStride r = .ok ((os[r] : Nat) : Int))
    (hmap : prod ovals ≠ 0 → oMap (List.replicate ovals.length 0) = .ok 0) :
    (smap e s).eqMapping t ts oe oStride oMap = .ok (decide (vals = ovals ∧ s = os)) := by
  unfold StrideMap.eqMapping
  have hext : (smap e s).ext = e := rfl
  rw [hext, if_neg (by rw [he.1, hoe.1]; omega), extEq_eq t ts e oe vals ovals he hoe]
  simp only [bind, Except.bind, pure, Except.pure]
  by_cases hveq : vals = ovals
  · subst hveq
    simp only [decide_true, Bool.not_true, Bool.false_eq_true, if_false, true_and]
    rw [he.1, seq_offsetOf ts hvs oe vals oMap hoe hfe hmap]
    simp only [ne_eq, not_true_eq_false, if_false]
    have := seq_strideEqLoop (smap e s) oStride s os 0 (by omega)
      (fun j h => by rw [Nat.zero_add]; exact smap_stride_eq e vals s he.1 hs j h)
      (fun j h => by rw [Nat.zero_add]; exact hstr j h)
    rw [List.range_eq_range', ← hs]
    exact this
  · simp [hveq]

/-- `operator==` between two strided mappings (any two index types): true exactly when extents and strides agree -/
theorem smap_eq_smap (t ts : IdxT) (hv : IdxT.Valid t) (hvs : IdxT.Valid ts) (e oe : Ext) (vals ovals s os : List Nat)
    (he : ExtIs t e vals) (hoe : ExtIs ts oe ovals) (hrank : ovals.length = vals.length)
    (hs : s.length = vals.length) (hos : os.length = ovals.length)
    (hfo : FitsStride ts ovals os) (hfe : Fits ts ovals) :
    (smap e s).eqMapping t ts oe (smap oe os).stride ((smap oe os).mapIdx ts) = .ok (decide (vals = ovals ∧ s = os)) := by
  have _ := hv
  apply seq_eqMapping t ts hvs e oe vals ovals s os _ _ he hoe hrank hs hos hfe
  · intro r h
    exact smap_stride_eq oe ovals os hoe.1 hos r h
  · intro hp
    have := smap_mapIdx_eq ts hvs oe ovals os hoe hos hfo (List.replicate ovals.length 0) (seq_zeros_inRange ovals hp)
    rw [seq_map_zeros, seq_offStride_zeros] at this
    exact this

/-- `operator==` between a strided mapping and a layout_left / layout_right mapping -/
theorem smap_eq_contig (t ts : IdxT) (hv : IdxT.Valid t) (hvs : IdxT.Valid ts) (l : Lay) (e oe : Ext) (vals ovals s : List Nat)
    (he : ExtIs t e vals) (hoe : ExtIs ts oe ovals) (hrank : ovals.length = vals.length)
    (hs : s.length = vals.length) (hfe : Fits ts ovals) :
    (smap e s).eqMapping t ts oe (stride l ts oe) (mapIdx l ts oe) = .ok (decide (vals = ovals ∧ s = stridesSpec l ovals)) := by
  have _ := hv
  apply seq_eqMapping t ts hvs e oe vals ovals s (stridesSpec l ovals) _ _ he hoe hrank hs (by simp [stridesSpec]) hfe
  · intro r h
    have hr : r < ovals.length := by simpa [stridesSpec] using h
    rw [stride_eq l ts hvs oe ovals hoe hfe r hr]
    simp [stridesSpec]
  · intro hp
    have := mapIdx_eq l ts hvs oe ovals hoe hfe (List.replicate ovals.length 0) (seq_zeros_inRange ovals hp)
    rw [seq_map_zeros, seq_offSpec_zeros] at this
    exact this

theorem seq_strideSpec_le (t : IdxT) (l : Lay) (vals : List Nat) (hf : Fits t vals) (r : Nat) (hr : r < vals.length) :
    strideSpec l vals r ≤ t.maxV := by
  cases l with
  | left =>
    have := hf 0 (by omega) r (by omega)
    simpa [strideSpec, strideLeft] using this
  | right =>
    have := hf (r + 1) (by omega) (vals.length) (by omega)
    rw [List.take_of_length_le (by simp)] at this
    simpa [strideSpec, strideRight] using this

theorem seq_ofMapping (t ts : IdxT) (hv : IdxT.Valid t) (p : Pat) (src : Ext) (vals ss : List Nat)
    (get : Nat → Except Err Int)
    (hsrc : ExtIs ts src vals) (hc : Consistent p vals) (hm : ∀ x ∈ vals, x ≤ t.maxV) (hss : ss.length = vals.length)
    (hms : ∀ x ∈ ss, x ≤ t.maxV) (hget : ∀ j (h : j < ss.length), get j = .ok ((ss[j] : Nat) : Int)) :
    ∃ m, StrideMap.ofMapping t ts p src get = .ok m ∧ ExtIs t m.ext vals
      ∧ m.strides = ss.map Int.ofNat := by
  obtain ⟨e, h1, h2⟩ := conv_extIs t ts hv p src vals hsrc hc hm
  have hlen := consistent_length p vals hc
  have hloop := seq_stridesOfLoop t hv get ss [] 0 rfl (fun j h => by rw [Nat.zero_add]; exact hget j h) hms
  simp only [List.nil_append] at hloop
  refine ⟨{ ext := e, strides := ss.map Int.ofNat }, ?_, h2, rfl⟩
  unfold StrideMap.ofMapping
  rw [h1, hlen, ← hss, List.range_eq_range', hloop]
  rfl

/-- `layout_stride::mapping(layout_left/right::mapping const&)`: same extents, the strides of the contiguous layout -/
theorem ofMapping_contig (t ts : IdxT) (hv : IdxT.Valid t) (hvs : IdxT.Valid ts) (l : Lay) (p : Pat) (src : Ext) (vals : List Nat)
    (hsrc : ExtIs ts src vals) (hc : Consistent p vals) (hft : Fits t vals) (hfs : Fits ts vals) :
    ∃ m, StrideMap.ofMapping t ts p src (stride l ts src) = .ok m ∧ ExtIs t m.ext vals
      ∧ m.strides = (stridesSpec l vals).map Int.ofNat := by
  have hm : ∀ x ∈ vals, x ≤ t.maxV := by
    intro x hx
    obtain ⟨k, hk, rfl⟩ := List.getElem_of_mem hx
    exact fits_elem t vals hft k hk
  apply seq_ofMapping t ts hv p src vals (stridesSpec l vals) _ hsrc hc hm (by simp [stridesSpec])
  · intro x hx
    simp only [stridesSpec, List.mem_map, List.mem_range] at hx
    obtain ⟨r, hr, rfl⟩ := hx
    exact seq_strideSpec_le t l vals hft r hr
  · intro j h
    have hj : j < vals.length := by simpa [stridesSpec] using h
    rw [stride_eq l ts hvs src vals hsrc hfs j hj]
    simp [stridesSpec]

/-- `layout_stride::mapping(layout_stride::mapping<OtherExtents> const&)`: same extents, same strides -/
theorem ofMapping_stride (t ts : IdxT) (hv : IdxT.Valid t) (p : Pat) (src : Ext) (vals ss : List Nat)
    (hsrc : ExtIs ts src vals) (hc : Consistent p vals) (hm : ∀ x ∈ vals, x ≤ t.maxV) (hss : ss.length = vals.length)
    (hms : ∀ x ∈ ss, x ≤ t.maxV) :
    ∃ m, StrideMap.ofMapping t ts p src (smap src ss).stride = .ok m ∧ ExtIs t m.ext vals
      ∧ m.strides = ss.map Int.ofNat :=
  seq_ofMapping t ts hv p src vals ss _ hsrc hc hm hss hms
    (fun j h => smap_stride_eq src vals ss hsrc.1 hss j h)

/-- `layout_left/right::mapping(layout_stride::mapping<OtherExtents> const&)` keeps the extents -/
theorem contigOfStride_eq (t ts : IdxT) (hv : IdxT.Valid t) (p : Pat) (src : Ext) (vals ss : List Nat)
    (hsrc : ExtIs ts src vals) (hc : Consistent p vals) (hm : ∀ x ∈ vals, x ≤ t.maxV) :
    ∃ r, contigOfStride t ts p (smap src ss) = .ok r ∧ ExtIs t r vals :=
  conv_extIs t ts hv p src vals hsrc hc hm

end Tetl.C19.Lemmas
