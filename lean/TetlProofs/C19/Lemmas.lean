/- C19 helper lemmas (mixed-radix arithmetic, product loops). -/
import Tetl.C19.Model
import Tetl.C19.Spec
namespace Tetl.C19.Lemmas
open Tetl Tetl.C19

theorem offLeft_lt : ∀ (e i : List Nat), Spec.InRange e i → Spec.offLeft e i < Spec.prod e
  | [], [], _ => by simp [Spec.offLeft, Spec.prod]
  | e :: es, i :: is, h => by
      obtain ⟨h1, h2⟩ := h
      have ih := offLeft_lt es is h2
      simp only [Spec.offLeft, Spec.prod]
      calc i + e * Spec.offLeft es is < e + e * Spec.offLeft es is := by omega
        _ = e * (Spec.offLeft es is + 1) := by rw [Nat.mul_add]; omega
        _ ≤ e * Spec.prod es := Nat.mul_le_mul_left e ih
  | [], _ :: _, h => by simp [Spec.InRange] at h
  | _ :: _, [], h => by simp [Spec.InRange] at h

end Tetl.C19.Lemmas
