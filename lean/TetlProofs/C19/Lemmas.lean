/- C19 helper lemmas: mixed-radix closed forms (column-major, row-major, explicit strides). -/
import Tetl.C19.Model
import Tetl.C19.Spec
namespace Tetl.C19.Lemmas
open Tetl Tetl.C19 Tetl.C19.Spec

/-! ### products -/

theorem prod_append (a b : List Nat) : prod (a ++ b) = prod a * prod b := by
  induction a with
  | nil => simp [prod]
  | cons x xs ih => simp [prod, ih, Nat.mul_assoc]

theorem prod_take_succ (l : List Nat) (m : Nat) (h : m < l.length) :
    prod (l.take (m + 1)) = prod (l.take m) * l[m] := by
  rw [List.take_succ_eq_append_getElem h, prod_append]
  simp [prod]

theorem prod_eq_zero_of_mem (l : List Nat) (h : 0 ∈ l) : prod l = 0 := by
  induction l with
  | nil => simp at h
  | cons x xs ih =>
    simp only [List.mem_cons] at h
    rcases h with h | h
    · subst h; simp [prod]
    · simp [prod, ih h]

/-! ### in-range multi-indices -/

theorem inRange_length : ∀ (e i : List Nat), InRange e i → e.length = i.length
  | [], [], _ => rfl
  | e :: es, i :: is, h => by simp [inRange_length es is h.2]
  | [], _ :: _, h => by simp [InRange] at h
  | _ :: _, [], h => by simp [InRange] at h

theorem inRange_getElem : ∀ (e i : List Nat), InRange e i → ∀ k (h1 : k < i.length) (h2 : k < e.length), i[k] < e[k]
  | [], [], _, k, h1, _ => by simp at h1
  | e :: es, i :: is, h, 0, _, _ => by simpa using h.1
  | e :: es, i :: is, h, k + 1, h1, h2 => by
      simpa using inRange_getElem es is h.2 k (by simpa using h1) (by simpa using h2)
  | [], _ :: _, h, _, _, _ => by simp [InRange] at h
  | _ :: _, [], h, _, _, _ => by simp [InRange] at h

theorem not_inRange_of_zero : ∀ (e i : List Nat), 0 ∈ e → ¬ InRange e i
  | [], _, h => by simp at h
  | _ :: _, [], _ => by simp [InRange]
  | e :: es, i :: is, h => by
      intro hr
      simp only [List.mem_cons] at h
      rcases h with h | h
      · have := hr.1; omega
      · exact not_inRange_of_zero es is h hr.2

theorem inRange_pos_prod : ∀ (e i : List Nat), InRange e i → 0 < prod e
  | [], [], _ => by simp [prod]
  | e :: es, i :: is, h => by
      have := inRange_pos_prod es is h.2
      have h1 := h.1
      simp only [prod]
      exact Nat.mul_pos (by omega) this
  | [], _ :: _, h => by simp [InRange] at h
  | _ :: _, [], h => by simp [InRange] at h

/-! ### column-major closed form -/

theorem offLeft_lt : ∀ (e i : List Nat), InRange e i → offLeft e i < prod e
  | [], [], _ => by simp [offLeft, prod]
  | e :: es, i :: is, h => by
      obtain ⟨h1, h2⟩ := h
      have ih := offLeft_lt es is h2
      simp only [offLeft, prod]
      calc i + e * offLeft es is < e + e * offLeft es is := by omega
        _ = e * (offLeft es is + 1) := by rw [Nat.mul_add]; omega
        _ ≤ e * prod es := Nat.mul_le_mul_left e ih
  | [], _ :: _, h => by simp [InRange] at h
  | _ :: _, [], h => by simp [InRange] at h

theorem offLeft_inj : ∀ (e i j : List Nat), InRange e i → InRange e j → offLeft e i = offLeft e j → i = j
  | [], [], [], _, _, _ => rfl
  | e :: es, i :: is, j :: js, hi, hj, h => by
      obtain ⟨hi1, hi2⟩ := hi
      obtain ⟨hj1, hj2⟩ := hj
      simp only [offLeft] at h
      have hmod : (i + e * offLeft es is) % e = (j + e * offLeft es js) % e := by rw [h]
      rw [Nat.add_mul_mod_self_left, Nat.add_mul_mod_self_left, Nat.mod_eq_of_lt hi1, Nat.mod_eq_of_lt hj1] at hmod
      subst hmod
      have hpos : 0 < e := by omega
      have : offLeft es is = offLeft es js := Nat.eq_of_mul_eq_mul_left hpos (Nat.add_left_cancel h)
      rw [offLeft_inj es is js hi2 hj2 this]
  | [], [], _ :: _, _, hj, _ => by simp [InRange] at hj
  | [], _ :: _, _, hi, _, _ => by simp [InRange] at hi
  | _ :: _, [], _, hi, _, _ => by simp [InRange] at hi
  | _ :: _, _ :: _, [], _, hj, _ => by simp [InRange] at hj

/-! ### row-major closed form -/

/-- Σ i_k * prod (e.drop (k+1)) -/
def offR : List Nat → List Nat → Nat
  | e :: es, i :: is => i * prod es + offR es is
  | _, _ => 0

theorem offRightAux_eq : ∀ (e i : List Nat) (acc : Nat), e.length = i.length →
    offRightAux acc e i = acc * prod e + offR e i
  | [], [], acc, _ => by simp [offRightAux, offR, prod]
  | e :: es, i :: is, acc, h => by
      simp only [offRightAux, offR, prod]
      rw [offRightAux_eq es is _ (by simpa using h), Nat.add_mul, Nat.mul_assoc]; omega
  | [], _ :: _, _, h => by simp at h
  | _ :: _, [], _, h => by simp at h

theorem offRight_eq (e i : List Nat) (h : e.length = i.length) : offRight e i = offR e i := by
  simp [offRight, offRightAux_eq e i 0 h]

theorem offR_lt : ∀ (e i : List Nat), InRange e i → offR e i < prod e
  | [], [], _ => by simp [offR, prod]
  | e :: es, i :: is, h => by
      obtain ⟨h1, h2⟩ := h
      have ih := offR_lt es is h2
      simp only [offR, prod]
      calc i * prod es + offR es is < i * prod es + prod es := by omega
        _ = (i + 1) * prod es := by rw [Nat.add_mul]; omega
        _ ≤ e * prod es := Nat.mul_le_mul_right _ (by omega)
  | [], _ :: _, h => by simp [InRange] at h
  | _ :: _, [], h => by simp [InRange] at h

theorem digit_unique (P a b x y : Nat) (hx : x < P) (hy : y < P) (h : a * P + x = b * P + y) : a = b ∧ x = y := by
  have h1 : (a * P + x) % P = (b * P + y) % P := by rw [h]
  rw [Nat.mul_comm a, Nat.mul_comm b, Nat.mul_add_mod, Nat.mul_add_mod, Nat.mod_eq_of_lt hx, Nat.mod_eq_of_lt hy] at h1
  subst h1
  have hP : 0 < P := by omega
  have h2 : a * P = b * P := by omega
  exact ⟨Nat.eq_of_mul_eq_mul_right hP h2, rfl⟩

theorem offR_inj : ∀ (e i j : List Nat), InRange e i → InRange e j → offR e i = offR e j → i = j
  | [], [], [], _, _, _ => rfl
  | e :: es, i :: is, j :: js, hi, hj, h => by
      simp only [offR] at h
      obtain ⟨h1, h2⟩ := digit_unique (prod es) i j _ _ (offR_lt es is hi.2) (offR_lt es js hj.2) h
      subst h1
      rw [offR_inj es is js hi.2 hj.2 h2]
  | [], [], _ :: _, _, hj, _ => by simp [InRange] at hj
  | [], _ :: _, _, hi, _, _ => by simp [InRange] at hi
  | _ :: _, [], _, hi, _, _ => by simp [InRange] at hi
  | _ :: _, _ :: _, [], _, hj, _ => by simp [InRange] at hj

/-! ### explicit strides, dimensions listed by decreasing stride -/

/-- offset over a list of (extent, stride) pairs -/
def offP : List (Nat × Nat) → List Nat → Nat
  | (_, s) :: r, i :: is => i * s + offP r is
  | _, _ => 0

def InRangeP : List (Nat × Nat) → List Nat → Prop
  | [], [] => True
  | (e, _) :: r, i :: is => i < e ∧ InRangeP r is
  | _, _ => False

theorem offP_lt_topBound : ∀ (l : List (Nat × Nat)) (i : List Nat), Desc l → InRangeP l i → offP l i < topBound l
  | [], [], _, _ => by simp [offP, topBound]
  | (e, s) :: r, i :: is, hd, hr => by
      obtain ⟨hd1, hd2⟩ := hd
      obtain ⟨hr1, hr2⟩ := hr
      have ih := offP_lt_topBound r is hd2 hr2
      simp only [offP, topBound]
      calc i * s + offP r is < i * s + s := by omega
        _ = (i + 1) * s := by rw [Nat.add_mul]; omega
        _ ≤ e * s := Nat.mul_le_mul_right _ (by omega)
        _ = s * e := Nat.mul_comm _ _
  | [], _ :: _, _, h => by simp [InRangeP] at h
  | _ :: _, [], _, h => by simp [InRangeP] at h

theorem offP_inj : ∀ (l : List (Nat × Nat)) (i j : List Nat), Desc l → InRangeP l i → InRangeP l j →
    offP l i = offP l j → i = j
  | [], [], [], _, _, _, _ => rfl
  | (e, s) :: r, i :: is, j :: js, hd, hi, hj, h => by
      simp only [offP] at h
      have hx := Nat.lt_of_lt_of_le (offP_lt_topBound r is hd.2 hi.2) hd.1
      have hy := Nat.lt_of_lt_of_le (offP_lt_topBound r js hd.2 hj.2) hd.1
      obtain ⟨h1, h2⟩ := digit_unique s i j _ _ hx hy h
      subst h1
      rw [offP_inj r is js hd.2 hi.2 hj.2 h2]
  | [], [], _ :: _, _, _, hj, _ => by simp [InRangeP] at hj
  | [], _ :: _, _, _, hi, _, _ => by simp [InRangeP] at hi
  | _ :: _, [], _, _, hi, _, _ => by simp [InRangeP] at hi
  | _ :: _, _ :: _, [], _, _, hj, _ => by simp [InRangeP] at hj

/-! ### explicit strides in the original order of the dimensions -/

theorem offStride_le_max : ∀ (e s i : List Nat), InRange e i → offStride s i ≤ maxOffStride e s
  | [], _, [], _ => by cases ‹List Nat› <;> simp [offStride, maxOffStride]
  | e :: es, [], i :: is, _ => by simp [offStride, maxOffStride]
  | e :: es, s :: ss, i :: is, h => by
      have ih := offStride_le_max es ss is h.2
      have h1 := h.1
      simp only [offStride, maxOffStride]
      have : i * s ≤ (e - 1) * s := Nat.mul_le_mul_right _ (by omega)
      omega
  | [], _, _ :: _, h => by simp [InRange] at h
  | _ :: _, _, [], h => by simp [InRange] at h

theorem offStride_lt_req (e s i : List Nat) (h : InRange e i) : offStride s i < reqSpanStride e s := by
  have hp := inRange_pos_prod e i h
  have := offStride_le_max e s i h
  unfold reqSpanStride
  rw [if_neg (by omega)]
  omega

/-! ### index-type casts -/

/-- the index types of the standard: 1..64 bits -/
def IdxT.Valid (t : IdxT) : Prop := 1 ≤ t.bits ∧ t.bits ≤ 64

theorem two_pow_pred (b : Nat) (h : 1 ≤ b) : (2 : Int) ^ b = 2 * 2 ^ (b - 1) := by
  obtain ⟨c, rfl⟩ : ∃ c, b = c + 1 := ⟨b - 1, by omega⟩
  simp [Int.pow_succ, Int.mul_comm]

theorem maxV_cast (t : IdxT) : ((t.maxV : Nat) : Int) = if t.signed then 2 ^ (t.bits - 1) - 1 else 2 ^ t.bits - 1 := by
  unfold IdxT.maxV
  split
  · have : 1 ≤ 2 ^ (t.bits - 1) := Nat.one_le_two_pow
    rw [Int.ofNat_sub this]; simp
  · have : 1 ≤ 2 ^ t.bits := Nat.one_le_two_pow
    rw [Int.ofNat_sub this]; simp

theorem wrap_id (t : IdxT) (hv : IdxT.Valid t) (x : Int) (h0 : 0 ≤ x) (h1 : x ≤ (t.maxV : Nat)) : t.wrap x = x := by
  rw [maxV_cast] at h1
  unfold IdxT.wrap
  split
  · rename_i hs
    rw [if_pos hs] at h1
    have hp := two_pow_pred t.bits hv.1
    generalize (2 : Int) ^ (t.bits - 1) = H at *
    rw [hp, Int.emod_eq_of_lt (by omega) (by omega)]
    omega
  · rename_i hs
    rw [if_neg hs] at h1
    exact Int.emod_eq_of_lt h0 (by omega)

theorem maxV_lt (t : IdxT) (hv : IdxT.Valid t) : ((t.maxV : Nat) : Int) < 2 ^ 64 := by
  have h64 : (2 : Int) ^ t.bits ≤ 2 ^ 64 := by
    have : (2 : Nat) ^ t.bits ≤ 2 ^ 64 := Nat.pow_le_pow_right (by decide) hv.2
    exact_mod_cast this
  rw [maxV_cast]
  split
  · have hp := two_pow_pred t.bits hv.1
    have : (0 : Int) < 2 ^ (t.bits - 1) := Int.pow_pos (by decide)
    omega
  · omega

theorem sz_id (x : Int) (h0 : 0 ≤ x) (h1 : x < 2 ^ 64) : sz x = x := Int.emod_eq_of_lt h0 h1

theorem toUnsigned_valid (t : IdxT) (hv : IdxT.Valid t) : IdxT.Valid t.toUnsigned := hv

theorem maxV_le_unsigned (t : IdxT) : t.maxV ≤ t.toUnsigned.maxV := by
  unfold IdxT.maxV IdxT.toUnsigned
  simp only []
  split
  · have : 2 ^ (t.bits - 1) ≤ 2 ^ t.bits := Nat.pow_le_pow_right (by decide) (by omega)
    simp; omega
  · simp

/-! ### span -/

theorem rd_ok' {α : Type} (l : List α) (k : Nat) (h : k < l.length) : rd l k = .ok l[k] := by
  simp [rd, List.getElem?_eq_getElem h]

theorem elems_range {α : Type} (base : List α) : ∀ (n off : Nat), off + n ≤ base.length →
    (List.range' off n).mapM (fun k => rd base k) = .ok ((base.drop off).take n) := by
  intro n
  induction n with
  | zero => intro off _; simp; rfl
  | succ n ih =>
    intro off h
    rw [List.range'_succ, List.mapM_cons, rd_ok' base off (by omega), ih (off + 1) (by omega)]
    simp only [bind, Except.bind, pure, Except.pure]
    rw [List.drop_eq_getElem_cons (by omega : off < base.length), List.take_succ_cons]

theorem elems_eq {α : Type} (base : List α) (s : Span) (h : s.off + s.size ≤ base.length) :
    s.elems base = .ok (Spec.subspan base s.off s.size) := by
  unfold Span.elems Spec.subspan
  rw [← elems_range base s.size s.off h]
  have : List.range' s.off s.size = (List.range s.size).map (fun k => s.off + k) := by
    rw [List.range_eq_range', List.map_add_range']
    simp
  rw [this, List.mapM_map]
  rfl

/-- well-formed span over `base`: inside the base range, and a static extent is the size -/
def SpanWF {α : Type} (base : List α) (s : Span) : Prop :=
  s.off + s.size ≤ base.length ∧ ∀ n, s.ext = some n → s.size = n

theorem make_wf {α : Type} (base : List α) (off n : Nat) (ext : Option Nat) (h : off + n ≤ base.length)
    (he : ∀ k, ext = some k → k = n) : SpanWF base (Span.make off n ext) ∧ (Span.make off n ext).off = off
      ∧ (Span.make off n ext).size = n ∧ (Span.make off n ext).ext = ext := by
  cases ext with
  | none => simp [Span.make, SpanWF]; exact h
  | some k =>
    have := he k rfl
    subst this
    simp [Span.make, SpanWF]; exact h

theorem size_le_extVal {α : Type} (base : List α) (s : Span) (hw : SpanWF base s) (hs : s.size ≤ DYN) :
    s.size ≤ extVal s.ext := by
  cases h : s.ext with
  | none => simpa [extVal] using hs
  | some n => simp [extVal, hw.2 n h]

end Tetl.C19.Lemmas
