/- C19: `submdspan_extents` keeps exactly the extents (and static extents) of the kept dimensions, in order: `full_extent`
   keeps the dimension, an index drops it, an index pair `[lo, hi)` yields the extent `hi - lo` (static when both members are
   integral constants). -/
import TetlProofs.C19.Extents
namespace Tetl.C19.Lemmas
open Tetl Tetl.C19 Tetl.C19.Spec

/-- the entries of a list at the kept positions (`true` = `full_extent`, `false` = an index slice) -/
def keepOf {α : Type} : List Bool → List α → List α
  | true :: ks, x :: xs => x :: keepOf ks xs
  | false :: ks, _ :: xs => keepOf ks xs
  | _, _ => []

/-- the extents [mdspan.sub.extents] prescribes for the result: the extent of a `full_extent` dimension, `hi - lo` for an
    index pair; an index drops the dimension -/
def sliceVals : List Slice → List Nat → List Nat
  | .full :: ss, x :: xs => x :: sliceVals ss xs
  | .idx :: ss, _ :: xs => sliceVals ss xs
  | .pair lo hi _ :: ss, _ :: xs => (hi - lo).toNat :: sliceVals ss xs
  | _, _ => []

/-- the static extents [mdspan.sub.extents] prescribes: the static extent of a `full_extent` dimension, `hi - lo` for a
    pair of integral constants, `dynamic_extent` for any other pair -/
def slicePat : List Slice → Pat → Pat
  | .full :: ss, p :: ps => p :: slicePat ss ps
  | .idx :: ss, _ :: ps => slicePat ss ps
  | .pair lo hi st :: ss, _ :: ps => (if st then some (hi - lo).toNat else none) :: slicePat ss ps
  | _, _ => []

/-- precondition of [mdspan.sub.extents] for one slice over a dimension of extent `x`: `0 ≤ lo ≤ hi ≤ x` -/
def SliceOK (x : Nat) : Slice → Prop
  | .pair lo hi _ => 0 ≤ lo ∧ lo ≤ hi ∧ hi ≤ (x : Int)
  | _ => True

instance (x : Nat) : (s : Slice) → Decidable (SliceOK x s)
  | .pair lo hi _ => by unfold SliceOK; exact inferInstance
  | .full => isTrue trivial
  | .idx => isTrue trivial

/-- one slice per dimension, every pair within its extent -/
def SlicesOK : List Slice → List Nat → Prop
  | [], [] => True
  | s :: ss, x :: xs => SliceOK x s ∧ SlicesOK ss xs
  | [], _ :: _ => False
  | _ :: _, [] => False

instance : (sl : List Slice) → (v : List Nat) → Decidable (SlicesOK sl v)
  | [], [] => isTrue trivial
  | s :: ss, x :: xs =>
    have := instDecidableSlicesOK ss xs
    if h : SliceOK x s ∧ SlicesOK ss xs then isTrue h else isFalse h
  | [], _ :: _ => isFalse (fun h => h)
  | _ :: _, [] => isFalse (fun h => h)

theorem sub_ofVals_pat (t : IdxT) (p : Pat) (v : List Int) (r : Ext) (h : Ext.ofVals t p v = .ok r) : r.pat = p := by
  unfold Ext.ofVals at h
  split at h
  · cases h
  · split at h
    · cases h; rfl
    · split at h
      · cases h; rfl
      · simp only [bind, Except.bind, pure, Except.pure] at h
        split at h
        · cases h
        · cases h; rfl

theorem sub_slicesOK_length : ∀ (sl : List Slice) (v : List Nat), SlicesOK sl v → sl.length = v.length
  | [], [], _ => rfl
  | _ :: ss, _ :: xs, h => by simp [sub_slicesOK_length ss xs h.2]
  | [], _ :: _, h => h.elim
  | _ :: _, [], h => h.elim

theorem sub_pair_val (t : IdxT) (hv : IdxT.Valid t) (lo hi : Int) (x : Nat) (hx : x ≤ t.maxV)
    (h : 0 ≤ lo ∧ lo ≤ hi ∧ hi ≤ (x : Int)) :
    t.wrap (t.wrap hi - t.wrap lo) = (((hi - lo).toNat : Nat) : Int) := by
  have hxm : (x : Int) ≤ (t.maxV : Nat) := by exact_mod_cast hx
  rw [wrap_id t hv hi (by omega) (by omega), wrap_id t hv lo (by omega) (by omega),
    wrap_id t hv (hi - lo) (by omega) (by omega)]
  omega

theorem sub_pair_static (t : IdxT) (hv : IdxT.Valid t) (lo hi : Int) (st : Bool) (x : Nat) (hx : x ≤ t.maxV)
    (h : 0 ≤ lo ∧ lo ≤ hi ∧ hi ≤ (x : Int)) :
    pairStaticExtent lo hi st = if st then some (hi - lo).toNat else none := by
  have hxm : (x : Int) ≤ (t.maxV : Nat) := by exact_mod_cast hx
  have hlt := maxV_lt t hv
  unfold pairStaticExtent
  rw [sz_id (hi - lo) (by omega) (by omega)]

theorem sub_sliceVals_le (t : IdxT) : ∀ (sl : List Slice) (v : List Nat), SlicesOK sl v → (∀ x ∈ v, x ≤ t.maxV) →
    ∀ y ∈ sliceVals sl v, y ≤ t.maxV
  | [], [], _, _, y, h => by simp [sliceVals] at h
  | [], _ :: _, h, _, _, _ => h.elim
  | _ :: _, [], h, _, _, _ => h.elim
  | .full :: ss, x :: xs, hok, hm, y, h => by
      simp only [sliceVals, List.mem_cons] at h
      rcases h with h | h
      · exact h ▸ hm x (by simp)
      · exact sub_sliceVals_le t ss xs hok.2 (fun z hz => hm z (List.mem_cons_of_mem _ hz)) y h
  | .idx :: ss, x :: xs, hok, hm, y, h => by
      simp only [sliceVals] at h
      exact sub_sliceVals_le t ss xs hok.2 (fun z hz => hm z (List.mem_cons_of_mem _ hz)) y h
  | .pair lo hi st :: ss, x :: xs, hok, hm, y, h => by
      simp only [sliceVals, List.mem_cons] at h
      rcases h with h | h
      · have h1 : SliceOK x (.pair lo hi st) := hok.1
        simp only [SliceOK] at h1
        have := hm x (by simp)
        omega
      · exact sub_sliceVals_le t ss xs hok.2 (fun z hz => hm z (List.mem_cons_of_mem _ hz)) y h

theorem sub_slice_consistent : ∀ (sl : List Slice) (p : Pat) (v : List Nat), Consistent p v →
    Consistent (slicePat sl p) (sliceVals sl v)
  | [], p, v, _ => by simp [slicePat, sliceVals, Consistent]
  | _ :: _, [], [], _ => by simp [slicePat, sliceVals, Consistent]
  | .full :: ss, p :: ps, v :: vs, h => by
      simp only [slicePat, sliceVals]
      exact ⟨h.1, sub_slice_consistent ss ps vs h.2⟩
  | .idx :: ss, p :: ps, v :: vs, h => by
      simp only [slicePat, sliceVals]
      exact sub_slice_consistent ss ps vs h.2
  | .pair lo hi st :: ss, p :: ps, v :: vs, h => by
      simp only [slicePat, sliceVals]
      refine ⟨?_, sub_slice_consistent ss ps vs h.2⟩
      cases st <;> simp
  | _ :: _, [], _ :: _, h => by simp [Consistent] at h
  | _ :: _, _ :: _, [], h => by simp [Consistent] at h

theorem sub_loop_eq (t : IdxT) (hv : IdxT.Valid t) (e : Ext) (vals : List Nat) (he : ExtIs t e vals)
    (hm : ∀ x ∈ vals, x ≤ t.maxV) :
    ∀ (sl : List Slice) (k : Nat) (p : Pat) (v : List Int), k + sl.length = vals.length → SlicesOK sl (vals.drop k) →
      subLoop t e (List.range' k sl.length) sl p v
        = .ok (p ++ slicePat sl (e.pat.drop k), v ++ (sliceVals sl (vals.drop k)).map Int.ofNat)
  | [], k, p, v, _, _ => by
      simp [subLoop, slicePat, sliceVals]
  | s :: rest, k, p, v, h, hok => by
      have hk : k < vals.length := by simp at h; omega
      have hkp : k < e.pat.length := by rw [he.1]; exact hk
      have ih := sub_loop_eq t hv e vals he hm rest (k + 1)
      rw [List.drop_eq_getElem_cons hk] at hok
      rw [List.length_cons, List.range'_succ, List.drop_eq_getElem_cons hk, List.drop_eq_getElem_cons hkp]
      have hlen : k + 1 + rest.length = vals.length := by simp at h; omega
      cases s with
      | idx =>
        simp only [subLoop, slicePat, sliceVals]
        exact ih p v hlen hok.2
      | full =>
        simp only [subLoop, slicePat, sliceVals, rd_ok e.pat k hkp, he.2 k hk, bind, Except.bind]
        rw [ih _ _ hlen hok.2]
        simp only [List.append_assoc, List.singleton_append, List.map_cons, Int.ofNat_eq_natCast]
      | pair lo hi st =>
        have h1 : SliceOK vals[k] (.pair lo hi st) := hok.1
        simp only [SliceOK] at h1
        have hx := hm vals[k] (by simp)
        simp only [subLoop, slicePat, sliceVals]
        rw [ih _ _ hlen hok.2, sub_pair_val t hv lo hi _ hx h1, sub_pair_static t hv lo hi st _ hx h1]
        simp only [List.append_assoc, List.singleton_append, List.map_cons, Int.ofNat_eq_natCast]

/-- the general statement: any mix of `full_extent`, index and index-pair slices -/
theorem submdspanExtentsS_eq (t : IdxT) (hv : IdxT.Valid t) (e : Ext) (vals : List Nat) (he : ExtIs t e vals)
    (hc : Consistent e.pat vals) (hm : ∀ x ∈ vals, x ≤ t.maxV) (sl : List Slice) (hok : SlicesOK sl vals) :
    ∃ r, submdspanExtentsS t e sl = .ok r ∧ ExtIs t r (sliceVals sl vals) ∧ r.pat = slicePat sl e.pat
      ∧ Consistent r.pat (sliceVals sl vals) := by
  have hk := sub_slicesOK_length sl vals hok
  have hc' := sub_slice_consistent sl e.pat vals hc
  have hm' := sub_sliceVals_le t sl vals hok hm
  obtain ⟨r, hr, hre⟩ := ofVals_extIs t hv (slicePat sl e.pat) (sliceVals sl vals) hc' hm' true
  have hpat := sub_ofVals_pat _ _ _ _ hr
  refine ⟨r, ?_, hre, hpat, by rw [hpat]; exact hc'⟩
  have hloop := sub_loop_eq t hv e vals he hm sl 0 [] [] (by omega) (by simpa using hok)
  simp only [List.drop_zero, List.nil_append] at hloop
  unfold submdspanExtentsS
  rw [if_neg (by rw [hk, he.1]; simp)]
  rw [List.range_eq_range', he.1, ← hk, hloop]
  simpa [ctorArgs, bind, Except.bind] using hr

theorem sub_ofKeep_vals : ∀ (keep : List Bool) (v : List Nat), sliceVals (keep.map Slice.ofKeep) v = keepOf keep v
  | [], v => by simp [sliceVals, keepOf]
  | _ :: _, [] => by simp [sliceVals, keepOf]
  | true :: ks, x :: xs => by simp [Slice.ofKeep, sliceVals, keepOf, sub_ofKeep_vals ks xs]
  | false :: ks, x :: xs => by simp [Slice.ofKeep, sliceVals, keepOf, sub_ofKeep_vals ks xs]

theorem sub_ofKeep_pat : ∀ (keep : List Bool) (p : Pat), slicePat (keep.map Slice.ofKeep) p = keepOf keep p
  | [], p => by simp [slicePat, keepOf]
  | _ :: _, [] => by simp [slicePat, keepOf]
  | true :: ks, x :: xs => by simp [Slice.ofKeep, slicePat, keepOf, sub_ofKeep_pat ks xs]
  | false :: ks, x :: xs => by simp [Slice.ofKeep, slicePat, keepOf, sub_ofKeep_pat ks xs]

theorem sub_ofKeep_ok : ∀ (keep : List Bool) (v : List Nat), keep.length = v.length →
    SlicesOK (keep.map Slice.ofKeep) v
  | [], [], _ => trivial
  | [], _ :: _, h => by simp at h
  | _ :: _, [], h => by simp at h
  | b :: ks, x :: xs, h => by
      simp only [List.map_cons, SlicesOK]
      refine ⟨?_, sub_ofKeep_ok ks xs (by simpa using h)⟩
      cases b <;> simp [Slice.ofKeep, SliceOK]

/-- `full_extent` / index slices only (the statement of the earlier model, now a corollary) -/
theorem submdspanExtents_eq (t : IdxT) (hv : IdxT.Valid t) (e : Ext) (vals : List Nat) (he : ExtIs t e vals)
    (hc : Consistent e.pat vals) (hm : ∀ x ∈ vals, x ≤ t.maxV) (keep : List Bool) (hk : keep.length = vals.length) :
    ∃ r, submdspanExtents t e keep = .ok r ∧ ExtIs t r (keepOf keep vals) ∧ r.pat = keepOf keep e.pat
      ∧ Consistent r.pat (keepOf keep vals) := by
  have h := submdspanExtentsS_eq t hv e vals he hc hm (keep.map Slice.ofKeep) (sub_ofKeep_ok keep vals hk)
  rw [sub_ofKeep_vals, sub_ofKeep_pat] at h
  exact h

end Tetl.C19.Lemmas
