/- C19: `submdspan_extents` with `full_extent` / index slice specifiers keeps exactly the extents (and static extents) of the
   kept dimensions, in order. -/
import TetlProofs.C19.Extents
namespace Tetl.C19.Lemmas
open Tetl Tetl.C19 Tetl.C19.Spec

/-- the entries of a list at the kept positions (`true` = `full_extent`, `false` = an index slice) -/
def keepOf {α : Type} : List Bool → List α → List α
  | true :: ks, x :: xs => x :: keepOf ks xs
  | false :: ks, _ :: xs => keepOf ks xs
  | _, _ => []

theorem sub_ofVals_pat (t : IdxT) (p : Pat) (v : List Int) (r : Ext) (h : Ext.ofVals t p v = .ok r) : r.pat = p := by
  unfold Ext.ofVals at h
  split at h
  · cases h
  · split at h
    · cases h; rfl
    · split at h
      · cases h; rfl
      · simp only [bind, Except.bind, pure, Except.pure] at h
        split at h
        · cases h
        · cases h; rfl

theorem sub_keepOf_mem {α : Type} : ∀ (keep : List Bool) (l : List α) (x : α), x ∈ keepOf keep l → x ∈ l
  | [], l, x, h => by simp [keepOf] at h
  | _ :: _, [], x, h => by simp [keepOf] at h
  | true :: ks, y :: ys, x, h => by
      simp only [keepOf, List.mem_cons] at h ⊢
      rcases h with h | h
      · exact Or.inl h
      · exact Or.inr (sub_keepOf_mem ks ys x h)
  | false :: ks, y :: ys, x, h => by
      simp only [keepOf] at h
      exact List.mem_cons_of_mem _ (sub_keepOf_mem ks ys x h)

theorem sub_keepOf_consistent : ∀ (keep : List Bool) (p : Pat) (v : List Nat), Consistent p v →
    Consistent (keepOf keep p) (keepOf keep v)
  | [], p, v, _ => by simp [keepOf, Consistent]
  | _ :: _, [], [], _ => by simp [keepOf, Consistent]
  | true :: ks, p :: ps, v :: vs, h => by
      simp only [keepOf]
      exact ⟨h.1, sub_keepOf_consistent ks ps vs h.2⟩
  | false :: ks, p :: ps, v :: vs, h => by
      simp only [keepOf]
      exact sub_keepOf_consistent ks ps vs h.2
  | _ :: _, [], _ :: _, h => by simp [Consistent] at h
  | _ :: _, _ :: _, [], h => by simp [Consistent] at h

theorem sub_loop_eq (t : IdxT) (e : Ext) (vals : List Nat) (he : ExtIs t e vals) :
    ∀ (keep : List Bool) (k : Nat) (p : Pat) (v : List Int), k + keep.length = vals.length →
      subLoop t e (List.range' k keep.length) keep p v
        = .ok (p ++ keepOf keep (e.pat.drop k), v ++ (keepOf keep (vals.drop k)).map Int.ofNat)
  | [], k, p, v, _ => by
      simp [subLoop, keepOf]
  | b :: rest, k, p, v, h => by
      have hk : k < vals.length := by simp at h; omega
      have hkp : k < e.pat.length := by rw [he.1]; exact hk
      have ih := sub_loop_eq t e vals he rest (k + 1)
      rw [List.length_cons, List.range'_succ, List.drop_eq_getElem_cons hk, List.drop_eq_getElem_cons hkp]
      cases b with
      | false =>
        simp only [subLoop, keepOf, Bool.false_eq_true, if_false]
        exact ih p v (by simp at h; omega)
      | true =>
        simp only [subLoop, keepOf, if_true, rd_ok e.pat k hkp, he.2 k hk, bind, Except.bind]
        rw [ih _ _ (by simp at h; omega)]
        simp only [List.append_assoc, List.singleton_append, List.map_cons, Int.ofNat_eq_natCast]

theorem submdspanExtents_eq (t : IdxT) (hv : IdxT.Valid t) (e : Ext) (vals : List Nat) (he : ExtIs t e vals)
    (hc : Consistent e.pat vals) (hm : ∀ x ∈ vals, x ≤ t.maxV) (keep : List Bool) (hk : keep.length = vals.length) :
    ∃ r, submdspanExtents t e keep = .ok r ∧ ExtIs t r (keepOf keep vals) ∧ r.pat = keepOf keep e.pat
      ∧ Consistent r.pat (keepOf keep vals) := by
  have hc' := sub_keepOf_consistent keep e.pat vals hc
  have hm' : ∀ x ∈ keepOf keep vals, x ≤ t.maxV := fun x hx => hm x (sub_keepOf_mem keep vals x hx)
  obtain ⟨r, hr, hre⟩ := ofVals_extIs t hv (keepOf keep e.pat) (keepOf keep vals) hc' hm' true
  have hpat := sub_ofVals_pat _ _ _ _ hr
  refine ⟨r, ?_, hre, hpat, by rw [hpat]; exact hc'⟩
  have hloop := sub_loop_eq t e vals he keep 0 [] [] (by omega)
  simp only [List.drop_zero, List.nil_append] at hloop
  unfold submdspanExtents
  rw [if_neg (by rw [hk, he.1]; simp)]
  rw [List.range_eq_range', he.1, ← hk, hloop]
  simpa [ctorArgs, bind, Except.bind] using hr

end Tetl.C19.Lemmas
