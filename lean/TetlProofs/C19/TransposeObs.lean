/- C19: the observers (`is_always_unique / is_always_exhaustive / is_always_strided / is_unique / is_exhaustive / is_strided`) of
   `layout_transpose<L>::mapping` for L = layout_left / layout_right (constants of the nested mapping, and they are TRUE
   statements about the transposed view) and for L = layout_stride (the transposed mapping is exhaustive iff the nested one
   is), plus `layout_transpose<layout_stride>::mapping` itself: operator(), stride, required_span_size, mdspan access. -/
import TetlProofs.C19.Transpose
import TetlProofs.C19.StrideModel
import TetlProofs.C19.Members
namespace Tetl.C19.Lemmas
open Tetl Tetl.C19 Tetl.C19.Spec

/-! ### layout_transpose over layout_left / layout_right -/

/-- every observer of the transposed mapping is the one of the nested layout_left / layout_right mapping: `true` -/
theorem tmap_obs_eq (m : TMap) : m.obs = ⟨true, true, true, true, true, true⟩ := by
  rfl

/-- `is_unique() == true` is correct: distinct in-range index pairs of the view get distinct offsets -/
theorem tmap_unique (t : IdxT) (hv : IdxT.Valid t) (m : TMap) (e0 e1 : Nat) (he : ExtIs t m.nested [e1, e0])
    (hf : Fits t [e1, e0]) (i j i' j' : Nat) (hi : i < e0) (hj : j < e1) (hi' : i' < e0) (hj' : j' < e1)
    (h : m.mapIdx t (i : Int) (j : Int) = m.mapIdx t (i' : Int) (j' : Int)) : i = i' ∧ j = j' := by
  rw [tmap_eq t hv m e0 e1 he hf i j hi hj, tmap_eq t hv m e0 e1 he hf i' j' hi' hj'] at h
  have h2 := Except.ok.inj h
  have h3 : offSpec (flipLay m.lay) [e0, e1] [i, j] = offSpec (flipLay m.lay) [e0, e1] [i', j'] := by
    exact_mod_cast h2
  have h4 := offSpec_inj (flipLay m.lay) [e0, e1] [i, j] [i', j'] ⟨hi, hj, trivial⟩ ⟨hi', hj', trivial⟩ h3
  simp only [List.cons.injEq, and_true] at h4
  exact h4

/-- `is_exhaustive() == true` is correct: every offset below `required_span_size() = e0 * e1` is the image of an in-range
    index pair of the view -/
theorem tmap_exhaustive (t : IdxT) (hv : IdxT.Valid t) (m : TMap) (e0 e1 : Nat) (he : ExtIs t m.nested [e1, e0])
    (hf : Fits t [e1, e0]) (k : Nat) (hk : k < e0 * e1) :
    ∃ i j : Nat, i < e0 ∧ j < e1 ∧ m.mapIdx t (i : Int) (j : Int) = .ok ((k : Nat) : Int) := by
  have he0 : 0 < e0 := by
    rcases Nat.eq_zero_or_pos e0 with h | h
    · subst h; simp at hk
    · exact h
  have he1 : 0 < e1 := by
    rcases Nat.eq_zero_or_pos e1 with h | h
    · subst h; simp at hk
    · exact h
  cases hl : m.lay with
  | left =>
    have hi : k / e1 < e0 := Nat.div_lt_of_lt_mul (by rw [Nat.mul_comm]; exact hk)
    have hj : k % e1 < e1 := Nat.mod_lt _ he1
    refine ⟨k / e1, k % e1, hi, hj, ?_⟩
    rw [tmap_eq t hv m e0 e1 he hf _ _ hi hj, hl]
    congr 2
    simp only [offSpec, flipLay, offRight, offRightAux, Nat.zero_mul, Nat.zero_add]
    have := Nat.div_add_mod k e1
    rw [Nat.mul_comm] at this
    exact this
  | right =>
    have hi : k % e0 < e0 := Nat.mod_lt _ he0
    have hj : k / e0 < e1 := Nat.div_lt_of_lt_mul hk
    refine ⟨k % e0, k / e0, hi, hj, ?_⟩
    rw [tmap_eq t hv m e0 e1 he hf _ _ hi hj, hl]
    congr 2
    simp only [offSpec, flipLay, offLeft, Nat.mul_zero, Nat.add_zero]
    have := Nat.div_add_mod k e0
    omega

/-- `is_strided() == true` is correct: the offset is `i * stride(0) + j * stride(1)` -/
theorem tmap_strided (t : IdxT) (hv : IdxT.Valid t) (m : TMap) (e0 e1 : Nat) (he : ExtIs t m.nested [e1, e0])
    (hf : Fits t [e1, e0]) (i j : Nat) (hi : i < e0) (hj : j < e1) :
    ∃ s0 s1 : Nat, m.stride t 0 = .ok ((s0 : Nat) : Int) ∧ m.stride t 1 = .ok ((s1 : Nat) : Int)
      ∧ m.mapIdx t (i : Int) (j : Int) = .ok ((i * s0 + j * s1 : Nat) : Int) := by
  refine ⟨strideSpec (flipLay m.lay) [e0, e1] 0, strideSpec (flipLay m.lay) [e0, e1] 1,
    tmap_stride_eq t hv m e0 e1 he hf 0 (by decide), tmap_stride_eq t hv m e0 e1 he hf 1 (by decide), ?_⟩
  rw [tmap_eq t hv m e0 e1 he hf i j hi hj]
  congr 2
  cases m.lay with
  | left =>
    simp [offSpec, flipLay, strideSpec, strideRight, prod, offRight, offRightAux]
  | right =>
    simp [offSpec, flipLay, strideSpec, strideLeft, prod, offLeft]
    rw [Nat.mul_comm]

/-! ### layout_transpose over layout_stride

`ne` is the extents object of the nested mapping (extents `[e1, e0]`), `[s0, s1]` its strides; the view has extents
`[e0, e1]` and strides `[s1, s0]`. -/

/-- swapping the two dimensions of a strided mapping changes neither `required_span_size` nor the size of the index space,
    hence not exhaustiveness: the transposed mapping is exhaustive iff the nested one is -/
theorem reqSpanStride_swap (e0 e1 s0 s1 : Nat) : reqSpanStride [e0, e1] [s1, s0] = reqSpanStride [e1, e0] [s0, s1] := by
  simp only [reqSpanStride, maxOffStride, prod, Nat.mul_one, Nat.add_zero]
  rw [Nat.mul_comm e0 e1, Nat.add_comm ((e0 - 1) * s1)]

theorem isExhaustiveStride_swap (e0 e1 s0 s1 : Nat) :
    isExhaustiveStride [e0, e1] [s1, s0] = isExhaustiveStride [e1, e0] [s0, s1] := by
  unfold isExhaustiveStride
  rw [reqSpanStride_swap]
  simp only [prod, Nat.mul_one, Nat.mul_comm e0 e1]

/-- the constructor of `layout_transpose<layout_stride>::mapping` never fails; `extents()` reports the extents of the nested
    mapping swapped; `required_span_size()` is the one of the view's own strided mapping -/
theorem tsmap_make_eq (t : IdxT) (hv : IdxT.Valid t) (ne : Ext) (e0 e1 s0 s1 : Nat) (he : ExtIs t ne [e1, e0])
    (hc : Consistent ne.pat [e1, e0]) (hf : FitsStride t [e1, e0] [s0, s1]) :
    ∃ m, TSMap.make t (smap ne [s0, s1]) = .ok m ∧ m.nested = smap ne [s0, s1] ∧ ExtIs t m.extents [e0, e1]
      ∧ Consistent m.extents.pat [e0, e1]
      ∧ m.reqSpan t = .ok ((reqSpanStride [e0, e1] [s1, s0] : Nat) : Int) := by
  have hb1 : e1 ≤ t.maxV := hf.1 _ (by simp)
  have hb0 : e0 ≤ t.maxV := hf.1 _ (by simp)
  have hne : (smap ne [s0, s1]).ext = ne := rfl
  obtain ⟨r, hr, hre, hrc, _⟩ := transposeExt_extIs t hv ne e1 e0 he hc ⟨hb1, hb0⟩
  refine ⟨{ nested := smap ne [s0, s1], ext := r }, ?_, rfl, hre, hrc, ?_⟩
  · unfold TSMap.make
    simp only [hne, hr, bind, Except.bind, pure, Except.pure]
  · unfold TSMap.reqSpan
    simp only []
    rw [smap_reqSpan_eq t hv ne [e1, e0] [s0, s1] he rfl hf, reqSpanStride_swap]

/-- `operator()(i, j)` = nested mapping at `(j, i)` = `i * s1 + j * s0` -/
theorem tsmap_mapIdx_eq (t : IdxT) (hv : IdxT.Valid t) (m : TSMap) (ne : Ext) (e0 e1 s0 s1 : Nat)
    (hn : m.nested = smap ne [s0, s1]) (he : ExtIs t ne [e1, e0]) (hf : FitsStride t [e1, e0] [s0, s1])
    (i j : Nat) (hi : i < e0) (hj : j < e1) :
    m.mapIdx t (i : Int) (j : Int) = .ok ((offStride [s1, s0] [i, j] : Nat) : Int) := by
  have hr : InRange [e1, e0] [j, i] := ⟨hj, hi, trivial⟩
  have h := smap_mapIdx_eq t hv ne [e1, e0] [s0, s1] he rfl hf [j, i] hr
  simp only [List.map_cons, List.map_nil, Int.ofNat_eq_natCast] at h
  unfold TSMap.mapIdx
  rw [hn]
  simp only [h, bind, Except.bind, pure, Except.pure]
  have hlt := offStride_lt_req [e1, e0] [s0, s1] [j, i] hr
  have hle := hf.2.2
  rw [wrapU_id t hv _ (by omega)]
  congr 2
  simp only [offStride, Nat.add_zero]
  omega

/-- `stride(r)`: the strides of the nested mapping swapped -/
theorem tsmap_stride_eq (t : IdxT) (hv : IdxT.Valid t) (m : TSMap) (ne : Ext) (e0 e1 s0 s1 : Nat)
    (hn : m.nested = smap ne [s0, s1]) (he : ExtIs t ne [e1, e0]) (hf : FitsStride t [e1, e0] [s0, s1]) :
    m.stride t 0 = .ok ((s1 : Nat) : Int) ∧ m.stride t 1 = .ok ((s0 : Nat) : Int) := by
  have h0 := smap_stride_eq ne [e1, e0] [s0, s1] he.1 rfl 0 (by simp)
  have h1 := smap_stride_eq ne [e1, e0] [s0, s1] he.1 rfl 1 (by simp)
  simp only [List.getElem_cons_zero, List.getElem_cons_succ] at h0 h1
  have hb0 : s0 ≤ t.maxV := hf.2.1 _ (by simp)
  have hb1 : s1 ≤ t.maxV := hf.2.1 _ (by simp)
  unfold TSMap.stride
  rw [hn]
  constructor
  · rw [if_neg (by decide : ¬ (0 : Nat) = 2 - 1), if_pos (by decide : (0 : Nat) = 2 - 2)]
    simp only [show (0 : Nat) + 1 = 1 by decide, h1, bind, Except.bind, pure, Except.pure]
    rw [wrapU_id t hv _ hb1]
  · rw [if_pos (by decide : (1 : Nat) = 2 - 1)]
    simp only [show (1 : Nat) - 1 = 0 by decide, h0, bind, Except.bind, pure, Except.pure]
    rw [wrapU_id t hv _ hb0]

/-- the observers forward to the nested strided mapping; `is_exhaustive()` is the exhaustiveness of the VIEW's own strided
    mapping (extents `[e0, e1]`, strides `[s1, s0]`) -/
theorem tsmap_obs_eq (t : IdxT) (hv : IdxT.Valid t) (m : TSMap) (ne : Ext) (e0 e1 s0 s1 : Nat)
    (hn : m.nested = smap ne [s0, s1]) (he : ExtIs t ne [e1, e0]) (hf : FitsStride t [e1, e0] [s0, s1])
    (hfe : Fits t [e1, e0]) :
    m.obs t = (smap ne [s0, s1]).obs t
      ∧ m.obs t = .ok ⟨true, false, true, true, isExhaustiveStride [e0, e1] [s1, s0], true⟩ := by
  have hobs : m.obs t = (smap ne [s0, s1]).obs t := by unfold TSMap.obs; rw [hn]
  refine ⟨hobs, ?_⟩
  rw [hobs]
  unfold StrideMap.obs
  rw [smap_isExhaustive_eq t hv ne [e1, e0] [s0, s1] he rfl hf hfe, isExhaustiveStride_swap]
  rfl

/-- `mdspan::operator()(i, j)` over the transposed strided mapping reads `buffer[i * s1 + j * s0]`, inside any buffer of
    `required_span_size` elements -/
theorem mdspanAtTS_eq {α : Type} (t : IdxT) (hv : IdxT.Valid t) (m : TSMap) (ne : Ext) (e0 e1 s0 s1 : Nat)
    (hn : m.nested = smap ne [s0, s1]) (he : ExtIs t ne [e1, e0]) (hf : FitsStride t [e1, e0] [s0, s1])
    (buf : List α) (hb : reqSpanStride [e0, e1] [s1, s0] ≤ buf.length) (i j : Nat) (hi : i < e0) (hj : j < e1) :
    ∃ h : offStride [s1, s0] [i, j] < buf.length,
      mdspanAtTS t m buf (i : Int) (j : Int) = .ok buf[offStride [s1, s0] [i, j]] := by
  have hr : InRange [e1, e0] [j, i] := ⟨hj, hi, trivial⟩
  have hlt := offStride_lt_req [e1, e0] [s0, s1] [j, i] hr
  have hsw : offStride [s0, s1] [j, i] = offStride [s1, s0] [i, j] := by
    simp only [offStride, Nat.add_zero]; omega
  rw [hsw, ← reqSpanStride_swap] at hlt
  refine ⟨by omega, ?_⟩
  have hb1 : e1 ≤ t.maxV := hf.1 _ (by simp)
  have hb0 : e0 ≤ t.maxV := hf.1 _ (by simp)
  have hwi : t.wrap ((i : Nat) : Int) = ((i : Nat) : Int) :=
    wrap_id t hv _ (Int.natCast_nonneg _) (by exact_mod_cast (by omega : i ≤ t.maxV))
  have hwj : t.wrap ((j : Nat) : Int) = ((j : Nat) : Int) :=
    wrap_id t hv _ (Int.natCast_nonneg _) (by exact_mod_cast (by omega : j ≤ t.maxV))
  unfold mdspanAtTS
  rw [hwi, hwj, tsmap_mapIdx_eq t hv m ne e0 e1 s0 s1 hn he hf i j hi hj]
  simp only [bind, Except.bind]
  have hmax := maxV_lt t hv
  have hle0 := hf.2.2
  rw [← reqSpanStride_swap] at hle0
  have hle : ((offStride [s1, s0] [i, j] : Nat) : Int) ≤ (t.maxV : Nat) := by
    exact_mod_cast (by omega : offStride [s1, s0] [i, j] ≤ t.maxV)
  have hsz : sz ((offStride [s1, s0] [i, j] : Nat) : Int) = ((offStride [s1, s0] [i, j] : Nat) : Int) :=
    sz_id _ (Int.natCast_nonneg _) (by omega)
  rw [hsz, if_neg (by omega)]
  simp only [Int.toNat_natCast]
  exact rd_ok buf _ (by omega)

end Tetl.C19.Lemmas
