/- C19: `extents::operator==`, `mdspan::size / empty / operator[](array | span)`, `mdarray::to_mdspan / container_size`. -/
import TetlProofs.C19.StrideModel
namespace Tetl.C19.Lemmas
open Tetl Tetl.C19 Tetl.C19.Spec

theorem extEqLoop_eq (t1 t2 : IdxT) (a b : Ext) (va vb : List Nat) (ha : ExtIs t1 a va) (hb : ExtIs t2 b vb)
    (hl : va.length = vb.length) :
    ∀ (n k : Nat), k + n = va.length → extEqLoop t1 t2 a b (List.range' k n) = .ok (decide (va.drop k = vb.drop k)) := by
  intro n
  induction n with
  | zero =>
    intro k hk
    have h1 : va.drop k = [] := List.drop_eq_nil_of_le (by omega)
    have h2 : vb.drop k = [] := List.drop_eq_nil_of_le (by omega)
    simp [extEqLoop, h1, h2]
  | succ n ih =>
    intro k hk
    have hka : k < va.length := by omega
    have hkb : k < vb.length := by omega
    have hda := List.drop_eq_getElem_cons hka
    have hdb := List.drop_eq_getElem_cons hkb
    rw [List.range'_succ]
    simp only [extEqLoop, ha.2 k hka, hb.2 k hkb, bind, Except.bind, pure, Except.pure]
    by_cases h : va[k] = vb[k]
    · have hc : ¬ (((va[k] : Nat) : Int) ≠ ((vb[k] : Nat) : Int)) := by simp [h]
      rw [if_neg hc, ih (k + 1) (by omega), hda, hdb]
      congr 1
      apply decide_eq_decide.mpr
      rw [List.cons.injEq]
      exact ⟨fun hh => ⟨h, hh⟩, fun hh => hh.2⟩
    · have hc : ((va[k] : Nat) : Int) ≠ ((vb[k] : Nat) : Int) := by exact_mod_cast h
      rw [if_pos hc, hda, hdb]
      congr 1
      symm
      apply decide_eq_false
      rw [List.cons.injEq]
      exact fun hh => h hh.1

theorem extEq_eq (t1 t2 : IdxT) (a b : Ext) (va vb : List Nat) (ha : ExtIs t1 a va) (hb : ExtIs t2 b vb) :
    Ext.eq t1 t2 a b = .ok (decide (va = vb)) := by
  unfold Ext.eq
  by_cases hl : va.length = vb.length
  · rw [if_neg (by rw [ha.1, hb.1]; exact fun h => h hl)]
    have := extEqLoop_eq t1 t2 a b va vb ha hb hl va.length 0 (by omega)
    rw [ha.1, List.range_eq_range']
    simpa using this
  · rw [if_pos (by rw [ha.1, hb.1]; exact hl)]
    congr 1
    have : va ≠ vb := fun h => hl (by rw [h])
    simp [this]

theorem mdspanSize_eq (t : IdxT) (hv : IdxT.Valid t) (e : Ext) (vals : List Nat) (he : ExtIs t e vals) (hf : Fits t vals) :
    mdspanSize t e = .ok ((prod vals : Nat) : Int) := by
  unfold mdspanSize
  have h := fwdProd_eq t hv e vals he hf vals.length (by omega)
  rw [List.take_length] at h
  rw [he.1, h]
  simp only [bind, Except.bind, pure, Except.pure]
  rw [wrapU_id t hv _ (fits_prod t vals hf)]

theorem mdspanEmpty_eq (t : IdxT) (hv : IdxT.Valid t) (e : Ext) (vals : List Nat) (he : ExtIs t e vals) (hf : Fits t vals) :
    mdspanEmpty t e = .ok (decide (0 ∈ vals)) := by
  unfold mdspanEmpty
  rw [mdspanSize_eq t hv e vals he hf]
  simp only [bind, Except.bind, pure, Except.pure]
  congr 1
  rw [Bool.eq_iff_iff]
  simp only [beq_iff_eq, decide_eq_true_eq, ← prod_eq_zero_iff]
  exact_mod_cast Iff.rfl

theorem mapM_rd_range' {α : Type} (l : List α) : ∀ (n k : Nat), k + n = l.length →
    (List.range' k n).mapM (fun j => rd l j) = .ok (l.drop k) := by
  intro n
  induction n with
  | zero =>
    intro k hk
    have : l.drop k = [] := List.drop_eq_nil_of_le (by omega)
    simp [this, pure, Except.pure]
  | succ n ih =>
    intro k hk
    have hk' : k < l.length := by omega
    rw [List.range'_succ, List.mapM_cons, rd_ok l k hk', ih (k + 1) (by omega), List.drop_eq_getElem_cons hk']
    rfl

theorem mdspanAtSpan_eq {α : Type} (l : Lay) (t : IdxT) (e : Ext) (vals : List Nat) (he : ExtIs t e vals) (buf : List α)
    (indices : List Int) (hl : indices.length = vals.length) :
    mdspanAtSpan l t e buf indices = mdspanAt l t e buf indices := by
  unfold mdspanAtSpan
  have := mapM_rd_range' indices indices.length 0 (by omega)
  rw [he.1, ← hl, List.range_eq_range', this]
  rfl

theorem mdarrayContainerSize_eq (l : Lay) (t : IdxT) (hv : IdxT.Valid t) (e : Ext) (vals : List Nat) (he : ExtIs t e vals)
    (hf : Fits t vals) : mdarrayContainerSize l t e = .ok ((prod vals : Nat) : Int) := by
  unfold mdarrayContainerSize
  rw [reqSpan_eq l t hv e vals he hf]
  simp only [bind, Except.bind, pure, Except.pure]
  have hmax := maxV_lt t hv
  have hle : ((prod vals : Nat) : Int) ≤ (t.maxV : Nat) := by exact_mod_cast fits_prod t vals hf
  rw [sz_id _ (Int.natCast_nonneg _) (by omega)]

theorem mdarrayToMdspanAt_eq (l : Lay) (t : IdxT) (hv : IdxT.Valid t) (e : Ext) (vals : List Nat) (he : ExtIs t e vals)
    (hf : Fits t vals) (idx : List Nat) (hr : InRange vals idx) :
    mdarrayToMdspanAt l t e (idx.map Int.ofNat) = .ok (offSpec l vals idx) := by
  unfold mdarrayToMdspanAt
  rw [mdarrayContainerSize_eq l t hv e vals he hf]
  simp only [bind, Except.bind, Int.toNat_natCast]
  obtain ⟨hlt, h⟩ := mdspanAt_eq l t hv e vals he hf (List.range (prod vals)) (by simp) idx hr
  rw [h]
  simp

end Tetl.C19.Lemmas
