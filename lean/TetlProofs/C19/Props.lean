/-
C19 property theorems: multidimensional and contiguous views address exactly the elements they span.

Notation: `vals` is the vector of extents an `extents` object reports (`ExtIs`), `Fits t vals` the standard's
representability precondition for index type `t`, `InRange vals idx` an in-range multi-index.  `offLeft`,
`offRight` (`offSpec l`), `offStride` are the mixed-radix closed forms of Tetl/C19/Spec.lean.
All statements are for every rank and every extent (no bound).
-/
import TetlProofs.C19.Lemmas
import TetlProofs.C19.Mapping
import TetlProofs.C19.Extents
import TetlProofs.C19.Stride
import TetlProofs.C19.StrideModel
import TetlProofs.C19.Members
import TetlProofs.C19.Transpose
import TetlProofs.C19.StrideEq
import TetlProofs.C19.Exhaustive
import TetlProofs.C19.SubExtents
import TetlProofs.C19.MdArray
import TetlProofs.C19.TransposeObs
import TetlProofs.C19.Objects
namespace Tetl.C19.Props
open Tetl Tetl.C19 Tetl.C19.Spec Tetl.C19.Lemmas

/-! ## closed forms: in-span, injective, zero extents -/

/-- column-major: every in-range multi-index maps below the size of the index space -/
theorem left_in_span (e i : List Nat) (h : InRange e i) : offLeft e i < prod e := offLeft_lt e i h
example : InRange [2, 3] [1, 2] ∧ offLeft [2, 3] [1, 2] = 5 := by decide

/-- column-major: distinct in-range multi-indices map to distinct offsets -/
theorem left_injective (e i j : List Nat) (hi : InRange e i) (hj : InRange e j) (h : offLeft e i = offLeft e j) :
    i = j := offLeft_inj e i j hi hj h
example : InRange [2, 3, 4] [1, 2, 3] ∧ InRange [2, 3, 4] [0, 1, 2] := by decide

/-- row-major: in-span -/
theorem right_in_span (e i : List Nat) (h : InRange e i) : offRight e i < prod e := by
  rw [offRight_eq e i (inRange_length e i h)]; exact offR_lt e i h
example : InRange [2, 3] [1, 2] ∧ offRight [2, 3] [1, 2] = 5 := by decide

/-- row-major: injective -/
theorem right_injective (e i j : List Nat) (hi : InRange e i) (hj : InRange e j) (h : offRight e i = offRight e j) :
    i = j := by
  rw [offRight_eq e i (inRange_length e i hi), offRight_eq e j (inRange_length e j hj)] at h
  exact offR_inj e i j hi hj h
example : InRange [4, 0 + 1, 2] [3, 0, 1] := by decide

/-- a zero extent leaves no in-range multi-index, and the required span size is 0 -/
theorem zero_extent (e i : List Nat) (h : 0 ∈ e) : ¬ InRange e i ∧ prod e = 0 :=
  ⟨not_inRange_of_zero e i h, prod_eq_zero_of_mem e h⟩
example : (0 : Nat) ∈ [2, 0, 3] := by decide

/-- explicit strides: every in-range multi-index maps below `required_span_size` = 1 + the largest offset
    (this is the value the undefined `layout_stride::mapping::required_span_size` must return) -/
theorem stride_in_span (e s i : List Nat) (h : InRange e i) : offStride s i < reqSpanStride e s :=
  offStride_lt_req e s i h
example : InRange [2, 3] [1, 2] ∧ offStride [1, 3] [1, 2] = 7 ∧ reqSpanStride [2, 3] [1, 3] = 8 := by decide

/-- explicit strides satisfying the standard's uniqueness precondition (`StrideOK`: `perm` lists the dimensions by
    decreasing stride and every stride is at least the span of the faster dimensions — padded and permuted strides):
    distinct in-range multi-indices map to distinct offsets -/
theorem stride_injective (e s perm i j : List Nat) (hok : StrideOK e s perm = true) (hi : InRange e i) (hj : InRange e j)
    (h : offStride s i = offStride s j) : i = j := offStride_inj e s perm i j hok hi hj h
example : StrideOK [2, 3, 4] [5, 1, 12] [2, 0, 1] = true ∧ InRange [2, 3, 4] [1, 2, 3] := by decide

/-! ## the model: extents products, strides, required_span_size, operator() -/

/-- `fwd_prod_of_extents(i)` never fails and is the product of the first `i` extents -/
theorem fwd_prod_eq (t : IdxT) (hv : IdxT.Valid t) (e : Ext) (vals : List Nat) (he : ExtIs t e vals) (hf : Fits t vals)
    (i : Nat) (hi : i ≤ vals.length) : e.fwdProd t i = .ok ((prod (vals.take i) : Nat) : Int) :=
  fwdProd_eq t hv e vals he hf i hi

/-- `rev_prod_of_extents(i)` never fails and is the product of the extents after position `i` -/
theorem rev_prod_eq (t : IdxT) (hv : IdxT.Valid t) (e : Ext) (vals : List Nat) (he : ExtIs t e vals) (hf : Fits t vals)
    (i : Nat) (hi : i < vals.length) : e.revProd t i = .ok ((prod (vals.drop (i + 1)) : Nat) : Int) :=
  revProd_eq t hv e vals he hf i hi

/-- `layout_left/right::mapping::stride(r)` is the partial product of the closed form -/
theorem stride_consistent (l : Lay) (t : IdxT) (hv : IdxT.Valid t) (e : Ext) (vals : List Nat) (he : ExtIs t e vals)
    (hf : Fits t vals) (r : Nat) (hr : r < vals.length) :
    stride l t e r = .ok ((strideSpec l vals r : Nat) : Int) := stride_eq l t hv e vals he hf r hr

/-- `required_span_size()` is the size of the index space -/
theorem required_span_size_eq (l : Lay) (t : IdxT) (hv : IdxT.Valid t) (e : Ext) (vals : List Nat) (he : ExtIs t e vals)
    (hf : Fits t vals) : reqSpan l t e = .ok ((prod vals : Nat) : Int) := reqSpan_eq l t hv e vals he hf

/-- `mapping::operator()` (Σ index·stride with the casts of the source) never fails and equals the mixed-radix
    closed form -/
theorem mapIdx_closed_form (l : Lay) (t : IdxT) (hv : IdxT.Valid t) (e : Ext) (vals : List Nat) (he : ExtIs t e vals)
    (hf : Fits t vals) (idx : List Nat) (hr : InRange vals idx) :
    mapIdx l t e (idx.map Int.ofNat) = .ok ((offSpec l vals idx : Nat) : Int) :=
  mapIdx_eq l t hv e vals he hf idx hr

/-- the offset computed by the model lies inside `[0, required_span_size)` -/
theorem mapIdx_in_span (l : Lay) (t : IdxT) (hv : IdxT.Valid t) (e : Ext) (vals : List Nat) (he : ExtIs t e vals)
    (hf : Fits t vals) (idx : List Nat) (hr : InRange vals idx) :
    ∃ o n : Nat, mapIdx l t e (idx.map Int.ofNat) = .ok (o : Int) ∧ reqSpan l t e = .ok (n : Int) ∧ o < n :=
  ⟨_, _, mapIdx_eq l t hv e vals he hf idx hr, reqSpan_eq l t hv e vals he hf, offSpec_lt l vals idx hr⟩

/-- distinct in-range multi-indices get distinct offsets from the model -/
theorem mapIdx_injective (l : Lay) (t : IdxT) (hv : IdxT.Valid t) (e : Ext) (vals : List Nat) (he : ExtIs t e vals)
    (hf : Fits t vals) (i j : List Nat) (hi : InRange vals i) (hj : InRange vals j)
    (h : mapIdx l t e (i.map Int.ofNat) = mapIdx l t e (j.map Int.ofNat)) : i = j := by
  rw [mapIdx_eq l t hv e vals he hf i hi, mapIdx_eq l t hv e vals he hf j hj] at h
  have : offSpec l vals i = offSpec l vals j := by
    have := Except.ok.inj h
    exact_mod_cast this
  exact offSpec_inj l vals i j hi hj this

/-- `mdspan::operator()` with the default accessor reads exactly `buffer[closed-form offset]`, inside any buffer of
    at least `required_span_size` elements (never `.error .oob`) -/
theorem mdspan_access_eq {α : Type} (l : Lay) (t : IdxT) (hv : IdxT.Valid t) (e : Ext) (vals : List Nat)
    (he : ExtIs t e vals) (hf : Fits t vals) (buf : List α) (hb : prod vals ≤ buf.length) (idx : List Nat)
    (hr : InRange vals idx) :
    ∃ h : offSpec l vals idx < buf.length, mdspanAt l t e buf (idx.map Int.ofNat) = .ok buf[offSpec l vals idx] :=
  mdspanAt_eq l t hv e vals he hf buf hb idx hr

/-- `mdarray(mapping)` allocates exactly `required_span_size` elements and `operator()` addresses the element at the
    closed-form offset of its container -/
theorem mdarray_access_eq (l : Lay) (t : IdxT) (hv : IdxT.Valid t) (e : Ext) (vals : List Nat)
    (he : ExtIs t e vals) (hf : Fits t vals) (idx : List Nat) (hr : InRange vals idx) :
    mdarrayAt l t e (idx.map Int.ofNat) = .ok (((prod vals : Nat) : Int), offSpec l vals idx) :=
  mdarrayAt_eq l t hv e vals he hf idx hr

/-- hypotheses of the model theorems are satisfiable: `extents<int, 2, dynamic_extent>{2, 3}` reports [2, 3] -/
example : ∃ e, Ext.ofVals ⟨32, true⟩ [some 2, none] [2, 3] = .ok e ∧ e.extent ⟨32, true⟩ 0 = .ok 2
    ∧ e.extent ⟨32, true⟩ 1 = .ok 3 ∧ Fits ⟨32, true⟩ [2, 3] ∧ IdxT.Valid ⟨32, true⟩ :=
  ⟨_, rfl, rfl, rfl, by decide, ⟨by decide, by decide⟩⟩

/-! ## layout_stride::mapping: the model with the index_type casts

`FitsStride t vals s`: every extent, every stride and `required_span_size` = `reqSpanStride vals s` are representable in
`index_type` ([mdspan.layout.stride.cons] preconditions).  Signed overflow inside `operator()` beyond that precondition is
undefined behaviour of the source and outside the model. -/

/-- `layout_stride::mapping(extents, strides)` never fails, `strides()` is the given array and `stride(k)` its `k`-th
    element -/
theorem stride_ctor_strides_eq (t : IdxT) (hv : IdxT.Valid t) (e : Ext) (vals s : List Nat) (he : ExtIs t e vals)
    (hs : s.length = vals.length) (hf : FitsStride t vals s) :
    ∃ m, StrideMap.mk' t e (s.map Int.ofNat) = .ok m ∧ m.ext = e ∧ m.strides = s.map Int.ofNat
      ∧ ∀ k (hk : k < s.length), m.stride k = .ok ((s[k] : Nat) : Int) :=
  ⟨smap e s, strideMk_eq t hv e vals s he hs hf.2.1, rfl, rfl, fun k hk => smap_stride_eq e vals s he.1 hs k hk⟩
example : FitsStride ⟨8, true⟩ [2, 3, 4] [5, 1, 12] ∧ reqSpanStride [2, 3, 4] [5, 1, 12] = 44 := by decide

/-- `layout_stride::mapping::operator()` (Σ index·stride with the casts of the source) never fails and equals the closed
    form Σ i_k·s_k -/
theorem stride_mapIdx_closed_form (t : IdxT) (hv : IdxT.Valid t) (e : Ext) (vals s : List Nat) (he : ExtIs t e vals)
    (hs : s.length = vals.length) (hf : FitsStride t vals s) (idx : List Nat) (hr : InRange vals idx) :
    ∃ m, StrideMap.mk' t e (s.map Int.ofNat) = .ok m
      ∧ m.mapIdx t (idx.map Int.ofNat) = .ok ((offStride s idx : Nat) : Int) :=
  ⟨smap e s, strideMk_eq t hv e vals s he hs hf.2.1, smap_mapIdx_eq t hv e vals s he hs hf idx hr⟩
example : FitsStride ⟨8, false⟩ [2, 3] [1, 3] ∧ InRange [2, 3] [1, 2] ∧ offStride [1, 3] [1, 2] = 7 := by decide

/-- `layout_stride::mapping::required_span_size()` (defined by the fix) never fails and is
    1 + Σ (e_k − 1)·s_k, and 0 when an extent is 0 -/
theorem stride_required_span_size_eq (t : IdxT) (hv : IdxT.Valid t) (e : Ext) (vals s : List Nat) (he : ExtIs t e vals)
    (hs : s.length = vals.length) (hf : FitsStride t vals s) :
    ∃ m, StrideMap.mk' t e (s.map Int.ofNat) = .ok m
      ∧ m.reqSpan t = .ok ((reqSpanStride vals s : Nat) : Int)
      ∧ reqSpanStride vals s = if 0 ∈ vals then 0 else 1 + maxOffStride vals s := by
  refine ⟨smap e s, strideMk_eq t hv e vals s he hs hf.2.1, smap_reqSpan_eq t hv e vals s he hs hf, ?_⟩
  unfold reqSpanStride
  by_cases h : 0 ∈ vals
  · rw [if_pos h, if_pos ((prod_eq_zero_iff vals).mpr h)]
  · rw [if_neg h, if_neg (fun hp => h ((prod_eq_zero_iff vals).mp hp))]
example : FitsStride ⟨8, true⟩ [2, 0, 4] [5, 1, 12] ∧ reqSpanStride [2, 0, 4] [5, 1, 12] = 0
    ∧ reqSpanStride [2, 3] [4, 1] = 7 := by decide

/-- the offset computed by the strided model lies inside `[0, required_span_size())` of the model -/
theorem stride_mapIdx_in_span (t : IdxT) (hv : IdxT.Valid t) (e : Ext) (vals s : List Nat) (he : ExtIs t e vals)
    (hs : s.length = vals.length) (hf : FitsStride t vals s) (idx : List Nat) (hr : InRange vals idx) :
    ∃ m, StrideMap.mk' t e (s.map Int.ofNat) = .ok m ∧
      ∃ o n : Nat, m.mapIdx t (idx.map Int.ofNat) = .ok (o : Int) ∧ m.reqSpan t = .ok (n : Int) ∧ o < n :=
  ⟨smap e s, strideMk_eq t hv e vals s he hs hf.2.1, _, _, smap_mapIdx_eq t hv e vals s he hs hf idx hr,
    smap_reqSpan_eq t hv e vals s he hs hf, offStride_lt_req vals s idx hr⟩

/-- under the standard's uniqueness precondition distinct in-range multi-indices get distinct offsets from the strided
    model -/
theorem stride_mapIdx_injective (t : IdxT) (hv : IdxT.Valid t) (e : Ext) (vals s perm : List Nat) (he : ExtIs t e vals)
    (hs : s.length = vals.length) (hf : FitsStride t vals s) (hok : StrideOK vals s perm = true) (i j : List Nat)
    (hi : InRange vals i) (hj : InRange vals j) (m : StrideMap) (hm : StrideMap.mk' t e (s.map Int.ofNat) = .ok m)
    (h : m.mapIdx t (i.map Int.ofNat) = m.mapIdx t (j.map Int.ofNat)) : i = j := by
  rw [strideMk_eq t hv e vals s he hs hf.2.1] at hm
  have hm' : smap e s = m := Except.ok.inj hm
  subst hm'
  rw [smap_mapIdx_eq t hv e vals s he hs hf i hi, smap_mapIdx_eq t hv e vals s he hs hf j hj] at h
  have : offStride s i = offStride s j := by
    have := Except.ok.inj h
    exact_mod_cast this
  exact offStride_inj vals s perm i j hok hi hj this
example : StrideOK [2, 3, 4] [5, 1, 12] [2, 0, 1] = true ∧ FitsStride ⟨8, true⟩ [2, 3, 4] [5, 1, 12] := by decide

/-- `layout_stride::mapping::is_exhaustive()` (defined by the fix) never fails and says whether
    `required_span_size()` equals the size of the index space -/
theorem stride_is_exhaustive_eq (t : IdxT) (hv : IdxT.Valid t) (e : Ext) (vals s : List Nat) (he : ExtIs t e vals)
    (hs : s.length = vals.length) (hf : FitsStride t vals s) (hfe : Fits t vals) :
    ∃ m, StrideMap.mk' t e (s.map Int.ofNat) = .ok m ∧ m.isExhaustive t = .ok (isExhaustiveStride vals s) :=
  ⟨smap e s, strideMk_eq t hv e vals s he hs hf.2.1, smap_isExhaustive_eq t hv e vals s he hs hf hfe⟩
example : FitsStride ⟨8, true⟩ [2, 3] [3, 1] ∧ Fits ⟨8, true⟩ [2, 3] ∧ isExhaustiveStride [2, 3] [3, 1] = true
    ∧ isExhaustiveStride [2, 3] [4, 1] = false := by decide

/-- for a non-empty index space and strides satisfying the uniqueness precondition (`perm` lists the dimensions by
    decreasing stride), `is_exhaustive` is true exactly when the strides are a permutation of a contiguous layout: every
    dimension with more than one index has as stride the product of the extents of the faster dimensions (`Contig`; the
    stride of a dimension of extent 1 multiplies the index 0 only) -/
theorem stride_exhaustive_iff_contiguous (vals s perm : List Nat) (l : List (Nat × Nat))
    (hok : StrideOK vals s perm = true) (hl : permPairs vals s perm = some l) (hne : prod vals ≠ 0) :
    isExhaustiveStride vals s = true ↔ Contig l := exhaustive_iff_contig vals s perm l hok hl hne
example : StrideOK [2, 3, 4] [12, 1, 3] [0, 2, 1] = true ∧ permPairs [2, 3, 4] [12, 1, 3] [0, 2, 1] = some [(2, 12), (4, 3), (3, 1)]
    ∧ isExhaustiveStride [2, 3, 4] [12, 1, 3] = true := by decide

/-- the meaning of "exhaustive" in the layout mapping requirements ([mdspan.layout.reqmts]): under the uniqueness
    precondition `is_exhaustive` is true exactly when every offset below `required_span_size` is the image of an in-range
    multi-index -/
theorem stride_exhaustive_iff_surjective (vals s perm : List Nat) (hok : StrideOK vals s perm = true) :
    isExhaustiveStride vals s = true ↔ ∀ k, k < reqSpanStride vals s → ∃ i, InRange vals i ∧ offStride s i = k :=
  exhaustive_iff_surjective vals s perm hok
example : StrideOK [2, 3] [1, 2] [1, 0] = true ∧ isExhaustiveStride [2, 3] [1, 2] = true
    ∧ StrideOK [2, 3] [4, 1] [0, 1] = true ∧ isExhaustiveStride [2, 3] [4, 1] = false := by decide

/-- the literal wording of [mdspan.layout.stride.obs] (fastest stride 1, every other stride = next faster stride times
    its extent, `StdContig`) implies `Contig`, and is equivalent to it when no extent is 1; an empty index space is
    exhaustive (required_span_size = 0 = size) -/
theorem stride_exhaustive_std (vals s perm : List Nat) (l : List (Nat × Nat)) (hok : StrideOK vals s perm = true)
    (hl : permPairs vals s perm = some l) :
    (prod vals = 0 → isExhaustiveStride vals s = true)
    ∧ (prod vals ≠ 0 → StdContig l → isExhaustiveStride vals s = true)
    ∧ (prod vals ≠ 0 → (∀ p ∈ l, 2 ≤ p.1) → isExhaustiveStride vals s = true → StdContig l) := by
  have hd : Desc l := by
    unfold StrideOK at hok
    simp only [Bool.and_eq_true, hl, decide_eq_true_eq] at hok
    exact hok.2
  refine ⟨exhaustive_of_empty vals s, fun hne h => ?_, fun hne h2 h => ?_⟩
  · exact (exhaustive_iff_contig vals s perm l hok hl hne).mpr (contig_of_std l h)
  · exact std_of_contig l hd ((exhaustive_iff_contig vals s perm l hok hl hne).mp h) h2
example : StdContig [(2, 12), (4, 3), (3, 1)] ∧ ¬ StdContig [(1, 5), (2, 1)] ∧ Contig [(1, 5), (2, 1)] :=
  ⟨⟨rfl, rfl, rfl, trivial⟩, fun h => absurd h.1 (by decide), ⟨Or.inl rfl, Or.inr rfl, trivial⟩⟩

/-- `mdspan::operator()` over a `layout_stride` mapping reads exactly `buffer[Σ i_k·s_k]`, inside any buffer of at least
    `required_span_size` elements (never `.error .oob`) -/
theorem mdspan_access_stride_eq {α : Type} (t : IdxT) (hv : IdxT.Valid t) (e : Ext) (vals s : List Nat)
    (he : ExtIs t e vals) (hs : s.length = vals.length) (hf : FitsStride t vals s) (buf : List α)
    (hb : reqSpanStride vals s ≤ buf.length) (idx : List Nat) (hr : InRange vals idx) :
    ∃ m, StrideMap.mk' t e (s.map Int.ofNat) = .ok m ∧
      ∃ h : offStride s idx < buf.length, mdspanAtStride t m buf (idx.map Int.ofNat) = .ok buf[offStride s idx] :=
  ⟨smap e s, strideMk_eq t hv e vals s he hs hf.2.1, mdspanAtStride_eq t hv e vals s he hs hf buf hb idx hr⟩

/-- `mdarray` over a `layout_stride` mapping (usable since `required_span_size` is defined) allocates exactly
    `required_span_size` elements and addresses the element at Σ i_k·s_k -/
theorem mdarray_access_stride_eq (t : IdxT) (hv : IdxT.Valid t) (e : Ext) (vals s : List Nat) (he : ExtIs t e vals)
    (hs : s.length = vals.length) (hf : FitsStride t vals s) (idx : List Nat) (hr : InRange vals idx) :
    ∃ m, StrideMap.mk' t e (s.map Int.ofNat) = .ok m ∧
      mdarrayAtStride t m (idx.map Int.ofNat) = .ok (((reqSpanStride vals s : Nat) : Int), offStride s idx) :=
  ⟨smap e s, strideMk_eq t hv e vals s he hs hf.2.1, mdarrayAtStride_eq t hv e vals s he hs hf idx hr⟩

/-- `operator==` of a strided mapping against another strided mapping (any two index types and extents types of equal
    rank) is true exactly when extents and strides agree -/
theorem stride_eq_stride (t ts : IdxT) (hv : IdxT.Valid t) (hvs : IdxT.Valid ts) (e oe : Ext) (vals ovals s os : List Nat)
    (he : ExtIs t e vals) (hoe : ExtIs ts oe ovals) (hrank : ovals.length = vals.length)
    (hs : s.length = vals.length) (hos : os.length = ovals.length) (hfo : FitsStride ts ovals os) (hfe : Fits ts ovals) :
    (smap e s).eqMapping t ts oe (smap oe os).stride ((smap oe os).mapIdx ts) = .ok (decide (vals = ovals ∧ s = os)) :=
  smap_eq_smap t ts hv hvs e oe vals ovals s os he hoe hrank hs hos hfo hfe

/-- `operator==` of a strided mapping against a layout_left / layout_right mapping: equal extents and the strides of
    that contiguous layout -/
theorem stride_eq_contiguous (t ts : IdxT) (hv : IdxT.Valid t) (hvs : IdxT.Valid ts) (l : Lay) (e oe : Ext)
    (vals ovals s : List Nat) (he : ExtIs t e vals) (hoe : ExtIs ts oe ovals) (hrank : ovals.length = vals.length)
    (hs : s.length = vals.length) (hfe : Fits ts ovals) :
    (smap e s).eqMapping t ts oe (stride l ts oe) (mapIdx l ts oe)
      = .ok (decide (vals = ovals ∧ s = stridesSpec l ovals)) :=
  smap_eq_contig t ts hv hvs l e oe vals ovals s he hoe hrank hs hfe
example : stridesSpec .left [2, 3, 4] = [1, 2, 6] ∧ stridesSpec .right [2, 3, 4] = [12, 4, 1] := by decide

/-- the converting constructors: `layout_stride::mapping` from a layout_left / layout_right mapping has the same extents
    and the strides of that layout; from another strided mapping the same extents and strides; layout_left / layout_right
    from a strided mapping keep the extents.  No array is left. -/
theorem stride_converting_ctors (t ts : IdxT) (hv : IdxT.Valid t) (hvs : IdxT.Valid ts) (p : Pat) (src : Ext)
    (vals : List Nat) (hsrc : ExtIs ts src vals) (hc : Consistent p vals) (hft : Fits t vals) (hfs : Fits ts vals) :
    (∀ l, ∃ m, StrideMap.ofMapping t ts p src (stride l ts src) = .ok m ∧ ExtIs t m.ext vals
        ∧ m.strides = (stridesSpec l vals).map Int.ofNat)
    ∧ (∀ ss : List Nat, ss.length = vals.length → (∀ x ∈ ss, x ≤ t.maxV) →
        (∃ m, StrideMap.ofMapping t ts p src (smap src ss).stride = .ok m ∧ ExtIs t m.ext vals
          ∧ m.strides = ss.map Int.ofNat)
        ∧ ∃ r, contigOfStride t ts p (smap src ss) = .ok r ∧ ExtIs t r vals) := by
  have hm : ∀ x ∈ vals, x ≤ t.maxV := by
    intro x hx
    obtain ⟨k, hk, rfl⟩ := List.getElem_of_mem hx
    exact fits_elem t vals hft k hk
  exact ⟨fun l => ofMapping_contig t ts hv hvs l p src vals hsrc hc hft hfs,
    fun ss hss hms => ⟨ofMapping_stride t ts hv p src vals ss hsrc hc hm hss hms,
      contigOfStride_eq t ts hv p src vals ss hsrc hc hm⟩⟩
example : Consistent [none, some 3] [2, 3] ∧ Fits ⟨8, true⟩ [2, 3] ∧ Fits ⟨16, false⟩ [2, 3] := by decide

/-! ## extents::operator==, mdspan::size / empty / operator[], mdarray::to_mdspan / container_size -/

/-- `operator==` of two extents objects (any index types, any static/dynamic patterns, any ranks) never fails and is
    true exactly when they report the same extents -/
theorem extents_eq_iff (t1 t2 : IdxT) (a b : Ext) (va vb : List Nat) (ha : ExtIs t1 a va) (hb : ExtIs t2 b vb) :
    Ext.eq t1 t2 a b = .ok (decide (va = vb)) := extEq_eq t1 t2 a b va vb ha hb

/-- `mdspan::size()` is the size of the index space and `mdspan::empty()` says whether an extent is 0 -/
theorem mdspan_size_empty_eq (t : IdxT) (hv : IdxT.Valid t) (e : Ext) (vals : List Nat) (he : ExtIs t e vals)
    (hf : Fits t vals) :
    mdspanSize t e = .ok ((prod vals : Nat) : Int) ∧ mdspanEmpty t e = .ok (decide (0 ∈ vals)) :=
  ⟨mdspanSize_eq t hv e vals he hf, mdspanEmpty_eq t hv e vals he hf⟩

/-- `mdspan::operator[](span)` / `operator[](array)` read every index inside the argument and address the same element as
    `operator()`: `buffer[closed-form offset]` -/
theorem mdspan_subscript_eq {α : Type} (l : Lay) (t : IdxT) (hv : IdxT.Valid t) (e : Ext) (vals : List Nat)
    (he : ExtIs t e vals) (hf : Fits t vals) (buf : List α) (hb : prod vals ≤ buf.length) (idx : List Nat)
    (hr : InRange vals idx) :
    ∃ h : offSpec l vals idx < buf.length, mdspanAtSpan l t e buf (idx.map Int.ofNat) = .ok buf[offSpec l vals idx] := by
  rw [mdspanAtSpan_eq l t e vals he buf _ (by simp [inRange_length _ _ hr])]
  exact mdspanAt_eq l t hv e vals he hf buf hb idx hr

/-- `mdarray::container_size()` is `required_span_size()` = Π extents and the view returned by `mdarray::to_mdspan()`
    addresses the container element at the closed-form offset -/
theorem mdarray_to_mdspan_eq (l : Lay) (t : IdxT) (hv : IdxT.Valid t) (e : Ext) (vals : List Nat)
    (he : ExtIs t e vals) (hf : Fits t vals) (idx : List Nat) (hr : InRange vals idx) :
    mdarrayContainerSize l t e = .ok ((prod vals : Nat) : Int)
      ∧ mdarrayToMdspanAt l t e (idx.map Int.ofNat) = .ok (offSpec l vals idx) :=
  ⟨mdarrayContainerSize_eq l t hv e vals he hf, mdarrayToMdspanAt_eq l t hv e vals he hf idx hr⟩

/-- `mdspan::size()`, `mdspan::empty()`, `mdarray::size()`, `mdarray::empty()` under the precondition of the standard alone
    (`SizeFits`: every extent representable in `index_type`, the size of the index space in `size_type`; no condition on
    partial products, so a zero extent among huge extents is covered): the `size_t` product loop never fails, the result is
    the exact product of the extents (no wrap-around), and `empty()` is true exactly when some extent is 0 -/
theorem mdspan_size_empty_std (t : IdxT) (hv : IdxT.Valid t) (e : Ext) (vals : List Nat) (he : ExtIs t e vals)
    (hf : SizeFits t vals) :
    mdspanSize t e = .ok ((prod vals : Nat) : Int) ∧ mdspanEmpty t e = .ok (decide (0 ∈ vals))
      ∧ mdarraySize t e = .ok ((prod vals : Nat) : Int) ∧ mdarrayEmpty t e = .ok (decide (0 ∈ vals)) :=
  ⟨mdspanSize_std t hv e vals he hf, mdspanEmpty_std t hv e vals he hf, mdarraySize_std t hv e vals he hf,
    mdarrayEmpty_std t hv e vals he hf⟩
example : SizeFits ⟨8, true⟩ [100, 100, 0] ∧ ¬ Fits ⟨8, true⟩ [100, 100, 0] ∧ SizeFits ⟨8, true⟩ [16, 15]
    ∧ ¬ Fits ⟨8, true⟩ [16, 15] := by decide

/-- `SizeFits` is implied by `Fits` (so the theorem above extends `mdspan_size_empty_eq`) -/
theorem size_fits_of_fits (t : IdxT) (vals : List Nat) (hf : Fits t vals) : SizeFits t vals := sizeFits_of_fits t vals hf

/-- `mdspan::extents()` / `mdarray::extents()` return the extents object of the mapping: it reports the same extents and
    compares equal (`extents::operator==`) to the object the mapping was built from -/
theorem mdspan_extents_eq (t : IdxT) (e : Ext) (vals : List Nat) (he : ExtIs t e vals) :
    ExtIs t (mdspanExtents e) vals ∧ Ext.eq t t (mdspanExtents e) e = .ok true := by
  refine ⟨he, ?_⟩
  have := extEq_eq t t (mdspanExtents e) e vals vals he he
  simpa using this

/-! ## mdarray constructors

`Ctr.sized cap` is a container constructible from `size_t` / `(size_t, value)` (`static_vector<int, cap>`), `Ctr.arr n` is
`etl::array<int, n>`; `CtrFits`: the container can hold `required_span_size()` elements (precondition). -/

/-- `mdarray(mapping)` / `mdarray(extents)` / `mdarray(exts...)` never fail and leave a container of `required_span_size()`
    (size-constructible container) resp. `n` (`etl::array<_, n>`) value-initialised elements; `mdarray(mapping, value)` /
    `mdarray(extents, value)` leave that many copies of the value, and the element any in-range multi-index `idx` refers to
    is the value -/
theorem mdarray_ctor_value_eq (l : Lay) (t : IdxT) (hv : IdxT.Valid t) (e : Ext) (vals : List Nat) (he : ExtIs t e vals)
    (hf : Fits t vals) (k : Ctr) (hk : CtrFits k (prod vals)) (val : Int) (idx : List Nat) (hr : InRange vals idx) :
    mdarrayOfMapping l t e k = .ok (List.replicate (ctrLen k (prod vals)) 0)
      ∧ mdarrayOfValue l t e k val = .ok (List.replicate (ctrLen k (prod vals)) val)
      ∧ mdarrayRead l t e (List.replicate (ctrLen k (prod vals)) val) (idx.map Int.ofNat) = .ok val := by
  refine ⟨mdarrayOfMapping_eq l t hv e vals he hf k hk, mdarrayOfValue_eq l t hv e vals he hf k hk val, ?_⟩
  obtain ⟨c, h1, _, h3⟩ := mdarrayOfValue_read l t hv e vals he hf k hk val idx hr
  rw [mdarrayOfValue_eq l t hv e vals he hf k hk val] at h1
  rw [Except.ok.inj h1]
  exact h3
example : CtrFits (.sized 256) (prod [2, 3, 4]) ∧ CtrFits (.arr 260) (prod [2, 3, 4]) ∧ ctrLen (.sized 256) 24 = 24
    ∧ ctrLen (.arr 260) 24 = 260 := by decide

/-- `mdarray(extents | mapping, container const&)` and `(…, container&&)`: the mdarray holds the contents of the given
    container, and `operator()` reads the container element at the closed-form offset (inside the container, which must
    have at least `required_span_size()` elements) -/
theorem mdarray_ctor_container_eq (l : Lay) (t : IdxT) (hv : IdxT.Valid t) (e : Ext) (vals : List Nat)
    (he : ExtIs t e vals) (hf : Fits t vals) (c : List Int) (hb : prod vals ≤ c.length) (idx : List Nat)
    (hr : InRange vals idx) :
    mdarrayOfContainer c = c ∧
      ∃ h : offSpec l vals idx < c.length,
        mdarrayRead l t e (mdarrayOfContainer c) (idx.map Int.ofNat) = .ok c[offSpec l vals idx] :=
  ⟨rfl, mdarrayRead_eq l t hv e vals he hf c hb idx hr⟩

/-- the same constructors over a `layout_stride` mapping: `required_span_size()` = 1 + Σ (e_k − 1)·s_k elements (0 for an
    empty index space); on a given container `c` of at least that many elements `operator()` reads `c[Σ i_k·s_k]` -/
theorem mdarray_ctor_stride_eq (t : IdxT) (hv : IdxT.Valid t) (e : Ext) (vals s : List Nat) (he : ExtIs t e vals)
    (hs : s.length = vals.length) (hf : FitsStride t vals s) (k : Ctr) (hk : CtrFits k (reqSpanStride vals s)) (val : Int)
    (c : List Int) (hb : reqSpanStride vals s ≤ c.length) (idx : List Nat) (hr : InRange vals idx) :
    mdarrayOfMappingStride t (smap e s) k = .ok (List.replicate (ctrLen k (reqSpanStride vals s)) 0)
      ∧ mdarrayOfValueStride t (smap e s) k val = .ok (List.replicate (ctrLen k (reqSpanStride vals s)) val)
      ∧ ∃ h : offStride s idx < c.length,
          mdarrayReadStride t (smap e s) (mdarrayOfContainer c) (idx.map Int.ofNat) = .ok c[offStride s idx] :=
  ⟨mdarrayOfMappingStride_eq t hv e vals s he hs hf k hk, mdarrayOfValueStride_eq t hv e vals s he hs hf k hk val,
    mdarrayReadStride_eq t hv e vals s he hs hf c hb idx hr⟩
example : FitsStride ⟨8, true⟩ [2, 3] [4, 1] ∧ CtrFits (.sized 256) (reqSpanStride [2, 3] [4, 1]) ∧ InRange [2, 3] [1, 2] := by
  decide

/-! ## mdarray as an object: copy / move construction, assignment, swap

An `mdarray` object is its mapping and its container (`MdArr`).  For a layout_stride mapping the strides are run-time state
even when every extent is static, for layout_left / layout_right the dynamic extents are. -/

/-- copy construction, move construction and (copy / move) assignment yield an object with the mapping AND the container of
    the source; `swap(a, b)` leaves `a` with the mapping and container of `b` and vice versa -/
theorem mdarray_copy_move_assign_swap_eq {M : Type} (a b : MdArr M) :
    MdArr.copy b = b ∧ MdArr.move b = b ∧ MdArr.assign a b = b ∧ MdArr.swap a b = (b, a) := ⟨rfl, rfl, rfl, rfl⟩

/-- `swap(a, b)` of two mdarrays over layout_stride mappings (same extents type, any strides — also over fully static
    extents): afterwards `a` reports the extents and strides of the former `b` and `a(idx)` is the element `Σ i_k·s_k` (strides of
    the former `b`) of the former container of `b`, inside that container; symmetrically for `b` -/
theorem mdarray_swap_stride_eq (t : IdxT) (hv : IdxT.Valid t) (ea eb : Ext) (va sa vb sb : List Nat) (hea : ExtIs t ea va)
    (heb : ExtIs t eb vb) (hsa : sa.length = va.length) (hsb : sb.length = vb.length) (hfa : FitsStride t va sa)
    (hfb : FitsStride t vb sb) (ca cb : List Int) (hca : reqSpanStride va sa ≤ ca.length)
    (hcb : reqSpanStride vb sb ≤ cb.length) (a b : MdArr StrideMap) (ha : a = ⟨smap ea sa, ca⟩) (hb : b = ⟨smap eb sb, cb⟩) :
    (MdArr.swap a b).1 = b ∧ (MdArr.swap a b).2 = a
      ∧ ExtIs t (MdArr.swap a b).1.map.ext vb ∧ ExtIs t (MdArr.swap a b).2.map.ext va
      ∧ (∀ k (hk : k < sb.length), (MdArr.swap a b).1.map.stride k = .ok ((sb[k] : Nat) : Int))
      ∧ (∀ k (hk : k < sa.length), (MdArr.swap a b).2.map.stride k = .ok ((sa[k] : Nat) : Int))
      ∧ (∀ idx, InRange vb idx → ∃ h : offStride sb idx < cb.length,
          (MdArr.swap a b).1.readStride t (idx.map Int.ofNat) = .ok cb[offStride sb idx])
      ∧ (∀ idx, InRange va idx → ∃ h : offStride sa idx < ca.length,
          (MdArr.swap a b).2.readStride t (idx.map Int.ofNat) = .ok ca[offStride sa idx]) := by
  subst ha hb
  exact ⟨rfl, rfl, heb, hea, fun k hk => smap_stride_eq eb vb sb heb.1 hsb k hk, fun k hk => smap_stride_eq ea va sa hea.1 hsa k hk,
    fun idx hr => mdarrayReadStride_eq t hv eb vb sb heb hsb hfb cb hcb idx hr,
    fun idx hr => mdarrayReadStride_eq t hv ea va sa hea hsa hfa ca hca idx hr⟩
example : FitsStride ⟨32, true⟩ [2, 3] [3, 1] ∧ FitsStride ⟨32, true⟩ [2, 3] [1, 2] ∧ InRange [2, 3] [1, 2]
    ∧ offStride [3, 1] [1, 2] = 5 ∧ offStride [1, 2] [1, 2] = 5 ∧ offStride [3, 1] [1, 0] = 3 ∧ offStride [1, 2] [1, 0] = 1 := by decide

/-- `swap(a, b)` of two mdarrays over layout_left / layout_right mappings (the dynamic extents are the state of the mapping):
    afterwards `a` reports the extents of the former `b` and `a(idx)` is the element at the closed-form offset over those
    extents of the former container of `b`; symmetrically for `b` -/
theorem mdarray_swap_contiguous_eq (l : Lay) (t : IdxT) (hv : IdxT.Valid t) (ea eb : Ext) (va vb : List Nat)
    (hea : ExtIs t ea va) (heb : ExtIs t eb vb) (hfa : Fits t va) (hfb : Fits t vb) (ca cb : List Int)
    (hca : prod va ≤ ca.length) (hcb : prod vb ≤ cb.length) (a b : MdArr Ext) (ha : a = ⟨ea, ca⟩) (hb : b = ⟨eb, cb⟩) :
    (MdArr.swap a b).1 = b ∧ (MdArr.swap a b).2 = a
      ∧ ExtIs t (MdArr.swap a b).1.map vb ∧ ExtIs t (MdArr.swap a b).2.map va
      ∧ (∀ idx, InRange vb idx → ∃ h : offSpec l vb idx < cb.length,
          (MdArr.swap a b).1.read l t (idx.map Int.ofNat) = .ok cb[offSpec l vb idx])
      ∧ (∀ idx, InRange va idx → ∃ h : offSpec l va idx < ca.length,
          (MdArr.swap a b).2.read l t (idx.map Int.ofNat) = .ok ca[offSpec l va idx]) := by
  subst ha hb
  exact ⟨rfl, rfl, heb, hea, fun idx hr => mdarrayRead_eq l t hv eb vb heb hfb cb hcb idx hr,
    fun idx hr => mdarrayRead_eq l t hv ea va hea hfa ca hca idx hr⟩
example : Fits ⟨32, true⟩ [2, 3] ∧ Fits ⟨32, true⟩ [4, 1] ∧ InRange [4, 1] [3, 0] := by decide

/-- assignment (`a = b`, copy or move) and copy / move construction from `b`: the result reports the extents and strides of
    `b` and reads the elements of `b`'s container at `b`'s offsets — whatever mapping and container `a` had before -/
theorem mdarray_assign_eq (t : IdxT) (hv : IdxT.Valid t) (a : MdArr StrideMap) (eb : Ext) (vb sb : List Nat)
    (heb : ExtIs t eb vb) (hsb : sb.length = vb.length) (hfb : FitsStride t vb sb) (cb : List Int)
    (hcb : reqSpanStride vb sb ≤ cb.length) (b : MdArr StrideMap) (hb : b = ⟨smap eb sb, cb⟩) :
    ∀ r ∈ [MdArr.assign a b, MdArr.copy b, MdArr.move b],
      r = b ∧ ExtIs t r.map.ext vb ∧ (∀ k (hk : k < sb.length), r.map.stride k = .ok ((sb[k] : Nat) : Int))
        ∧ (∀ idx, InRange vb idx → ∃ h : offStride sb idx < cb.length,
            r.readStride t (idx.map Int.ofNat) = .ok cb[offStride sb idx]) := by
  subst hb
  intro r hr
  have hrb : r = ⟨smap eb sb, cb⟩ := by
    simp only [List.mem_cons, List.not_mem_nil, or_false] at hr
    rcases hr with h | h | h <;> rw [h] <;> rfl
  subst hrb
  exact ⟨rfl, heb, fun k hk => smap_stride_eq eb vb sb heb.1 hsb k hk,
    fun idx hr => mdarrayReadStride_eq t hv eb vb sb heb hsb hfb cb hcb idx hr⟩

/-- the same for layout_left / layout_right -/
theorem mdarray_assign_contiguous_eq (l : Lay) (t : IdxT) (hv : IdxT.Valid t) (a : MdArr Ext) (eb : Ext) (vb : List Nat)
    (heb : ExtIs t eb vb) (hfb : Fits t vb) (cb : List Int) (hcb : prod vb ≤ cb.length) (b : MdArr Ext) (hb : b = ⟨eb, cb⟩) :
    ∀ r ∈ [MdArr.assign a b, MdArr.copy b, MdArr.move b],
      r = b ∧ ExtIs t r.map vb
        ∧ (∀ idx, InRange vb idx → ∃ h : offSpec l vb idx < cb.length, r.read l t (idx.map Int.ofNat) = .ok cb[offSpec l vb idx]) := by
  subst hb
  intro r hr
  have hrb : r = ⟨eb, cb⟩ := by
    simp only [List.mem_cons, List.not_mem_nil, or_false] at hr
    rcases hr with h | h | h <;> rw [h] <;> rfl
  subst hrb
  exact ⟨rfl, heb, fun idx hr => mdarrayRead_eq l t hv eb vb heb hfb cb hcb idx hr⟩

/-! ## default-constructed mappings -/

/-- `layout_left::mapping()` / `layout_right::mapping()` (and the extents member of `layout_stride::mapping()`) hold a
    value-initialised extents object: it reports the static extents and 0 for every dynamic extent (`defaultVals`), so every
    theorem about a mapping over an extents object with these values applies -/
theorem default_mapping_extents_eq (t : IdxT) (hv : IdxT.Valid t) (p : Pat) (hm : ∀ x ∈ defaultVals p, x ≤ t.maxV) :
    ExtIs t (contigDefault p) (defaultVals p) ∧ Consistent p (defaultVals p) :=
  ⟨default_extIs t hv p hm, defaultVals_consistent p⟩
example : defaultVals [some 2, none, some 4] = [2, 0, 4] ∧ defaultVals [some 2, some 3] = [2, 3] := by decide

/-- `layout_stride::mapping()` ([mdspan.layout.stride.cons]/1, after fix 36bdc9a): the loop of `default_strides()` never
    leaves the array; the mapping has the default extents and the strides of `layout_right::mapping<extents_type>()` —
    `stride(r)` agrees with the default layout_right mapping for every `r`, and the two mappings compare equal -/
theorem stride_default_ctor_eq (t : IdxT) (hv : IdxT.Valid t) (p : Pat) (hf : Fits t (defaultVals p)) :
    ∃ m, StrideMap.default t p = .ok m ∧ m.ext = contigDefault p ∧ ExtIs t m.ext (defaultVals p)
      ∧ m.strides = (stridesSpec .right (defaultVals p)).map Int.ofNat
      ∧ (∀ r, r < p.length → m.stride r = stride .right t (contigDefault p) r
          ∧ m.stride r = .ok ((strideRight (defaultVals p) r : Nat) : Int))
      ∧ m.eqMapping t t (contigDefault p) (stride .right t (contigDefault p)) (mapIdx .right t (contigDefault p)) = .ok true := by
  have hm : ∀ x ∈ defaultVals p, x ≤ t.maxV := by
    intro x hx
    obtain ⟨k, hk, rfl⟩ := List.getElem_of_mem hx
    exact fits_elem t _ hf k hk
  have he : ExtIs t (Ext.default p) (defaultVals p) := default_extIs t hv p hm
  have hlen : p.length = (defaultVals p).length := consistent_length p _ (defaultVals_consistent p)
  have hsl : (stridesSpec .right (defaultVals p)).length = (defaultVals p).length := by simp [stridesSpec]
  refine ⟨_, strideDefault_eq t hv p hf, rfl, he, rfl, ?_, ?_⟩
  · intro r hr
    have hr' : r < (defaultVals p).length := by omega
    have h1 := smap_stride_eq (Ext.default p) (defaultVals p) (stridesSpec .right (defaultVals p)) he.1 hsl r (by omega)
    have h2 := stride_eq .right t hv (Ext.default p) (defaultVals p) he hf r hr'
    have h3 : (stridesSpec .right (defaultVals p))[r]'(by omega) = strideRight (defaultVals p) r := by
      simp [stridesSpec, strideSpec]
    rw [h3] at h1
    exact ⟨by rw [h1]; exact h2.symm, h1⟩
  · have := smap_eq_contig t t hv hv .right (Ext.default p) (Ext.default p) (defaultVals p) (defaultVals p)
      (stridesSpec .right (defaultVals p)) he he rfl hsl hf
    show StrideMap.eqMapping t t _ (Ext.default p) (stride .right t (Ext.default p)) (mapIdx .right t (Ext.default p)) = _
    simpa using this
example : Fits ⟨32, true⟩ (defaultVals [some 2, some 3]) ∧ stridesSpec .right (defaultVals [some 2, some 3]) = [3, 1]
    ∧ Fits ⟨8, false⟩ (defaultVals [some 2, none, some 4]) ∧ stridesSpec .right (defaultVals [some 2, none, some 4]) = [0, 4, 1] := by
  decide

/-! ## extents constructors -/

/-- every constructor of `extents` (rank_dynamic() values or rank() values; the pack, array and span forms reach the
    same code) never leaves the `_extents` array and yields an object that reports exactly the given extents, for
    every static/dynamic pattern consistent with them -/
theorem extents_ctor_eq (t : IdxT) (hv : IdxT.Valid t) (pat : Pat) (vals : List Nat) (hc : Consistent pat vals)
    (hm : ∀ x ∈ vals, x ≤ t.maxV) (all : Bool) :
    ∃ e, Ext.ofVals t pat (ctorArgs pat vals all) = .ok e ∧ ExtIs t e vals :=
  ofVals_extIs t hv pat vals hc hm all
example : Consistent [some 2, none, some 4] [2, 3, 4] ∧ ctorArgs [some 2, none, some 4] [2, 3, 4] false = [3]
    ∧ ctorArgs [some 2, none, some 4] [2, 3, 4] true = [2, 3, 4] := by decide

/-- the converting constructor never leaves the `_extents` array and preserves every extent, for every pair of
    compatible patterns (static <- dynamic, dynamic <- static, mixed) and index types -/
theorem conv_extent_eq (t ts : IdxT) (hv : IdxT.Valid t) (p : Pat) (src : Ext) (vals : List Nat)
    (hs : ExtIs ts src vals) (hc : Consistent p vals) (hm : ∀ x ∈ vals, x ≤ t.maxV) :
    ∃ e, Ext.conv t ts p src = .ok e ∧ ExtIs t e vals := conv_extIs t ts hv p src vals hs hc hm
example : Consistent [none, some 3] [2, 3] ∧ Consistent [some 2, none] [2, 3] := by decide

/-- end to end: construct an extents object with any constructor and any pattern, build a layout_left/right mapping on
    it: `operator()` returns the closed form, inside `required_span_size() = Π extents`, without any failing access -/
theorem ctor_mapping_closed_form (l : Lay) (t : IdxT) (hv : IdxT.Valid t) (pat : Pat) (vals : List Nat)
    (hc : Consistent pat vals) (hf : Fits t vals) (all : Bool) (idx : List Nat) (hr : InRange vals idx) :
    ∃ e, Ext.ofVals t pat (ctorArgs pat vals all) = .ok e
      ∧ mapIdx l t e (idx.map Int.ofNat) = .ok ((offSpec l vals idx : Nat) : Int)
      ∧ reqSpan l t e = .ok ((prod vals : Nat) : Int) ∧ offSpec l vals idx < prod vals := by
  have hm : ∀ x ∈ vals, x ≤ t.maxV := by
    intro x hx
    obtain ⟨k, hk, rfl⟩ := List.getElem_of_mem hx
    exact fits_elem t vals hf k hk
  obtain ⟨e, h1, h2⟩ := ofVals_extIs t hv pat vals hc hm all
  exact ⟨e, h1, mapIdx_eq l t hv e vals h2 hf idx hr, reqSpan_eq l t hv e vals h2 hf, offSpec_lt l vals idx hr⟩
example : Consistent [some 2, none, some 4] [2, 3, 4] ∧ Fits ⟨8, true⟩ [2, 3, 4] ∧ InRange [2, 3, 4] [1, 2, 3] := by decide

/-- `submdspan_extents(ext, slices...)` with `full_extent` / index slice specifiers (`keep`: `true` = `full_extent`) never
    leaves an array and yields an extents object that reports exactly the extents of the kept dimensions, in order, with
    their static extents (after the fix of the reversed static extents) -/
theorem submdspan_extents_eq (t : IdxT) (hv : IdxT.Valid t) (e : Ext) (vals : List Nat) (he : ExtIs t e vals)
    (hc : Consistent e.pat vals) (hm : ∀ x ∈ vals, x ≤ t.maxV) (keep : List Bool) (hk : keep.length = vals.length) :
    ∃ r, submdspanExtents t e keep = .ok r ∧ ExtIs t r (keepOf keep vals) ∧ r.pat = keepOf keep e.pat
      ∧ Consistent r.pat (keepOf keep vals) := submdspanExtents_eq t hv e vals he hc hm keep hk
example : Consistent [some 2, none, some 4] [2, 3, 4] ∧ keepOf [true, false, true] [2, 3, 4] = [2, 4]
    ∧ keepOf [true, false, true] [some 2, none, some 4] = [some 2, some 4] := by decide

/-- `submdspan_extents(ext, slices...)` with any mix of `full_extent`, index and index-pair slices (`Slice.pair lo hi st`:
    `etl::pair` / `etl::tuple` / `etl::array<_, 2>`; `st`: both members are integral constants), within the precondition
    of [mdspan.sub.extents] (`SlicesOK`: one slice per dimension, `0 ≤ lo ≤ hi ≤ extent`) never leaves an array and yields
    an extents object that reports the extent of every `full_extent` dimension and `hi − lo` for every pair, in order; the
    static extent is the one of the source for `full_extent`, `hi − lo` for a pair of integral constants and
    `dynamic_extent` for any other pair (after the fixes of branch fix-c19x) -/
theorem submdspan_extents_slices_eq (t : IdxT) (hv : IdxT.Valid t) (e : Ext) (vals : List Nat) (he : ExtIs t e vals)
    (hc : Consistent e.pat vals) (hm : ∀ x ∈ vals, x ≤ t.maxV) (sl : List Slice) (hok : SlicesOK sl vals) :
    ∃ r, submdspanExtentsS t e sl = .ok r ∧ ExtIs t r (sliceVals sl vals) ∧ r.pat = slicePat sl e.pat
      ∧ Consistent r.pat (sliceVals sl vals) := submdspanExtentsS_eq t hv e vals he hc hm sl hok
example : SlicesOK [.full, .pair 1 3 false, .idx, .pair 1 3 true] [2, 3, 4, 4]
    ∧ sliceVals [.full, .pair 1 3 false, .idx, .pair 1 3 true] [2, 3, 4, 4] = [2, 2, 2]
    ∧ slicePat [.full, .pair 1 3 false, .idx, .pair 1 3 true] [some 2, some 3, none, none] = [some 2, none, some 2] := by
  decide

/-! ## layout_transpose -/

/-- `layout_transpose<L>::mapping::operator()(i, j)` (= nested mapping at `(j, i)`, converted to `size_type`) never
    fails and is the closed form of the *other* contiguous layout over the extents `[e0, e1]` of the view; hence it is
    in-span and injective by `left_/right_in_span`, `left_/right_injective` -/
theorem transpose_eq (t : IdxT) (hv : IdxT.Valid t) (m : TMap) (e0 e1 : Nat) (he : ExtIs t m.nested [e1, e0])
    (hf : Fits t [e1, e0]) (i j : Nat) (hi : i < e0) (hj : j < e1) :
    m.mapIdx t (i : Int) (j : Int) = .ok ((offSpec (flipLay m.lay) [e0, e1] [i, j] : Nat) : Int) :=
  tmap_eq t hv m e0 e1 he hf i j hi hj
example : Fits ⟨8, false⟩ [3, 2] ∧ (1 : Nat) < 2 ∧ (2 : Nat) < 3 := by decide

/-- `layout_transpose<L>::mapping::stride(r)` (after the fix) is the stride of the other layout over the view extents -/
theorem transpose_stride_eq (t : IdxT) (hv : IdxT.Valid t) (m : TMap) (e0 e1 : Nat) (he : ExtIs t m.nested [e1, e0])
    (hf : Fits t [e1, e0]) (r : Nat) (hr : r < 2) :
    m.stride t r = .ok ((strideSpec (flipLay m.lay) [e0, e1] r : Nat) : Int) :=
  tmap_stride_eq t hv m e0 e1 he hf r hr
example : Fits ⟨16, true⟩ [4, 3] := by decide

/-- `linalg::detail::transpose_extents(e)` (four `if constexpr` branches) never fails and yields an extents object of the
    transposed static/dynamic pattern that reports the two extents swapped -/
theorem transpose_extents_eq (t : IdxT) (hv : IdxT.Valid t) (e : Ext) (a b : Nat) (he : ExtIs t e [a, b])
    (hc : Consistent e.pat [a, b]) (hm : a ≤ t.maxV ∧ b ≤ t.maxV) :
    ∃ r, transposeExt t e = .ok r ∧ ExtIs t r [b, a] ∧ Consistent r.pat [b, a] ∧ transposePat e.pat = .ok r.pat :=
  transposeExt_extIs t hv e a b he hc hm
example : Consistent [some 2, none] [2, 3] ∧ Consistent [none, some 2] [3, 2] := by decide

/-- the constructor of `layout_transpose<L>::mapping` never fails; `extents()` reports the extents of the nested mapping
    swapped and `required_span_size()` is the size of the index space -/
theorem transpose_mapping_extents_eq (t : IdxT) (hv : IdxT.Valid t) (l : Lay) (nested : Ext) (e0 e1 : Nat)
    (he : ExtIs t nested [e1, e0]) (hc : Consistent nested.pat [e1, e0]) (hf : Fits t [e1, e0]) :
    ∃ m, TMap.make t l nested = .ok m ∧ m.lay = l ∧ m.nested = nested ∧ ExtIs t m.extents [e0, e1]
      ∧ Consistent m.extents.pat [e0, e1] ∧ m.reqSpan t = .ok ((e0 * e1 : Nat) : Int) :=
  tmap_make_eq t hv l nested e0 e1 he hc hf
example : Consistent [none, some 2] [3, 2] ∧ Fits ⟨8, true⟩ [3, 2] := by decide

/-- `mdspan::operator()(i, j)` over a `layout_transpose` mapping reads exactly the buffer element at the closed-form
    offset of the other contiguous layout over the extents of the view, inside any buffer of `e0 * e1` elements -/
theorem mdspan_access_transpose_eq {α : Type} (t : IdxT) (hv : IdxT.Valid t) (m : TMap) (e0 e1 : Nat)
    (he : ExtIs t m.nested [e1, e0]) (hf : Fits t [e1, e0]) (buf : List α) (hb : e0 * e1 ≤ buf.length) (i j : Nat)
    (hi : i < e0) (hj : j < e1) :
    ∃ h : offSpec (flipLay m.lay) [e0, e1] [i, j] < buf.length,
      mdspanAtT t m buf (i : Int) (j : Int) = .ok buf[offSpec (flipLay m.lay) [e0, e1] [i, j]] :=
  mdspanAtT_eq t hv m e0 e1 he hf buf hb i j hi hj

/-- the six observers of `layout_transpose<L>::mapping` (L = layout_left / layout_right; `mdspan` and `mdarray` forward to
    them) are those of the nested mapping — all `true` — and these answers are correct for the transposed view: it is
    unique (distinct in-range index pairs get distinct offsets), exhaustive (every offset below `required_span_size()` is
    hit) and strided (offset = i·stride(0) + j·stride(1)) -/
theorem transpose_observers_eq (t : IdxT) (hv : IdxT.Valid t) (m : TMap) (e0 e1 : Nat) (he : ExtIs t m.nested [e1, e0])
    (hf : Fits t [e1, e0]) :
    m.obs = contigObs m.lay ∧ m.obs = ⟨true, true, true, true, true, true⟩
      ∧ (∀ i j i' j' : Nat, i < e0 → j < e1 → i' < e0 → j' < e1 →
          m.mapIdx t (i : Int) (j : Int) = m.mapIdx t (i' : Int) (j' : Int) → i = i' ∧ j = j')
      ∧ (∀ k : Nat, k < e0 * e1 → ∃ i j : Nat, i < e0 ∧ j < e1 ∧ m.mapIdx t (i : Int) (j : Int) = .ok ((k : Nat) : Int))
      ∧ (∀ i j : Nat, i < e0 → j < e1 → ∃ s0 s1 : Nat, m.stride t 0 = .ok ((s0 : Nat) : Int)
          ∧ m.stride t 1 = .ok ((s1 : Nat) : Int) ∧ m.mapIdx t (i : Int) (j : Int) = .ok ((i * s0 + j * s1 : Nat) : Int)) :=
  ⟨rfl, tmap_obs_eq m, fun i j i' j' hi hj hi' hj' h => tmap_unique t hv m e0 e1 he hf i j i' j' hi hj hi' hj' h,
    fun k hk => tmap_exhaustive t hv m e0 e1 he hf k hk, fun i j hi hj => tmap_strided t hv m e0 e1 he hf i j hi hj⟩

/-- `layout_transpose<layout_stride>::mapping` (nested strided mapping over extents `[e1, e0]` with strides `[s0, s1]`): the
    constructor never fails, `extents()` reports `[e0, e1]`, `operator()(i, j)` is `i·s1 + j·s0`, `stride` returns the
    nested strides swapped, `required_span_size()` is the one of the view's own strided mapping -/
theorem transpose_stride_mapping_eq (t : IdxT) (hv : IdxT.Valid t) (ne : Ext) (e0 e1 s0 s1 : Nat)
    (he : ExtIs t ne [e1, e0]) (hc : Consistent ne.pat [e1, e0]) (hf : FitsStride t [e1, e0] [s0, s1]) :
    ∃ m, TSMap.make t (smap ne [s0, s1]) = .ok m ∧ ExtIs t m.extents [e0, e1] ∧ Consistent m.extents.pat [e0, e1]
      ∧ m.reqSpan t = .ok ((reqSpanStride [e0, e1] [s1, s0] : Nat) : Int)
      ∧ m.stride t 0 = .ok ((s1 : Nat) : Int) ∧ m.stride t 1 = .ok ((s0 : Nat) : Int)
      ∧ ∀ i j : Nat, i < e0 → j < e1 →
          m.mapIdx t (i : Int) (j : Int) = .ok ((offStride [s1, s0] [i, j] : Nat) : Int)
          ∧ offStride [s1, s0] [i, j] < reqSpanStride [e0, e1] [s1, s0] := by
  obtain ⟨m, hm, hn, h1, h2, h3⟩ := tsmap_make_eq t hv ne e0 e1 s0 s1 he hc hf
  obtain ⟨h4, h5⟩ := tsmap_stride_eq t hv m ne e0 e1 s0 s1 hn he hf
  exact ⟨m, hm, h1, h2, h3, h4, h5, fun i j hi hj =>
    ⟨tsmap_mapIdx_eq t hv m ne e0 e1 s0 s1 hn he hf i j hi hj, offStride_lt_req [e0, e1] [s1, s0] [i, j] ⟨hi, hj, trivial⟩⟩⟩
example : FitsStride ⟨8, true⟩ [3, 2] [1, 4] ∧ reqSpanStride [2, 3] [4, 1] = 7 ∧ offStride [4, 1] [1, 2] = 6 := by decide

/-- the observers of the transposed strided mapping forward to the nested mapping, and a transposed mapping is exhaustive
    iff the nested one is: `is_exhaustive()` is the exhaustiveness of the view's own strided mapping (extents `[e0, e1]`,
    strides `[s1, s0]`), which equals that of the nested mapping (extents `[e1, e0]`, strides `[s0, s1]`); `is_unique`,
    `is_strided`, `is_always_unique`, `is_always_strided` are `true`, `is_always_exhaustive` is `false` -/
theorem transpose_stride_observers_eq (t : IdxT) (hv : IdxT.Valid t) (m : TSMap) (ne : Ext) (e0 e1 s0 s1 : Nat)
    (hn : m.nested = smap ne [s0, s1]) (he : ExtIs t ne [e1, e0]) (hf : FitsStride t [e1, e0] [s0, s1])
    (hfe : Fits t [e1, e0]) :
    m.obs t = (smap ne [s0, s1]).obs t
      ∧ m.obs t = .ok ⟨true, false, true, true, isExhaustiveStride [e0, e1] [s1, s0], true⟩
      ∧ isExhaustiveStride [e0, e1] [s1, s0] = isExhaustiveStride [e1, e0] [s0, s1] :=
  ⟨(tsmap_obs_eq t hv m ne e0 e1 s0 s1 hn he hf hfe).1, (tsmap_obs_eq t hv m ne e0 e1 s0 s1 hn he hf hfe).2,
    isExhaustiveStride_swap e0 e1 s0 s1⟩
example : isExhaustiveStride [2, 3] [1, 2] = true ∧ isExhaustiveStride [2, 3] [1, 4] = false
    ∧ Fits ⟨8, true⟩ [3, 2] := by decide

/-- `mdspan::operator()(i, j)` over a `layout_transpose<layout_stride>` mapping reads exactly `buffer[i·s1 + j·s0]`, inside
    any buffer of `required_span_size` elements -/
theorem mdspan_access_transpose_stride_eq {α : Type} (t : IdxT) (hv : IdxT.Valid t) (m : TSMap) (ne : Ext)
    (e0 e1 s0 s1 : Nat) (hn : m.nested = smap ne [s0, s1]) (he : ExtIs t ne [e1, e0])
    (hf : FitsStride t [e1, e0] [s0, s1]) (buf : List α) (hb : reqSpanStride [e0, e1] [s1, s0] ≤ buf.length) (i j : Nat)
    (hi : i < e0) (hj : j < e1) :
    ∃ h : offStride [s1, s0] [i, j] < buf.length,
      mdspanAtTS t m buf (i : Int) (j : Int) = .ok buf[offStride [s1, s0] [i, j]] :=
  mdspanAtTS_eq t hv m ne e0 e1 s0 s1 hn he hf buf hb i j hi hj

/-! ## span::first / last / subspan (`SpanWF`: inside the base range, static extent = size) -/

/-- `subspan(offset, count)` with run-time arguments: within the preconditions it never fails, stays inside the
    original range and denotes exactly `(base.drop (off₀ + offset)).take count'` -/
theorem subspan_eq {α : Type} (base : List α) (s : Span) (hw : SpanWF base s) (off : Nat) (cnt : Option Nat)
    (h1 : off ≤ s.size) (h2 : ∀ c, cnt = some c → c ≤ s.size - off) :
    ∃ r, s.subspan off cnt = .ok r ∧ SpanWF base r ∧ r.off = s.off + off
      ∧ r.size = (match cnt with | some c => c | none => s.size - off) ∧ r.ext = none
      ∧ r.elems base = .ok (Spec.subspan base (s.off + off) r.size) := by
  have hb := hw.1
  cases cnt with
  | none =>
    obtain ⟨w, o, z, x⟩ := make_wf base (s.off + off) (s.size - off) none (by omega) (by simp)
    refine ⟨_, ?_, w, o, z, x, ?_⟩
    · simp [Span.subspan, cntExceeds, if_neg (Nat.not_lt.mpr h1)]
    · rw [elems_eq base _ w.1, o]
  | some c =>
    have hc := h2 c rfl
    obtain ⟨w, o, z, x⟩ := make_wf base (s.off + off) c none (by omega) (by simp)
    refine ⟨_, ?_, w, o, z, x, ?_⟩
    · simp [Span.subspan, cntExceeds, if_neg (Nat.not_lt.mpr h1), if_neg (Nat.not_lt.mpr hc)]
    · rw [elems_eq base _ w.1, o]

example : SpanWF [10, 11, 12, 13, 14] (Span.make 0 5 (some 5)) := by simp [SpanWF, Span.make]

/-- `subspan<Offset, Count>()`: same elements; the static extent of the result is the standard's (`Count`, else
    `Extent - Offset`, else dynamic) and equals the size -/
theorem subspanT_eq {α : Type} (base : List α) (s : Span) (hw : SpanWF base s) (hs : s.size ≤ DYN) (off : Nat)
    (cnt : Option Nat) (h1 : off ≤ s.size) (h2 : ∀ c, cnt = some c → c ≤ s.size - off) :
    ∃ r, s.subspanT off cnt = .ok r ∧ SpanWF base r ∧ r.off = s.off + off
      ∧ r.size = (match cnt with | some c => c | none => s.size - off) ∧ r.ext = subspanExtent off cnt s.ext
      ∧ r.elems base = .ok (Spec.subspan base (s.off + off) r.size) := by
  have hb := hw.1
  have hx := size_le_extVal base s hw hs
  cases cnt with
  | none =>
    have hk : ∀ k, subspanExtent off none s.ext = some k → k = s.size - off := by
      intro k hk
      cases h : s.ext with
      | none => simp [subspanExtent, h] at hk
      | some n => simp [subspanExtent, h] at hk; rw [← hk, hw.2 n h]
    obtain ⟨w, o, z, x⟩ := make_wf base (s.off + off) (s.size - off) (subspanExtent off none s.ext) (by omega) hk
    refine ⟨_, ?_, w, o, z, x, ?_⟩
    · simp [Span.subspanT, cntExceeds, if_neg (Nat.not_lt.mpr h1), if_neg (Nat.not_lt.mpr (Nat.le_trans h1 hx))]
    · rw [elems_eq base _ w.1, o]
  | some c =>
    have hc := h2 c rfl
    have hc' : c ≤ extVal s.ext - off := by omega
    obtain ⟨w, o, z, x⟩ := make_wf base (s.off + off) c (subspanExtent off (some c) s.ext) (by omega)
      (by intro k hk; simp [subspanExtent] at hk; omega)
    refine ⟨_, ?_, w, o, z, x, ?_⟩
    · simp [Span.subspanT, cntExceeds, if_neg (Nat.not_lt.mpr h1), if_neg (Nat.not_lt.mpr hc),
        if_neg (Nat.not_lt.mpr (Nat.le_trans h1 hx)), if_neg (Nat.not_lt.mpr hc')]
    · rw [elems_eq base _ w.1, o]

/-- `first(count)` / `first<Count>()`: the first `count` elements -/
theorem first_eq {α : Type} (base : List α) (s : Span) (hw : SpanWF base s) (hs : s.size ≤ DYN) (c : Nat) (h : c ≤ s.size) :
    (∃ r, s.first c = .ok r ∧ SpanWF base r ∧ r.off = s.off ∧ r.size = c ∧ r.ext = none
      ∧ r.elems base = .ok (Spec.subspan base s.off c))
    ∧ (∃ r, s.firstT c = .ok r ∧ SpanWF base r ∧ r.off = s.off ∧ r.size = c ∧ r.ext = some c
      ∧ r.elems base = .ok (Spec.subspan base s.off c)) := by
  have hb := hw.1
  have hx := size_le_extVal base s hw hs
  constructor
  · obtain ⟨w, o, z, x⟩ := make_wf base s.off c none (by omega) (by simp)
    refine ⟨_, ?_, w, o, z, x, ?_⟩
    · simp [Span.first, if_neg (Nat.not_lt.mpr h)]
    · rw [elems_eq base _ w.1, o, z]
  · obtain ⟨w, o, z, x⟩ := make_wf base s.off c (some c) (by omega) (by simp)
    refine ⟨_, ?_, w, o, z, x, ?_⟩
    · simp [Span.firstT, if_neg (Nat.not_lt.mpr h), if_neg (Nat.not_lt.mpr (Nat.le_trans h hx))]
    · rw [elems_eq base _ w.1, o, z]

/-- `last(count)` / `last<Count>()`: the last `count` elements -/
theorem last_eq {α : Type} (base : List α) (s : Span) (hw : SpanWF base s) (hs : s.size ≤ DYN) (c : Nat) (h : c ≤ s.size) :
    (∃ r, s.last c = .ok r ∧ SpanWF base r ∧ r.off = s.off + (s.size - c) ∧ r.size = c ∧ r.ext = none
      ∧ r.elems base = .ok (Spec.subspan base (s.off + (s.size - c)) c))
    ∧ (∃ r, s.lastT c = .ok r ∧ SpanWF base r ∧ r.off = s.off + (s.size - c) ∧ r.size = c ∧ r.ext = some c
      ∧ r.elems base = .ok (Spec.subspan base (s.off + (s.size - c)) c)) := by
  have hb := hw.1
  have hx := size_le_extVal base s hw hs
  constructor
  · obtain ⟨w, o, z, x⟩ := make_wf base (s.off + (s.size - c)) c none (by omega) (by simp)
    refine ⟨_, ?_, w, o, z, x, ?_⟩
    · simp [Span.last, if_neg (Nat.not_lt.mpr h)]
    · rw [elems_eq base _ w.1, o, z]
  · obtain ⟨w, o, z, x⟩ := make_wf base (s.off + (s.size - c)) c (some c) (by omega) (by simp)
    refine ⟨_, ?_, w, o, z, x, ?_⟩
    · simp [Span.lastT, if_neg (Nat.not_lt.mpr h), if_neg (Nat.not_lt.mpr (Nat.le_trans h hx))]
    · rw [elems_eq base _ w.1, o, z]

end Tetl.C19.Props
