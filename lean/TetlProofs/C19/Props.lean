/- C19 property theorems. -/
import TetlProofs.C19.Lemmas
namespace Tetl.C19.Props
open Tetl Tetl.C19

/-- column-major closed form: every in-range multi-index lies inside the span -/
theorem offLeft_in_span (e i : List Nat) (h : Spec.InRange e i) : Spec.offLeft e i < Spec.prod e :=
  Lemmas.offLeft_lt e i h

example : Spec.InRange [2, 3] [1, 2] ∧ Spec.offLeft [2, 3] [1, 2] = 5 := by decide

end Tetl.C19.Props
