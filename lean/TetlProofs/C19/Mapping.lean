/- C19: the model of extents products and layout mappings equals the closed form (under the representability precondition). -/
import TetlProofs.C19.Lemmas
namespace Tetl.C19.Lemmas
open Tetl Tetl.C19 Tetl.C19.Spec

/-! ### the model on an extents object with known content -/

/-- what an extents object reports: its rank and `extent(k)` for every `k` -/
def ExtIs (t : IdxT) (e : Ext) (vals : List Nat) : Prop :=
  e.pat.length = vals.length ∧ ∀ k (h : k < vals.length), e.extent t k = .ok ((vals[k] : Nat) : Int)

/-- the standard's representability precondition: the product of every run of consecutive extents (in particular
    every extent, every stride and the size of the index space) is representable in `index_type` -/
def Fits (t : IdxT) (vals : List Nat) : Prop :=
  ∀ a, a ≤ vals.length → ∀ b, b ≤ vals.length → prod ((vals.drop a).take b) ≤ t.maxV

instance (t : IdxT) (vals : List Nat) : Decidable (Fits t vals) := by unfold Fits; exact inferInstance

theorem fits_elem (t : IdxT) (vals : List Nat) (hf : Fits t vals) (k : Nat) (h : k < vals.length) : vals[k] ≤ t.maxV := by
  have := hf k (by omega) 1 (by omega)
  have e1 : (vals.drop k).take 1 = [vals[k]] := by rw [List.drop_eq_getElem_cons h]; rfl
  rw [e1] at this
  simpa [prod] using this

theorem prodLoop_seg (t : IdxT) (hv : IdxT.Valid t) (e : Ext) (vals : List Nat) (he : ExtIs t e vals) (hf : Fits t vals) :
    ∀ (n a0 m : Nat), a0 + m + n ≤ vals.length →
      prodLoop t e (List.range' (a0 + m) n) ((prod ((vals.drop a0).take m) : Nat) : Int)
        = .ok ((prod ((vals.drop a0).take (m + n)) : Nat) : Int) := by
  intro n
  induction n with
  | zero => intro a0 m _; simp [prodLoop]
  | succ n ih =>
    intro a0 m h
    have hk : a0 + m < vals.length := by omega
    rw [List.range'_succ]
    simp only [prodLoop, he.2 (a0 + m) hk, bind, Except.bind]
    have hx0 : (0 : Int) ≤ (vals[a0 + m] : Nat) := Int.natCast_nonneg _
    have hmax := maxV_lt t hv
    have hx1 : ((vals[a0 + m] : Nat) : Int) < 2 ^ 64 := by
      have : ((vals[a0 + m] : Nat) : Int) ≤ (t.maxV : Nat) := by exact_mod_cast fits_elem t vals hf _ hk
      omega
    rw [sz_id _ hx0 hx1]
    have hseg : prod ((vals.drop a0).take (m + 1)) = prod ((vals.drop a0).take m) * vals[a0 + m] := by
      rw [prod_take_succ _ m (by simp; omega)]; simp
    have hle : prod ((vals.drop a0).take (m + 1)) ≤ t.maxV := hf a0 (by omega) (m + 1) (by omega)
    have hcast : ((prod ((vals.drop a0).take m) : Nat) : Int) * ((vals[a0 + m] : Nat) : Int)
        = ((prod ((vals.drop a0).take (m + 1)) : Nat) : Int) := by rw [hseg]; simp
    have hle' : ((prod ((vals.drop a0).take (m + 1)) : Nat) : Int) ≤ (t.maxV : Nat) := by exact_mod_cast hle
    rw [hcast, sz_id _ (Int.natCast_nonneg _) (by omega)]
    have := ih a0 (m + 1) (by omega)
    rw [show a0 + (m + 1) = a0 + m + 1 by omega, show m + 1 + n = m + (n + 1) by omega] at this
    exact this

theorem fwdProd_eq (t : IdxT) (hv : IdxT.Valid t) (e : Ext) (vals : List Nat) (he : ExtIs t e vals) (hf : Fits t vals)
    (i : Nat) (hi : i ≤ vals.length) : e.fwdProd t i = .ok ((prod (vals.take i) : Nat) : Int) := by
  unfold Ext.fwdProd
  split
  · rename_i h0
    have : vals.length = 0 := by rw [← he.1]; exact h0
    have hi0 : i = 0 := by omega
    subst hi0
    simp [prod]
  · have := prodLoop_seg t hv e vals he hf i 0 0 (by omega)
    simpa [List.range_eq_range', prod] using this

theorem revProd_eq (t : IdxT) (hv : IdxT.Valid t) (e : Ext) (vals : List Nat) (he : ExtIs t e vals) (hf : Fits t vals)
    (i : Nat) (hi : i < vals.length) : e.revProd t i = .ok ((prod (vals.drop (i + 1)) : Nat) : Int) := by
  unfold Ext.revProd
  have := prodLoop_seg t hv e vals he hf (vals.length - (i + 1)) (i + 1) 0 (by omega)
  rw [he.1]
  have htake : (vals.drop (i + 1)).take (0 + (vals.length - (i + 1))) = vals.drop (i + 1) := by
    apply List.take_of_length_le; simp
  rw [htake] at this
  simpa [prod] using this

/-- `stride` of the two contiguous layouts is the partial product of the closed form -/
def strideSpec (l : Lay) (vals : List Nat) (k : Nat) : Nat :=
  match l with
  | .left => strideLeft vals k
  | .right => strideRight vals k

theorem stride_eq (l : Lay) (t : IdxT) (hv : IdxT.Valid t) (e : Ext) (vals : List Nat) (he : ExtIs t e vals)
    (hf : Fits t vals) (r : Nat) (hr : r < vals.length) :
    stride l t e r = .ok ((strideSpec l vals r : Nat) : Int) := by
  unfold stride
  rw [if_pos (by rw [he.1]; exact hr)]
  cases l with
  | left =>
    simp only [fwdProd_eq t hv e vals he hf r (by omega), bind, Except.bind, pure, Except.pure, strideSpec, strideLeft]
    rw [wrap_id t hv _ (Int.natCast_nonneg _)]
    have := hf 0 (by omega) r (by omega)
    simp only [List.drop_zero] at this
    exact_mod_cast this
  | right =>
    simp only [revProd_eq t hv e vals he hf r hr, bind, Except.bind, pure, Except.pure, strideSpec, strideRight]
    rw [wrap_id t hv _ (Int.natCast_nonneg _)]
    have := hf (r + 1) (by omega) (vals.length) (by omega)
    rw [List.take_of_length_le (by simp)] at this
    exact_mod_cast this

theorem reqSpan_eq (l : Lay) (t : IdxT) (hv : IdxT.Valid t) (e : Ext) (vals : List Nat) (he : ExtIs t e vals)
    (hf : Fits t vals) : reqSpan l t e = .ok ((prod vals : Nat) : Int) := by
  unfold reqSpan
  have h := fwdProd_eq t hv e vals he hf vals.length (by omega)
  rw [he.1]
  simp only [h, bind, Except.bind, pure, Except.pure, List.take_length]
  rw [wrap_id t hv _ (Int.natCast_nonneg _)]
  have := hf 0 (by omega) vals.length (by omega)
  simp only [List.drop_zero, List.take_length] at this
  exact_mod_cast this

/-- Σ i_j * f (k + j) -/
def sumSpec (f : Nat → Nat) : Nat → List Nat → Nat
  | _, [] => 0
  | k, i :: is => i * f k + sumSpec f (k + 1) is

theorem sumLoop_eq (t : IdxT) (hv : IdxT.Valid t) (str : Nat → Except Err Int) (f : Nat → Nat) (n : Nat)
    (hstr : ∀ k, k < n → str k = .ok ((f k : Nat) : Int)) :
    ∀ (idx : List Nat) (k : Nat), k + idx.length = n → (∀ x ∈ idx, x ≤ t.maxV) →
      sumLoop str t k (idx.map Int.ofNat) = .ok ((sumSpec f k idx : Nat) : Int) := by
  intro idx
  induction idx with
  | nil => intro k _ _; simp [sumLoop, sumSpec]
  | cons i is ih =>
    intro k hk hx
    have hk' : k < n := by simp at hk; omega
    have hi : t.wrap ((i : Nat) : Int) = ((i : Nat) : Int) :=
      wrap_id t hv _ (Int.natCast_nonneg _) (by exact_mod_cast hx i (by simp))
    simp only [List.map_cons, sumLoop, hstr k hk', bind, Except.bind, pure, Except.pure, Int.ofNat_eq_natCast]
    rw [ih (k + 1) (by simp at hk; omega) (fun x h => hx x (by simp [h]))]
    simp only [hi, sumSpec]
    simp

theorem strideLeft_append (pre e : List Nat) (j : Nat) :
    strideLeft (pre ++ e) (pre.length + j) = prod pre * prod (e.take j) := by
  unfold strideLeft
  rw [List.take_append, prod_append, List.take_of_length_le (by omega)]
  simp

theorem sumSpec_left : ∀ (e idx pre : List Nat), e.length = idx.length →
    sumSpec (strideLeft (pre ++ e)) pre.length idx = prod pre * offLeft e idx
  | [], [], pre, _ => by simp [sumSpec, offLeft]
  | x :: es, i :: is, pre, h => by
      have ih := sumSpec_left es is (pre ++ [x]) (by simpa using h)
      simp only [List.append_assoc, List.singleton_append, List.length_append, List.length_cons, List.length_nil,
        Nat.zero_add] at ih
      simp only [sumSpec, offLeft, ih]
      have h0 := strideLeft_append pre (x :: es) 0
      simp only [Nat.add_zero, List.take_zero, prod, Nat.mul_one] at h0
      rw [h0, prod_append]
      simp only [prod, Nat.mul_one, Nat.mul_add]
      rw [Nat.mul_comm i, Nat.mul_assoc]
  | [], _ :: _, _, h => by simp at h
  | _ :: _, [], _, h => by simp at h

theorem strideRight_append (pre e : List Nat) (j : Nat) :
    strideRight (pre ++ e) (pre.length + j) = prod (e.drop (j + 1)) := by
  unfold strideRight
  rw [List.drop_append, List.drop_of_length_le (by omega)]
  simp only [List.nil_append]
  congr 2
  omega

theorem sumSpec_right : ∀ (e idx pre : List Nat), e.length = idx.length →
    sumSpec (strideRight (pre ++ e)) pre.length idx = offR e idx
  | [], [], pre, _ => by simp [sumSpec, offR]
  | x :: es, i :: is, pre, h => by
      have ih := sumSpec_right es is (pre ++ [x]) (by simpa using h)
      simp only [List.append_assoc, List.singleton_append, List.length_append, List.length_cons, List.length_nil,
        Nat.zero_add] at ih
      have h0 := strideRight_append pre (x :: es) 0
      simp only [Nat.add_zero, Nat.zero_add, List.drop_succ_cons, List.drop_zero] at h0
      simp only [sumSpec, offR, ih, h0]
  | [], _ :: _, _, h => by simp at h
  | _ :: _, [], _, h => by simp at h

/-- the closed form of the two contiguous layouts -/
def offSpec (l : Lay) (vals idx : List Nat) : Nat :=
  match l with
  | .left => offLeft vals idx
  | .right => offRight vals idx

theorem sumSpec_strideSpec (l : Lay) (vals idx : List Nat) (h : vals.length = idx.length) :
    sumSpec (strideSpec l vals) 0 idx = offSpec l vals idx := by
  cases l with
  | left =>
    have := sumSpec_left vals idx [] h
    have hf : strideSpec Lay.left vals = strideLeft vals := by funext k; rfl
    rw [hf, offSpec]
    simpa [prod] using this
  | right =>
    have := sumSpec_right vals idx [] h
    simp only [List.nil_append, List.length_nil] at this
    have hf : strideSpec Lay.right vals = strideRight vals := by funext k; rfl
    rw [hf, this, offSpec, offRight_eq vals idx h]

theorem offSpec_lt (l : Lay) (vals idx : List Nat) (h : InRange vals idx) : offSpec l vals idx < prod vals := by
  cases l with
  | left => exact offLeft_lt vals idx h
  | right => simp only [offSpec]; rw [offRight_eq vals idx (inRange_length _ _ h)]; exact offR_lt vals idx h

theorem offSpec_inj (l : Lay) (vals i j : List Nat) (hi : InRange vals i) (hj : InRange vals j)
    (h : offSpec l vals i = offSpec l vals j) : i = j := by
  cases l with
  | left => exact offLeft_inj vals i j hi hj h
  | right =>
    simp only [offSpec] at h
    rw [offRight_eq vals i (inRange_length _ _ hi), offRight_eq vals j (inRange_length _ _ hj)] at h
    exact offR_inj vals i j hi hj h

theorem inRange_le_max (t : IdxT) (vals idx : List Nat) (hf : Fits t vals) (hr : InRange vals idx) :
    ∀ x ∈ idx, x ≤ t.maxV := by
  intro x hx
  obtain ⟨k, hk, rfl⟩ := List.getElem_of_mem hx
  have hlen := inRange_length _ _ hr
  have h1 := inRange_getElem vals idx hr k hk (by omega)
  have h2 := fits_elem t vals hf k (by omega)
  omega

theorem fits_prod (t : IdxT) (vals : List Nat) (hf : Fits t vals) : prod vals ≤ t.maxV := by
  have := hf 0 (by omega) vals.length (by omega)
  simpa using this

theorem mapIdx_eq (l : Lay) (t : IdxT) (hv : IdxT.Valid t) (e : Ext) (vals : List Nat) (he : ExtIs t e vals)
    (hf : Fits t vals) (idx : List Nat) (hr : InRange vals idx) :
    mapIdx l t e (idx.map Int.ofNat) = .ok ((offSpec l vals idx : Nat) : Int) := by
  have hlen := inRange_length _ _ hr
  unfold mapIdx
  rw [if_neg (by simp [he.1, hlen])]
  have hs := sumLoop_eq t hv (stride l t e) (strideSpec l vals) vals.length
    (fun k hk => stride_eq l t hv e vals he hf k hk) idx 0 (by omega) (inRange_le_max t vals idx hf hr)
  simp only [hs, bind, Except.bind, pure, Except.pure, sumSpec_strideSpec l vals idx hlen]
  rw [wrap_id t hv _ (Int.natCast_nonneg _)]
  have h1 := offSpec_lt l vals idx hr
  have h2 := fits_prod t vals hf
  exact_mod_cast (by omega : offSpec l vals idx ≤ t.maxV)

theorem map_wrap_id (t : IdxT) (hv : IdxT.Valid t) (idx : List Nat) (h : ∀ x ∈ idx, x ≤ t.maxV) :
    (idx.map Int.ofNat).map t.wrap = idx.map Int.ofNat := by
  rw [List.map_map]
  apply List.map_congr_left
  intro x hx
  simp only [Function.comp, Int.ofNat_eq_natCast]
  exact wrap_id t hv _ (Int.natCast_nonneg _) (by exact_mod_cast h x hx)

theorem rd_ok {α : Type} (l : List α) (k : Nat) (h : k < l.length) : rd l k = .ok l[k] := by
  simp [rd, List.getElem?_eq_getElem h]

/-- `mdspan::operator()` reads exactly the buffer element at the closed-form offset -/
theorem mdspanAt_eq {α : Type} (l : Lay) (t : IdxT) (hv : IdxT.Valid t) (e : Ext) (vals : List Nat) (he : ExtIs t e vals)
    (hf : Fits t vals) (buf : List α) (hb : prod vals ≤ buf.length) (idx : List Nat) (hr : InRange vals idx) :
    ∃ h : offSpec l vals idx < buf.length, mdspanAt l t e buf (idx.map Int.ofNat) = .ok buf[offSpec l vals idx] := by
  have hlt := offSpec_lt l vals idx hr
  refine ⟨by omega, ?_⟩
  unfold mdspanAt
  rw [map_wrap_id t hv idx (inRange_le_max t vals idx hf hr), mapIdx_eq l t hv e vals he hf idx hr]
  simp only [bind, Except.bind]
  have hmax := maxV_lt t hv
  have hp := fits_prod t vals hf
  have hle : ((offSpec l vals idx : Nat) : Int) ≤ (t.maxV : Nat) := by
    exact_mod_cast (by omega : offSpec l vals idx ≤ t.maxV)
  have hsz : sz ((offSpec l vals idx : Nat) : Int) = ((offSpec l vals idx : Nat) : Int) :=
    sz_id _ (Int.natCast_nonneg _) (by omega)
  rw [hsz, if_neg (by omega)]
  simp only [Int.toNat_natCast]
  exact rd_ok buf _ (by omega)

theorem mdarrayAt_eq (l : Lay) (t : IdxT) (hv : IdxT.Valid t) (e : Ext) (vals : List Nat)
    (he : ExtIs t e vals) (hf : Fits t vals) (idx : List Nat) (hr : InRange vals idx) :
    mdarrayAt l t e (idx.map Int.ofNat) = .ok (((prod vals : Nat) : Int), offSpec l vals idx) := by
  unfold mdarrayAt
  have hp := fits_prod t vals hf
  have hmax := maxV_lt t hv
  have hle : ((prod vals : Nat) : Int) ≤ (t.maxV : Nat) := by exact_mod_cast hp
  have hsz : sz ((prod vals : Nat) : Int) = ((prod vals : Nat) : Int) := sz_id _ (Int.natCast_nonneg _) (by omega)
  simp only [reqSpan_eq l t hv e vals he hf, bind, Except.bind, hsz, Int.toNat_natCast]
  obtain ⟨hlt, h⟩ := mdspanAt_eq l t hv e vals he hf (List.range (prod vals)) (by simp) idx hr
  rw [h]
  simp [pure, Except.pure]

/-- the layout of the transposed view in its own extents -/
def flipLay : Lay → Lay
  | .left => .right
  | .right => .left

theorem wrapU_id (t : IdxT) (hv : IdxT.Valid t) (x : Nat) (h : x ≤ t.maxV) : t.toUnsigned.wrap ((x : Nat) : Int) = ((x : Nat) : Int) :=
  wrap_id t.toUnsigned (toUnsigned_valid t hv) _ (Int.natCast_nonneg _)
    (by exact_mod_cast Nat.le_trans h (maxV_le_unsigned t))

theorem tmap_eq (t : IdxT) (hv : IdxT.Valid t) (m : TMap) (e0 e1 : Nat) (he : ExtIs t m.nested [e1, e0])
    (hf : Fits t [e1, e0]) (i j : Nat) (hi : i < e0) (hj : j < e1) :
    m.mapIdx t (i : Int) (j : Int) = .ok ((offSpec (flipLay m.lay) [e0, e1] [i, j] : Nat) : Int) := by
  have hr : InRange [e1, e0] [j, i] := ⟨hj, hi, trivial⟩
  have h := mapIdx_eq m.lay t hv m.nested [e1, e0] he hf [j, i] hr
  simp only [List.map_cons, List.map_nil, Int.ofNat_eq_natCast] at h
  unfold TMap.mapIdx
  simp only [h, bind, Except.bind, pure, Except.pure]
  have hlt := offSpec_lt m.lay [e1, e0] [j, i] hr
  have hp := fits_prod t [e1, e0] hf
  rw [wrapU_id t hv _ (by omega)]
  congr 2
  cases m.lay with
  | left => simp [offSpec, flipLay, offLeft, offRight, offRightAux, Nat.mul_comm]; omega
  | right => simp [offSpec, flipLay, offLeft, offRight, offRightAux, Nat.mul_comm]; omega

theorem tmap_stride_eq (t : IdxT) (hv : IdxT.Valid t) (m : TMap) (e0 e1 : Nat) (he : ExtIs t m.nested [e1, e0])
    (hf : Fits t [e1, e0]) (r : Nat) (hr : r < 2) :
    m.stride t r = .ok ((strideSpec (flipLay m.lay) [e0, e1] r : Nat) : Int) := by
  have h0 := stride_eq m.lay t hv m.nested [e1, e0] he hf 0 (by simp)
  have h1 := stride_eq m.lay t hv m.nested [e1, e0] he hf 1 (by simp)
  have hb0 : strideSpec m.lay [e1, e0] 0 ≤ t.maxV := by
    cases m.lay with
    | left => have := hf 0 (by simp) 0 (by simp); simpa [strideSpec, strideLeft] using this
    | right => have := hf 1 (by simp) 2 (by simp); simpa [strideSpec, strideRight] using this
  have hb1 : strideSpec m.lay [e1, e0] 1 ≤ t.maxV := by
    cases m.lay with
    | left => have := hf 0 (by simp) 1 (by simp); simpa [strideSpec, strideLeft] using this
    | right => have := hf 2 (by simp) 0 (by simp); simpa [strideSpec, strideRight] using this
  unfold TMap.stride
  have hr' : r = 0 ∨ r = 1 := by omega
  rcases hr' with rfl | rfl
  · rw [if_neg (by decide : ¬ (0 : Nat) = 2 - 1), if_pos (by decide : (0 : Nat) = 2 - 2)]
    simp only [show (0 : Nat) + 1 = 1 by decide, h1, bind, Except.bind, pure, Except.pure]
    rw [wrapU_id t hv _ hb1]
    congr 2
    cases m.lay <;> simp [strideSpec, flipLay, strideLeft, strideRight, prod]
  · rw [if_pos (by decide : (1 : Nat) = 2 - 1)]
    simp only [show (1 : Nat) - 1 = 0 by decide, h0, bind, Except.bind, pure, Except.pure]
    rw [wrapU_id t hv _ hb0]
    congr 2
    cases m.lay <;> simp [strideSpec, flipLay, strideLeft, strideRight, prod]

end Tetl.C19.Lemmas
