/- C19: `mdspan::extents / size / empty`, `mdarray::size / empty` under the precondition of the standard (size of the index
   space representable in `size_type`, no condition on partial products), and the contents of an `mdarray` after each
   constructor. -/
import TetlProofs.C19.Members
namespace Tetl.C19.Lemmas
open Tetl Tetl.C19 Tetl.C19.Spec

/-- the precondition of [mdspan.extents.cons] / [mdspan.mdspan.members] `size()`: every extent is representable in
    `index_type` and the size of the index space in `size_type` (= `make_unsigned_t<index_type>`).  Weaker than `Fits`:
    a shape with a zero extent and huge other extents has size 0. -/
def SizeFits (t : IdxT) (vals : List Nat) : Prop := (∀ x ∈ vals, x ≤ t.maxV) ∧ prod vals ≤ t.toUnsigned.maxV

instance (t : IdxT) (vals : List Nat) : Decidable (SizeFits t vals) := by unfold SizeFits; exact inferInstance

/-- `Fits` implies `SizeFits` -/
theorem sizeFits_of_fits (t : IdxT) (vals : List Nat) (hf : Fits t vals) : SizeFits t vals := by
  refine ⟨?_, Nat.le_trans (fits_prod t vals hf) (maxV_le_unsigned t)⟩
  intro x hx
  obtain ⟨k, hk, rfl⟩ := List.getElem_of_mem hx
  exact fits_elem t vals hf k hk

theorem mda_prodLoop_mod (t : IdxT) (hv : IdxT.Valid t) (e : Ext) (vals : List Nat) (he : ExtIs t e vals)
    (hm : ∀ x ∈ vals, x ≤ t.maxV) :
    ∀ (n k : Nat) (acc : Int), 0 ≤ acc → acc < 2 ^ 64 → k + n ≤ vals.length →
      prodLoop t e (List.range' k n) acc = .ok ((acc * ((prod ((vals.drop k).take n) : Nat) : Int)) % 2 ^ 64) := by
  intro n
  induction n with
  | zero =>
    intro k acc h0 h1 _
    simp only [List.range'_zero, prodLoop, List.take_zero, prod, Int.natCast_one, Int.mul_one]
    rw [Int.emod_eq_of_lt h0 h1]
  | succ n ih =>
    intro k acc h0 h1 hk
    have hk' : k < vals.length := by omega
    rw [List.range'_succ]
    simp only [prodLoop, he.2 k hk', bind, Except.bind]
    have hmax := maxV_lt t hv
    have hx1 : ((vals[k] : Nat) : Int) < 2 ^ 64 := by
      have : ((vals[k] : Nat) : Int) ≤ (t.maxV : Nat) := by exact_mod_cast hm _ (List.getElem_mem _)
      omega
    rw [sz_id _ (Int.natCast_nonneg _) hx1]
    have hpos : (0 : Int) < 2 ^ 64 := Int.pow_pos (by decide)
    have hs0 : 0 ≤ sz (acc * ((vals[k] : Nat) : Int)) := Int.emod_nonneg _ (Int.ne_of_gt hpos)
    have hs1 : sz (acc * ((vals[k] : Nat) : Int)) < 2 ^ 64 := Int.emod_lt_of_pos _ hpos
    rw [ih (k + 1) _ hs0 hs1 (by omega)]
    rw [List.drop_eq_getElem_cons hk', List.take_succ_cons]
    simp only [prod, sz, Int.natCast_mul]
    congr 1
    rw [Int.mul_emod, Int.emod_emod, ← Int.mul_emod, Int.mul_assoc]

/-- the product loop computes the product modulo 2^64 whatever the extents are (unsigned `size_t` arithmetic never
    overflows into undefined behaviour) -/
theorem fwdProd_mod (t : IdxT) (hv : IdxT.Valid t) (e : Ext) (vals : List Nat) (he : ExtIs t e vals)
    (hm : ∀ x ∈ vals, x ≤ t.maxV) :
    e.fwdProd t vals.length = .ok (((prod vals : Nat) : Int) % 2 ^ 64) := by
  unfold Ext.fwdProd
  split
  · rename_i h0
    have : vals.length = 0 := by rw [← he.1]; exact h0
    have hnil : vals = [] := List.eq_nil_of_length_eq_zero this
    subst hnil
    simp only [prod, Int.natCast_one]
    rfl
  · have hpos : (0 : Int) < 2 ^ 64 := Int.pow_pos (by decide)
    have := mda_prodLoop_mod t hv e vals he hm vals.length 0 1 (by decide) (by omega) (by omega)
    rw [List.range_eq_range', this]
    simp

/-- `static_cast<size_type>` of a `size_t` value that holds `x mod 2^64` is `x` when `x` is representable in `size_type` -/
theorem mda_wrapU_mod (t : IdxT) (hv : IdxT.Valid t) (x : Nat) (h : x ≤ t.toUnsigned.maxV) :
    t.toUnsigned.wrap (((x : Nat) : Int) % 2 ^ 64) = ((x : Nat) : Int) := by
  have hd : (2 : Int) ^ t.bits ∣ 2 ^ 64 :=
    ⟨2 ^ (64 - t.bits), by rw [← Int.pow_add]; congr 1; have := hv.2; omega⟩
  have hc := maxV_cast t.toUnsigned
  have hle : ((x : Nat) : Int) ≤ (t.toUnsigned.maxV : Nat) := by exact_mod_cast h
  simp only [IdxT.toUnsigned, Bool.false_eq_true, if_false] at hc hle
  simp only [IdxT.wrap, IdxT.toUnsigned, Bool.false_eq_true, if_false]
  rw [Int.emod_emod_of_dvd _ hd]
  exact Int.emod_eq_of_lt (Int.natCast_nonneg _) (by omega)

theorem mdspanSize_std (t : IdxT) (hv : IdxT.Valid t) (e : Ext) (vals : List Nat) (he : ExtIs t e vals)
    (hf : SizeFits t vals) : mdspanSize t e = .ok ((prod vals : Nat) : Int) := by
  unfold mdspanSize
  rw [he.1, fwdProd_mod t hv e vals he hf.1]
  simp only [bind, Except.bind, pure, Except.pure]
  rw [mda_wrapU_mod t hv _ hf.2]

theorem mdspanEmpty_std (t : IdxT) (hv : IdxT.Valid t) (e : Ext) (vals : List Nat) (he : ExtIs t e vals)
    (hf : SizeFits t vals) : mdspanEmpty t e = .ok (decide (0 ∈ vals)) := by
  unfold mdspanEmpty
  rw [mdspanSize_std t hv e vals he hf]
  simp only [bind, Except.bind, pure, Except.pure]
  congr 1
  rw [Bool.eq_iff_iff]
  simp only [beq_iff_eq, decide_eq_true_eq, ← prod_eq_zero_iff]
  exact_mod_cast Iff.rfl

theorem mdarraySize_std (t : IdxT) (hv : IdxT.Valid t) (e : Ext) (vals : List Nat) (he : ExtIs t e vals)
    (hf : SizeFits t vals) : mdarraySize t e = .ok ((prod vals : Nat) : Int) := by
  exact mdspanSize_std t hv e vals he hf

theorem mdarrayEmpty_std (t : IdxT) (hv : IdxT.Valid t) (e : Ext) (vals : List Nat) (he : ExtIs t e vals)
    (hf : SizeFits t vals) : mdarrayEmpty t e = .ok (decide (0 ∈ vals)) := by
  unfold mdarrayEmpty
  rw [mdarraySize_std t hv e vals he hf]
  simp only [bind, Except.bind, pure, Except.pure]
  congr 1
  rw [Bool.eq_iff_iff]
  simp only [beq_iff_eq, decide_eq_true_eq, ← prod_eq_zero_iff]
  exact_mod_cast Iff.rfl

/-! ### mdarray constructors -/

/-- `mdarray::operator()` on any container of at least `required_span_size` elements reads the container element at the
    closed-form offset -/
theorem mdarrayRead_eq {α : Type} (l : Lay) (t : IdxT) (hv : IdxT.Valid t) (e : Ext) (vals : List Nat) (he : ExtIs t e vals)
    (hf : Fits t vals) (ctr : List α) (hb : prod vals ≤ ctr.length) (idx : List Nat) (hr : InRange vals idx) :
    ∃ h : offSpec l vals idx < ctr.length, mdarrayRead l t e ctr (idx.map Int.ofNat) = .ok ctr[offSpec l vals idx] := by
  exact mdspanAt_eq l t hv e vals he hf ctr hb idx hr

theorem mdarrayReadStride_eq {α : Type} (t : IdxT) (hv : IdxT.Valid t) (e : Ext) (vals s : List Nat) (he : ExtIs t e vals)
    (hs : s.length = vals.length) (hf : FitsStride t vals s) (ctr : List α) (hb : reqSpanStride vals s ≤ ctr.length)
    (idx : List Nat) (hr : InRange vals idx) :
    ∃ h : offStride s idx < ctr.length, mdarrayReadStride t (smap e s) ctr (idx.map Int.ofNat) = .ok ctr[offStride s idx] := by
  exact mdspanAtStride_eq t hv e vals s he hs hf ctr hb idx hr

/-- the number of elements of the container after construction: `required_span_size()` for a size-constructible
    container, the static size for `etl::array` -/
def ctrLen (k : Ctr) (req : Nat) : Nat :=
  match k with
  | .sized _ => req
  | .arr n => n

/-- the precondition of the constructors: the container can hold `required_span_size()` elements
    (`TETL_PRECONDITION(n <= capacity())` of `static_vector`; for `etl::array` the static size, [mdarray.ctors]) -/
def CtrFits (k : Ctr) (req : Nat) : Prop :=
  match k with
  | .sized cap => req ≤ cap
  | .arr n => req ≤ n

instance (k : Ctr) (req : Nat) : Decidable (CtrFits k req) := by unfold CtrFits; cases k <;> exact inferInstance

/-- `mdarray(mapping)`, `mdarray(extents)`, `mdarray(exts...)`: `ctrLen` value-initialised elements -/
theorem mdarrayOfMapping_eq (l : Lay) (t : IdxT) (hv : IdxT.Valid t) (e : Ext) (vals : List Nat) (he : ExtIs t e vals)
    (hf : Fits t vals) (k : Ctr) (hk : CtrFits k (prod vals)) :
    mdarrayOfMapping l t e k = .ok (List.replicate (ctrLen k (prod vals)) 0) := by
  unfold mdarrayOfMapping
  have hmax := maxV_lt t hv
  have hle : ((prod vals : Nat) : Int) ≤ (t.maxV : Nat) := by exact_mod_cast fits_prod t vals hf
  have hsz : sz ((prod vals : Nat) : Int) = ((prod vals : Nat) : Int) := sz_id _ (Int.natCast_nonneg _) (by omega)
  rw [reqSpan_eq l t hv e vals he hf]
  simp only [bind, Except.bind]
  cases k with
  | sized cap =>
    simp only [ctrOfSize, hsz, Int.toNat_natCast, ctrLen]
    exact if_pos (show _ ≤ cap from hk)
  | arr n => rfl

/-- `mdarray(mapping, value)`, `mdarray(extents, value)`: `ctrLen` copies of the value -/
theorem mdarrayOfValue_eq (l : Lay) (t : IdxT) (hv : IdxT.Valid t) (e : Ext) (vals : List Nat) (he : ExtIs t e vals)
    (hf : Fits t vals) (k : Ctr) (hk : CtrFits k (prod vals)) (val : Int) :
    mdarrayOfValue l t e k val = .ok (List.replicate (ctrLen k (prod vals)) val) := by
  unfold mdarrayOfValue
  have hmax := maxV_lt t hv
  have hle : ((prod vals : Nat) : Int) ≤ (t.maxV : Nat) := by exact_mod_cast fits_prod t vals hf
  have hsz : sz ((prod vals : Nat) : Int) = ((prod vals : Nat) : Int) := sz_id _ (Int.natCast_nonneg _) (by omega)
  rw [reqSpan_eq l t hv e vals he hf]
  simp only [bind, Except.bind]
  cases k with
  | sized cap =>
    simp only [ctrOfValue, hsz, Int.toNat_natCast, ctrLen]
    exact if_pos (show _ ≤ cap from hk)
  | arr n => rfl

/-- every element an in-range multi-index refers to after `mdarray(mapping, value)` is the value -/
theorem mdarrayOfValue_read (l : Lay) (t : IdxT) (hv : IdxT.Valid t) (e : Ext) (vals : List Nat) (he : ExtIs t e vals)
    (hf : Fits t vals) (k : Ctr) (hk : CtrFits k (prod vals)) (val : Int) (idx : List Nat) (hr : InRange vals idx) :
    ∃ c, mdarrayOfValue l t e k val = .ok c ∧ prod vals ≤ c.length ∧ mdarrayRead l t e c (idx.map Int.ofNat) = .ok val := by
  have hlen : prod vals ≤ (List.replicate (ctrLen k (prod vals)) val).length := by
    rw [List.length_replicate]
    cases k with
    | sized cap => exact Nat.le_refl _
    | arr n => exact hk
  refine ⟨_, mdarrayOfValue_eq l t hv e vals he hf k hk val, hlen, ?_⟩
  obtain ⟨hlt, h⟩ := mdarrayRead_eq l t hv e vals he hf _ hlen idx hr
  rw [h, List.getElem_replicate]

theorem mdarrayOfMappingStride_eq (t : IdxT) (hv : IdxT.Valid t) (e : Ext) (vals s : List Nat) (he : ExtIs t e vals)
    (hs : s.length = vals.length) (hf : FitsStride t vals s) (k : Ctr) (hk : CtrFits k (reqSpanStride vals s)) :
    mdarrayOfMappingStride t (smap e s) k = .ok (List.replicate (ctrLen k (reqSpanStride vals s)) 0) := by
  unfold mdarrayOfMappingStride
  have hmax := maxV_lt t hv
  have hle : ((reqSpanStride vals s : Nat) : Int) ≤ (t.maxV : Nat) := by exact_mod_cast hf.2.2
  have hsz : sz ((reqSpanStride vals s : Nat) : Int) = ((reqSpanStride vals s : Nat) : Int) := sz_id _ (Int.natCast_nonneg _) (by omega)
  rw [smap_reqSpan_eq t hv e vals s he hs hf]
  simp only [bind, Except.bind]
  cases k with
  | sized cap =>
    simp only [ctrOfSize, hsz, Int.toNat_natCast, ctrLen]
    exact if_pos (show _ ≤ cap from hk)
  | arr n => rfl

theorem mdarrayOfValueStride_eq (t : IdxT) (hv : IdxT.Valid t) (e : Ext) (vals s : List Nat) (he : ExtIs t e vals)
    (hs : s.length = vals.length) (hf : FitsStride t vals s) (k : Ctr) (hk : CtrFits k (reqSpanStride vals s)) (val : Int) :
    mdarrayOfValueStride t (smap e s) k val = .ok (List.replicate (ctrLen k (reqSpanStride vals s)) val) := by
  unfold mdarrayOfValueStride
  have hmax := maxV_lt t hv
  have hle : ((reqSpanStride vals s : Nat) : Int) ≤ (t.maxV : Nat) := by exact_mod_cast hf.2.2
  have hsz : sz ((reqSpanStride vals s : Nat) : Int) = ((reqSpanStride vals s : Nat) : Int) := sz_id _ (Int.natCast_nonneg _) (by omega)
  rw [smap_reqSpan_eq t hv e vals s he hs hf]
  simp only [bind, Except.bind]
  cases k with
  | sized cap =>
    simp only [ctrOfValue, hsz, Int.toNat_natCast, ctrLen]
    exact if_pos (show _ ≤ cap from hk)
  | arr n => rfl

end Tetl.C19.Lemmas
