/- C19: `layout_stride::mapping::is_exhaustive` (spec side): required_span_size = size of the index space exactly when the
   strides are those of a contiguous layout of the dimensions taken in the order of the uniqueness witness. -/
import Mathlib.Data.List.Perm.Subperm
import Mathlib.Data.Finset.Card
import TetlProofs.C19.Stride
namespace Tetl.C19.Lemmas
open Tetl Tetl.C19 Tetl.C19.Spec

/-- (extent, stride) pairs listed by decreasing stride are those of a contiguous layout: every dimension with more than
    one index has as stride the product of the extents of the faster dimensions (the stride of a dimension of extent 1
    never contributes to an offset) -/
def Contig : List (Nat × Nat) → Prop
  | [] => True
  | (e, s) :: r => (e = 1 ∨ s = prod (r.map Prod.fst)) ∧ Contig r

/-- the literal wording of [mdspan.layout.stride.obs] for `is_exhaustive` on pairs listed by decreasing stride:
    the fastest dimension has stride 1 and every other stride is (next faster stride) * (its extent) -/
def StdContig : List (Nat × Nat) → Prop
  | [] => True
  | (_, s) :: r => s = topBound r ∧ StdContig r

theorem exhaustive_of_empty (e s : List Nat) (h : prod e = 0) : isExhaustiveStride e s = true := by
  simp [isExhaustiveStride, reqSpanStride, h]

/-! ### helpers -/

/-- largest offset over a list of (extent, stride) pairs -/
def exh_M : List (Nat × Nat) → Nat
  | [] => 0
  | (e, s) :: r => (e - 1) * s + exh_M r

theorem exh_prod_perm (a b : List Nat) (h : a.Perm b) : prod a = prod b := by
  induction h with
  | nil => rfl
  | cons x _ ih => simp [prod, ih]
  | swap x y l => simp only [prod]; rw [← Nat.mul_assoc, ← Nat.mul_assoc, Nat.mul_comm y x]
  | trans _ _ ih1 ih2 => exact ih1.trans ih2

theorem exh_pos_of_prod : ∀ (e : List Nat), prod e ≠ 0 → ∀ x ∈ e, 1 ≤ x := by
  intro e h x hx
  rcases Nat.eq_zero_or_pos x with h0 | h0
  · subst h0; exact absurd (prod_eq_zero_of_mem e hx) h
  · exact h0

theorem exh_permPairs_eq (e s : List Nat) : ∀ (perm : List Nat) (l : List (Nat × Nat)), permPairs e s perm = some l →
    l = perm.map (fun k => (e.getD k 0, s.getD k 0)) ∧ ∀ k ∈ perm, k < e.length
  | [], l, h => by
      simp [permPairs] at h
      subst h
      simp
  | k :: ks, l, h => by
      simp only [permPairs, List.mapM_cons, Option.bind_eq_bind] at h
      cases hek : e[k]? with
      | none => simp [hek] at h
      | some a =>
        cases hsk : s[k]? with
        | none => simp [hek, hsk] at h
        | some b =>
          cases hr : permPairs e s ks with
          | none => simp [hek, hsk, permPairs] at h hr; simp [hr] at h
          | some rest =>
            have hl : l = (a, b) :: rest := by
              simp only [permPairs] at hr
              simp [hek, hsk, hr] at h
              exact h.symm
            subst hl
            obtain ⟨ih1, ih2⟩ := exh_permPairs_eq e s ks rest hr
            have hk : k < e.length := by
              rcases Nat.lt_or_ge k e.length with h' | h'
              · exact h'
              · rw [List.getElem?_eq_none h'] at hek; cases hek
            refine ⟨?_, ?_⟩
            · simp [List.getD_eq_getElem?_getD, hek, hsk, ih1]
            · intro k' hk'
              simp only [List.mem_cons] at hk'
              rcases hk' with rfl | hk'
              · exact hk
              · exact ih2 k' hk'

theorem exh_range_getD (e : List Nat) : (List.range e.length).map (fun k => e.getD k 0) = e := by
  apply List.ext_getElem (by simp)
  intro k h1 h2
  simp at h1
  simp [List.getD_eq_getElem?_getD, List.getElem?_eq_getElem h1]

theorem exh_maxOff_eq : ∀ (e s : List Nat), s.length = e.length →
    maxOffStride e s = ((List.range e.length).map (fun k => (e.getD k 0 - 1) * s.getD k 0)).sum
  | [], [], _ => by simp [maxOffStride]
  | e :: es, s :: ss, h => by
      have ih := exh_maxOff_eq es ss (by simpa using h)
      simp only [maxOffStride, ih, List.length_cons]
      rw [List.range_succ_eq_map]
      simp [List.map_map, Function.comp_def]
  | [], _ :: _, h => by simp at h
  | _ :: _, [], h => by simp at h

theorem exh_M_map (e s : List Nat) : ∀ (perm : List Nat),
    exh_M (perm.map (fun k => (e.getD k 0, s.getD k 0))) = (perm.map (fun k => (e.getD k 0 - 1) * s.getD k 0)).sum
  | [] => by simp [exh_M]
  | k :: ks => by
      have ih := exh_M_map e s ks
      simp only [List.map_cons, exh_M, List.sum_cons, ih]

/-- sum and product over the permuted pairs are those of the original order -/
theorem exh_perm_invariant (e s perm : List Nat) (l : List (Nat × Nat)) (hs : s.length = e.length)
    (hp : perm.length = e.length) (hall : ∀ k, k < e.length → k ∈ perm) (hl : permPairs e s perm = some l) :
    maxOffStride e s = exh_M l ∧ prod e = prod (l.map Prod.fst) ∧ ∀ p ∈ l, p.1 ∈ e := by
  obtain ⟨h1, h2⟩ := exh_permPairs_eq e s perm l hl
  have hperm := perm_range perm e.length hp hall
  subst h1
  refine ⟨?_, ?_, ?_⟩
  · rw [exh_maxOff_eq e s hs, exh_M_map]
    exact (hperm.map _).sum_nat
  · rw [List.map_map]
    conv => lhs; rw [← exh_range_getD e]
    exact exh_prod_perm _ _ (hperm.map _)
  · intro p hp'
    simp only [List.mem_map] at hp'
    obtain ⟨k, hk, rfl⟩ := hp'
    have := h2 k hk
    simp [List.getD_eq_getElem?_getD, List.getElem?_eq_getElem this]

theorem exh_M_lt_topBound : ∀ (l : List (Nat × Nat)), Desc l → (∀ p ∈ l, 1 ≤ p.1) → exh_M l + 1 ≤ topBound l
  | [], _, _ => by simp [exh_M, topBound]
  | (e, s) :: r, hd, h1 => by
      have ih := exh_M_lt_topBound r hd.2 (fun p hp => h1 p (List.mem_cons_of_mem _ hp))
      have he : 1 ≤ e := h1 (e, s) (List.mem_cons_self)
      have hd1 := hd.1
      obtain ⟨e', rfl⟩ : ∃ e', e = e' + 1 := ⟨e - 1, by omega⟩
      simp only [exh_M, topBound, Nat.add_sub_cancel, Nat.mul_succ]
      rw [Nat.mul_comm s e']
      omega

theorem exh_prod_le : ∀ (l : List (Nat × Nat)), Desc l → (∀ p ∈ l, 1 ≤ p.1) →
    prod (l.map Prod.fst) ≤ exh_M l + 1 ∧ (exh_M l + 1 = prod (l.map Prod.fst) ↔ Contig l)
  | [], _, _ => by simp [exh_M, prod, Contig]
  | (e, s) :: r, hd, h1 => by
      have h1r : ∀ p ∈ r, 1 ≤ p.1 := fun p hp => h1 p (List.mem_cons_of_mem _ hp)
      obtain ⟨ih1, ih2⟩ := exh_prod_le r hd.2 h1r
      have hm := exh_M_lt_topBound r hd.2 h1r
      have he : 1 ≤ e := h1 (e, s) (List.mem_cons_self)
      have hd1 := hd.1
      obtain ⟨e', rfl⟩ : ∃ e', e = e' + 1 := ⟨e - 1, by omega⟩
      simp only [exh_M, List.map_cons, prod, Contig, Nat.add_sub_cancel, Nat.succ_mul]
      generalize prod (r.map Prod.fst) = p at *
      generalize exh_M r = m at *
      have hps : p ≤ s := by omega
      have hmul : e' * p ≤ e' * s := Nat.mul_le_mul_left _ hps
      refine ⟨by omega, ?_⟩
      rw [← ih2]
      constructor
      · intro h
        have h3 : e' * p = e' * s := by omega
        refine ⟨?_, by omega⟩
        rcases Nat.eq_zero_or_pos e' with h0 | h0
        · left; omega
        · right; exact (Nat.eq_of_mul_eq_mul_left h0 h3).symm
      · rintro ⟨h | h, h4⟩
        · have : e' = 0 := by omega
          subst this; simp; omega
        · subst h; omega

theorem exhaustive_iff_contig (e s perm : List Nat) (l : List (Nat × Nat)) (hok : StrideOK e s perm = true)
    (hl : permPairs e s perm = some l) (hne : prod e ≠ 0) :
    isExhaustiveStride e s = true ↔ Contig l := by
  unfold StrideOK at hok
  simp only [Bool.and_eq_true, decide_eq_true_eq, List.all_eq_true, List.mem_range, List.contains_iff_mem] at hok
  obtain ⟨⟨⟨hs, hp⟩, hall⟩, hd⟩ := hok
  simp only [hl, decide_eq_true_eq] at hd
  obtain ⟨a1, a2, a3⟩ := exh_perm_invariant e s perm l hs hp (fun k hk => by simpa using hall k hk) hl
  have h1 : ∀ p ∈ l, 1 ≤ p.1 := fun p hp => exh_pos_of_prod e hne _ (a3 p hp)
  obtain ⟨_, b2⟩ := exh_prod_le l hd h1
  rw [← b2, ← a1, ← a2]
  simp only [isExhaustiveStride, reqSpanStride, if_neg hne, beq_iff_eq]
  omega

theorem exh_std_topBound : ∀ (l : List (Nat × Nat)), StdContig l → topBound l = prod (l.map Prod.fst)
  | [], _ => by simp [topBound, prod]
  | (e, s) :: r, h => by
      have ih := exh_std_topBound r h.2
      simp only [topBound, List.map_cons, prod]
      rw [h.1, ih, Nat.mul_comm]

theorem contig_of_std (l : List (Nat × Nat)) (h : StdContig l) : Contig l := by
  induction l with
  | nil => trivial
  | cons p r ih =>
    obtain ⟨e, s⟩ := p
    exact ⟨Or.inr (by rw [h.1, exh_std_topBound r h.2]), ih h.2⟩

theorem std_of_contig (l : List (Nat × Nat)) (hd : Desc l) (h : Contig l) (h2 : ∀ p ∈ l, 2 ≤ p.1) : StdContig l := by
  induction l with
  | nil => trivial
  | cons p r ih =>
    obtain ⟨e, s⟩ := p
    have ihr := ih hd.2 h.2 (fun p hp => h2 p (List.mem_cons_of_mem _ hp))
    have he : 2 ≤ e := h2 (e, s) (List.mem_cons_self)
    refine ⟨?_, ihr⟩
    rw [exh_std_topBound r ihr]
    rcases h.1 with h' | h'
    · omega
    · exact h'

/-! ### "exhaustive" as surjectivity -/

/-- column-major decoding of an offset into a multi-index -/
def exh_dec : List Nat → Nat → List Nat
  | [], _ => []
  | e :: es, k => (k % e) :: exh_dec es (k / e)

theorem exh_dec_inRange : ∀ (e : List Nat) (k : Nat), (∀ x ∈ e, 1 ≤ x) → InRange e (exh_dec e k)
  | [], _, _ => trivial
  | e :: es, k, h => by
      have he : 1 ≤ e := h e (List.mem_cons_self)
      exact ⟨Nat.mod_lt _ (by omega), exh_dec_inRange es (k / e) (fun x hx => h x (List.mem_cons_of_mem _ hx))⟩

theorem exh_dec_offLeft : ∀ (e : List Nat) (k : Nat), k < prod e → offLeft e (exh_dec e k) = k
  | [], k, h => by simp [prod] at h; simp [offLeft, h]
  | e :: es, k, h => by
      simp only [prod] at h
      have hd : k / e < prod es := Nat.div_lt_of_lt_mul h
      simp only [exh_dec, offLeft, exh_dec_offLeft es (k / e) hd]
      exact Nat.mod_add_div k e

theorem exh_dec_of_inRange (e i : List Nat) (h : InRange e i) : exh_dec e (offLeft e i) = i := by
  have hp : prod e ≠ 0 := by have := inRange_pos_prod e i h; omega
  have hlt := offLeft_lt e i h
  exact offLeft_inj e _ _ (exh_dec_inRange e _ (exh_pos_of_prod e hp)) h (exh_dec_offLeft e _ hlt)

/-- the meaning of "exhaustive" in the layout mapping requirements: every offset below required_span_size is hit -/
theorem exhaustive_iff_surjective (e s perm : List Nat) (hok : StrideOK e s perm = true) :
    isExhaustiveStride e s = true ↔ ∀ k, k < reqSpanStride e s → ∃ i, InRange e i ∧ offStride s i = k := by
  by_cases hne : prod e = 0
  · simp [isExhaustiveStride, reqSpanStride, hne]
  have hpos := exh_pos_of_prod e hne
  have hin : ∀ k, InRange e (exh_dec e k) := fun k => exh_dec_inRange e k hpos
  have hinj : ∀ a b, a < prod e → b < prod e → offStride s (exh_dec e a) = offStride s (exh_dec e b) → a = b := by
    intro a b ha hb h
    have := offStride_inj e s perm _ _ hok (hin a) (hin b) h
    rw [← exh_dec_offLeft e a ha, ← exh_dec_offLeft e b hb, this]
  have hle : prod e ≤ reqSpanStride e s := by
    have := Finset.le_card_of_inj_on_range (s := Finset.range (reqSpanStride e s)) (n := prod e)
      (fun a => offStride s (exh_dec e a))
      (fun a _ => Finset.mem_range.mpr (offStride_lt_req e s _ (hin a)))
      (fun a ha b hb h => hinj a b ha hb h)
    simpa using this
  simp only [isExhaustiveStride, beq_iff_eq]
  constructor
  · intro hex k hk
    have := Finset.surj_on_of_inj_on_of_card_le (s := Finset.range (prod e)) (t := Finset.range (reqSpanStride e s))
      (fun a _ => offStride s (exh_dec e a))
      (fun a _ => Finset.mem_range.mpr (offStride_lt_req e s _ (hin a)))
      (fun a b ha hb h => hinj a b (Finset.mem_range.mp ha) (Finset.mem_range.mp hb) h)
      (by simp [hex]) k (Finset.mem_range.mpr hk)
    obtain ⟨a, _, ha⟩ := this
    exact ⟨exh_dec e a, hin a, ha.symm⟩
  · intro hsurj
    have hsub : Finset.range (reqSpanStride e s) ⊆
        (Finset.range (prod e)).image (fun a => offStride s (exh_dec e a)) := by
      intro k hk
      obtain ⟨i, hi, hik⟩ := hsurj k (Finset.mem_range.mp hk)
      rw [Finset.mem_image]
      exact ⟨offLeft e i, Finset.mem_range.mpr (offLeft_lt e i hi), by rw [exh_dec_of_inRange e i hi, hik]⟩
    have h1 := Finset.card_le_card hsub
    have h2 := Finset.card_image_le (s := Finset.range (prod e)) (f := fun a => offStride s (exh_dec e a))
    simp only [Finset.card_range] at h1 h2
    omega

end Tetl.C19.Lemmas
