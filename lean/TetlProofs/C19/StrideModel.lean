/- C19: the model of `layout_stride::mapping` (strides, operator(), required_span_size, is_exhaustive, mdspan / mdarray
   access over it) equals the closed forms of Tetl/C19/Spec.lean under the representability precondition. -/
import TetlProofs.C19.Mapping
namespace Tetl.C19.Lemmas
open Tetl Tetl.C19 Tetl.C19.Spec

/-- representability precondition of `layout_stride::mapping(extents, strides)` ([mdspan.layout.stride.cons]):
    every extent, every stride and the required span size are representable in `index_type` -/
def FitsStride (t : IdxT) (vals s : List Nat) : Prop :=
  (∀ x ∈ vals, x ≤ t.maxV) ∧ (∀ x ∈ s, x ≤ t.maxV) ∧ reqSpanStride vals s ≤ t.maxV

instance (t : IdxT) (vals s : List Nat) : Decidable (FitsStride t vals s) := by unfold FitsStride; exact inferInstance

/-- the mapping object the constructor builds -/
def smap (e : Ext) (s : List Nat) : StrideMap := { ext := e, strides := s.map Int.ofNat }

theorem strideMk_eq (t : IdxT) (hv : IdxT.Valid t) (e : Ext) (vals s : List Nat) (he : ExtIs t e vals)
    (hs : s.length = vals.length) (hm : ∀ x ∈ s, x ≤ t.maxV) :
    StrideMap.mk' t e (s.map Int.ofNat) = .ok (smap e s) := by
  unfold StrideMap.mk'
  rw [if_neg (by simp [he.1, hs]), map_wrap_id t hv s hm]
  rfl

theorem smap_rd (s : List Nat) (k : Nat) (hk : k < s.length) : rd (s.map Int.ofNat) k = .ok ((s[k] : Nat) : Int) := by
  rw [rd_ok _ k (by simpa using hk)]
  simp

theorem smap_stride_eq (e : Ext) (vals s : List Nat) (hl : e.pat.length = vals.length) (hs : s.length = vals.length)
    (k : Nat) (hk : k < s.length) : (smap e s).stride k = .ok ((s[k] : Nat) : Int) := by
  unfold StrideMap.stride smap
  simp only []
  rw [if_pos (by omega)]
  exact smap_rd s k hk

theorem sumSpec_getD : ∀ (idx s : List Nat) (k : Nat), k + idx.length = s.length →
    sumSpec (fun j => s.getD j 0) k idx = offStride (s.drop k) idx
  | [], s, k, _ => by
      simp only [sumSpec]
      cases s.drop k <;> rfl
  | i :: is, s, k, h => by
      have hk : k < s.length := by simp at h; omega
      rw [List.drop_eq_getElem_cons hk]
      simp only [sumSpec, offStride]
      rw [sumSpec_getD is s (k + 1) (by simp at h; omega)]
      simp [List.getD_eq_getElem?_getD, List.getElem?_eq_getElem hk]

theorem inRange_le_of (vals idx : List Nat) (M : Nat) (hm : ∀ x ∈ vals, x ≤ M) (hr : InRange vals idx) : ∀ x ∈ idx, x ≤ M := by
  intro x hx
  obtain ⟨k, hk, rfl⟩ := List.getElem_of_mem hx
  have hlen := inRange_length _ _ hr
  have h1 := inRange_getElem vals idx hr k hk (by omega)
  have h2 := hm vals[k] (List.getElem_mem _)
  omega

theorem smap_mapIdx_eq (t : IdxT) (hv : IdxT.Valid t) (e : Ext) (vals s : List Nat) (he : ExtIs t e vals)
    (hs : s.length = vals.length) (hf : FitsStride t vals s) (idx : List Nat) (hr : InRange vals idx) :
    (smap e s).mapIdx t (idx.map Int.ofNat) = .ok ((offStride s idx : Nat) : Int) := by
  have hlen := inRange_length _ _ hr
  unfold StrideMap.mapIdx smap
  simp only []
  rw [if_neg (by simp [he.1, hlen])]
  have hsum := sumLoop_eq t hv (fun k => rd (s.map Int.ofNat) k) (fun j => s.getD j 0) s.length
    (fun k hk => by
      simp only [smap_rd s k hk, List.getD_eq_getElem?_getD, List.getElem?_eq_getElem hk, Option.getD_some])
    idx 0 (by omega) (inRange_le_of vals idx _ hf.1 hr)
  simp only [hsum, bind, Except.bind, pure, Except.pure, sumSpec_getD idx s 0 (by omega), List.drop_zero]
  rw [wrap_id t hv _ (Int.natCast_nonneg _)]
  have h1 := offStride_lt_req vals s idx hr
  have h2 := hf.2.2
  exact_mod_cast (by omega : offStride s idx ≤ t.maxV)

theorem prod_eq_zero_iff : ∀ (l : List Nat), prod l = 0 ↔ 0 ∈ l
  | [] => by simp [prod]
  | x :: xs => by
      simp only [prod, Nat.mul_eq_zero, prod_eq_zero_iff xs, List.mem_cons]
      constructor
      · rintro (h | h)
        · exact Or.inl h.symm
        · exact Or.inr h
      · rintro (h | h)
        · exact Or.inl h.symm
        · exact Or.inr h

theorem anyZeroLoop_eq (t : IdxT) (e : Ext) (vals : List Nat) (he : ExtIs t e vals) :
    ∀ (n k : Nat), k + n = vals.length → anyZeroLoop t e (List.range' k n) = .ok (decide (0 ∈ vals.drop k)) := by
  intro n
  induction n with
  | zero =>
    intro k hk
    have : vals.drop k = [] := List.drop_eq_nil_of_le (by omega)
    simp [anyZeroLoop, this]
  | succ n ih =>
    intro k hk
    have hk' : k < vals.length := by omega
    rw [List.range'_succ, List.drop_eq_getElem_cons hk']
    simp only [anyZeroLoop, he.2 k hk', bind, Except.bind, pure, Except.pure]
    by_cases h0 : vals[k] = 0
    · simp [h0]
    · have hne : ¬ ((vals[k] : Nat) : Int) = 0 := by exact_mod_cast h0
      rw [if_neg hne, ih (k + 1) (by omega)]
      congr 1
      simp only [List.mem_cons, decide_eq_decide]
      constructor
      · intro h; exact Or.inr h
      · rintro (h | h)
        · exact absurd h.symm h0
        · exact h

theorem maxOff_drop (vals s : List Nat) (k : Nat) (hk : k < vals.length) (hs : s.length = vals.length) :
    maxOffStride (vals.drop k) (s.drop k) = (vals[k] - 1) * s[k]'(by omega) + maxOffStride (vals.drop (k + 1)) (s.drop (k + 1)) := by
  rw [List.drop_eq_getElem_cons hk, List.drop_eq_getElem_cons (by omega : k < s.length)]
  rfl

theorem reqStrideLoop_eq (t : IdxT) (hv : IdxT.Valid t) (e : Ext) (vals s : List Nat) (he : ExtIs t e vals)
    (hs : s.length = vals.length) (hpos : ∀ x ∈ vals, 1 ≤ x) :
    ∀ (n k acc : Nat), k + n = vals.length → acc + maxOffStride (vals.drop k) (s.drop k) ≤ t.maxV →
      reqStrideLoop t (smap e s) (List.range' k n) ((acc : Nat) : Int)
        = .ok ((acc + maxOffStride (vals.drop k) (s.drop k) : Nat) : Int) := by
  intro n
  induction n with
  | zero =>
    intro k acc hk _
    have : vals.drop k = [] := List.drop_eq_nil_of_le (by omega)
    simp [reqStrideLoop, this, maxOffStride]
  | succ n ih =>
    intro k acc hk hle
    have hk' : k < vals.length := by omega
    have hks : k < s.length := by omega
    rw [maxOff_drop vals s k hk' hs] at hle ⊢
    rw [List.range'_succ]
    have hx1 : 1 ≤ vals[k] := hpos _ (List.getElem_mem _)
    simp only [reqStrideLoop, smap, he.2 k hk', smap_rd s k hks, bind, Except.bind]
    have hcast : ((acc : Nat) : Int) + (((vals[k] : Nat) : Int) - 1) * ((s[k] : Nat) : Int)
        = ((acc + (vals[k] - 1) * s[k] : Nat) : Int) := by
      rw [Int.natCast_add, Int.natCast_mul, Int.natCast_sub hx1]
      simp
    rw [hcast, wrap_id t hv _ (Int.natCast_nonneg _) (by exact_mod_cast (by omega : acc + (vals[k] - 1) * s[k] ≤ t.maxV))]
    have := ih (k + 1) (acc + (vals[k] - 1) * s[k]) (by omega) (by omega)
    simp only [smap] at this
    rw [this]
    congr 2
    omega

theorem smap_reqSpan_eq (t : IdxT) (hv : IdxT.Valid t) (e : Ext) (vals s : List Nat) (he : ExtIs t e vals)
    (hs : s.length = vals.length) (hf : FitsStride t vals s) :
    (smap e s).reqSpan t = .ok ((reqSpanStride vals s : Nat) : Int) := by
  unfold StrideMap.reqSpan
  have hz := anyZeroLoop_eq t e vals he vals.length 0 (by omega)
  simp only [List.drop_zero] at hz
  have hr : List.range (smap e s).ext.pat.length = List.range' 0 vals.length := by
    simp [smap, he.1, List.range_eq_range']
  rw [hr]
  simp only [smap, hz, bind, Except.bind]
  by_cases h0 : 0 ∈ vals
  · have hp : prod vals = 0 := (prod_eq_zero_iff vals).mpr h0
    simp [h0, reqSpanStride, hp, pure, Except.pure]
  · have hp : prod vals ≠ 0 := fun h => h0 ((prod_eq_zero_iff vals).mp h)
    have hpos : ∀ x ∈ vals, 1 ≤ x := by
      intro x hx
      rcases Nat.eq_zero_or_pos x with h | h
      · subst h; exact absurd hx h0
      · exact h
    have hle := hf.2.2
    simp only [reqSpanStride, if_neg hp] at hle ⊢
    have := reqStrideLoop_eq t hv e vals s he hs hpos vals.length 0 1 (by omega) (by simpa using hle)
    simp only [smap, List.drop_zero, Int.natCast_one] at this
    simp only [h0, decide_false, Bool.false_eq_true, if_false]
    exact this

theorem natCast_beq (a b : Nat) : (((a : Nat) : Int) == ((b : Nat) : Int)) = (a == b) := by
  rw [Bool.eq_iff_iff]
  simp [Int.ofNat_inj]

theorem smap_isExhaustive_eq (t : IdxT) (hv : IdxT.Valid t) (e : Ext) (vals s : List Nat) (he : ExtIs t e vals)
    (hs : s.length = vals.length) (hf : FitsStride t vals s) (hfe : Fits t vals) :
    (smap e s).isExhaustive t = .ok (isExhaustiveStride vals s) := by
  unfold StrideMap.isExhaustive
  have hfp := fwdProd_eq t hv e vals he hfe vals.length (by omega)
  rw [List.take_length] at hfp
  have hl : (smap e s).ext.pat.length = vals.length := he.1
  have hext : (smap e s).ext = e := rfl
  rw [smap_reqSpan_eq t hv e vals s he hs hf, hl, hext, hfp]
  simp only [bind, Except.bind, pure, Except.pure]
  have hmax := maxV_lt t hv
  have hle : ((reqSpanStride vals s : Nat) : Int) ≤ (t.maxV : Nat) := by exact_mod_cast hf.2.2
  rw [sz_id _ (Int.natCast_nonneg _) (by omega), natCast_beq]
  rfl

theorem mdspanAtStride_eq {α : Type} (t : IdxT) (hv : IdxT.Valid t) (e : Ext) (vals s : List Nat) (he : ExtIs t e vals)
    (hs : s.length = vals.length) (hf : FitsStride t vals s) (buf : List α) (hb : reqSpanStride vals s ≤ buf.length)
    (idx : List Nat) (hr : InRange vals idx) :
    ∃ h : offStride s idx < buf.length, mdspanAtStride t (smap e s) buf (idx.map Int.ofNat) = .ok buf[offStride s idx] := by
  have hlt := offStride_lt_req vals s idx hr
  refine ⟨by omega, ?_⟩
  unfold mdspanAtStride
  rw [map_wrap_id t hv idx (inRange_le_of vals idx _ hf.1 hr), smap_mapIdx_eq t hv e vals s he hs hf idx hr]
  simp only [bind, Except.bind]
  have hmax := maxV_lt t hv
  have hle : ((offStride s idx : Nat) : Int) ≤ (t.maxV : Nat) := by
    exact_mod_cast (by have := hf.2.2; omega : offStride s idx ≤ t.maxV)
  rw [sz_id _ (Int.natCast_nonneg _) (by omega), if_neg (by omega)]
  simp only [Int.toNat_natCast]
  exact rd_ok buf _ (by omega)

theorem mdarrayAtStride_eq (t : IdxT) (hv : IdxT.Valid t) (e : Ext) (vals s : List Nat) (he : ExtIs t e vals)
    (hs : s.length = vals.length) (hf : FitsStride t vals s) (idx : List Nat) (hr : InRange vals idx) :
    mdarrayAtStride t (smap e s) (idx.map Int.ofNat) = .ok (((reqSpanStride vals s : Nat) : Int), offStride s idx) := by
  unfold mdarrayAtStride
  have hmax := maxV_lt t hv
  have hle : ((reqSpanStride vals s : Nat) : Int) ≤ (t.maxV : Nat) := by exact_mod_cast hf.2.2
  have hsz : sz ((reqSpanStride vals s : Nat) : Int) = ((reqSpanStride vals s : Nat) : Int) :=
    sz_id _ (Int.natCast_nonneg _) (by omega)
  simp only [smap_reqSpan_eq t hv e vals s he hs hf, bind, Except.bind, hsz, Int.toNat_natCast]
  obtain ⟨hlt, h⟩ := mdspanAtStride_eq t hv e vals s he hs hf (List.range (reqSpanStride vals s)) (by simp) idx hr
  rw [h]
  simp [pure, Except.pure]

end Tetl.C19.Lemmas
