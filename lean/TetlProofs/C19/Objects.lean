/- C19: default-constructed mappings and mdarray as an object (copy / move / assignment / swap). -/
import TetlProofs.C19.StrideEq
import TetlProofs.C19.MdArray
namespace Tetl.C19.Lemmas
open Tetl Tetl.C19 Tetl.C19.Spec

/-- the extents a value-initialised extents object of pattern `p` reports: the static extent, 0 for a dynamic one -/
def defaultVals : Pat → List Nat
  | [] => []
  | some n :: ps => n :: defaultVals ps
  | none :: ps => 0 :: defaultVals ps

theorem defaultVals_consistent : ∀ (p : Pat), Consistent p (defaultVals p)
  | [] => trivial
  | some _ :: ps => ⟨Or.inr rfl, defaultVals_consistent ps⟩
  | none :: ps => ⟨Or.inl rfl, defaultVals_consistent ps⟩

theorem obj_dynVals_default : ∀ (p : Pat),
    (dynVals p (defaultVals p)).map Int.ofNat = List.replicate (rankDynamic p) 0
  | [] => by simp [dynVals, rankDynamic]
  | some n :: ps => by
    have ih := obj_dynVals_default ps
    rw [rankDynamic_cons]
    simp only [defaultVals, dynVals, isDyn, Option.isNone_some, Bool.false_eq_true, if_false, Nat.zero_add]
    exact ih
  | none :: ps => by
    have ih := obj_dynVals_default ps
    rw [rankDynamic_cons]
    simp only [defaultVals, dynVals, isDyn, Option.isNone_none, if_true, List.map_cons]
    rw [ih, Nat.add_comm, List.replicate_succ]
    rfl

/-- `extents()` reports the static extents and 0 for every dynamic extent -/
theorem default_extIs (t : IdxT) (hv : IdxT.Valid t) (p : Pat) (hm : ∀ x ∈ defaultVals p, x ≤ t.maxV) :
    ExtIs t (Ext.default p) (defaultVals p) := by
  have h := extIs_of_dyn t hv p (defaultVals p) (defaultVals_consistent p) hm
  rw [obj_dynVals_default] at h
  exact h

theorem obj_wr_replicate (k : Nat) (x : Int) (S : List Int) :
    wr (List.replicate (k + 1) 0 ++ S) k x = .ok (List.replicate k 0 ++ x :: S) := by
  unfold wr
  rw [if_pos (by simp; omega)]
  rw [List.replicate_succ', List.append_assoc, List.set_append_right _ _ (by simp)]
  simp

theorem obj_defaultLoop (t : IdxT) (hv : IdxT.Valid t) (e : Ext) (vals : List Nat) (he : ExtIs t e vals)
    (hf : Fits t vals) :
    ∀ (k : Nat), k ≤ vals.length →
      defaultStridesLoop t e (List.range k).reverse ((prod (vals.drop k) : Nat) : Int)
          (List.replicate k 0 ++ ((stridesSpec .right vals).map Int.ofNat).drop k)
        = .ok ((stridesSpec .right vals).map Int.ofNat) := by
  intro k
  induction k with
  | zero => intro _; simp [defaultStridesLoop]
  | succ k ih =>
    intro hk
    have hk' : k < vals.length := by omega
    have hlen : k < ((stridesSpec .right vals).map Int.ofNat).length := by simp [stridesSpec]; omega
    have hFk : ((stridesSpec .right vals).map Int.ofNat)[k] = ((prod (vals.drop (k + 1)) : Nat) : Int) := by
      simp [stridesSpec, strideSpec, strideRight]
    have hdrop : ((stridesSpec .right vals).map Int.ofNat).drop k
        = ((prod (vals.drop (k + 1)) : Nat) : Int) :: ((stridesSpec .right vals).map Int.ofNat).drop (k + 1) := by
      rw [List.drop_eq_getElem_cons hlen, hFk]
    have hprod : prod (vals.drop k) = prod (vals.drop (k + 1)) * vals[k] := by
      rw [List.drop_eq_getElem_cons hk']
      simp only [prod]
      exact Nat.mul_comm _ _
    have hle : prod (vals.drop k) ≤ t.maxV := by
      have := hf k (by omega) vals.length (by omega)
      rw [List.take_of_length_le (by simp)] at this
      exact this
    have hcast : ((prod (vals.drop (k + 1)) : Nat) : Int) * ((vals[k] : Nat) : Int)
        = ((prod (vals.drop k) : Nat) : Int) := by rw [hprod]; simp
    have hw : t.wrap (((prod (vals.drop (k + 1)) : Nat) : Int) * ((vals[k] : Nat) : Int))
        = ((prod (vals.drop k) : Nat) : Int) := by
      rw [hcast]
      exact wrap_id t hv _ (Int.natCast_nonneg _) (by exact_mod_cast hle)
    rw [List.range_succ, List.reverse_append, List.reverse_singleton, List.singleton_append]
    simp only [defaultStridesLoop, obj_wr_replicate, he.2 k hk', bind, Except.bind, hw]
    rw [← hdrop]
    exact ih (by omega)

/-- `layout_stride::mapping()`: the loop of `default_strides()` never leaves the array and the mapping has the default
    extents and the strides of `layout_right::mapping<extents_type>()` -/
theorem strideDefault_eq (t : IdxT) (hv : IdxT.Valid t) (p : Pat) (hf : Fits t (defaultVals p)) :
    StrideMap.default t p = .ok (smap (Ext.default p) (stridesSpec .right (defaultVals p))) := by
  have hm : ∀ x ∈ defaultVals p, x ≤ t.maxV := by
    intro x hx
    obtain ⟨k, hk, rfl⟩ := List.getElem_of_mem hx
    exact fits_elem t _ hf k hk
  have he := default_extIs t hv p hm
  have hlen : p.length = (defaultVals p).length := consistent_length p _ (defaultVals_consistent p)
  have hloop := obj_defaultLoop t hv (Ext.default p) (defaultVals p) he hf (defaultVals p).length (Nat.le_refl _)
  rw [List.drop_of_length_le (Nat.le_refl _), List.drop_of_length_le (by simp [stridesSpec])] at hloop
  simp only [prod, List.append_nil] at hloop
  unfold StrideMap.default
  simp only [hlen]
  rw [show ((1 : Nat) : Int) = 1 from rfl] at hloop
  rw [hloop]
  rfl

end Tetl.C19.Lemmas
