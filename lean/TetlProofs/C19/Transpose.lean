/- C19: `linalg::detail::transpose_extents`, `layout_transpose::mapping` construction, extents(), required_span_size()
   and mdspan access over a transposed mapping. -/
import TetlProofs.C19.Extents
namespace Tetl.C19.Lemmas
open Tetl Tetl.C19 Tetl.C19.Spec

/-- `Ext.ofVals` always builds an object of the requested pattern -/
theorem tr_ofVals_pat (t : IdxT) (p : Pat) (v : List Int) (r : Ext) (h : Ext.ofVals t p v = .ok r) : r.pat = p := by
  unfold Ext.ofVals at h
  split at h
  · cases h
  · split at h
    · cases h; rfl
    · split at h
      · cases h; rfl
      · simp only [bind, Except.bind, pure, Except.pure] at h
        split at h
        · cases h
        · cases h; rfl

/-- `transpose_extents(e)` never fails and yields an extents object of the transposed pattern that reports the two
    extents swapped -/
theorem transposeExt_extIs (t : IdxT) (hv : IdxT.Valid t) (e : Ext) (a b : Nat) (he : ExtIs t e [a, b])
    (hc : Consistent e.pat [a, b]) (hm : a ≤ t.maxV ∧ b ≤ t.maxV) :
    ∃ r, transposeExt t e = .ok r ∧ ExtIs t r [b, a] ∧ Consistent r.pat [b, a] ∧ transposePat e.pat = .ok r.pat := by
  obtain ⟨hlen, hext⟩ := he
  have h0 := hext 0 (by simp)
  have h1 := hext 1 (by simp)
  simp only [List.getElem_cons_zero, List.getElem_cons_succ] at h0 h1
  match hp : e.pat, hlen with
  | [p0, p1], _ =>
    rw [hp] at hc
    have hc' : Consistent [p1, p0] [b, a] := ⟨hc.2.1, hc.1, trivial⟩
    have hm' : ∀ x ∈ [b, a], x ≤ t.maxV := by
      intro x hx
      simp only [List.mem_cons, List.not_mem_nil, or_false] at hx
      rcases hx with rfl | rfl
      · exact hm.2
      · exact hm.1
    obtain ⟨r, hr, hre⟩ := ofVals_extIs t hv [p1, p0] [b, a] hc' hm' false
    have hpat := tr_ofVals_pat _ _ _ _ hr
    refine ⟨r, ?_, hre, by rw [hpat]; exact hc', by simp [transposePat, rd, hpat, bind, Except.bind, pure, Except.pure]⟩
    unfold transposeExt
    rw [if_neg (by rw [hp]; simp)]
    cases p0 <;> cases p1 <;>
      simp [hp, rd, isDyn, bind, Except.bind, h0, h1, ctorArgs, dynVals] at hr ⊢
    · exact hr
    · exact hr
    · exact hr
    · simpa [Ext.ofVals, rankDynamic, isDyn] using hr

/-- the constructor of `layout_transpose<L>::mapping` from the nested mapping -/
theorem tmap_make_eq (t : IdxT) (hv : IdxT.Valid t) (l : Lay) (nested : Ext) (e0 e1 : Nat) (he : ExtIs t nested [e1, e0])
    (hc : Consistent nested.pat [e1, e0]) (hf : Fits t [e1, e0]) :
    ∃ m, TMap.make t l nested = .ok m ∧ m.lay = l ∧ m.nested = nested ∧ ExtIs t m.extents [e0, e1]
      ∧ Consistent m.extents.pat [e0, e1] ∧ m.reqSpan t = .ok ((e0 * e1 : Nat) : Int) := by
  have hb1 : e1 ≤ t.maxV := fits_elem t [e1, e0] hf 0 (by simp)
  have hb0 : e0 ≤ t.maxV := fits_elem t [e1, e0] hf 1 (by simp)
  obtain ⟨r, hr, hre, hrc, _⟩ := transposeExt_extIs t hv nested e1 e0 he hc ⟨hb1, hb0⟩
  refine ⟨{ lay := l, nested := nested, ext := r }, ?_, rfl, rfl, hre, hrc, ?_⟩
  · unfold TMap.make
    simp only [hr, bind, Except.bind, pure, Except.pure]
  · unfold TMap.reqSpan
    simp only []
    rw [reqSpan_eq l t hv nested [e1, e0] he hf]
    simp only [prod, Nat.mul_one, Nat.mul_comm]

/-- `mdspan::operator()(i, j)` over a transposed mapping reads the buffer element at the closed-form offset of the other
    contiguous layout over the extents `[e0, e1]` of the view -/
theorem mdspanAtT_eq {α : Type} (t : IdxT) (hv : IdxT.Valid t) (m : TMap) (e0 e1 : Nat) (he : ExtIs t m.nested [e1, e0])
    (hf : Fits t [e1, e0]) (buf : List α) (hb : e0 * e1 ≤ buf.length) (i j : Nat) (hi : i < e0) (hj : j < e1) :
    ∃ h : offSpec (flipLay m.lay) [e0, e1] [i, j] < buf.length,
      mdspanAtT t m buf (i : Int) (j : Int) = .ok buf[offSpec (flipLay m.lay) [e0, e1] [i, j]] := by
  have hlt := offSpec_lt (flipLay m.lay) [e0, e1] [i, j] ⟨hi, hj, trivial⟩
  have hpe : prod [e0, e1] = e0 * e1 := by simp [prod]
  rw [hpe] at hlt
  refine ⟨by omega, ?_⟩
  have hb1 : e1 ≤ t.maxV := fits_elem t [e1, e0] hf 0 (by simp)
  have hb0 : e0 ≤ t.maxV := fits_elem t [e1, e0] hf 1 (by simp)
  have hwi : t.wrap ((i : Nat) : Int) = ((i : Nat) : Int) :=
    wrap_id t hv _ (Int.natCast_nonneg _) (by exact_mod_cast (by omega : i ≤ t.maxV))
  have hwj : t.wrap ((j : Nat) : Int) = ((j : Nat) : Int) :=
    wrap_id t hv _ (Int.natCast_nonneg _) (by exact_mod_cast (by omega : j ≤ t.maxV))
  unfold mdspanAtT
  rw [hwi, hwj, tmap_eq t hv m e0 e1 he hf i j hi hj]
  simp only [bind, Except.bind]
  have hmax := maxV_lt t hv
  have hp := fits_prod t [e1, e0] hf
  have hpe' : prod [e1, e0] = e0 * e1 := by simp [prod, Nat.mul_comm]
  rw [hpe'] at hp
  have hle : ((offSpec (flipLay m.lay) [e0, e1] [i, j] : Nat) : Int) ≤ (t.maxV : Nat) := by
    exact_mod_cast (by omega : offSpec (flipLay m.lay) [e0, e1] [i, j] ≤ t.maxV)
  have hsz : sz ((offSpec (flipLay m.lay) [e0, e1] [i, j] : Nat) : Int)
      = ((offSpec (flipLay m.lay) [e0, e1] [i, j] : Nat) : Int) :=
    sz_id _ (Int.natCast_nonneg _) (by omega)
  rw [hsz, if_neg (by omega)]
  simp only [Int.toNat_natCast]
  exact rd_ok buf _ (by omega)

end Tetl.C19.Lemmas
