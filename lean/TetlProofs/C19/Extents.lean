/- C19: every constructor of `extents` yields an object that reports the given extents (`ExtIs`);
   the loops never leave the `_extents` array. -/
import TetlProofs.C19.Mapping
namespace Tetl.C19.Lemmas
open Tetl Tetl.C19 Tetl.C19.Spec

/-- the extents agree with the static part of the pattern -/
def Consistent : Pat → List Nat → Prop
  | [], [] => True
  | p :: ps, v :: vs => (p = none ∨ p = some v) ∧ Consistent ps vs
  | _, _ => False

instance : (p : Pat) → (v : List Nat) → Decidable (Consistent p v)
  | [], [] => isTrue trivial
  | p :: ps, v :: vs =>
    have := instDecidableConsistent ps vs
    if h : (p = none ∨ p = some v) ∧ Consistent ps vs then isTrue h else isFalse h
  | [], _ :: _ => isFalse (fun h => h)
  | _ :: _, [] => isFalse (fun h => h)

/-- the values at the dynamic positions -/
def dynVals : Pat → List Nat → List Nat
  | p :: ps, v :: vs => if isDyn p then v :: dynVals ps vs else dynVals ps vs
  | _, _ => []

theorem consistent_length : ∀ (p : Pat) (v : List Nat), Consistent p v → p.length = v.length
  | [], [], _ => rfl
  | _ :: ps, _ :: vs, h => by simp [consistent_length ps vs h.2]
  | [], _ :: _, h => by simp [Consistent] at h
  | _ :: _, [], h => by simp [Consistent] at h

theorem rankDynamic_cons (p : Option Nat) (ps : Pat) :
    rankDynamic (p :: ps) = (if isDyn p then 1 else 0) + rankDynamic ps := by
  unfold rankDynamic
  rw [List.filter_cons]
  split <;> simp <;> omega

theorem rankDynamic_le (p : Pat) : rankDynamic p ≤ p.length := List.length_filter_le _ _

theorem rankDynamic_append (a b : Pat) : rankDynamic (a ++ b) = rankDynamic a + rankDynamic b := by
  simp [rankDynamic]

theorem dynVals_length : ∀ (p : Pat) (v : List Nat), p.length = v.length → (dynVals p v).length = rankDynamic p
  | [], [], _ => by simp [dynVals, rankDynamic]
  | p :: ps, v :: vs, h => by
      have ih := dynVals_length ps vs (by simpa using h)
      rw [rankDynamic_cons]
      simp only [dynVals]
      split <;> simp [ih] <;> omega
  | [], _ :: _, h => by simp at h
  | _ :: _, [], h => by simp at h

theorem dynVals_append : ∀ (p : Pat) (v : List Nat) (s : Pat) (w : List Nat), p.length = v.length →
    dynVals (p ++ s) (v ++ w) = dynVals p v ++ dynVals s w
  | [], [], s, w, _ => by simp [dynVals]
  | p :: ps, v :: vs, s, w, h => by
      have ih := dynVals_append ps vs s w (by simpa using h)
      simp only [List.cons_append, dynVals, ih]
      split <;> simp
  | [], _ :: _, _, _, h => by simp at h
  | _ :: _, [], _, _, h => by simp at h

theorem dynamicIndex_append_left (a b : Pat) : dynamicIndex (a ++ b) a.length = rankDynamic a := by
  simp [dynamicIndex, rankDynamic]

/-- lookup through `_dynamic_index` finds the value of a dynamic position -/
theorem dynVals_lookup : ∀ (p : Pat) (v : List Nat), p.length = v.length → ∀ (i : Nat) (hi : i < v.length),
    p[i]? = some none → (dynVals p v)[dynamicIndex p i]? = some v[i]
  | [], [], _, i, hi, _ => by simp at hi
  | p :: ps, v :: vs, h, 0, _, hp => by
      simp at hp
      subst hp
      simp [dynVals, dynamicIndex, isDyn]
  | p :: ps, v :: vs, h, i + 1, hi, hp => by
      have ih := dynVals_lookup ps vs (by simpa using h) i (by simpa using hi) (by simpa using hp)
      have hd : dynamicIndex (p :: ps) (i + 1) = (if isDyn p then 1 else 0) + dynamicIndex ps i := by
        unfold dynamicIndex
        rw [List.take_succ_cons, List.filter_cons]
        split <;> simp <;> omega
      rw [hd]
      simp only [dynVals]
      split
      · rw [Nat.add_comm]; simpa using ih
      · simpa using ih
  | [], _ :: _, h, _, _, _ => by simp at h
  | _ :: _, [], h, _, _, _ => by simp at h


theorem natList_wrap_id (t : IdxT) (hv : IdxT.Valid t) (l : List Nat) (h : ∀ x ∈ l, x ≤ t.maxV) :
    (l.map Int.ofNat).map t.wrap = l.map Int.ofNat := by
  rw [List.map_map]
  apply List.map_congr_left
  intro x hx
  simp only [Function.comp, Int.ofNat_eq_natCast]
  exact wrap_id t hv _ (Int.natCast_nonneg _) (by exact_mod_cast h x hx)

/-- the constructor loop over the positions of `S` fills the slots after those of `P` -/
theorem fillDynLoop_eq (t : IdxT) (hv : IdxT.Valid t) (get : Nat → Except Err Int) :
    ∀ (S : Pat) (VS : List Nat) (P : Pat) (VP : List Nat), S.length = VS.length → P.length = VP.length →
      (∀ x ∈ VS, x ≤ t.maxV) →
      (∀ k (h : k < (VP ++ VS).length), get k = .ok (((VP ++ VS)[k] : Nat) : Int)) →
      fillDynLoop t (P ++ S) get (List.range' P.length S.length)
          ((dynVals P VP).map Int.ofNat ++ List.replicate (rankDynamic S) 0)
        = .ok ((dynVals (P ++ S) (VP ++ VS)).map Int.ofNat)
  | [], [], P, VP, _, hP, _, _ => by
      simp [fillDynLoop, rankDynamic]
  | p :: S, v :: VS, P, VP, hS, hP, hm, hg => by
      have ih := fillDynLoop_eq t hv get S VS (P ++ [p]) (VP ++ [v]) (by simpa using hS) (by simp [hP])
        (fun x hx => hm x (by simp [hx])) (by simpa using hg)
      simp only [List.append_assoc, List.singleton_append, List.length_append, List.length_cons, List.length_nil,
        Nat.zero_add] at ih
      rw [List.length_cons, List.range'_succ]
      have hrd : rd (P ++ p :: S) P.length = .ok p := by simp [rd]
      simp only [fillDynLoop, hrd, bind, Except.bind]
      have hdv : dynVals (P ++ [p]) (VP ++ [v]) = dynVals P VP ++ (if isDyn p then [v] else []) := by
        rw [dynVals_append P VP [p] [v] hP]
        simp only [dynVals]
      rw [hdv] at ih
      split
      · rename_i hd
        have hgv : get P.length = .ok ((v : Nat) : Int) := by
          have := hg P.length (by simp [← hP])
          simpa [hP] using this
        have hw : t.wrap ((v : Nat) : Int) = ((v : Nat) : Int) :=
          wrap_id t hv _ (Int.natCast_nonneg _) (by exact_mod_cast hm v (by simp))
        have hidx : dynamicIndex (P ++ p :: S) P.length = ((dynVals P VP).map Int.ofNat).length := by
          rw [dynamicIndex_append_left, List.length_map, dynVals_length P VP hP]
        rw [rankDynamic_cons, if_pos hd, Nat.add_comm, List.replicate_succ]
        simp only [hgv, hw, wr, hidx]
        rw [if_pos (by simp)]
        simp only [List.set_append_right _ _ (Nat.le_refl _), Nat.sub_self, List.set_cons_zero]
        rw [if_pos hd] at ih
        simpa using ih
      · rename_i hd
        rw [rankDynamic_cons, if_neg hd, Nat.zero_add]
        rw [if_neg hd] at ih
        simpa using ih
  | [], _ :: _, _, _, h, _, _, _ => by simp at h
  | _ :: _, [], _, _, h, _, _, _ => by simp at h

theorem consistent_getElem : ∀ (p : Pat) (v : List Nat), Consistent p v → ∀ (i : Nat) (hi : i < v.length) (n : Nat),
    p[i]? = some (some n) → v[i] = n
  | [], [], _, i, hi, _, _ => by simp at hi
  | p :: ps, v :: vs, h, 0, _, n, hp => by
      simp at hp
      rcases h.1 with h1 | h1
      · rw [h1] at hp; cases hp
      · rw [h1] at hp; simpa using hp
  | p :: ps, v :: vs, h, i + 1, hi, n, hp => by
      simpa using consistent_getElem ps vs h.2 i (by simpa using hi) n (by simpa using hp)
  | [], _ :: _, h, _, _, _, _ => by simp [Consistent] at h
  | _ :: _, [], h, _, _, _, _ => by simp [Consistent] at h

theorem all_dyn_of_rankDynamic_eq : ∀ (p : Pat), rankDynamic p = p.length → ∀ i, i < p.length → p[i]? = some none
  | [], _, i, hi => by simp at hi
  | p :: ps, h, i, hi => by
      rw [rankDynamic_cons] at h
      have hle := rankDynamic_le ps
      have hp : isDyn p = true := by
        cases hd : isDyn p with
        | true => rfl
        | false => rw [hd] at h; simp at h; omega
      have hps : rankDynamic ps = ps.length := by rw [hp] at h; simp at h; omega
      cases i with
      | zero => cases p with
        | none => rfl
        | some n => simp [isDyn] at hp
      | succ i => simpa using all_dyn_of_rankDynamic_eq ps hps i (by simpa using hi)

theorem no_dyn_of_rankDynamic_zero (p : Pat) (h : rankDynamic p = 0) (i : Nat) : p[i]? ≠ some none := by
  intro hp
  have hm : (none : Option Nat) ∈ p := List.mem_of_getElem? hp
  have : (none : Option Nat) ∈ p.filter isDyn := List.mem_filter.mpr ⟨hm, rfl⟩
  unfold rankDynamic at h
  rw [List.length_eq_zero_iff] at h
  rw [h] at this
  simp at this

theorem dynamicIndex_all_dyn (p : Pat) (h : rankDynamic p = p.length) (i : Nat) (hi : i ≤ p.length) :
    dynamicIndex p i = i := by
  have h1 : rankDynamic (p.take i ++ p.drop i) = p.length := by rw [List.take_append_drop]; exact h
  rw [rankDynamic_append] at h1
  have h2 := rankDynamic_le (p.take i)
  have h3 := rankDynamic_le (p.drop i)
  simp only [List.length_take, List.length_drop] at h2 h3
  unfold dynamicIndex
  unfold rankDynamic at h1 h2 h3
  omega

/-- an extents object whose `_extents` array holds the values of the dynamic positions reports `vals` -/
theorem extIs_of_dyn (t : IdxT) (hv : IdxT.Valid t) (pat : Pat) (vals : List Nat) (hc : Consistent pat vals)
    (hm : ∀ x ∈ vals, x ≤ t.maxV) : ExtIs t { pat := pat, dyn := (dynVals pat vals).map Int.ofNat } vals := by
  have hlen := consistent_length pat vals hc
  refine ⟨hlen, ?_⟩
  intro k hk
  have hkp : k < pat.length := by omega
  have hpk : pat[k]? = some pat[k] := List.getElem?_eq_getElem hkp
  have hrd : rd pat k = .ok pat[k] := rd_ok pat k hkp
  have hlook : pat[k]? = some none → rd ((dynVals pat vals).map Int.ofNat) (dynamicIndex pat k) = .ok ((vals[k] : Nat) : Int) := by
    intro h
    have := dynVals_lookup pat vals hlen k hk h
    simp [rd, List.getElem?_map, this]
  unfold Ext.extent
  simp only []
  split
  · rename_i h0
    cases hp : pat[k] with
    | none => exact absurd (by rw [hpk, hp]) (no_dyn_of_rankDynamic_zero pat h0 k)
    | some n =>
      have hn := consistent_getElem pat vals hc k hk n (by rw [hpk, hp])
      simp only [hrd, hp, bind, Except.bind, pure, Except.pure, staticVal]
      rw [wrap_id t hv _ (Int.natCast_nonneg _) (by exact_mod_cast (hn ▸ hm vals[k] (by simp)))]
      rw [hn]
  · split
    · rename_i _ hall
      have hdyn := all_dyn_of_rankDynamic_eq pat hall k hkp
      have := hlook hdyn
      rwa [dynamicIndex_all_dyn pat hall k (by omega)] at this
    · cases hp : pat[k] with
      | none =>
        simp only [hrd, hp, bind, Except.bind]
        exact hlook (by rw [hpk, hp])
      | some n =>
        have hn := consistent_getElem pat vals hc k hk n (by rw [hpk, hp])
        simp only [hrd, hp, bind, Except.bind, pure, Except.pure]
        rw [wrap_id t hv _ (Int.natCast_nonneg _) (by exact_mod_cast (hn ▸ hm vals[k] (by simp)))]
        rw [hn]


theorem dynVals_all_dyn : ∀ (p : Pat) (v : List Nat), p.length = v.length → rankDynamic p = p.length → dynVals p v = v
  | [], [], _, _ => rfl
  | p :: ps, v :: vs, h, hr => by
      rw [rankDynamic_cons] at hr
      have hle := rankDynamic_le ps
      have hp : isDyn p = true := by
        cases hd : isDyn p with
        | true => rfl
        | false => rw [hd] at hr; simp at hr; omega
      have hps : rankDynamic ps = ps.length := by rw [hp] at hr; simp at hr; omega
      simp only [dynVals, hp, if_true, dynVals_all_dyn ps vs (by simpa using h) hps]
  | [], _ :: _, h, _ => by simp at h
  | _ :: _, [], h, _ => by simp at h

theorem dynVals_mem : ∀ (p : Pat) (v : List Nat) (x : Nat), x ∈ dynVals p v → x ∈ v
  | [], _, x, h => by simp [dynVals] at h
  | _ :: _, [], x, h => by simp [dynVals] at h
  | p :: ps, v :: vs, x, h => by
      simp only [dynVals] at h
      split at h
      · simp only [List.mem_cons] at h ⊢
        rcases h with h | h
        · exact Or.inl h
        · exact Or.inr (dynVals_mem ps vs x h)
      · exact List.mem_cons_of_mem _ (dynVals_mem ps vs x h)

/-- the arguments handed to the constructor: all `rank()` extents, or those of the dynamic positions -/
def ctorArgs (pat : Pat) (vals : List Nat) (all : Bool) : List Int :=
  if all then vals.map Int.ofNat else (dynVals pat vals).map Int.ofNat

theorem ofVals_extIs (t : IdxT) (hv : IdxT.Valid t) (pat : Pat) (vals : List Nat) (hc : Consistent pat vals)
    (hm : ∀ x ∈ vals, x ≤ t.maxV) (all : Bool) :
    ∃ e, Ext.ofVals t pat (ctorArgs pat vals all) = .ok e ∧ ExtIs t e vals := by
  have hlen := consistent_length pat vals hc
  have hdl := dynVals_length pat vals hlen
  refine ⟨{ pat := pat, dyn := (dynVals pat vals).map Int.ofNat }, ?_, extIs_of_dyn t hv pat vals hc hm⟩
  have halen : (ctorArgs pat vals all).length = if all then pat.length else rankDynamic pat := by
    unfold ctorArgs; cases all <;> simp [hlen, hdl]
  unfold Ext.ofVals
  rw [if_neg (by rw [halen]; cases all <;> simp)]
  split
  · rename_i h0
    have : dynVals pat vals = [] := List.eq_nil_of_length_eq_zero (by rw [hdl, h0])
    simp [Ext.default, h0, this]
  · rename_i h0
    split
    · rename_i heq
      cases all with
      | false =>
        simp only [ctorArgs, Bool.false_eq_true, if_false]
        rw [natList_wrap_id t hv _ (fun x hx => hm x (dynVals_mem pat vals x hx))]
      | true =>
        simp only [ctorArgs, if_true]
        rw [halen] at heq
        simp only [if_true] at heq
        rw [natList_wrap_id t hv _ hm, dynVals_all_dyn pat vals hlen heq.symm]
    · rename_i hne
      cases all with
      | false => rw [halen] at hne; simp at hne
      | true =>
        simp only [ctorArgs, if_true, pickDynLoop]
        have hloop := fillDynLoop_eq t hv (fun i => rd (vals.map Int.ofNat) i) pat vals [] [] hlen rfl hm
          (by intro k hk
              simp only [List.nil_append] at hk ⊢
              simp [rd, List.getElem?_map, List.getElem?_eq_getElem hk])
        simp only [List.nil_append, List.length_nil, dynVals, List.map_nil] at hloop
        rw [List.range_eq_range', hloop]
        rfl

/-- the converting constructor from an extents object that reports `vals` -/
theorem conv_extIs (t ts : IdxT) (hv : IdxT.Valid t) (p : Pat) (src : Ext) (vals : List Nat) (hs : ExtIs ts src vals)
    (hc : Consistent p vals) (hm : ∀ x ∈ vals, x ≤ t.maxV) :
    ∃ e, Ext.conv t ts p src = .ok e ∧ ExtIs t e vals := by
  have hlen := consistent_length p vals hc
  have hdl := dynVals_length p vals hlen
  refine ⟨{ pat := p, dyn := (dynVals p vals).map Int.ofNat }, ?_, extIs_of_dyn t hv p vals hc hm⟩
  unfold Ext.conv
  rw [if_neg (by rw [hlen, hs.1]; simp)]
  split
  · rename_i h0
    have : dynVals p vals = [] := List.eq_nil_of_length_eq_zero (by rw [hdl, h0])
    simp [Ext.default, h0, this]
  · simp only [convLoop]
    have hloop := fillDynLoop_eq t hv (fun i => src.extent ts i) p vals [] [] hlen rfl hm
      (by intro k hk
          simp only [List.nil_append] at hk ⊢
          exact hs.2 k hk)
    simp only [List.nil_append, List.length_nil, dynVals, List.map_nil] at hloop
    rw [List.range_eq_range', hloop]
    rfl

end Tetl.C19.Lemmas
