/-
C16 — property theorems.  Bit-level IEEE-754 semantics of the exact <cmath> functions, for every format
`F = (ebits, mbits)` (hypotheses `3 ≤ ebits`, `1 ≤ mbits`, `bias + mbits < emax` hold for binary16/32/64, see
`hyp_b32`, `hyp_b64`) and every bit pattern.  Value of a finite pattern = `± mag / 2^K` (Spec.lean), so
"`mag r = n * 2^K`" says: the result `r` is exactly the integer `n`.

 * rounding: `floor/ceil/trunc/round/rint` return a finite pattern with the sign of the argument whose value is
   exactly the integer selected by `intMag` (`*_spec`), and `intMag` is floor / ceiling / nearest-ties-away /
   nearest-ties-even of the exact rational value, stated by cross-multiplication (`intMag_*`);
   NaN ↦ NaN, ±inf ↦ ±inf (`rounding_special`).
 * classification partitions the patterns; fabs / copysign / signbit touch the sign bit only.
 * nextafter is adjacent in the value order; fmin/fmax select a lower/upper bound and skip a NaN.
 * tetl's own algorithms (nextafter, fmin, fmax, isfinite, abs_impl, copysign fallback, the constant-evaluated
   fmod/remainder ladders) equal the spec for all inputs (`absImpl_eq`: every pattern, -0.0 and NaNs of either sign
   included; `fmodCt_eq`, `remainderCt_eq`); gcem's constant-evaluated floor/ceil/trunc/round
   (repaired by property C13, model imported from `Tetl.C13.Model`) equal the spec for every pattern and never
   leave the constant-expression subset (`gcemFloor_eq`, `gcemCeil_eq`, `gcemTrunc_eq`, `gcemRound_eq`).
-/
import TetlProofs.C16.Lemmas
import TetlProofs.C16.Bridge
import TetlProofs.C13.GcemValue
import TetlProofs.C13.GcemRound
set_option linter.unusedVariables false
set_option linter.unusedSimpArgs false
set_option linter.unnecessarySeqFocus false
namespace Tetl.C16.Props
open Tetl Tetl.C16 Fmt

/-- the hypotheses of the rounding theorems hold for binary32 and binary64 (and binary16) -/
theorem hyp_b32 : 3 ≤ b32.ebits ∧ 1 ≤ b32.mbits ∧ b32.bias + b32.mbits < b32.emax := by decide
theorem hyp_b64 : 3 ≤ b64.ebits ∧ 1 ≤ b64.mbits ∧ b64.bias + b64.mbits < b64.emax := by decide
theorem hyp_b16 : 3 ≤ (Fmt.mk 5 10).ebits ∧ 1 ≤ (Fmt.mk 5 10).mbits ∧ (Fmt.mk 5 10).bias + (Fmt.mk 5 10).mbits < (Fmt.mk 5 10).emax := by decide

/-! ### rounding to an integral value -/

/-- the mask algorithm on a finite magnitude pattern yields a finite pattern whose value is exactly `intMag m a` -/
theorem rnd_exact (F : Fmt) (hE : 3 ≤ F.ebits) (hM : 1 ≤ F.mbits) (hR : F.bias + F.mbits < F.emax)
    (m : Mode) (a : Nat) (ha : a < F.inf) :
    F.mag (F.rnd m a) = F.intMag m a * 2 ^ F.K ∧ F.rnd m a < F.inf := mag_rnd F hE hM hR m a ha
example : (0x3FC00000 : Nat) < b32.inf := by decide   -- 1.5f is a finite magnitude pattern

/-- floor of a finite pattern: finite, same sign bit (so floor(-0) = -0), value = ⌊value⌋
    (`trunc` of the magnitude for x ≥ 0, `away` for x < 0) -/
theorem floor_spec (F : Fmt) (hE : 3 ≤ F.ebits) (hM : 1 ≤ F.mbits) (hR : F.bias + F.mbits < F.emax)
    (b : Nat) (hb : F.isFinite b = true) :
    F.isFinite (F.floor b) = true ∧ F.sign (F.floor b) = F.sign b ∧
    F.mag (F.abs (F.floor b)) = F.intMag (if F.sign b then .away else .trunc) (F.abs b) * 2 ^ F.K :=
  floor_finite F hE hM hR b hb
example : b32.isFinite 0xBF000000 = true := by decide   -- -0.5f
theorem ceil_spec (F : Fmt) (hE : 3 ≤ F.ebits) (hM : 1 ≤ F.mbits) (hR : F.bias + F.mbits < F.emax)
    (b : Nat) (hb : F.isFinite b = true) :
    F.isFinite (F.ceil b) = true ∧ F.sign (F.ceil b) = F.sign b ∧
    F.mag (F.abs (F.ceil b)) = F.intMag (if F.sign b then .trunc else .away) (F.abs b) * 2 ^ F.K :=
  ceil_finite F hE hM hR b hb
theorem trunc_spec (F : Fmt) (hE : 3 ≤ F.ebits) (hM : 1 ≤ F.mbits) (hR : F.bias + F.mbits < F.emax)
    (b : Nat) (hb : F.isFinite b = true) :
    F.isFinite (F.trunc b) = true ∧ F.sign (F.trunc b) = F.sign b ∧
    F.mag (F.abs (F.trunc b)) = F.intMag .trunc (F.abs b) * 2 ^ F.K :=
  trunc_finite F hE hM hR b hb
theorem round_spec (F : Fmt) (hE : 3 ≤ F.ebits) (hM : 1 ≤ F.mbits) (hR : F.bias + F.mbits < F.emax)
    (b : Nat) (hb : F.isFinite b = true) :
    F.isFinite (F.round b) = true ∧ F.sign (F.round b) = F.sign b ∧
    F.mag (F.abs (F.round b)) = F.intMag .halfAway (F.abs b) * 2 ^ F.K :=
  round_finite F hE hM hR b hb
theorem rint_spec (F : Fmt) (hE : 3 ≤ F.ebits) (hM : 1 ≤ F.mbits) (hR : F.bias + F.mbits < F.emax)
    (b : Nat) (hb : F.isFinite b = true) :
    F.isFinite (F.rint b) = true ∧ F.sign (F.rint b) = F.sign b ∧
    F.mag (F.abs (F.rint b)) = F.intMag .halfEven (F.abs b) * 2 ^ F.K :=
  rint_finite F hE hM hR b hb

/-- NaN ↦ (quiet) NaN and ±inf ↦ ±inf for all five rounding functions -/
theorem rounding_special (F : Fmt) (b : Nat) :
    (F.isNaN b = true → F.floor b = F.qnan ∧ F.ceil b = F.qnan ∧ F.trunc b = F.qnan ∧ F.round b = F.qnan ∧ F.rint b = F.qnan) ∧
    (F.isInf b = true → F.floor b = b ∧ F.ceil b = b ∧ F.trunc b = b ∧ F.round b = b ∧ F.rint b = b) :=
  ⟨fun h => ⟨roundWith_nan F _ _ b h, roundWith_nan F _ _ b h, roundWith_nan F _ _ b h, roundWith_nan F _ _ b h,
             roundWith_nan F _ _ b h⟩,
   fun h => ⟨roundWith_inf F _ _ b h, roundWith_inf F _ _ b h, roundWith_inf F _ _ b h, roundWith_inf F _ _ b h,
             roundWith_inf F _ _ b h⟩⟩

/-- `intMag .trunc` is the greatest integer `n` with `n ≤ |value|` (cross-multiplied by `2^K`) -/
theorem intMag_trunc (F : Fmt) (a : Nat) :
    F.intMag .trunc a * 2 ^ F.K ≤ F.mag a ∧ F.mag a < (F.intMag .trunc a + 1) * 2 ^ F.K := intMag_trunc_spec F a
/-- `intMag .away` is the least integer `n` with `|value| ≤ n` -/
theorem intMag_away (F : Fmt) (a : Nat) :
    F.mag a ≤ F.intMag .away a * 2 ^ F.K ∧
    (F.intMag .away a = 0 ∨ (F.intMag .away a - 1) * 2 ^ F.K < F.mag a) := intMag_away_spec F a
/-- `intMag .halfAway` is a nearest integer (`|value - n| ≤ 1/2`), the upper one on a tie -/
theorem intMag_halfAway (F : Fmt) (a : Nat) :
    (F.mag a * 2 ≤ (2 * F.intMag .halfAway a + 1) * 2 ^ F.K ∧
      (2 * F.intMag .halfAway a) * 2 ^ F.K ≤ F.mag a * 2 + 2 ^ F.K) ∧
    (2 * (F.mag a % 2 ^ F.K) = 2 ^ F.K → F.intMag .halfAway a = F.mag a / 2 ^ F.K + 1) :=
  ⟨intMag_halfAway_spec F a, intMag_halfAway_tie F a⟩
/-- `intMag .halfEven` is a nearest integer, the even one on a tie -/
theorem intMag_halfEven (F : Fmt) (a : Nat) :
    (F.mag a * 2 ≤ (2 * F.intMag .halfEven a + 1) * 2 ^ F.K ∧
      (2 * F.intMag .halfEven a) * 2 ^ F.K ≤ F.mag a * 2 + 2 ^ F.K) ∧
    (2 * (F.mag a % 2 ^ F.K) = 2 ^ F.K → F.intMag .halfEven a % 2 = 0) :=
  ⟨intMag_halfEven_spec F a, intMag_halfEven_tie F a⟩

/-! ### classification -/

/-- every pattern is exactly one of NaN, infinite, finite -/
theorem classify_partition (F : Fmt) (b : Nat) :
    (F.isNaN b = true ∧ F.isInf b = false ∧ F.isFinite b = false) ∨
    (F.isNaN b = false ∧ F.isInf b = true ∧ F.isFinite b = false) ∨
    (F.isNaN b = false ∧ F.isInf b = false ∧ F.isFinite b = true) := by
  unfold Fmt.isNaN Fmt.isInf Fmt.isFinite
  rcases Nat.lt_trichotomy (F.abs b) F.inf with h | h | h
  · right; right; simp [h, Nat.lt_asymm h, Nat.ne_of_lt h]
  · right; left; simp [h]
  · left; simp [h, Nat.lt_asymm h, Nat.ne_of_gt h]

/-! ### order -/

/-- the integer key used by `lt`, fmin, fmax and nextafter is the order of the values: for non-NaN, non-infinite
    patterns `key x < key y ↔ value x < value y` (values as signed multiples of `2^-K`), and likewise for `=`
    (both zeros have key 0 and value 0) -/
theorem key_is_value_order (F : Fmt) (hE : 3 ≤ F.ebits) (x y : Nat) (hx : F.abs x < F.inf) (hy : F.abs y < F.inf) :
    (F.key x < F.key y ↔ F.smag x < F.smag y) ∧ (F.key x = F.key y ↔ F.smag x = F.smag y) :=
  ⟨key_lt_iff_smag_lt F hE x y hx hy, key_eq_iff_smag_eq F hE x y hx hy⟩
example : b32.abs 0xBF800000 < b32.inf ∧ b32.abs 0x00000001 < b32.inf := by decide   -- -1.0f and denorm_min

/-- finite magnitude patterns are ordered like their values, and distinct patterns have distinct values -/
theorem mag_strict_mono (F : Fmt) (hE : 3 ≤ F.ebits) (a a' : Nat) (h : a < a') (ha' : a' < F.inf) :
    F.mag a < F.mag a' := mag_strictMono F hE a a' h ha'
example : (0x3F800000 : Nat) < 0x3F800001 ∧ (0x3F800001 : Nat) < b32.inf := by decide

/-! ### sign manipulation, fmin/fmax, nextafter; tetl's own algorithms -/

open Fmt

/-- fabs clears the sign bit and nothing else -/
theorem fabs_spec (F : Fmt) (b : Nat) : F.sign (F.fabs b) = false ∧ F.abs (F.fabs b) = F.abs b :=
  ⟨sign_of_lt F _ (abs_lt' F b), abs_of_lt F _ (abs_lt' F b)⟩

/-- copysign takes the magnitude bits of x and the sign bit of y -/
theorem copysign_spec (F : Fmt) (x y : Nat) :
    F.sign (F.copysign x y) = F.sign y ∧ F.abs (F.copysign x y) = F.abs x :=
  ⟨sign_withSign F _ _ (abs_lt' F x), abs_withSign F _ _ (abs_lt' F x)⟩

/-- tetl's constant-evaluated copysign (fixed code) equals the spec for every pair of patterns -/
theorem copysignFallback_eq (F : Fmt) (x y : Nat) (hx : x < 2 ^ F.width) :
    Model.copysignFallback F x y = F.copysign x y := by
  unfold Model.copysignFallback Model.neg Fmt.copysign Model.signbitFallback
  have hd := decomp F x hx
  change (if (F.sign x != F.sign y) = true then _ else _) = _
  cases hsx : F.sign x <;> cases hsy : F.sign y <;> simp [hsx] at hd ⊢ <;> first | exact hd | exact hd.symm

/-- `isfinite = !isnan && !isinf` is the finite class -/
theorem isfinite_eq (F : Fmt) (x : Nat) : Model.isfinite F x = F.isFinite x := by
  unfold Model.isfinite Fmt.isNaN Fmt.isInf Fmt.isFinite
  rcases Nat.lt_trichotomy (F.abs x) F.inf with h | h | h
  · simp [h, Nat.lt_asymm h, Nat.ne_of_lt h]
  · simp [h]
  · simp [h, Nat.lt_asymm h]

/- `Model.fmin` / `Model.fmax` (the ladders of fmin.hpp / fmax.hpp) are the same term as the spec up to unfolding:
   the definitional re-statements `fmin_model_eq` / `fmax_model_eq` (and `signbitFallback_eq`, dead code under GCC)
   live in Lemmas.lean and are not counted as property theorems; `fmin_spec`, `fmax_spec`, `fmin_nan` below state
   what that ladder guarantees. -/

/-- fmin returns one of its arguments, a non-NaN one whenever there is one, and it is a lower bound in value order -/
theorem fmin_spec (F : Fmt) (x y : Nat) (hx : F.isNaN x = false) (hy : F.isNaN y = false) :
    (F.fmin x y = x ∨ F.fmin x y = y) ∧ F.key (F.fmin x y) ≤ F.key x ∧ F.key (F.fmin x y) ≤ F.key y := by
  unfold Fmt.fmin Fmt.lt
  simp only [hx, hy, Bool.false_eq_true, if_false, Bool.not_false, Bool.true_and]
  by_cases h : F.key y < F.key x
  · simp [h]; omega
  · simp [h]; omega
theorem fmax_spec (F : Fmt) (x y : Nat) (hx : F.isNaN x = false) (hy : F.isNaN y = false) :
    (F.fmax x y = x ∨ F.fmax x y = y) ∧ F.key x ≤ F.key (F.fmax x y) ∧ F.key y ≤ F.key (F.fmax x y) := by
  unfold Fmt.fmax Fmt.lt
  simp only [hx, hy, Bool.false_eq_true, if_false, Bool.not_false, Bool.true_and]
  by_cases h : F.key x < F.key y
  · simp [h]; omega
  · simp [h]; omega
theorem fmin_nan (F : Fmt) (x y : Nat) (hx : F.isNaN x = true) (hy : F.isNaN y = false) :
    F.fmin x y = y ∧ F.fmin y x = y ∧ F.fmax x y = y ∧ F.fmax y x = y := by
  unfold Fmt.fmin Fmt.fmax; simp [hx, hy]


/-! ### nextafter -/

/-- tetl's nextafter (fixed code) is the spec, for every pair of patterns -/
theorem nextafter_model_eq (F : Fmt) (x y : Nat) : Model.nextafter F x y = F.nextafter x y := by
  unfold Model.nextafter Fmt.nextafter
  by_cases hn : (F.isNaN x || F.isNaN y) = true
  · simp [hn]
  · have hx : F.isNaN x = false := by
      cases h : F.isNaN x <;> simp [h] at hn ⊢
    have hy : F.isNaN y = false := by
      cases h : F.isNaN y <;> simp [h, hx] at hn ⊢
    simp only [hn, Bool.false_eq_true, if_false]
    unfold Model.eq Model.lt Fmt.lt
    simp only [hx, hy, isNaN_zero, key_zero, Bool.not_false, Bool.true_and]
    by_cases hk : F.key x = F.key y
    · simp [hk]
    · simp only [hk, decide_false, Bool.false_eq_true, if_false]
      by_cases hz : F.abs x = 0
      · have : F.key x = 0 := (key_eq_zero_iff F x).2 hz
        simp [this, Fmt.isZero, hz, Fmt.withSign]
      · have hk0 : ¬ F.key x = 0 := fun h => hz ((key_eq_zero_iff F x).1 h)
        simp only [hk0, decide_false, Bool.false_eq_true, if_false, Fmt.isZero, hz, beq_iff_eq]
        have : decide (0 < F.key x) = !F.sign x := by
          unfold Fmt.key
          cases F.sign x <;> simp <;> omega
        rw [this]

/-- nextafter moves exactly one step in the value order (`key`) towards `y`; equal values return `y`;
    a NaN argument gives NaN -/
theorem nextafter_adjacent (F : Fmt) (hE : 3 ≤ F.ebits) (x y : Nat) (hxw : x < 2 ^ F.width)
    (hx : F.isNaN x = false) (hy : F.isNaN y = false) (hne : F.key x ≠ F.key y) :
    F.key (F.nextafter x y) = F.key x + (if F.key x < F.key y then 1 else -1) := by
  have hinf := inf_lt_signBit F hE
  have hax : F.abs x ≤ F.inf := by unfold Fmt.isNaN at hx; simpa using hx
  have hay : F.abs y ≤ F.inf := by unfold Fmt.isNaN at hy; simpa using hy
  have hd := decomp F x hxw
  have hkx : F.key x = if F.sign x then -(F.abs x : Int) else (F.abs x : Int) := rfl
  have hky : F.key y = if F.sign y then -(F.abs y : Int) else (F.abs y : Int) := rfl
  unfold Fmt.nextafter
  simp only [hx, hy, Bool.or_self, Bool.false_eq_true, if_false, hne]
  by_cases hz : F.abs x = 0
  · -- from a zero: the smallest subnormal with the sign of the direction
    have hk0 : F.key x = 0 := (key_eq_zero_iff F x).2 hz
    have h1 : 1 < F.signBit := by
      have : 0 < F.inf ∨ F.inf = 0 := by omega
      omega
    simp only [Fmt.isZero, hz, beq_self_eq_true, if_true]
    rw [key_withSign F _ 1 h1, hk0]
    rw [hk0] at hne
    cases hs : F.sign y <;> simp [hs] at hky ⊢ <;> omega
  · simp only [Fmt.isZero, hz, beq_iff_eq, if_false]
    cases hs : F.sign x
    · -- positive x
      simp only [hs, Bool.false_eq_true, if_false, Fmt.withSign, Nat.zero_add] at hd hkx
      by_cases hlt : F.key x < F.key y
      · have hyk : F.key y ≤ F.inf := by cases h : F.sign y <;> simp [h] at hky <;> omega
        have hb : F.abs x + 1 < F.signBit := by omega
        simp only [hlt, decide_true, decide_false, Bool.not_true, Bool.not_false, beq_iff_eq, beq_self_eq_true, Bool.true_eq_false, Bool.false_eq_true, if_true, if_false]
        have : x + 1 = F.withSign false (F.abs x + 1) := by simp [Fmt.withSign]; omega
        rw [this, key_withSign F _ _ hb]; simp; omega
      · simp only [hlt, decide_true, decide_false, Bool.not_true, Bool.not_false, beq_iff_eq, beq_self_eq_true, Bool.true_eq_false, Bool.false_eq_true, if_true, if_false]
        have hb : F.abs x - 1 < F.signBit := by have := abs_lt' F x; omega
        have : x - 1 = F.withSign false (F.abs x - 1) := by simp [Fmt.withSign]; omega
        rw [this, key_withSign F _ _ hb]; simp; omega
    · -- negative x
      simp only [hs, if_true, Fmt.withSign] at hd hkx
      by_cases hlt : F.key x < F.key y
      · simp only [hlt, decide_true, decide_false, Bool.not_true, Bool.not_false, beq_iff_eq, beq_self_eq_true, Bool.true_eq_false, Bool.false_eq_true, if_true, if_false]
        have hb : F.abs x - 1 < F.signBit := by have := abs_lt' F x; omega
        have : x - 1 = F.withSign true (F.abs x - 1) := by simp [Fmt.withSign]; omega
        rw [this, key_withSign F _ _ hb]; simp; omega
      · have hyk : -(F.inf : Int) ≤ F.key y := by cases h : F.sign y <;> simp [h] at hky <;> omega
        have hb : F.abs x + 1 < F.signBit := by omega
        simp only [hlt, decide_true, decide_false, Bool.not_true, Bool.not_false, beq_iff_eq, beq_self_eq_true, Bool.true_eq_false, Bool.false_eq_true, if_true, if_false]
        have : x + 1 = F.withSign true (F.abs x + 1) := by simp [Fmt.withSign]; omega
        rw [this, key_withSign F _ _ hb]; simp; omega

theorem nextafter_special (F : Fmt) (x y : Nat) :
    ((F.isNaN x = true ∨ F.isNaN y = true) → F.nextafter x y = F.qnan) ∧
    (F.isNaN x = false → F.isNaN y = false → F.key x = F.key y → F.nextafter x y = y) := by
  unfold Fmt.nextafter
  constructor
  · rintro (h | h) <;> simp [h]
  · intro hx hy hk; simp [hx, hy, hk]


/-- `abs_impl` for floating-point types (`etl::signbit(n) ? -n : n`, d9d7c3a: F-C16-fabs-nan-sign; earlier
    F-C16-abs-negative-zero) equals fabs on EVERY pattern of the format: -0.0, infinities and NaNs of either sign
    included — the result is the argument with the sign bit cleared and every other bit (a NaN payload too) kept -/
theorem absImpl_eq (F : Fmt) (x : Nat) (hxw : x < 2 ^ F.width) : Model.absImpl F x = F.fabs x := by
  have hd := decomp F x hxw
  unfold Model.absImpl Model.neg Fmt.fabs Fmt.signbit
  cases hs : F.sign x
  · simp only [hs, Bool.false_eq_true, if_false, Fmt.withSign, Nat.zero_add] at hd ⊢
    exact hd.symm
  · simp [Fmt.withSign]
example : Model.absImpl b32 0x80000000 = 0 := by decide                    -- -0.0f
example : Model.absImpl b32 0xFFC00000 = 0x7FC00000 := by decide           -- -NaN: sign cleared, payload kept
example : Model.absImpl b32 0x7FC00001 = 0x7FC00001 := by decide           -- +NaN with a payload: unchanged

/-- corollary for the NaN class (the class `absImpl_eq` excluded before d9d7c3a): the result is a NaN with a
    clear sign bit -/
theorem absImpl_nan (F : Fmt) (x : Nat) (hxw : x < 2 ^ F.width) (hn : F.isNaN x = true) :
    F.isNaN (Model.absImpl F x) = true ∧ F.sign (Model.absImpl F x) = false := by
  rw [absImpl_eq F x hxw]
  refine ⟨?_, (fabs_spec F x).1⟩
  unfold Fmt.isNaN at hn ⊢
  rw [(fabs_spec F x).2]; exact hn
example : (0xFFC00000 : Nat) < 2 ^ b32.width ∧ b32.isNaN 0xFFC00000 = true := by decide

/-! ### fmod / remainder in constant evaluation -/

/-- The constant-evaluated `detail::fmod` (67c4687: NaN ladder, infinite-divisor rung, then the folded builtin) equals
    the specification for EVERY pair of patterns: the two rungs are exactly the special cases of C17 7.12.10.1 / F.10.7.1
    (`x` NaN or `y` NaN or `x` infinite or `y` zero gives NaN; an infinite `y` gives `x`), so the builtin — assumed to be
    the C function (DESIGN §3) — is reached only for a finite `x` and a finite non-zero `y`, where GCC folds it. -/
theorem fmodCt_eq (F : Fmt) (hE : 3 ≤ F.ebits) (x y : Nat) : Model.fmod F .ct x y = F.fmod x y := by
  show Model.fmodCt F x y = _
  unfold Model.fmodCt Fmt.fmod
  rw [divInvalid_eq F hE, divisorInf_eq F hE]
  by_cases h1 : (F.isNaN x || F.isNaN y || F.isInf x || F.isZero y) = true
  · simp only [h1, if_true]
  · simp only [h1, Bool.false_eq_true, if_false]
    by_cases h2 : F.isInf y = true
    · simp only [h2, if_true]
    · simp only [h2, Bool.false_eq_true, if_false]
/-- the same for `detail::remainder` (f0dd916) -/
theorem remainderCt_eq (F : Fmt) (hE : 3 ≤ F.ebits) (x y : Nat) : Model.remainder F .ct x y = F.remainder x y := by
  show Model.remainderCt F x y = _
  unfold Model.remainderCt Fmt.remainder
  rw [divInvalid_eq F hE, divisorInf_eq F hE]
  by_cases h1 : (F.isNaN x || F.isNaN y || F.isInf x || F.isZero y) = true
  · simp only [h1, if_true]
  · simp only [h1, Bool.false_eq_true, if_false]
    by_cases h2 : F.isInf y = true
    · simp only [h2, if_true]
    · simp only [h2, Bool.false_eq_true, if_false]
/-- the ladder is reached: (0, inf) takes the second rung, (-0, denorm_min) the builtin, (1, -inf) the second rung
    (the witnesses of the former finding F-C16-gcem-fmod-constexpr); the guard of the first rung fires on (inf, 1) -/
example : Model.fmod b32 .ct 0 0x7F800000 = 0 ∧ Model.fmod b32 .ct 0x80000000 1 = 0x80000000 ∧
    Model.remainder b64 .ct 0x3FF0000000000000 0xFFF0000000000000 = 0x3FF0000000000000 ∧
    Model.divInvalid b32 0x7F800000 0x3F800000 = true := by decide

/-! ### the constant-evaluated rounding functions (gcem, repaired by property C13) equal the specification

`Model.gcemFloor F` is `Tetl.C13.Model.gcemFloor F.cv`: the operation-by-operation model of gcem's `floor_check` …
(`x == 0`, `abs(x) >= 1/epsilon`, `static_cast<long long>`, the float subtraction / addition / multiplication with
their IEEE roundings).  `Tetl.C13.Lemmas.gcem*_value` proves that this code computes C13's bit-level specification
`FSpec.roundTo` and never reaches an out-of-range conversion; `roundTo_eq_roundWith` (Bridge.lean) proves that
C13's and C16's bit-level specifications are the same function.  `mbits ≤ 62`: the integer part must fit `long long`
(binary32, binary64; not binary128). -/

theorem std_cv (F : Fmt) (hE : 3 ≤ F.ebits) (hM : 1 ≤ F.mbits) (h62 : F.mbits ≤ 62) (hR : F.bias + F.mbits < F.emax) :
    Tetl.C13.Lemmas.Std F.cv ∧ 2 ≤ F.cv.bias := by
  have hb : 2 ≤ F.bias := by
    unfold Fmt.bias
    have : 2 ^ 2 ≤ 2 ^ (F.ebits - 1) := Nat.pow_le_pow_right (by decide) (by omega)
    omega
  exact ⟨⟨by show 1 ≤ F.bias; omega, hM, h62, hR⟩, hb⟩

theorem gcemFloor_eq (F : Fmt) (hE : 3 ≤ F.ebits) (hM : 1 ≤ F.mbits) (h62 : F.mbits ≤ 62)
    (hR : F.bias + F.mbits < F.emax) (x : Nat) (hx : x < 2 ^ F.width) : Model.gcemFloor F x = .ok (F.floor x) := by
  have hs := (std_cv F hE hM h62 hR).1
  unfold Model.gcemFloor
  rw [Tetl.C13.Lemmas.gcemFloor_value F.cv hs x hx,
    roundTo_floor F hE hM hR (fun n hn => Tetl.C13.Lemmas.roundUnits_int F.cv hs n hn) x hx]
theorem gcemCeil_eq (F : Fmt) (hE : 3 ≤ F.ebits) (hM : 1 ≤ F.mbits) (h62 : F.mbits ≤ 62)
    (hR : F.bias + F.mbits < F.emax) (x : Nat) (hx : x < 2 ^ F.width) : Model.gcemCeil F x = .ok (F.ceil x) := by
  have hs := (std_cv F hE hM h62 hR).1
  unfold Model.gcemCeil
  rw [Tetl.C13.Lemmas.gcemCeil_value F.cv hs x hx,
    roundTo_ceil F hE hM hR (fun n hn => Tetl.C13.Lemmas.roundUnits_int F.cv hs n hn) x hx]
theorem gcemTrunc_eq (F : Fmt) (hE : 3 ≤ F.ebits) (hM : 1 ≤ F.mbits) (h62 : F.mbits ≤ 62)
    (hR : F.bias + F.mbits < F.emax) (x : Nat) (hx : x < 2 ^ F.width) : Model.gcemTrunc F x = .ok (F.trunc x) := by
  have hs := (std_cv F hE hM h62 hR).1
  unfold Model.gcemTrunc
  rw [Tetl.C13.Lemmas.gcemTrunc_value F.cv hs x hx,
    roundTo_trunc F hE hM hR (fun n hn => Tetl.C13.Lemmas.roundUnits_int F.cv hs n hn) x hx]
theorem gcemRound_eq (F : Fmt) (hE : 3 ≤ F.ebits) (hM : 1 ≤ F.mbits) (h62 : F.mbits ≤ 62)
    (hR : F.bias + F.mbits < F.emax) (x : Nat) (hx : x < 2 ^ F.width) : Model.gcemRound F x = .ok (F.round x) := by
  obtain ⟨hs, hb2⟩ := std_cv F hE hM h62 hR
  unfold Model.gcemRound
  rw [Tetl.C13.Lemmas.gcemRound_value F.cv hs hb2 x hx,
    roundTo_round F hE hM hR (fun n hn => Tetl.C13.Lemmas.roundUnits_int F.cv hs n hn) x hx]
/-- the hypotheses hold for binary32 and binary64; a tiny, a negative-fraction and a huge argument
    (the three classes of the former finding F-C16-gcem-rounding-constexpr) -/
example : Model.gcemFloor b32 0x80000001 = .ok (b32.floor 0x80000001) :=
  gcemFloor_eq b32 (by decide) (by decide) (by decide) (by decide) _ (by decide)
example : Model.gcemCeil b32 0xBF000000 = .ok (b32.ceil 0xBF000000) :=
  gcemCeil_eq b32 (by decide) (by decide) (by decide) (by decide) _ (by decide)
example : Model.gcemTrunc b64 0xC3E0000000000001 = .ok (b64.trunc 0xC3E0000000000001) :=
  gcemTrunc_eq b64 (by decide) (by decide) (by decide) (by decide) _ (by decide)
example : Model.gcemRound b64 0x3FDFFFFFFFFFFFFF = .ok (b64.round 0x3FDFFFFFFFFFFFFF) :=
  gcemRound_eq b64 (by decide) (by decide) (by decide) (by decide) _ (by decide)


end Tetl.C16.Props
