/- C16 — property theorems (bit-level IEEE-754 spec of the exact cmath functions; every format, every pattern). -/
import TetlProofs.C16.Lemmas
namespace Tetl.C16.Props
open Tetl Tetl.C16

/-- every pattern is exactly one of NaN, infinite, finite -/
theorem classify_partition (F : Fmt) (b : Nat) :
    (F.isNaN b = true ∧ F.isInf b = false ∧ F.isFinite b = false) ∨
    (F.isNaN b = false ∧ F.isInf b = true ∧ F.isFinite b = false) ∨
    (F.isNaN b = false ∧ F.isInf b = false ∧ F.isFinite b = true) := by
  unfold Fmt.isNaN Fmt.isInf Fmt.isFinite
  rcases Nat.lt_trichotomy (F.abs b) F.inf with h | h | h
  · right; right; simp [h, Nat.lt_asymm h, Nat.ne_of_lt h]
  · right; left; simp [h]
  · left; simp [h, Nat.lt_asymm h, Nat.ne_of_gt h]

end Tetl.C16.Props
