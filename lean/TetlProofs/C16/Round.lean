/- C16 — lemmas: the mask algorithm `Fmt.rnd` returns exactly the integer `Fmt.intMag` (all formats, all four modes),
   signed corollaries and the characterisation of `intMag` by cross-multiplication.  Used by Props.lean. -/
import Tetl.C16.Spec
import Mathlib.Tactic.Ring
import Mathlib.Tactic.Linarith
import Mathlib.Tactic.Positivity
import Mathlib.Tactic.Set

namespace Tetl.C16
namespace Fmt

/-- the mode-dependent choice between `q` and `q+1` given the remainder `r` modulo `T` -/
def pick (m : Mode) (T q r : Nat) : Nat :=
  match m with
  | .trunc => q
  | .away => if r = 0 then q else q + 1
  | .halfAway => if T ≤ 2 * r then q + 1 else q
  | .halfEven => if T < 2 * r ∨ (2 * r = T ∧ q % 2 = 1) then q + 1 else q

variable (F : Fmt)

theorem intMag_eq_pick (m : Mode) (a : Nat) :
    F.intMag m a = pick m (2 ^ F.K) (F.mag a / 2 ^ F.K) (F.mag a % 2 ^ F.K) := by
  cases m <;> rfl

theorem pick_scale (m : Mode) (T q r s : Nat) (hs : 0 < s) :
    pick m (T * s) q (r * s) = pick m T q r := by
  have h1 : (T * s ≤ 2 * (r * s)) ↔ T ≤ 2 * r := by
    rw [← Nat.mul_assoc]; exact Nat.mul_le_mul_right_iff hs
  have h2 : (T * s < 2 * (r * s)) ↔ T < 2 * r := by
    rw [← Nat.mul_assoc]; exact Nat.mul_lt_mul_right hs
  have h3 : (2 * (r * s) = T * s) ↔ 2 * r = T := by
    rw [← Nat.mul_assoc]; exact Nat.mul_left_inj (Nat.pos_iff_ne_zero.mp hs)
  have h4 : (r * s = 0) ↔ r = 0 := by
    constructor
    · intro h; rcases Nat.mul_eq_zero.mp h with h | h
      · exact h
      · omega
    · intro h; rw [h, Nat.zero_mul]
  cases m
  · rfl
  · simp only [pick, h4]
  · simp only [pick, h1]
  · simp only [pick, h2, h3]

/-! ### fields of `e * 2^m + f` -/

theorem exp_mk (e f : Nat) (he : e < 2 ^ F.ebits) (hf : f < 2 ^ F.mbits) :
    F.exp (e * 2 ^ F.mbits + f) = e := by
  unfold exp
  rw [Nat.mul_comm, Nat.mul_add_div (Nat.two_pow_pos _), Nat.div_eq_of_lt hf,
    Nat.add_zero, Nat.mod_eq_of_lt he]

theorem man_mk (e f : Nat) (hf : f < 2 ^ F.mbits) :
    F.man (e * 2 ^ F.mbits + f) = f := by
  unfold man
  rw [Nat.mul_comm, Nat.mul_add_mod, Nat.mod_eq_of_lt hf]

theorem mag_mk0 (f : Nat) (hf : f < 2 ^ F.mbits) :
    F.mag (0 * 2 ^ F.mbits + f) = f := by
  have h1 := F.exp_mk 0 f (Nat.two_pow_pos _) hf
  have h2 := F.man_mk 0 f hf
  unfold mag sig
  rw [h1, h2]
  simp

theorem mag_mk (e f : Nat) (he : e < 2 ^ F.ebits) (he1 : 1 ≤ e) (hf : f < 2 ^ F.mbits) :
    F.mag (e * 2 ^ F.mbits + f) = (2 ^ F.mbits + f) * 2 ^ (e - 1) := by
  have h1 := F.exp_mk e f he hf
  have h2 := F.man_mk e f hf
  unfold mag sig
  rw [h1, h2, if_neg (by omega), Nat.max_eq_left he1]

theorem sig_mk (e f : Nat) (he : e < 2 ^ F.ebits) (he1 : 1 ≤ e) (hf : f < 2 ^ F.mbits) :
    F.sig (e * 2 ^ F.mbits + f) = 2 ^ F.mbits + f := by
  have h1 := F.exp_mk e f he hf
  have h2 := F.man_mk e f hf
  unfold sig
  rw [h1, h2, if_neg (by omega)]

/-! ### unfolding `rnd` -/

def upLo (m : Mode) (a : Nat) : Bool :=
  match m with
  | .trunc => false
  | .away => decide (a ≠ 0)
  | .halfAway => decide (F.exp a = F.bias - 1)
  | .halfEven => decide (F.exp a = F.bias - 1) && decide (F.man a ≠ 0)

def upBit (m : Mode) (H q r : Nat) : Bool :=
  match m with
  | .trunc => false
  | .away => decide (r ≠ 0)
  | .halfAway => decide (H ≤ r)
  | .halfEven => decide (H < r) || (decide (r = H) && decide (q % 2 = 1))

theorem rnd_hi (m : Mode) (a : Nat) (h : F.bias + F.mbits ≤ F.exp a) : F.rnd m a = a := by
  unfold rnd
  simp only [if_pos h]

theorem rnd_lo (m : Mode) (a : Nat) (h2 : F.exp a < F.bias) :
    F.rnd m a = if F.upLo m a then F.one else 0 := by
  have h1 : ¬ F.bias + F.mbits ≤ F.exp a := by omega
  unfold rnd
  simp only [if_neg h1, if_pos h2]
  cases m <;> rfl

theorem rnd_mid (m : Mode) (a : Nat) (h1 : ¬ F.bias + F.mbits ≤ F.exp a) (h2 : ¬ F.exp a < F.bias) :
    F.rnd m a = (a / 2 ^ (F.bias + F.mbits - F.exp a) +
      (if upBit m (2 ^ (F.bias + F.mbits - F.exp a - 1)) (F.sig a / 2 ^ (F.bias + F.mbits - F.exp a))
        (a % 2 ^ (F.bias + F.mbits - F.exp a)) then 1 else 0)) * 2 ^ (F.bias + F.mbits - F.exp a) := by
  unfold rnd
  simp only [if_neg h1, if_neg h2]
  cases m <;> rfl

/-! ### facts about the format -/

theorem fmt_facts (hE : 3 ≤ F.ebits) :
    3 ≤ F.bias ∧ F.emax = 2 * F.bias + 1 ∧ F.emax + 1 = 2 ^ F.ebits := by
  unfold bias emax
  obtain ⟨k, hk⟩ : ∃ k, F.ebits = k + 3 := ⟨F.ebits - 3, by omega⟩
  rw [hk]
  have h1 : 2 ^ (k + 3) = 2 * 2 ^ (k + 3 - 1) := by
    rw [show k + 3 - 1 = k + 2 from rfl, Nat.pow_succ]; omega
  have h2 : 2 ^ (k + 3 - 1) = 4 * 2 ^ k := by
    rw [show k + 3 - 1 = k + 2 from rfl, Nat.pow_add]; omega
  have h3 : 0 < 2 ^ k := Nat.two_pow_pos _
  omega

theorem two_pow_K (hE : 3 ≤ F.ebits) : 2 ^ F.K = 2 ^ F.mbits * 2 ^ (F.bias - 1) := by
  have := (F.fmt_facts hE).1
  unfold K
  rw [← Nat.pow_add]
  congr 1
  omega

/-! ### case A: no fraction bits -/

theorem pick_zero (m : Mode) (T q : Nat) (hT : 0 < T) : pick m T q 0 = q := by
  cases m
  · rfl
  · simp [pick]
  · have : ¬ T ≤ 2 * 0 := by omega
    simp only [pick, if_neg this]
  · have : ¬ (T < 2 * 0 ∨ (2 * 0 = T ∧ q % 2 = 1)) := by omega
    simp only [pick, if_neg this]

theorem intMag_of_mul (m : Mode) (a n : Nat) (h : F.mag a = n * 2 ^ F.K) : F.intMag m a = n := by
  rw [intMag_eq_pick, h, Nat.mul_div_cancel _ (Nat.two_pow_pos _), Nat.mul_mod_left]
  exact pick_zero m _ _ (Nat.two_pow_pos _)

theorem hi_case (hE : 3 ≤ F.ebits) (e f : Nat) (he : e < 2 ^ F.ebits) (hf : f < 2 ^ F.mbits)
    (h : F.bias + F.mbits ≤ e) :
    F.mag (e * 2 ^ F.mbits + f) = ((2 ^ F.mbits + f) * 2 ^ (e - 1 - F.K)) * 2 ^ F.K := by
  have hb := (F.fmt_facts hE).1
  rw [F.mag_mk e f he (by omega) hf, Nat.mul_assoc, ← Nat.pow_add]
  congr 2
  unfold K
  omega

/-! ### case B: below one -/

theorem mag_one (hE : 3 ≤ F.ebits) : F.mag F.one = 1 * 2 ^ F.K := by
  obtain ⟨hb, he, he'⟩ := F.fmt_facts hE
  have := F.mag_mk F.bias 0 (by omega) (by omega) (Nat.two_pow_pos _)
  simp only [Nat.add_zero] at this
  unfold one
  rw [this, F.two_pow_K hE, Nat.one_mul]

theorem one_lt_inf (hE : 3 ≤ F.ebits) : F.one < F.inf := by
  obtain ⟨hb, he, he'⟩ := F.fmt_facts hE
  unfold one inf
  exact Nat.mul_lt_mul_of_pos_right (by omega) (Nat.two_pow_pos _)

theorem mag_zero : F.mag 0 = 0 := by
  have := F.mag_mk0 0 (Nat.two_pow_pos _)
  simpa using this

theorem zero_lt_inf (hE : 3 ≤ F.ebits) : 0 < F.inf := by
  obtain ⟨hb, he, he'⟩ := F.fmt_facts hE
  unfold inf
  exact Nat.mul_pos (by omega) (Nat.two_pow_pos _)

/-- magnitude below one, in terms of `B = 2^(bias-1)`: the facts needed for the four modes -/
theorem lo_mag (hE : 3 ≤ F.ebits) (e f : Nat) (hf : f < 2 ^ F.mbits) (h : e < F.bias) :
    F.mag (e * 2 ^ F.mbits + f) < 2 ^ F.K ∧
    (F.mag (e * 2 ^ F.mbits + f) = 0 ↔ e * 2 ^ F.mbits + f = 0) ∧
    (e = F.bias - 1 → 2 * F.mag (e * 2 ^ F.mbits + f) = 2 ^ F.K + f * 2 ^ (F.bias - 1)) ∧
    (e < F.bias - 1 → 2 * F.mag (e * 2 ^ F.mbits + f) < 2 ^ F.K) := by
  obtain ⟨hb, hem, hem'⟩ := F.fmt_facts hE
  rw [F.two_pow_K hE]
  have hM : 0 < 2 ^ F.mbits := Nat.two_pow_pos _
  have hB2 : 2 ^ (F.bias - 1) = 4 * 2 ^ (F.bias - 3) := by
    rw [show F.bias - 1 = 2 + (F.bias - 3) by omega, Nat.pow_add]
  have hB3 : 0 < 2 ^ (F.bias - 3) := Nat.two_pow_pos _
  rcases Nat.eq_zero_or_pos e with h0 | h1
  · subst h0
    rw [F.mag_mk0 f hf]
    generalize 2 ^ F.mbits = M at *
    generalize 2 ^ (F.bias - 1) = B at *
    generalize 2 ^ (F.bias - 3) = B3 at *
    have : M * 4 ≤ M * B := Nat.mul_le_mul_left _ (by omega)
    refine ⟨by omega, by omega, by omega, by omega⟩
  · rw [F.mag_mk e f (by omega) h1 hf]
    have hS : 0 < 2 ^ (e - 1) := Nat.two_pow_pos _
    have hD : 0 < 2 ^ (F.bias - 1 - e) := Nat.two_pow_pos _
    have hBS : 2 ^ (F.bias - 1) = 2 ^ (e - 1) * 2 * 2 ^ (F.bias - 1 - e) := by
      rw [← Nat.pow_succ, ← Nat.pow_add]; congr 1; omega
    refine ⟨?_, ?_, ?_, ?_⟩
    · rw [hBS]
      generalize 2 ^ F.mbits = M at *
      generalize 2 ^ (e - 1) = S at *
      generalize 2 ^ (F.bias - 1 - e) = D at *
      have h1 : (M + f) * S < (2 * M) * S := Nat.mul_lt_mul_of_pos_right (by omega) hS
      have h2 : (2 * M * S) * 1 ≤ (2 * M * S) * D := Nat.mul_le_mul_left _ hD
      have h3 : M * (S * 2 * D) = (2 * M * S) * D := by ring
      omega
    · have h3 : 0 < (2 ^ F.mbits + f) * 2 ^ (e - 1) := Nat.mul_pos (by omega) hS
      have h2 : 0 < e * 2 ^ F.mbits := Nat.mul_pos h1 hM
      omega
    · intro he
      have : 2 ^ (F.bias - 1) = 2 ^ (e - 1) * 2 := by
        rw [← Nat.pow_succ]; congr 1; omega
      rw [this]
      ring
    · intro he
      have hD2 : 2 ^ (F.bias - 1 - e) = 2 * 2 ^ (F.bias - 2 - e) := by
        rw [show F.bias - 1 - e = (F.bias - 2 - e) + 1 by omega, Nat.pow_succ, Nat.mul_comm]
      have hD3 : 0 < 2 ^ (F.bias - 2 - e) := Nat.two_pow_pos _
      rw [hBS, hD2]
      generalize 2 ^ F.mbits = M at *
      generalize 2 ^ (e - 1) = S at *
      generalize 2 ^ (F.bias - 2 - e) = D at *
      have h1 : (M + f) * S < (2 * M) * S := Nat.mul_lt_mul_of_pos_right (by omega) hS
      have h2 : (4 * M * S) * 1 ≤ (4 * M * S) * D := Nat.mul_le_mul_left _ hD3
      have h3 : M * (S * 2 * (2 * D)) = (4 * M * S) * D := by ring
      have h4 : 2 * ((M + f) * S) < 4 * M * S := by nlinarith
      omega

theorem pick_lo (hE : 3 ≤ F.ebits) (e f : Nat) (hf : f < 2 ^ F.mbits) (h : e < F.bias) (m : Mode) :
    pick m (2 ^ F.K) 0 (F.mag (e * 2 ^ F.mbits + f)) =
      if F.upLo m (e * 2 ^ F.mbits + f) then 1 else 0 := by
  obtain ⟨hb, hem, hem'⟩ := F.fmt_facts hE
  obtain ⟨h1, h2, h3, h4⟩ := F.lo_mag hE e f hf h
  have hexp := F.exp_mk e f (by omega) hf
  have hman := F.man_mk e f hf
  have hB : 0 < 2 ^ (F.bias - 1) := Nat.two_pow_pos _
  have hfb : 0 < f → 0 < f * 2 ^ (F.bias - 1) := fun h => Nat.mul_pos h hB
  have hfb0 : f = 0 → f * 2 ^ (F.bias - 1) = 0 := fun h => by rw [h, Nat.zero_mul]
  generalize f * 2 ^ (F.bias - 1) = fb at *
  generalize e * 2 ^ F.mbits + f = a at *
  generalize F.mag a = G at *
  generalize 2 ^ F.K = T at *
  cases m
  · rfl
  · show (if G = 0 then 0 else 0 + 1) = if decide (a ≠ 0) = true then 1 else 0
    by_cases ha : a = 0
    · rw [if_pos (h2.mpr ha), decide_eq_false (by omega)]; rfl
    · rw [if_neg (fun hh => ha (h2.mp hh)), decide_eq_true ha]; rfl
  · show (if T ≤ 2 * G then 0 + 1 else 0) = if decide (F.exp a = F.bias - 1) = true then 1 else 0
    rw [hexp]
    by_cases he : e = F.bias - 1
    · have := h3 he
      rw [if_pos (by omega), decide_eq_true he]; rfl
    · have := h4 (by omega)
      rw [if_neg (by omega), decide_eq_false he]; rfl
  · show (if T < 2 * G ∨ (2 * G = T ∧ 0 % 2 = 1) then 0 + 1 else 0) =
      if (decide (F.exp a = F.bias - 1) && decide (F.man a ≠ 0)) = true then 1 else 0
    rw [hexp, hman]
    by_cases he : e = F.bias - 1
    · have h5 := h3 he
      by_cases hf0 : f = 0
      · have := hfb0 hf0
        rw [if_neg (by omega), decide_eq_true he, decide_eq_false (by omega)]; rfl
      · have := hfb (by omega)
        have hc : T < 2 * G ∨ (2 * G = T ∧ 0 % 2 = 1) := Or.inl (by omega)
        rw [if_pos hc, decide_eq_true he, decide_eq_true hf0]; rfl
    · have := h4 (by omega)
      rw [if_neg (by omega), decide_eq_false he]; rfl

theorem lo_case (hE : 3 ≤ F.ebits) (e f : Nat) (hf : f < 2 ^ F.mbits) (h : e < F.bias) (m : Mode) :
    F.mag (F.rnd m (e * 2 ^ F.mbits + f)) = F.intMag m (e * 2 ^ F.mbits + f) * 2 ^ F.K ∧
      F.rnd m (e * 2 ^ F.mbits + f) < F.inf := by
  obtain ⟨hb, hem, hem'⟩ := F.fmt_facts hE
  obtain ⟨h1, -, -, -⟩ := F.lo_mag hE e f hf h
  have hexp := F.exp_mk e f (by omega) hf
  rw [F.rnd_lo m _ (by rw [hexp]; exact h), intMag_eq_pick, Nat.div_eq_of_lt h1, Nat.mod_eq_of_lt h1,
    F.pick_lo hE e f hf h m]
  cases F.upLo m (e * 2 ^ F.mbits + f)
  · simp only [Bool.false_eq_true, if_false, Nat.zero_mul]
    exact ⟨F.mag_zero, F.zero_lt_inf hE⟩
  · simp only [if_true]
    exact ⟨F.mag_one hE, F.one_lt_inf hE⟩

theorem mk_lt_inf (e f : Nat) (he : e < F.emax) (hf : f < 2 ^ F.mbits) :
    e * 2 ^ F.mbits + f < F.inf := by
  unfold inf
  have h1 : (e + 1) * 2 ^ F.mbits ≤ F.emax * 2 ^ F.mbits := Nat.mul_le_mul_right _ he
  have h2 : (e + 1) * 2 ^ F.mbits = e * 2 ^ F.mbits + 2 ^ F.mbits := by ring
  omega

theorem hi_case_full (hE : 3 ≤ F.ebits) (e f : Nat) (he : e < F.emax) (hf : f < 2 ^ F.mbits)
    (h : F.bias + F.mbits ≤ e) (m : Mode) :
    F.mag (F.rnd m (e * 2 ^ F.mbits + f)) = F.intMag m (e * 2 ^ F.mbits + f) * 2 ^ F.K ∧
      F.rnd m (e * 2 ^ F.mbits + f) < F.inf := by
  obtain ⟨hb, hem, hem'⟩ := F.fmt_facts hE
  have he2 : e < 2 ^ F.ebits := by omega
  have hexp := F.exp_mk e f he2 hf
  have hm := F.hi_case hE e f he2 hf h
  rw [F.rnd_hi m _ (by rw [hexp]; exact h), F.intMag_of_mul m _ _ hm]
  exact ⟨hm, F.mk_lt_inf e f he hf⟩

/-! ### case C: the binades with fraction bits -/

theorem pick_up (m : Mode) (H q r : Nat) :
    pick m (2 * H) q r = q + if upBit m H q r then 1 else 0 := by
  cases m
  · rfl
  · show (if r = 0 then q else q + 1) = q + if decide (r ≠ 0) = true then 1 else 0
    by_cases h : r = 0
    · rw [if_pos h, decide_eq_false (by omega)]; rfl
    · rw [if_neg h, decide_eq_true h]; rfl
  · show (if 2 * H ≤ 2 * r then q + 1 else q) = q + if decide (H ≤ r) = true then 1 else 0
    by_cases h : H ≤ r
    · rw [if_pos (by omega), decide_eq_true h]; rfl
    · rw [if_neg (by omega), decide_eq_false h]; rfl
  · show (if 2 * H < 2 * r ∨ (2 * r = 2 * H ∧ q % 2 = 1) then q + 1 else q) =
      q + if (decide (H < r) || (decide (r = H) && decide (q % 2 = 1))) = true then 1 else 0
    have hb : (decide (H < r) || (decide (r = H) && decide (q % 2 = 1))) =
        decide (H < r ∨ (r = H ∧ q % 2 = 1)) := by
      simp [Bool.decide_or, Bool.decide_and]
    rw [hb]
    by_cases h : H < r ∨ (r = H ∧ q % 2 = 1)
    · have hc : 2 * H < 2 * r ∨ (2 * r = 2 * H ∧ q % 2 = 1) := by omega
      rw [if_pos hc, decide_eq_true h]; rfl
    · have hc : ¬ (2 * H < 2 * r ∨ (2 * r = 2 * H ∧ q % 2 = 1)) := by omega
      rw [if_neg hc, decide_eq_false h]; rfl

/-- the powers of two of a binade `bias ≤ e < bias + mbits` -/
theorem mid_pows (hE : 3 ≤ F.ebits) (e : Nat) (h1 : F.bias ≤ e) (h2 : e < F.bias + F.mbits) :
    2 ^ F.mbits = 2 ^ (F.bias + F.mbits - e) * 2 ^ (F.mbits - (F.bias + F.mbits - e)) ∧
    2 ^ F.K = 2 ^ (F.bias + F.mbits - e) * 2 ^ (e - 1) ∧
    2 ^ (F.bias + F.mbits - e) = 2 * 2 ^ (F.bias + F.mbits - e - 1) ∧
    2 ^ e = 2 * 2 ^ (e - 1) := by
  have hb := (F.fmt_facts hE).1
  refine ⟨?_, ?_, ?_, ?_⟩
  · rw [← Nat.pow_add]; congr 1; omega
  · rw [← Nat.pow_add]; congr 1; unfold K; omega
  · rw [Nat.mul_comm, ← Nat.pow_succ]; congr 1; omega
  · rw [Nat.mul_comm, ← Nat.pow_succ]; congr 1; omega

theorem mid_result (hE : 3 ≤ F.ebits) (hR : F.bias + F.mbits < F.emax) (e f c : Nat)
    (h1 : F.bias ≤ e) (h2 : e < F.bias + F.mbits) (hf : f < 2 ^ F.mbits) (hc : c ≤ 1) :
    F.mag ((e * 2 ^ (F.mbits - (F.bias + F.mbits - e)) + f / 2 ^ (F.bias + F.mbits - e) + c) *
        2 ^ (F.bias + F.mbits - e)) =
      (2 ^ (F.mbits - (F.bias + F.mbits - e)) + f / 2 ^ (F.bias + F.mbits - e) + c) * 2 ^ F.K ∧
    (e * 2 ^ (F.mbits - (F.bias + F.mbits - e)) + f / 2 ^ (F.bias + F.mbits - e) + c) *
        2 ^ (F.bias + F.mbits - e) < F.inf := by
  obtain ⟨hb, hem, hem'⟩ := F.fmt_facts hE
  obtain ⟨hM, hK, -, hS⟩ := F.mid_pows hE e h1 h2
  have hP : 0 < 2 ^ (F.bias + F.mbits - e) := Nat.two_pow_pos _
  have hg : f / 2 ^ (F.bias + F.mbits - e) < 2 ^ (F.mbits - (F.bias + F.mbits - e)) := by
    apply Nat.div_lt_of_lt_mul; rw [← hM]; exact hf
  generalize f / 2 ^ (F.bias + F.mbits - e) = g at *
  generalize 2 ^ (F.bias + F.mbits - e) = P at *
  generalize 2 ^ (F.mbits - (F.bias + F.mbits - e)) = Q at *
  by_cases hgc : g + c < Q
  · have e1 : (e * Q + g + c) * P = e * 2 ^ F.mbits + (g + c) * P := by rw [hM]; ring
    have hlt : (g + c) * P < 2 ^ F.mbits := by
      rw [hM, Nat.mul_comm]; exact Nat.mul_lt_mul_of_pos_left hgc hP
    rw [e1]
    refine ⟨?_, F.mk_lt_inf e _ (by omega) hlt⟩
    rw [F.mag_mk e _ (by omega) (by omega) hlt, hK, hM]
    ring
  · have hQ : g + c = Q := by omega
    have e1 : (e * Q + g + c) * P = (e + 1) * 2 ^ F.mbits + 0 := by
      rw [hM, Nat.add_assoc, hQ]; ring
    rw [e1]
    refine ⟨?_, F.mk_lt_inf (e + 1) 0 (by omega) (Nat.two_pow_pos _)⟩
    rw [F.mag_mk (e + 1) 0 (by omega) (by omega) (Nat.two_pow_pos _), Nat.add_sub_cancel, hS, hK,
      Nat.add_assoc, hQ, hM]
    ring

theorem pick_up' (m : Mode) (P H q r : Nat) (hPH : P = 2 * H) :
    pick m P q r = q + if upBit m H q r then 1 else 0 := by
  subst hPH; exact pick_up m H q r

theorem mid_arith (e f P Q S M : Nat) (hP : 0 < P) (hS : 0 < S) (hM : M = P * Q) :
    (e * M + f) / P = e * Q + f / P ∧ (e * M + f) % P = f % P ∧
    (M + f) / P = Q + f / P ∧ (M + f) % P = f % P ∧
    ((M + f) * S) / (P * S) = Q + f / P ∧ ((M + f) * S) % (P * S) = (f % P) * S := by
  subst hM
  have h1 : (e * (P * Q) + f) / P = e * Q + f / P := by
    rw [show e * (P * Q) = P * (e * Q) by ring, Nat.mul_add_div hP]
  have h2 : (e * (P * Q) + f) % P = f % P := by
    rw [show e * (P * Q) = P * (e * Q) by ring, Nat.mul_add_mod]
  have h3 : (P * Q + f) / P = Q + f / P := Nat.mul_add_div hP _ _
  have h4 : (P * Q + f) % P = f % P := Nat.mul_add_mod _ _ _
  refine ⟨h1, h2, h3, h4, ?_, ?_⟩
  · rw [Nat.mul_div_mul_right _ _ hS, h3]
  · rw [Nat.mul_mod_mul_right, h4]

theorem mid_case (hE : 3 ≤ F.ebits) (hR : F.bias + F.mbits < F.emax) (e f : Nat)
    (h1 : F.bias ≤ e) (h2 : e < F.bias + F.mbits) (hf : f < 2 ^ F.mbits) (m : Mode) :
    F.mag (F.rnd m (e * 2 ^ F.mbits + f)) = F.intMag m (e * 2 ^ F.mbits + f) * 2 ^ F.K ∧
      F.rnd m (e * 2 ^ F.mbits + f) < F.inf := by
  obtain ⟨hb, hem, hem'⟩ := F.fmt_facts hE
  have he2 : e < 2 ^ F.ebits := by omega
  have hexp := F.exp_mk e f he2 hf
  have hsig := F.sig_mk e f he2 (by omega) hf
  have hmag := F.mag_mk e f he2 (by omega) hf
  obtain ⟨hM, hK, hH, -⟩ := F.mid_pows hE e h1 h2
  obtain ⟨a1, a2, a3, a4, a5, a6⟩ := mid_arith e f _ _ (2 ^ (e - 1)) _
    (Nat.two_pow_pos (F.bias + F.mbits - e)) (Nat.two_pow_pos _) hM
  have hint : F.intMag m (e * 2 ^ F.mbits + f) =
      2 ^ (F.mbits - (F.bias + F.mbits - e)) + f / 2 ^ (F.bias + F.mbits - e) +
        if upBit m (2 ^ (F.bias + F.mbits - e - 1))
          (2 ^ (F.mbits - (F.bias + F.mbits - e)) + f / 2 ^ (F.bias + F.mbits - e))
          (f % 2 ^ (F.bias + F.mbits - e)) then 1 else 0 := by
    rw [intMag_eq_pick, hmag, hK, a5, a6, pick_scale _ _ _ _ _ (Nat.two_pow_pos _),
      pick_up' _ _ _ _ _ hH]
  rw [hint, F.rnd_mid m _ (by rw [hexp]; omega) (by rw [hexp]; omega), hexp, hsig, a1, a2, a3]
  apply F.mid_result hE hR e f _ h1 h2 hf
  split <;> omega

/-! ### the main theorem -/

theorem mag_rnd_mk (hE : 3 ≤ F.ebits) (hR : F.bias + F.mbits < F.emax) (m : Mode) (e f : Nat)
    (he : e < F.emax) (hf : f < 2 ^ F.mbits) :
    F.mag (F.rnd m (e * 2 ^ F.mbits + f)) = F.intMag m (e * 2 ^ F.mbits + f) * 2 ^ F.K ∧
      F.rnd m (e * 2 ^ F.mbits + f) < F.inf := by
  by_cases h1 : F.bias + F.mbits ≤ e
  · exact F.hi_case_full hE e f he hf h1 m
  · by_cases h2 : e < F.bias
    · exact F.lo_case hE e f hf h2 m
    · exact F.mid_case hE hR e f (by omega) (by omega) hf m

theorem mag_rnd (hE : 3 ≤ F.ebits) (_hM : 1 ≤ F.mbits) (hR : F.bias + F.mbits < F.emax)
    (m : Mode) (a : Nat) (ha : a < F.inf) :
    F.mag (F.rnd m a) = F.intMag m a * 2 ^ F.K ∧ F.rnd m a < F.inf := by
  have hpos : 0 < 2 ^ F.mbits := Nat.two_pow_pos _
  have he : a / 2 ^ F.mbits < F.emax := by
    apply Nat.div_lt_of_lt_mul; rw [Nat.mul_comm]; exact ha
  have hf : a % 2 ^ F.mbits < 2 ^ F.mbits := Nat.mod_lt _ hpos
  have hdecomp : a / 2 ^ F.mbits * 2 ^ F.mbits + a % 2 ^ F.mbits = a := Nat.div_add_mod' _ _
  have := F.mag_rnd_mk hE hR m _ _ he hf
  rw [hdecomp] at this
  exact this

end Fmt
end Tetl.C16


namespace Tetl.C16
namespace Fmt
variable (F : Fmt)

/-! ### sign handling -/

theorem signBit_pos : 0 < F.signBit := Nat.two_pow_pos _

theorem inf_lt_signBit (hE : 3 ≤ F.ebits) : F.inf < F.signBit := by
  obtain ⟨-, -, hem'⟩ := F.fmt_facts hE
  unfold inf signBit
  rw [Nat.pow_add]
  exact Nat.mul_lt_mul_of_pos_right (by omega) (Nat.two_pow_pos _)

theorem abs_withSign (s : Bool) (a : Nat) (ha : a < F.signBit) : F.abs (F.withSign s a) = a := by
  unfold abs withSign
  cases s
  · simp only [Bool.false_eq_true, if_false, Nat.zero_add]; exact Nat.mod_eq_of_lt ha
  · simp only [if_true]; rw [Nat.add_mod_left]; exact Nat.mod_eq_of_lt ha

theorem sign_withSign (s : Bool) (a : Nat) (ha : a < F.signBit) : F.sign (F.withSign s a) = s := by
  unfold sign withSign
  cases s
  · simp only [Bool.false_eq_true, if_false, Nat.zero_add]; rw [Nat.div_eq_of_lt ha]; rfl
  · simp only [if_true]; rw [Nat.add_div_left _ F.signBit_pos, Nat.div_eq_of_lt ha]; rfl

/-! ### the signed rounding functions on finite arguments -/

theorem roundWith_of_finite (pos neg : Mode) (b : Nat) (hb : F.isFinite b = true) :
    F.roundWith pos neg b =
      F.withSign (F.sign b) (F.rnd (if F.sign b then neg else pos) (F.abs b)) := by
  have hlt : F.abs b < F.inf := of_decide_eq_true hb
  have h1 : F.isNaN b = false := decide_eq_false (by omega)
  have h2 : F.isInf b = false := by
    unfold isInf; exact beq_false_of_ne (by omega)
  unfold roundWith
  rw [h1, h2]
  rfl

theorem roundWith_nan (pos neg : Mode) (b : Nat) (hb : F.isNaN b = true) :
    F.roundWith pos neg b = F.qnan := by
  unfold roundWith; rw [hb]; rfl

theorem roundWith_inf (pos neg : Mode) (b : Nat) (hb : F.isInf b = true) :
    F.roundWith pos neg b = b := by
  have hab : F.abs b = F.inf := by unfold isInf at hb; exact eq_of_beq hb
  have h1 : F.isNaN b = false := decide_eq_false (by omega)
  unfold roundWith; rw [h1, hb]; rfl

theorem roundWith_finite (hE : 3 ≤ F.ebits) (hM : 1 ≤ F.mbits) (hR : F.bias + F.mbits < F.emax)
    (pos neg : Mode) (b : Nat) (hb : F.isFinite b = true) :
    F.isFinite (F.roundWith pos neg b) = true ∧
    F.sign (F.roundWith pos neg b) = F.sign b ∧
    F.mag (F.abs (F.roundWith pos neg b)) =
      F.intMag (if F.sign b then neg else pos) (F.abs b) * 2 ^ F.K := by
  have hlt : F.abs b < F.inf := of_decide_eq_true hb
  obtain ⟨h1, h2⟩ := F.mag_rnd hE hM hR (if F.sign b then neg else pos) (F.abs b) hlt
  have h3 := F.inf_lt_signBit hE
  have h4 : F.rnd (if F.sign b then neg else pos) (F.abs b) < F.signBit := by omega
  rw [F.roundWith_of_finite pos neg b hb]
  refine ⟨?_, F.sign_withSign _ _ h4, ?_⟩
  · unfold isFinite; rw [F.abs_withSign _ _ h4]; exact decide_eq_true h2
  · rw [F.abs_withSign _ _ h4]; exact h1

theorem floor_finite (hE : 3 ≤ F.ebits) (hM : 1 ≤ F.mbits) (hR : F.bias + F.mbits < F.emax)
    (b : Nat) (hb : F.isFinite b = true) :
    F.isFinite (F.floor b) = true ∧ F.sign (F.floor b) = F.sign b ∧
    F.mag (F.abs (F.floor b)) =
      F.intMag (if F.sign b then .away else .trunc) (F.abs b) * 2 ^ F.K :=
  F.roundWith_finite hE hM hR .trunc .away b hb

theorem ceil_finite (hE : 3 ≤ F.ebits) (hM : 1 ≤ F.mbits) (hR : F.bias + F.mbits < F.emax)
    (b : Nat) (hb : F.isFinite b = true) :
    F.isFinite (F.ceil b) = true ∧ F.sign (F.ceil b) = F.sign b ∧
    F.mag (F.abs (F.ceil b)) =
      F.intMag (if F.sign b then .trunc else .away) (F.abs b) * 2 ^ F.K :=
  F.roundWith_finite hE hM hR .away .trunc b hb

theorem trunc_finite (hE : 3 ≤ F.ebits) (hM : 1 ≤ F.mbits) (hR : F.bias + F.mbits < F.emax)
    (b : Nat) (hb : F.isFinite b = true) :
    F.isFinite (F.trunc b) = true ∧ F.sign (F.trunc b) = F.sign b ∧
    F.mag (F.abs (F.trunc b)) = F.intMag .trunc (F.abs b) * 2 ^ F.K := by
  have := F.roundWith_finite hE hM hR .trunc .trunc b hb
  rwa [ite_self] at this

theorem round_finite (hE : 3 ≤ F.ebits) (hM : 1 ≤ F.mbits) (hR : F.bias + F.mbits < F.emax)
    (b : Nat) (hb : F.isFinite b = true) :
    F.isFinite (F.round b) = true ∧ F.sign (F.round b) = F.sign b ∧
    F.mag (F.abs (F.round b)) = F.intMag .halfAway (F.abs b) * 2 ^ F.K := by
  have := F.roundWith_finite hE hM hR .halfAway .halfAway b hb
  rwa [ite_self] at this

theorem rint_finite (hE : 3 ≤ F.ebits) (hM : 1 ≤ F.mbits) (hR : F.bias + F.mbits < F.emax)
    (b : Nat) (hb : F.isFinite b = true) :
    F.isFinite (F.rint b) = true ∧ F.sign (F.rint b) = F.sign b ∧
    F.mag (F.abs (F.rint b)) = F.intMag .halfEven (F.abs b) * 2 ^ F.K := by
  have := F.roundWith_finite hE hM hR .halfEven .halfEven b hb
  rwa [ite_self] at this

/-! ### `intMag` is floor / ceil / nearest of `mag a / 2^K` (cross-multiplied) -/

theorem intMag_trunc_spec (a : Nat) :
    F.intMag .trunc a * 2 ^ F.K ≤ F.mag a ∧ F.mag a < (F.intMag .trunc a + 1) * 2 ^ F.K := by
  show F.mag a / 2 ^ F.K * 2 ^ F.K ≤ F.mag a ∧ F.mag a < (F.mag a / 2 ^ F.K + 1) * 2 ^ F.K
  have hT : 0 < 2 ^ F.K := Nat.two_pow_pos _
  have hd := Nat.div_add_mod' (F.mag a) (2 ^ F.K)
  have hr := Nat.mod_lt (F.mag a) hT
  rw [Nat.add_mul, Nat.one_mul]
  omega

theorem intMag_away_spec (a : Nat) :
    F.mag a ≤ F.intMag .away a * 2 ^ F.K ∧
      (F.intMag .away a = 0 ∨ (F.intMag .away a - 1) * 2 ^ F.K < F.mag a) := by
  show F.mag a ≤ (if F.mag a % 2 ^ F.K = 0 then F.mag a / 2 ^ F.K else F.mag a / 2 ^ F.K + 1) * 2 ^ F.K ∧
    ((if F.mag a % 2 ^ F.K = 0 then F.mag a / 2 ^ F.K else F.mag a / 2 ^ F.K + 1) = 0 ∨
      ((if F.mag a % 2 ^ F.K = 0 then F.mag a / 2 ^ F.K else F.mag a / 2 ^ F.K + 1) - 1) * 2 ^ F.K < F.mag a)
  have hT : 0 < 2 ^ F.K := Nat.two_pow_pos _
  have hd := Nat.div_add_mod' (F.mag a) (2 ^ F.K)
  have hr := Nat.mod_lt (F.mag a) hT
  generalize F.mag a / 2 ^ F.K = q at *
  generalize F.mag a % 2 ^ F.K = r at *
  generalize F.mag a = M at *
  generalize 2 ^ F.K = T at *
  by_cases h0 : r = 0
  · rw [if_pos h0]
    refine ⟨by omega, ?_⟩
    rcases Nat.eq_zero_or_pos q with hq | hq
    · exact Or.inl hq
    · right
      obtain ⟨k, rfl⟩ : ∃ k, q = k + 1 := ⟨q - 1, by omega⟩
      rw [Nat.add_sub_cancel]
      rw [Nat.add_mul, Nat.one_mul] at hd
      omega
  · rw [if_neg h0, Nat.add_sub_cancel, Nat.add_mul, Nat.one_mul]
    exact ⟨by omega, Or.inr (by omega)⟩

/-- nearest: `|mag a - n * 2^K| ≤ 2^K / 2`, cross-multiplied and without subtraction -/
theorem pick_nearest (T q r M n : Nat) (hd : q * T + r = M) (hr : r < T)
    (hn : (n = q + 1 ∧ T ≤ 2 * r) ∨ (n = q ∧ 2 * r ≤ T)) :
    M * 2 ≤ (2 * n + 1) * T ∧ (2 * n) * T ≤ M * 2 + T := by
  rcases hn with ⟨rfl, h⟩ | ⟨rfl, h⟩
  · have e1 : (2 * (q + 1) + 1) * T = 2 * (q * T) + 3 * T := by ring
    have e2 : (2 * (q + 1)) * T = 2 * (q * T) + 2 * T := by ring
    rw [e1, e2]; omega
  · have e1 : (2 * n + 1) * T = 2 * (n * T) + T := by ring
    have e2 : (2 * n) * T = 2 * (n * T) := by ring
    rw [e1, e2]; omega

theorem intMag_halfAway_spec (a : Nat) :
    F.mag a * 2 ≤ (2 * F.intMag .halfAway a + 1) * 2 ^ F.K ∧
      (2 * F.intMag .halfAway a) * 2 ^ F.K ≤ F.mag a * 2 + 2 ^ F.K := by
  have hT : 0 < 2 ^ F.K := Nat.two_pow_pos _
  apply pick_nearest _ _ _ _ _ (Nat.div_add_mod' (F.mag a) (2 ^ F.K)) (Nat.mod_lt _ hT)
  show ((if 2 ^ F.K ≤ 2 * (F.mag a % 2 ^ F.K) then F.mag a / 2 ^ F.K + 1 else F.mag a / 2 ^ F.K) =
      F.mag a / 2 ^ F.K + 1 ∧ _) ∨
    ((if 2 ^ F.K ≤ 2 * (F.mag a % 2 ^ F.K) then F.mag a / 2 ^ F.K + 1 else F.mag a / 2 ^ F.K) =
      F.mag a / 2 ^ F.K ∧ _)
  by_cases h : 2 ^ F.K ≤ 2 * (F.mag a % 2 ^ F.K)
  · rw [if_pos h]; exact Or.inl ⟨rfl, h⟩
  · rw [if_neg h]; exact Or.inr ⟨rfl, by omega⟩

theorem intMag_halfEven_spec (a : Nat) :
    F.mag a * 2 ≤ (2 * F.intMag .halfEven a + 1) * 2 ^ F.K ∧
      (2 * F.intMag .halfEven a) * 2 ^ F.K ≤ F.mag a * 2 + 2 ^ F.K := by
  have hT : 0 < 2 ^ F.K := Nat.two_pow_pos _
  apply pick_nearest _ _ _ _ _ (Nat.div_add_mod' (F.mag a) (2 ^ F.K)) (Nat.mod_lt _ hT)
  show ((if 2 ^ F.K < 2 * (F.mag a % 2 ^ F.K) ∨
        (2 * (F.mag a % 2 ^ F.K) = 2 ^ F.K ∧ F.mag a / 2 ^ F.K % 2 = 1)
        then F.mag a / 2 ^ F.K + 1 else F.mag a / 2 ^ F.K) = F.mag a / 2 ^ F.K + 1 ∧ _) ∨
    ((if 2 ^ F.K < 2 * (F.mag a % 2 ^ F.K) ∨
        (2 * (F.mag a % 2 ^ F.K) = 2 ^ F.K ∧ F.mag a / 2 ^ F.K % 2 = 1)
        then F.mag a / 2 ^ F.K + 1 else F.mag a / 2 ^ F.K) = F.mag a / 2 ^ F.K ∧ _)
  by_cases h : 2 ^ F.K < 2 * (F.mag a % 2 ^ F.K) ∨
        (2 * (F.mag a % 2 ^ F.K) = 2 ^ F.K ∧ F.mag a / 2 ^ F.K % 2 = 1)
  · rw [if_pos h]; exact Or.inl ⟨rfl, by omega⟩
  · rw [if_neg h]; exact Or.inr ⟨rfl, by omega⟩

/-- a tie is rounded away from zero by `halfAway` -/
theorem intMag_halfAway_tie (a : Nat) (h : 2 * (F.mag a % 2 ^ F.K) = 2 ^ F.K) :
    F.intMag .halfAway a = F.mag a / 2 ^ F.K + 1 := by
  show (if 2 ^ F.K ≤ 2 * (F.mag a % 2 ^ F.K) then F.mag a / 2 ^ F.K + 1 else F.mag a / 2 ^ F.K) = _
  rw [if_pos (by omega)]

/-- a tie is rounded to the even neighbour by `halfEven` -/
theorem intMag_halfEven_tie (a : Nat) (h : 2 * (F.mag a % 2 ^ F.K) = 2 ^ F.K) :
    F.intMag .halfEven a % 2 = 0 := by
  show (if 2 ^ F.K < 2 * (F.mag a % 2 ^ F.K) ∨
        (2 * (F.mag a % 2 ^ F.K) = 2 ^ F.K ∧ F.mag a / 2 ^ F.K % 2 = 1)
        then F.mag a / 2 ^ F.K + 1 else F.mag a / 2 ^ F.K) % 2 = 0
  by_cases hq : F.mag a / 2 ^ F.K % 2 = 1
  · rw [if_pos (Or.inr ⟨h, hq⟩)]; omega
  · rw [if_neg (by omega)]; omega

/-- an integral value is a fixed point of every mode -/
theorem intMag_of_integral (m : Mode) (a : Nat) (h : F.mag a % 2 ^ F.K = 0) :
    F.intMag m a * 2 ^ F.K = F.mag a := by
  have hd := Nat.div_add_mod' (F.mag a) (2 ^ F.K)
  rw [h, Nat.add_zero] at hd
  rw [F.intMag_of_mul m a _ hd.symm]; exact hd

/-! ### the hypotheses hold for the concrete formats -/

theorem b32_hyp : 3 ≤ b32.ebits ∧ 1 ≤ b32.mbits ∧ b32.bias + b32.mbits < b32.emax := by decide
theorem b64_hyp : 3 ≤ b64.ebits ∧ 1 ≤ b64.mbits ∧ b64.bias + b64.mbits < b64.emax := by decide
theorem b16_hyp : 3 ≤ (Fmt.mk 5 10).ebits ∧ 1 ≤ (Fmt.mk 5 10).mbits ∧
    (Fmt.mk 5 10).bias + (Fmt.mk 5 10).mbits < (Fmt.mk 5 10).emax := by decide

theorem mag_rnd_b32 (m : Mode) (a : Nat) (ha : a < b32.inf) :
    b32.mag (b32.rnd m a) = b32.intMag m a * 2 ^ b32.K ∧ b32.rnd m a < b32.inf :=
  b32.mag_rnd b32_hyp.1 b32_hyp.2.1 b32_hyp.2.2 m a ha

theorem mag_rnd_b64 (m : Mode) (a : Nat) (ha : a < b64.inf) :
    b64.mag (b64.rnd m a) = b64.intMag m a * 2 ^ b64.K ∧ b64.rnd m a < b64.inf :=
  b64.mag_rnd b64_hyp.1 b64_hyp.2.1 b64_hyp.2.2 m a ha

end Fmt
end Tetl.C16


