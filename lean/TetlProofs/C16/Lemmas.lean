/- C16 — helper lemmas about the fields of a bit pattern. -/
import Tetl.C16.Spec
import Tetl.C16.Model
namespace Tetl.C16
namespace Fmt
variable (F : Fmt)

theorem signBit_pos : 0 < F.signBit := Nat.pow_pos (by decide)

theorem abs_lt (b : Nat) : F.abs b < F.signBit := Nat.mod_lt _ (signBit_pos F)

end Fmt
end Tetl.C16
