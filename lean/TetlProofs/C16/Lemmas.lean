/- C16 — helper lemmas about the fields of a bit pattern (sign bit + magnitude bits). -/
import TetlProofs.C16.Round
import TetlProofs.C16.Mono
import Tetl.C16.Model
set_option linter.unusedVariables false
namespace Tetl.C16
namespace Fmt
variable (F : Fmt)
theorem signBit_pos' : 0 < F.signBit := Nat.pow_pos (by decide)
theorem abs_lt' (b : Nat) : F.abs b < F.signBit := Nat.mod_lt _ (signBit_pos' F)
theorem width_eq : 2 ^ F.width = 2 * F.signBit := by
  unfold width signBit
  rw [show 1 + F.ebits + F.mbits = (F.ebits + F.mbits) + 1 by omega, Nat.pow_succ]; omega
theorem decomp (b : Nat) (hb : b < 2 ^ F.width) : F.withSign (F.sign b) (F.abs b) = b := by
  unfold withSign sign abs
  have hs := signBit_pos' F
  have hw := width_eq F
  have hq : b / F.signBit < 2 := (Nat.div_lt_iff_lt_mul hs).2 (by omega)
  have hdm := Nat.div_add_mod b F.signBit
  generalize b / F.signBit = q at *
  generalize b % F.signBit = r at *
  have : q = 0 ∨ q = 1 := by omega
  rcases this with rfl | rfl <;> simp at hdm ⊢ <;> omega
theorem sign_of_lt (a : Nat) (ha : a < F.signBit) : F.sign a = false := by
  unfold sign; simp [Nat.div_eq_of_lt ha]
theorem abs_of_lt (a : Nat) (ha : a < F.signBit) : F.abs a = a := Nat.mod_eq_of_lt ha
theorem key_withSign (s : Bool) (a : Nat) (ha : a < F.signBit) :
    F.key (F.withSign s a) = if s then -(a : Int) else (a : Int) := by
  unfold key; rw [sign_withSign F s a ha, abs_withSign F s a ha]

theorem isNaN_zero (F : Fmt) : F.isNaN 0 = false := by
  unfold Fmt.isNaN Fmt.abs; simp

theorem key_zero (F : Fmt) : F.key 0 = 0 := by
  unfold Fmt.key Fmt.sign Fmt.abs; simp

theorem key_eq_zero_iff (F : Fmt) (x : Nat) : F.key x = 0 ↔ F.abs x = 0 := by
  unfold Fmt.key; cases F.sign x <;> simp
end Fmt

end Tetl.C16
