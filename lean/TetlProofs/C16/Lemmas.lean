/- C16 — helper lemmas about the fields of a bit pattern (sign bit + magnitude bits). -/
import TetlProofs.C16.Round
import TetlProofs.C16.Mono
import Tetl.C16.Model
set_option linter.unusedVariables false
namespace Tetl.C16
namespace Fmt
variable (F : Fmt)
theorem signBit_pos' : 0 < F.signBit := Nat.pow_pos (by decide)
theorem abs_lt' (b : Nat) : F.abs b < F.signBit := Nat.mod_lt _ (signBit_pos' F)
theorem width_eq : 2 ^ F.width = 2 * F.signBit := by
  unfold width signBit
  rw [show 1 + F.ebits + F.mbits = (F.ebits + F.mbits) + 1 by omega, Nat.pow_succ]; omega
theorem decomp (b : Nat) (hb : b < 2 ^ F.width) : F.withSign (F.sign b) (F.abs b) = b := by
  unfold withSign sign abs
  have hs := signBit_pos' F
  have hw := width_eq F
  have hq : b / F.signBit < 2 := (Nat.div_lt_iff_lt_mul hs).2 (by omega)
  have hdm := Nat.div_add_mod b F.signBit
  generalize b / F.signBit = q at *
  generalize b % F.signBit = r at *
  have : q = 0 ∨ q = 1 := by omega
  rcases this with rfl | rfl <;> simp at hdm ⊢ <;> omega
theorem sign_of_lt (a : Nat) (ha : a < F.signBit) : F.sign a = false := by
  unfold sign; simp [Nat.div_eq_of_lt ha]
theorem abs_of_lt (a : Nat) (ha : a < F.signBit) : F.abs a = a := Nat.mod_eq_of_lt ha
theorem key_withSign (s : Bool) (a : Nat) (ha : a < F.signBit) :
    F.key (F.withSign s a) = if s then -(a : Int) else (a : Int) := by
  unfold key; rw [sign_withSign F s a ha, abs_withSign F s a ha]

theorem isNaN_zero (F : Fmt) : F.isNaN 0 = false := by
  unfold Fmt.isNaN Fmt.abs; simp

theorem key_zero (F : Fmt) : F.key 0 = 0 := by
  unfold Fmt.key Fmt.sign Fmt.abs; simp

theorem key_eq_zero_iff (F : Fmt) (x : Nat) : F.key x = 0 ↔ F.abs x = 0 := by
  unfold Fmt.key; cases F.sign x <;> simp

/-! ### the comparisons of the constant-evaluated fmod / remainder ladder -/
theorem isNaN_inf (hE : 3 ≤ F.ebits) : F.isNaN F.inf = false := by
  unfold Fmt.isNaN; rw [abs_of_lt F _ (inf_lt_signBit F hE)]; simp
theorem key_inf (hE : 3 ≤ F.ebits) : F.key F.inf = (F.inf : Int) := by
  unfold Fmt.key; rw [sign_of_lt F _ (inf_lt_signBit F hE), abs_of_lt F _ (inf_lt_signBit F hE)]; simp
theorem negInf_eq : Model.negInf F = F.withSign true F.inf := by
  unfold Model.negInf Fmt.withSign; simp
theorem isNaN_negInf (hE : 3 ≤ F.ebits) : F.isNaN (Model.negInf F) = false := by
  unfold Fmt.isNaN; rw [negInf_eq, abs_withSign F _ _ (inf_lt_signBit F hE)]; simp
theorem key_negInf (hE : 3 ≤ F.ebits) : F.key (Model.negInf F) = -(F.inf : Int) := by
  rw [negInf_eq, key_withSign F _ _ (inf_lt_signBit F hE)]; simp

/-- `x == inf or x == -inf` (C comparisons) holds exactly for the two infinite patterns -/
theorem eq_inf_or (hE : 3 ≤ F.ebits) (x : Nat) :
    (Model.eq F x F.inf || Model.eq F x (Model.negInf F)) = F.isInf x := by
  have h0 := zero_lt_inf F hE
  unfold Model.eq
  rw [isNaN_inf F hE, isNaN_negInf F hE, key_inf F hE, key_negInf F hE]
  unfold Fmt.isNaN Fmt.isInf Fmt.key
  cases hs : F.sign x <;> simp only [Bool.false_eq_true, if_false, if_true, Bool.not_false, Bool.and_true]
  · by_cases h : F.abs x = F.inf
    · simp [h]
    · have h1 : ¬ ((F.abs x : Int) = (F.inf : Int)) := by omega
      have h2 : ¬ ((F.abs x : Int) = -(F.inf : Int)) := by omega
      simp [h, h1, h2]
  · by_cases h : F.abs x = F.inf
    · simp [h]
    · have h1 : ¬ (-(F.abs x : Int) = (F.inf : Int)) := by omega
      have h2 : ¬ (-(F.abs x : Int) = -(F.inf : Int)) := by omega
      simp [h, h1, h2]

/-- `y == T(0)` holds exactly for the two zero patterns -/
theorem eq_zero_isZero (hE : 3 ≤ F.ebits) (y : Nat) : Model.eq F y 0 = F.isZero y := by
  have h0 := zero_lt_inf F hE
  unfold Model.eq
  rw [isNaN_zero, key_zero]
  unfold Fmt.isNaN Fmt.isZero
  by_cases h : F.abs y = 0
  · have := (key_eq_zero_iff F y).2 h
    simp [h, this]
  · have : ¬ F.key y = 0 := fun hk => h ((key_eq_zero_iff F y).1 hk)
    simp [h, this]

theorem divInvalid_eq (hE : 3 ≤ F.ebits) (x y : Nat) :
    Model.divInvalid F x y = (F.isNaN x || F.isNaN y || F.isInf x || F.isZero y) := by
  unfold Model.divInvalid
  rw [← eq_inf_or F hE x, ← eq_zero_isZero F hE y]
  simp only [Bool.or_assoc]
theorem divisorInf_eq (hE : 3 ≤ F.ebits) (y : Nat) : Model.divisorInf F y = F.isInf y := eq_inf_or F hE y
end Fmt

/-! ### definitional re-statements (`rfl`: the model is the same term as the spec) — bookkeeping, not obligations -/
/-- signbit.hpp `signbit_fallback` (never selected under GCC: `etl::signbit` takes `__builtin_signbit` on both paths) -/
theorem signbitFallback_eq (F : Fmt) (x : Nat) : Model.signbitFallback F x = F.signbit x := rfl
theorem fmin_model_eq (F : Fmt) (x y : Nat) : Model.fmin F x y = F.fmin x y := by
  unfold Model.fmin Fmt.fmin Model.canon Model.lt; rfl
theorem fmax_model_eq (F : Fmt) (x y : Nat) : Model.fmax F x y = F.fmax x y := by
  unfold Model.fmax Fmt.fmax Model.canon Model.lt; rfl

end Tetl.C16
