/- C13 ↔ C16: the two bit-level specifications of floor / ceil / trunc / round / rint are the same function. -/
import TetlProofs.C16.Lemmas
import TetlProofs.C13.LemmasSafe
namespace Tetl.C16

/-- (mode for x ≥ 0, mode for x < 0) of the magnitude rounding that implements a C13 mode -/
def modes : Tetl.C13.FSpec.Mode → Fmt.Mode × Fmt.Mode
  | .floor => (.trunc, .away) | .ceil => (.away, .trunc) | .trunc => (.trunc, .trunc)
  | .round => (.halfAway, .halfAway) | .rint => (.halfEven, .halfEven)

namespace Fmt
variable (F : Fmt)

/-! ### the two vocabularies -/
theorem cv_signW : F.cv.signW = F.signBit := rfl
theorem cv_inf : F.cv.inf = F.inf := rfl
theorem cv_qnan : F.cv.qnan = F.qnan := rfl
theorem cv_bias : F.cv.bias = F.bias := rfl
theorem cv_mbits : F.cv.mbits = F.mbits := rfl
theorem cv_U (hE : 3 ≤ F.ebits) : F.cv.U = F.K := by
  have := (F.fmt_facts hE).1
  show F.bias - 1 + F.mbits = F.bias + F.mbits - 1
  omega
theorem cv_absBits (b : Nat) : F.cv.absBits b = F.abs b := rfl
theorem cv_sign (b : Nat) : (F.cv.sign b == 1) = F.sign b := rfl
theorem cv_isNaN (b : Nat) : F.cv.isNaN b = F.isNaN b := rfl

theorem cv_withSign (b a : Nat) : F.cv.withSign (F.cv.sign b) a = F.withSign (F.sign b) a := by
  show b / F.signBit % 2 * F.signBit + a = (if (b / F.signBit % 2 == 1) = true then F.signBit else 0) + a
  rcases Nat.mod_two_eq_zero_or_one (b / F.signBit) with h | h <;> rw [h] <;> simp

theorem cv_expo (b : Nat) : F.cv.expo b = F.exp (F.abs b) := by
  show F.abs b / 2 ^ F.mbits = F.abs b / 2 ^ F.mbits % 2 ^ F.ebits
  have h := F.abs_lt' b
  unfold signBit at h
  rw [Nat.pow_add] at h
  rw [Nat.mod_eq_of_lt ((Nat.div_lt_iff_lt_mul (Nat.two_pow_pos _)).2 h)]

theorem cv_mant (b : Nat) : F.cv.mant b = F.man (F.abs b) := Tetl.C13.Lemmas.mant_absBits F.cv b

theorem cv_mag (b : Nat) : F.cv.mag b = F.mag (F.abs b) := by
  unfold Tetl.C13.Fmt.mag mag sig
  simp only [F.cv_expo b, F.cv_mant b, cv_mbits]
  by_cases h : F.exp (F.abs b) = 0
  · simp [h]
  · rw [if_neg h, if_neg h, Nat.max_eq_left (by omega)]

/-! ### the integer chosen by the mode -/
theorem roundedMag_eq_pick (m : Tetl.C13.FSpec.Mode) (neg : Bool) (ip fr one : Nat) :
    Tetl.C13.FSpec.roundedMag m neg ip fr one
      = pick (if neg then (modes m).2 else (modes m).1) one ip fr := by
  cases m <;> cases neg <;> simp [Tetl.C13.FSpec.roundedMag, pick, modes]


/-- below the exponent `bias + mbits` the integer part is below `2^mbits` -/
theorem mag_lt_of_exp_lt (hE : 3 ≤ F.ebits) (a : Nat) (he : F.exp a < F.bias + F.mbits) :
    F.mag a < 2 ^ F.mbits * 2 ^ F.K := by
  have hbias := (F.fmt_facts hE).1
  have hs : F.sig a < 2 * 2 ^ F.mbits := by
    have := Nat.mod_lt a (Nat.two_pow_pos F.mbits)
    unfold sig man; split <;> omega
  have hj : 2 ^ (max (F.exp a) 1 - 1) ≤ 2 ^ (F.K - 1) :=
    Nat.pow_le_pow_right (by decide) (by unfold K; omega)
  have hK : 2 ^ F.K = 2 ^ (F.K - 1) * 2 := by
    rw [← Nat.pow_succ]; congr 1; unfold K; omega
  have hpos : 0 < 2 ^ (F.K - 1) := Nat.two_pow_pos _
  unfold mag
  calc F.sig a * 2 ^ (max (F.exp a) 1 - 1) ≤ F.sig a * 2 ^ (F.K - 1) := Nat.mul_le_mul_left _ hj
    _ < (2 * 2 ^ F.mbits) * 2 ^ (F.K - 1) := Nat.mul_lt_mul_of_pos_right hs hpos
    _ = 2 ^ F.mbits * 2 ^ F.K := by rw [hK]; ac_rfl

theorem pick_le (m : Mode) (T q r : Nat) : pick m T q r ≤ q + 1 := by
  cases m <;> simp only [pick] <;> (try split) <;> omega

end Fmt

open Fmt in
/-- **C13 = C16** on every pattern of the format: `FSpec.roundTo` (integer part, fraction, `roundUnits`) and
    `Fmt.roundWith` (the mask algorithm) are the same function.  `hInt`: the integers up to `2^mbits` are exactly
    representable by `roundUnits`. -/
theorem roundTo_eq_roundWith (F : Fmt) (hE : 3 ≤ F.ebits) (hM : 1 ≤ F.mbits) (hR : F.bias + F.mbits < F.emax)
    (hInt : ∀ n, n ≤ 2 ^ F.mbits →
      F.cv.roundUnits n F.cv.U < F.cv.inf ∧ F.cv.mag (F.cv.roundUnits n F.cv.U) = n * 2 ^ F.cv.U)
    (m : Tetl.C13.FSpec.Mode) (b : Nat) (hb : b < 2 ^ F.width) :
    Tetl.C13.FSpec.roundTo F.cv m b = F.roundWith (modes m).1 (modes m).2 b := by
  have hU := F.cv_U hE
  have habs := F.abs_lt' b
  have hinfS := F.inf_lt_signBit hE
  have hpm : 0 < 2 ^ F.mbits := Nat.two_pow_pos _
  unfold Tetl.C13.FSpec.roundTo
  rw [F.cv_isNaN b]
  by_cases hn : F.isNaN b = true
  · rw [if_pos hn, F.roundWith_nan _ _ b hn]; rfl
  rw [if_neg hn]
  have hle : F.abs b ≤ F.inf := by
    have : ¬ F.inf < F.abs b := fun h => hn (decide_eq_true h)
    omega
  by_cases he : F.bias + F.mbits ≤ F.exp (F.abs b)
  · -- no fraction bits
    have he' : F.cv.expo b ≥ F.cv.bias + F.cv.mbits := by rw [F.cv_expo b]; exact he
    rw [if_pos he']
    by_cases hi : F.isInf b = true
    · rw [F.roundWith_inf _ _ b hi]
    · have hne : F.abs b ≠ F.inf := fun h => hi (by unfold isInf; rw [h]; exact beq_self_eq_true _)
      have hfin : F.isFinite b = true := decide_eq_true (by omega)
      rw [F.roundWith_of_finite _ _ b hfin, F.rnd_hi _ _ he, F.decomp b hb]
  · -- |x| < 2^mbits
    have he' : ¬ F.cv.expo b ≥ F.cv.bias + F.cv.mbits := by rw [F.cv_expo b]; exact he
    rw [if_neg he']
    have hlt : F.abs b < F.inf := by
      have h1 : F.abs b / 2 ^ F.mbits < F.emax := by
        have : F.exp (F.abs b) = F.abs b / 2 ^ F.mbits := by rw [← F.cv_expo b]; rfl
        omega
      have := (Nat.div_lt_iff_lt_mul hpm).1 h1
      exact this
    have hfin : F.isFinite b = true := decide_eq_true hlt
    rw [F.roundWith_of_finite _ _ b hfin]
    show F.cv.withSign (F.cv.sign b) (F.cv.roundUnits
      (Tetl.C13.FSpec.roundedMag m (F.cv.sign b == 1) (F.cv.mag b / 2 ^ F.cv.U) (F.cv.mag b % 2 ^ F.cv.U)
        (2 ^ F.cv.U)) F.cv.U) = _
    rw [F.cv_withSign, F.cv_sign b, roundedMag_eq_pick, F.cv_mag b]
    congr 1
    generalize hmode : (if F.sign b = true then (modes m).2 else (modes m).1) = mode
    rw [hU, ← F.intMag_eq_pick mode (F.abs b), ← hU]
    obtain ⟨hr1, hr2⟩ := F.mag_rnd hE hM hR mode (F.abs b) hlt
    have hmag := F.mag_lt_of_exp_lt hE (F.abs b) (by omega)
    have hq : F.mag (F.abs b) / 2 ^ F.K < 2 ^ F.mbits :=
      (Nat.div_lt_iff_lt_mul (Nat.two_pow_pos _)).2 hmag
    have hn : F.intMag mode (F.abs b) ≤ 2 ^ F.mbits := by
      have := pick_le mode (2 ^ F.K) (F.mag (F.abs b) / 2 ^ F.K) (F.mag (F.abs b) % 2 ^ F.K)
      rw [← F.intMag_eq_pick] at this
      omega
    obtain ⟨hp1, hp2⟩ := hInt _ hn
    rw [F.cv_inf] at hp1
    apply F.mag_inj hE _ _ hp1 hr2
    have hp3 := F.cv_mag (F.cv.roundUnits (F.intMag mode (F.abs b)) F.cv.U)
    rw [F.abs_of_lt _ (Nat.lt_trans hp1 hinfS)] at hp3
    rw [hr1, ← hU, ← hp2, hp3]

theorem roundTo_floor (F : Fmt) (hE : 3 ≤ F.ebits) (hM : 1 ≤ F.mbits) (hR : F.bias + F.mbits < F.emax)
    (hInt : ∀ n, n ≤ 2 ^ F.mbits →
      F.cv.roundUnits n F.cv.U < F.cv.inf ∧ F.cv.mag (F.cv.roundUnits n F.cv.U) = n * 2 ^ F.cv.U)
    (b : Nat) (hb : b < 2 ^ F.width) : Tetl.C13.FSpec.roundTo F.cv .floor b = F.floor b :=
  roundTo_eq_roundWith F hE hM hR hInt .floor b hb

theorem roundTo_ceil (F : Fmt) (hE : 3 ≤ F.ebits) (hM : 1 ≤ F.mbits) (hR : F.bias + F.mbits < F.emax)
    (hInt : ∀ n, n ≤ 2 ^ F.mbits →
      F.cv.roundUnits n F.cv.U < F.cv.inf ∧ F.cv.mag (F.cv.roundUnits n F.cv.U) = n * 2 ^ F.cv.U)
    (b : Nat) (hb : b < 2 ^ F.width) : Tetl.C13.FSpec.roundTo F.cv .ceil b = F.ceil b :=
  roundTo_eq_roundWith F hE hM hR hInt .ceil b hb

theorem roundTo_trunc (F : Fmt) (hE : 3 ≤ F.ebits) (hM : 1 ≤ F.mbits) (hR : F.bias + F.mbits < F.emax)
    (hInt : ∀ n, n ≤ 2 ^ F.mbits →
      F.cv.roundUnits n F.cv.U < F.cv.inf ∧ F.cv.mag (F.cv.roundUnits n F.cv.U) = n * 2 ^ F.cv.U)
    (b : Nat) (hb : b < 2 ^ F.width) : Tetl.C13.FSpec.roundTo F.cv .trunc b = F.trunc b :=
  roundTo_eq_roundWith F hE hM hR hInt .trunc b hb

theorem roundTo_round (F : Fmt) (hE : 3 ≤ F.ebits) (hM : 1 ≤ F.mbits) (hR : F.bias + F.mbits < F.emax)
    (hInt : ∀ n, n ≤ 2 ^ F.mbits →
      F.cv.roundUnits n F.cv.U < F.cv.inf ∧ F.cv.mag (F.cv.roundUnits n F.cv.U) = n * 2 ^ F.cv.U)
    (b : Nat) (hb : b < 2 ^ F.width) : Tetl.C13.FSpec.roundTo F.cv .round b = F.round b :=
  roundTo_eq_roundWith F hE hM hR hInt .round b hb

theorem roundTo_rint (F : Fmt) (hE : 3 ≤ F.ebits) (hM : 1 ≤ F.mbits) (hR : F.bias + F.mbits < F.emax)
    (hInt : ∀ n, n ≤ 2 ^ F.mbits →
      F.cv.roundUnits n F.cv.U < F.cv.inf ∧ F.cv.mag (F.cv.roundUnits n F.cv.U) = n * 2 ^ F.cv.U)
    (b : Nat) (hb : b < 2 ^ F.width) : Tetl.C13.FSpec.roundTo F.cv .rint b = F.rint b :=
  roundTo_eq_roundWith F hE hM hR hInt .rint b hb

end Tetl.C16
