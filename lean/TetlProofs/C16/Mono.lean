/- C16 — lemmas: the value (`mag`) is strictly monotone in the magnitude pattern, so `key` is the value order. -/
import TetlProofs.C16.Round

namespace Tetl.C16
namespace Fmt
variable (F : Fmt)

/-- the next finite magnitude pattern has a strictly larger value -/
theorem mag_succ (hE : 3 ≤ F.ebits) (a : Nat) (h : a + 1 < F.inf) : F.mag a < F.mag (a + 1) := by
  obtain ⟨hb, hem, hem'⟩ := F.fmt_facts hE
  have hpos : 0 < 2 ^ F.mbits := Nat.two_pow_pos _
  have he : a / 2 ^ F.mbits < F.emax := by
    apply Nat.div_lt_of_lt_mul; rw [Nat.mul_comm]; unfold inf at h; omega
  have hf : a % 2 ^ F.mbits < 2 ^ F.mbits := Nat.mod_lt _ hpos
  have hdecomp : a / 2 ^ F.mbits * 2 ^ F.mbits + a % 2 ^ F.mbits = a := Nat.div_add_mod' _ _
  generalize a / 2 ^ F.mbits = e at *
  generalize a % 2 ^ F.mbits = f at *
  subst hdecomp
  by_cases hc : f + 1 < 2 ^ F.mbits
  · -- same exponent, next mantissa
    rw [Nat.add_assoc]
    rcases Nat.eq_zero_or_pos e with h0 | h1
    · subst h0
      rw [F.mag_mk0 f hf, F.mag_mk0 (f + 1) hc]; omega
    · rw [F.mag_mk e f (by omega) h1 hf, F.mag_mk e (f + 1) (by omega) h1 hc]
      exact Nat.mul_lt_mul_of_pos_right (by omega) (Nat.two_pow_pos _)
  · -- carry into the exponent
    have hf1 : f + 1 = 2 ^ F.mbits := by omega
    have e1 : e * 2 ^ F.mbits + f + 1 = (e + 1) * 2 ^ F.mbits + 0 := by
      rw [Nat.add_assoc, hf1, Nat.add_mul, Nat.one_mul, Nat.add_zero]
    have he1 : e + 1 < F.emax := by
      rcases Nat.lt_or_ge (e + 1) F.emax with h' | h'
      · exact h'
      · exfalso
        have : F.emax * 2 ^ F.mbits ≤ (e + 1) * 2 ^ F.mbits := Nat.mul_le_mul_right _ h'
        unfold inf at h; omega
    rw [e1, F.mag_mk (e + 1) 0 (by omega) (by omega) hpos, Nat.add_sub_cancel, Nat.add_zero]
    rcases Nat.eq_zero_or_pos e with h0 | h1
    · subst h0
      rw [F.mag_mk0 f hf]; simp only [Nat.pow_zero, Nat.mul_one]; omega
    · rw [F.mag_mk e f (by omega) h1 hf]
      have hS : 2 ^ e = 2 ^ (e - 1) * 2 := by
        rw [← Nat.pow_succ]; congr 1; omega
      have hSp : 0 < 2 ^ (e - 1) := Nat.two_pow_pos _
      rw [hS, ← Nat.mul_assoc, Nat.mul_right_comm]
      exact Nat.mul_lt_mul_of_pos_right (by omega) hSp

/-- the value is strictly monotone in the magnitude pattern (finite patterns) -/
theorem mag_strictMono (hE : 3 ≤ F.ebits) (a a' : Nat) (h : a < a') (ha' : a' < F.inf) :
    F.mag a < F.mag a' := by
  have key : ∀ d, a + 1 + d < F.inf → F.mag a < F.mag (a + 1 + d) := by
    intro d
    induction d with
    | zero => intro hd; exact F.mag_succ hE a hd
    | succ n ih =>
      intro hd
      have h1 := ih (by omega)
      have h2 := F.mag_succ hE (a + 1 + n) (by rw [Nat.add_assoc (a + 1)]; exact hd)
      rw [← Nat.add_assoc (a + 1)]
      omega
  have := key (a' - a - 1) (by omega)
  rwa [show a + 1 + (a' - a - 1) = a' by omega] at this

theorem mag_lt_iff (hE : 3 ≤ F.ebits) (a a' : Nat) (ha : a < F.inf) (ha' : a' < F.inf) :
    F.mag a < F.mag a' ↔ a < a' := by
  constructor
  · intro h
    rcases Nat.lt_trichotomy a a' with h1 | h1 | h1
    · exact h1
    · subst h1; omega
    · have := F.mag_strictMono hE a' a h1 ha; omega
  · intro h; exact F.mag_strictMono hE a a' h ha'

theorem mag_inj (hE : 3 ≤ F.ebits) (a a' : Nat) (ha : a < F.inf) (ha' : a' < F.inf)
    (h : F.mag a = F.mag a') : a = a' := by
  rcases Nat.lt_trichotomy a a' with h1 | h1 | h1
  · have := F.mag_strictMono hE a a' h1 ha'; omega
  · exact h1
  · have := F.mag_strictMono hE a' a h1 ha; omega

theorem mag_eq_zero_iff (hE : 3 ≤ F.ebits) (a : Nat) (ha : a < F.inf) : F.mag a = 0 ↔ a = 0 := by
  constructor
  · intro h
    rcases Nat.eq_zero_or_pos a with h0 | h0
    · exact h0
    · have := F.mag_strictMono hE 0 a h0 ha; omega
  · intro h; subst h; exact F.mag_zero

/-- the integer order key is the value order (all non-NaN patterns, both zeros included) -/
theorem key_lt_iff_smag_lt (hE : 3 ≤ F.ebits) (x y : Nat) (hx : F.abs x < F.inf)
    (hy : F.abs y < F.inf) : F.key x < F.key y ↔ F.smag x < F.smag y := by
  have h1 := F.mag_lt_iff hE _ _ hx hy
  have h2 := F.mag_lt_iff hE _ _ hy hx
  have h3 := F.mag_eq_zero_iff hE _ hx
  have h4 := F.mag_eq_zero_iff hE _ hy
  unfold key smag
  generalize F.mag (F.abs x) = p at *
  generalize F.mag (F.abs y) = q at *
  generalize F.abs x = A at *
  generalize F.abs y = B at *
  cases F.sign x <;> cases F.sign y <;>
    simp only [Bool.false_eq_true, if_false, if_true] <;> omega

theorem key_eq_iff_smag_eq (hE : 3 ≤ F.ebits) (x y : Nat) (hx : F.abs x < F.inf)
    (hy : F.abs y < F.inf) : F.key x = F.key y ↔ F.smag x = F.smag y := by
  have h1 := F.key_lt_iff_smag_lt hE x y hx hy
  have h2 := F.key_lt_iff_smag_lt hE y x hy hx
  omega

end Fmt
end Tetl.C16

