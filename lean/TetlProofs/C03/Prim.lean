/-
C03 — lemmas about the slot machine: `Mem.get` / `Mem.set`, the live count under `set`, the exact
result of every primitive event under its precondition, frame facts (other slots unchanged, length
unchanged) and preservation of the balance `Bal` (#constructed = #destroyed + #alive).

The *shape* `Mem.sh m x` of slot `x` forgets the value: `none` outside the arena, `some none` for raw
storage, `some (some ty)` for a live object of type `ty`.  All owner invariants are statements about
the shape; values only matter for `useAt` (erase_if) and for `svSwapSelf_id`.
-/
import TetlProofs.C03.Defs
namespace Tetl.C03

/-! ### `Mem.get` / `Mem.set` / counters -/

theorem Mem.get_ok {m : Mem} {i : Nat} {s : Slot} (h : m.slots[i]? = some s) : m.get i = .ok s := by
  simp [Mem.get, h]

theorem Mem.get_oob {m : Mem} {i : Nat} (h : m.slots[i]? = none) : m.get i = .error (.oob i) := by
  simp [Mem.get, h]

@[simp] theorem Mem.set_cnt (m : Mem) (i : Nat) (s : Slot) : (m.set i s).cnt = m.cnt := rfl

@[simp] theorem Mem.set_length (m : Mem) (i : Nat) (s : Slot) :
    (m.set i s).slots.length = m.slots.length := by
  simp [Mem.set]

theorem Mem.lt_of_get {m : Mem} {i : Nat} {s : Slot} (h : m.slots[i]? = some s) : i < m.slots.length := by
  rcases List.getElem?_eq_some_iff.mp h with ⟨hl, _⟩
  exact hl

theorem Mem.set_get_self {m : Mem} {i : Nat} {old : Slot} (h : m.slots[i]? = some old) (s : Slot) :
    (m.set i s).slots[i]? = some s := by
  have hl := Mem.lt_of_get h
  simp [Mem.set, hl]

theorem Mem.set_get_ne (m : Mem) {i x : Nat} (h : x ≠ i) (s : Slot) :
    (m.set i s).slots[x]? = m.slots[x]? := by
  have h' : i ≠ x := fun e => h e.symm
  simp [Mem.set, h']

@[simp] theorem bumpVc_slots (m : Mem) : (bumpVc m).slots = m.slots := rfl
@[simp] theorem bumpCc_slots (m : Mem) : (bumpCc m).slots = m.slots := rfl
@[simp] theorem bumpMc_slots (m : Mem) : (bumpMc m).slots = m.slots := rfl
@[simp] theorem bumpCa_slots (m : Mem) : (bumpCa m).slots = m.slots := rfl
@[simp] theorem bumpMa_slots (m : Mem) : (bumpMa m).slots = m.slots := rfl
@[simp] theorem bumpD_slots (m : Mem) : (bumpD m).slots = m.slots := rfl

/-! ### the live count under `set` -/

theorem filter_set_length (l : List Slot) (i : Nat) (old s : Slot) (h : l[i]? = some old) :
    ((l.set i s).filter Slot.isLive).length + (if old.isLive then 1 else 0)
      = (l.filter Slot.isLive).length + (if s.isLive then 1 else 0) := by
  induction l generalizing i with
  | nil => simp at h
  | cons a l ih =>
    cases i with
    | zero =>
      simp at h
      subst h
      simp only [List.set_cons_zero, List.filter_cons]
      cases hs : s.isLive <;> cases ha : a.isLive <;> simp
    | succ i =>
      simp at h
      have := ih i h
      simp only [List.set_cons_succ, List.filter_cons]
      cases ha : a.isLive <;> simp <;> omega

theorem liveCount_set {m : Mem} {i : Nat} {old : Slot} (h : m.slots[i]? = some old) (s : Slot) :
    (m.set i s).liveCount + (if old.isLive then 1 else 0) = m.liveCount + (if s.isLive then 1 else 0) :=
  filter_set_length m.slots i old s h

theorem liveCount_set_dead_live {m : Mem} {i : Nat} (h : m.slots[i]? = some .dead) (ty : Nat) (v : Option Nat) :
    (m.set i (.live ty v)).liveCount = m.liveCount + 1 := by
  have := liveCount_set h (.live ty v)
  simpa [Slot.isLive] using this

theorem liveCount_set_live_live {m : Mem} {i t : Nat} {w : Option Nat} (h : m.slots[i]? = some (.live t w))
    (ty : Nat) (v : Option Nat) : (m.set i (.live ty v)).liveCount = m.liveCount := by
  have := liveCount_set h (.live ty v)
  simpa [Slot.isLive] using this

theorem liveCount_set_live_dead {m : Mem} {i t : Nat} {w : Option Nat} (h : m.slots[i]? = some (.live t w)) :
    (m.set i .dead).liveCount + 1 = m.liveCount := by
  have := liveCount_set h .dead
  simpa [Slot.isLive] using this

/-! ### the effect of an event: at most slots `i` and `j` change -/

/-- `m'` has the length of `m`, agrees with it outside `{i, j}` and keeps the balance -/
structure Eff (m m' : Mem) (i j : Nat) : Prop where
  len : m'.slots.length = m.slots.length
  frame : ∀ x, x ≠ i → x ≠ j → m'.slots[x]? = m.slots[x]?
  bal : Bal m → Bal m'

theorem Eff.swap {m m' : Mem} {i j : Nat} (h : Eff m m' i j) : Eff m m' j i :=
  ⟨h.len, fun x h1 h2 => h.frame x h2 h1, h.bal⟩

theorem Eff.weaken {m m' : Mem} {i : Nat} (h : Eff m m' i i) (j : Nat) : Eff m m' i j :=
  ⟨h.len, fun x h1 _ => h.frame x h1 h1, h.bal⟩

/-- a constructor ran on the dead slot `i` (counter `vc`, `cc` or `mc` bumped) -/
theorem eff_construct {m : Mem} {i : Nat} (hi : m.slots[i]? = some .dead) (ty : Nat) (v : Option Nat)
    (m' : Mem) (hs : m'.slots = (m.set i (.live ty v)).slots)
    (hc : m'.cnt.constructed = m.cnt.constructed + 1) (hd : m'.cnt.d = m.cnt.d) :
    Eff m m' i i ∧ m'.slots[i]? = some (.live ty v) := by
  refine ⟨⟨by rw [hs]; simp, fun x hx _ => by rw [hs]; exact Mem.set_get_ne m hx _, fun hb => ?_⟩,
    by rw [hs]; exact Mem.set_get_self hi _⟩
  have hl : m'.liveCount = m.liveCount + 1 := by
    have := liveCount_set_dead_live hi ty v
    simpa [Mem.liveCount, hs] using this
  unfold Bal at *
  omega

/-- an assignment ran on the live slot `i` (counter `ca` or `ma` bumped) -/
theorem eff_assign {m : Mem} {i t : Nat} {w : Option Nat} (hi : m.slots[i]? = some (.live t w)) (ty : Nat)
    (v : Option Nat) (m' : Mem) (hs : m'.slots = (m.set i (.live ty v)).slots)
    (hc : m'.cnt.constructed = m.cnt.constructed) (hd : m'.cnt.d = m.cnt.d) :
    Eff m m' i i ∧ m'.slots[i]? = some (.live ty v) := by
  refine ⟨⟨by rw [hs]; simp, fun x hx _ => by rw [hs]; exact Mem.set_get_ne m hx _, fun hb => ?_⟩,
    by rw [hs]; exact Mem.set_get_self hi _⟩
  have hl : m'.liveCount = m.liveCount := by
    have := liveCount_set_live_live hi ty v
    simpa [Mem.liveCount, hs] using this
  unfold Bal at *
  omega

theorem Eff.trans {m m1 m2 : Mem} {i j : Nat} (h1 : Eff m m1 i j) (h2 : Eff m1 m2 i j) : Eff m m2 i j :=
  ⟨h2.len.trans h1.len, fun x hi hj => (h2.frame x hi hj).trans (h1.frame x hi hj), fun hb => h2.bal (h1.bal hb)⟩

/-! ### exact results of the primitives -/

theorem constructAt_dead {m : Mem} {i : Nat} (hi : m.slots[i]? = some .dead) (ty : Nat) (v : Option Nat) :
    constructAt m i ty v = .ok (m.set i (.live ty v)) := by
  simp [constructAt, Mem.get_ok hi]

theorem assignAt_live {m : Mem} {i ty : Nat} {w : Option Nat} (hi : m.slots[i]? = some (.live ty w))
    (v : Option Nat) : assignAt m i ty v = .ok (m.set i (.live ty v)) := by
  simp [assignAt, Mem.get_ok hi]

theorem srcVal_ext (m : Mem) (ty v : Nat) : srcVal m ty (.ext v) = .ok (some v) := rfl

theorem srcVal_slot {m : Mem} {j ty : Nat} {w : Option Nat} (hj : m.slots[j]? = some (.live ty w)) :
    srcVal m ty (.slot j) = .ok w := by
  simp [srcVal, Mem.get_ok hj]

theorem valueC_eq {m : Mem} {i : Nat} (hi : m.slots[i]? = some .dead) (ty v : Nat) :
    valueC m i ty v = .ok (bumpVc (m.set i (.live ty (some v)))) := by
  simp [valueC, constructAt_dead hi]

theorem copyC_ext_eq {m : Mem} {i : Nat} (hi : m.slots[i]? = some .dead) (ty v : Nat) :
    copyC m i ty (.ext v) = .ok (bumpCc (m.set i (.live ty (some v)))) := by
  simp [copyC, srcVal_ext, constructAt_dead hi]

theorem copyC_slot_eq {m : Mem} {i j ty : Nat} {w : Option Nat} (hi : m.slots[i]? = some .dead)
    (hj : m.slots[j]? = some (.live ty w)) :
    copyC m i ty (.slot j) = .ok (bumpCc (m.set i (.live ty w))) := by
  simp [copyC, srcVal_slot hj, constructAt_dead hi]

theorem moveC_co {k : Kind} (hk : k.mem = .co) (m : Mem) (i ty : Nat) (s : Src) : moveC k m i ty s = copyC m i ty s := by
  simp [moveC, hk]

theorem moveC_ext_eq {k : Kind} (hk : k.mem ≠ .co) {m : Mem} {i : Nat} (hi : m.slots[i]? = some .dead) (ty v : Nat) :
    moveC k m i ty (.ext v) = .ok (bumpMc (m.set i (.live ty (some v)))) := by
  cases hmc : k.tr.mc <;> simp [moveC, hk, hmc, srcVal_ext, constructAt_dead hi, srcMoved]

/-- a user-provided move constructor resets its source … -/
theorem moveC_slot_eq {k : Kind} (hk : k.mem ≠ .co) (hmc : k.tr.mc = true) {m : Mem} {i j ty : Nat} {w : Option Nat}
    (hi : m.slots[i]? = some .dead) (hj : m.slots[j]? = some (.live ty w)) :
    moveC k m i ty (.slot j) = .ok (bumpMc ((m.set i (.live ty w)).set j (.live ty none))) := by
  simp [moveC, hk, hmc, srcVal_slot hj, constructAt_dead hi, srcMoved]

/-- … a defaulted (trivial) one copies the bytes and leaves the source as it is -/
theorem moveC_slot_eq_triv {k : Kind} (hk : k.mem ≠ .co) (hmc : k.tr.mc = false) {m : Mem} {i j ty : Nat} {w : Option Nat}
    (hi : m.slots[i]? = some .dead) (hj : m.slots[j]? = some (.live ty w)) :
    moveC k m i ty (.slot j) = .ok (bumpMc (m.set i (.live ty w))) := by
  simp [moveC, hk, hmc, srcVal_slot hj, constructAt_dead hi]

theorem copyA_ext_eq {m : Mem} {i ty : Nat} {w : Option Nat} (hi : m.slots[i]? = some (.live ty w)) (v : Nat) :
    copyA m i ty (.ext v) = .ok (bumpCa (m.set i (.live ty (some v)))) := by
  simp [copyA, srcVal_ext, assignAt_live hi]

theorem copyA_slot_eq {m : Mem} {i j ty : Nat} {w u : Option Nat} (hi : m.slots[i]? = some (.live ty w))
    (hj : m.slots[j]? = some (.live ty u)) :
    copyA m i ty (.slot j) = .ok (bumpCa (m.set i (.live ty u))) := by
  simp [copyA, srcVal_slot hj, assignAt_live hi]

theorem moveA_co {k : Kind} (hk : k.mem = .co) (m : Mem) (i ty : Nat) (s : Src) : moveA k m i ty s = copyA m i ty s := by
  simp [moveA, hk]

theorem moveA_ext_eq {k : Kind} (hk : k.mem ≠ .co) {m : Mem} {i ty : Nat} {w : Option Nat}
    (hi : m.slots[i]? = some (.live ty w)) (v : Nat) :
    moveA k m i ty (.ext v) = .ok (bumpMa (m.set i (.live ty (some v)))) := by
  cases hma : k.tr.ma <;> simp [moveA, hk, hma, srcVal_ext, assignAt_live hi, srcMoved]

theorem moveA_slot_eq {k : Kind} (hk : k.mem ≠ .co) (hma : k.tr.ma = true) {m : Mem} {i j ty : Nat} {w u : Option Nat} (hij : i ≠ j)
    (hi : m.slots[i]? = some (.live ty w)) (hj : m.slots[j]? = some (.live ty u)) :
    moveA k m i ty (.slot j) = .ok (bumpMa ((m.set i (.live ty u)).set j (.live ty none))) := by
  have hne : ¬ (j = i) := fun e => hij e.symm
  simp [moveA, hk, hma, srcVal_slot hj, assignAt_live hi, srcMoved, hne]

/-- a defaulted (trivial) move assignment copies the bytes and leaves the source as it is -/
theorem moveA_slot_eq_triv {k : Kind} (hk : k.mem ≠ .co) (hma : k.tr.ma = false) {m : Mem} {i j ty : Nat} {w u : Option Nat} (hij : i ≠ j)
    (hi : m.slots[i]? = some (.live ty w)) (hj : m.slots[j]? = some (.live ty u)) :
    moveA k m i ty (.slot j) = .ok (bumpMa (m.set i (.live ty u))) := by
  have hne : ¬ (j = i) := fun e => hij e.symm
  simp [moveA, hk, hma, srcVal_slot hj, assignAt_live hi, hne]

/-- self-move-assignment of a moved-from object is legal and changes nothing but the counter -/
theorem moveA_self_none {k : Kind} (hk : k.mem ≠ .co) {m : Mem} {i ty : Nat}
    (hi : m.slots[i]? = some (.live ty none)) : moveA k m i ty (.slot i) = .ok (bumpMa m) := by
  simp [moveA, hk, srcVal_slot hi]

/-- self-move-assignment of an object that holds its value through a user-provided move assignment is the illegal transition -/
theorem moveA_self_some {k : Kind} (hk : k.mem ≠ .co) (hma : k.tr.ma = true) {m : Mem} {i ty v : Nat}
    (hi : m.slots[i]? = some (.live ty (some v))) : moveA k m i ty (.slot i) = .error (.selfMove i) := by
  simp [moveA, hk, hma, srcVal_slot hi]

/-- a defaulted (trivial) move assignment of an object to itself changes nothing but the counter -/
theorem moveA_self_triv {k : Kind} (hk : k.mem ≠ .co) (hma : k.tr.ma = false) {m : Mem} {i ty : Nat} {w : Option Nat}
    (hi : m.slots[i]? = some (.live ty w)) : moveA k m i ty (.slot i) = .ok (bumpMa m) := by
  cases w <;> simp [moveA, hk, hma, srcVal_slot hi]

theorem destroyAt_eq {m : Mem} {i ty : Nat} {w : Option Nat} (hi : m.slots[i]? = some (.live ty w)) :
    destroyAt m i ty = .ok (bumpD (m.set i .dead)) := by
  simp [destroyAt, Mem.get_ok hi]

theorem useAt_eq {m : Mem} {i ty x : Nat} (hi : m.slots[i]? = some (.live ty (some x))) :
    useAt m i ty = .ok x := by
  simp [useAt, Mem.get_ok hi]

/-! ### specifications of the primitives: result, frame, length, balance -/

theorem valueC_spec {m : Mem} {i : Nat} (hi : m.slots[i]? = some .dead) (ty v : Nat) :
    ∃ m', valueC m i ty v = .ok m' ∧ Eff m m' i i ∧ m'.slots[i]? = some (.live ty (some v)) :=
  ⟨_, valueC_eq hi ty v, eff_construct hi ty (some v) _ rfl (by simp [bumpVc, Cnt.constructed]; omega) rfl⟩

theorem copyC_ext_spec {m : Mem} {i : Nat} (hi : m.slots[i]? = some .dead) (ty v : Nat) :
    ∃ m', copyC m i ty (.ext v) = .ok m' ∧ Eff m m' i i ∧ m'.slots[i]? = some (.live ty (some v)) :=
  ⟨_, copyC_ext_eq hi ty v, eff_construct hi ty (some v) _ rfl (by simp [bumpCc, Cnt.constructed]; omega) rfl⟩

/-- copy construction from a slot: the new object holds what the source holds; the source is untouched -/
theorem copyC_slot_spec {m : Mem} {i j ty : Nat} {w : Option Nat} (hi : m.slots[i]? = some .dead)
    (hj : m.slots[j]? = some (.live ty w)) :
    ∃ m', copyC m i ty (.slot j) = .ok m' ∧ Eff m m' i i ∧ m'.slots[i]? = some (.live ty w) :=
  ⟨_, copyC_slot_eq hi hj, eff_construct hi ty w _ rfl (by simp [bumpCc, Cnt.constructed]; omega) rfl⟩

theorem moveC_ext_spec (k : Kind) {m : Mem} {i : Nat} (hi : m.slots[i]? = some .dead) (ty v : Nat) :
    ∃ m', moveC k m i ty (.ext v) = .ok m' ∧ Eff m m' i i ∧ m'.slots[i]? = some (.live ty (some v)) := by
  by_cases hk : k.mem = .co
  · rw [moveC_co hk]
    exact copyC_ext_spec hi ty v
  · exact ⟨_, moveC_ext_eq hk hi ty v,
      eff_construct hi ty (some v) _ rfl (by simp [bumpMc, Cnt.constructed]; omega) rfl⟩

/-- move construction from a slot: the new object holds what the source held; the source stays alive
    (moved-from, or untouched for a copy-only type) -/
theorem moveC_slot_spec (k : Kind) {m : Mem} {i j ty : Nat} {w : Option Nat} (hi : m.slots[i]? = some .dead)
    (hj : m.slots[j]? = some (.live ty w)) :
    ∃ m', moveC k m i ty (.slot j) = .ok m' ∧ Eff m m' i j ∧ m'.slots[i]? = some (.live ty w) ∧
      ∃ u, m'.slots[j]? = some (.live ty u) := by
  have hij : i ≠ j := by
    intro e
    subst e
    rw [hi] at hj
    cases hj
  by_cases hk : k.mem = .co
  · rw [moveC_co hk]
    obtain ⟨m', h1, h2, h3⟩ := copyC_slot_spec hi hj
    exact ⟨m', h1, h2.weaken j, h3, w, by rw [h2.frame j (fun e => hij e.symm) (fun e => hij e.symm)]; exact hj⟩
  · cases hmc : k.tr.mc
    · -- trivial move constructor: the result is that of a copy construction, counted as a move
      have hji : j ≠ i := fun e => hij e.symm
      have e1 : Eff m (bumpMc (m.set i (.live ty w))) i i ∧ (bumpMc (m.set i (.live ty w))).slots[i]? = some (.live ty w) :=
        eff_construct hi ty w _ rfl (by simp [bumpMc, Cnt.constructed]; omega) rfl
      exact ⟨_, moveC_slot_eq_triv hk hmc hi hj, e1.1.weaken j, e1.2, w,
        by rw [e1.1.frame j hji hji]; exact hj⟩
    refine ⟨_, moveC_slot_eq hk hmc hi hj, ?_⟩
    have hj1 : (m.set i (.live ty w)).slots[j]? = some (.live ty w) := by
      rw [Mem.set_get_ne m (fun e => hij e.symm)]; exact hj
    have g2 : (bumpMc ((m.set i (.live ty w)).set j (.live ty none))).slots[j]? = some (.live ty none) := by
      simp only [bumpMc_slots]
      exact Mem.set_get_self hj1 _
    refine ⟨?_, ?_, none, g2⟩
    · refine ⟨by simp, fun x hx hy => ?_, fun hb => ?_⟩
      · simp only [bumpMc_slots]
        rw [Mem.set_get_ne _ hy, Mem.set_get_ne _ hx]
      · have hl : (bumpMc ((m.set i (.live ty w)).set j (.live ty none))).liveCount = m.liveCount + 1 := by
          have a1 := liveCount_set_dead_live hi ty w
          have a2 := liveCount_set_live_live hj1 ty none
          simp only [Mem.liveCount, bumpMc_slots] at *
          omega
        unfold Bal at *
        simp only [bumpMc, Cnt.constructed, Mem.set_cnt] at *
        omega
    · simp only [bumpMc_slots]
      rw [Mem.set_get_ne _ hij]
      exact Mem.set_get_self hi _

theorem copyA_ext_spec {m : Mem} {i ty : Nat} {w : Option Nat} (hi : m.slots[i]? = some (.live ty w)) (v : Nat) :
    ∃ m', copyA m i ty (.ext v) = .ok m' ∧ Eff m m' i i ∧ m'.slots[i]? = some (.live ty (some v)) :=
  ⟨_, copyA_ext_eq hi v, eff_assign hi ty (some v) _ rfl (by simp [bumpCa, Cnt.constructed]) rfl⟩

/-- copy assignment from a slot (`j = i` is the legal self-assignment) -/
theorem copyA_slot_spec {m : Mem} {i j ty : Nat} {w u : Option Nat} (hi : m.slots[i]? = some (.live ty w))
    (hj : m.slots[j]? = some (.live ty u)) :
    ∃ m', copyA m i ty (.slot j) = .ok m' ∧ Eff m m' i i ∧ m'.slots[i]? = some (.live ty u) :=
  ⟨_, copyA_slot_eq hi hj, eff_assign hi ty u _ rfl (by simp [bumpCa, Cnt.constructed]) rfl⟩

theorem moveA_ext_spec (k : Kind) {m : Mem} {i ty : Nat} {w : Option Nat}
    (hi : m.slots[i]? = some (.live ty w)) (v : Nat) :
    ∃ m', moveA k m i ty (.ext v) = .ok m' ∧ Eff m m' i i ∧ m'.slots[i]? = some (.live ty (some v)) := by
  by_cases hk : k.mem = .co
  · rw [moveA_co hk]
    exact copyA_ext_spec hi v
  · exact ⟨_, moveA_ext_eq hk hi v, eff_assign hi ty (some v) _ rfl (by simp [bumpMa, Cnt.constructed]) rfl⟩

/-- move assignment between two different live slots: the target holds what the source held; the
    source stays alive -/
theorem moveA_slot_spec (k : Kind) {m : Mem} {i j ty : Nat} {w u : Option Nat} (hij : i ≠ j)
    (hi : m.slots[i]? = some (.live ty w)) (hj : m.slots[j]? = some (.live ty u)) :
    ∃ m', moveA k m i ty (.slot j) = .ok m' ∧ Eff m m' i j ∧ m'.slots[i]? = some (.live ty u) ∧
      ∃ u', m'.slots[j]? = some (.live ty u') := by
  by_cases hk : k.mem = .co
  · rw [moveA_co hk]
    obtain ⟨m', h1, h2, h3⟩ := copyA_slot_spec hi hj
    exact ⟨m', h1, h2.weaken j, h3, u, by rw [h2.frame j (fun e => hij e.symm) (fun e => hij e.symm)]; exact hj⟩
  · cases hma : k.tr.ma
    · -- trivial move assignment: the result is that of a copy assignment, counted as a move
      have hji : j ≠ i := fun e => hij e.symm
      have e1 : Eff m (bumpMa (m.set i (.live ty u))) i i ∧ (bumpMa (m.set i (.live ty u))).slots[i]? = some (.live ty u) :=
        eff_assign hi ty u _ rfl (by simp [bumpMa, Cnt.constructed]) rfl
      exact ⟨_, moveA_slot_eq_triv hk hma hij hi hj, e1.1.weaken j, e1.2, u,
        by rw [e1.1.frame j hji hji]; exact hj⟩
    refine ⟨_, moveA_slot_eq hk hma hij hi hj, ?_⟩
    have hj1 : (m.set i (.live ty u)).slots[j]? = some (.live ty u) := by
      rw [Mem.set_get_ne m (fun e => hij e.symm)]; exact hj
    refine ⟨⟨by simp, fun x hx hy => ?_, fun hb => ?_⟩, ?_, none, ?_⟩
    · simp only [bumpMa_slots]
      rw [Mem.set_get_ne _ hy, Mem.set_get_ne _ hx]
    · have a1 := liveCount_set_live_live hi ty u
      have a2 := liveCount_set_live_live hj1 ty none
      unfold Bal at *
      simp only [Mem.liveCount, bumpMa, Cnt.constructed, Mem.set_cnt] at *
      omega
    · simp only [bumpMa_slots]
      rw [Mem.set_get_ne _ hij]
      exact Mem.set_get_self hi _
    · simp only [bumpMa_slots]
      exact Mem.set_get_self hj1 _

theorem destroyAt_spec {m : Mem} {i ty : Nat} {w : Option Nat} (hi : m.slots[i]? = some (.live ty w)) :
    ∃ m', destroyAt m i ty = .ok m' ∧ Eff m m' i i ∧ m'.slots[i]? = some .dead ∧
      m'.cnt.d = m.cnt.d + 1 ∧ m'.cnt.constructed = m.cnt.constructed := by
  refine ⟨_, destroyAt_eq hi, ⟨by simp, fun x hx _ => ?_, fun hb => ?_⟩, ?_, rfl, rfl⟩
  · simp only [bumpD_slots]
    exact Mem.set_get_ne m hx _
  · have a1 := liveCount_set_live_dead hi
    unfold Bal at *
    simp only [Mem.liveCount, bumpD, Cnt.constructed, Mem.set_cnt] at *
    omega
  · simp only [bumpD_slots]
    exact Mem.set_get_self hi _

/-! ### shapes -/

/-- the value-free view of a slot: `none` = raw storage, `some ty` = live object of type `ty` -/
def Slot.sh : Slot → Option Nat
  | .dead => none
  | .live ty _ => some ty

/-- shape of slot `x` (`none` outside the arena) -/
def Mem.sh (m : Mem) (x : Nat) : Option (Option Nat) := (m.slots[x]?).map Slot.sh

theorem sh_congr {m m' : Mem} {x : Nat} (h : m'.slots[x]? = m.slots[x]?) : m'.sh x = m.sh x := by
  simp [Mem.sh, h]

theorem sh_of_slot {m : Mem} {x : Nat} {s : Slot} (h : m.slots[x]? = some s) : m.sh x = some s.sh := by
  simp [Mem.sh, h]

theorem sh_dead_iff {m : Mem} {x : Nat} : m.sh x = some none ↔ m.slots[x]? = some .dead := by
  unfold Mem.sh
  cases h : m.slots[x]? with
  | none => simp
  | some s => cases s <;> simp [Slot.sh]

theorem sh_live_iff {m : Mem} {x ty : Nat} : m.sh x = some (some ty) ↔ ∃ v, m.slots[x]? = some (.live ty v) := by
  unfold Mem.sh
  cases h : m.slots[x]? with
  | none => simp
  | some s => cases s <;> simp [Slot.sh]

theorem sh_none_iff {m : Mem} {x : Nat} : m.sh x = none ↔ m.slots.length ≤ x := by
  unfold Mem.sh
  simp

/-- sources of a copy / move that are usable: a caller object, or a live slot of the right type -/
def Src.ok (m : Mem) (ty : Nat) : Src → Prop
  | .ext _ => True
  | .slot j => m.sh j = some (some ty)

def How.ok (m : Mem) (ty : Nat) : How → Prop
  | .copy s => s.ok m ty
  | .move s => s.ok m ty
  | .value _ => True

/-- any construction at a dead slot `i` makes exactly that slot alive -/
theorem emplaceAt_sh (k : Kind) {m : Mem} {i ty : Nat} {h : How} (hi : m.sh i = some none) (hh : h.ok m ty) :
    ∃ m', emplaceAt k m i ty h = .ok m' ∧ (∀ y, m'.sh y = if y = i then some (some ty) else m.sh y) ∧
      (Bal m → Bal m') := by
  have hi' := sh_dead_iff.mp hi
  have fin : ∀ (m' : Mem) (j : Nat), Eff m m' i j → (∃ v, m'.slots[i]? = some (.live ty v)) →
      (j ≠ i → ∃ v, m.slots[j]? = some (.live ty v)) → (j ≠ i → ∃ v, m'.slots[j]? = some (.live ty v)) →
      (∀ y, m'.sh y = if y = i then some (some ty) else m.sh y) ∧ (Bal m → Bal m') := by
    intro m' j e hv hj hj'
    refine ⟨fun y => ?_, e.bal⟩
    by_cases hy : y = i
    · subst hy
      simp only [if_true]
      exact sh_live_iff.mpr hv
    · simp only [hy, if_false]
      by_cases hyj : y = j
      · subst hyj
        rw [sh_live_iff.mpr (hj hy), sh_live_iff.mpr (hj' hy)]
      · exact sh_congr (e.frame y hy hyj)
  cases h with
  | value v =>
    obtain ⟨m', h1, h2, h3⟩ := valueC_spec hi' ty v
    exact ⟨m', h1, fin m' i h2 ⟨_, h3⟩ (fun c => absurd rfl c) (fun c => absurd rfl c)⟩
  | copy s =>
    cases s with
    | ext v =>
      obtain ⟨m', h1, h2, h3⟩ := copyC_ext_spec hi' ty v
      exact ⟨m', h1, fin m' i h2 ⟨_, h3⟩ (fun c => absurd rfl c) (fun c => absurd rfl c)⟩
    | slot j =>
      obtain ⟨w, hw⟩ := sh_live_iff.mp hh
      obtain ⟨m', h1, h2, h3⟩ := copyC_slot_spec hi' hw
      exact ⟨m', h1, fin m' i h2 ⟨_, h3⟩ (fun c => absurd rfl c) (fun c => absurd rfl c)⟩
  | move s =>
    cases s with
    | ext v =>
      obtain ⟨m', h1, h2, h3⟩ := moveC_ext_spec k hi' ty v
      exact ⟨m', h1, fin m' i h2 ⟨_, h3⟩ (fun c => absurd rfl c) (fun c => absurd rfl c)⟩
    | slot j =>
      obtain ⟨w, hw⟩ := sh_live_iff.mp hh
      obtain ⟨m', h1, h2, h3, h4⟩ := moveC_slot_spec k hi' hw
      exact ⟨m', h1, fin m' j h2 ⟨_, h3⟩ (fun _ => ⟨w, hw⟩) (fun _ => h4)⟩

/-- destruction of a live slot makes exactly that slot dead -/
theorem destroyAt_sh {m : Mem} {i ty : Nat} (hi : m.sh i = some (some ty)) :
    ∃ m', destroyAt m i ty = .ok m' ∧ (∀ y, m'.sh y = if y = i then some none else m.sh y) ∧
      (∀ x, x ≠ i → m'.slots[x]? = m.slots[x]?) ∧ (Bal m → Bal m') ∧
      m'.cnt.d = m.cnt.d + 1 ∧ m'.cnt.constructed = m.cnt.constructed := by
  obtain ⟨w, hw⟩ := sh_live_iff.mp hi
  obtain ⟨m', h1, h2, h3, h4, h5⟩ := destroyAt_spec hw
  refine ⟨m', h1, fun y => ?_, fun x hx => h2.frame x hx hx, h2.bal, h4, h5⟩
  by_cases hy : y = i
  · subst hy
    simp only [if_true]
    exact sh_dead_iff.mpr h3
  · simp only [hy, if_false]
    exact sh_congr (h2.frame y hy hy)

/-- move assignment between two different live slots keeps every shape; only the two slots change -/
theorem moveA_sh (k : Kind) {m : Mem} {i j ty : Nat} (hij : i ≠ j) (hi : m.sh i = some (some ty))
    (hj : m.sh j = some (some ty)) :
    ∃ m', moveA k m i ty (.slot j) = .ok m' ∧ (∀ y, m'.sh y = m.sh y) ∧
      (∀ x, x ≠ i → x ≠ j → m'.slots[x]? = m.slots[x]?) ∧ (Bal m → Bal m') := by
  obtain ⟨w, hw⟩ := sh_live_iff.mp hi
  obtain ⟨u, hu⟩ := sh_live_iff.mp hj
  obtain ⟨m', h1, h2, h3, h4⟩ := moveA_slot_spec k hij hw hu
  refine ⟨m', h1, fun y => ?_, h2.frame, h2.bal⟩
  by_cases hy : y = i
  · subst hy
    rw [hi]
    exact sh_live_iff.mpr ⟨_, h3⟩
  · by_cases hyj : y = j
    · subst hyj
      rw [hj]
      exact sh_live_iff.mpr h4
    · exact sh_congr (h2.frame y hy hyj)

/-- move construction from a live slot into a dead slot -/
theorem moveC_sh (k : Kind) {m : Mem} {i j ty : Nat} (hi : m.sh i = some none) (hj : m.sh j = some (some ty)) :
    ∃ m', moveC k m i ty (.slot j) = .ok m' ∧ (∀ y, m'.sh y = if y = i then some (some ty) else m.sh y) ∧
      (Bal m → Bal m') :=
  emplaceAt_sh k (h := .move (.slot j)) hi hj

end Tetl.C03
