/-
C03 — static_vector / inplace_vector: every valid operation succeeds on a state that satisfies the
owner invariant `VecInv` and re-establishes it (`vstep_inv`); the invariant holds in every reachable
state (`vreach_inv`); after both owners went out of scope nothing is alive and every constructed
object has been destroyed (`vfinish_ok`); `a.swap(a)` is the identity on the storage (`svSwapSelf_id`).

Method: all owner invariants are statements about the *shape* `Mem.sh` of the arena (Prim.lean).
Every model function gets one lemma "under the precondition the call returns `.ok` and the new shape
is this function of the old shape, and the balance is kept".  Values are tracked only where they
decide something: `constructRange` / `destroyRange` (for `svSwapSelf_id`) and `removeLoop` (for the
reads of `erase_if`).
-/
import TetlProofs.C03.Rotate
namespace Tetl.C03

/-- close a goal that is a tree of `if`s over linear arithmetic -/
macro "ifs" : tactic => `(tactic| ((repeat' split) <;> (first | rfl | omega)))

theorem len_of_sh {m m' : Mem} (h : ∀ y, m'.sh y = m.sh y) : m'.slots.length = m.slots.length := by
  have h1 : m'.slots.length ≤ m.slots.length := by
    apply sh_none_iff.mp
    rw [h]
    exact sh_none_iff.mpr (Nat.le_refl _)
  have h2 : m.slots.length ≤ m'.slots.length := by
    apply sh_none_iff.mp
    rw [← h]
    exact sh_none_iff.mpr (Nat.le_refl _)
  omega

theorem Src.ok_mono {m m' : Mem} {ty : Nat} (h : ∀ y, m.sh y = some (some ty) → m'.sh y = some (some ty))
    {s : Src} (hs : s.ok m ty) : s.ok m' ty := by
  cases s with
  | ext v => trivial
  | slot j => exact h j hs

theorem How.ok_mono {m m' : Mem} {ty : Nat} (h : ∀ y, m.sh y = some (some ty) → m'.sh y = some (some ty))
    {w : How} (hs : w.ok m ty) : w.ok m' ty := by
  cases w with
  | copy s => exact Src.ok_mono h hs
  | move s => exact Src.ok_mono h hs
  | value v => trivial

/-! ### loops -/

/-- destroying `cnt` live elements from slot `i` upwards -/
theorem destroyRange_ok : ∀ (cnt : Nat) (m : Mem) (i : Nat),
    (∀ y, i ≤ y → y < i + cnt → m.sh y = some (some 0)) →
    ∃ m', destroyRange m cnt i = .ok m' ∧
      (∀ y, m'.sh y = if i ≤ y ∧ y < i + cnt then some none else m.sh y) ∧
      (∀ x, (x < i ∨ i + cnt ≤ x) → m'.slots[x]? = m.slots[x]?) ∧ (Bal m → Bal m') := by
  intro cnt
  induction cnt with
  | zero =>
    intro m i _
    refine ⟨m, rfl, fun y => ?_, fun _ _ => rfl, id⟩
    have : ¬ (i ≤ y ∧ y < i + 0) := by omega
    simp only [this, if_false]
  | succ cnt ih =>
    intro m i hl
    obtain ⟨m1, r1, s1, f1, b1, _, _⟩ := destroyAt_sh (hl i (Nat.le_refl _) (by omega))
    obtain ⟨m2, r2, s2, f2, b2⟩ := ih m1 (i + 1) (fun y h1 h2 => by
      rw [s1 y, if_neg (by omega)]
      exact hl y (by omega) (by omega))
    refine ⟨m2, by simp [destroyRange, r1, r2], fun y => ?_, fun x hx => ?_, fun hb => b2 (b1 hb)⟩
    · rw [s2 y, s1 y]
      ifs
    · rw [f2 x (by omega), f1 x (by omega)]

/-- one construction `dst ← src` of `uninitialized_copy` / `uninitialized_move` -/
theorem construct1 (k : Kind) (mv : Bool) {m : Mem} {dst src : Nat} (hd : m.sh dst = some none)
    (hs : m.sh src = some (some 0)) :
    ∃ m1, (if mv then moveC k m dst 0 (.slot src) else copyC m dst 0 (.slot src)) = .ok m1 ∧
      (∀ y, m1.sh y = if y = dst then some (some 0) else m.sh y) ∧ m1.slots[dst]? = m.slots[src]? ∧
      (∀ x, x ≠ dst → x ≠ src → m1.slots[x]? = m.slots[x]?) ∧ (Bal m → Bal m1) := by
  have hd' := sh_dead_iff.mp hd
  obtain ⟨w, hw⟩ := sh_live_iff.mp hs
  have hne : src ≠ dst := by
    intro e
    rw [e, hd] at hs
    cases hs
  have core : ∀ m1 : Mem, Eff m m1 dst src → m1.slots[dst]? = some (.live 0 w) →
      (∃ u, m1.slots[src]? = some (.live 0 u)) →
      (∀ y, m1.sh y = if y = dst then some (some 0) else m.sh y) ∧ m1.slots[dst]? = m.slots[src]? ∧
      (∀ x, x ≠ dst → x ≠ src → m1.slots[x]? = m.slots[x]?) ∧ (Bal m → Bal m1) := by
    intro m1 e a b
    refine ⟨fun y => ?_, by rw [a, hw], e.frame, e.bal⟩
    by_cases hy : y = dst
    · subst hy
      simp only [if_true]
      exact sh_live_iff.mpr ⟨_, a⟩
    · simp only [hy, if_false]
      by_cases hys : y = src
      · subst hys
        rw [hs]
        exact sh_live_iff.mpr b
      · exact sh_congr (e.frame y hy hys)
  cases mv with
  | true =>
    obtain ⟨m1, r, e, a, b⟩ := moveC_slot_spec k hd' hw
    exact ⟨m1, by simpa using r, core m1 e a b⟩
  | false =>
    obtain ⟨m1, r, e, a⟩ := copyC_slot_spec hd' hw
    refine ⟨m1, by simpa using r, core m1 (e.weaken src) a ⟨w, ?_⟩⟩
    rw [e.frame src hne hne]
    exact hw

/-- `cnt` constructions `dst+t ← src+t` from live elements into raw storage: the new elements hold
    what the sources held, the sources stay alive, nothing else changes -/
theorem constructRange_ok (k : Kind) (mv : Bool) : ∀ (cnt : Nat) (m : Mem) (dst src : Nat),
    (∀ y, src ≤ y → y < src + cnt → m.sh y = some (some 0)) →
    (∀ y, dst ≤ y → y < dst + cnt → m.sh y = some none) →
    ∃ m', constructRange k mv m cnt dst src = .ok m' ∧
      (∀ y, m'.sh y = if dst ≤ y ∧ y < dst + cnt then some (some 0) else m.sh y) ∧
      (∀ t, t < cnt → m'.slots[dst + t]? = m.slots[src + t]?) ∧
      (∀ x, ¬ (dst ≤ x ∧ x < dst + cnt) → ¬ (src ≤ x ∧ x < src + cnt) → m'.slots[x]? = m.slots[x]?) ∧
      (Bal m → Bal m') := by
  intro cnt
  induction cnt with
  | zero =>
    intro m dst src _ _
    refine ⟨m, rfl, fun y => ?_, fun t ht => by omega, fun _ _ _ => rfl, id⟩
    have : ¬ (dst ≤ y ∧ y < dst + 0) := by omega
    simp only [this, if_false]
  | succ cnt ih =>
    intro m dst src hl hdd
    have hs0 := hl src (Nat.le_refl _) (by omega)
    have hd0 := hdd dst (Nat.le_refl _) (by omega)
    -- a slot cannot be in both ranges
    have disj : ∀ y, src ≤ y → y < src + (cnt + 1) → dst ≤ y → y < dst + (cnt + 1) → False := by
      intro y a b c d
      have h1 := hl y a b
      rw [hdd y c d] at h1
      cases h1
    obtain ⟨m1, r1, s1, v1, f1, b1⟩ := construct1 k mv hd0 hs0
    obtain ⟨m2, r2, s2, v2, f2, b2⟩ := ih m1 (dst + 1) (src + 1)
      (fun y h1 h2 => by
        rw [s1 y]
        split
        · rfl
        · exact hl y (by omega) (by omega))
      (fun y h1 h2 => by
        rw [s1 y, if_neg (by omega)]
        exact hdd y (by omega) (by omega))
    refine ⟨m2, ?_, fun y => ?_, fun t ht => ?_, fun x hx hy => ?_, fun hb => b2 (b1 hb)⟩
    · simp only [constructRange]
      rw [r1]
      exact r2
    · rw [s2 y, s1 y]
      ifs
    · cases t with
      | zero =>
        have hnd : ¬ (src + 1 ≤ dst ∧ dst < src + 1 + cnt) := fun h =>
          disj dst (by omega) (by omega) (Nat.le_refl _) (by omega)
        rw [Nat.add_zero, Nat.add_zero, f2 dst (by omega) hnd, v1]
      | succ t =>
        have hne1 : src + (t + 1) ≠ dst := fun e =>
          disj dst (by omega) (by omega) (Nat.le_refl _) (by omega)
        have := v2 t (by omega)
        rw [show dst + 1 + t = dst + (t + 1) by omega, show src + 1 + t = src + (t + 1) by omega] at this
        rw [this, f1 _ hne1 (by omega)]
    · by_cases hxd : x = dst
      · omega
      · by_cases hxs : x = src
        · omega
        · rw [f2 x (by omega) (by omega), f1 x hxd hxs]

/-- `etl::move(first, last, dest)` to a lower position inside a range of live elements -/
theorem moveDown_ok (k : Kind) : ∀ (cnt : Nat) (m : Mem) (src dst : Nat), dst < src →
    (∀ y, dst ≤ y → y < src + cnt → m.sh y = some (some 0)) →
    ∃ m', moveDown k m cnt src dst = .ok m' ∧ (∀ y, m'.sh y = m.sh y) ∧ (Bal m → Bal m') := by
  intro cnt
  induction cnt with
  | zero => intro m src dst _ _; exact ⟨m, rfl, fun _ => rfl, id⟩
  | succ cnt ih =>
    intro m src dst hlt hl
    obtain ⟨m1, r1, s1, _, b1⟩ := moveA_sh k (i := dst) (j := src) (by omega) (hl dst (Nat.le_refl _) (by omega))
      (hl src (by omega) (by omega))
    obtain ⟨m2, r2, s2, b2⟩ := ih m1 (src + 1) (dst + 1) (by omega) (fun y h1 h2 => by
      rw [s1 y]
      exact hl y (by omega) (by omega))
    exact ⟨m2, by simp [moveDown, r1, r2], fun y => by rw [s2 y, s1 y], fun hb => b2 (b1 hb)⟩

/-! ### one vector: storage `[base, base+cap)`, size `n` -/

/-- the vector at `base` has size `n`: exactly its first `n` slots are alive -/
def VecAt (m : Mem) (base cap n : Nat) : Prop :=
  ∀ y, base ≤ y → y < base + cap → m.sh y = if y < base + n then some (some 0) else some none

/-- `m'` has the shape of `m` except that the vector at `base` now has size `n'` -/
def VecUpd (m m' : Mem) (base cap n' : Nat) : Prop :=
  ∀ y, m'.sh y = if base ≤ y ∧ y < base + cap then (if y < base + n' then some (some 0) else some none)
    else m.sh y

/-- result of a member function of the vector at `base`: new size within capacity, new shape, balance -/
structure VRes (cap base : Nat) (m m' : Mem) (n' : Nat) : Prop where
  le : n' ≤ cap
  upd : VecUpd m m' base cap n'
  bal : Bal m → Bal m'

theorem VecUpd.at {m m' : Mem} {base cap n' : Nat} (h : VecUpd m m' base cap n') : VecAt m' base cap n' := by
  intro y h1 h2
  rw [h y, if_pos ⟨h1, h2⟩]

theorem VecUpd.out {m m' : Mem} {base cap n' : Nat} (h : VecUpd m m' base cap n') {y : Nat}
    (hy : y < base ∨ base + cap ≤ y) : m'.sh y = m.sh y := by
  rw [h y, if_neg (by omega)]

theorem VRes.refl {m : Mem} {base cap n : Nat} (hv : VecAt m base cap n) (hn : n ≤ cap) : VRes cap base m m n := by
  refine ⟨hn, fun y => ?_, id⟩
  by_cases hy : base ≤ y ∧ y < base + cap
  · rw [if_pos hy]
    exact hv y hy.1 hy.2
  · rw [if_neg hy]

theorem VRes.trans {m m1 m2 : Mem} {base cap n1 n2 : Nat} (h1 : VRes cap base m m1 n1)
    (h2 : VRes cap base m1 m2 n2) : VRes cap base m m2 n2 := by
  refine ⟨h2.le, fun y => ?_, fun hb => h2.bal (h1.bal hb)⟩
  rw [h2.upd y, h1.upd y]
  ifs

/-- a shape-preserving step in front of a result -/
theorem VRes.of_keep {m m1 m2 : Mem} {base cap n2 : Nat} (hs : ∀ y, m1.sh y = m.sh y) (hb : Bal m → Bal m1)
    (h2 : VRes cap base m1 m2 n2) : VRes cap base m m2 n2 := by
  refine ⟨h2.le, fun y => ?_, fun h => h2.bal (hb h)⟩
  rw [h2.upd y, hs y]

/-- leaf of a case analysis that proves a `VecUpd` from `hv : VecAt m base cap n` -/
macro "vec_leaf" hv:term "," y:term : tactic =>
  `(tactic| first | rfl | omega | (rw [$hv $y (by omega) (by omega)]; ifs))

theorem VecAt.live {m : Mem} {base cap n : Nat} (hv : VecAt m base cap n) (hn : n ≤ cap) {y : Nat}
    (h1 : base ≤ y) (h2 : y < base + n) : m.sh y = some (some 0) := by
  rw [hv y h1 (by omega), if_pos h2]

theorem VecAt.dead {m : Mem} {base cap n : Nat} (hv : VecAt m base cap n) {y : Nat}
    (h1 : base + n ≤ y) (h2 : y < base + cap) : m.sh y = some none := by
  rw [hv y (by omega) h2, if_neg (by omega)]

/-- a construction at `end()` -/
theorem vres_push {m m' : Mem} {base cap n : Nat} (hv : VecAt m base cap n) (hlt : n < cap)
    (hs : ∀ y, m'.sh y = if y = base + n then some (some 0) else m.sh y) (hb : Bal m → Bal m') :
    VRes cap base m m' (n + 1) := by
  refine ⟨hlt, fun y => ?_, hb⟩
  rw [hs y]
  (repeat' split) <;> vec_leaf hv, y

theorem svEmplaceBack_ok (k : Kind) {cap base : Nat} {m : Mem} {n : Nat} {h : How} (hlt : n < cap)
    (hd : m.sh (base + n) = some none) (hh : h.ok m 0) :
    ∃ m', svEmplaceBack k cap base m n h = .ok (m', n + 1) ∧
      (∀ y, m'.sh y = if y = base + n then some (some 0) else m.sh y) ∧ (Bal m → Bal m') := by
  obtain ⟨m', r, s, b⟩ := emplaceAt_sh k hd hh
  exact ⟨m', by simp [svEmplaceBack, Nat.not_le.mpr hlt, r], s, b⟩

theorem svPopBack_ok {cap base : Nat} {m : Mem} {n : Nat} (hv : VecAt m base cap n) (hn : n ≤ cap)
    (hpos : 0 < n) : ∃ m', svPopBack base m n = .ok (m', n - 1) ∧ VRes cap base m m' (n - 1) := by
  obtain ⟨m', r, s, _, b, _, _⟩ := destroyAt_sh (hv.live hn (y := base + n - 1) (by omega) (by omega))
  refine ⟨m', by simp [svPopBack, Nat.ne_of_gt hpos, r], by omega, fun y => ?_, b⟩
  rw [s y]
  (repeat' split) <;> vec_leaf hv, y

theorem svPushN_ok (k : Kind) (cap base : Nat) (h : How) : ∀ (cnt : Nat) (m : Mem) (n : Nat), n + cnt ≤ cap →
    (∀ y, base + n ≤ y → y < base + n + cnt → m.sh y = some none) → h.ok m 0 →
    ∃ m', svPushN k cap base h cnt m n = .ok (m', n + cnt) ∧
      (∀ y, m'.sh y = if base + n ≤ y ∧ y < base + n + cnt then some (some 0) else m.sh y) ∧
      (Bal m → Bal m') := by
  intro cnt
  induction cnt with
  | zero =>
    intro m n _ _ _
    refine ⟨m, rfl, fun y => ?_, id⟩
    rw [if_neg (by omega)]
  | succ cnt ih =>
    intro m n hc hd hh
    obtain ⟨m1, r1, s1, b1⟩ := svEmplaceBack_ok k (cap := cap) (by omega) (hd (base + n) (by omega) (by omega)) hh
    obtain ⟨m2, r2, s2, b2⟩ := ih m1 (n + 1) (by omega)
      (fun y h1 h2 => by rw [s1 y, if_neg (by omega)]; exact hd y (by omega) (by omega))
      (How.ok_mono (fun y hy => by rw [s1 y]; split; rfl; exact hy) hh)
    have e : n + 1 + cnt = n + (cnt + 1) := by omega
    rw [e] at r2
    refine ⟨m2, by simp [svPushN, r1, r2], fun y => ?_, fun hb => b2 (b1 hb)⟩
    rw [s2 y, s1 y]
    ifs

theorem svPushList_ok (k : Kind) (cap base : Nat) : ∀ (xs : List Nat) (m : Mem) (n : Nat), n + xs.length ≤ cap →
    (∀ y, base + n ≤ y → y < base + n + xs.length → m.sh y = some none) →
    ∃ m', svPushList k cap base xs m n = .ok (m', n + xs.length) ∧
      (∀ y, m'.sh y = if base + n ≤ y ∧ y < base + n + xs.length then some (some 0) else m.sh y) ∧
      (Bal m → Bal m') := by
  intro xs
  induction xs with
  | nil =>
    intro m n _ _
    refine ⟨m, rfl, fun y => ?_, id⟩
    rw [if_neg (by simp only [List.length_nil]; omega)]
  | cons x xs ih =>
    intro m n hc hd
    simp only [List.length_cons] at hc hd ⊢
    obtain ⟨m1, r1, s1, b1⟩ := svEmplaceBack_ok k (cap := cap) (h := .copy (.ext x)) (by omega)
      (hd (base + n) (by omega) (by omega)) trivial
    obtain ⟨m2, r2, s2, b2⟩ := ih m1 (n + 1) (by omega)
      (fun y h1 h2 => by rw [s1 y, if_neg (by omega)]; exact hd y (by omega) (by omega))
    have e : n + 1 + xs.length = n + (xs.length + 1) := by omega
    rw [e] at r2
    refine ⟨m2, by simp [svPushList, r1, r2], fun y => ?_, fun hb => b2 (b1 hb)⟩
    rw [s2 y, s1 y]
    ifs

theorem svPushValues_ok (k : Kind) (cap base : Nat) : ∀ (xs : List Nat) (m : Mem) (n : Nat), n + xs.length ≤ cap →
    (∀ y, base + n ≤ y → y < base + n + xs.length → m.sh y = some none) →
    ∃ m', svPushValues k cap base xs m n = .ok (m', n + xs.length) ∧
      (∀ y, m'.sh y = if base + n ≤ y ∧ y < base + n + xs.length then some (some 0) else m.sh y) ∧
      (Bal m → Bal m') := by
  intro xs
  induction xs with
  | nil =>
    intro m n _ _
    refine ⟨m, rfl, fun y => ?_, id⟩
    rw [if_neg (by simp only [List.length_nil]; omega)]
  | cons x xs ih =>
    intro m n hc hd
    simp only [List.length_cons] at hc hd ⊢
    obtain ⟨m1, r1, s1, b1⟩ := svEmplaceBack_ok k (cap := cap) (h := .value x) (by omega)
      (hd (base + n) (by omega) (by omega)) trivial
    obtain ⟨m2, r2, s2, b2⟩ := ih m1 (n + 1) (by omega)
      (fun y h1 h2 => by rw [s1 y, if_neg (by omega)]; exact hd y (by omega) (by omega))
    have e : n + 1 + xs.length = n + (xs.length + 1) := by omega
    rw [e] at r2
    refine ⟨m2, by simp [svPushValues, r1, r2], fun y => ?_, fun hb => b2 (b1 hb)⟩
    rw [s2 y, s1 y]
    ifs

/-- `cnt` elements appended, then rotated into position: the shape is that of the appended vector -/
theorem insert_tail (k : Kind) {cap base tmp : Nat} {m m1 : Mem} {n pos cnt : Nat} (hv : VecAt m base cap n)
    (hpos : pos ≤ n) (hcap : n + cnt ≤ cap) (htmp : m.sh tmp = some none) (hto : tmp < base ∨ base + cap ≤ tmp)
    (s1 : ∀ y, m1.sh y = if base + n ≤ y ∧ y < base + n + cnt then some (some 0) else m.sh y)
    (b1 : Bal m → Bal m1) :
    ∃ m2, rotateEv k base tmp m1 pos n (n + cnt) = .ok m2 ∧ VRes cap base m m2 (n + cnt) := by
  obtain ⟨m2, r2, k2⟩ := rotateEv_keep k base tmp m1 pos n (n + cnt) hpos (by omega) (by omega)
    (fun y h1 h2 => by
      rw [s1 y]
      split
      · rfl
      · exact hv.live (by omega) (by omega) (by omega))
    (by rw [s1 tmp, if_neg (by omega)]; exact htmp)
  refine ⟨m2, r2, hcap, fun y => ?_, fun hb => k2.bal (b1 hb)⟩
  rw [k2.sh y, s1 y]
  (repeat' split) <;> vec_leaf hv, y

theorem svInsertN_ok (k : Kind) {cap base tmp : Nat} {m : Mem} {n pos cnt : Nat} (x : Nat)
    (hv : VecAt m base cap n) (hpos : pos ≤ n) (hcap : n + cnt ≤ cap) (htmp : m.sh tmp = some none)
    (hto : tmp < base ∨ base + cap ≤ tmp) :
    ∃ m', svInsertN k cap base tmp m n pos cnt x = .ok (m', n + cnt) ∧ VRes cap base m m' (n + cnt) := by
  obtain ⟨m1, r1, s1, b1⟩ := svPushN_ok k cap base (.copy (.ext x)) cnt m n hcap
    (fun y h1 h2 => hv.dead h1 (by omega)) trivial
  obtain ⟨m2, r2, v2⟩ := insert_tail k hv hpos hcap htmp hto s1 b1
  exact ⟨m2, by simp [svInsertN, Nat.not_lt.mpr hpos, Nat.not_lt.mpr hcap, r1, r2], v2⟩

theorem svInsertList_ok (k : Kind) {cap base tmp : Nat} {m : Mem} {n pos : Nat} (xs : List Nat)
    (hv : VecAt m base cap n) (hpos : pos ≤ n) (hcap : n + xs.length ≤ cap) (htmp : m.sh tmp = some none)
    (hto : tmp < base ∨ base + cap ≤ tmp) :
    ∃ m', svInsertList k cap base tmp m n pos xs = .ok (m', n + xs.length) ∧
      VRes cap base m m' (n + xs.length) := by
  obtain ⟨m1, r1, s1, b1⟩ := svPushList_ok k cap base xs m n hcap (fun y h1 h2 => hv.dead h1 (by omega))
  obtain ⟨m2, r2, v2⟩ := insert_tail k hv hpos hcap htmp hto s1 b1
  exact ⟨m2, by simp [svInsertList, Nat.not_lt.mpr hpos, Nat.not_lt.mpr hcap, r1, r2], v2⟩

theorem svMoveInsert1_ok (k : Kind) {cap base tmp : Nat} {m : Mem} {n pos : Nat} {s : Src}
    (hv : VecAt m base cap n) (hlt : n < cap) (hpos : pos ≤ n) (hs : s.ok m 0) (htmp : m.sh tmp = some none)
    (hto : tmp < base ∨ base + cap ≤ tmp) :
    ∃ m', svMoveInsert1 k cap base tmp m n pos s = .ok (m', n + 1) ∧
      (∀ y, m'.sh y = if y = base + n then some (some 0) else m.sh y) ∧ (Bal m → Bal m') := by
  obtain ⟨m1, r1, s1, b1⟩ := svEmplaceBack_ok k (cap := cap) (base := base) (h := .move s) hlt
    (hv.dead (Nat.le_refl _) (by omega)) hs
  obtain ⟨m2, r2, k2⟩ := rotateEv_keep k base tmp m1 pos n (n + 1) hpos (by omega) (by omega)
    (fun y h1 h2 => by
      rw [s1 y]
      split
      · rfl
      · exact hv.live (by omega) (by omega) (by omega))
    (by rw [s1 tmp, if_neg (by omega)]; exact htmp)
  refine ⟨m2, by simp [svMoveInsert1, Nat.not_le.mpr hlt, Nat.not_lt.mpr hpos, r1, r2], fun y => ?_,
    fun hb => k2.bal (b1 hb)⟩
  rw [k2.sh y, s1 y]

/-- a local element object is built in the dead slot `loc`, something that keeps its shape and makes
    `base+n` alive happens, and the local is destroyed: overall only `base+n` changes shape -/
theorem local_wrap {m m1 m2 m3 : Mem} {loc p : Nat} (hloc : m.sh loc = some none) (hp : loc ≠ p)
    (s1 : ∀ y, m1.sh y = if y = loc then some (some 0) else m.sh y)
    (s2 : ∀ y, m2.sh y = if y = p then some (some 0) else m1.sh y)
    (s3 : ∀ y, m3.sh y = if y = loc then some none else m2.sh y) :
    ∀ y, m3.sh y = if y = p then some (some 0) else m.sh y := by
  intro y
  rw [s3 y, s2 y, s1 y]
  by_cases hy : y = loc
  · subst hy
    rw [if_pos rfl, if_neg hp, hloc]
  · rw [if_neg hy, if_neg hy]

theorem svEmplace_ok (k : Kind) {cap base tmp loc : Nat} {m : Mem} {n pos : Nat} {h : How}
    (hv : VecAt m base cap n) (hlt : n < cap) (hpos : pos ≤ n) (hh : h.ok m 0) (htmp : m.sh tmp = some none)
    (hto : tmp < base ∨ base + cap ≤ tmp) (hloc : m.sh loc = some none) (hlo : loc < base ∨ base + cap ≤ loc)
    (hlt' : loc ≠ tmp) :
    ∃ m', svEmplace k cap base tmp loc m n pos h = .ok (m', n + 1) ∧
      (∀ y, m'.sh y = if y = base + n then some (some 0) else m.sh y) ∧ (Bal m → Bal m') := by
  obtain ⟨m1, r1, s1, b1⟩ := emplaceAt_sh k hloc hh
  have hv1 : VecAt m1 base cap n := fun y h1 h2 => by rw [s1 y, if_neg (by omega)]; exact hv y h1 h2
  obtain ⟨m2, r2, s2, b2⟩ := svMoveInsert1_ok k (s := .slot loc) (tmp := tmp) hv1 hlt hpos
    (by show m1.sh loc = _; rw [s1 loc, if_pos rfl])
    (by rw [s1 tmp, if_neg (fun e => hlt' e.symm)]; exact htmp) hto
  obtain ⟨m3, r3, s3, _, b3, _, _⟩ := destroyAt_sh (m := m2) (i := loc) (ty := 0)
    (by rw [s2 loc, if_neg (by omega), s1 loc, if_pos rfl])
  exact ⟨m3, by simp [svEmplace, Nat.not_le.mpr hlt, Nat.not_lt.mpr hpos, r1, r2, r3],
    local_wrap hloc (by omega) s1 s2 s3, fun hb => b3 (b2 (b1 hb))⟩

theorem svErase_ok (k : Kind) {cap base : Nat} {m : Mem} {n first last : Nat} (hv : VecAt m base cap n)
    (hn : n ≤ cap) (h1 : first ≤ last) (h2 : last ≤ n) :
    ∃ m', svErase k base m n first last = .ok (m', n - (last - first)) ∧
      VRes cap base m m' (n - (last - first)) := by
  have c1 : ¬ n < first := by omega
  have c2 : ¬ n < last := by omega
  have c3 : ¬ last < first := by omega
  by_cases he : first = last
  · have e : n - (last - first) = n := by omega
    rw [e]
    exact ⟨m, by simp [svErase, c2, he], VRes.refl hv hn⟩
  · obtain ⟨m1, r1, s1, b1⟩ := moveDown_ok k (n - last) m (base + last) (base + first) (by omega)
      (fun y a b => hv.live hn (by omega) (by omega))
    obtain ⟨m2, r2, s2, _, b2⟩ := destroyRange_ok (last - first) m1 (base + (n - (last - first)))
      (fun y a b => by rw [s1 y]; exact hv.live hn (by omega) (by omega))
    refine ⟨m2, by simp [svErase, c1, c2, c3, he, r1, r2], by omega, fun y => ?_, fun hb => b2 (b1 hb)⟩
    rw [s2 y, s1 y]
    (repeat' split) <;> vec_leaf hv, y

theorem svEraseAt_ok (k : Kind) {cap base : Nat} {m : Mem} {n pos : Nat} (hv : VecAt m base cap n)
    (hn : n ≤ cap) (hp : pos < n) :
    ∃ m' n', svEraseAt k base m n pos = .ok (m', n') ∧ VRes cap base m m' n' := by
  obtain ⟨m', r, v⟩ := svErase_ok k (first := pos) (last := pos + 1) hv hn (by omega) (by omega)
  exact ⟨m', _, by simp only [svEraseAt, Nat.not_le.mpr hp, if_false]; exact r, v⟩

theorem svClear_ok {cap base : Nat} {m : Mem} {n : Nat} (hv : VecAt m base cap n) (hn : n ≤ cap) :
    ∃ m', svClear base m n = .ok (m', 0) ∧ VRes cap base m m' 0 ∧
      (∀ x, (x < base ∨ base + n ≤ x) → m'.slots[x]? = m.slots[x]?) := by
  obtain ⟨m1, r1, s1, f1, b1⟩ := destroyRange_ok n m base (fun y a b => hv.live hn a b)
  refine ⟨m1, by simp [svClear, r1], ⟨Nat.zero_le _, fun y => ?_, b1⟩, f1⟩
  rw [s1 y]
  (repeat' split) <;> vec_leaf hv, y

/-- `emplace_back(T{})`: a temporary in `loc`, moved to `end()`, destroyed -/
theorem svEmplaceN_ok (k : Kind) (cap base loc : Nat) : ∀ (cnt : Nat) (m : Mem) (n : Nat), n + cnt ≤ cap →
    (∀ y, base + n ≤ y → y < base + n + cnt → m.sh y = some none) → m.sh loc = some none →
    (loc < base ∨ base + cap ≤ loc) →
    ∃ m', svEmplaceN k cap base loc cnt m n = .ok (m', n + cnt) ∧
      (∀ y, m'.sh y = if base + n ≤ y ∧ y < base + n + cnt then some (some 0) else m.sh y) ∧
      (Bal m → Bal m') := by
  intro cnt
  induction cnt with
  | zero =>
    intro m n _ _ _ _
    refine ⟨m, rfl, fun y => ?_, id⟩
    rw [if_neg (by omega)]
  | succ cnt ih =>
    intro m n hc hd hloc hlo
    obtain ⟨m1, r1, s1, b1⟩ := emplaceAt_sh k (m := m) (i := loc) (ty := 0) (h := .value 0) hloc trivial
    have r1' : valueC m loc 0 0 = .ok m1 := r1
    obtain ⟨m2, r2, s2, b2⟩ := svEmplaceBack_ok k (cap := cap) (base := base) (m := m1) (n := n)
      (h := .move (.slot loc)) (by omega)
      (by rw [s1 _, if_neg (by omega)]; exact hd _ (by omega) (by omega))
      (by show m1.sh loc = _; rw [s1 loc, if_pos rfl])
    obtain ⟨m3, r3, s3, _, b3, _, _⟩ := destroyAt_sh (m := m2) (i := loc) (ty := 0)
      (by rw [s2 loc, if_neg (by omega), s1 loc, if_pos rfl])
    have s3' := local_wrap hloc (p := base + n) (by omega) s1 s2 s3
    obtain ⟨m4, r4, s4, b4⟩ := ih m3 (n + 1) (by omega)
      (fun y h1 h2 => by rw [s3' y, if_neg (by omega)]; exact hd y (by omega) (by omega))
      (by rw [s3' loc, if_neg (by omega)]; exact hloc) hlo
    have e : n + 1 + cnt = n + (cnt + 1) := by omega
    rw [e] at r4
    refine ⟨m4, by simp [svEmplaceN, r1', r2, r3, r4], fun y => ?_, fun hb => b4 (b3 (b2 (b1 hb)))⟩
    rw [s4 y, s3' y]
    ifs

theorem svResize_ok (k : Kind) {cap base loc : Nat} {m : Mem} {n sz : Nat} (hv : VecAt m base cap n)
    (hn : n ≤ cap) (hsz : sz ≤ cap) (hloc : m.sh loc = some none) (hlo : loc < base ∨ base + cap ≤ loc) :
    ∃ m' n', svResize k cap base loc m n sz = .ok (m', n') ∧ VRes cap base m m' n' := by
  by_cases e : sz = n
  · exact ⟨m, n, by simp [svResize, e], VRes.refl hv hn⟩
  by_cases g : sz > n
  · obtain ⟨m1, r1, s1, b1⟩ := svEmplaceN_ok k cap base loc (sz - n) m n (by omega)
      (fun y h1 h2 => hv.dead h1 (by omega)) hloc hlo
    refine ⟨m1, _, by simp only [svResize, e, g, Nat.not_lt.mpr hsz, if_true, if_false]; exact r1,
      by omega, fun y => ?_, b1⟩
    rw [s1 y]
    (repeat' split) <;> vec_leaf hv, y
  · obtain ⟨m1, r1, v1⟩ := svErase_ok k (first := sz) (last := n) hv hn (by omega) (Nat.le_refl _)
    exact ⟨m1, _, by simp only [svResize, e, g, if_false]; exact r1, v1⟩

theorem svResizeV_ok (k : Kind) {cap base tmp : Nat} {m : Mem} {n sz : Nat} (x : Nat) (hv : VecAt m base cap n)
    (hn : n ≤ cap) (hsz : sz ≤ cap) (htmp : m.sh tmp = some none) (hto : tmp < base ∨ base + cap ≤ tmp) :
    ∃ m' n', svResizeV k cap base tmp m n sz x = .ok (m', n') ∧ VRes cap base m m' n' := by
  by_cases e : sz = n
  · exact ⟨m, n, by simp [svResizeV, e], VRes.refl hv hn⟩
  by_cases g : sz > n
  · obtain ⟨m1, r1, v1⟩ := svInsertN_ok k (pos := n) (cnt := sz - n) x hv (Nat.le_refl _) (by omega) htmp hto
    exact ⟨m1, _, by simp only [svResizeV, e, g, Nat.not_lt.mpr hsz, if_true, if_false]; exact r1, v1⟩
  · obtain ⟨m1, r1, v1⟩ := svErase_ok k (first := sz) (last := n) hv hn (by omega) (Nat.le_refl _)
    exact ⟨m1, _, by simp only [svResizeV, e, g, if_false]; exact r1, v1⟩

theorem svAssignN_ok (k : Kind) {cap base tmp : Nat} {m : Mem} {n cnt : Nat} (x : Nat) (hv : VecAt m base cap n)
    (hn : n ≤ cap) (hcnt : cnt ≤ cap) (htmp : m.sh tmp = some none) (hto : tmp < base ∨ base + cap ≤ tmp) :
    ∃ m' n', svAssignN k cap base tmp m n cnt x = .ok (m', n') ∧ VRes cap base m m' n' := by
  obtain ⟨m1, r1, v1, _⟩ := svClear_ok hv hn
  obtain ⟨m2, r2, v2⟩ := svInsertN_ok k (pos := 0) (cnt := cnt) x v1.upd.at (Nat.le_refl _) (by omega)
    (by rw [v1.upd.out hto]; exact htmp) hto
  exact ⟨m2, _, by simp only [svAssignN, Nat.not_lt.mpr hcnt, if_false, r1]; exact r2, v1.trans v2⟩

theorem svAssignList_ok (k : Kind) {cap base tmp : Nat} {m : Mem} {n : Nat} (xs : List Nat)
    (hv : VecAt m base cap n) (hn : n ≤ cap) (hcnt : xs.length ≤ cap) (htmp : m.sh tmp = some none)
    (hto : tmp < base ∨ base + cap ≤ tmp) :
    ∃ m' n', svAssignList k cap base tmp m n xs = .ok (m', n') ∧ VRes cap base m m' n' := by
  obtain ⟨m1, r1, v1, _⟩ := svClear_ok hv hn
  obtain ⟨m2, r2, v2⟩ := svInsertList_ok k (pos := 0) xs v1.upd.at (Nat.le_refl _) (by omega)
    (by rw [v1.upd.out hto]; exact htmp) hto
  exact ⟨m2, _, by simp only [svAssignList, Nat.not_lt.mpr hcnt, if_false, r1]; exact r2, v1.trans v2⟩

theorem svCtorN_ok (k : Kind) {cap base loc : Nat} {m : Mem} {n sz : Nat} (hv : VecAt m base cap n)
    (hn : n ≤ cap) (hsz : sz ≤ cap) (hloc : m.sh loc = some none) (hlo : loc < base ∨ base + cap ≤ loc) :
    ∃ m' n', svCtorN k cap base loc m n sz = .ok (m', n') ∧ VRes cap base m m' n' := by
  obtain ⟨m1, r1, v1, _⟩ := svClear_ok hv hn
  have hv1 := v1.upd.at
  obtain ⟨m2, r2, s2, b2⟩ := svEmplaceN_ok k cap base loc sz m1 0 (by omega)
    (fun y h1 h2 => hv1.dead h1 (by omega)) (by rw [v1.upd.out hlo]; exact hloc) hlo
  refine ⟨m2, _, by simp only [svCtorN, r1, Nat.not_lt.mpr hsz, if_false]; exact r2, v1.trans ⟨by omega, fun y => ?_, b2⟩⟩
  rw [s2 y]
  (repeat' split) <;> vec_leaf hv1, y

theorem svCtorNV_ok (k : Kind) {cap base tmp : Nat} {m : Mem} {n cnt : Nat} (x : Nat) (hv : VecAt m base cap n)
    (hn : n ≤ cap) (hcnt : cnt ≤ cap) (htmp : m.sh tmp = some none) (hto : tmp < base ∨ base + cap ≤ tmp) :
    ∃ m' n', svCtorNV k cap base tmp m n cnt x = .ok (m', n') ∧ VRes cap base m m' n' := by
  obtain ⟨m1, r1, v1, _⟩ := svClear_ok hv hn
  obtain ⟨m2, r2, v2⟩ := svInsertN_ok k (pos := 0) (cnt := cnt) x v1.upd.at (Nat.le_refl _) (by omega)
    (by rw [v1.upd.out hto]; exact htmp) hto
  exact ⟨m2, _, by simp only [svCtorNV, Nat.not_lt.mpr hcnt, if_false, r1]; exact r2, v1.trans v2⟩

theorem svCtorList_ok (k : Kind) {cap base tmp : Nat} {m : Mem} {n : Nat} (xs : List Nat)
    (hv : VecAt m base cap n) (hn : n ≤ cap) (hcnt : xs.length ≤ cap) (htmp : m.sh tmp = some none)
    (hto : tmp < base ∨ base + cap ≤ tmp) :
    ∃ m' n', svCtorList k cap base tmp m n xs = .ok (m', n') ∧ VRes cap base m m' n' := by
  obtain ⟨m1, r1, v1, _⟩ := svClear_ok hv hn
  obtain ⟨m2, r2, v2⟩ := svInsertList_ok k (pos := 0) xs v1.upd.at (Nat.le_refl _) (by omega)
    (by rw [v1.upd.out hto]; exact htmp) hto
  exact ⟨m2, _, by simp only [svCtorList, Nat.not_lt.mpr hcnt, if_false, r1]; exact r2, v1.trans v2⟩

/-- copy / move construction of the empty vector at `dst` from the `ns` live elements at `src`: the new
    elements hold what the sources held -/
theorem svConstructFrom_ok (k : Kind) (mv : Bool) {cap dst src : Nat} {m : Mem} {ns : Nat}
    (hd : VecAt m dst cap 0) (hs : ∀ y, src ≤ y → y < src + ns → m.sh y = some (some 0)) (hns : ns ≤ cap) :
    ∃ m', svConstructFrom k mv m dst src ns = .ok (m', ns) ∧ VRes cap dst m m' ns ∧
      (∀ t, t < ns → m'.slots[dst + t]? = m.slots[src + t]?) ∧
      (∀ x, ¬ (dst ≤ x ∧ x < dst + ns) → ¬ (src ≤ x ∧ x < src + ns) → m'.slots[x]? = m.slots[x]?) := by
  obtain ⟨m1, r1, s1, v1, f1, b1⟩ := constructRange_ok k mv ns m dst src hs
    (fun y h1 h2 => hd.dead (by omega) (by omega))
  refine ⟨m1, by simp [svConstructFrom, r1], ⟨hns, fun y => ?_, b1⟩, v1, f1⟩
  rw [s1 y]
  (repeat' split) <;> vec_leaf hd, y

/-- copy / move assignment from another vector whose elements lie outside the storage of `dst` -/
theorem svAssignFrom_ok (k : Kind) (mv : Bool) {cap dst src : Nat} {m : Mem} {nd ns : Nat}
    (hv : VecAt m dst cap nd) (hnd : nd ≤ cap) (hs : ∀ y, src ≤ y → y < src + ns → m.sh y = some (some 0))
    (hns : ns ≤ cap) (hout : src + ns ≤ dst ∨ dst + cap ≤ src) :
    ∃ m', svAssignFrom k mv m dst nd src ns = .ok (m', ns) ∧ VRes cap dst m m' ns ∧
      (∀ t, t < ns → m'.slots[dst + t]? = m.slots[src + t]?) ∧
      (∀ x, ¬ (dst ≤ x ∧ x < dst + nd) → ¬ (dst ≤ x ∧ x < dst + ns) → ¬ (src ≤ x ∧ x < src + ns) →
        m'.slots[x]? = m.slots[x]?) := by
  obtain ⟨m1, r1, v1, f1⟩ := svClear_ok hv hnd
  obtain ⟨m2, r2, v2, w2, f2⟩ := svConstructFrom_ok k mv (src := src) (ns := ns) v1.upd.at
    (fun y h1 h2 => by rw [v1.upd.out (by omega)]; exact hs y h1 h2) hns
  refine ⟨m2, by simp only [svAssignFrom, r1]; exact r2, v1.trans v2, fun t ht => ?_, fun x h1 h2 h3 => ?_⟩
  · rw [w2 t ht, f1 _ (by omega)]
  · rw [f2 x h2 h3, f1 x (by omega)]

theorem VecAt.of_eq {m m' : Mem} {base cap n : Nat} (hv : VecAt m base cap n)
    (h : ∀ y, base ≤ y → y < base + cap → m'.sh y = m.sh y) : VecAt m' base cap n :=
  fun y h1 h2 => by rw [h y h1 h2]; exact hv y h1 h2

/-- two vectors resized -/
def VecUpd2 (m m' : Mem) (cap b1 n1 b2 n2 : Nat) : Prop :=
  ∀ y, m'.sh y = if b1 ≤ y ∧ y < b1 + cap then (if y < b1 + n1 then some (some 0) else some none)
    else if b2 ≤ y ∧ y < b2 + cap then (if y < b2 + n2 then some (some 0) else some none)
    else m.sh y

/-- `a.swap(b)` through the local vector at `tv`: the sizes are exchanged, `tv` is empty again -/
theorem svSwap_ok (k : Kind) {cap a b tv : Nat} {m : Mem} {na nb : Nat} (ha : VecAt m a cap na)
    (hb : VecAt m b cap nb) (ht : VecAt m tv cap 0) (hna : na ≤ cap) (hnb : nb ≤ cap)
    (dab : a + cap ≤ b ∨ b + cap ≤ a) (dat : a + cap ≤ tv ∨ tv + cap ≤ a) (dbt : b + cap ≤ tv ∨ tv + cap ≤ b) :
    ∃ m', svSwap k m a na b nb tv = .ok (m', nb, na) ∧ VecUpd2 m m' cap a nb b na ∧ (Bal m → Bal m') := by
  obtain ⟨m1, r1, v1, _, _⟩ := svConstructFrom_ok k true (src := b) (ns := nb) ht (fun y h1 h2 => hb.live hnb h1 h2) hnb
  have hb1 : VecAt m1 b cap nb := hb.of_eq (fun y h1 h2 => v1.upd.out (by omega))
  have ha1 : VecAt m1 a cap na := ha.of_eq (fun y h1 h2 => v1.upd.out (by omega))
  obtain ⟨m2, r2, v2, _, _⟩ := svAssignFrom_ok k true (src := a) (ns := na) hb1 hnb
    (fun y h1 h2 => ha1.live hna h1 h2) hna (by omega)
  have ha2 : VecAt m2 a cap na := ha1.of_eq (fun y h1 h2 => v2.upd.out (by omega))
  have ht2 : VecAt m2 tv cap nb := v1.upd.at.of_eq (fun y h1 h2 => v2.upd.out (by omega))
  obtain ⟨m3, r3, v3, _, _⟩ := svAssignFrom_ok k true (src := tv) (ns := nb) ha2 hna
    (fun y h1 h2 => ht2.live hnb h1 h2) hnb (by omega)
  have ht3 : VecAt m3 tv cap nb := ht2.of_eq (fun y h1 h2 => v3.upd.out (by omega))
  obtain ⟨m4, r4, s4, _, b4⟩ := destroyRange_ok nb m3 tv (fun y h1 h2 => ht3.live hnb h1 h2)
  refine ⟨m4, by simp [svSwap, r1, r2, r3, r4], fun y => ?_, fun h => b4 (v3.bal (v2.bal (v1.bal h)))⟩
  rw [s4 y, v3.upd y, v2.upd y, v1.upd y]
  (repeat' split) <;> vec_leaf ht, y

/-- `a.swap(a)`: every slot of the arena holds again exactly what it held -/
theorem svSwapSelf_ok (k : Kind) {cap a tv : Nat} {m : Mem} {na : Nat} (ha : VecAt m a cap na)
    (ht : VecAt m tv cap 0) (hna : na ≤ cap) (dat : a + cap ≤ tv ∨ tv + cap ≤ a) :
    ∃ m', svSwapSelf k m a na tv = .ok (m', na) ∧ (∀ x : Nat, m'.slots[x]? = m.slots[x]?) ∧ (Bal m → Bal m') := by
  obtain ⟨m1, r1, v1, w1, f1⟩ := svConstructFrom_ok k true (src := a) (ns := na) ht
    (fun y h1 h2 => ha.live hna h1 h2) hna
  have ha1 : VecAt m1 a cap na := ha.of_eq (fun y h1 h2 => v1.upd.out (by omega))
  obtain ⟨m2, r2, v2, f2⟩ := svClear_ok ha1 hna
  have ht2 : VecAt m2 tv cap na := v1.upd.at.of_eq (fun y h1 h2 => v2.upd.out (by omega))
  obtain ⟨m3, r3, v3, w3, f3⟩ := svAssignFrom_ok k true (src := tv) (ns := na) v2.upd.at (Nat.zero_le _)
    (fun y h1 h2 => ht2.live hna h1 h2) hna (by omega)
  have ht3 : VecAt m3 tv cap na := ht2.of_eq (fun y h1 h2 => v3.upd.out (by omega))
  obtain ⟨m4, r4, s4, f4, b4⟩ := destroyRange_ok na m3 tv (fun y h1 h2 => ht3.live hna h1 h2)
  refine ⟨m4, by simp [svSwapSelf, r1, r2, r3, r4], fun x => ?_, fun h => b4 (v3.bal (v2.bal (v1.bal h)))⟩
  by_cases hxa : a ≤ x ∧ x < a + na
  · have e : x = a + (x - a) := by omega
    have hlt : x - a < na := by omega
    rw [f4 x (by omega), e, w3 _ hlt, f2 _ (by omega), w1 _ hlt]
  · by_cases hxt : tv ≤ x ∧ x < tv + na
    · have h4 : m4.sh x = some none := by rw [s4 x, if_pos hxt]
      have h0 : m.sh x = some none := ht.dead (by omega) (by omega)
      rw [sh_dead_iff.mp h4, sh_dead_iff.mp h0]
    · rw [f4 x (by omega), f3 x (by omega) hxa hxt, f2 x (by omega), f1 x hxt hxa]

/-! ### `erase_if` -/

/-- every slot of `[lo, hi)` is alive and holds a value -/
def Spec (m : Mem) (lo hi : Nat) : Prop := ∀ y, lo ≤ y → y < hi → ∃ v, m.slots[y]? = some (.live 0 (some v))

theorem spec_of_specified {m : Mem} {lo n : Nat} (h : specified m lo n = true) : Spec m lo (lo + n) := by
  intro y h1 h2
  unfold specified at h
  rw [List.all_eq_true] at h
  have := h (y - lo) (List.mem_range.mpr (by omega))
  rw [show lo + (y - lo) = y by omega] at this
  split at this
  · rename_i v hv
    exact ⟨v, hv⟩
  · cases this

theorem findIf_ok (base : Nat) (p : Nat → Bool) (m : Mem) : ∀ (cnt i : Nat), Spec m (base + i) (base + i + cnt) →
    ∃ r, findIf base p m cnt i = .ok r ∧ i ≤ r ∧ r ≤ i + cnt := by
  intro cnt
  induction cnt with
  | zero => intro i _; exact ⟨i, rfl, Nat.le_refl _, Nat.le_refl _⟩
  | succ cnt ih =>
    intro i hs
    obtain ⟨x, hx⟩ := hs (base + i) (Nat.le_refl _) (by omega)
    by_cases hp : p x = true
    · exact ⟨i, by simp [findIf, useAt_eq hx, hp], Nat.le_refl _, by omega⟩
    · obtain ⟨r, hr, h1, h2⟩ := ih (i + 1) (fun y a b => hs y (by omega) (by omega))
      exact ⟨r, by simp [findIf, useAt_eq hx, hp, hr], by omega, by omega⟩

/-- the compaction loop of `remove_if`: `first < i` at every move assignment, so no element is ever
    moved onto itself; the elements not yet visited keep their values -/
theorem removeLoop_ok (k : Kind) (base : Nat) (p : Nat → Bool) : ∀ (cnt : Nat) (m : Mem) (first i : Nat),
    first < i → (∀ y, base + first ≤ y → y < base + i + cnt → m.sh y = some (some 0)) →
    Spec m (base + i) (base + i + cnt) →
    ∃ m' f', removeLoop k base p cnt m first i = .ok (m', f') ∧ first ≤ f' ∧ f' ≤ first + cnt ∧
      (∀ y, m'.sh y = m.sh y) ∧ (Bal m → Bal m') := by
  intro cnt
  induction cnt with
  | zero => intro m first i _ _ _; exact ⟨m, first, rfl, Nat.le_refl _, Nat.le_refl _, fun _ => rfl, id⟩
  | succ cnt ih =>
    intro m first i hlt hl hs
    obtain ⟨x, hx⟩ := hs (base + i) (Nat.le_refl _) (by omega)
    by_cases hp : p x = true
    · obtain ⟨m', f', r, a, b, c, d⟩ := ih m first (i + 1) (by omega)
        (fun y h1 h2 => hl y h1 (by omega)) (fun y h1 h2 => hs y (by omega) (by omega))
      exact ⟨m', f', by simp [removeLoop, useAt_eq hx, hp, r], a, by omega, c, d⟩
    · obtain ⟨m1, r1, s1, f1, b1⟩ := moveA_sh k (m := m) (i := base + first) (j := base + i) (ty := 0) (by omega)
        (hl _ (Nat.le_refl _) (by omega)) (hl _ (by omega) (by omega))
      obtain ⟨m', f', r, a, b, c, d⟩ := ih m1 (first + 1) (i + 1) (by omega)
        (fun y h1 h2 => by rw [s1 y]; exact hl y (by omega) (by omega))
        (fun y h1 h2 => by rw [f1 y (by omega) (by omega)]; exact hs y (by omega) (by omega))
      exact ⟨m', f', by simp [removeLoop, useAt_eq hx, hp, r1, r], by omega, by omega,
        fun y => by rw [c y, s1 y], fun h => d (b1 h)⟩

theorem removeIf_ok (k : Kind) (base : Nat) (p : Nat → Bool) {m : Mem} {n : Nat}
    (hl : ∀ y, base ≤ y → y < base + n → m.sh y = some (some 0)) (hs : Spec m base (base + n)) :
    ∃ m' it, removeIf k base p m n = .ok (m', it) ∧ it ≤ n ∧ (∀ y, m'.sh y = m.sh y) ∧ (Bal m → Bal m') := by
  obtain ⟨r, hr, _, h2⟩ := findIf_ok base p m n 0 (fun y a b => hs y (by omega) (by omega))
  by_cases e : r = n
  · exact ⟨m, r, by simp [removeIf, hr, e], by omega, fun _ => rfl, id⟩
  · obtain ⟨m', f', r', a, b, c, d⟩ := removeLoop_ok k base p (n - r - 1) m r (r + 1) (by omega)
      (fun y h1 h2 => hl y (by omega) (by omega)) (fun y h1 h2 => hs y (by omega) (by omega))
    exact ⟨m', f', by simp [removeIf, hr, e, r'], by omega, c, d⟩

theorem svEraseIf_ok (k : Kind) {cap base : Nat} (p : Nat → Bool) {m : Mem} {n : Nat} (hv : VecAt m base cap n)
    (hn : n ≤ cap) (hs : Spec m base (base + n)) :
    ∃ m' n', svEraseIf k base p m n = .ok (m', n') ∧ VRes cap base m m' n' := by
  obtain ⟨m1, it, r1, hit, s1, b1⟩ := removeIf_ok k base p (fun y a b => hv.live hn a b) hs
  obtain ⟨m2, r2, v2⟩ := svErase_ok k (first := it) (last := n) (hv.of_eq (fun y _ _ => s1 y)) hn hit (Nat.le_refl _)
  exact ⟨m2, _, by simp only [svEraseIf, r1]; exact r2, VRes.of_keep s1 b1 v2⟩

/-! ### inplace_vector -/

theorem ivPush_ok (k : Kind) {cap base : Nat} {m : Mem} {n : Nat} {h : How} (hlt : n < cap)
    (hd : m.sh (base + n) = some none) (hh : h.ok m 0) :
    ∃ m', ivPush k cap base m n h = .ok (m', n + 1) ∧
      (∀ y, m'.sh y = if y = base + n then some (some 0) else m.sh y) ∧ (Bal m → Bal m') := by
  obtain ⟨m', r, s, b⟩ := emplaceAt_sh k hd hh
  exact ⟨m', by simp [ivPush, Nat.not_le.mpr hlt, r], s, b⟩

theorem ivTryPush_ok (k : Kind) {cap base : Nat} {m : Mem} {n : Nat} {h : How} (hv : VecAt m base cap n)
    (hn : n ≤ cap) (hh : h.ok m 0) :
    ∃ m' n', ivTryPush k cap base m n h = .ok (m', n') ∧ VRes cap base m m' n' := by
  by_cases e : n = cap
  · exact ⟨m, n, by simp [ivTryPush, e], VRes.refl hv hn⟩
  · have hlt : n < cap := by omega
    obtain ⟨m', r, s, b⟩ := ivPush_ok k (base := base) hlt (hv.dead (Nat.le_refl _) (by omega)) hh
    exact ⟨m', _, by simp only [ivTryPush, e, if_false]; exact r, vres_push hv hlt s b⟩

theorem ivPopBack_ok {cap base : Nat} {m : Mem} {n : Nat} (hv : VecAt m base cap n) (hn : n ≤ cap)
    (hpos : 0 < n) : ∃ m', ivPopBack base m n = .ok (m', n - 1) ∧ VRes cap base m m' (n - 1) := by
  obtain ⟨m', r, v⟩ := svPopBack_ok hv hn hpos
  refine ⟨m', ?_, v⟩
  simp only [svPopBack, Nat.ne_of_gt hpos, if_false] at r
  simp only [ivPopBack, Nat.ne_of_gt hpos, if_false]
  exact r

/-- move constructor of `inplace_vector`: the elements are moved over and the source is cleared — or, for a trivially
    move constructible element type (the defaulted member), keeps its size and its elements -/
theorem ivMoveConstruct_ok (k : Kind) {cap dst src : Nat} {m : Mem} {ns : Nat} (hd : VecAt m dst cap 0)
    (hs : VecAt m src cap ns) (hns : ns ≤ cap) (dis : dst + cap ≤ src ∨ src + cap ≤ dst) :
    ∃ m' ns', ivMoveConstruct k m dst src ns = .ok (m', ns, ns') ∧ ns' ≤ cap ∧ VecUpd2 m m' cap dst ns src ns' ∧
      (Bal m → Bal m') := by
  obtain ⟨m1, r1, s1, _, _, b1⟩ := constructRange_ok k true ns m dst src (fun y h1 h2 => hs.live hns h1 h2)
    (fun y h1 h2 => hd.dead (by omega) (by omega))
  cases htm : k.trivMC
  · obtain ⟨m2, r2, s2, _, b2⟩ := destroyRange_ok ns m1 src (fun y h1 h2 => by
      rw [s1 y, if_neg (by omega)]
      exact hs.live hns h1 h2)
    refine ⟨m2, 0, by simp [ivMoveConstruct, r1, r2, htm], Nat.zero_le _, fun y => ?_, fun h => b2 (b1 h)⟩
    rw [s2 y, s1 y]
    by_cases hy : src ≤ y ∧ y < src + cap
    · rw [hs y hy.1 hy.2]
      ifs
    · (repeat' split) <;> vec_leaf hd, y
  · refine ⟨m1, ns, by simp [ivMoveConstruct, r1, htm], hns, fun y => ?_, b1⟩
    rw [s1 y]
    by_cases hy : src ≤ y ∧ y < src + cap
    · rw [hs y hy.1 hy.2]
      ifs
    · (repeat' split) <;> vec_leaf hd, y

theorem VecUpd2.of_upd {m m1 m2 : Mem} {cap b1 n n1 b2 n2 : Nat} (h1 : VecUpd m m1 b1 cap n)
    (h2 : VecUpd2 m1 m2 cap b1 n1 b2 n2) : VecUpd2 m m2 cap b1 n1 b2 n2 := by
  intro y
  rw [h2 y, h1 y]
  ifs

/-! ### the session invariant as a shape -/

/-- the shape of an arena that satisfies `VecInv` with sizes `a`, `b` -/
def vshape (cap a b y : Nat) : Option (Option Nat) :=
  if y < cap then (if y < a then some (some 0) else some none)
  else if y < 2 * cap then (if y < cap + b then some (some 0) else some none)
  else if y < 3 * cap + 3 then some none else none

theorem vinv_iff (cap : Nat) (s : St) :
    VecInv cap s ↔ (s.a ≤ cap ∧ s.b ≤ cap ∧ (∀ y, s.mem.sh y = vshape cap s.a s.b y) ∧ Bal s.mem) := by
  constructor
  · intro hi
    refine ⟨hi.ha, hi.hb, fun y => ?_, hi.bal⟩
    unfold vshape
    split
    · split
      · rename_i h1 h2
        have := hi.liveA y h2
        rw [Nat.zero_add] at this
        exact sh_live_iff.mpr this
      · have := hi.deadA (y - s.a) (by omega)
        rw [show s.a + (y - s.a) = y by omega] at this
        exact sh_dead_iff.mpr this
    · split
      · split
        · have := hi.liveB (y - cap) (by omega)
          rw [show cap + (y - cap) = y by omega] at this
          exact sh_live_iff.mpr this
        · have := hi.deadB (y - (cap + s.b)) (by omega)
          rw [show cap + s.b + (y - (cap + s.b)) = y by omega] at this
          exact sh_dead_iff.mpr this
      · split
        · have := hi.deadT (y - 2 * cap) (by omega)
          rw [show 2 * cap + (y - 2 * cap) = y by omega] at this
          exact sh_dead_iff.mpr this
        · apply sh_none_iff.mpr
          rw [hi.len]
          unfold arenaSize
          omega
  · rintro ⟨ha, hb, hs, hbal⟩
    have h1 : s.mem.slots.length ≤ 3 * cap + 3 := by
      apply sh_none_iff.mp
      rw [hs]
      unfold vshape
      ifs
    have h2 : ¬ s.mem.slots.length ≤ 3 * cap + 2 := by
      intro h
      have := sh_none_iff.mpr h
      rw [hs] at this
      unfold vshape at this
      rw [if_neg (by omega), if_neg (by omega), if_pos (by omega)] at this
      cases this
    refine ⟨by unfold arenaSize; omega, ha, hb, ?_, ?_, ?_, ?_, ?_, hbal⟩
    · intro i hi
      apply sh_live_iff.mp
      rw [hs]
      unfold vshape
      rw [if_pos (by omega), if_pos (by omega)]
    · intro i hi
      apply sh_dead_iff.mp
      rw [hs]
      unfold vshape
      rw [if_pos (by omega), if_neg (by omega)]
    · intro i hi
      apply sh_live_iff.mp
      rw [hs]
      unfold vshape
      rw [if_neg (by omega), if_pos (by omega), if_pos (by omega)]
    · intro i hi
      apply sh_dead_iff.mp
      rw [hs]
      unfold vshape
      rw [if_neg (by omega), if_pos (by omega), if_neg (by omega)]
    · intro i hi
      apply sh_dead_iff.mp
      rw [hs]
      unfold vshape
      rw [if_neg (by omega), if_neg (by omega), if_pos (by omega)]

/-- the owner `t` of a session that satisfies the invariant -/
theorem inv_vecAt {cap : Nat} {s : St} (hi : VecInv cap s) (t : Bool) :
    VecAt s.mem (baseOf cap t) cap (s.sz t) ∧ s.sz t ≤ cap := by
  obtain ⟨ha, hb, hs, _⟩ := (vinv_iff cap s).mp hi
  cases t
  · refine ⟨fun y h1 h2 => ?_, ha⟩
    rw [hs y]
    simp only [baseOf, St.sz, vshape, Bool.false_eq_true, if_false] at *
    ifs
  · refine ⟨fun y h1 h2 => ?_, hb⟩
    rw [hs y]
    simp only [baseOf, St.sz, vshape, if_true] at *
    ifs

theorem vshape_dead {cap a b y : Nat} (h1 : 2 * cap ≤ y) (h2 : y < 3 * cap + 3) :
    vshape cap a b y = some none := by
  unfold vshape
  rw [if_neg (by omega), if_neg (by omega), if_pos h2]

/-- the storage of the local vector is raw -/
theorem inv_tv {cap : Nat} {s : St} (hi : VecInv cap s) : VecAt s.mem (tvOf cap) cap 0 := by
  obtain ⟨_, _, hs, _⟩ := (vinv_iff cap s).mp hi
  intro y h1 h2
  have e : tvOf cap = 2 * cap := rfl
  rw [e] at h1 h2 ⊢
  rw [hs y, vshape_dead (by omega) (by omega), if_neg (by omega)]

theorem inv_t0 {cap : Nat} {s : St} (hi : VecInv cap s) : s.mem.sh (t0Of cap) = some none := by
  obtain ⟨_, _, hs, _⟩ := (vinv_iff cap s).mp hi
  rw [hs]
  exact vshape_dead (by show 2 * cap ≤ 3 * cap; omega) (by show 3 * cap < 3 * cap + 3; omega)

theorem inv_t1 {cap : Nat} {s : St} (hi : VecInv cap s) : s.mem.sh (t1Of cap) = some none := by
  obtain ⟨_, _, hs, _⟩ := (vinv_iff cap s).mp hi
  rw [hs]
  exact vshape_dead (by show 2 * cap ≤ 3 * cap + 1; omega) (by show 3 * cap + 1 < 3 * cap + 3; omega)

theorem out_t0 (cap : Nat) (t : Bool) : t0Of cap < baseOf cap t ∨ baseOf cap t + cap ≤ t0Of cap := by
  cases t <;> simp only [baseOf, t0Of, Bool.false_eq_true, if_false, if_true] <;> omega

theorem out_t1 (cap : Nat) (t : Bool) : t1Of cap < baseOf cap t ∨ baseOf cap t + cap ≤ t1Of cap := by
  cases t <;> simp only [baseOf, t1Of, Bool.false_eq_true, if_false, if_true] <;> omega

theorem out_tv (cap : Nat) (t : Bool) : baseOf cap t + cap ≤ tvOf cap ∨ tvOf cap + cap ≤ baseOf cap t := by
  cases t <;> simp only [baseOf, tvOf, Bool.false_eq_true, if_false, if_true] <;> omega

theorem out_ob (cap : Nat) (t : Bool) :
    baseOf cap t + cap ≤ baseOf cap (!t) ∨ baseOf cap (!t) + cap ≤ baseOf cap t := by
  cases t <;> simp only [baseOf, Bool.not_false, Bool.not_true, Bool.false_eq_true, if_false, if_true] <;> omega

theorem t1_ne_t0 (cap : Nat) : t1Of cap ≠ t0Of cap := by
  simp only [t1Of, t0Of]
  omega

/-- a result for the owner `t` re-establishes the session invariant -/
theorem inv_put {cap : Nat} {s : St} {t : Bool} {m' : Mem} {n' : Nat} (hi : VecInv cap s)
    (hr : VRes cap (baseOf cap t) s.mem m' n') : VecInv cap (s.put t m' n') := by
  obtain ⟨ha, hb, hs, hbal⟩ := (vinv_iff cap s).mp hi
  apply (vinv_iff cap _).mpr
  have hle := hr.le
  cases t
  · refine ⟨hle, hb, fun y => ?_, hr.bal hbal⟩
    show m'.sh y = _
    rw [hr.upd y, hs y]
    simp only [St.put, baseOf, vshape, Bool.false_eq_true, if_false]
    ifs
  · refine ⟨ha, hle, fun y => ?_, hr.bal hbal⟩
    show m'.sh y = _
    rw [hr.upd y, hs y]
    simp only [St.put, baseOf, vshape, if_true]
    ifs

/-- a result for both owners re-establishes the session invariant -/
theorem inv_put2 {cap : Nat} {s : St} {t : Bool} {m' : Mem} {n' no' : Nat} (hi : VecInv cap s)
    (h1 : n' ≤ cap) (h2 : no' ≤ cap) (hu : VecUpd2 s.mem m' cap (baseOf cap t) n' (baseOf cap (!t)) no')
    (hb' : Bal s.mem → Bal m') : VecInv cap (s.put2 t m' n' no') := by
  obtain ⟨ha, hb, hs, hbal⟩ := (vinv_iff cap s).mp hi
  apply (vinv_iff cap _).mpr
  cases t
  · refine ⟨h1, h2, fun y => ?_, hb' hbal⟩
    show m'.sh y = _
    rw [hu y, hs y]
    simp only [St.put2, baseOf, vshape, Bool.not_false, Bool.false_eq_true, if_false, if_true]
    ifs
  · refine ⟨h2, h1, fun y => ?_, hb' hbal⟩
    show m'.sh y = _
    rw [hu y, hs y]
    simp only [St.put2, baseOf, vshape, Bool.not_true, Bool.false_eq_true, if_false, if_true]
    ifs

/-- lifting a single-owner result through `St.upd` -/
theorem upd_inv {cap : Nat} {s : St} {t : Bool} {r : Except LErr (Mem × Nat)} (hi : VecInv cap s)
    (h : ∃ m' n', r = .ok (m', n') ∧ VRes cap (baseOf cap t) s.mem m' n') :
    ∃ s', s.upd t r = .ok s' ∧ VecInv cap s' := by
  obtain ⟨m', n', rfl, v⟩ := h
  exact ⟨s.put t m' n', rfl, inv_put hi v⟩

/-! ### every valid operation keeps the invariant -/

theorem vstep_inv_sv (k : Kind) (cap : Nat) (s : St) (t : Bool) (op : VOp) (hi : VecInv cap s)
    (hv : vvalid .sv cap s t op = true) : ∃ s', vstep .sv k cap s t op = .ok s' ∧ VecInv cap s' := by
  obtain ⟨hva, hna⟩ := inv_vecAt hi t
  obtain ⟨hvo, hno⟩ := inv_vecAt hi (!t)
  have ht0 := inv_t0 hi
  have ht1 := inv_t1 hi
  have htv := inv_tv hi
  cases op with
  | pushc v =>
    have hlt : s.sz t < cap := by simpa [vvalid] using hv
    obtain ⟨m', r, sh, b⟩ := svEmplaceBack_ok k (cap := cap) (base := baseOf cap t) (h := .copy (.ext v)) hlt
      (hva.dead (Nat.le_refl _) (by omega)) trivial
    have h := upd_inv hi ⟨m', _, r, vres_push hva hlt sh b⟩
    exact h
  | pushm v =>
    have hlt : s.sz t < cap := by simpa [vvalid] using hv
    obtain ⟨m', r, sh, b⟩ := svEmplaceBack_ok k (cap := cap) (base := baseOf cap t) (h := .move (.ext v)) hlt
      (hva.dead (Nat.le_refl _) (by omega)) trivial
    have h := upd_inv hi ⟨m', _, r, vres_push hva hlt sh b⟩
    exact h
  | emplaceBack v =>
    have hlt : s.sz t < cap := by simpa [vvalid] using hv
    obtain ⟨m', r, sh, b⟩ := svEmplaceBack_ok k (cap := cap) (base := baseOf cap t) (h := .value v) hlt
      (hva.dead (Nat.le_refl _) (by omega)) trivial
    have h := upd_inv hi ⟨m', _, r, vres_push hva hlt sh b⟩
    exact h
  | tryPushc v => simp [vvalid] at hv
  | tryPushm v => simp [vvalid] at hv
  | tryEmplaceBack v => simp [vvalid] at hv
  | pop =>
    have hpos : 0 < s.sz t := by simpa [vvalid] using hv
    obtain ⟨m', r, v⟩ := svPopBack_ok hva hna hpos
    have h := upd_inv hi ⟨m', _, r, v⟩
    exact h
  | insc pos v =>
    have hp : s.sz t < cap ∧ pos ≤ s.sz t := by simpa [vvalid] using hv
    obtain ⟨m', r, v⟩ := svInsertN_ok k (pos := pos) (cnt := 1) v hva hp.2 (by omega) ht0 (out_t0 cap t)
    have h := upd_inv hi ⟨m', _, r, v⟩
    simp only [vstep, if_neg (Nat.not_le.mpr hp.1)]
    exact h
  | insm pos v =>
    have hp : s.sz t < cap ∧ pos ≤ s.sz t := by simpa [vvalid] using hv
    obtain ⟨m', r, sh, b⟩ := svMoveInsert1_ok k (pos := pos) (s := .ext v) hva hp.1 hp.2 trivial ht0 (out_t0 cap t)
    have h := upd_inv hi ⟨m', _, r, vres_push hva hp.1 sh b⟩
    exact h
  | insn pos cnt v =>
    have hp : pos ≤ s.sz t ∧ s.sz t + cnt ≤ cap := by simpa [vvalid] using hv
    obtain ⟨m', r, v⟩ := svInsertN_ok k (pos := pos) (cnt := cnt) v hva hp.1 hp.2 ht0 (out_t0 cap t)
    have h := upd_inv hi ⟨m', _, r, v⟩
    exact h
  | insr pos xs =>
    have hp : pos ≤ s.sz t ∧ s.sz t + xs.length ≤ cap := by simpa [vvalid] using hv
    obtain ⟨m', r, v⟩ := svInsertList_ok k (pos := pos) xs hva hp.1 hp.2 ht0 (out_t0 cap t)
    have h := upd_inv hi ⟨m', _, r, v⟩
    exact h
  | emplace pos v =>
    have hp : s.sz t < cap ∧ pos ≤ s.sz t := by simpa [vvalid] using hv
    obtain ⟨m', r, sh, b⟩ := svEmplace_ok k (pos := pos) (h := .value v) hva hp.1 hp.2 trivial ht0 (out_t0 cap t)
      ht1 (out_t1 cap t) (t1_ne_t0 cap)
    have h := upd_inv hi ⟨m', _, r, vres_push hva hp.1 sh b⟩
    exact h
  | eraseAt pos =>
    have hp : pos < s.sz t := by simpa [vvalid] using hv
    obtain ⟨m', n', r, v⟩ := svEraseAt_ok k hva hna hp
    have h := upd_inv hi ⟨m', n', r, v⟩
    exact h
  | eraseRange f l =>
    have hp : f ≤ l ∧ l ≤ s.sz t := by simpa [vvalid] using hv
    obtain ⟨m', r, v⟩ := svErase_ok k hva hna hp.1 hp.2
    have h := upd_inv hi ⟨m', _, r, v⟩
    exact h
  | clear =>
    obtain ⟨m', r, v, _⟩ := svClear_ok hva hna
    have h := upd_inv hi ⟨m', _, r, v⟩
    exact h
  | resize sz =>
    have hp : sz ≤ cap := by simpa [vvalid] using hv
    obtain ⟨m', n', r, v⟩ := svResize_ok k hva hna hp ht1 (out_t1 cap t)
    have h := upd_inv hi ⟨m', n', r, v⟩
    exact h
  | resizev sz x =>
    have hp : sz ≤ cap := by simpa [vvalid] using hv
    obtain ⟨m', n', r, v⟩ := svResizeV_ok k x hva hna hp ht0 (out_t0 cap t)
    have h := upd_inv hi ⟨m', n', r, v⟩
    exact h
  | assignn cnt x =>
    have hp : cnt ≤ cap := by simpa [vvalid] using hv
    obtain ⟨m', n', r, v⟩ := svAssignN_ok k x hva hna hp ht0 (out_t0 cap t)
    have h := upd_inv hi ⟨m', n', r, v⟩
    exact h
  | assignr xs =>
    have hp : xs.length ≤ cap := by simpa [vvalid] using hv
    obtain ⟨m', n', r, v⟩ := svAssignList_ok k xs hva hna hp ht0 (out_t0 cap t)
    have h := upd_inv hi ⟨m', n', r, v⟩
    exact h
  | eraseIf md r =>
    have hp : 0 < md ∧ specified s.mem (baseOf cap t) (s.sz t) = true := by simpa [vvalid] using hv
    obtain ⟨m', n', r', v⟩ := svEraseIf_ok k (fun x => x % md == r) hva hna (spec_of_specified hp.2)
    have h := upd_inv hi ⟨m', n', r', v⟩
    exact h
  | cctor =>
    obtain ⟨m1, r1, v1, _⟩ := svClear_ok hva hna
    have hvo1 : VecAt m1 (baseOf cap (!t)) cap (s.sz (!t)) :=
      hvo.of_eq (fun y h1 h2 => v1.upd.out (by have := out_ob cap t; omega))
    obtain ⟨m2, r2, v2, _, _⟩ := svConstructFrom_ok k false (src := baseOf cap (!t)) (ns := s.sz (!t)) v1.upd.at
      (fun y h1 h2 => hvo1.live hno h1 h2) hno
    have h := upd_inv hi ⟨m2, _, r2, v1.trans v2⟩
    simp only [vstep, r1]
    exact h
  | mctor =>
    obtain ⟨m1, r1, v1, _⟩ := svClear_ok hva hna
    have hvo1 : VecAt m1 (baseOf cap (!t)) cap (s.sz (!t)) :=
      hvo.of_eq (fun y h1 h2 => v1.upd.out (by have := out_ob cap t; omega))
    obtain ⟨m2, r2, v2, _, _⟩ := svConstructFrom_ok k true (src := baseOf cap (!t)) (ns := s.sz (!t)) v1.upd.at
      (fun y h1 h2 => hvo1.live hno h1 h2) hno
    have h := upd_inv hi ⟨m2, _, r2, v1.trans v2⟩
    simp only [vstep, r1]
    exact h
  | ctorN sz =>
    have hp : sz ≤ cap := by simpa [vvalid] using hv
    obtain ⟨m', n', r, v⟩ := svCtorN_ok k hva hna hp ht1 (out_t1 cap t)
    have h := upd_inv hi ⟨m', n', r, v⟩
    exact h
  | ctorNV cnt x =>
    have hp : cnt ≤ cap := by simpa [vvalid] using hv
    obtain ⟨m', n', r, v⟩ := svCtorNV_ok k x hva hna hp ht0 (out_t0 cap t)
    have h := upd_inv hi ⟨m', n', r, v⟩
    exact h
  | ctorR xs =>
    have hp : xs.length ≤ cap := by simpa [vvalid] using hv
    obtain ⟨m', n', r, v⟩ := svCtorList_ok k xs hva hna hp ht0 (out_t0 cap t)
    have h := upd_inv hi ⟨m', n', r, v⟩
    exact h
  | cassign =>
    obtain ⟨m', r, v, _, _⟩ := svAssignFrom_ok k false (src := baseOf cap (!t)) (ns := s.sz (!t)) hva hna
      (fun y h1 h2 => hvo.live hno h1 h2) hno (by have := out_ob cap t; omega)
    have h := upd_inv hi ⟨m', _, r, v⟩
    exact h
  | massign =>
    obtain ⟨m', r, v, _, _⟩ := svAssignFrom_ok k true (src := baseOf cap (!t)) (ns := s.sz (!t)) hva hna
      (fun y h1 h2 => hvo.live hno h1 h2) hno (by have := out_ob cap t; omega)
    have h := upd_inv hi ⟨m', _, r, v⟩
    exact h
  | cassignSelf => exact ⟨s, rfl, hi⟩
  | swap =>
    obtain ⟨m', r, u, b⟩ := svSwap_ok k hva hvo htv hna hno (out_ob cap t) (out_tv cap t) (out_tv cap (!t))
    exact ⟨s.put2 t m' (s.sz (!t)) (s.sz t), by simp only [vstep, r], inv_put2 hi hno hna u b⟩
  | swapSelf =>
    obtain ⟨m', r, sl, b⟩ := svSwapSelf_ok k hva htv hna (out_tv cap t)
    have hs : ∀ y, m'.sh y = s.mem.sh y := fun y => sh_congr (sl y)
    have h := upd_inv hi ⟨m', _, r, VRes.of_keep hs b (VRes.refl (hva.of_eq (fun y _ _ => hs y)) hna)⟩
    exact h

theorem vstep_inv_iv (k : Kind) (cap : Nat) (s : St) (t : Bool) (op : VOp) (hi : VecInv cap s)
    (hv : vvalid .iv cap s t op = true) : ∃ s', vstep .iv k cap s t op = .ok s' ∧ VecInv cap s' := by
  obtain ⟨hva, hna⟩ := inv_vecAt hi t
  obtain ⟨hvo, hno⟩ := inv_vecAt hi (!t)
  cases op with
  | pushc v =>
    have hlt : s.sz t < cap := by simpa [vvalid] using hv
    obtain ⟨m', r, sh, b⟩ := ivPush_ok k (cap := cap) (base := baseOf cap t) (h := .copy (.ext v)) hlt
      (hva.dead (Nat.le_refl _) (by omega)) trivial
    have h := upd_inv hi ⟨m', _, r, vres_push hva hlt sh b⟩
    exact h
  | pushm v =>
    have hlt : s.sz t < cap := by simpa [vvalid] using hv
    obtain ⟨m', r, sh, b⟩ := ivPush_ok k (cap := cap) (base := baseOf cap t) (h := .move (.ext v)) hlt
      (hva.dead (Nat.le_refl _) (by omega)) trivial
    have h := upd_inv hi ⟨m', _, r, vres_push hva hlt sh b⟩
    exact h
  | emplaceBack v =>
    have hlt : s.sz t < cap := by simpa [vvalid] using hv
    obtain ⟨m', r, sh, b⟩ := ivPush_ok k (cap := cap) (base := baseOf cap t) (h := .value v) hlt
      (hva.dead (Nat.le_refl _) (by omega)) trivial
    have h := upd_inv hi ⟨m', _, r, vres_push hva hlt sh b⟩
    exact h
  | tryPushc v =>
    obtain ⟨m', n', r, v⟩ := ivTryPush_ok k (h := .copy (.ext v)) hva hna trivial
    have h := upd_inv hi ⟨m', n', r, v⟩
    exact h
  | tryPushm v =>
    obtain ⟨m', n', r, v⟩ := ivTryPush_ok k (h := .move (.ext v)) hva hna trivial
    have h := upd_inv hi ⟨m', n', r, v⟩
    exact h
  | tryEmplaceBack v =>
    obtain ⟨m', n', r, v⟩ := ivTryPush_ok k (h := .value v) hva hna trivial
    have h := upd_inv hi ⟨m', n', r, v⟩
    exact h
  | pop =>
    have hpos : 0 < s.sz t := by simpa [vvalid] using hv
    obtain ⟨m', r, v⟩ := ivPopBack_ok hva hna hpos
    have h := upd_inv hi ⟨m', _, r, v⟩
    exact h
  | clear =>
    obtain ⟨m', r, v, _⟩ := svClear_ok hva hna
    have h := upd_inv hi ⟨m', _, r, v⟩
    exact h
  | cctor =>
    obtain ⟨m1, r1, v1, _⟩ := svClear_ok hva hna
    have hvo1 : VecAt m1 (baseOf cap (!t)) cap (s.sz (!t)) :=
      hvo.of_eq (fun y h1 h2 => v1.upd.out (by have := out_ob cap t; omega))
    obtain ⟨m2, r2, v2, _, _⟩ := svConstructFrom_ok k false (src := baseOf cap (!t)) (ns := s.sz (!t)) v1.upd.at
      (fun y h1 h2 => hvo1.live hno h1 h2) hno
    have h := upd_inv hi ⟨m2, _, r2, v1.trans v2⟩
    simp only [vstep, ivClear, ivCopyConstruct, r1]
    exact h
  | mctor =>
    obtain ⟨m1, r1, v1, _⟩ := svClear_ok hva hna
    have hvo1 : VecAt m1 (baseOf cap (!t)) cap (s.sz (!t)) :=
      hvo.of_eq (fun y h1 h2 => v1.upd.out (by have := out_ob cap t; omega))
    obtain ⟨m2, ns', r2, hns', u2, b2⟩ := ivMoveConstruct_ok k (src := baseOf cap (!t)) (ns := s.sz (!t)) v1.upd.at hvo1 hno
      (out_ob cap t)
    exact ⟨s.put2 t m2 (s.sz (!t)) ns', by simp only [vstep, ivClear, r1, r2],
      inv_put2 hi hno hns' (VecUpd2.of_upd v1.upd u2) (fun hb => b2 (v1.bal hb))⟩
  | insc pos v => simp [vvalid] at hv
  | insm pos v => simp [vvalid] at hv
  | insn pos cnt v => simp [vvalid] at hv
  | insr pos xs => simp [vvalid] at hv
  | emplace pos v => simp [vvalid] at hv
  | eraseAt pos => simp [vvalid] at hv
  | eraseRange f l => simp [vvalid] at hv
  | resize sz => simp [vvalid] at hv
  | resizev sz x => simp [vvalid] at hv
  | ctorN sz => simp [vvalid] at hv
  | ctorNV cnt x => simp [vvalid] at hv
  | ctorR xs => simp [vvalid] at hv
  | assignn cnt x => simp [vvalid] at hv
  | assignr xs => simp [vvalid] at hv
  | eraseIf md r => simp [vvalid] at hv
  | cassign => simp [vvalid] at hv
  | massign => simp [vvalid] at hv
  | cassignSelf => simp [vvalid] at hv
  | swap => simp [vvalid] at hv
  | swapSelf => simp [vvalid] at hv

theorem vstep_inv (fam : Fam) (k : Kind) (cap : Nat) (s : St) (t : Bool) (op : VOp)
    (hi : VecInv cap s) (hv : vvalid fam cap s t op = true) :
    ∃ s', vstep fam k cap s t op = .ok s' ∧ VecInv cap s' := by
  cases fam with
  | sv => exact vstep_inv_sv k cap s t op hi hv
  | iv => exact vstep_inv_iv k cap s t op hi hv

/-! ### initial state, reachable states, end of scope -/

theorem fresh_sh (n y : Nat) : (Mem.fresh n).sh y = if y < n then some none else none := by
  unfold Mem.sh Mem.fresh
  simp only [List.getElem?_replicate]
  split <;> simp [Slot.sh]

theorem fresh_bal (n : Nat) : Bal (Mem.fresh n) := by
  unfold Bal Mem.liveCount Mem.fresh Cnt.constructed
  simp [Slot.isLive]

theorem vinit_inv (cap : Nat) : VecInv cap (St.init cap 0 0) := by
  apply (vinv_iff cap _).mpr
  refine ⟨Nat.zero_le _, Nat.zero_le _, fun y => ?_, fresh_bal _⟩
  show (Mem.fresh (arenaSize cap)).sh y = vshape cap 0 0 y
  rw [fresh_sh]
  unfold vshape arenaSize
  ifs

theorem vreach_inv {fam : Fam} {k : Kind} {cap : Nat} {s : St} (h : VReach fam k cap s) : VecInv cap s := by
  induction h with
  | init => exact vinit_inv cap
  | step _ hv hs ih =>
    obtain ⟨s'', h1, h2⟩ := vstep_inv fam k cap _ _ _ ih hv
    rw [hs] at h1
    cases h1
    exact h2

theorem allDead_of_inv {cap : Nat} {s : St} (hi : VecInv cap s) (ha : s.a = 0) (hb : s.b = 0) :
    AllDead s.mem := by
  obtain ⟨_, _, hs, _⟩ := (vinv_iff cap s).mp hi
  intro i sl h
  have h1 := sh_of_slot h
  rw [hs i, ha, hb] at h1
  cases sl with
  | dead => rfl
  | live ty v =>
    exfalso
    unfold vshape at h1
    simp only [Slot.sh] at h1
    revert h1
    (repeat' split) <;> (intro h1; first | omega | cases h1)

theorem liveCount_allDead {m : Mem} (h : AllDead m) : m.liveCount = 0 := by
  unfold Mem.liveCount
  rw [List.length_eq_zero_iff, List.filter_eq_nil_iff]
  intro a ha
  obtain ⟨i, hi⟩ := List.mem_iff_getElem?.mp ha
  rw [h i a hi]
  simp [Slot.isLive]

theorem vfinish_ok (cap : Nat) (s : St) (hi : VecInv cap s) :
    ∃ s', vfinish cap s = .ok s' ∧ AllDead s'.mem ∧ s'.mem.cnt.constructed = s'.mem.cnt.d := by
  obtain ⟨hvb, hnb⟩ := inv_vecAt hi true
  obtain ⟨m1, r1, v1, _⟩ := svClear_ok hvb hnb
  have hi1 : VecInv cap (s.put true m1 0) := inv_put hi v1
  obtain ⟨hva, hna⟩ := inv_vecAt hi1 false
  obtain ⟨m2, r2, v2, _⟩ := svClear_ok hva hna
  have hi2 : VecInv cap ((s.put true m1 0).put false m2 0) := inv_put hi1 v2
  have r1' : svClear (baseOf cap true) s.mem s.b = .ok (m1, 0) := r1
  have r2' : svClear (baseOf cap false) m1 s.a = .ok (m2, 0) := r2
  refine ⟨{ mem := m2, a := 0, b := 0 }, by simp only [vfinish, r1', r2'], ?_⟩
  have hd : AllDead m2 := allDead_of_inv hi2 rfl rfl
  refine ⟨hd, ?_⟩
  have hb : Bal m2 := hi2.bal
  unfold Bal at hb
  rw [liveCount_allDead hd] at hb
  exact hb

theorem svSwapSelf_id (k : Kind) (cap : Nat) (s : St) (t : Bool) (hi : VecInv cap s) :
    ∃ s', vstep .sv k cap s t .swapSelf = .ok s' ∧ s'.mem.slots = s.mem.slots ∧ s'.a = s.a ∧ s'.b = s.b := by
  obtain ⟨hva, hna⟩ := inv_vecAt hi t
  obtain ⟨m', r, sl, _⟩ := svSwapSelf_ok k hva (inv_tv hi) hna (out_tv cap t)
  refine ⟨s.put t m' (s.sz t), ?_, ?_, ?_, ?_⟩
  · show s.upd t (svSwapSelf k s.mem (baseOf cap t) (s.sz t) (tvOf cap)) = _
    rw [r]
    rfl
  · have : (s.put t m' (s.sz t)).mem = m' := by cases t <;> rfl
    rw [this]
    exact List.ext_getElem? sl
  · cases t <;> rfl
  · cases t <;> rfl

end Tetl.C03
