/-
C03 — static_set / flat_set<static_vector>: every valid operation succeeds on a state that satisfies
the owner invariant `VecInv` and re-establishes it (`sstep_inv`); the invariant holds in every
reachable state (`sreach_inv`).

The lookups (`boundLoop`, `setFind`) only read: under `specified` every probe of `lower_bound` hits a
live element that holds a value, the returned position is inside `[0, size]`, and the memory is the
one that was passed in.  The inserting members are "optionally append one element, rotate it into
place" (`InsRes`), wrapped by the construction and destruction of one local (`static_set`) or two
locals (`flat_set::emplace`: `key`, and `value_type a` of `static_vector::emplace`).
-/
import TetlProofs.C03.Vec
namespace Tetl.C03

/-! ### lookups -/

/-- the `lower_bound` loop on elements that hold values: succeeds, result inside the range -/
theorem boundLoop_ok (base : Nat) (p : Nat → Bool) (m : Mem) : ∀ (count first : Nat),
    Spec m (base + first) (base + first + count) →
    ∃ r, boundLoop base p m first count = .ok r ∧ first ≤ r ∧ r ≤ first + count := by
  intro count
  induction count using Nat.strongRecOn with
  | _ count ih =>
    intro first hs
    by_cases hc : count > 0
    · obtain ⟨x, hx⟩ := hs (base + first + count / 2) (by omega) (by omega)
      by_cases hp : p x = true
      · obtain ⟨r, hr, h1, h2⟩ := ih (count - (count / 2 + 1)) (by omega) (first + count / 2 + 1)
          (fun y a b => hs y (by omega) (by omega))
        refine ⟨r, ?_, by omega, by omega⟩
        rw [boundLoop, dif_pos hc, useAt_eq hx]
        dsimp only
        rw [if_pos hp]
        exact hr
      · obtain ⟨r, hr, h1, h2⟩ := ih (count / 2) (by omega) first
          (fun y a b => hs y (by omega) (by omega))
        refine ⟨r, ?_, by omega, by omega⟩
        rw [boundLoop, dif_pos hc, useAt_eq hx]
        dsimp only
        rw [if_neg hp]
        exact hr
    · refine ⟨first, ?_, Nat.le_refl _, by omega⟩
      rw [boundLoop, dif_neg hc]

/-- `lower_bound(key)` and the presence test: position within `[0, n]`, and `< n` when present -/
theorem setFind_ok (base : Nat) (m : Mem) (n key : Nat) (hs : Spec m base (base + n)) :
    ∃ p b, setFind base m n key = .ok (p, b) ∧ p ≤ n ∧ (b = true → p < n) := by
  obtain ⟨r, hr, _, h2⟩ := boundLoop_ok base (fun x => x < key) m n 0
    (fun y a b => hs y (by omega) (by omega))
  by_cases e : r = n
  · exact ⟨r, false, by simp [setFind, hr, e], by omega, fun h => by cases h⟩
  · obtain ⟨x, hx⟩ := hs (base + r) (by omega) (by omega)
    exact ⟨r, !decide (key < x), by simp only [setFind, hr, e, if_false, useAt_eq hx], by omega,
      fun _ => by omega⟩

/-! ### constructions from a caller object: nothing but the target slot changes -/

/-- the new element is built from arguments or from an object of the caller -/
def How.isExt : How → Prop
  | .copy (.ext _) => True
  | .move (.ext _) => True
  | .value _ => True
  | _ => False

theorem How.isExt.ok {h : How} (he : h.isExt) (m : Mem) (ty : Nat) : h.ok m ty := by
  cases h with
  | value v => trivial
  | copy s =>
    cases s with
    | ext v => trivial
    | slot j => exact he.elim
  | move s =>
    cases s with
    | ext v => trivial
    | slot j => exact he.elim

theorem emplaceAt_ext (k : Kind) {m : Mem} {i ty : Nat} {h : How} (hi : m.sh i = some none) (he : h.isExt) :
    ∃ m', emplaceAt k m i ty h = .ok m' ∧ (∀ y, m'.sh y = if y = i then some (some ty) else m.sh y) ∧
      (∀ x, x ≠ i → m'.slots[x]? = m.slots[x]?) ∧ (Bal m → Bal m') := by
  obtain ⟨m', r, s, b⟩ := emplaceAt_sh k (ty := ty) hi (he.ok m ty)
  refine ⟨m', r, s, ?_, b⟩
  have hi' := sh_dead_iff.mp hi
  have fin : ∀ m'' : Mem, emplaceAt k m i ty h = .ok m'' → Eff m m'' i i →
      ∀ x, x ≠ i → m'.slots[x]? = m.slots[x]? := by
    intro m'' r' e x hx
    rw [r] at r'
    cases r'
    exact e.frame x hx hx
  cases h with
  | value v =>
    obtain ⟨m'', h1, h2, _⟩ := valueC_spec hi' ty v
    exact fin m'' h1 h2
  | copy s =>
    cases s with
    | ext v =>
      obtain ⟨m'', h1, h2, _⟩ := copyC_ext_spec hi' ty v
      exact fin m'' h1 h2
    | slot j => exact he.elim
  | move s =>
    cases s with
    | ext v =>
      obtain ⟨m'', h1, h2, _⟩ := moveC_ext_spec k hi' ty v
      exact fin m'' h1 h2
    | slot j => exact he.elim

theorem Spec.of_frame {m m' : Mem} {lo hi : Nat} (hs : Spec m lo hi)
    (h : ∀ x, lo ≤ x → x < hi → m'.slots[x]? = m.slots[x]?) : Spec m' lo hi :=
  fun y h1 h2 => by rw [h y h1 h2]; exact hs y h1 h2

/-! ### the inserting members -/

/-- result of an inserting member of a set with `n` elements: either nothing happened to the shape
    (key present, or set full), or slot `base+n` became alive -/
def InsRes (cap base n : Nat) (m m' : Mem) (n' : Nat) : Prop :=
  (Bal m → Bal m') ∧
    ((n' = n ∧ ∀ y, m'.sh y = m.sh y) ∨
     (n < cap ∧ n' = n + 1 ∧ ∀ y, m'.sh y = if y = base + n then some (some 0) else m.sh y))

theorem InsRes.vres {cap base n : Nat} {m m' : Mem} {n' : Nat} (hv : VecAt m base cap n) (hn : n ≤ cap)
    (h : InsRes cap base n m m' n') : VRes cap base m m' n' := by
  obtain ⟨hb, h | h⟩ := h
  · obtain ⟨rfl, hs⟩ := h
    exact VRes.of_keep hs hb (VRes.refl (hv.of_eq (fun y _ _ => hs y)) hn)
  · obtain ⟨hlt, rfl, hs⟩ := h
    exact vres_push hv hlt hs hb

/-- a slot outside the vector keeps its shape under an inserting member -/
theorem InsRes.out {cap base n : Nat} {m m' : Mem} {n' : Nat} (h : InsRes cap base n m m' n') {y : Nat}
    (hy : y < base ∨ base + cap ≤ y) : m'.sh y = m.sh y := by
  obtain ⟨_, h | h⟩ := h
  · exact h.2 y
  · rw [h.2.2 y, if_neg (by omega)]

/-- a local element object is built in the dead slot `loc` outside the vector, an inserting member
    runs, and the local is destroyed -/
theorem InsRes.wrap {cap base n : Nat} {m m1 m2 m3 : Mem} {n' loc : Nat} (hloc : m.sh loc = some none)
    (hlo : loc < base ∨ base + cap ≤ loc)
    (s1 : ∀ y, m1.sh y = if y = loc then some (some 0) else m.sh y) (b1 : Bal m → Bal m1)
    (h : InsRes cap base n m1 m2 n')
    (s3 : ∀ y, m3.sh y = if y = loc then some none else m2.sh y) (b3 : Bal m2 → Bal m3) :
    InsRes cap base n m m3 n' := by
  obtain ⟨hb, h | h⟩ := h
  · refine ⟨fun x => b3 (hb (b1 x)), Or.inl ⟨h.1, fun y => ?_⟩⟩
    rw [s3 y, h.2 y, s1 y]
    by_cases hy : y = loc
    · subst hy
      rw [if_pos rfl, hloc]
    · rw [if_neg hy, if_neg hy]
  · exact ⟨fun x => b3 (hb (b1 x)), Or.inr ⟨h.1, h.2.1, local_wrap hloc (by omega) s1 h.2.2 s3⟩⟩

theorem ssInsertMove_ok (k : Kind) {cap base tmp : Nat} {m : Mem} {n : Nat} (key : Nat) {s : Src}
    (hv : VecAt m base cap n) (hn : n ≤ cap) (hsp : Spec m base (base + n)) (hs : s.ok m 0)
    (htmp : m.sh tmp = some none) (hto : tmp < base ∨ base + cap ≤ tmp) :
    ∃ m' n', ssInsertMove k cap base tmp m n key s = .ok (m', n') ∧ InsRes cap base n m m' n' := by
  obtain ⟨p, b, r0, hp, _⟩ := setFind_ok base m n key hsp
  cases b with
  | true => exact ⟨m, n, by simp [ssInsertMove, r0], id, Or.inl ⟨rfl, fun _ => rfl⟩⟩
  | false =>
    by_cases hc : n ≥ cap
    · exact ⟨m, n, by simp [ssInsertMove, r0, hc], id, Or.inl ⟨rfl, fun _ => rfl⟩⟩
    · have hlt : n < cap := by omega
      obtain ⟨m1, r1, s1, b1⟩ := svEmplaceBack_ok k (cap := cap) (base := base) (h := .move s) hlt
        (hv.dead (Nat.le_refl _) (by omega)) hs
      obtain ⟨m2, r2, k2⟩ := rotateEv_keep k base tmp m1 p n (n + 1) hp (by omega) (by omega)
        (fun y h1 h2 => by
          rw [s1 y]
          split
          · rfl
          · exact hv.live (by omega) (by omega) (by omega))
        (by rw [s1 tmp, if_neg (by omega)]; exact htmp)
      refine ⟨m2, n + 1, by simp [ssInsertMove, r0, Nat.not_le.mpr hlt, r1, r2], fun hb => k2.bal (b1 hb),
        Or.inr ⟨hlt, rfl, fun y => ?_⟩⟩
      rw [k2.sh y, s1 y]

theorem ssInsertLocal_ok (k : Kind) {cap base tmp loc : Nat} {m : Mem} {n : Nat} (key : Nat) {h : How}
    (hv : VecAt m base cap n) (hn : n ≤ cap) (hsp : Spec m base (base + n)) (he : h.isExt)
    (htmp : m.sh tmp = some none) (hto : tmp < base ∨ base + cap ≤ tmp) (hloc : m.sh loc = some none)
    (hlo : loc < base ∨ base + cap ≤ loc) (hlt' : loc ≠ tmp) :
    ∃ m' n', ssInsertLocal k cap base tmp loc m n key h = .ok (m', n') ∧ InsRes cap base n m m' n' := by
  obtain ⟨m1, r1, s1, f1, b1⟩ := emplaceAt_ext k (ty := 0) hloc he
  have hv1 : VecAt m1 base cap n := fun y h1 h2 => by rw [s1 y, if_neg (by omega)]; exact hv y h1 h2
  obtain ⟨m2, n2, r2, i2⟩ := ssInsertMove_ok k (tmp := tmp) key (s := .slot loc) hv1 hn
    (hsp.of_frame (fun x h1 h2 => f1 x (by omega)))
    (by show m1.sh loc = _; rw [s1 loc, if_pos rfl])
    (by rw [s1 tmp, if_neg (fun e => hlt' e.symm)]; exact htmp) hto
  obtain ⟨m3, r3, s3, _, b3, _, _⟩ := destroyAt_sh (m := m2) (i := loc) (ty := 0)
    (by rw [i2.out hlo, s1 loc, if_pos rfl])
  exact ⟨m3, n2, by simp [ssInsertLocal, r1, r2, r3], i2.wrap hloc hlo s1 b1 s3 b3⟩

theorem ssEraseKey_ok (k : Kind) {cap base : Nat} {m : Mem} {n : Nat} (key : Nat) (hv : VecAt m base cap n)
    (hn : n ≤ cap) (hsp : Spec m base (base + n)) :
    ∃ m' n', ssEraseKey k base m n key = .ok (m', n') ∧ VRes cap base m m' n' := by
  obtain ⟨p, b, r0, _, hp⟩ := setFind_ok base m n key hsp
  cases b with
  | true =>
    obtain ⟨m', n', r, v⟩ := svEraseAt_ok k hv hn (hp rfl)
    exact ⟨m', n', by simp only [ssEraseKey, r0, if_true]; exact r, v⟩
  | false => exact ⟨m, n, by simp [ssEraseKey, r0], VRes.refl hv hn⟩

theorem fsEmplace_ok (k : Kind) {cap base tmp loc loc2 : Nat} {m : Mem} {n : Nat} (key : Nat) {h : How}
    (hv : VecAt m base cap n) (hn : n ≤ cap) (hsp : Spec m base (base + n)) (he : h.isExt)
    (htmp : m.sh tmp = some none) (hto : tmp < base ∨ base + cap ≤ tmp) (hloc : m.sh loc = some none)
    (hlo : loc < base ∨ base + cap ≤ loc) (hlt' : loc ≠ tmp) (hloc2 : m.sh loc2 = some none)
    (hlo2 : loc2 < base ∨ base + cap ≤ loc2) (h2t : loc2 ≠ tmp) (h2l : loc2 ≠ loc) :
    ∃ m' n', fsEmplace k cap base tmp loc loc2 m n key h = .ok (m', n') ∧ InsRes cap base n m m' n' := by
  obtain ⟨m1, r1, s1, f1, b1⟩ := emplaceAt_ext k (ty := 0) hloc2 he
  have hv1 : VecAt m1 base cap n := fun y h1 h2 => by rw [s1 y, if_neg (by omega)]; exact hv y h1 h2
  have l21 : m1.sh loc2 = some (some 0) := by rw [s1 loc2, if_pos rfl]
  obtain ⟨p, b, r0, hp, _⟩ := setFind_ok base m1 n key (hsp.of_frame (fun x h1 h2 => f1 x (by omega)))
  -- nothing is inserted: the key is present or the set is full
  have skip : (b || decide (n = cap)) = true →
      ∃ m' n', fsEmplace k cap base tmp loc loc2 m n key h = .ok (m', n') ∧ InsRes cap base n m m' n' := by
    intro hb
    obtain ⟨m3, r3, s3, _, b3, _, _⟩ := destroyAt_sh (m := m1) (i := loc2) (ty := 0) l21
    refine ⟨m3, n, ?_, (show InsRes cap base n m1 m1 n from ⟨id, Or.inl ⟨rfl, fun _ => rfl⟩⟩).wrap
      hloc2 hlo2 s1 b1 s3 b3⟩
    simp only [fsEmplace, r1, r0]
    rw [if_pos hb]
    simp only [r3]
  cases b with
  | true => exact skip rfl
  | false =>
    by_cases hc : n = cap
    · exact skip (by simp [hc])
    · have hlt : n < cap := by omega
      obtain ⟨m2, r2, s2, b2⟩ := svEmplace_ok k (pos := p) (h := .move (.slot loc2)) (tmp := tmp) (loc := loc)
        hv1 hlt hp l21 (by rw [s1 tmp, if_neg (fun e => h2t e.symm)]; exact htmp) hto
        (by rw [s1 loc, if_neg (fun e => h2l e.symm)]; exact hloc) hlo hlt'
      obtain ⟨m3, r3, s3, _, b3, _, _⟩ := destroyAt_sh (m := m2) (i := loc2) (ty := 0)
        (by rw [s2 loc2, if_neg (by omega)]; exact l21)
      refine ⟨m3, n + 1, ?_, (show InsRes cap base n m1 m2 (n + 1) from ⟨b2, Or.inr ⟨hlt, rfl, s2⟩⟩).wrap
        hloc2 hlo2 s1 b1 s3 b3⟩
      simp only [fsEmplace, r1, r0]
      rw [if_neg (by simp [hc])]
      simp only [r2, r3]

theorem fsEraseKey_ok (k : Kind) {cap base : Nat} {m : Mem} {n : Nat} (key : Nat) (hv : VecAt m base cap n)
    (hn : n ≤ cap) (hsp : Spec m base (base + n)) :
    ∃ m' n', fsEraseKey k base m n key = .ok (m', n') ∧ VRes cap base m m' n' :=
  svEraseIf_ok k (fun x => x == key) hv hn hsp

/-- `extract()`: the elements are moved into a local vector, the set is cleared, the local vector is
    destroyed -/
theorem fsExtract_ok (k : Kind) {cap a tv : Nat} {m : Mem} {na : Nat} (ha : VecAt m a cap na)
    (ht : VecAt m tv cap 0) (hna : na ≤ cap) (dat : a + cap ≤ tv ∨ tv + cap ≤ a) :
    ∃ m1 m2 m3, svConstructFrom k true m tv a na = .ok (m1, na) ∧ svClear a m1 na = .ok (m2, 0) ∧
      destroyRange m2 na tv = .ok m3 ∧ VRes cap a m m3 0 := by
  obtain ⟨m1, r1, v1, _, _⟩ := svConstructFrom_ok k true (src := a) (ns := na) ht
    (fun y h1 h2 => ha.live hna h1 h2) hna
  have ha1 : VecAt m1 a cap na := ha.of_eq (fun y h1 h2 => v1.upd.out (by omega))
  obtain ⟨m2, r2, v2, _⟩ := svClear_ok ha1 hna
  have ht2 : VecAt m2 tv cap na := v1.upd.at.of_eq (fun y h1 h2 => v2.upd.out (by omega))
  obtain ⟨m3, r3, s3, _, b3⟩ := destroyRange_ok na m2 tv (fun y h1 h2 => ht2.live hna h1 h2)
  refine ⟨m1, m2, m3, r1, r2, r3, Nat.zero_le _, fun y => ?_, fun h => b3 (v2.bal (v1.bal h))⟩
  rw [s3 y, v2.upd y, v1.upd y]
  (repeat' split) <;> vec_leaf ht, y

/-- `replace(move(c))` with a local vector `c` of `xs.length` elements built in `tv`: the set takes the elements
    by move assignment, the moved-from elements of `c` are destroyed with it -/
theorem fsReplace_ok (k : Kind) {cap a tv : Nat} {m : Mem} {na : Nat} (xs : List Nat) (ha : VecAt m a cap na)
    (ht : VecAt m tv cap 0) (hna : na ≤ cap) (hx : xs.length ≤ cap) (dat : a + cap ≤ tv ∨ tv + cap ≤ a) :
    ∃ m', fsReplace k cap a tv m na xs = .ok (m', xs.length) ∧ VRes cap a m m' xs.length := by
  obtain ⟨m1, r1, s1, b1⟩ := svPushValues_ok k cap tv xs m 0 (by omega)
    (fun y h1 h2 => ht.dead (by omega) (by omega))
  simp only [Nat.zero_add, Nat.add_zero] at r1 s1
  have ha1 : VecAt m1 a cap na := ha.of_eq (fun y h1 h2 => by rw [s1 y, if_neg (by omega)])
  obtain ⟨m2, r2, v2, _, _⟩ := svAssignFrom_ok k true (src := tv) (ns := xs.length) ha1 hna
    (fun y h1 h2 => by rw [s1 y, if_pos ⟨h1, h2⟩]) hx (by omega)
  have hs2 : ∀ y, tv ≤ y → y < tv + xs.length → m2.sh y = some (some 0) := fun y h1 h2 => by
    rw [v2.upd.out (by omega), s1 y, if_pos ⟨h1, h2⟩]
  obtain ⟨m3, r3, s3, _, b3⟩ := destroyRange_ok xs.length m2 tv hs2
  refine ⟨m3, by simp only [fsReplace, r1, r2, r3], hx, fun y => ?_, fun h => b3 (v2.bal (b1 h))⟩
  rw [s3 y, v2.upd y, s1 y]
  (repeat' split) <;> vec_leaf ht, y

/-! ### the locals of the session -/

theorem inv_t2 {cap : Nat} {s : St} (hi : VecInv cap s) : s.mem.sh (t2Of cap) = some none := by
  obtain ⟨_, _, hs, _⟩ := (vinv_iff cap s).mp hi
  rw [hs]
  exact vshape_dead (by show 2 * cap ≤ 3 * cap + 2; omega) (by show 3 * cap + 2 < 3 * cap + 3; omega)

theorem out_t2 (cap : Nat) (t : Bool) : t2Of cap < baseOf cap t ∨ baseOf cap t + cap ≤ t2Of cap := by
  cases t <;> simp only [baseOf, t2Of, Bool.false_eq_true, if_false, if_true] <;> omega

theorem t2_ne_t0 (cap : Nat) : t2Of cap ≠ t0Of cap := by
  simp only [t2Of, t0Of]
  omega

theorem t2_ne_t1 (cap : Nat) : t2Of cap ≠ t1Of cap := by
  simp only [t2Of, t1Of]
  omega

/-! ### every valid operation keeps the invariant -/

/-- the members that forward to `static_vector` -/
theorem sstep_inv_fwd (k : Kind) (cap : Nat) (s : St) (t : Bool) (op : VOp) (hi : VecInv cap s)
    (hv : vvalid .sv cap s t op = true) : ∃ s', vstep .sv k cap s t op = .ok s' ∧ VecInv cap s' :=
  vstep_inv .sv k cap s t op hi hv

theorem sstep_inv_ss (k : Kind) (cap : Nat) (s : St) (t : Bool) (op : SOp) (hi : VecInv cap s)
    (hv : svalid .ss cap s t op = true) : ∃ s', sstep .ss k cap s t op = .ok s' ∧ VecInv cap s' := by
  obtain ⟨hva, hna⟩ := inv_vecAt hi t
  have ht0 := inv_t0 hi
  have ht1 := inv_t1 hi
  cases op with
  | insc v =>
    have hsp := spec_of_specified (show specified s.mem (baseOf cap t) (s.sz t) = true from hv)
    obtain ⟨m', n', r, i⟩ := ssInsertLocal_ok k (h := .copy (.ext v)) v hva hna hsp trivial ht0 (out_t0 cap t)
      ht1 (out_t1 cap t) (t1_ne_t0 cap)
    have h := upd_inv hi ⟨m', n', r, i.vres hva hna⟩
    exact h
  | insm v =>
    have hsp := spec_of_specified (show specified s.mem (baseOf cap t) (s.sz t) = true from hv)
    obtain ⟨m', n', r, i⟩ := ssInsertMove_ok k (s := .ext v) v hva hna hsp trivial ht0 (out_t0 cap t)
    have h := upd_inv hi ⟨m', n', r, i.vres hva hna⟩
    exact h
  | emplace v =>
    have hsp := spec_of_specified (show specified s.mem (baseOf cap t) (s.sz t) = true from hv)
    obtain ⟨m', n', r, i⟩ := ssInsertLocal_ok k (h := .value v) v hva hna hsp trivial ht0 (out_t0 cap t)
      ht1 (out_t1 cap t) (t1_ne_t0 cap)
    have h := upd_inv hi ⟨m', n', r, i.vres hva hna⟩
    exact h
  | eraseKey v =>
    have hsp := spec_of_specified (show specified s.mem (baseOf cap t) (s.sz t) = true from hv)
    obtain ⟨m', n', r, vr⟩ := ssEraseKey_ok k v hva hna hsp
    have h := upd_inv hi ⟨m', n', r, vr⟩
    exact h
  | eraseAt pos => exact sstep_inv_fwd k cap s t (.eraseAt pos) hi (by simpa [svalid, vvalid] using hv)
  | eraseRange f l => exact sstep_inv_fwd k cap s t (.eraseRange f l) hi (by simpa [svalid, vvalid] using hv)
  | clear => exact sstep_inv_fwd k cap s t .clear hi rfl
  | cctor => exact sstep_inv_fwd k cap s t .cctor hi rfl
  | mctor => exact sstep_inv_fwd k cap s t .mctor hi rfl
  | cassign => exact sstep_inv_fwd k cap s t .cassign hi rfl
  | massign => exact sstep_inv_fwd k cap s t .massign hi rfl
  | cassignSelf => exact sstep_inv_fwd k cap s t .cassignSelf hi rfl
  | swap => exact sstep_inv_fwd k cap s t .swap hi rfl
  | swapSelf => exact sstep_inv_fwd k cap s t .swapSelf hi rfl
  | extract => simp [svalid] at hv
  | replace xs => simp [svalid] at hv

theorem sstep_inv_fs (k : Kind) (cap : Nat) (s : St) (t : Bool) (op : SOp) (hi : VecInv cap s)
    (hv : svalid .fs cap s t op = true) : ∃ s', sstep .fs k cap s t op = .ok s' ∧ VecInv cap s' := by
  obtain ⟨hva, hna⟩ := inv_vecAt hi t
  have ht0 := inv_t0 hi
  have ht1 := inv_t1 hi
  have ht2 := inv_t2 hi
  cases op with
  | insc v =>
    have hsp := spec_of_specified (show specified s.mem (baseOf cap t) (s.sz t) = true from hv)
    obtain ⟨m', n', r, i⟩ := fsEmplace_ok k (h := .copy (.ext v)) v hva hna hsp trivial ht0 (out_t0 cap t)
      ht1 (out_t1 cap t) (t1_ne_t0 cap) ht2 (out_t2 cap t) (t2_ne_t0 cap) (t2_ne_t1 cap)
    have h := upd_inv hi ⟨m', n', r, i.vres hva hna⟩
    exact h
  | insm v =>
    have hsp := spec_of_specified (show specified s.mem (baseOf cap t) (s.sz t) = true from hv)
    obtain ⟨m', n', r, i⟩ := fsEmplace_ok k (h := .move (.ext v)) v hva hna hsp trivial ht0 (out_t0 cap t)
      ht1 (out_t1 cap t) (t1_ne_t0 cap) ht2 (out_t2 cap t) (t2_ne_t0 cap) (t2_ne_t1 cap)
    have h := upd_inv hi ⟨m', n', r, i.vres hva hna⟩
    exact h
  | emplace v =>
    have hsp := spec_of_specified (show specified s.mem (baseOf cap t) (s.sz t) = true from hv)
    obtain ⟨m', n', r, i⟩ := fsEmplace_ok k (h := .value v) v hva hna hsp trivial ht0 (out_t0 cap t)
      ht1 (out_t1 cap t) (t1_ne_t0 cap) ht2 (out_t2 cap t) (t2_ne_t0 cap) (t2_ne_t1 cap)
    have h := upd_inv hi ⟨m', n', r, i.vres hva hna⟩
    exact h
  | eraseKey v =>
    have hsp := spec_of_specified (show specified s.mem (baseOf cap t) (s.sz t) = true from hv)
    obtain ⟨m', n', r, vr⟩ := fsEraseKey_ok k v hva hna hsp
    have h := upd_inv hi ⟨m', n', r, vr⟩
    exact h
  | eraseAt pos => exact sstep_inv_fwd k cap s t (.eraseAt pos) hi (by simpa [svalid, vvalid] using hv)
  | eraseRange f l => exact sstep_inv_fwd k cap s t (.eraseRange f l) hi (by simpa [svalid, vvalid] using hv)
  | clear => exact sstep_inv_fwd k cap s t .clear hi rfl
  | cctor => exact sstep_inv_fwd k cap s t .cctor hi rfl
  | mctor => exact sstep_inv_fwd k cap s t .mctor hi rfl
  | cassign => exact sstep_inv_fwd k cap s t .cassign hi rfl
  | massign => exact sstep_inv_fwd k cap s t .massign hi rfl
  | cassignSelf => exact sstep_inv_fwd k cap s t .cassignSelf hi rfl
  | swap => exact sstep_inv_fwd k cap s t .swap hi rfl
  | swapSelf => exact sstep_inv_fwd k cap s t .swapSelf hi rfl
  | extract =>
    obtain ⟨m1, m2, m3, r1, r2, r3, vr⟩ := fsExtract_ok k hva (inv_tv hi) hna (out_tv cap t)
    exact ⟨s.put t m3 0, by simp only [sstep, r1, r2, r3], inv_put hi vr⟩
  | replace xs =>
    have hp : xs.length ≤ cap := by simpa [svalid] using hv
    obtain ⟨m', r, vr⟩ := fsReplace_ok k xs hva (inv_tv hi) hna hp (out_tv cap t)
    have h := upd_inv hi ⟨m', _, r, vr⟩
    exact h

theorem sstep_inv (fam : SFam) (k : Kind) (cap : Nat) (s : St) (t : Bool) (op : SOp)
    (hi : VecInv cap s) (hv : svalid fam cap s t op = true) :
    ∃ s', sstep fam k cap s t op = .ok s' ∧ VecInv cap s' := by
  cases fam with
  | ss => exact sstep_inv_ss k cap s t op hi hv
  | fs => exact sstep_inv_fs k cap s t op hi hv

theorem sreach_inv {fam : SFam} {k : Kind} {cap : Nat} {s : St} (h : SReach fam k cap s) : VecInv cap s := by
  induction h with
  | init => exact vinit_inv cap
  | step _ hv hs ih =>
    obtain ⟨s'', h1, h2⟩ := sstep_inv fam k cap _ _ _ ih hv
    rw [hs] at h1
    cases h1
    exact h2

end Tetl.C03
