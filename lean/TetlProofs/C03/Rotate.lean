/-
C03 — `rotate`: the swap schedule never runs out of fuel and only names pairs `first ≤ a < b < last`;
`swapEv` / `applySwaps` / `rotateEv` on a range of live elements (with the local `temp` dead and
outside the range) succeed, keep the length, keep the shape of every slot, change nothing outside
the range and preserve the balance.
-/
import TetlProofs.C03.Prim
namespace Tetl.C03

/-! ### the schedule -/

/-- loop invariant of `rotLoop`: `write ≤ nextRead ≤ read`, `write < read` -/
theorem rotLoop_spec (last : Nat) : ∀ (d w r nr : Nat), last - r = d → w < r → w ≤ nr → nr ≤ r → r ≤ last →
    ∃ sw w' nr', rotLoop w r nr last = (sw, w', nr') ∧
      (∀ p ∈ sw, w ≤ p.1 ∧ p.1 < p.2 ∧ p.2 < last) ∧ w' = w + (last - r) ∧ w' ≤ nr' ∧ nr' ≤ last := by
  intro d
  induction d with
  | zero =>
    intro w r nr hd h1 h2 h3 h4
    have hn : ¬ r < last := by omega
    refine ⟨[], w, nr, ?_, ?_, ?_, ?_, ?_⟩
    · rw [rotLoop]; simp [hn]
    · intro p hp; cases hp
    · omega
    · exact h2
    · omega
  | succ d ih =>
    intro w r nr hd h1 h2 h3 h4
    have hlt : r < last := by omega
    obtain ⟨sw, w', nr', he, hp, hw, hwn, hnl⟩ :=
      ih (w + 1) (r + 1) (if w = nr then r else nr) (by omega) (by omega) (by split <;> omega)
        (by split <;> omega) (by omega)
    refine ⟨(w, r) :: sw, w', nr', ?_, ?_, ?_, hwn, hnl⟩
    · rw [rotLoop]; simp [hlt, he]
    · intro p hp'
      rcases List.mem_cons.mp hp' with rfl | hp'
      · exact ⟨Nat.le_refl _, h1, hlt⟩
      · have := hp p hp'
        omega
    · omega

theorem rotSched_ok (fuel first nFirst last : Nat) (h1 : first ≤ nFirst) (h2 : nFirst ≤ last)
    (hf : last - first < fuel) :
    ∃ sw, rotSched fuel first nFirst last = .ok sw ∧ ∀ p ∈ sw, first ≤ p.1 ∧ p.1 < p.2 ∧ p.2 < last := by
  induction fuel generalizing first nFirst with
  | zero => omega
  | succ fuel ih =>
    by_cases e1 : first = nFirst
    · exact ⟨[], by simp [rotSched, e1], fun p hp => by cases hp⟩
    by_cases e2 : nFirst = last
    · exact ⟨[], by simp [rotSched, e2], fun p hp => by cases hp⟩
    obtain ⟨sw, w', nr', he, hp, hw, hwn, hnl⟩ :=
      rotLoop_spec last _ first nFirst first rfl (by omega) (Nat.le_refl _) h1 h2
    obtain ⟨rest, hr, hpr⟩ := ih w' nr' hwn hnl (by omega)
    refine ⟨sw ++ rest, ?_, ?_⟩
    · simp [rotSched, e1, e2, he, hr]
    · intro p hp'
      rcases List.mem_append.mp hp' with hp' | hp'
      · exact hp p hp'
      · have := hpr p hp'
        omega

/-! ### shape-preserving effects inside a range -/

/-- `m'` has the length and every shape of `m`, agrees with `m` outside `[lo, hi)`, keeps the balance -/
structure Keep (m m' : Mem) (lo hi : Nat) : Prop where
  len : m'.slots.length = m.slots.length
  sh : ∀ y, m'.sh y = m.sh y
  frame : ∀ x, (x < lo ∨ hi ≤ x) → m'.slots[x]? = m.slots[x]?
  bal : Bal m → Bal m'

theorem Keep.refl (m : Mem) (lo hi : Nat) : Keep m m lo hi := ⟨rfl, fun _ => rfl, fun _ _ => rfl, id⟩

theorem Keep.trans {m m1 m2 : Mem} {lo hi : Nat} (h1 : Keep m m1 lo hi) (h2 : Keep m1 m2 lo hi) :
    Keep m m2 lo hi :=
  ⟨h2.len.trans h1.len, fun y => (h2.sh y).trans (h1.sh y), fun x hx => (h2.frame x hx).trans (h1.frame x hx),
    fun hb => h2.bal (h1.bal hb)⟩

/-! ### `etl::swap` of two different live elements -/

/-- exact effect of `swapEv`: the two objects exchange what they hold, `temp` is dead again, nothing else
    changes -/
theorem swapEv_spec (k : Kind) {m : Mem} {i j tmp : Nat} {vi vj : Option Nat} (hij : i ≠ j) (hti : tmp ≠ i)
    (htj : tmp ≠ j) (hi : m.slots[i]? = some (.live 0 vi)) (hj : m.slots[j]? = some (.live 0 vj))
    (ht : m.slots[tmp]? = some .dead) :
    ∃ m', swapEv k m i j tmp = .ok m' ∧ m'.slots.length = m.slots.length ∧
      m'.slots[i]? = some (.live 0 vj) ∧ m'.slots[j]? = some (.live 0 vi) ∧
      (∀ x, x ≠ i → x ≠ j → m'.slots[x]? = m.slots[x]?) ∧ (Bal m → Bal m') := by
  have hji : j ≠ i := fun e => hij e.symm
  have hit : i ≠ tmp := fun e => hti e.symm
  have hjt : j ≠ tmp := fun e => htj e.symm
  obtain ⟨m1, r1, e1, a1, u1, b1⟩ := moveC_slot_spec k ht hi
  have j1 : m1.slots[j]? = some (.live 0 vj) := by rw [e1.frame j hjt hji]; exact hj
  obtain ⟨m2, r2, e2, a2, u2, b2⟩ := moveA_slot_spec k hij b1 j1
  have t2 : m2.slots[tmp]? = some (.live 0 vi) := by rw [e2.frame tmp hti htj]; exact a1
  obtain ⟨m3, r3, e3, a3, u3, b3⟩ := moveA_slot_spec k hjt b2 t2
  obtain ⟨m4, r4, e4, a4, _, _⟩ := destroyAt_spec b3
  refine ⟨m4, by simp [swapEv, r1, r2, r3, r4], ?_, ?_, ?_, ?_, ?_⟩
  · rw [e4.len, e3.len, e2.len, e1.len]
  · rw [e4.frame i hit hit, e3.frame i hij hit]; exact a2
  · rw [e4.frame j hjt hjt]; exact a3
  · intro x hxi hxj
    by_cases hxt : x = tmp
    · subst hxt
      rw [a4, ht]
    · rw [e4.frame x hxt hxt, e3.frame x hxj hxt, e2.frame x hxi hxj, e1.frame x hxt hxi]
  · exact fun hb => e4.bal (e3.bal (e2.bal (e1.bal hb)))

/-- `swapEv` on two different live slots of `[lo, hi)` with `temp` dead and outside -/
theorem swapEv_keep (k : Kind) {m : Mem} {i j tmp lo hi : Nat} (hij : i ≠ j) (hil : lo ≤ i) (hih : i < hi)
    (hjl : lo ≤ j) (hjh : j < hi) (hto : tmp < lo ∨ hi ≤ tmp) (hi' : m.sh i = some (some 0))
    (hj' : m.sh j = some (some 0)) (ht : m.sh tmp = some none) :
    ∃ m', swapEv k m i j tmp = .ok m' ∧ Keep m m' lo hi := by
  obtain ⟨vi, hvi⟩ := sh_live_iff.mp hi'
  obtain ⟨vj, hvj⟩ := sh_live_iff.mp hj'
  obtain ⟨m', r, hl, ai, aj, fr, hb⟩ :=
    swapEv_spec k hij (by omega) (by omega) hvi hvj (sh_dead_iff.mp ht)
  refine ⟨m', r, hl, fun y => ?_, fun x hx => fr x (by omega) (by omega), hb⟩
  by_cases hyi : y = i
  · subst hyi
    rw [hi']
    exact sh_live_iff.mpr ⟨_, ai⟩
  · by_cases hyj : y = j
    · subst hyj
      rw [hj']
      exact sh_live_iff.mpr ⟨_, aj⟩
    · exact sh_congr (fr y hyi hyj)

/-! ### the swaps of a schedule, and `rotate` -/

theorem applySwaps_keep (k : Kind) (base tmp lo hi : Nat) (hto : tmp < lo ∨ hi ≤ tmp) :
    ∀ (sw : List (Nat × Nat)) (m : Mem), (∀ p ∈ sw, lo ≤ base + p.1 ∧ p.1 < p.2 ∧ base + p.2 < hi) →
      (∀ y, lo ≤ y → y < hi → m.sh y = some (some 0)) → m.sh tmp = some none →
      ∃ m', applySwaps k base tmp m sw = .ok m' ∧ Keep m m' lo hi := by
  intro sw
  induction sw with
  | nil => intro m _ _ _; exact ⟨m, rfl, Keep.refl m lo hi⟩
  | cons p rest ih =>
    intro m hp hl ht
    obtain ⟨a, b⟩ := p
    have hab := hp (a, b) (List.mem_cons_self ..)
    simp only at hab
    obtain ⟨m1, r1, k1⟩ := swapEv_keep k (i := base + a) (j := base + b) (tmp := tmp) (lo := lo) (hi := hi)
      (by omega) (by omega) (by omega) (by omega) (by omega) hto (hl _ (by omega) (by omega))
      (hl _ (by omega) (by omega)) ht
    obtain ⟨m2, r2, k2⟩ := ih m1 (fun q hq => hp q (List.mem_cons_of_mem _ hq))
      (fun y h1 h2 => by rw [k1.sh y]; exact hl y h1 h2) (by rw [k1.sh tmp]; exact ht)
    exact ⟨m2, by simp [applySwaps, r1, r2], k1.trans k2⟩

/-- `rotate(begin()+first, begin()+nFirst, begin()+last)` on live elements: succeeds and keeps every
    shape; only slots of `[base+first, base+last)` change -/
theorem rotateEv_keep (k : Kind) (base tmp : Nat) (m : Mem) (first nFirst last : Nat) (h1 : first ≤ nFirst)
    (h2 : nFirst ≤ last) (hto : tmp < base + first ∨ base + last ≤ tmp)
    (hl : ∀ y, base + first ≤ y → y < base + last → m.sh y = some (some 0)) (ht : m.sh tmp = some none) :
    ∃ m', rotateEv k base tmp m first nFirst last = .ok m' ∧ Keep m m' (base + first) (base + last) := by
  obtain ⟨sw, hs, hp⟩ := rotSched_ok (last - first + 1) first nFirst last h1 h2 (by omega)
  obtain ⟨m', r, kp⟩ := applySwaps_keep k base tmp (base + first) (base + last) hto sw m
    (fun p hq => by have := hp p hq; omega) hl ht
  exact ⟨m', by simp [rotateEv, hs, r], kp⟩

end Tetl.C03
