/-
C03 — invariants and validity predicates used by the property theorems.
`…valid` are the documented preconditions of the operations (decidable, evaluated on the current
state; the case generator of checks/props/c03.py keeps its histories inside the same predicates).
-/
import Tetl.C03.Session
import Tetl.C07.Model
namespace Tetl.C03

/-- the configuration of the value-level variant model of C07 (`Tetl.C07.Cfg`: number of alternatives and the four
    "all alternatives trivially …" bits of the `requires` clauses of variant.hpp) that belongs to an element kind of this
    model: the same four tests, here derived from the per-member bits -/
def cfgOf (n : Nat) (k : Kind) : Tetl.C07.Cfg :=
  { n := n, trivCC := k.trivCC, trivMC := k.trivMC, trivCA := k.trivCA, trivMA := k.trivMA }

/-- #constructed = #destroyed + #alive -/
def Bal (m : Mem) : Prop := m.cnt.constructed = m.cnt.d + m.liveCount

/-- slots `[lo, lo+n)` hold live elements (type 0) -/
def LiveRange (m : Mem) (lo n : Nat) : Prop := ∀ i, i < n → ∃ v, m.slots[lo + i]? = some (.live 0 v)

/-- slots `[lo, lo+n)` are raw storage -/
def DeadRange (m : Mem) (lo n : Nat) : Prop := ∀ i, i < n → m.slots[lo + i]? = some .dead

/-- every element of `[lo, lo+n)` is alive and holds a value (is not moved-from) -/
def specified (m : Mem) (lo n : Nat) : Bool :=
  (List.range n).all fun i => match m.slots[lo + i]? with
    | some (.live 0 (some _)) => true
    | _ => false

/-- owner invariant of a session of two vectors / sets of capacity `cap`:
    exactly `[0,size)` of each owner alive, no live local, counters balanced -/
structure VecInv (cap : Nat) (s : St) : Prop where
  len : s.mem.slots.length = arenaSize cap
  ha : s.a ≤ cap
  hb : s.b ≤ cap
  liveA : LiveRange s.mem 0 s.a
  deadA : DeadRange s.mem s.a (cap - s.a)
  liveB : LiveRange s.mem cap s.b
  deadB : DeadRange s.mem (cap + s.b) (cap - s.b)
  deadT : DeadRange s.mem (2 * cap) (cap + 3)
  bal : Bal s.mem

/-- documented preconditions of the static_vector / inplace_vector members -/
def vvalid (fam : Fam) (cap : Nat) (s : St) (t : Bool) : VOp → Bool
  | .pushc _ | .pushm _ | .emplaceBack _ => s.sz t < cap
  | .tryPushc _ | .tryPushm _ | .tryEmplaceBack _ => fam == .iv
  | .pop => 0 < s.sz t
  | .insc pos _ | .insm pos _ | .emplace pos _ => fam == .sv && s.sz t < cap && pos ≤ s.sz t
  | .insn pos cnt _ => fam == .sv && pos ≤ s.sz t && s.sz t + cnt ≤ cap
  | .insr pos xs => fam == .sv && pos ≤ s.sz t && s.sz t + xs.length ≤ cap
  | .eraseAt pos => fam == .sv && pos < s.sz t
  | .eraseRange f l => fam == .sv && f ≤ l && l ≤ s.sz t
  | .clear => true
  | .resize sz | .resizev sz _ | .ctorN sz => fam == .sv && sz ≤ cap
  | .assignn cnt _ | .ctorNV cnt _ => fam == .sv && cnt ≤ cap
  | .assignr xs | .ctorR xs => fam == .sv && xs.length ≤ cap
  | .eraseIf md _ => fam == .sv && 0 < md && specified s.mem (baseOf cap t) (s.sz t)
  | .cctor | .mctor => true
  | .cassign | .massign | .cassignSelf | .swap | .swapSelf => fam == .sv

/-- states reachable from two empty vectors by valid operations -/
inductive VReach (fam : Fam) (k : Kind) (cap : Nat) : St → Prop where
  | init : VReach fam k cap (St.init cap 0 0)
  | step {s s' : St} {t : Bool} {op : VOp} : VReach fam k cap s → vvalid fam cap s t op = true →
      vstep fam k cap s t op = .ok s' → VReach fam k cap s'

/-- preconditions of the set members: lookups read the elements, so they must hold values -/
def svalid (fam : SFam) (cap : Nat) (s : St) (t : Bool) : SOp → Bool
  | .insc _ | .insm _ | .emplace _ | .eraseKey _ => specified s.mem (baseOf cap t) (s.sz t)
  | .eraseAt pos => pos < s.sz t
  | .eraseRange f l => f ≤ l && l ≤ s.sz t
  | .extract => fam == .fs
  | .replace xs => fam == .fs && xs.length ≤ cap
  | _ => true

inductive SReach (fam : SFam) (k : Kind) (cap : Nat) : St → Prop where
  | init : SReach fam k cap (St.init cap 0 0)
  | step {s s' : St} {t : Bool} {op : SOp} : SReach fam k cap s → svalid fam cap s t op = true →
      sstep fam k cap s t op = .ok s' → SReach fam k cap s'

/-- the slot of a variant-like owner with live alternative `ix` -/
def VarSlot (trk : Nat → Bool) (m : Mem) (sl ix : Nat) : Prop :=
  if trk ix then ∃ v, m.slots[sl]? = some (.live ix v) else m.slots[sl]? = some .dead

/-- owner invariant of two variant-like owners with `nalt` alternatives -/
structure VarInv (trk : Nat → Bool) (nalt : Nat) (s : St) : Prop where
  len : s.mem.slots.length = arenaSize 1
  ha : s.a < nalt
  hb : s.b < nalt
  slotA : VarSlot trk s.mem 0 s.a
  slotB : VarSlot trk s.mem 1 s.b
  deadT : DeadRange s.mem 2 4
  bal : Bal s.mem

/-- the live alternative of the owner at slot `sl` holds a value (or is not instrumented) -/
def varSpecified (trk : Nat → Bool) (m : Mem) (sl ix : Nat) : Bool :=
  !trk ix || (match m.slots[sl]? with | some (.live _ (some _)) => true | _ => false)

/-- documented preconditions of the variant / optional / expected members.  Self-swap: the generic `swap(a, a)` is
    `T temp(move(a)); a = move(a); a = move(temp);` — when the move constructor of the alternative type is trivial (leaves
    `a` as it is) while its move assignment is user-provided, the second statement move-assigns a value-holding object to
    itself, which like every self-move of a value-holding element is outside the valid histories; every other combination
    of trait bits is inside. -/
def xvalid (k : Kind) (trk : Nat → Bool) (nalt : Nat) (s : St) (t : Bool) : XOp → Bool
  | .emplace j _ | .emplaceCopy j _ | .emplaceMove j _ | .assignCopy j _ | .assignMove j _ => j < nalt
  | .optAssignCopy _ | .optAssignMove _ => 1 < nalt
  | .reset => 0 < nalt
  | .use => varSpecified trk s.mem (baseOf 1 t) (s.sz t)
  | .swapSelf => k.mem == .co || k.tr.mc || !k.tr.ma
  | _ => true

inductive XReach (k : Kind) (trk : Nat → Bool) (nalt : Nat) : St → Prop where
  | init : XReach k trk nalt (xinit trk)
  | step {s s' : St} {t : Bool} {op : XOp} : XReach k trk nalt s → xvalid k trk nalt s t op = true →
      xstep k trk s t op = .ok s' → XReach k trk nalt s'

/-- the slot of a function wrapper with vtable code `c` -/
def FnSlot (m : Mem) (sl c : Nat) : Prop :=
  if c = 0 then m.slots[sl]? = some .dead else ∃ v, m.slots[sl]? = some (.live (c - 1) v)

structure FnInv (s : St) : Prop where
  len : s.mem.slots.length = arenaSize 1
  slotA : FnSlot s.mem 0 s.a
  slotB : FnSlot s.mem 1 s.b
  deadT : DeadRange s.mem 2 4
  bal : Bal s.mem

def fvalid (s : St) (t : Bool) : FOp → Bool
  | .invoke => s.sz t != 0 && varSpecified (fun _ => true) s.mem (baseOf 1 t) 0
  | _ => true

inductive FReach (k : Kind) : St → Prop where
  | init : FReach k (St.init 1 0 0)
  | step {s s' : St} {t : Bool} {op : FOp} : FReach k s → fvalid s t op = true →
      fstep k s t op = .ok s' → FReach k s'

/-- nothing is alive -/
def AllDead (m : Mem) : Prop := ∀ (i : Nat) (s : Slot), m.slots[i]? = some s → s = Slot.dead

end Tetl.C03
