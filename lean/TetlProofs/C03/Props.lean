/-
C03 — property theorems: each element is constructed once and destroyed once.

For every owner family of the model (static_vector / inplace_vector / stack; variant / optional /
expected with any number of alternatives and any set of instrumented alternatives;
inplace_function), every element kind (copy+move, move-only, copy-only), every capacity and every
history (no bound anywhere):

* `…_step_safe`      from a state that satisfies the owner invariant, every operation inside its
                     documented precondition returns `.ok` — none of the illegal transitions
                     (construct over live, use / assign / destroy of dead storage, use as another
                     alternative, self-move of a value-holding object) occurs — and the owner
                     invariant holds again: exactly the slots `[0,size)` (the slot of the live
                     alternative / stored callable) are alive, every local is dead, and
                     #constructed = #destroyed + #alive;
* `…_reach_inv`      hence the invariant holds in every reachable state, in particular for an owner
                     that was the source of a move (moved-from owners stay valid);
* `…_history_safe`   a whole valid history followed by the destruction of both owners runs without
                     error and leaves nothing alive, with #constructed = #destroyed;
* `…_self_id`        self copy-assignment and self-swap return the identical slot contents;
* `rotate_schedule_in_range`, `self_move_of_value_is_error`  the two facts the above rest on that are
                     worth stating on their own.
* `alt_assign_own_id` the converting assignment of a variant from its own live alternative
                     (`v = v[index_v<index()>]`) is a copy self-assignment of the held object and
                     returns the identical slot contents.  Before e7501ef the code destroyed the
                     alternative and then copied from it (finding F-C03-variant-assign-own-alternative,
                     now fixed); the former `alt_…_partial` / `alt_assign_own_counterexample` pair is
                     replaced by the full-strength `alt_step_safe`, `alt_reach_inv`, `alt_history_safe`
                     (`xvalid` excludes no operation any more).
* element kinds: every theorem quantifies over `k : Kind` = the declared members (copy+move, move-only, copy-only) AND
                     one bit per special member (user-provided / defaulted-trivial).  The owners' `requires` clauses test
                     these bits (`Kind.trivCC … trivMA`) and the model takes the path they select — variant's own special
                     member or the defaulted byte-wise one (`varAssignBytes`, the defaulted move constructor of
                     inplace_vector that leaves the source's size alone); the theorems hold for all 3 × 32 combinations.
                     `alt_bytes_assign_unsafe_without_trivial_ctor` shows the byte-wise path is an error for the kind
                     with defaulted assignment and user-provided constructors, which is why the clause has its
                     `is_trivially_copy_constructible_v` half; `alt_traits_consistent` ties the bits to C07's `Cfg`.
Proofs: TetlProofs/C03/Prim.lean, Rotate.lean, Vec.lean, VarFn.lean, Sets.lean.
-/
import TetlProofs.C03.Vec
import TetlProofs.C03.VarFn
import TetlProofs.C03.Sets
namespace Tetl.C03

/-- a history is valid when every operation meets its documented precondition in the state in
    which it is executed (nothing is required of a step the model rejects: the theorems below show
    that this never happens) -/
def histValid {Op : Type} (valid : St → Bool → Op → Bool) (step : St → Bool → Op → Except LErr St) :
    St → List (Bool × Op) → Bool
  | _, [] => true
  | s, (t, op) :: rest =>
    valid s t op && (match step s t op with
      | .ok s1 => histValid valid step s1 rest
      | .error _ => true)

namespace Props

/-! ## the swap cycle of `rotate` stays inside its range and terminates -/

theorem rotate_schedule_in_range (first nFirst last : Nat) (h1 : first ≤ nFirst) (h2 : nFirst ≤ last) :
    ∃ sw, rotSched (last - first + 1) first nFirst last = .ok sw ∧
      ∀ p ∈ sw, first ≤ p.1 ∧ p.1 < p.2 ∧ p.2 < last :=
  rotSched_ok _ first nFirst last h1 h2 (by omega)

example : (0 : Nat) ≤ 1 ∧ 1 ≤ 3 := by decide   -- rotate(begin, begin + 1, begin + 3)

/-! ## the illegal transition behind the `remove_if` self-move -/

theorem self_move_of_value_is_error (k : Kind) (hk : k.mem ≠ .co) (hma : k.tr.ma = true) (m : Mem) (i ty v : Nat)
    (h : m.slots[i]? = some (.live ty (some v))) : moveA k m i ty (.slot i) = .error (.selfMove i) :=
  moveA_self_value_error k hk hma m i ty v h

example : Kind.cm.mem ≠ .co ∧ Kind.cm.tr.ma = true ∧
    (⟨[.live 0 (some 5)], {}⟩ : Mem).slots[0]? = some (.live 0 (some 5)) := ⟨by decide, rfl, rfl⟩

/-! ## static_vector, inplace_vector, stack -/

theorem vec_step_safe (fam : Fam) (k : Kind) (cap : Nat) (s : St) (t : Bool) (op : VOp)
    (hi : VecInv cap s) (hv : vvalid fam cap s t op = true) :
    ∃ s', vstep fam k cap s t op = .ok s' ∧ VecInv cap s' :=
  vstep_inv fam k cap s t op hi hv

example : VecInv 3 (St.init 3 0 0) ∧ vvalid .sv 3 (St.init 3 0 0) false (.insn 0 2 7) = true :=
  ⟨vinit_inv 3, by decide⟩

theorem vec_reach_inv {fam : Fam} {k : Kind} {cap : Nat} {s : St} (h : VReach fam k cap s) : VecInv cap s :=
  vreach_inv h

theorem vec_finish_balanced (cap : Nat) (s : St) (hi : VecInv cap s) :
    ∃ s', vfinish cap s = .ok s' ∧ AllDead s'.mem ∧ s'.mem.cnt.constructed = s'.mem.cnt.d :=
  vfinish_ok cap s hi

/-- no lifetime error on any valid history, and nothing left alive after the owners are destroyed -/
theorem vec_history_safe (fam : Fam) (k : Kind) (cap : Nat) (ops : List (Bool × VOp)) (s : St)
    (hi : VecInv cap s) (hv : histValid (vvalid fam cap) (vstep fam k cap) s ops = true) :
    ∃ s' s'', runOps (vstep fam k cap) s ops = .ok s' ∧ VecInv cap s' ∧
      vfinish cap s' = .ok s'' ∧ AllDead s''.mem ∧ s''.mem.cnt.constructed = s''.mem.cnt.d := by
  induction ops generalizing s with
  | nil =>
    obtain ⟨s'', h1, h2, h3⟩ := vfinish_ok cap s hi
    exact ⟨s, s'', rfl, hi, h1, h2, h3⟩
  | cons x rest ih =>
    obtain ⟨t, op⟩ := x
    simp only [histValid, Bool.and_eq_true] at hv
    obtain ⟨s1, h1, hi1⟩ := vstep_inv fam k cap s t op hi hv.1
    have hv2 := hv.2
    rw [h1] at hv2
    obtain ⟨s', s'', r1, r2, r3, r4, r5⟩ := ih s1 hi1 hv2
    exact ⟨s', s'', by simp only [runOps, h1]; exact r1, r2, r3, r4, r5⟩

example : histValid (vvalid .sv 3) (vstep .sv .cm 3) (St.init 3 0 0)
    [(false, .pushm 1), (false, .emplaceBack 2), (true, .mctor), (true, .swapSelf), (false, .clear), (true, .pop)] = true := by
  decide

/-- self-swap returns the identical slot contents and sizes -/
theorem vec_swap_self_id (k : Kind) (cap : Nat) (s : St) (t : Bool) (hi : VecInv cap s) :
    ∃ s', vstep .sv k cap s t .swapSelf = .ok s' ∧ s'.mem.slots = s.mem.slots ∧ s'.a = s.a ∧ s'.b = s.b :=
  svSwapSelf_id k cap s t hi

/-- copy self-assignment changes nothing at all (the `this == &other` test of the repaired code) -/
theorem vec_copy_assign_self_id (k : Kind) (cap : Nat) (s : St) (t : Bool) :
    vstep .sv k cap s t .cassignSelf = .ok s := by
  simp [vstep]

/-! ## static_set, flat_set<static_vector> -/

theorem set_step_safe (fam : SFam) (k : Kind) (cap : Nat) (s : St) (t : Bool) (op : SOp)
    (hi : VecInv cap s) (hv : svalid fam cap s t op = true) :
    ∃ s', sstep fam k cap s t op = .ok s' ∧ VecInv cap s' :=
  sstep_inv fam k cap s t op hi hv

example : VecInv 3 (St.init 3 0 0) ∧ svalid .fs 3 (St.init 3 0 0) false (.insm 4) = true :=
  ⟨vinit_inv 3, by decide⟩

theorem set_reach_inv {fam : SFam} {k : Kind} {cap : Nat} {s : St} (h : SReach fam k cap s) : VecInv cap s :=
  sreach_inv h

theorem set_history_safe (fam : SFam) (k : Kind) (cap : Nat) (ops : List (Bool × SOp)) (s : St)
    (hi : VecInv cap s) (hv : histValid (svalid fam cap) (sstep fam k cap) s ops = true) :
    ∃ s' s'', runOps (sstep fam k cap) s ops = .ok s' ∧ VecInv cap s' ∧
      vfinish cap s' = .ok s'' ∧ AllDead s''.mem ∧ s''.mem.cnt.constructed = s''.mem.cnt.d := by
  induction ops generalizing s with
  | nil =>
    obtain ⟨s'', h1, h2, h3⟩ := vfinish_ok cap s hi
    exact ⟨s, s'', rfl, hi, h1, h2, h3⟩
  | cons x rest ih =>
    obtain ⟨t, op⟩ := x
    simp only [histValid, Bool.and_eq_true] at hv
    obtain ⟨s1, h1, hi1⟩ := sstep_inv fam k cap s t op hi hv.1
    have hv2 := hv.2
    rw [h1] at hv2
    obtain ⟨s', s'', r1, r2, r3, r4, r5⟩ := ih s1 hi1 hv2
    exact ⟨s', s'', by simp only [runOps, h1]; exact r1, r2, r3, r4, r5⟩

example : histValid (svalid .fs 3) (sstep .fs .cm 3) (St.init 3 0 0)
    [(false, .clear), (true, .mctor), (false, .extract), (false, .swapSelf)] = true := by
  decide

/-! ## variant, optional, expected -/

/-- for EVERY combination of declared members and per-member trait bits (user-provided / defaulted) of the alternative
    type — hence whichever of the two paths the `requires` clauses of variant.hpp select (variant's own special member, or
    the defaulted byte-wise one `varAssignBytes`) — every operation inside its precondition runs without a lifetime
    error (in particular without `notDestroyed` / `notConstructed`) and keeps the owner invariant -/
theorem alt_step_safe (k : Kind) (trk : Nat → Bool) (nalt : Nat) (s : St) (t : Bool) (op : XOp)
    (hi : VarInv trk nalt s) (hv : xvalid k trk nalt s t op = true) :
    ∃ s', xstep k trk s t op = .ok s' ∧ VarInv trk nalt s' :=
  xstep_inv k trk nalt s t op hi hv

example : VarInv (fun _ => true) 3 (xinit fun _ => true) ∧
    xvalid .cm (fun _ => true) 3 (xinit fun _ => true) true (.emplaceMove 2 5) = true :=
  ⟨xinit_inv _ 3 (by decide), by decide⟩

example : VarInv (fun _ => true) 3 (xinit fun _ => true) ∧
    xvalid .cm (fun _ => true) 3 (xinit fun _ => true) false (.assignCopy 0 5) = true ∧
    xvalid .cm (fun _ => true) 3 (xinit fun _ => true) false .assignOwn = true :=
  ⟨xinit_inv _ 3 (by decide), by decide, by decide⟩

-- the mixed kinds: every operation, self-swap included, is inside `xvalid`
example : xvalid .da (fun _ => true) 3 (xinit fun _ => true) false .swapSelf = true ∧
    xvalid .dm (fun _ => true) 3 (xinit fun _ => true) false .swapSelf = true ∧
    xvalid .dc (fun _ => true) 3 (xinit fun _ => true) false .cassign = true := by decide

theorem alt_reach_inv {k : Kind} {trk : Nat → Bool} {nalt : Nat} (hn : 0 < nalt) {s : St}
    (h : XReach k trk nalt s) : VarInv trk nalt s :=
  xreach_inv hn h

theorem alt_finish_balanced (trk : Nat → Bool) (nalt : Nat) (s : St) (hi : VarInv trk nalt s) :
    ∃ s', xfinish trk s = .ok s' ∧ AllDead s'.mem ∧ s'.mem.cnt.constructed = s'.mem.cnt.d :=
  xfinish_ok trk nalt s hi

theorem alt_history_safe (k : Kind) (trk : Nat → Bool) (nalt : Nat) (ops : List (Bool × XOp)) (s : St)
    (hi : VarInv trk nalt s) (hv : histValid (xvalid k trk nalt) (xstep k trk) s ops = true) :
    ∃ s' s'', runOps (xstep k trk) s ops = .ok s' ∧ VarInv trk nalt s' ∧
      xfinish trk s' = .ok s'' ∧ AllDead s''.mem ∧ s''.mem.cnt.constructed = s''.mem.cnt.d := by
  induction ops generalizing s with
  | nil =>
    obtain ⟨s'', h1, h2, h3⟩ := xfinish_ok trk nalt s hi
    exact ⟨s, s'', rfl, hi, h1, h2, h3⟩
  | cons x rest ih =>
    obtain ⟨t, op⟩ := x
    simp only [histValid, Bool.and_eq_true] at hv
    obtain ⟨s1, h1, hi1⟩ := xstep_inv k trk nalt s t op hi hv.1
    have hv2 := hv.2
    rw [h1] at hv2
    obtain ⟨s', s'', r1, r2, r3, r4, r5⟩ := ih s1 hi1 hv2
    exact ⟨s', s'', by simp only [runOps, h1]; exact r1, r2, r3, r4, r5⟩

example : histValid (xvalid .mo (fun _ => true) 3) (xstep .mo fun _ => true) (xinit fun _ => true)
    [(false, .emplace 1 4), (true, .massign), (true, .swapSelf), (false, .emplaceMove 2 6), (false, .swap)] = true := by
  decide

-- converting assignments onto the held alternative, onto another one, and from the own alternative
example : histValid (xvalid .cm (fun _ => true) 3) (xstep .cm fun _ => true) (xinit fun _ => true)
    [(false, .assignCopy 0 4), (false, .assignMove 2 5), (false, .assignMove 2 6), (false, .assignOwn), (true, .mctor),
     (false, .assignOwn), (false, .assignCopy 2 7)] = true := by
  decide

-- mixed kinds (defaulted assignment / defaulted move operations): cross-alternative copy and move assignment, swap, self-swap
example : histValid (xvalid .da (fun _ => true) 3) (xstep .da fun _ => true) (xinit fun _ => true)
    [(false, .emplace 1 4), (true, .cassign), (false, .emplaceMove 2 6), (true, .massign), (true, .swapSelf), (false, .swap)] = true := by
  decide

example : histValid (xvalid .dm (fun _ => true) 3) (xstep .dm fun _ => true) (xinit fun _ => true)
    [(false, .emplace 1 4), (true, .cassign), (false, .emplaceMove 2 6), (true, .massign), (true, .swapSelf), (false, .swap)] = true := by
  decide

-- an element type whose every special member is trivial: all four byte-wise paths are taken
example : histValid (xvalid ⟨.cm, ⟨false, false, false, false, false⟩⟩ (fun _ => true) 3)
    (xstep ⟨.cm, ⟨false, false, false, false, false⟩⟩ fun _ => true) (xinit fun _ => true)
    [(false, .emplace 1 4), (true, .cassign), (false, .emplaceMove 2 6), (true, .massign), (true, .swapSelf), (false, .swap)] = true := by
  decide

/-- what the `is_trivially_copy_constructible_v` half of `detail::variant_trivially_copy_assignable` is for: for an
    alternative type with a defaulted copy assignment next to a user-provided copy constructor and destructor (`Kind.da`)
    the `requires` clause selects variant's own copy assignment (`trivCA = false`); the defaulted byte-wise assignment
    would overwrite the held alternative without destroying it … -/
theorem alt_bytes_assign_unsafe_without_trivial_ctor :
    Kind.da.trivCA = false ∧ (!Kind.da.tr.ca) = true ∧
    varAssignBytes .da (fun _ => true) false ⟨[.live 0 (some 1), .live 1 (some 2), .dead, .dead, .dead, .dead], {}⟩ 0 0 1 1
      = .error (.notDestroyed 0) ∧
    -- … and, from a variant holding a trivial alternative, let the new alternative appear without a constructor call
    varAssignBytes .da (fun j => j != 0) false ⟨[.dead, .live 1 (some 2), .dead, .dead, .dead, .dead], {}⟩ 0 0 1 1
      = .error (.notConstructed 0) :=
  ⟨rfl, rfl, rfl, rfl⟩

/-- the path tests of this model are those of the value-level variant model of C07 (`Tetl.C07.assign`,
    `Tetl.C07.construct` branch on the bits of `cfgOf n k`), and the bits are consistent: trivially copy (move)
    assignable in variant's sense implies trivially copy (move) constructible and trivially destructible -/
theorem alt_traits_consistent (n : Nat) (k : Kind) (mv : Bool) :
    ((if mv then (cfgOf n k).trivMA else (cfgOf n k).trivCA) = (if mv then k.trivMA else k.trivCA)) ∧
    ((cfgOf n k).trivCA = true → (cfgOf n k).trivCC = true ∧ k.trivD = true) ∧
    ((cfgOf n k).trivMA = true → (cfgOf n k).trivMC = true ∧ k.trivD = true) := by
  rcases k with ⟨mem, ⟨cc, mc, ca, ma, dt⟩⟩
  cases mem <;> cases cc <;> cases mc <;> cases ca <;> cases ma <;> cases dt <;> cases mv <;> simp [cfgOf, Kind.trivCC, Kind.trivMC, Kind.trivCA, Kind.trivMA, Kind.trivD]

theorem alt_copy_assign_self_id (k : Kind) (trk : Nat → Bool) (nalt : Nat) (s : St) (t : Bool)
    (hi : VarInv trk nalt s) :
    ∃ s', xstep k trk s t .cassignSelf = .ok s' ∧ s'.mem.slots = s.mem.slots ∧ s'.a = s.a ∧ s'.b = s.b :=
  xcassignSelf_id k trk nalt s t hi

/-- `v = v[index_v<index()>]` (converting assignment from the own live alternative) changes nothing -/
theorem alt_assign_own_id (k : Kind) (trk : Nat → Bool) (nalt : Nat) (s : St) (t : Bool)
    (hi : VarInv trk nalt s) :
    ∃ s', xstep k trk s t .assignOwn = .ok s' ∧ s'.mem.slots = s.mem.slots ∧ s'.a = s.a ∧ s'.b = s.b :=
  xassignOwn_id k trk nalt s t hi

theorem alt_swap_self_id (k : Kind) (trk : Nat → Bool) (nalt : Nat) (s : St) (t : Bool)
    (hi : VarInv trk nalt s) (hv : xvalid k trk nalt s t .swapSelf = true) :
    ∃ s', xstep k trk s t .swapSelf = .ok s' ∧ s'.mem.slots = s.mem.slots ∧ s'.a = s.a ∧ s'.b = s.b :=
  xswapSelf_id k trk nalt s t hi hv

example : VarInv (fun _ => true) 3 (xinit fun _ => true) ∧
    xvalid .dm (fun _ => true) 3 (xinit fun _ => true) false .swapSelf = true :=
  ⟨xinit_inv _ 3 (by decide), by decide⟩

/-! ## inplace_function -/

theorem fn_step_safe (k : Kind) (s : St) (t : Bool) (op : FOp) (hi : FnInv s) (hv : fvalid s t op = true) :
    ∃ s', fstep k s t op = .ok s' ∧ FnInv s' :=
  fstep_inv k s t op hi hv

example : FnInv (St.init 1 0 0) ∧ fvalid (St.init 1 0 0) false (.assignMove 1 3) = true :=
  ⟨finit_inv, by decide⟩

theorem fn_reach_inv {k : Kind} {s : St} (h : FReach k s) : FnInv s := freach_inv h

theorem fn_finish_balanced (s : St) (hi : FnInv s) :
    ∃ s', ffinish s = .ok s' ∧ AllDead s'.mem ∧ s'.mem.cnt.constructed = s'.mem.cnt.d :=
  ffinish_ok s hi

theorem fn_history_safe (k : Kind) (ops : List (Bool × FOp)) (s : St)
    (hi : FnInv s) (hv : histValid fvalid (fstep k) s ops = true) :
    ∃ s' s'', runOps (fstep k) s ops = .ok s' ∧ FnInv s' ∧
      ffinish s' = .ok s'' ∧ AllDead s''.mem ∧ s''.mem.cnt.constructed = s''.mem.cnt.d := by
  induction ops generalizing s with
  | nil =>
    obtain ⟨s'', h1, h2, h3⟩ := ffinish_ok s hi
    exact ⟨s, s'', rfl, hi, h1, h2, h3⟩
  | cons x rest ih =>
    obtain ⟨t, op⟩ := x
    simp only [histValid, Bool.and_eq_true] at hv
    obtain ⟨s1, h1, hi1⟩ := fstep_inv k s t op hi hv.1
    have hv2 := hv.2
    rw [h1] at hv2
    obtain ⟨s', s'', r1, r2, r3, r4, r5⟩ := ih s1 hi1 hv2
    exact ⟨s', s'', by simp only [runOps, h1]; exact r1, r2, r3, r4, r5⟩

example : histValid fvalid (fstep .co) (St.init 1 0 0)
    [(false, .assignCopy 1 4), (false, .massignSelf), (true, .cassign), (true, .invoke), (false, .swap)] = true := by
  decide

/-- copy and move self-assignment preserve the stored callable -/
theorem fn_assign_self_id (k : Kind) (mv : Bool) (s : St) (t : Bool) (hi : FnInv s) :
    ∃ s', fstep k s t (if mv then .massignSelf else .cassignSelf) = .ok s' ∧
      s'.mem.slots = s.mem.slots ∧ s'.a = s.a ∧ s'.b = s.b :=
  fassignSelf_id k mv s t hi

/-- self-swap is a no-op (the repaired `this == &other` test) -/
theorem fn_swap_self_id (k : Kind) (s : St) (t : Bool) : fstep k s t .swapSelf = .ok s :=
  fswapSelf_id k s t

end Props
end Tetl.C03
