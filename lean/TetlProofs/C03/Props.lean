/-
C03 — property theorems (being assembled; see Vec.lean / VarFn.lean for the proofs).
-/
import TetlProofs.C03.Defs
namespace Tetl.C03.Props
open Tetl.C03

/-- a fresh arena holds no object -/
theorem fresh_all_dead (n : Nat) : AllDead (Mem.fresh n) := by
  intro i s h
  simp only [Mem.fresh, List.getElem?_replicate] at h
  split at h <;> simp_all

end Tetl.C03.Props
