import TetlProofs.C03.Defs
/-
C03 — variant-like owners (variant / optional / expected) and inplace_function:
every valid operation succeeds (no lifetime error), keeps the owner invariant and the
constructed/destroyed balance; finishing a session leaves nothing alive; self-assignment and
self-swap leave the owner unchanged.

Method: the arena of a `cap = 1` session has six slots, so a state satisfying the invariant is
`[x0, x1, dead, dead, dead, dead]` with `x0`, `x1` described by the owner's index / vtable code
(`varInv_shape`, `fnInv_shape`); on that concrete shape every operation is evaluated by `simp`
after the case splits on target, kind, instrumentation and index equalities.
-/
namespace Tetl.C03
namespace VarFn

/-- 1 for a live slot, 0 for raw storage -/
def lv (x : Slot) : Nat := if x.isLive then 1 else 0

@[simp] theorem lv_dead : lv .dead = 0 := rfl
@[simp] theorem lv_live (ty : Nat) (v : Option Nat) : lv (.live ty v) = 1 := rfl

theorem list6 (l : List Slot) (h : l.length = 6) :
    ∃ x0 x1 x2 x3 x4 x5, l = [x0, x1, x2, x3, x4, x5] := by
  rcases l with _ | ⟨x0, _ | ⟨x1, _ | ⟨x2, _ | ⟨x3, _ | ⟨x4, _ | ⟨x5, _ | ⟨x6, l⟩⟩⟩⟩⟩⟩⟩ <;>
    simp only [List.length_cons, List.length_nil] at h <;> first | omega | exact ⟨_, _, _, _, _, _, rfl⟩

theorem liveCount6 (x0 x1 x2 x3 x4 x5 : Slot) (c : Cnt) :
    Mem.liveCount ⟨[x0, x1, x2, x3, x4, x5], c⟩ = lv x0 + lv x1 + lv x2 + lv x3 + lv x4 + lv x5 := by
  cases x0 <;> cases x1 <;> cases x2 <;> cases x3 <;> cases x4 <;> cases x5 <;> rfl

theorem deadRange6 (x0 x1 x2 x3 x4 x5 : Slot) (c : Cnt) :
    DeadRange ⟨[x0, x1, x2, x3, x4, x5], c⟩ 2 4 ↔
      x2 = .dead ∧ x3 = .dead ∧ x4 = .dead ∧ x5 = .dead := by
  constructor
  · intro h
    have h0 := h 0 (by omega)
    have h1 := h 1 (by omega)
    have h2 := h 2 (by omega)
    have h3 := h 3 (by omega)
    simp at h0 h1 h2 h3
    exact ⟨h0, h1, h2, h3⟩
  · rintro ⟨rfl, rfl, rfl, rfl⟩ i hi
    rcases i with _ | _ | _ | _ | i
    · simp
    · simp
    · simp
    · simp
    · omega

theorem allDead6 (c : Cnt) : AllDead ⟨[.dead, .dead, .dead, .dead, .dead, .dead], c⟩ := by
  intro i s h
  rcases i with _ | _ | _ | _ | _ | _ | i <;> simp at h <;> exact h.symm

/-- slot condition of a variant-like owner, on the slot itself -/
def vok (trk : Nat → Bool) (x : Slot) (ix : Nat) : Prop :=
  if trk ix then ∃ v, x = .live ix v else x = .dead

theorem vok_cases {trk : Nat → Bool} {x : Slot} {ix : Nat} (h : vok trk x ix) :
    (trk ix = true ∧ ∃ v, x = .live ix v) ∨ (trk ix = false ∧ x = .dead) := by
  unfold vok at h
  cases ht : trk ix <;> simp [ht] at h
  · exact Or.inr ⟨rfl, h⟩
  · exact Or.inl ⟨rfl, h⟩

theorem varInv6 (trk : Nat → Bool) (nalt : Nat) (x0 x1 x2 x3 x4 x5 : Slot) (c : Cnt) (a b : Nat) :
    VarInv trk nalt ⟨⟨[x0, x1, x2, x3, x4, x5], c⟩, a, b⟩ ↔
      (a < nalt ∧ b < nalt ∧ vok trk x0 a ∧ vok trk x1 b ∧
        x2 = .dead ∧ x3 = .dead ∧ x4 = .dead ∧ x5 = .dead ∧
        c.vc + c.cc + c.mc = c.d + (lv x0 + lv x1 + lv x2 + lv x3 + lv x4 + lv x5)) := by
  constructor
  · intro h
    have hd := (deadRange6 _ _ _ _ _ _ _).1 h.deadT
    have hb := h.bal
    unfold Bal at hb
    rw [liveCount6] at hb
    have hA := h.slotA
    have hB := h.slotB
    unfold VarSlot at hA hB
    refine ⟨h.ha, h.hb, ?_, ?_, hd.1, hd.2.1, hd.2.2.1, hd.2.2.2, ?_⟩
    · simpa [vok] using hA
    · simpa [vok] using hB
    · simpa [Cnt.constructed, Nat.add_assoc] using hb
  · rintro ⟨ha, hb, hA, hB, h2, h3, h4, h5, hbal⟩
    refine ⟨rfl, ha, hb, ?_, ?_, ?_, ?_⟩
    · unfold VarSlot; simpa [vok] using hA
    · unfold VarSlot; simpa [vok] using hB
    · exact (deadRange6 _ _ _ _ _ _ _).2 ⟨h2, h3, h4, h5⟩
    · unfold Bal; rw [liveCount6]; simpa [Cnt.constructed, Nat.add_assoc] using hbal

/-- representation of a state satisfying the variant invariant -/
theorem varInv_shape {trk : Nat → Bool} {nalt : Nat} {s : St} (h : VarInv trk nalt s) :
    ∃ x0 x1 c, s = ⟨⟨[x0, x1, .dead, .dead, .dead, .dead], c⟩, s.a, s.b⟩ ∧
      s.a < nalt ∧ s.b < nalt ∧ vok trk x0 s.a ∧ vok trk x1 s.b ∧
      c.vc + c.cc + c.mc = c.d + (lv x0 + lv x1) := by
  obtain ⟨x0, x1, x2, x3, x4, x5, hl⟩ := list6 s.mem.slots h.len
  obtain ⟨⟨sl, c⟩, a, b⟩ := s
  simp only at hl
  subst hl
  obtain ⟨ha, hb, hA, hB, rfl, rfl, rfl, rfl, hbal⟩ := (varInv6 ..).1 h
  exact ⟨x0, x1, c, rfl, ha, hb, hA, hB, by simpa using hbal⟩


/-- everything the variant operations unfold to -/
macro "vf_simp" "[" ts:Lean.Parser.Tactic.simpLemma,* "]" : tactic => `(tactic|
  simp [xstep, St.upd, St.put, St.put2, St.sz, baseOf, tvOf, varEmplace, vDestroy, vConstruct, emplaceAt,
    valueC, copyC, moveC, copyA, moveA, destroyAt, constructAt, assignAt, srcVal, srcMoved, Mem.get, Mem.set,
    bumpVc, bumpCc, bumpMc, bumpCa, bumpMa, bumpD, varConstructFrom, varAssignFrom, varAssignBytes, varAssignValue, varSwap, optAssignValue,
    varUse, useAt, varInv6, vok, Kind.trivCC, Kind.trivMC, Kind.trivCA, Kind.trivMA, Kind.trivD, $ts,*])

theorem x_emplace (k : Kind) (trk : Nat → Bool) (nalt : Nat) (x0 x1 : Slot) (c : Cnt) (a b : Nat) (t : Bool)
    (ha : a < nalt) (hb : b < nalt) (hA : vok trk x0 a) (hB : vok trk x1 b)
    (hbal : c.vc + c.cc + c.mc = c.d + (lv x0 + lv x1))
    (j : Nat) (h : How) (hh : ∀ x, h ≠ .copy (.slot x) ∧ h ≠ .move (.slot x)) (hj : j < nalt) :
    ∃ s', St.upd ⟨⟨[x0, x1, .dead, .dead, .dead, .dead], c⟩, a, b⟩ t (varEmplace k trk ⟨[x0, x1, .dead, .dead, .dead, .dead], c⟩ (baseOf 1 t) (if t then b else a) j h) = .ok s' ∧ VarInv trk nalt s' := by
  rcases vok_cases hA with ⟨ht0, v0, rfl⟩ | ⟨ht0, rfl⟩ <;>
  rcases vok_cases hB with ⟨ht1, v1, rfl⟩ | ⟨ht1, rfl⟩ <;>
  cases htj : trk j <;> cases t <;>
  rcases h with ⟨_ | _⟩ | ⟨_ | _⟩ | _ <;> (try exact absurd rfl (hh _).1) <;> (try exact absurd rfl (hh _).2) <;>
  rcases k with ⟨mem, tr⟩ <;> cases mem <;> simp only [lv_live, lv_dead] at hbal <;> vf_simp [ht0, ht1, htj] <;> omega

/-- converting assignment `v = t` / `v = move(t)` from an object of the caller -/
theorem x_convAssign (k : Kind) (trk : Nat → Bool) (nalt : Nat) (x0 x1 : Slot) (c : Cnt) (a b : Nat) (t : Bool)
    (ha : a < nalt) (hb : b < nalt) (hA : vok trk x0 a) (hB : vok trk x1 b)
    (hbal : c.vc + c.cc + c.mc = c.d + (lv x0 + lv x1))
    (mv : Bool) (j v : Nat) (hj : j < nalt) :
    ∃ s', St.upd ⟨⟨[x0, x1, .dead, .dead, .dead, .dead], c⟩, a, b⟩ t (varAssignValue k trk mv ⟨[x0, x1, .dead, .dead, .dead, .dead], c⟩ (baseOf 1 t) (if t then b else a) j (.ext v)) = .ok s' ∧ VarInv trk nalt s' := by
  by_cases haj : a = j <;> by_cases hbj : b = j <;>
  rcases vok_cases hA with ⟨ht0, v0, rfl⟩ | ⟨ht0, rfl⟩ <;>
  rcases vok_cases hB with ⟨ht1, v1, rfl⟩ | ⟨ht1, rfl⟩ <;>
  cases htj : trk j <;> (try rw [haj] at ht0) <;> (try rw [hbj] at ht1) <;> (try exact absurd (ht0.symm.trans ht1) (by decide)) <;>
  (try exact absurd (ht0.symm.trans htj) (by decide)) <;> (try exact absurd (ht1.symm.trans htj) (by decide)) <;> cases t <;>
  cases mv <;>
  rcases k with ⟨mem, tr⟩ <;> cases mem <;> simp only [lv_live, lv_dead] at hbal <;> vf_simp [ht0, ht1, htj, haj, hbj] <;> omega

/-- converting assignment from the variant's own live alternative, `v = v[index_v<index()>]`: a copy
    self-assignment of the held object; ok, invariant, and nothing changes -/
theorem x_assignOwn (k : Kind) (trk : Nat → Bool) (nalt : Nat) (x0 x1 : Slot) (c : Cnt) (a b : Nat) (t : Bool)
    (ha : a < nalt) (hb : b < nalt) (hA : vok trk x0 a) (hB : vok trk x1 b)
    (hbal : c.vc + c.cc + c.mc = c.d + (lv x0 + lv x1)) :
    ∃ s', xstep k trk ⟨⟨[x0, x1, .dead, .dead, .dead, .dead], c⟩, a, b⟩ t .assignOwn = .ok s' ∧ VarInv trk nalt s' ∧
      s'.mem.slots = [x0, x1, .dead, .dead, .dead, .dead] ∧ s'.a = a ∧ s'.b = b := by
  rcases vok_cases hA with ⟨ht0, v0, rfl⟩ | ⟨ht0, rfl⟩ <;>
  rcases vok_cases hB with ⟨ht1, v1, rfl⟩ | ⟨ht1, rfl⟩ <;>
  cases t <;>
  simp only [lv_live, lv_dead] at hbal <;> vf_simp [ht0, ht1] <;> omega

/-! The operations whose path depends on the trait bits (`variant = variant` and everything built on it) are proved per
set of declared members, with the five trait bits universally quantified: `kind_all` reassembles them. -/

theorem kind_all {P : Kind → Prop} (k : Kind)
    (h : ∀ mem cc mc ca ma dt, P ⟨mem, ⟨cc, mc, ca, ma, dt⟩⟩) : P k := by
  rcases k with ⟨mem, ⟨cc, mc, ca, ma, dt⟩⟩
  exact h ..

/-- `optional<T> = t` / `= move(t)`: the converting assignment with alternative 1 selected (assign through when engaged,
    else emplace); the operand is an object of the caller, so of the trait bits only the declared members matter -/
theorem x_optAssign (k : Kind) (mv : Bool) (trk : Nat → Bool) (nalt : Nat) (x0 x1 : Slot) (c : Cnt) (a b : Nat) (t : Bool)
    (ha : a < nalt) (hb : b < nalt) (hA : vok trk x0 a) (hB : vok trk x1 b)
    (hbal : c.vc + c.cc + c.mc = c.d + (lv x0 + lv x1))
    (v : Nat) (hj : 1 < nalt) :
    ∃ s', St.upd ⟨⟨[x0, x1, .dead, .dead, .dead, .dead], c⟩, a, b⟩ t (optAssignValue k trk ⟨[x0, x1, .dead, .dead, .dead, .dead], c⟩ (baseOf 1 t) (if t then b else a) (tvOf 1)
        (if mv then .move (.ext v) else .copy (.ext v))) = .ok s' ∧ VarInv trk nalt s' := by
  by_cases ha1 : a = 1 <;> by_cases hb1 : b = 1 <;>
  rcases vok_cases hA with ⟨ht0, v0, rfl⟩ | ⟨ht0, rfl⟩ <;>
  rcases vok_cases hB with ⟨ht1, v1, rfl⟩ | ⟨ht1, rfl⟩ <;>
  cases htj : trk 1 <;> (try rw [ha1] at ht0) <;> (try rw [hb1] at ht1) <;> (try exact absurd (ht0.symm.trans ht1) (by decide)) <;>
  (try exact absurd (ht0.symm.trans htj) (by decide)) <;> (try exact absurd (ht1.symm.trans htj) (by decide)) <;> cases t <;>
  cases mv <;>
  rcases k with ⟨mem, tr⟩ <;> cases mem <;> simp only [lv_live, lv_dead] at hbal <;> vf_simp [ht0, ht1, htj, ha1, hb1] <;> omega

theorem x_ctor (k : Kind) (trk : Nat → Bool) (nalt : Nat) (x0 x1 : Slot) (c : Cnt) (a b : Nat) (t : Bool)
    (ha : a < nalt) (hb : b < nalt) (hA : vok trk x0 a) (hB : vok trk x1 b)
    (hbal : c.vc + c.cc + c.mc = c.d + (lv x0 + lv x1)) (mv : Bool) :
    ∃ s', xstep k trk ⟨⟨[x0, x1, .dead, .dead, .dead, .dead], c⟩, a, b⟩ t (if mv then .mctor else .cctor) = .ok s' ∧ VarInv trk nalt s' := by
  rcases vok_cases hA with ⟨ht0, v0, rfl⟩ | ⟨ht0, rfl⟩ <;>
  rcases vok_cases hB with ⟨ht1, v1, rfl⟩ | ⟨ht1, rfl⟩ <;>
  cases t <;> cases mv <;>
  rcases k with ⟨mem, ⟨cc, mc, ca, ma, dt⟩⟩ <;> cases mem <;> cases mc <;> simp only [lv_live, lv_dead] at hbal <;> vf_simp [ht0, ht1] <;> omega

abbrev XAssignP (mv : Bool) (k : Kind) : Prop :=
  ∀ (trk : Nat → Bool) (nalt : Nat) (x0 x1 : Slot) (c : Cnt) (a b : Nat) (t : Bool),
    a < nalt → b < nalt → vok trk x0 a → vok trk x1 b → c.vc + c.cc + c.mc = c.d + (lv x0 + lv x1) →
    ∃ s', xstep k trk ⟨⟨[x0, x1, .dead, .dead, .dead, .dead], c⟩, a, b⟩ t (if mv then .massign else .cassign) = .ok s' ∧ VarInv trk nalt s'

set_option hygiene false in
local macro "x_assign_tac" : tactic => `(tactic|
  (intro cc mc ca ma dt trk nalt x0 x1 c a b t ha hb hA hB hbal
   have hba : (b = a) = (a = b) := propext eq_comm
   by_cases hab : a = b <;>
   rcases vok_cases hA with ⟨ht0, v0, rfl⟩ | ⟨ht0, rfl⟩ <;>
   rcases vok_cases hB with ⟨ht1, v1, rfl⟩ | ⟨ht1, rfl⟩ <;>
   (try rw [hab] at ht0) <;> (try exact absurd (ht0.symm.trans ht1) (by decide)) <;>
   cases t <;>
   cases mc <;> cases ma <;> cases dt <;>
   simp only [lv_live, lv_dead] at hbal <;> vf_simp [ht0, ht1, hba, hab] <;> omega))

set_option hygiene false in
local macro "x_assign_tac_co" : tactic => `(tactic|
  (intro cc mc ca ma dt trk nalt x0 x1 c a b t ha hb hA hB hbal
   have hba : (b = a) = (a = b) := propext eq_comm
   by_cases hab : a = b <;>
   rcases vok_cases hA with ⟨ht0, v0, rfl⟩ | ⟨ht0, rfl⟩ <;>
   rcases vok_cases hB with ⟨ht1, v1, rfl⟩ | ⟨ht1, rfl⟩ <;>
   (try rw [hab] at ht0) <;> (try exact absurd (ht0.symm.trans ht1) (by decide)) <;>
   cases t <;>
   cases cc <;> cases ca <;> cases dt <;>
   simp only [lv_live, lv_dead] at hbal <;> vf_simp [ht0, ht1, hba, hab] <;> omega))

/-- copy assignment: the declared members do not matter, the path depends on `cc`, `ca`, `dt` -/
theorem x_assign_c : ∀ mem cc mc ca ma dt, XAssignP false ⟨mem, ⟨cc, mc, ca, ma, dt⟩⟩ := by
  intro mem cc mc ca ma dt trk nalt x0 x1 c a b t ha hb hA hB hbal
  have hba : (b = a) = (a = b) := propext eq_comm
  by_cases hab : a = b <;>
  rcases vok_cases hA with ⟨ht0, v0, rfl⟩ | ⟨ht0, rfl⟩ <;>
  rcases vok_cases hB with ⟨ht1, v1, rfl⟩ | ⟨ht1, rfl⟩ <;>
  (try rw [hab] at ht0) <;> (try exact absurd (ht0.symm.trans ht1) (by decide)) <;>
  cases t <;> cases cc <;> cases ca <;> cases dt <;>
  simp only [lv_live, lv_dead] at hbal <;> vf_simp [ht0, ht1, hba, hab] <;> omega

theorem x_assign_cm_m : ∀ cc mc ca ma dt, XAssignP true ⟨.cm, ⟨cc, mc, ca, ma, dt⟩⟩ := by x_assign_tac
theorem x_assign_mo_m : ∀ cc mc ca ma dt, XAssignP true ⟨.mo, ⟨cc, mc, ca, ma, dt⟩⟩ := by x_assign_tac
theorem x_assign_co_m : ∀ cc mc ca ma dt, XAssignP true ⟨.co, ⟨cc, mc, ca, ma, dt⟩⟩ := by x_assign_tac_co

theorem x_assign (k : Kind) (mv : Bool) : XAssignP mv k :=
  kind_all (P := XAssignP mv) k fun mem => by
    cases mv
    · exact x_assign_c mem
    · cases mem
      · exact x_assign_cm_m
      · exact x_assign_mo_m
      · exact x_assign_co_m

abbrev XSwapP (t : Bool) (k : Kind) : Prop :=
  ∀ (trk : Nat → Bool) (nalt : Nat) (x0 x1 : Slot) (c : Cnt) (a b : Nat),
    a < nalt → b < nalt → vok trk x0 a → vok trk x1 b → c.vc + c.cc + c.mc = c.d + (lv x0 + lv x1) →
    ∃ s', xstep k trk ⟨⟨[x0, x1, .dead, .dead, .dead, .dead], c⟩, a, b⟩ t .swap = .ok s' ∧ VarInv trk nalt s'

set_option hygiene false in
local macro "x_swap_tac" : tactic => `(tactic|
  (intro cc mc ca ma dt trk nalt x0 x1 c a b ha hb hA hB hbal
   have hba : (b = a) = (a = b) := propext eq_comm
   by_cases hab : a = b <;>
   rcases vok_cases hA with ⟨ht0, v0, rfl⟩ | ⟨ht0, rfl⟩ <;>
   rcases vok_cases hB with ⟨ht1, v1, rfl⟩ | ⟨ht1, rfl⟩ <;>
   (try rw [hab] at ht0) <;> (try exact absurd (ht0.symm.trans ht1) (by decide)) <;>
   cases mc <;> cases ma <;> cases dt <;>
   simp only [lv_live, lv_dead] at hbal <;> vf_simp [ht0, ht1, hba, hab] <;> omega))

set_option hygiene false in
local macro "x_swap_tac_co" : tactic => `(tactic|
  (intro cc mc ca ma dt trk nalt x0 x1 c a b ha hb hA hB hbal
   have hba : (b = a) = (a = b) := propext eq_comm
   by_cases hab : a = b <;>
   rcases vok_cases hA with ⟨ht0, v0, rfl⟩ | ⟨ht0, rfl⟩ <;>
   rcases vok_cases hB with ⟨ht1, v1, rfl⟩ | ⟨ht1, rfl⟩ <;>
   (try rw [hab] at ht0) <;> (try exact absurd (ht0.symm.trans ht1) (by decide)) <;>
   cases cc <;> cases ca <;> cases dt <;>
   simp only [lv_live, lv_dead] at hbal <;> vf_simp [ht0, ht1, hba, hab] <;> omega))

theorem x_swap_cm_a : ∀ cc mc ca ma dt, XSwapP false ⟨.cm, ⟨cc, mc, ca, ma, dt⟩⟩ := by x_swap_tac
theorem x_swap_cm_b : ∀ cc mc ca ma dt, XSwapP true ⟨.cm, ⟨cc, mc, ca, ma, dt⟩⟩ := by x_swap_tac
theorem x_swap_mo_a : ∀ cc mc ca ma dt, XSwapP false ⟨.mo, ⟨cc, mc, ca, ma, dt⟩⟩ := by x_swap_tac
theorem x_swap_mo_b : ∀ cc mc ca ma dt, XSwapP true ⟨.mo, ⟨cc, mc, ca, ma, dt⟩⟩ := by x_swap_tac
theorem x_swap_co_a : ∀ cc mc ca ma dt, XSwapP false ⟨.co, ⟨cc, mc, ca, ma, dt⟩⟩ := by x_swap_tac_co
theorem x_swap_co_b : ∀ cc mc ca ma dt, XSwapP true ⟨.co, ⟨cc, mc, ca, ma, dt⟩⟩ := by x_swap_tac_co

theorem x_swap (k : Kind) (t : Bool) : XSwapP t k :=
  kind_all (P := XSwapP t) k fun mem => by
    cases mem <;> cases t
    · exact x_swap_cm_a
    · exact x_swap_cm_b
    · exact x_swap_mo_a
    · exact x_swap_mo_b
    · exact x_swap_co_a
    · exact x_swap_co_b

/-- self-swap and copy-self-assignment: ok, invariant, and nothing changes (self-swap inside `xvalid`) -/
abbrev XSelfP (sw : Bool) (k : Kind) : Prop :=
  ∀ (trk : Nat → Bool) (nalt : Nat) (x0 x1 : Slot) (c : Cnt) (a b : Nat) (t : Bool),
    a < nalt → b < nalt → vok trk x0 a → vok trk x1 b → c.vc + c.cc + c.mc = c.d + (lv x0 + lv x1) →
    (sw = true → (k.mem == .co || k.tr.mc || !k.tr.ma) = true) →
    ∃ s', xstep k trk ⟨⟨[x0, x1, .dead, .dead, .dead, .dead], c⟩, a, b⟩ t (if sw then .swapSelf else .cassignSelf) = .ok s' ∧ VarInv trk nalt s' ∧
      s'.mem.slots = [x0, x1, .dead, .dead, .dead, .dead] ∧ s'.a = a ∧ s'.b = b

set_option hygiene false in
local macro "x_self_tac" : tactic => `(tactic|
  (intro cc mc ca ma dt trk nalt x0 x1 c a b t ha hb hA hB hbal hv
   rcases vok_cases hA with ⟨ht0, v0, rfl⟩ | ⟨ht0, rfl⟩ <;>
   rcases vok_cases hB with ⟨ht1, v1, rfl⟩ | ⟨ht1, rfl⟩ <;>
   cases t <;> (try cases v0) <;> (try cases v1) <;>
   cases mc <;> cases ma <;> cases dt <;>
   (try (have hx := hv rfl; simp at hx; done)) <;>
   simp only [lv_live, lv_dead] at hbal <;> vf_simp [ht0, ht1] <;> omega))

set_option hygiene false in
local macro "x_self_tac_co" : tactic => `(tactic|
  (intro cc mc ca ma dt trk nalt x0 x1 c a b t ha hb hA hB hbal hv
   rcases vok_cases hA with ⟨ht0, v0, rfl⟩ | ⟨ht0, rfl⟩ <;>
   rcases vok_cases hB with ⟨ht1, v1, rfl⟩ | ⟨ht1, rfl⟩ <;>
   cases t <;> (try cases v0) <;> (try cases v1) <;>
   cases cc <;> cases ca <;> cases dt <;>
   (try (have hx := hv rfl; simp at hx; done)) <;>
   simp only [lv_live, lv_dead] at hbal <;> vf_simp [ht0, ht1] <;> omega))

/-- copy self-assignment: the declared members do not matter, the path depends on `cc`, `ca`, `dt` -/
theorem x_self_a : ∀ mem cc mc ca ma dt, XSelfP false ⟨mem, ⟨cc, mc, ca, ma, dt⟩⟩ := by
  intro mem
  x_self_tac_co
theorem x_self_cm_s : ∀ cc mc ca ma dt, XSelfP true ⟨.cm, ⟨cc, mc, ca, ma, dt⟩⟩ := by x_self_tac
theorem x_self_mo_s : ∀ cc mc ca ma dt, XSelfP true ⟨.mo, ⟨cc, mc, ca, ma, dt⟩⟩ := by x_self_tac
theorem x_self_co_s : ∀ cc mc ca ma dt, XSelfP true ⟨.co, ⟨cc, mc, ca, ma, dt⟩⟩ := by x_self_tac_co

theorem x_self (k : Kind) (sw : Bool) : XSelfP sw k :=
  kind_all (P := XSelfP sw) k fun mem => by
    cases sw
    · exact x_self_a mem
    · cases mem
      · exact x_self_cm_s
      · exact x_self_mo_s
      · exact x_self_co_s

theorem x_use (k : Kind) (trk : Nat → Bool) (nalt : Nat) (x0 x1 : Slot) (c : Cnt) (a b : Nat) (t : Bool)
    (ha : a < nalt) (hb : b < nalt) (hA : vok trk x0 a) (hB : vok trk x1 b)
    (hbal : c.vc + c.cc + c.mc = c.d + (lv x0 + lv x1))
    (hv : varSpecified trk ⟨[x0, x1, .dead, .dead, .dead, .dead], c⟩ (baseOf 1 t) (if t then b else a) = true) :
    ∃ s', xstep k trk ⟨⟨[x0, x1, .dead, .dead, .dead, .dead], c⟩, a, b⟩ t .use = .ok s' ∧ VarInv trk nalt s' := by
  rcases vok_cases hA with ⟨ht0, v0, rfl⟩ | ⟨ht0, rfl⟩ <;>
  rcases vok_cases hB with ⟨ht1, v1, rfl⟩ | ⟨ht1, rfl⟩ <;>
  cases t <;> simp [varSpecified, baseOf, ht0, ht1] at hv <;> (try cases v0) <;> (try cases v1) <;>
  (try cases hv) <;>
  simp only [lv_live, lv_dead] at hbal <;> vf_simp [ht0, ht1] <;> omega



/-- slot condition of a function wrapper, on the slot itself -/
def fok (x : Slot) (c : Nat) : Prop :=
  if c = 0 then x = .dead else ∃ v, x = .live (c - 1) v

theorem fok_cases {x : Slot} {c : Nat} (h : fok x c) :
    (c = 0 ∧ x = .dead) ∨ (∃ j v, c = j + 1 ∧ x = .live j v) := by
  unfold fok at h
  rcases c with _ | j
  · simp at h; exact Or.inl ⟨rfl, h⟩
  · simp at h; obtain ⟨v, h⟩ := h; exact Or.inr ⟨j, v, rfl, h⟩

theorem fnInv6 (x0 x1 x2 x3 x4 x5 : Slot) (c : Cnt) (a b : Nat) :
    FnInv ⟨⟨[x0, x1, x2, x3, x4, x5], c⟩, a, b⟩ ↔
      (fok x0 a ∧ fok x1 b ∧
        x2 = .dead ∧ x3 = .dead ∧ x4 = .dead ∧ x5 = .dead ∧
        c.vc + c.cc + c.mc = c.d + (lv x0 + lv x1 + lv x2 + lv x3 + lv x4 + lv x5)) := by
  constructor
  · intro h
    have hd := (deadRange6 _ _ _ _ _ _ _).1 h.deadT
    have hb := h.bal
    unfold Bal at hb
    rw [liveCount6] at hb
    have hA := h.slotA
    have hB := h.slotB
    unfold FnSlot at hA hB
    refine ⟨?_, ?_, hd.1, hd.2.1, hd.2.2.1, hd.2.2.2, ?_⟩
    · simpa [fok] using hA
    · simpa [fok] using hB
    · simpa [Cnt.constructed, Nat.add_assoc] using hb
  · rintro ⟨hA, hB, h2, h3, h4, h5, hbal⟩
    refine ⟨rfl, ?_, ?_, ?_, ?_⟩
    · unfold FnSlot; simpa [fok] using hA
    · unfold FnSlot; simpa [fok] using hB
    · exact (deadRange6 _ _ _ _ _ _ _).2 ⟨h2, h3, h4, h5⟩
    · unfold Bal; rw [liveCount6]; simpa [Cnt.constructed, Nat.add_assoc] using hbal

theorem fnInv_shape {s : St} (h : FnInv s) :
    ∃ x0 x1 c, s = ⟨⟨[x0, x1, .dead, .dead, .dead, .dead], c⟩, s.a, s.b⟩ ∧
      fok x0 s.a ∧ fok x1 s.b ∧
      c.vc + c.cc + c.mc = c.d + (lv x0 + lv x1) := by
  obtain ⟨x0, x1, x2, x3, x4, x5, hl⟩ := list6 s.mem.slots h.len
  obtain ⟨⟨sl, c⟩, a, b⟩ := s
  simp only at hl
  subst hl
  obtain ⟨hA, hB, rfl, rfl, rfl, rfl, hbal⟩ := (fnInv6 ..).1 h
  exact ⟨x0, x1, c, rfl, hA, hB, by simpa using hbal⟩

macro "vf_fsimp" "[" ts:Lean.Parser.Tactic.simpLemma,* "]" : tactic => `(tactic|
  simp [fstep, St.upd, St.put, St.put2, St.sz, baseOf, tvOf, t0Of, emplaceAt,
    valueC, copyC, moveC, copyA, moveA, destroyAt, constructAt, assignAt, srcVal, srcMoved, Mem.get, Mem.set,
    bumpVc, bumpCc, bumpMc, bumpCa, bumpMa, bumpD, fnDestroyCur, fnRelocate, fnCopy, fnFromCallable,
    fnCopyConstruct, fnMoveConstruct, fnAssignParam, fnAssignFrom, fnAssignCallable, fnFromOtherCap, fnReset, fnSwap, fnInvoke,
    useAt, fnInv6, fok, $ts,*])

theorem f_callable (k : Kind) (x0 x1 : Slot) (c : Cnt) (a b : Nat) (t : Bool)
    (hA : fok x0 a) (hB : fok x1 b)
    (hbal : c.vc + c.cc + c.mc = c.d + (lv x0 + lv x1)) (asg mv : Bool) (j v : Nat) :
    ∃ s', fstep k ⟨⟨[x0, x1, .dead, .dead, .dead, .dead], c⟩, a, b⟩ t (if asg then (if mv then .assignMove j v else .assignCopy j v) else (if mv then .ctorMove j v else .ctorCopy j v)) = .ok s' ∧ FnInv s' := by
  rcases fok_cases hA with ⟨rfl, rfl⟩ | ⟨a, v0, rfl, rfl⟩ <;>
  rcases fok_cases hB with ⟨rfl, rfl⟩ | ⟨b, v1, rfl, rfl⟩ <;>
  cases t <;> cases asg <;> cases mv <;>
  rcases k with ⟨mem, ⟨cc, mc, ca, ma, dt⟩⟩ <;> cases mem <;> cases mc <;> simp only [lv_live, lv_dead] at hbal <;> vf_fsimp [] <;> omega

/-- construction / assignment from a local function object of another capacity -/
theorem f_conv (k : Kind) (x0 x1 : Slot) (c : Cnt) (a b : Nat) (t : Bool)
    (hA : fok x0 a) (hB : fok x1 b)
    (hbal : c.vc + c.cc + c.mc = c.d + (lv x0 + lv x1)) (asg mv : Bool) (j v : Nat) :
    ∃ s', fstep k ⟨⟨[x0, x1, .dead, .dead, .dead, .dead], c⟩, a, b⟩ t (.conv asg mv j v) = .ok s' ∧ FnInv s' := by
  rcases fok_cases hA with ⟨rfl, rfl⟩ | ⟨a, v0, rfl, rfl⟩ <;>
  rcases fok_cases hB with ⟨rfl, rfl⟩ | ⟨b, v1, rfl, rfl⟩ <;>
  cases t <;> cases asg <;> cases mv <;>
  rcases k with ⟨mem, ⟨cc, mc, ca, ma, dt⟩⟩ <;> cases mem <;> cases mc <;> simp only [lv_live, lv_dead] at hbal <;> vf_fsimp [] <;> omega

theorem f_reset (k : Kind) (x0 x1 : Slot) (c : Cnt) (a b : Nat) (t : Bool)
    (hA : fok x0 a) (hB : fok x1 b)
    (hbal : c.vc + c.cc + c.mc = c.d + (lv x0 + lv x1)) :
    ∃ s', fstep k ⟨⟨[x0, x1, .dead, .dead, .dead, .dead], c⟩, a, b⟩ t .reset = .ok s' ∧ FnInv s' := by
  rcases fok_cases hA with ⟨rfl, rfl⟩ | ⟨a, v0, rfl, rfl⟩ <;>
  rcases fok_cases hB with ⟨rfl, rfl⟩ | ⟨b, v1, rfl, rfl⟩ <;>
  cases t <;>
  rcases k with ⟨mem, ⟨cc, mc, ca, ma, dt⟩⟩ <;> cases mem <;> cases mc <;> simp only [lv_live, lv_dead] at hbal <;> vf_fsimp [] <;> omega

theorem f_ctor (k : Kind) (x0 x1 : Slot) (c : Cnt) (a b : Nat) (t : Bool)
    (hA : fok x0 a) (hB : fok x1 b)
    (hbal : c.vc + c.cc + c.mc = c.d + (lv x0 + lv x1)) (mv : Bool) :
    ∃ s', fstep k ⟨⟨[x0, x1, .dead, .dead, .dead, .dead], c⟩, a, b⟩ t (if mv then .mctor else .cctor) = .ok s' ∧ FnInv s' := by
  rcases fok_cases hA with ⟨rfl, rfl⟩ | ⟨a, v0, rfl, rfl⟩ <;>
  rcases fok_cases hB with ⟨rfl, rfl⟩ | ⟨b, v1, rfl, rfl⟩ <;>
  cases t <;> cases mv <;>
  rcases k with ⟨mem, ⟨cc, mc, ca, ma, dt⟩⟩ <;> cases mem <;> cases mc <;> simp only [lv_live, lv_dead] at hbal <;> vf_fsimp [] <;> omega

theorem f_assign (k : Kind) (x0 x1 : Slot) (c : Cnt) (a b : Nat) (t : Bool)
    (hA : fok x0 a) (hB : fok x1 b)
    (hbal : c.vc + c.cc + c.mc = c.d + (lv x0 + lv x1)) (mv : Bool) :
    ∃ s', fstep k ⟨⟨[x0, x1, .dead, .dead, .dead, .dead], c⟩, a, b⟩ t (if mv then .massign else .cassign) = .ok s' ∧ FnInv s' := by
  rcases fok_cases hA with ⟨rfl, rfl⟩ | ⟨a, v0, rfl, rfl⟩ <;>
  rcases fok_cases hB with ⟨rfl, rfl⟩ | ⟨b, v1, rfl, rfl⟩ <;>
  cases t <;> cases mv <;>
  rcases k with ⟨mem, ⟨cc, mc, ca, ma, dt⟩⟩ <;> cases mem <;> cases mc <;> simp only [lv_live, lv_dead] at hbal <;> vf_fsimp [] <;> omega

theorem f_assignSelf (k : Kind) (x0 x1 : Slot) (c : Cnt) (a b : Nat) (t : Bool)
    (hA : fok x0 a) (hB : fok x1 b)
    (hbal : c.vc + c.cc + c.mc = c.d + (lv x0 + lv x1)) (mv : Bool) :
    ∃ s', fstep k ⟨⟨[x0, x1, .dead, .dead, .dead, .dead], c⟩, a, b⟩ t (if mv then .massignSelf else .cassignSelf) = .ok s' ∧ FnInv s' ∧
      s'.mem.slots = [x0, x1, .dead, .dead, .dead, .dead] ∧ s'.a = a ∧ s'.b = b := by
  rcases fok_cases hA with ⟨rfl, rfl⟩ | ⟨a, v0, rfl, rfl⟩ <;>
  rcases fok_cases hB with ⟨rfl, rfl⟩ | ⟨b, v1, rfl, rfl⟩ <;>
  cases t <;> cases mv <;>
  rcases k with ⟨mem, ⟨cc, mc, ca, ma, dt⟩⟩ <;> cases mem <;> cases mc <;> simp only [lv_live, lv_dead] at hbal <;> vf_fsimp [] <;> omega

theorem f_swap (k : Kind) (x0 x1 : Slot) (c : Cnt) (a b : Nat) (t : Bool)
    (hA : fok x0 a) (hB : fok x1 b)
    (hbal : c.vc + c.cc + c.mc = c.d + (lv x0 + lv x1)) :
    ∃ s', fstep k ⟨⟨[x0, x1, .dead, .dead, .dead, .dead], c⟩, a, b⟩ t .swap = .ok s' ∧ FnInv s' := by
  rcases fok_cases hA with ⟨rfl, rfl⟩ | ⟨a, v0, rfl, rfl⟩ <;>
  rcases fok_cases hB with ⟨rfl, rfl⟩ | ⟨b, v1, rfl, rfl⟩ <;>
  cases t <;>
  rcases k with ⟨mem, ⟨cc, mc, ca, ma, dt⟩⟩ <;> cases mem <;> cases mc <;> simp only [lv_live, lv_dead] at hbal <;> vf_fsimp [] <;> omega

theorem f_invoke (k : Kind) (x0 x1 : Slot) (c : Cnt) (a b : Nat) (t : Bool)
    (hA : fok x0 a) (hB : fok x1 b)
    (hbal : c.vc + c.cc + c.mc = c.d + (lv x0 + lv x1))
    (hv : fvalid ⟨⟨[x0, x1, .dead, .dead, .dead, .dead], c⟩, a, b⟩ t .invoke = true) :
    ∃ s', fstep k ⟨⟨[x0, x1, .dead, .dead, .dead, .dead], c⟩, a, b⟩ t .invoke = .ok s' ∧ FnInv s' := by
  rcases fok_cases hA with ⟨rfl, rfl⟩ | ⟨a, v0, rfl, rfl⟩ <;>
  rcases fok_cases hB with ⟨rfl, rfl⟩ | ⟨b, v1, rfl, rfl⟩ <;>
  cases t <;> simp [fvalid, St.sz, varSpecified, baseOf] at hv <;> (try cases v0) <;> (try cases v1) <;>
  (try cases hv) <;>
  simp only [lv_live, lv_dead] at hbal <;> vf_fsimp [] <;> omega

theorem fresh6 : Mem.fresh (arenaSize 1) = ⟨[.dead, .dead, .dead, .dead, .dead, .dead], {}⟩ := rfl

end VarFn

open VarFn

theorem xinit_inv (trk : Nat → Bool) (nalt : Nat) (hn : 0 < nalt) : VarInv trk nalt (xinit trk) := by
  unfold xinit
  cases h0 : trk 0 <;>
    simp [St.init, fresh6, Mem.set, bumpVc, varInv6, vok, h0, hn]

theorem xstep_inv (k : Kind) (trk : Nat → Bool) (nalt : Nat) (s : St) (t : Bool) (op : XOp)
    (hi : VarInv trk nalt s) (hv : xvalid k trk nalt s t op = true) :
    ∃ s', xstep k trk s t op = .ok s' ∧ VarInv trk nalt s' := by
  obtain ⟨x0, x1, c, hs, ha, hb, hA, hB, hbal⟩ := varInv_shape hi
  obtain ⟨m, a, b⟩ := s
  simp only [St.mk.injEq] at hs
  obtain ⟨rfl, -, -⟩ := hs
  simp only at ha hb hA hB
  cases op with
  | emplace j v => exact x_emplace k trk nalt x0 x1 c a b t ha hb hA hB hbal j (.value v) (by simp) (by simpa [xvalid] using hv)
  | emplaceCopy j v => exact x_emplace k trk nalt x0 x1 c a b t ha hb hA hB hbal j (.copy (.ext v)) (by simp) (by simpa [xvalid] using hv)
  | emplaceMove j v => exact x_emplace k trk nalt x0 x1 c a b t ha hb hA hB hbal j (.move (.ext v)) (by simp) (by simpa [xvalid] using hv)
  | assignCopy j v => exact x_convAssign k trk nalt x0 x1 c a b t ha hb hA hB hbal false j v (by simpa [xvalid] using hv)
  | assignMove j v => exact x_convAssign k trk nalt x0 x1 c a b t ha hb hA hB hbal true j v (by simpa [xvalid] using hv)
  | optAssignCopy v => exact x_optAssign k false trk nalt x0 x1 c a b t ha hb hA hB hbal v (by simpa [xvalid] using hv)
  | optAssignMove v => exact x_optAssign k true trk nalt x0 x1 c a b t ha hb hA hB hbal v (by simpa [xvalid] using hv)
  | reset => exact x_emplace k trk nalt x0 x1 c a b t ha hb hA hB hbal 0 (.value 0) (by simp) (by simpa [xvalid] using hv)
  | cctor => exact x_ctor k trk nalt x0 x1 c a b t ha hb hA hB hbal false
  | mctor => exact x_ctor k trk nalt x0 x1 c a b t ha hb hA hB hbal true
  | cassign => exact x_assign k false trk nalt x0 x1 c a b t ha hb hA hB hbal
  | massign => exact x_assign k true trk nalt x0 x1 c a b t ha hb hA hB hbal
  | cassignSelf =>
    obtain ⟨s', h1, h2, -⟩ := x_self k false trk nalt x0 x1 c a b t ha hb hA hB hbal (fun h => by cases h)
    exact ⟨s', h1, h2⟩
  | swap => exact x_swap k t trk nalt x0 x1 c a b ha hb hA hB hbal
  | swapSelf =>
    obtain ⟨s', h1, h2, -⟩ := x_self k true trk nalt x0 x1 c a b t ha hb hA hB hbal (fun _ => by simpa [xvalid] using hv)
    exact ⟨s', h1, h2⟩
  | use => exact x_use k trk nalt x0 x1 c a b t ha hb hA hB hbal hv
  | assignOwn =>
    obtain ⟨s', h1, h2, -⟩ := x_assignOwn k trk nalt x0 x1 c a b t ha hb hA hB hbal
    exact ⟨s', h1, h2⟩

theorem xreach_inv {k : Kind} {trk : Nat → Bool} {nalt : Nat} (hn : 0 < nalt) {s : St}
    (h : XReach k trk nalt s) : VarInv trk nalt s := by
  induction h with
  | init => exact xinit_inv trk nalt hn
  | step _ hv hs ih =>
    obtain ⟨s'', h1, h2⟩ := xstep_inv k trk nalt _ _ _ ih hv
    rw [hs] at h1
    cases h1
    exact h2

theorem xfinish_ok (trk : Nat → Bool) (nalt : Nat) (s : St) (hi : VarInv trk nalt s) :
    ∃ s', xfinish trk s = .ok s' ∧ AllDead s'.mem ∧ s'.mem.cnt.constructed = s'.mem.cnt.d := by
  obtain ⟨x0, x1, c, hs, ha, hb, hA, hB, hbal⟩ := varInv_shape hi
  obtain ⟨m, a, b⟩ := s
  simp only [St.mk.injEq] at hs
  obtain ⟨rfl, -, -⟩ := hs
  simp only at ha hb hA hB
  rcases vok_cases hA with ⟨ht0, v0, rfl⟩ | ⟨ht0, rfl⟩ <;>
  rcases vok_cases hB with ⟨ht1, v1, rfl⟩ | ⟨ht1, rfl⟩ <;>
  simp only [lv_live, lv_dead] at hbal <;>
  simp [xfinish, vDestroy, destroyAt, Mem.get, Mem.set, bumpD, baseOf, ht0, ht1, allDead6, Cnt.constructed] <;>
  omega

theorem xcassignSelf_id (k : Kind) (trk : Nat → Bool) (nalt : Nat) (s : St) (t : Bool) (hi : VarInv trk nalt s) :
    ∃ s', xstep k trk s t .cassignSelf = .ok s' ∧ s'.mem.slots = s.mem.slots ∧ s'.a = s.a ∧ s'.b = s.b := by
  obtain ⟨x0, x1, c, hs, ha, hb, hA, hB, hbal⟩ := varInv_shape hi
  obtain ⟨m, a, b⟩ := s
  simp only [St.mk.injEq] at hs
  obtain ⟨rfl, -, -⟩ := hs
  obtain ⟨s', h1, -, h2⟩ := x_self k false trk nalt x0 x1 c a b t ha hb hA hB hbal (fun h => by cases h)
  exact ⟨s', h1, h2⟩

theorem xassignOwn_id (k : Kind) (trk : Nat → Bool) (nalt : Nat) (s : St) (t : Bool) (hi : VarInv trk nalt s) :
    ∃ s', xstep k trk s t .assignOwn = .ok s' ∧ s'.mem.slots = s.mem.slots ∧ s'.a = s.a ∧ s'.b = s.b := by
  obtain ⟨x0, x1, c, hs, ha, hb, hA, hB, hbal⟩ := varInv_shape hi
  obtain ⟨m, a, b⟩ := s
  simp only [St.mk.injEq] at hs
  obtain ⟨rfl, -, -⟩ := hs
  obtain ⟨s', h1, -, h2⟩ := x_assignOwn k trk nalt x0 x1 c a b t ha hb hA hB hbal
  exact ⟨s', h1, h2⟩

theorem xswapSelf_id (k : Kind) (trk : Nat → Bool) (nalt : Nat) (s : St) (t : Bool) (hi : VarInv trk nalt s)
    (hv : xvalid k trk nalt s t .swapSelf = true) :
    ∃ s', xstep k trk s t .swapSelf = .ok s' ∧ s'.mem.slots = s.mem.slots ∧ s'.a = s.a ∧ s'.b = s.b := by
  obtain ⟨x0, x1, c, hs, ha, hb, hA, hB, hbal⟩ := varInv_shape hi
  obtain ⟨m, a, b⟩ := s
  simp only [St.mk.injEq] at hs
  obtain ⟨rfl, -, -⟩ := hs
  obtain ⟨s', h1, -, h2⟩ := x_self k true trk nalt x0 x1 c a b t ha hb hA hB hbal (fun _ => by simpa [xvalid] using hv)
  exact ⟨s', h1, h2⟩

theorem finit_inv : FnInv (St.init 1 0 0) := by
  simp [St.init, fresh6, fnInv6, fok]

theorem fstep_inv (k : Kind) (s : St) (t : Bool) (op : FOp) (hi : FnInv s) (hv : fvalid s t op = true) :
    ∃ s', fstep k s t op = .ok s' ∧ FnInv s' := by
  obtain ⟨x0, x1, c, hs, hA, hB, hbal⟩ := fnInv_shape hi
  obtain ⟨m, a, b⟩ := s
  simp only [St.mk.injEq] at hs
  obtain ⟨rfl, -, -⟩ := hs
  simp only at hA hB
  cases op with
  | ctorCopy j v => exact f_callable k x0 x1 c a b t hA hB hbal false false j v
  | ctorMove j v => exact f_callable k x0 x1 c a b t hA hB hbal false true j v
  | assignCopy j v => exact f_callable k x0 x1 c a b t hA hB hbal true false j v
  | assignMove j v => exact f_callable k x0 x1 c a b t hA hB hbal true true j v
  | reset => exact f_reset k x0 x1 c a b t hA hB hbal
  | cctor => exact f_ctor k x0 x1 c a b t hA hB hbal false
  | mctor => exact f_ctor k x0 x1 c a b t hA hB hbal true
  | cassign => exact f_assign k x0 x1 c a b t hA hB hbal false
  | massign => exact f_assign k x0 x1 c a b t hA hB hbal true
  | cassignSelf =>
    obtain ⟨s', h1, h2, -⟩ := f_assignSelf k x0 x1 c a b t hA hB hbal false
    exact ⟨s', h1, h2⟩
  | massignSelf =>
    obtain ⟨s', h1, h2, -⟩ := f_assignSelf k x0 x1 c a b t hA hB hbal true
    exact ⟨s', h1, h2⟩
  | swap => exact f_swap k x0 x1 c a b t hA hB hbal
  | swapSelf => exact ⟨_, by cases t <;> simp [fstep, fnSwap, St.put, St.sz], hi⟩
  | invoke => exact f_invoke k x0 x1 c a b t hA hB hbal hv
  | conv asg mv j v => exact f_conv k x0 x1 c a b t hA hB hbal asg mv j v

theorem freach_inv {k : Kind} {s : St} (h : FReach k s) : FnInv s := by
  induction h with
  | init => exact finit_inv
  | step _ hv hs ih =>
    obtain ⟨s'', h1, h2⟩ := fstep_inv k _ _ _ ih hv
    rw [hs] at h1
    cases h1
    exact h2

theorem ffinish_ok (s : St) (hi : FnInv s) :
    ∃ s', ffinish s = .ok s' ∧ AllDead s'.mem ∧ s'.mem.cnt.constructed = s'.mem.cnt.d := by
  obtain ⟨x0, x1, c, hs, hA, hB, hbal⟩ := fnInv_shape hi
  obtain ⟨m, a, b⟩ := s
  simp only [St.mk.injEq] at hs
  obtain ⟨rfl, -, -⟩ := hs
  simp only at hA hB
  rcases fok_cases hA with ⟨rfl, rfl⟩ | ⟨a, v0, rfl, rfl⟩ <;>
  rcases fok_cases hB with ⟨rfl, rfl⟩ | ⟨b, v1, rfl, rfl⟩ <;>
  simp only [lv_live, lv_dead] at hbal <;>
  simp [ffinish, fnDestroyCur, destroyAt, Mem.get, Mem.set, bumpD, baseOf, allDead6, Cnt.constructed] <;>
  omega

theorem fassignSelf_id (k : Kind) (mv : Bool) (s : St) (t : Bool) (hi : FnInv s) :
    ∃ s', fstep k s t (if mv then .massignSelf else .cassignSelf) = .ok s' ∧ s'.mem.slots = s.mem.slots ∧ s'.a = s.a ∧ s'.b = s.b := by
  obtain ⟨x0, x1, c, hs, hA, hB, hbal⟩ := fnInv_shape hi
  obtain ⟨m, a, b⟩ := s
  simp only [St.mk.injEq] at hs
  obtain ⟨rfl, -, -⟩ := hs
  simp only at hA hB
  obtain ⟨s', h1, -, h2⟩ := f_assignSelf k x0 x1 c a b t hA hB hbal mv
  exact ⟨s', h1, h2⟩

theorem fswapSelf_id (k : Kind) (s : St) (t : Bool) :
    fstep k s t .swapSelf = .ok s := by
  cases t <;> simp [fstep, fnSwap, St.put, St.sz]

theorem moveA_self_value_error (k : Kind) (hk : k.mem ≠ .co) (hma : k.tr.ma = true) (m : Mem) (i ty v : Nat)
    (h : m.slots[i]? = some (.live ty (some v))) : moveA k m i ty (.slot i) = .error (.selfMove i) := by
  simp [moveA, srcVal, Mem.get, h, hk, hma]

end Tetl.C03
