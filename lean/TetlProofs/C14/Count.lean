/-
C14 — helper lemmas for countl_one, countr_zero, countr_one, has_single_bit.
-/
import TetlProofs.C14.Lemmas
namespace Tetl.C14
open Tetl

/-! ## countl_one -/

theorem bw_two_mul_add_one (c : Nat) : Spec.bitWidth (2 * c + 1) = Spec.bitWidth c + 1 := by
  have h1 : Spec.bitWidth (2 * c + 1) ≤ Spec.bitWidth c + 1 := by
    rw [bw_le, Nat.pow_succ]
    have := (bw_le c (Spec.bitWidth c)).1 (Nat.le_refl _)
    omega
  have h0 : ¬ Spec.bitWidth (2 * c + 1) ≤ 0 := by rw [bw_le]; simp
  have h2 : ¬ Spec.bitWidth (2 * c + 1) ≤ Spec.bitWidth c := by
    intro h
    obtain ⟨m, hm⟩ : ∃ m, Spec.bitWidth (2 * c + 1) = m + 1 := ⟨Spec.bitWidth (2 * c + 1) - 1, by omega⟩
    have h3 := (bw_le (2 * c + 1) (m + 1)).1 (by omega)
    rw [Nat.pow_succ] at h3
    have h4 : Spec.bitWidth c ≤ m := (bw_le c m).2 (by omega)
    omega
  omega

/-- the complement of `x` within `w` bits -/
theorem top_set (w x : Nat) (hw : 1 ≤ w) (hx : x < 2^w) :
    (x &&& topMask w != 0) = decide (2^w - 1 - x < 2^(w-1)) := by
  have hsplit : 2^w = 2 * 2^(w-1) := by
    obtain ⟨k, rfl⟩ : ∃ k, w = k+1 := ⟨w-1, by omega⟩
    rw [Nat.pow_succ]; simp; omega
  have h := top_clear w x hw hx
  by_cases hlt : x < 2^(w-1)
  · have h' : (x &&& topMask w == 0) = true := by rw [h]; simp [hlt]
    have h'' : x &&& topMask w = 0 := by simpa using h'
    have : ¬ (2^w - 1 - x < 2^(w-1)) := by omega
    simp [h'', this]
  · have h' : (x &&& topMask w == 0) = false := by rw [h]; simp [hlt]
    have h'' : ¬ (x &&& topMask w = 0) := by simpa using h'
    have : 2^w - 1 - x < 2^(w-1) := by omega
    simp [h'', this]

theorem cloLoop_eq (w : Nat) (hw : 1 ≤ w) : ∀ f x res, x < 2^w → w - Spec.bitWidth (2^w - 1 - x) < f →
    cloLoop w f x res = .ok (res + (w - Spec.bitWidth (2^w - 1 - x))) := by
  have hsplit : 2^w = 2 * 2^(w-1) := by
    obtain ⟨k, rfl⟩ : ∃ k, w = k+1 := ⟨w-1, by omega⟩
    rw [Nat.pow_succ]; simp; omega
  intro f
  induction f with
  | zero => intro x res _ h; omega
  | succ f ih =>
    intro x res hx hf
    unfold cloLoop
    rw [top_set w x hw hx]
    have hc : 2^w - 1 - x < 2^w := by omega
    have hbw := (bw_le (2^w - 1 - x) w).2 hc
    by_cases h : 2^w - 1 - x < 2^(w-1)
    · simp only [h, decide_true, if_true]
      have h2x : (x <<< 1) % 2^w = 2 * x - 2^w := by
        rw [Nat.shiftLeft_eq]; simp
        have : x * 2 = 2^w + (2 * x - 2^w) := by omega
        rw [this, Nat.add_mod_left, Nat.mod_eq_of_lt (by omega)]
      have hc' : 2^w - 1 - (2 * x - 2^w) = 2 * (2^w - 1 - x) + 1 := by omega
      have hb1 := (bw_le (2^w - 1 - x) (w-1)).2 h
      have hb2 := bw_two_mul_add_one (2^w - 1 - x)
      rw [h2x, ih (2 * x - 2^w) (res + 1) (by omega) (by rw [hc', hb2]; omega), hc', hb2]
      congr 1; omega
    · simp only [h, decide_false, Bool.false_eq_true, if_false]
      have : ¬ Spec.bitWidth (2^w - 1 - x) ≤ w - 1 := by rw [bw_le]; exact h
      congr 1; omega

/-! ## countr_zero, countr_one -/

theorem testBit_ok (w x r : Nat) (hr : r < w) :
    testBit w x (r % 2^w) = .ok (x.testBit r) := by
  have hlt : r < 2^w := Nat.lt_trans hr Nat.lt_two_pow_self
  rw [Nat.mod_eq_of_lt hlt]
  unfold testBit
  rw [bitPosPre_ok w r hr, oneShl_ok w r hr]
  simp only [Bool.not_true, Bool.false_eq_true, if_false, ok_bind]
  have hl : x &&& 2^r < 2^w :=
    Nat.lt_of_le_of_lt Nat.and_le_right (Nat.pow_lt_pow_right (by decide) hr)
  rw [Nat.mod_eq_of_lt hl]
  congr 1
  have h := and_two_pow_eq_zero x r
  cases hb : x.testBit r
  · have : x &&& 2^r = 0 := h.2 hb
    simp [this]
  · have : ¬ (x &&& 2^r = 0) := by rw [h, hb]; simp
    simp [this]

theorem ctzLoop_eq (w x : Nat) : ∀ f n r, r + n = w → n < f →
    ctzLoop w x f r = .ok (((List.range' r n).find? (fun i => x.testBit i)).getD w) := by
  intro f
  induction f with
  | zero => intro n r _ h; omega
  | succ f ih =>
    intro n r hrn hf
    unfold ctzLoop
    cases n with
    | zero =>
      have : r = w := by omega
      simp [this]
    | succ n =>
      have hne : (r != w) = true := by simp; omega
      simp only [hne, if_true]
      rw [testBit_ok w x r (by omega)]
      simp only [ok_bind, List.range'_succ, List.find?_cons]
      cases hb : x.testBit r
      · simp only [Bool.false_eq_true, if_false]
        rw [ih n (r + 1) (by omega) (by omega)]
      · simp

theorem ctoLoop_eq (w x : Nat) : ∀ f n r, r + n = w → n < f →
    ctoLoop w x f r = .ok (((List.range' r n).find? (fun i => !x.testBit i)).getD w) := by
  intro f
  induction f with
  | zero => intro n r _ h; omega
  | succ f ih =>
    intro n r hrn hf
    unfold ctoLoop
    cases n with
    | zero =>
      have : r = w := by omega
      simp [this]
    | succ n =>
      have hne : (r != w) = true := by simp; omega
      simp only [hne, if_true]
      rw [testBit_ok w x r (by omega)]
      simp only [ok_bind, List.range'_succ, List.find?_cons]
      cases hb : x.testBit r
      · simp
      · simp only [Bool.not_true, Bool.false_eq_true, if_false]
        rw [ih n (r + 1) (by omega) (by omega)]

/-! ## has_single_bit -/

theorem pc_eq_zero (w : Nat) : ∀ x, x < 2^w → (Spec.popcount w x = 0 ↔ x = 0) := by
  induction w with
  | zero => intro x hx; simp at hx; subst hx; simp [Spec.popcount]
  | succ w ih =>
    intro x hx
    rw [pc_succ]
    have hlt : x / 2 < 2^w := by rw [Nat.pow_succ] at hx; omega
    have := ih (x / 2) hlt
    omega

theorem pc_eq_one (w : Nat) : ∀ x, x < 2^w → (Spec.popcount w x = 1 ↔ ∃ k, x = 2^k) := by
  induction w with
  | zero =>
    intro x hx; simp at hx; subst hx
    simp [Spec.popcount]
    intro k; have := Nat.pow_pos (n := k) (by decide : 0 < 2); omega
  | succ w ih =>
    intro x hx
    rw [pc_succ]
    have hlt : x / 2 < 2^w := by rw [Nat.pow_succ] at hx; omega
    have h0 := pc_eq_zero w (x / 2) hlt
    have h1 := ih (x / 2) hlt
    constructor
    · intro h
      by_cases hodd : x % 2 = 1
      · have : x / 2 = 0 := h0.1 (by omega)
        exact ⟨0, by simp; omega⟩
      · obtain ⟨k, hk⟩ := h1.1 (by omega)
        exact ⟨k + 1, by rw [Nat.pow_succ]; omega⟩
    · rintro ⟨k, hk⟩
      cases k with
      | zero =>
        simp at hk; subst hk
        have : Spec.popcount w (1 / 2) = 0 := by simp [pc_zero]
        rw [this]
      | succ k =>
        rw [Nat.pow_succ] at hk
        have h2 : x / 2 = 2^k := by omega
        have : Spec.popcount w (x / 2) = 1 := h1.2 ⟨k, h2⟩
        omega

theorem hasSingleBit_iff (x : Nat) : Spec.hasSingleBit x = true ↔ ∃ k, x = 2^k := by
  unfold Spec.hasSingleBit
  constructor
  · intro h
    simp at h
    exact ⟨Nat.log2 x, h.2⟩
  · rintro ⟨k, rfl⟩
    have := Nat.pow_pos (n := k) (by decide : 0 < 2)
    simp [Nat.log2_two_pow]

end Tetl.C14
