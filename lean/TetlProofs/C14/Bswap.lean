/-
C14 — helper lemmas for byteswap (16/32/64-bit fallbacks) and ntoh/hton: byte reversal by bit extensionality.
-/
import TetlProofs.C14.BitOps
namespace Tetl.C14
open Tetl

set_option linter.unusedSimpArgs false

theorem pow256 (n : Nat) : 256 ^ n = 2 ^ (8 * n) := by
  rw [Nat.pow_mul]

theorem bswap_lt (n x : Nat) : Spec.bswap n x < 256 ^ n := by
  induction n generalizing x with
  | zero => simp [Spec.bswap]
  | succ n ih =>
    simp only [Spec.bswap]
    have h1 := ih (x / 256)
    have h2 : x % 256 < 256 := Nat.mod_lt _ (by decide)
    rw [Nat.pow_succ]
    generalize 256 ^ n = P at *
    have : x % 256 * P ≤ 255 * P := Nat.mul_le_mul_right _ (by omega)
    omega

theorem bswap_testBit (n x i : Nat) :
    (Spec.bswap n x).testBit i = (decide (i < 8 * n) && x.testBit (8 * (n - 1 - i / 8) + i % 8)) := by
  induction n generalizing x i with
  | zero => simp [Spec.bswap]
  | succ n ih =>
    simp only [Spec.bswap]
    have hlt := bswap_lt n (x / 256)
    rw [pow256] at hlt
    rw [pow256, Nat.mul_comm (x % 256), Nat.testBit_two_pow_mul_add _ hlt]
    by_cases h : i < 8 * n
    · rw [if_pos h, ih, show (256 : Nat) = 2 ^ 8 from rfl, Nat.testBit_div_two_pow]
      have e : 8 * (n - 1 - i / 8) + i % 8 + 8 = 8 * (n + 1 - 1 - i / 8) + i % 8 := by omega
      rw [e]
      simp [h]
      omega
    · rw [if_neg h, show (256 : Nat) = 2 ^ 8 from rfl, Nat.testBit_mod_two_pow]
      by_cases h2 : i < 8 * (n + 1)
      · have e : 8 * (n + 1 - 1 - i / 8) + i % 8 = i - 8 * n := by omega
        rw [e]
        have : i - 8 * n < 8 := by omega
        simp [h2, this]
      · have : ¬ (i - 8 * n < 8) := by omega
        simp [h2, this]

theorem mask_testBit (k i : Nat) :
    ((255 : Nat) <<< k).testBit i = (decide (k ≤ i) && decide (i < k + 8)) := by
  rw [Nat.testBit_shiftLeft, show (255 : Nat) = 2 ^ 8 - 1 from rfl, Nat.testBit_two_pow_sub_one]
  by_cases h : k ≤ i <;> simp [h] <;> omega

theorem mask_lit (m k i : Nat) (h : m = 255 <<< k) :
    m.testBit i = (decide (k ≤ i) && decide (i < k + 8)) := by
  rw [h]; exact mask_testBit k i

theorem m8 (i : Nat) : (0xFF00 : Nat).testBit i = (decide (8 ≤ i) && decide (i < 16)) :=
  mask_lit _ 8 i (by decide)
theorem m16 (i : Nat) : (0xFF0000 : Nat).testBit i = (decide (16 ≤ i) && decide (i < 24)) :=
  mask_lit _ 16 i (by decide)
theorem m24 (i : Nat) : (0xFF000000 : Nat).testBit i = (decide (24 ≤ i) && decide (i < 32)) :=
  mask_lit _ 24 i (by decide)
theorem m32 (i : Nat) : (0xFF00000000 : Nat).testBit i = (decide (32 ≤ i) && decide (i < 40)) :=
  mask_lit _ 32 i (by decide)
theorem m40 (i : Nat) : (0xFF0000000000 : Nat).testBit i = (decide (40 ≤ i) && decide (i < 48)) :=
  mask_lit _ 40 i (by decide)
theorem m48 (i : Nat) : (0xFF000000000000 : Nat).testBit i = (decide (48 ≤ i) && decide (i < 56)) :=
  mask_lit _ 48 i (by decide)

/-- resolve every `decide` by `omega`, kill out-of-range bits of `v`, then clean up -/
macro "bs_fin" hh:ident : tactic =>
  `(tactic| (simp (disch := omega) only [decide_eq_true, decide_eq_false, $hh:ident,
      Bool.true_and, Bool.false_and, Bool.and_true, Bool.and_false, Bool.or_false, Bool.false_or]
             <;> first | done | (congr 1; omega)))

theorem bswap16_eq (v : Nat) (hv : v < 2^16) : bswap16 v = Spec.bswap 2 v := by
  apply Nat.eq_of_testBit_eq; intro i
  rw [bswap_testBit]
  unfold bswap16
  simp only [Nat.testBit_mod_two_pow, Nat.testBit_or, Nat.testBit_and, Nat.testBit_shiftLeft,
    Nat.testBit_shiftRight, m8, m16, m24, m32, m40, m48]
  have hh := fun j => testBit_high v 16 j hv
  by_cases h0 : i < 8
  · bs_fin hh
  by_cases h1 : i < 16
  · bs_fin hh
  bs_fin hh

theorem bswap32_eq (v : Nat) (hv : v < 2^32) : bswap32 v = Spec.bswap 4 v := by
  apply Nat.eq_of_testBit_eq; intro i
  rw [bswap_testBit]
  unfold bswap32
  simp only [Nat.testBit_mod_two_pow, Nat.testBit_or, Nat.testBit_and, Nat.testBit_shiftLeft,
    Nat.testBit_shiftRight, m8, m16, m24, m32, m40, m48]
  have hh := fun j => testBit_high v 32 j hv
  by_cases h0 : i < 8
  · bs_fin hh
  by_cases h1 : i < 16
  · bs_fin hh
  by_cases h2 : i < 24
  · bs_fin hh
  by_cases h3 : i < 32
  · bs_fin hh
  bs_fin hh

theorem bswap64_eq (v : Nat) (hv : v < 2^64) : bswap64 v = Spec.bswap 8 v := by
  apply Nat.eq_of_testBit_eq; intro i
  rw [bswap_testBit]
  unfold bswap64
  simp only [Nat.testBit_mod_two_pow, Nat.testBit_or, Nat.testBit_and, Nat.testBit_shiftLeft,
    Nat.testBit_shiftRight, m8, m16, m24, m32, m40, m48]
  have hh := fun j => testBit_high v 64 j hv
  by_cases h0 : i < 8
  · bs_fin hh
  by_cases h1 : i < 16
  · bs_fin hh
  by_cases h2 : i < 24
  · bs_fin hh
  by_cases h3 : i < 32
  · bs_fin hh
  by_cases h4 : i < 40
  · bs_fin hh
  by_cases h5 : i < 48
  · bs_fin hh
  by_cases h6 : i < 56
  · bs_fin hh
  by_cases h7 : i < 64
  · bs_fin hh
  bs_fin hh

theorem ntoh16_eq (v : Nat) (hv : v < 2^16) : ntoh16 v = Spec.bswap 2 v := by
  apply Nat.eq_of_testBit_eq; intro i
  rw [bswap_testBit]
  unfold ntoh16
  simp only [Nat.testBit_mod_two_pow, Nat.testBit_or, Nat.testBit_and, Nat.testBit_shiftLeft,
    Nat.testBit_shiftRight, m8, m16, m24, m32, m40, m48]
  have hh := fun j => testBit_high v 16 j hv
  by_cases h0 : i < 8
  · bs_fin hh
  by_cases h1 : i < 16
  · bs_fin hh
  bs_fin hh

theorem ntoh32_eq (v : Nat) (hv : v < 2^32) : ntoh32 v = Spec.bswap 4 v := by
  apply Nat.eq_of_testBit_eq; intro i
  rw [bswap_testBit]
  unfold ntoh32
  simp only [Nat.testBit_mod_two_pow, Nat.testBit_or, Nat.testBit_and, Nat.testBit_shiftLeft,
    Nat.testBit_shiftRight, m8, m16, m24, m32, m40, m48]
  have hh := fun j => testBit_high v 32 j hv
  by_cases h0 : i < 8
  · bs_fin hh
  by_cases h1 : i < 16
  · bs_fin hh
  by_cases h2 : i < 24
  · bs_fin hh
  by_cases h3 : i < 32
  · bs_fin hh
  bs_fin hh

end Tetl.C14
