/-
C14, tie T — in_range<R>(T) for all 64 pairs
WRITTEN by gen/c14_genprops.py (statements and proofs are uniform per family); re-checked against the regenerated
Tetl/C14/Gen.lean on every run of the C14 check.
-/
import TetlProofs.C14.GenCmpD2
set_option linter.unusedSimpArgs false
set_option linter.unusedVariables false
namespace Tetl.C14.GenProps
open Tetl Tetl.C14 Tetl.CSem

theorem gen_in_range_u8_u8 (t : Int) (ht : 0 ≤ t ∧ t < 256) :
    Gen.in_range_u8_u8_ub t = true ∧ Gen.in_range_u8_u8 t = decide (0 ≤ t ∧ t ≤ 255) ∧
    Gen.in_range_u8_u8 t = Tetl.C14.inRange ⟨8, false⟩ ⟨8, false⟩ t := by
  have ha := gen_cmp_greater_equal_u8_u8 t 0 ht (by decide)
  have hb := gen_cmp_less_equal_u8_u8 t 255 ht (by decide)
  have h2 : Gen.in_range_u8_u8 t = decide (0 ≤ t ∧ t ≤ 255) := by
    simp only [Gen.in_range_u8_u8, ha.2.1, hb.2.1]; bool_fin
  refine ⟨by simp only [Gen.in_range_u8_u8_ub, ha.1, hb.1] <;> simp, h2, ?_⟩
  rw [h2, Props.inRange_eq _ _ (by decide) (by decide) t (inR_u8 t ht)]
  simp [ITy.inR, ITy.min, ITy.max]

theorem gen_in_range_u8_u16 (t : Int) (ht : 0 ≤ t ∧ t < 65536) :
    Gen.in_range_u8_u16_ub t = true ∧ Gen.in_range_u8_u16 t = decide (0 ≤ t ∧ t ≤ 255) ∧
    Gen.in_range_u8_u16 t = Tetl.C14.inRange ⟨8, false⟩ ⟨16, false⟩ t := by
  have ha := gen_cmp_greater_equal_u16_u8 t 0 ht (by decide)
  have hb := gen_cmp_less_equal_u16_u8 t 255 ht (by decide)
  have h2 : Gen.in_range_u8_u16 t = decide (0 ≤ t ∧ t ≤ 255) := by
    simp only [Gen.in_range_u8_u16, ha.2.1, hb.2.1]; bool_fin
  refine ⟨by simp only [Gen.in_range_u8_u16_ub, ha.1, hb.1] <;> simp, h2, ?_⟩
  rw [h2, Props.inRange_eq _ _ (by decide) (by decide) t (inR_u16 t ht)]
  simp [ITy.inR, ITy.min, ITy.max]

theorem gen_in_range_u8_u32 (t : Int) (ht : 0 ≤ t ∧ t < 4294967296) :
    Gen.in_range_u8_u32_ub t = true ∧ Gen.in_range_u8_u32 t = decide (0 ≤ t ∧ t ≤ 255) ∧
    Gen.in_range_u8_u32 t = Tetl.C14.inRange ⟨8, false⟩ ⟨32, false⟩ t := by
  have ha := gen_cmp_greater_equal_u32_u8 t 0 ht (by decide)
  have hb := gen_cmp_less_equal_u32_u8 t 255 ht (by decide)
  have h2 : Gen.in_range_u8_u32 t = decide (0 ≤ t ∧ t ≤ 255) := by
    simp only [Gen.in_range_u8_u32, ha.2.1, hb.2.1]; bool_fin
  refine ⟨by simp only [Gen.in_range_u8_u32_ub, ha.1, hb.1] <;> simp, h2, ?_⟩
  rw [h2, Props.inRange_eq _ _ (by decide) (by decide) t (inR_u32 t ht)]
  simp [ITy.inR, ITy.min, ITy.max]

theorem gen_in_range_u8_u64 (t : Int) (ht : 0 ≤ t ∧ t < 18446744073709551616) :
    Gen.in_range_u8_u64_ub t = true ∧ Gen.in_range_u8_u64 t = decide (0 ≤ t ∧ t ≤ 255) ∧
    Gen.in_range_u8_u64 t = Tetl.C14.inRange ⟨8, false⟩ ⟨64, false⟩ t := by
  have ha := gen_cmp_greater_equal_u64_u8 t 0 ht (by decide)
  have hb := gen_cmp_less_equal_u64_u8 t 255 ht (by decide)
  have h2 : Gen.in_range_u8_u64 t = decide (0 ≤ t ∧ t ≤ 255) := by
    simp only [Gen.in_range_u8_u64, ha.2.1, hb.2.1]; bool_fin
  refine ⟨by simp only [Gen.in_range_u8_u64_ub, ha.1, hb.1] <;> simp, h2, ?_⟩
  rw [h2, Props.inRange_eq _ _ (by decide) (by decide) t (inR_u64 t ht)]
  simp [ITy.inR, ITy.min, ITy.max]

theorem gen_in_range_u8_i8 (t : Int) (ht : -128 ≤ t ∧ t < 128) :
    Gen.in_range_u8_i8_ub t = true ∧ Gen.in_range_u8_i8 t = decide (0 ≤ t ∧ t ≤ 255) ∧
    Gen.in_range_u8_i8 t = Tetl.C14.inRange ⟨8, false⟩ ⟨8, true⟩ t := by
  have ha := gen_cmp_greater_equal_i8_u8 t 0 ht (by decide)
  have hb := gen_cmp_less_equal_i8_u8 t 255 ht (by decide)
  have h2 : Gen.in_range_u8_i8 t = decide (0 ≤ t ∧ t ≤ 255) := by
    simp only [Gen.in_range_u8_i8, ha.2.1, hb.2.1]; bool_fin
  refine ⟨by simp only [Gen.in_range_u8_i8_ub, ha.1, hb.1] <;> simp, h2, ?_⟩
  rw [h2, Props.inRange_eq _ _ (by decide) (by decide) t (inR_i8 t ht)]
  simp [ITy.inR, ITy.min, ITy.max]

theorem gen_in_range_u8_i16 (t : Int) (ht : -32768 ≤ t ∧ t < 32768) :
    Gen.in_range_u8_i16_ub t = true ∧ Gen.in_range_u8_i16 t = decide (0 ≤ t ∧ t ≤ 255) ∧
    Gen.in_range_u8_i16 t = Tetl.C14.inRange ⟨8, false⟩ ⟨16, true⟩ t := by
  have ha := gen_cmp_greater_equal_i16_u8 t 0 ht (by decide)
  have hb := gen_cmp_less_equal_i16_u8 t 255 ht (by decide)
  have h2 : Gen.in_range_u8_i16 t = decide (0 ≤ t ∧ t ≤ 255) := by
    simp only [Gen.in_range_u8_i16, ha.2.1, hb.2.1]; bool_fin
  refine ⟨by simp only [Gen.in_range_u8_i16_ub, ha.1, hb.1] <;> simp, h2, ?_⟩
  rw [h2, Props.inRange_eq _ _ (by decide) (by decide) t (inR_i16 t ht)]
  simp [ITy.inR, ITy.min, ITy.max]

theorem gen_in_range_u8_i32 (t : Int) (ht : -2147483648 ≤ t ∧ t < 2147483648) :
    Gen.in_range_u8_i32_ub t = true ∧ Gen.in_range_u8_i32 t = decide (0 ≤ t ∧ t ≤ 255) ∧
    Gen.in_range_u8_i32 t = Tetl.C14.inRange ⟨8, false⟩ ⟨32, true⟩ t := by
  have ha := gen_cmp_greater_equal_i32_u8 t 0 ht (by decide)
  have hb := gen_cmp_less_equal_i32_u8 t 255 ht (by decide)
  have h2 : Gen.in_range_u8_i32 t = decide (0 ≤ t ∧ t ≤ 255) := by
    simp only [Gen.in_range_u8_i32, ha.2.1, hb.2.1]; bool_fin
  refine ⟨by simp only [Gen.in_range_u8_i32_ub, ha.1, hb.1] <;> simp, h2, ?_⟩
  rw [h2, Props.inRange_eq _ _ (by decide) (by decide) t (inR_i32 t ht)]
  simp [ITy.inR, ITy.min, ITy.max]

theorem gen_in_range_u8_i64 (t : Int) (ht : -9223372036854775808 ≤ t ∧ t < 9223372036854775808) :
    Gen.in_range_u8_i64_ub t = true ∧ Gen.in_range_u8_i64 t = decide (0 ≤ t ∧ t ≤ 255) ∧
    Gen.in_range_u8_i64 t = Tetl.C14.inRange ⟨8, false⟩ ⟨64, true⟩ t := by
  have ha := gen_cmp_greater_equal_i64_u8 t 0 ht (by decide)
  have hb := gen_cmp_less_equal_i64_u8 t 255 ht (by decide)
  have h2 : Gen.in_range_u8_i64 t = decide (0 ≤ t ∧ t ≤ 255) := by
    simp only [Gen.in_range_u8_i64, ha.2.1, hb.2.1]; bool_fin
  refine ⟨by simp only [Gen.in_range_u8_i64_ub, ha.1, hb.1] <;> simp, h2, ?_⟩
  rw [h2, Props.inRange_eq _ _ (by decide) (by decide) t (inR_i64 t ht)]
  simp [ITy.inR, ITy.min, ITy.max]

theorem gen_in_range_u16_u8 (t : Int) (ht : 0 ≤ t ∧ t < 256) :
    Gen.in_range_u16_u8_ub t = true ∧ Gen.in_range_u16_u8 t = decide (0 ≤ t ∧ t ≤ 65535) ∧
    Gen.in_range_u16_u8 t = Tetl.C14.inRange ⟨16, false⟩ ⟨8, false⟩ t := by
  have ha := gen_cmp_greater_equal_u8_u16 t 0 ht (by decide)
  have hb := gen_cmp_less_equal_u8_u16 t 65535 ht (by decide)
  have h2 : Gen.in_range_u16_u8 t = decide (0 ≤ t ∧ t ≤ 65535) := by
    simp only [Gen.in_range_u16_u8, ha.2.1, hb.2.1]; bool_fin
  refine ⟨by simp only [Gen.in_range_u16_u8_ub, ha.1, hb.1] <;> simp, h2, ?_⟩
  rw [h2, Props.inRange_eq _ _ (by decide) (by decide) t (inR_u8 t ht)]
  simp [ITy.inR, ITy.min, ITy.max]

theorem gen_in_range_u16_u16 (t : Int) (ht : 0 ≤ t ∧ t < 65536) :
    Gen.in_range_u16_u16_ub t = true ∧ Gen.in_range_u16_u16 t = decide (0 ≤ t ∧ t ≤ 65535) ∧
    Gen.in_range_u16_u16 t = Tetl.C14.inRange ⟨16, false⟩ ⟨16, false⟩ t := by
  have ha := gen_cmp_greater_equal_u16_u16 t 0 ht (by decide)
  have hb := gen_cmp_less_equal_u16_u16 t 65535 ht (by decide)
  have h2 : Gen.in_range_u16_u16 t = decide (0 ≤ t ∧ t ≤ 65535) := by
    simp only [Gen.in_range_u16_u16, ha.2.1, hb.2.1]; bool_fin
  refine ⟨by simp only [Gen.in_range_u16_u16_ub, ha.1, hb.1] <;> simp, h2, ?_⟩
  rw [h2, Props.inRange_eq _ _ (by decide) (by decide) t (inR_u16 t ht)]
  simp [ITy.inR, ITy.min, ITy.max]

theorem gen_in_range_u16_u32 (t : Int) (ht : 0 ≤ t ∧ t < 4294967296) :
    Gen.in_range_u16_u32_ub t = true ∧ Gen.in_range_u16_u32 t = decide (0 ≤ t ∧ t ≤ 65535) ∧
    Gen.in_range_u16_u32 t = Tetl.C14.inRange ⟨16, false⟩ ⟨32, false⟩ t := by
  have ha := gen_cmp_greater_equal_u32_u16 t 0 ht (by decide)
  have hb := gen_cmp_less_equal_u32_u16 t 65535 ht (by decide)
  have h2 : Gen.in_range_u16_u32 t = decide (0 ≤ t ∧ t ≤ 65535) := by
    simp only [Gen.in_range_u16_u32, ha.2.1, hb.2.1]; bool_fin
  refine ⟨by simp only [Gen.in_range_u16_u32_ub, ha.1, hb.1] <;> simp, h2, ?_⟩
  rw [h2, Props.inRange_eq _ _ (by decide) (by decide) t (inR_u32 t ht)]
  simp [ITy.inR, ITy.min, ITy.max]

theorem gen_in_range_u16_u64 (t : Int) (ht : 0 ≤ t ∧ t < 18446744073709551616) :
    Gen.in_range_u16_u64_ub t = true ∧ Gen.in_range_u16_u64 t = decide (0 ≤ t ∧ t ≤ 65535) ∧
    Gen.in_range_u16_u64 t = Tetl.C14.inRange ⟨16, false⟩ ⟨64, false⟩ t := by
  have ha := gen_cmp_greater_equal_u64_u16 t 0 ht (by decide)
  have hb := gen_cmp_less_equal_u64_u16 t 65535 ht (by decide)
  have h2 : Gen.in_range_u16_u64 t = decide (0 ≤ t ∧ t ≤ 65535) := by
    simp only [Gen.in_range_u16_u64, ha.2.1, hb.2.1]; bool_fin
  refine ⟨by simp only [Gen.in_range_u16_u64_ub, ha.1, hb.1] <;> simp, h2, ?_⟩
  rw [h2, Props.inRange_eq _ _ (by decide) (by decide) t (inR_u64 t ht)]
  simp [ITy.inR, ITy.min, ITy.max]

theorem gen_in_range_u16_i8 (t : Int) (ht : -128 ≤ t ∧ t < 128) :
    Gen.in_range_u16_i8_ub t = true ∧ Gen.in_range_u16_i8 t = decide (0 ≤ t ∧ t ≤ 65535) ∧
    Gen.in_range_u16_i8 t = Tetl.C14.inRange ⟨16, false⟩ ⟨8, true⟩ t := by
  have ha := gen_cmp_greater_equal_i8_u16 t 0 ht (by decide)
  have hb := gen_cmp_less_equal_i8_u16 t 65535 ht (by decide)
  have h2 : Gen.in_range_u16_i8 t = decide (0 ≤ t ∧ t ≤ 65535) := by
    simp only [Gen.in_range_u16_i8, ha.2.1, hb.2.1]; bool_fin
  refine ⟨by simp only [Gen.in_range_u16_i8_ub, ha.1, hb.1] <;> simp, h2, ?_⟩
  rw [h2, Props.inRange_eq _ _ (by decide) (by decide) t (inR_i8 t ht)]
  simp [ITy.inR, ITy.min, ITy.max]

theorem gen_in_range_u16_i16 (t : Int) (ht : -32768 ≤ t ∧ t < 32768) :
    Gen.in_range_u16_i16_ub t = true ∧ Gen.in_range_u16_i16 t = decide (0 ≤ t ∧ t ≤ 65535) ∧
    Gen.in_range_u16_i16 t = Tetl.C14.inRange ⟨16, false⟩ ⟨16, true⟩ t := by
  have ha := gen_cmp_greater_equal_i16_u16 t 0 ht (by decide)
  have hb := gen_cmp_less_equal_i16_u16 t 65535 ht (by decide)
  have h2 : Gen.in_range_u16_i16 t = decide (0 ≤ t ∧ t ≤ 65535) := by
    simp only [Gen.in_range_u16_i16, ha.2.1, hb.2.1]; bool_fin
  refine ⟨by simp only [Gen.in_range_u16_i16_ub, ha.1, hb.1] <;> simp, h2, ?_⟩
  rw [h2, Props.inRange_eq _ _ (by decide) (by decide) t (inR_i16 t ht)]
  simp [ITy.inR, ITy.min, ITy.max]

theorem gen_in_range_u16_i32 (t : Int) (ht : -2147483648 ≤ t ∧ t < 2147483648) :
    Gen.in_range_u16_i32_ub t = true ∧ Gen.in_range_u16_i32 t = decide (0 ≤ t ∧ t ≤ 65535) ∧
    Gen.in_range_u16_i32 t = Tetl.C14.inRange ⟨16, false⟩ ⟨32, true⟩ t := by
  have ha := gen_cmp_greater_equal_i32_u16 t 0 ht (by decide)
  have hb := gen_cmp_less_equal_i32_u16 t 65535 ht (by decide)
  have h2 : Gen.in_range_u16_i32 t = decide (0 ≤ t ∧ t ≤ 65535) := by
    simp only [Gen.in_range_u16_i32, ha.2.1, hb.2.1]; bool_fin
  refine ⟨by simp only [Gen.in_range_u16_i32_ub, ha.1, hb.1] <;> simp, h2, ?_⟩
  rw [h2, Props.inRange_eq _ _ (by decide) (by decide) t (inR_i32 t ht)]
  simp [ITy.inR, ITy.min, ITy.max]

theorem gen_in_range_u16_i64 (t : Int) (ht : -9223372036854775808 ≤ t ∧ t < 9223372036854775808) :
    Gen.in_range_u16_i64_ub t = true ∧ Gen.in_range_u16_i64 t = decide (0 ≤ t ∧ t ≤ 65535) ∧
    Gen.in_range_u16_i64 t = Tetl.C14.inRange ⟨16, false⟩ ⟨64, true⟩ t := by
  have ha := gen_cmp_greater_equal_i64_u16 t 0 ht (by decide)
  have hb := gen_cmp_less_equal_i64_u16 t 65535 ht (by decide)
  have h2 : Gen.in_range_u16_i64 t = decide (0 ≤ t ∧ t ≤ 65535) := by
    simp only [Gen.in_range_u16_i64, ha.2.1, hb.2.1]; bool_fin
  refine ⟨by simp only [Gen.in_range_u16_i64_ub, ha.1, hb.1] <;> simp, h2, ?_⟩
  rw [h2, Props.inRange_eq _ _ (by decide) (by decide) t (inR_i64 t ht)]
  simp [ITy.inR, ITy.min, ITy.max]

theorem gen_in_range_u32_u8 (t : Int) (ht : 0 ≤ t ∧ t < 256) :
    Gen.in_range_u32_u8_ub t = true ∧ Gen.in_range_u32_u8 t = decide (0 ≤ t ∧ t ≤ 4294967295) ∧
    Gen.in_range_u32_u8 t = Tetl.C14.inRange ⟨32, false⟩ ⟨8, false⟩ t := by
  have ha := gen_cmp_greater_equal_u8_u32 t 0 ht (by decide)
  have hb := gen_cmp_less_equal_u8_u32 t 4294967295 ht (by decide)
  have h2 : Gen.in_range_u32_u8 t = decide (0 ≤ t ∧ t ≤ 4294967295) := by
    simp only [Gen.in_range_u32_u8, ha.2.1, hb.2.1]; bool_fin
  refine ⟨by simp only [Gen.in_range_u32_u8_ub, ha.1, hb.1] <;> simp, h2, ?_⟩
  rw [h2, Props.inRange_eq _ _ (by decide) (by decide) t (inR_u8 t ht)]
  simp [ITy.inR, ITy.min, ITy.max]

theorem gen_in_range_u32_u16 (t : Int) (ht : 0 ≤ t ∧ t < 65536) :
    Gen.in_range_u32_u16_ub t = true ∧ Gen.in_range_u32_u16 t = decide (0 ≤ t ∧ t ≤ 4294967295) ∧
    Gen.in_range_u32_u16 t = Tetl.C14.inRange ⟨32, false⟩ ⟨16, false⟩ t := by
  have ha := gen_cmp_greater_equal_u16_u32 t 0 ht (by decide)
  have hb := gen_cmp_less_equal_u16_u32 t 4294967295 ht (by decide)
  have h2 : Gen.in_range_u32_u16 t = decide (0 ≤ t ∧ t ≤ 4294967295) := by
    simp only [Gen.in_range_u32_u16, ha.2.1, hb.2.1]; bool_fin
  refine ⟨by simp only [Gen.in_range_u32_u16_ub, ha.1, hb.1] <;> simp, h2, ?_⟩
  rw [h2, Props.inRange_eq _ _ (by decide) (by decide) t (inR_u16 t ht)]
  simp [ITy.inR, ITy.min, ITy.max]

theorem gen_in_range_u32_u32 (t : Int) (ht : 0 ≤ t ∧ t < 4294967296) :
    Gen.in_range_u32_u32_ub t = true ∧ Gen.in_range_u32_u32 t = decide (0 ≤ t ∧ t ≤ 4294967295) ∧
    Gen.in_range_u32_u32 t = Tetl.C14.inRange ⟨32, false⟩ ⟨32, false⟩ t := by
  have ha := gen_cmp_greater_equal_u32_u32 t 0 ht (by decide)
  have hb := gen_cmp_less_equal_u32_u32 t 4294967295 ht (by decide)
  have h2 : Gen.in_range_u32_u32 t = decide (0 ≤ t ∧ t ≤ 4294967295) := by
    simp only [Gen.in_range_u32_u32, ha.2.1, hb.2.1]; bool_fin
  refine ⟨by simp only [Gen.in_range_u32_u32_ub, ha.1, hb.1] <;> simp, h2, ?_⟩
  rw [h2, Props.inRange_eq _ _ (by decide) (by decide) t (inR_u32 t ht)]
  simp [ITy.inR, ITy.min, ITy.max]

theorem gen_in_range_u32_u64 (t : Int) (ht : 0 ≤ t ∧ t < 18446744073709551616) :
    Gen.in_range_u32_u64_ub t = true ∧ Gen.in_range_u32_u64 t = decide (0 ≤ t ∧ t ≤ 4294967295) ∧
    Gen.in_range_u32_u64 t = Tetl.C14.inRange ⟨32, false⟩ ⟨64, false⟩ t := by
  have ha := gen_cmp_greater_equal_u64_u32 t 0 ht (by decide)
  have hb := gen_cmp_less_equal_u64_u32 t 4294967295 ht (by decide)
  have h2 : Gen.in_range_u32_u64 t = decide (0 ≤ t ∧ t ≤ 4294967295) := by
    simp only [Gen.in_range_u32_u64, ha.2.1, hb.2.1]; bool_fin
  refine ⟨by simp only [Gen.in_range_u32_u64_ub, ha.1, hb.1] <;> simp, h2, ?_⟩
  rw [h2, Props.inRange_eq _ _ (by decide) (by decide) t (inR_u64 t ht)]
  simp [ITy.inR, ITy.min, ITy.max]

theorem gen_in_range_u32_i8 (t : Int) (ht : -128 ≤ t ∧ t < 128) :
    Gen.in_range_u32_i8_ub t = true ∧ Gen.in_range_u32_i8 t = decide (0 ≤ t ∧ t ≤ 4294967295) ∧
    Gen.in_range_u32_i8 t = Tetl.C14.inRange ⟨32, false⟩ ⟨8, true⟩ t := by
  have ha := gen_cmp_greater_equal_i8_u32 t 0 ht (by decide)
  have hb := gen_cmp_less_equal_i8_u32 t 4294967295 ht (by decide)
  have h2 : Gen.in_range_u32_i8 t = decide (0 ≤ t ∧ t ≤ 4294967295) := by
    simp only [Gen.in_range_u32_i8, ha.2.1, hb.2.1]; bool_fin
  refine ⟨by simp only [Gen.in_range_u32_i8_ub, ha.1, hb.1] <;> simp, h2, ?_⟩
  rw [h2, Props.inRange_eq _ _ (by decide) (by decide) t (inR_i8 t ht)]
  simp [ITy.inR, ITy.min, ITy.max]

theorem gen_in_range_u32_i16 (t : Int) (ht : -32768 ≤ t ∧ t < 32768) :
    Gen.in_range_u32_i16_ub t = true ∧ Gen.in_range_u32_i16 t = decide (0 ≤ t ∧ t ≤ 4294967295) ∧
    Gen.in_range_u32_i16 t = Tetl.C14.inRange ⟨32, false⟩ ⟨16, true⟩ t := by
  have ha := gen_cmp_greater_equal_i16_u32 t 0 ht (by decide)
  have hb := gen_cmp_less_equal_i16_u32 t 4294967295 ht (by decide)
  have h2 : Gen.in_range_u32_i16 t = decide (0 ≤ t ∧ t ≤ 4294967295) := by
    simp only [Gen.in_range_u32_i16, ha.2.1, hb.2.1]; bool_fin
  refine ⟨by simp only [Gen.in_range_u32_i16_ub, ha.1, hb.1] <;> simp, h2, ?_⟩
  rw [h2, Props.inRange_eq _ _ (by decide) (by decide) t (inR_i16 t ht)]
  simp [ITy.inR, ITy.min, ITy.max]

theorem gen_in_range_u32_i32 (t : Int) (ht : -2147483648 ≤ t ∧ t < 2147483648) :
    Gen.in_range_u32_i32_ub t = true ∧ Gen.in_range_u32_i32 t = decide (0 ≤ t ∧ t ≤ 4294967295) ∧
    Gen.in_range_u32_i32 t = Tetl.C14.inRange ⟨32, false⟩ ⟨32, true⟩ t := by
  have ha := gen_cmp_greater_equal_i32_u32 t 0 ht (by decide)
  have hb := gen_cmp_less_equal_i32_u32 t 4294967295 ht (by decide)
  have h2 : Gen.in_range_u32_i32 t = decide (0 ≤ t ∧ t ≤ 4294967295) := by
    simp only [Gen.in_range_u32_i32, ha.2.1, hb.2.1]; bool_fin
  refine ⟨by simp only [Gen.in_range_u32_i32_ub, ha.1, hb.1] <;> simp, h2, ?_⟩
  rw [h2, Props.inRange_eq _ _ (by decide) (by decide) t (inR_i32 t ht)]
  simp [ITy.inR, ITy.min, ITy.max]

theorem gen_in_range_u32_i64 (t : Int) (ht : -9223372036854775808 ≤ t ∧ t < 9223372036854775808) :
    Gen.in_range_u32_i64_ub t = true ∧ Gen.in_range_u32_i64 t = decide (0 ≤ t ∧ t ≤ 4294967295) ∧
    Gen.in_range_u32_i64 t = Tetl.C14.inRange ⟨32, false⟩ ⟨64, true⟩ t := by
  have ha := gen_cmp_greater_equal_i64_u32 t 0 ht (by decide)
  have hb := gen_cmp_less_equal_i64_u32 t 4294967295 ht (by decide)
  have h2 : Gen.in_range_u32_i64 t = decide (0 ≤ t ∧ t ≤ 4294967295) := by
    simp only [Gen.in_range_u32_i64, ha.2.1, hb.2.1]; bool_fin
  refine ⟨by simp only [Gen.in_range_u32_i64_ub, ha.1, hb.1] <;> simp, h2, ?_⟩
  rw [h2, Props.inRange_eq _ _ (by decide) (by decide) t (inR_i64 t ht)]
  simp [ITy.inR, ITy.min, ITy.max]

theorem gen_in_range_u64_u8 (t : Int) (ht : 0 ≤ t ∧ t < 256) :
    Gen.in_range_u64_u8_ub t = true ∧ Gen.in_range_u64_u8 t = decide (0 ≤ t ∧ t ≤ 18446744073709551615) ∧
    Gen.in_range_u64_u8 t = Tetl.C14.inRange ⟨64, false⟩ ⟨8, false⟩ t := by
  have ha := gen_cmp_greater_equal_u8_u64 t 0 ht (by decide)
  have hb := gen_cmp_less_equal_u8_u64 t 18446744073709551615 ht (by decide)
  have h2 : Gen.in_range_u64_u8 t = decide (0 ≤ t ∧ t ≤ 18446744073709551615) := by
    simp only [Gen.in_range_u64_u8, ha.2.1, hb.2.1]; bool_fin
  refine ⟨by simp only [Gen.in_range_u64_u8_ub, ha.1, hb.1] <;> simp, h2, ?_⟩
  rw [h2, Props.inRange_eq _ _ (by decide) (by decide) t (inR_u8 t ht)]
  simp [ITy.inR, ITy.min, ITy.max]

theorem gen_in_range_u64_u16 (t : Int) (ht : 0 ≤ t ∧ t < 65536) :
    Gen.in_range_u64_u16_ub t = true ∧ Gen.in_range_u64_u16 t = decide (0 ≤ t ∧ t ≤ 18446744073709551615) ∧
    Gen.in_range_u64_u16 t = Tetl.C14.inRange ⟨64, false⟩ ⟨16, false⟩ t := by
  have ha := gen_cmp_greater_equal_u16_u64 t 0 ht (by decide)
  have hb := gen_cmp_less_equal_u16_u64 t 18446744073709551615 ht (by decide)
  have h2 : Gen.in_range_u64_u16 t = decide (0 ≤ t ∧ t ≤ 18446744073709551615) := by
    simp only [Gen.in_range_u64_u16, ha.2.1, hb.2.1]; bool_fin
  refine ⟨by simp only [Gen.in_range_u64_u16_ub, ha.1, hb.1] <;> simp, h2, ?_⟩
  rw [h2, Props.inRange_eq _ _ (by decide) (by decide) t (inR_u16 t ht)]
  simp [ITy.inR, ITy.min, ITy.max]

theorem gen_in_range_u64_u32 (t : Int) (ht : 0 ≤ t ∧ t < 4294967296) :
    Gen.in_range_u64_u32_ub t = true ∧ Gen.in_range_u64_u32 t = decide (0 ≤ t ∧ t ≤ 18446744073709551615) ∧
    Gen.in_range_u64_u32 t = Tetl.C14.inRange ⟨64, false⟩ ⟨32, false⟩ t := by
  have ha := gen_cmp_greater_equal_u32_u64 t 0 ht (by decide)
  have hb := gen_cmp_less_equal_u32_u64 t 18446744073709551615 ht (by decide)
  have h2 : Gen.in_range_u64_u32 t = decide (0 ≤ t ∧ t ≤ 18446744073709551615) := by
    simp only [Gen.in_range_u64_u32, ha.2.1, hb.2.1]; bool_fin
  refine ⟨by simp only [Gen.in_range_u64_u32_ub, ha.1, hb.1] <;> simp, h2, ?_⟩
  rw [h2, Props.inRange_eq _ _ (by decide) (by decide) t (inR_u32 t ht)]
  simp [ITy.inR, ITy.min, ITy.max]

theorem gen_in_range_u64_u64 (t : Int) (ht : 0 ≤ t ∧ t < 18446744073709551616) :
    Gen.in_range_u64_u64_ub t = true ∧ Gen.in_range_u64_u64 t = decide (0 ≤ t ∧ t ≤ 18446744073709551615) ∧
    Gen.in_range_u64_u64 t = Tetl.C14.inRange ⟨64, false⟩ ⟨64, false⟩ t := by
  have ha := gen_cmp_greater_equal_u64_u64 t 0 ht (by decide)
  have hb := gen_cmp_less_equal_u64_u64 t 18446744073709551615 ht (by decide)
  have h2 : Gen.in_range_u64_u64 t = decide (0 ≤ t ∧ t ≤ 18446744073709551615) := by
    simp only [Gen.in_range_u64_u64, ha.2.1, hb.2.1]; bool_fin
  refine ⟨by simp only [Gen.in_range_u64_u64_ub, ha.1, hb.1] <;> simp, h2, ?_⟩
  rw [h2, Props.inRange_eq _ _ (by decide) (by decide) t (inR_u64 t ht)]
  simp [ITy.inR, ITy.min, ITy.max]

theorem gen_in_range_u64_i8 (t : Int) (ht : -128 ≤ t ∧ t < 128) :
    Gen.in_range_u64_i8_ub t = true ∧ Gen.in_range_u64_i8 t = decide (0 ≤ t ∧ t ≤ 18446744073709551615) ∧
    Gen.in_range_u64_i8 t = Tetl.C14.inRange ⟨64, false⟩ ⟨8, true⟩ t := by
  have ha := gen_cmp_greater_equal_i8_u64 t 0 ht (by decide)
  have hb := gen_cmp_less_equal_i8_u64 t 18446744073709551615 ht (by decide)
  have h2 : Gen.in_range_u64_i8 t = decide (0 ≤ t ∧ t ≤ 18446744073709551615) := by
    simp only [Gen.in_range_u64_i8, ha.2.1, hb.2.1]; bool_fin
  refine ⟨by simp only [Gen.in_range_u64_i8_ub, ha.1, hb.1] <;> simp, h2, ?_⟩
  rw [h2, Props.inRange_eq _ _ (by decide) (by decide) t (inR_i8 t ht)]
  simp [ITy.inR, ITy.min, ITy.max]

theorem gen_in_range_u64_i16 (t : Int) (ht : -32768 ≤ t ∧ t < 32768) :
    Gen.in_range_u64_i16_ub t = true ∧ Gen.in_range_u64_i16 t = decide (0 ≤ t ∧ t ≤ 18446744073709551615) ∧
    Gen.in_range_u64_i16 t = Tetl.C14.inRange ⟨64, false⟩ ⟨16, true⟩ t := by
  have ha := gen_cmp_greater_equal_i16_u64 t 0 ht (by decide)
  have hb := gen_cmp_less_equal_i16_u64 t 18446744073709551615 ht (by decide)
  have h2 : Gen.in_range_u64_i16 t = decide (0 ≤ t ∧ t ≤ 18446744073709551615) := by
    simp only [Gen.in_range_u64_i16, ha.2.1, hb.2.1]; bool_fin
  refine ⟨by simp only [Gen.in_range_u64_i16_ub, ha.1, hb.1] <;> simp, h2, ?_⟩
  rw [h2, Props.inRange_eq _ _ (by decide) (by decide) t (inR_i16 t ht)]
  simp [ITy.inR, ITy.min, ITy.max]

theorem gen_in_range_u64_i32 (t : Int) (ht : -2147483648 ≤ t ∧ t < 2147483648) :
    Gen.in_range_u64_i32_ub t = true ∧ Gen.in_range_u64_i32 t = decide (0 ≤ t ∧ t ≤ 18446744073709551615) ∧
    Gen.in_range_u64_i32 t = Tetl.C14.inRange ⟨64, false⟩ ⟨32, true⟩ t := by
  have ha := gen_cmp_greater_equal_i32_u64 t 0 ht (by decide)
  have hb := gen_cmp_less_equal_i32_u64 t 18446744073709551615 ht (by decide)
  have h2 : Gen.in_range_u64_i32 t = decide (0 ≤ t ∧ t ≤ 18446744073709551615) := by
    simp only [Gen.in_range_u64_i32, ha.2.1, hb.2.1]; bool_fin
  refine ⟨by simp only [Gen.in_range_u64_i32_ub, ha.1, hb.1] <;> simp, h2, ?_⟩
  rw [h2, Props.inRange_eq _ _ (by decide) (by decide) t (inR_i32 t ht)]
  simp [ITy.inR, ITy.min, ITy.max]

theorem gen_in_range_u64_i64 (t : Int) (ht : -9223372036854775808 ≤ t ∧ t < 9223372036854775808) :
    Gen.in_range_u64_i64_ub t = true ∧ Gen.in_range_u64_i64 t = decide (0 ≤ t ∧ t ≤ 18446744073709551615) ∧
    Gen.in_range_u64_i64 t = Tetl.C14.inRange ⟨64, false⟩ ⟨64, true⟩ t := by
  have ha := gen_cmp_greater_equal_i64_u64 t 0 ht (by decide)
  have hb := gen_cmp_less_equal_i64_u64 t 18446744073709551615 ht (by decide)
  have h2 : Gen.in_range_u64_i64 t = decide (0 ≤ t ∧ t ≤ 18446744073709551615) := by
    simp only [Gen.in_range_u64_i64, ha.2.1, hb.2.1]; bool_fin
  refine ⟨by simp only [Gen.in_range_u64_i64_ub, ha.1, hb.1] <;> simp, h2, ?_⟩
  rw [h2, Props.inRange_eq _ _ (by decide) (by decide) t (inR_i64 t ht)]
  simp [ITy.inR, ITy.min, ITy.max]

theorem gen_in_range_i8_u8 (t : Int) (ht : 0 ≤ t ∧ t < 256) :
    Gen.in_range_i8_u8_ub t = true ∧ Gen.in_range_i8_u8 t = decide ((-128) ≤ t ∧ t ≤ 127) ∧
    Gen.in_range_i8_u8 t = Tetl.C14.inRange ⟨8, true⟩ ⟨8, false⟩ t := by
  have ha := gen_cmp_greater_equal_u8_i8 t (-128) ht (by decide)
  have hb := gen_cmp_less_equal_u8_i8 t 127 ht (by decide)
  have h2 : Gen.in_range_i8_u8 t = decide ((-128) ≤ t ∧ t ≤ 127) := by
    simp only [Gen.in_range_i8_u8, ha.2.1, hb.2.1]; bool_fin
  refine ⟨by simp only [Gen.in_range_i8_u8_ub, ha.1, hb.1] <;> simp, h2, ?_⟩
  rw [h2, Props.inRange_eq _ _ (by decide) (by decide) t (inR_u8 t ht)]
  simp [ITy.inR, ITy.min, ITy.max]

theorem gen_in_range_i8_u16 (t : Int) (ht : 0 ≤ t ∧ t < 65536) :
    Gen.in_range_i8_u16_ub t = true ∧ Gen.in_range_i8_u16 t = decide ((-128) ≤ t ∧ t ≤ 127) ∧
    Gen.in_range_i8_u16 t = Tetl.C14.inRange ⟨8, true⟩ ⟨16, false⟩ t := by
  have ha := gen_cmp_greater_equal_u16_i8 t (-128) ht (by decide)
  have hb := gen_cmp_less_equal_u16_i8 t 127 ht (by decide)
  have h2 : Gen.in_range_i8_u16 t = decide ((-128) ≤ t ∧ t ≤ 127) := by
    simp only [Gen.in_range_i8_u16, ha.2.1, hb.2.1]; bool_fin
  refine ⟨by simp only [Gen.in_range_i8_u16_ub, ha.1, hb.1] <;> simp, h2, ?_⟩
  rw [h2, Props.inRange_eq _ _ (by decide) (by decide) t (inR_u16 t ht)]
  simp [ITy.inR, ITy.min, ITy.max]

theorem gen_in_range_i8_u32 (t : Int) (ht : 0 ≤ t ∧ t < 4294967296) :
    Gen.in_range_i8_u32_ub t = true ∧ Gen.in_range_i8_u32 t = decide ((-128) ≤ t ∧ t ≤ 127) ∧
    Gen.in_range_i8_u32 t = Tetl.C14.inRange ⟨8, true⟩ ⟨32, false⟩ t := by
  have ha := gen_cmp_greater_equal_u32_i8 t (-128) ht (by decide)
  have hb := gen_cmp_less_equal_u32_i8 t 127 ht (by decide)
  have h2 : Gen.in_range_i8_u32 t = decide ((-128) ≤ t ∧ t ≤ 127) := by
    simp only [Gen.in_range_i8_u32, ha.2.1, hb.2.1]; bool_fin
  refine ⟨by simp only [Gen.in_range_i8_u32_ub, ha.1, hb.1] <;> simp, h2, ?_⟩
  rw [h2, Props.inRange_eq _ _ (by decide) (by decide) t (inR_u32 t ht)]
  simp [ITy.inR, ITy.min, ITy.max]

theorem gen_in_range_i8_u64 (t : Int) (ht : 0 ≤ t ∧ t < 18446744073709551616) :
    Gen.in_range_i8_u64_ub t = true ∧ Gen.in_range_i8_u64 t = decide ((-128) ≤ t ∧ t ≤ 127) ∧
    Gen.in_range_i8_u64 t = Tetl.C14.inRange ⟨8, true⟩ ⟨64, false⟩ t := by
  have ha := gen_cmp_greater_equal_u64_i8 t (-128) ht (by decide)
  have hb := gen_cmp_less_equal_u64_i8 t 127 ht (by decide)
  have h2 : Gen.in_range_i8_u64 t = decide ((-128) ≤ t ∧ t ≤ 127) := by
    simp only [Gen.in_range_i8_u64, ha.2.1, hb.2.1]; bool_fin
  refine ⟨by simp only [Gen.in_range_i8_u64_ub, ha.1, hb.1] <;> simp, h2, ?_⟩
  rw [h2, Props.inRange_eq _ _ (by decide) (by decide) t (inR_u64 t ht)]
  simp [ITy.inR, ITy.min, ITy.max]

theorem gen_in_range_i8_i8 (t : Int) (ht : -128 ≤ t ∧ t < 128) :
    Gen.in_range_i8_i8_ub t = true ∧ Gen.in_range_i8_i8 t = decide ((-128) ≤ t ∧ t ≤ 127) ∧
    Gen.in_range_i8_i8 t = Tetl.C14.inRange ⟨8, true⟩ ⟨8, true⟩ t := by
  have ha := gen_cmp_greater_equal_i8_i8 t (-128) ht (by decide)
  have hb := gen_cmp_less_equal_i8_i8 t 127 ht (by decide)
  have h2 : Gen.in_range_i8_i8 t = decide ((-128) ≤ t ∧ t ≤ 127) := by
    simp only [Gen.in_range_i8_i8, ha.2.1, hb.2.1]; bool_fin
  refine ⟨by simp only [Gen.in_range_i8_i8_ub, ha.1, hb.1] <;> simp, h2, ?_⟩
  rw [h2, Props.inRange_eq _ _ (by decide) (by decide) t (inR_i8 t ht)]
  simp [ITy.inR, ITy.min, ITy.max]

theorem gen_in_range_i8_i16 (t : Int) (ht : -32768 ≤ t ∧ t < 32768) :
    Gen.in_range_i8_i16_ub t = true ∧ Gen.in_range_i8_i16 t = decide ((-128) ≤ t ∧ t ≤ 127) ∧
    Gen.in_range_i8_i16 t = Tetl.C14.inRange ⟨8, true⟩ ⟨16, true⟩ t := by
  have ha := gen_cmp_greater_equal_i16_i8 t (-128) ht (by decide)
  have hb := gen_cmp_less_equal_i16_i8 t 127 ht (by decide)
  have h2 : Gen.in_range_i8_i16 t = decide ((-128) ≤ t ∧ t ≤ 127) := by
    simp only [Gen.in_range_i8_i16, ha.2.1, hb.2.1]; bool_fin
  refine ⟨by simp only [Gen.in_range_i8_i16_ub, ha.1, hb.1] <;> simp, h2, ?_⟩
  rw [h2, Props.inRange_eq _ _ (by decide) (by decide) t (inR_i16 t ht)]
  simp [ITy.inR, ITy.min, ITy.max]

theorem gen_in_range_i8_i32 (t : Int) (ht : -2147483648 ≤ t ∧ t < 2147483648) :
    Gen.in_range_i8_i32_ub t = true ∧ Gen.in_range_i8_i32 t = decide ((-128) ≤ t ∧ t ≤ 127) ∧
    Gen.in_range_i8_i32 t = Tetl.C14.inRange ⟨8, true⟩ ⟨32, true⟩ t := by
  have ha := gen_cmp_greater_equal_i32_i8 t (-128) ht (by decide)
  have hb := gen_cmp_less_equal_i32_i8 t 127 ht (by decide)
  have h2 : Gen.in_range_i8_i32 t = decide ((-128) ≤ t ∧ t ≤ 127) := by
    simp only [Gen.in_range_i8_i32, ha.2.1, hb.2.1]; bool_fin
  refine ⟨by simp only [Gen.in_range_i8_i32_ub, ha.1, hb.1] <;> simp, h2, ?_⟩
  rw [h2, Props.inRange_eq _ _ (by decide) (by decide) t (inR_i32 t ht)]
  simp [ITy.inR, ITy.min, ITy.max]

theorem gen_in_range_i8_i64 (t : Int) (ht : -9223372036854775808 ≤ t ∧ t < 9223372036854775808) :
    Gen.in_range_i8_i64_ub t = true ∧ Gen.in_range_i8_i64 t = decide ((-128) ≤ t ∧ t ≤ 127) ∧
    Gen.in_range_i8_i64 t = Tetl.C14.inRange ⟨8, true⟩ ⟨64, true⟩ t := by
  have ha := gen_cmp_greater_equal_i64_i8 t (-128) ht (by decide)
  have hb := gen_cmp_less_equal_i64_i8 t 127 ht (by decide)
  have h2 : Gen.in_range_i8_i64 t = decide ((-128) ≤ t ∧ t ≤ 127) := by
    simp only [Gen.in_range_i8_i64, ha.2.1, hb.2.1]; bool_fin
  refine ⟨by simp only [Gen.in_range_i8_i64_ub, ha.1, hb.1] <;> simp, h2, ?_⟩
  rw [h2, Props.inRange_eq _ _ (by decide) (by decide) t (inR_i64 t ht)]
  simp [ITy.inR, ITy.min, ITy.max]

theorem gen_in_range_i16_u8 (t : Int) (ht : 0 ≤ t ∧ t < 256) :
    Gen.in_range_i16_u8_ub t = true ∧ Gen.in_range_i16_u8 t = decide ((-32768) ≤ t ∧ t ≤ 32767) ∧
    Gen.in_range_i16_u8 t = Tetl.C14.inRange ⟨16, true⟩ ⟨8, false⟩ t := by
  have ha := gen_cmp_greater_equal_u8_i16 t (-32768) ht (by decide)
  have hb := gen_cmp_less_equal_u8_i16 t 32767 ht (by decide)
  have h2 : Gen.in_range_i16_u8 t = decide ((-32768) ≤ t ∧ t ≤ 32767) := by
    simp only [Gen.in_range_i16_u8, ha.2.1, hb.2.1]; bool_fin
  refine ⟨by simp only [Gen.in_range_i16_u8_ub, ha.1, hb.1] <;> simp, h2, ?_⟩
  rw [h2, Props.inRange_eq _ _ (by decide) (by decide) t (inR_u8 t ht)]
  simp [ITy.inR, ITy.min, ITy.max]

theorem gen_in_range_i16_u16 (t : Int) (ht : 0 ≤ t ∧ t < 65536) :
    Gen.in_range_i16_u16_ub t = true ∧ Gen.in_range_i16_u16 t = decide ((-32768) ≤ t ∧ t ≤ 32767) ∧
    Gen.in_range_i16_u16 t = Tetl.C14.inRange ⟨16, true⟩ ⟨16, false⟩ t := by
  have ha := gen_cmp_greater_equal_u16_i16 t (-32768) ht (by decide)
  have hb := gen_cmp_less_equal_u16_i16 t 32767 ht (by decide)
  have h2 : Gen.in_range_i16_u16 t = decide ((-32768) ≤ t ∧ t ≤ 32767) := by
    simp only [Gen.in_range_i16_u16, ha.2.1, hb.2.1]; bool_fin
  refine ⟨by simp only [Gen.in_range_i16_u16_ub, ha.1, hb.1] <;> simp, h2, ?_⟩
  rw [h2, Props.inRange_eq _ _ (by decide) (by decide) t (inR_u16 t ht)]
  simp [ITy.inR, ITy.min, ITy.max]

theorem gen_in_range_i16_u32 (t : Int) (ht : 0 ≤ t ∧ t < 4294967296) :
    Gen.in_range_i16_u32_ub t = true ∧ Gen.in_range_i16_u32 t = decide ((-32768) ≤ t ∧ t ≤ 32767) ∧
    Gen.in_range_i16_u32 t = Tetl.C14.inRange ⟨16, true⟩ ⟨32, false⟩ t := by
  have ha := gen_cmp_greater_equal_u32_i16 t (-32768) ht (by decide)
  have hb := gen_cmp_less_equal_u32_i16 t 32767 ht (by decide)
  have h2 : Gen.in_range_i16_u32 t = decide ((-32768) ≤ t ∧ t ≤ 32767) := by
    simp only [Gen.in_range_i16_u32, ha.2.1, hb.2.1]; bool_fin
  refine ⟨by simp only [Gen.in_range_i16_u32_ub, ha.1, hb.1] <;> simp, h2, ?_⟩
  rw [h2, Props.inRange_eq _ _ (by decide) (by decide) t (inR_u32 t ht)]
  simp [ITy.inR, ITy.min, ITy.max]

theorem gen_in_range_i16_u64 (t : Int) (ht : 0 ≤ t ∧ t < 18446744073709551616) :
    Gen.in_range_i16_u64_ub t = true ∧ Gen.in_range_i16_u64 t = decide ((-32768) ≤ t ∧ t ≤ 32767) ∧
    Gen.in_range_i16_u64 t = Tetl.C14.inRange ⟨16, true⟩ ⟨64, false⟩ t := by
  have ha := gen_cmp_greater_equal_u64_i16 t (-32768) ht (by decide)
  have hb := gen_cmp_less_equal_u64_i16 t 32767 ht (by decide)
  have h2 : Gen.in_range_i16_u64 t = decide ((-32768) ≤ t ∧ t ≤ 32767) := by
    simp only [Gen.in_range_i16_u64, ha.2.1, hb.2.1]; bool_fin
  refine ⟨by simp only [Gen.in_range_i16_u64_ub, ha.1, hb.1] <;> simp, h2, ?_⟩
  rw [h2, Props.inRange_eq _ _ (by decide) (by decide) t (inR_u64 t ht)]
  simp [ITy.inR, ITy.min, ITy.max]

theorem gen_in_range_i16_i8 (t : Int) (ht : -128 ≤ t ∧ t < 128) :
    Gen.in_range_i16_i8_ub t = true ∧ Gen.in_range_i16_i8 t = decide ((-32768) ≤ t ∧ t ≤ 32767) ∧
    Gen.in_range_i16_i8 t = Tetl.C14.inRange ⟨16, true⟩ ⟨8, true⟩ t := by
  have ha := gen_cmp_greater_equal_i8_i16 t (-32768) ht (by decide)
  have hb := gen_cmp_less_equal_i8_i16 t 32767 ht (by decide)
  have h2 : Gen.in_range_i16_i8 t = decide ((-32768) ≤ t ∧ t ≤ 32767) := by
    simp only [Gen.in_range_i16_i8, ha.2.1, hb.2.1]; bool_fin
  refine ⟨by simp only [Gen.in_range_i16_i8_ub, ha.1, hb.1] <;> simp, h2, ?_⟩
  rw [h2, Props.inRange_eq _ _ (by decide) (by decide) t (inR_i8 t ht)]
  simp [ITy.inR, ITy.min, ITy.max]

theorem gen_in_range_i16_i16 (t : Int) (ht : -32768 ≤ t ∧ t < 32768) :
    Gen.in_range_i16_i16_ub t = true ∧ Gen.in_range_i16_i16 t = decide ((-32768) ≤ t ∧ t ≤ 32767) ∧
    Gen.in_range_i16_i16 t = Tetl.C14.inRange ⟨16, true⟩ ⟨16, true⟩ t := by
  have ha := gen_cmp_greater_equal_i16_i16 t (-32768) ht (by decide)
  have hb := gen_cmp_less_equal_i16_i16 t 32767 ht (by decide)
  have h2 : Gen.in_range_i16_i16 t = decide ((-32768) ≤ t ∧ t ≤ 32767) := by
    simp only [Gen.in_range_i16_i16, ha.2.1, hb.2.1]; bool_fin
  refine ⟨by simp only [Gen.in_range_i16_i16_ub, ha.1, hb.1] <;> simp, h2, ?_⟩
  rw [h2, Props.inRange_eq _ _ (by decide) (by decide) t (inR_i16 t ht)]
  simp [ITy.inR, ITy.min, ITy.max]

theorem gen_in_range_i16_i32 (t : Int) (ht : -2147483648 ≤ t ∧ t < 2147483648) :
    Gen.in_range_i16_i32_ub t = true ∧ Gen.in_range_i16_i32 t = decide ((-32768) ≤ t ∧ t ≤ 32767) ∧
    Gen.in_range_i16_i32 t = Tetl.C14.inRange ⟨16, true⟩ ⟨32, true⟩ t := by
  have ha := gen_cmp_greater_equal_i32_i16 t (-32768) ht (by decide)
  have hb := gen_cmp_less_equal_i32_i16 t 32767 ht (by decide)
  have h2 : Gen.in_range_i16_i32 t = decide ((-32768) ≤ t ∧ t ≤ 32767) := by
    simp only [Gen.in_range_i16_i32, ha.2.1, hb.2.1]; bool_fin
  refine ⟨by simp only [Gen.in_range_i16_i32_ub, ha.1, hb.1] <;> simp, h2, ?_⟩
  rw [h2, Props.inRange_eq _ _ (by decide) (by decide) t (inR_i32 t ht)]
  simp [ITy.inR, ITy.min, ITy.max]

theorem gen_in_range_i16_i64 (t : Int) (ht : -9223372036854775808 ≤ t ∧ t < 9223372036854775808) :
    Gen.in_range_i16_i64_ub t = true ∧ Gen.in_range_i16_i64 t = decide ((-32768) ≤ t ∧ t ≤ 32767) ∧
    Gen.in_range_i16_i64 t = Tetl.C14.inRange ⟨16, true⟩ ⟨64, true⟩ t := by
  have ha := gen_cmp_greater_equal_i64_i16 t (-32768) ht (by decide)
  have hb := gen_cmp_less_equal_i64_i16 t 32767 ht (by decide)
  have h2 : Gen.in_range_i16_i64 t = decide ((-32768) ≤ t ∧ t ≤ 32767) := by
    simp only [Gen.in_range_i16_i64, ha.2.1, hb.2.1]; bool_fin
  refine ⟨by simp only [Gen.in_range_i16_i64_ub, ha.1, hb.1] <;> simp, h2, ?_⟩
  rw [h2, Props.inRange_eq _ _ (by decide) (by decide) t (inR_i64 t ht)]
  simp [ITy.inR, ITy.min, ITy.max]

theorem gen_in_range_i32_u8 (t : Int) (ht : 0 ≤ t ∧ t < 256) :
    Gen.in_range_i32_u8_ub t = true ∧ Gen.in_range_i32_u8 t = decide ((-2147483648) ≤ t ∧ t ≤ 2147483647) ∧
    Gen.in_range_i32_u8 t = Tetl.C14.inRange ⟨32, true⟩ ⟨8, false⟩ t := by
  have ha := gen_cmp_greater_equal_u8_i32 t (-2147483648) ht (by decide)
  have hb := gen_cmp_less_equal_u8_i32 t 2147483647 ht (by decide)
  have h2 : Gen.in_range_i32_u8 t = decide ((-2147483648) ≤ t ∧ t ≤ 2147483647) := by
    simp only [Gen.in_range_i32_u8, ha.2.1, hb.2.1]; bool_fin
  refine ⟨by simp only [Gen.in_range_i32_u8_ub, ha.1, hb.1] <;> simp, h2, ?_⟩
  rw [h2, Props.inRange_eq _ _ (by decide) (by decide) t (inR_u8 t ht)]
  simp [ITy.inR, ITy.min, ITy.max]

theorem gen_in_range_i32_u16 (t : Int) (ht : 0 ≤ t ∧ t < 65536) :
    Gen.in_range_i32_u16_ub t = true ∧ Gen.in_range_i32_u16 t = decide ((-2147483648) ≤ t ∧ t ≤ 2147483647) ∧
    Gen.in_range_i32_u16 t = Tetl.C14.inRange ⟨32, true⟩ ⟨16, false⟩ t := by
  have ha := gen_cmp_greater_equal_u16_i32 t (-2147483648) ht (by decide)
  have hb := gen_cmp_less_equal_u16_i32 t 2147483647 ht (by decide)
  have h2 : Gen.in_range_i32_u16 t = decide ((-2147483648) ≤ t ∧ t ≤ 2147483647) := by
    simp only [Gen.in_range_i32_u16, ha.2.1, hb.2.1]; bool_fin
  refine ⟨by simp only [Gen.in_range_i32_u16_ub, ha.1, hb.1] <;> simp, h2, ?_⟩
  rw [h2, Props.inRange_eq _ _ (by decide) (by decide) t (inR_u16 t ht)]
  simp [ITy.inR, ITy.min, ITy.max]

theorem gen_in_range_i32_u32 (t : Int) (ht : 0 ≤ t ∧ t < 4294967296) :
    Gen.in_range_i32_u32_ub t = true ∧ Gen.in_range_i32_u32 t = decide ((-2147483648) ≤ t ∧ t ≤ 2147483647) ∧
    Gen.in_range_i32_u32 t = Tetl.C14.inRange ⟨32, true⟩ ⟨32, false⟩ t := by
  have ha := gen_cmp_greater_equal_u32_i32 t (-2147483648) ht (by decide)
  have hb := gen_cmp_less_equal_u32_i32 t 2147483647 ht (by decide)
  have h2 : Gen.in_range_i32_u32 t = decide ((-2147483648) ≤ t ∧ t ≤ 2147483647) := by
    simp only [Gen.in_range_i32_u32, ha.2.1, hb.2.1]; bool_fin
  refine ⟨by simp only [Gen.in_range_i32_u32_ub, ha.1, hb.1] <;> simp, h2, ?_⟩
  rw [h2, Props.inRange_eq _ _ (by decide) (by decide) t (inR_u32 t ht)]
  simp [ITy.inR, ITy.min, ITy.max]

theorem gen_in_range_i32_u64 (t : Int) (ht : 0 ≤ t ∧ t < 18446744073709551616) :
    Gen.in_range_i32_u64_ub t = true ∧ Gen.in_range_i32_u64 t = decide ((-2147483648) ≤ t ∧ t ≤ 2147483647) ∧
    Gen.in_range_i32_u64 t = Tetl.C14.inRange ⟨32, true⟩ ⟨64, false⟩ t := by
  have ha := gen_cmp_greater_equal_u64_i32 t (-2147483648) ht (by decide)
  have hb := gen_cmp_less_equal_u64_i32 t 2147483647 ht (by decide)
  have h2 : Gen.in_range_i32_u64 t = decide ((-2147483648) ≤ t ∧ t ≤ 2147483647) := by
    simp only [Gen.in_range_i32_u64, ha.2.1, hb.2.1]; bool_fin
  refine ⟨by simp only [Gen.in_range_i32_u64_ub, ha.1, hb.1] <;> simp, h2, ?_⟩
  rw [h2, Props.inRange_eq _ _ (by decide) (by decide) t (inR_u64 t ht)]
  simp [ITy.inR, ITy.min, ITy.max]

theorem gen_in_range_i32_i8 (t : Int) (ht : -128 ≤ t ∧ t < 128) :
    Gen.in_range_i32_i8_ub t = true ∧ Gen.in_range_i32_i8 t = decide ((-2147483648) ≤ t ∧ t ≤ 2147483647) ∧
    Gen.in_range_i32_i8 t = Tetl.C14.inRange ⟨32, true⟩ ⟨8, true⟩ t := by
  have ha := gen_cmp_greater_equal_i8_i32 t (-2147483648) ht (by decide)
  have hb := gen_cmp_less_equal_i8_i32 t 2147483647 ht (by decide)
  have h2 : Gen.in_range_i32_i8 t = decide ((-2147483648) ≤ t ∧ t ≤ 2147483647) := by
    simp only [Gen.in_range_i32_i8, ha.2.1, hb.2.1]; bool_fin
  refine ⟨by simp only [Gen.in_range_i32_i8_ub, ha.1, hb.1] <;> simp, h2, ?_⟩
  rw [h2, Props.inRange_eq _ _ (by decide) (by decide) t (inR_i8 t ht)]
  simp [ITy.inR, ITy.min, ITy.max]

theorem gen_in_range_i32_i16 (t : Int) (ht : -32768 ≤ t ∧ t < 32768) :
    Gen.in_range_i32_i16_ub t = true ∧ Gen.in_range_i32_i16 t = decide ((-2147483648) ≤ t ∧ t ≤ 2147483647) ∧
    Gen.in_range_i32_i16 t = Tetl.C14.inRange ⟨32, true⟩ ⟨16, true⟩ t := by
  have ha := gen_cmp_greater_equal_i16_i32 t (-2147483648) ht (by decide)
  have hb := gen_cmp_less_equal_i16_i32 t 2147483647 ht (by decide)
  have h2 : Gen.in_range_i32_i16 t = decide ((-2147483648) ≤ t ∧ t ≤ 2147483647) := by
    simp only [Gen.in_range_i32_i16, ha.2.1, hb.2.1]; bool_fin
  refine ⟨by simp only [Gen.in_range_i32_i16_ub, ha.1, hb.1] <;> simp, h2, ?_⟩
  rw [h2, Props.inRange_eq _ _ (by decide) (by decide) t (inR_i16 t ht)]
  simp [ITy.inR, ITy.min, ITy.max]

theorem gen_in_range_i32_i32 (t : Int) (ht : -2147483648 ≤ t ∧ t < 2147483648) :
    Gen.in_range_i32_i32_ub t = true ∧ Gen.in_range_i32_i32 t = decide ((-2147483648) ≤ t ∧ t ≤ 2147483647) ∧
    Gen.in_range_i32_i32 t = Tetl.C14.inRange ⟨32, true⟩ ⟨32, true⟩ t := by
  have ha := gen_cmp_greater_equal_i32_i32 t (-2147483648) ht (by decide)
  have hb := gen_cmp_less_equal_i32_i32 t 2147483647 ht (by decide)
  have h2 : Gen.in_range_i32_i32 t = decide ((-2147483648) ≤ t ∧ t ≤ 2147483647) := by
    simp only [Gen.in_range_i32_i32, ha.2.1, hb.2.1]; bool_fin
  refine ⟨by simp only [Gen.in_range_i32_i32_ub, ha.1, hb.1] <;> simp, h2, ?_⟩
  rw [h2, Props.inRange_eq _ _ (by decide) (by decide) t (inR_i32 t ht)]
  simp [ITy.inR, ITy.min, ITy.max]

theorem gen_in_range_i32_i64 (t : Int) (ht : -9223372036854775808 ≤ t ∧ t < 9223372036854775808) :
    Gen.in_range_i32_i64_ub t = true ∧ Gen.in_range_i32_i64 t = decide ((-2147483648) ≤ t ∧ t ≤ 2147483647) ∧
    Gen.in_range_i32_i64 t = Tetl.C14.inRange ⟨32, true⟩ ⟨64, true⟩ t := by
  have ha := gen_cmp_greater_equal_i64_i32 t (-2147483648) ht (by decide)
  have hb := gen_cmp_less_equal_i64_i32 t 2147483647 ht (by decide)
  have h2 : Gen.in_range_i32_i64 t = decide ((-2147483648) ≤ t ∧ t ≤ 2147483647) := by
    simp only [Gen.in_range_i32_i64, ha.2.1, hb.2.1]; bool_fin
  refine ⟨by simp only [Gen.in_range_i32_i64_ub, ha.1, hb.1] <;> simp, h2, ?_⟩
  rw [h2, Props.inRange_eq _ _ (by decide) (by decide) t (inR_i64 t ht)]
  simp [ITy.inR, ITy.min, ITy.max]

theorem gen_in_range_i64_u8 (t : Int) (ht : 0 ≤ t ∧ t < 256) :
    Gen.in_range_i64_u8_ub t = true ∧ Gen.in_range_i64_u8 t = decide ((-9223372036854775808) ≤ t ∧ t ≤ 9223372036854775807) ∧
    Gen.in_range_i64_u8 t = Tetl.C14.inRange ⟨64, true⟩ ⟨8, false⟩ t := by
  have ha := gen_cmp_greater_equal_u8_i64 t (-9223372036854775808) ht (by decide)
  have hb := gen_cmp_less_equal_u8_i64 t 9223372036854775807 ht (by decide)
  have h2 : Gen.in_range_i64_u8 t = decide ((-9223372036854775808) ≤ t ∧ t ≤ 9223372036854775807) := by
    simp only [Gen.in_range_i64_u8, ha.2.1, hb.2.1]; bool_fin
  refine ⟨by simp only [Gen.in_range_i64_u8_ub, ha.1, hb.1] <;> simp, h2, ?_⟩
  rw [h2, Props.inRange_eq _ _ (by decide) (by decide) t (inR_u8 t ht)]
  simp [ITy.inR, ITy.min, ITy.max]

theorem gen_in_range_i64_u16 (t : Int) (ht : 0 ≤ t ∧ t < 65536) :
    Gen.in_range_i64_u16_ub t = true ∧ Gen.in_range_i64_u16 t = decide ((-9223372036854775808) ≤ t ∧ t ≤ 9223372036854775807) ∧
    Gen.in_range_i64_u16 t = Tetl.C14.inRange ⟨64, true⟩ ⟨16, false⟩ t := by
  have ha := gen_cmp_greater_equal_u16_i64 t (-9223372036854775808) ht (by decide)
  have hb := gen_cmp_less_equal_u16_i64 t 9223372036854775807 ht (by decide)
  have h2 : Gen.in_range_i64_u16 t = decide ((-9223372036854775808) ≤ t ∧ t ≤ 9223372036854775807) := by
    simp only [Gen.in_range_i64_u16, ha.2.1, hb.2.1]; bool_fin
  refine ⟨by simp only [Gen.in_range_i64_u16_ub, ha.1, hb.1] <;> simp, h2, ?_⟩
  rw [h2, Props.inRange_eq _ _ (by decide) (by decide) t (inR_u16 t ht)]
  simp [ITy.inR, ITy.min, ITy.max]

theorem gen_in_range_i64_u32 (t : Int) (ht : 0 ≤ t ∧ t < 4294967296) :
    Gen.in_range_i64_u32_ub t = true ∧ Gen.in_range_i64_u32 t = decide ((-9223372036854775808) ≤ t ∧ t ≤ 9223372036854775807) ∧
    Gen.in_range_i64_u32 t = Tetl.C14.inRange ⟨64, true⟩ ⟨32, false⟩ t := by
  have ha := gen_cmp_greater_equal_u32_i64 t (-9223372036854775808) ht (by decide)
  have hb := gen_cmp_less_equal_u32_i64 t 9223372036854775807 ht (by decide)
  have h2 : Gen.in_range_i64_u32 t = decide ((-9223372036854775808) ≤ t ∧ t ≤ 9223372036854775807) := by
    simp only [Gen.in_range_i64_u32, ha.2.1, hb.2.1]; bool_fin
  refine ⟨by simp only [Gen.in_range_i64_u32_ub, ha.1, hb.1] <;> simp, h2, ?_⟩
  rw [h2, Props.inRange_eq _ _ (by decide) (by decide) t (inR_u32 t ht)]
  simp [ITy.inR, ITy.min, ITy.max]

theorem gen_in_range_i64_u64 (t : Int) (ht : 0 ≤ t ∧ t < 18446744073709551616) :
    Gen.in_range_i64_u64_ub t = true ∧ Gen.in_range_i64_u64 t = decide ((-9223372036854775808) ≤ t ∧ t ≤ 9223372036854775807) ∧
    Gen.in_range_i64_u64 t = Tetl.C14.inRange ⟨64, true⟩ ⟨64, false⟩ t := by
  have ha := gen_cmp_greater_equal_u64_i64 t (-9223372036854775808) ht (by decide)
  have hb := gen_cmp_less_equal_u64_i64 t 9223372036854775807 ht (by decide)
  have h2 : Gen.in_range_i64_u64 t = decide ((-9223372036854775808) ≤ t ∧ t ≤ 9223372036854775807) := by
    simp only [Gen.in_range_i64_u64, ha.2.1, hb.2.1]; bool_fin
  refine ⟨by simp only [Gen.in_range_i64_u64_ub, ha.1, hb.1] <;> simp, h2, ?_⟩
  rw [h2, Props.inRange_eq _ _ (by decide) (by decide) t (inR_u64 t ht)]
  simp [ITy.inR, ITy.min, ITy.max]

theorem gen_in_range_i64_i8 (t : Int) (ht : -128 ≤ t ∧ t < 128) :
    Gen.in_range_i64_i8_ub t = true ∧ Gen.in_range_i64_i8 t = decide ((-9223372036854775808) ≤ t ∧ t ≤ 9223372036854775807) ∧
    Gen.in_range_i64_i8 t = Tetl.C14.inRange ⟨64, true⟩ ⟨8, true⟩ t := by
  have ha := gen_cmp_greater_equal_i8_i64 t (-9223372036854775808) ht (by decide)
  have hb := gen_cmp_less_equal_i8_i64 t 9223372036854775807 ht (by decide)
  have h2 : Gen.in_range_i64_i8 t = decide ((-9223372036854775808) ≤ t ∧ t ≤ 9223372036854775807) := by
    simp only [Gen.in_range_i64_i8, ha.2.1, hb.2.1]; bool_fin
  refine ⟨by simp only [Gen.in_range_i64_i8_ub, ha.1, hb.1] <;> simp, h2, ?_⟩
  rw [h2, Props.inRange_eq _ _ (by decide) (by decide) t (inR_i8 t ht)]
  simp [ITy.inR, ITy.min, ITy.max]

theorem gen_in_range_i64_i16 (t : Int) (ht : -32768 ≤ t ∧ t < 32768) :
    Gen.in_range_i64_i16_ub t = true ∧ Gen.in_range_i64_i16 t = decide ((-9223372036854775808) ≤ t ∧ t ≤ 9223372036854775807) ∧
    Gen.in_range_i64_i16 t = Tetl.C14.inRange ⟨64, true⟩ ⟨16, true⟩ t := by
  have ha := gen_cmp_greater_equal_i16_i64 t (-9223372036854775808) ht (by decide)
  have hb := gen_cmp_less_equal_i16_i64 t 9223372036854775807 ht (by decide)
  have h2 : Gen.in_range_i64_i16 t = decide ((-9223372036854775808) ≤ t ∧ t ≤ 9223372036854775807) := by
    simp only [Gen.in_range_i64_i16, ha.2.1, hb.2.1]; bool_fin
  refine ⟨by simp only [Gen.in_range_i64_i16_ub, ha.1, hb.1] <;> simp, h2, ?_⟩
  rw [h2, Props.inRange_eq _ _ (by decide) (by decide) t (inR_i16 t ht)]
  simp [ITy.inR, ITy.min, ITy.max]

theorem gen_in_range_i64_i32 (t : Int) (ht : -2147483648 ≤ t ∧ t < 2147483648) :
    Gen.in_range_i64_i32_ub t = true ∧ Gen.in_range_i64_i32 t = decide ((-9223372036854775808) ≤ t ∧ t ≤ 9223372036854775807) ∧
    Gen.in_range_i64_i32 t = Tetl.C14.inRange ⟨64, true⟩ ⟨32, true⟩ t := by
  have ha := gen_cmp_greater_equal_i32_i64 t (-9223372036854775808) ht (by decide)
  have hb := gen_cmp_less_equal_i32_i64 t 9223372036854775807 ht (by decide)
  have h2 : Gen.in_range_i64_i32 t = decide ((-9223372036854775808) ≤ t ∧ t ≤ 9223372036854775807) := by
    simp only [Gen.in_range_i64_i32, ha.2.1, hb.2.1]; bool_fin
  refine ⟨by simp only [Gen.in_range_i64_i32_ub, ha.1, hb.1] <;> simp, h2, ?_⟩
  rw [h2, Props.inRange_eq _ _ (by decide) (by decide) t (inR_i32 t ht)]
  simp [ITy.inR, ITy.min, ITy.max]

theorem gen_in_range_i64_i64 (t : Int) (ht : -9223372036854775808 ≤ t ∧ t < 9223372036854775808) :
    Gen.in_range_i64_i64_ub t = true ∧ Gen.in_range_i64_i64 t = decide ((-9223372036854775808) ≤ t ∧ t ≤ 9223372036854775807) ∧
    Gen.in_range_i64_i64 t = Tetl.C14.inRange ⟨64, true⟩ ⟨64, true⟩ t := by
  have ha := gen_cmp_greater_equal_i64_i64 t (-9223372036854775808) ht (by decide)
  have hb := gen_cmp_less_equal_i64_i64 t 9223372036854775807 ht (by decide)
  have h2 : Gen.in_range_i64_i64 t = decide ((-9223372036854775808) ≤ t ∧ t ≤ 9223372036854775807) := by
    simp only [Gen.in_range_i64_i64, ha.2.1, hb.2.1]; bool_fin
  refine ⟨by simp only [Gen.in_range_i64_i64_ub, ha.1, hb.1] <;> simp, h2, ?_⟩
  rw [h2, Props.inRange_eq _ _ (by decide) (by decide) t (inR_i64 t ht)]
  simp [ITy.inR, ITy.min, ITy.max]

end Tetl.C14.GenProps
