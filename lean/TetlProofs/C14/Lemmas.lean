import Tetl.C14.Model
import Tetl.C14.Spec
namespace Tetl.C14
open Tetl

@[simp] theorem ok_bind {ε α β} (a : α) (f : α → Except ε β) : (Except.ok a >>= f) = f a := rfl
@[simp] theorem error_bind {ε α β} (e : ε) (f : α → Except ε β) : (Except.error e >>= f) = Except.error e := rfl
@[simp] theorem pure_eq_ok {ε α} (a : α) : (pure a : Except ε α) = Except.ok a := rfl

theorem gcdLoop_eq (a b : Nat) : gcdLoop a b = Nat.gcd a b := by
  induction b using Nat.strongRecOn generalizing a with
  | _ b ih =>
    unfold gcdLoop
    by_cases hb : b = 0
    · simp [hb]
    · simp only [hb, dite_false]
      rw [ih (a % b) (Nat.mod_lt _ (Nat.pos_of_ne_zero hb)) b]
      rw [Nat.gcd_comm a b, Nat.gcd_rec b a]
      exact Nat.gcd_comm _ _

/-! ## conversions -/

theorem two_pow_split (w : Nat) (hw : 1 ≤ w) : (2:Int)^w = 2 * 2^(w-1) := by
  obtain ⟨k, rfl⟩ : ∃ k, w = k+1 := ⟨w-1, by omega⟩
  rw [Int.pow_succ]; simp; omega

theorem emod_shift (x Q k : Int) (h0 : 0 ≤ x - k*Q) (h1 : x - k*Q < Q) : x % Q = x - k*Q := by
  have : x % Q = (x - k*Q) % Q := by
    rw [Int.sub_mul_emod_self_right]
  rw [this]; exact Int.emod_eq_of_lt h0 h1

theorem inR_iff (t : ITy) (x : Int) : t.inR x = true ↔ t.min ≤ x ∧ x ≤ t.max := by
  simp [ITy.inR]

theorem convU (w : Nat) (x : Int) : ITy.conv ⟨w, false⟩ x = x % 2^w := by
  simp [ITy.conv]

theorem convS (w : Nat) (x : Int) :
    ITy.conv ⟨w, true⟩ x = if x % 2^w ≥ 2^(w-1) then x % 2^w - 2^w else x % 2^w := by
  simp [ITy.conv]

theorem conv_of_inR (t : ITy) (hw : 1 ≤ t.w) (x : Int) (h : t.inR x = true) : t.conv x = x := by
  obtain ⟨w, sg⟩ := t
  have h2 := two_pow_split w hw
  have hp : (0:Int) < 2^(w-1) := Int.pow_pos (by decide)
  rw [inR_iff] at h
  cases sg
  · rw [convU]; simp only [ITy.min, ITy.max] at h
    simp at h
    exact Int.emod_eq_of_lt h.1 (by omega)
  · rw [convS]; simp only [ITy.min, ITy.max] at h
    simp at h
    generalize (2:Int)^(w-1) = P at *
    generalize (2:Int)^w = Q at *
    by_cases hx : 0 ≤ x
    · rw [emod_shift x Q 0 (by omega) (by omega)]; simp; omega
    · rw [emod_shift x Q (-1) (by omega) (by omega)]; simp
      omega

/-- `static_cast` lands in the range of the type and differs from the argument by a multiple of `2^w` -/
theorem conv_spec (t : ITy) (hw : 1 ≤ t.w) (x : Int) :
    (t.min ≤ t.conv x ∧ t.conv x ≤ t.max) ∧ ∃ k : Int, t.conv x = x - k * 2^t.w := by
  obtain ⟨w, sg⟩ := t
  have h2 := two_pow_split w hw
  have hp : (0:Int) < 2^(w-1) := Int.pow_pos (by decide)
  have hq : (0:Int) < 2^w := Int.pow_pos (by decide)
  have hm0 := Int.emod_nonneg x (Int.ne_of_gt hq)
  have hm1 := Int.emod_lt_of_pos x hq
  have hd : x % 2^w = x - (x / 2^w) * 2^w := by
    have := Int.emod_def x (2^w); rw [this, Int.mul_comm]
  cases sg
  · rw [convU]; simp only [ITy.min, ITy.max]; simp
    exact ⟨⟨hm0, by omega⟩, x / 2^w, hd⟩
  · rw [convS]; simp only [ITy.min, ITy.max]; simp
    generalize (x / 2^w) = d at *
    generalize x % (2:Int)^w = r at *
    generalize (2:Int)^(w-1) = P at *
    generalize (2:Int)^w = Q at *
    by_cases hr : P ≤ r
    · simp only [hr, if_true]
      refine ⟨by omega, d + 1, ?_⟩
      rw [Int.add_mul]; omega
    · simp only [hr, if_false]
      exact ⟨by omega, d, by omega⟩

/-! ## saturating addition -/

theorem arith_ok (p : ITy) (hw : 1 ≤ p.w) (x : Int) (h : p.inR x = true) : arith p x = .ok x := by
  unfold arith
  cases hs : p.sg
  · simp [conv_of_inR p hw x h]
  · simp [h]

/-- add_sat (builtin path) = clamp of the exact sum -/
theorem addSat_eq (t : ITy) (hw : 1 ≤ t.w) (x y : Int) (hx : t.inR x = true) (hy : t.inR y = true) :
    addSat t x y = .ok (Spec.clampTo t.min t.max (x + y)) := by
  obtain ⟨w, sg⟩ := t
  have h2 := two_pow_split w hw
  have hp : (0:Int) < 2^(w-1) := Int.pow_pos (by decide)
  rw [inR_iff] at hx hy
  unfold addSat Spec.clampTo
  cases sg <;> simp only [ITy.min, ITy.max, inR_iff] at * <;> simp at * <;>
    generalize (2:Int)^(w-1) = P at * <;> generalize (2:Int)^w = Q at *
  · split <;> split <;> (try split) <;> first | rfl | (congr 1; omega) | omega
  · split <;> split <;> (try split) <;> first | rfl | (congr 1; omega) | omega

theorem promote_w (t : ITy) (hw : 1 ≤ t.w) : 1 ≤ t.promote.w := by
  unfold ITy.promote; split
  · simp
  · exact hw

theorem min_max_zero (t : ITy) : t.min ≤ 0 ∧ 0 ≤ t.max := by
  have hp : (0:Int) < 2^(t.w-1) := Int.pow_pos (by decide)
  have hq : (0:Int) < 2^t.w := Int.pow_pos (by decide)
  unfold ITy.min ITy.max; cases t.sg <;> simp <;> omega

theorem pow_mono (a b : Nat) (h : a ≤ b) : (2:Int)^a ≤ 2^b := by
  have : (2:Nat)^a ≤ 2^b := Nat.pow_le_pow_right (by decide) h
  exact_mod_cast this

/-- every value of `t` is a value of `t.promote` -/
theorem promote_inR (t : ITy) (hw : 1 ≤ t.w) (x : Int) (h : t.inR x = true) : t.promote.inR x = true := by
  obtain ⟨w, sg⟩ := t
  unfold ITy.promote
  split
  · rename_i hlt
    simp at hlt
    rw [inR_iff] at h ⊢
    have h1 := pow_mono w 31 (by omega)
    have h2 := pow_mono (w-1) 31 (by omega)
    cases sg <;> simp only [ITy.min, ITy.max] at * <;> simp at * <;> omega
  · exact h

theorem addSatFallback_eq (t : ITy) (hw : 1 ≤ t.w) (x y : Int) (hx : t.inR x = true) (hy : t.inR y = true) :
    addSatFallback t x y = .ok (Spec.clampTo t.min t.max (x + y)) := by
  have hclamp : t.inR (clamp (x + y) t.min t.max) = true := by
    rw [inR_iff] at *; unfold clamp; split <;> (try split) <;> omega
  have hceq : clamp (x + y) t.min t.max = Spec.clampTo t.min t.max (x + y) := by
    unfold clamp Spec.clampTo; split <;> (try split) <;> (try split) <;> omega
  unfold addSatFallback
  split
  · rw [conv_of_inR t hw _ hclamp, hceq]
  · split
    · rw [conv_of_inR t hw _ hclamp, hceq]
    · rw [inR_iff] at hx hy
      have hmm := min_max_zero t
      split
      · rw [arith_ok t hw (t.max - x) (by rw [inR_iff]; omega)]
        simp only [ok_bind]
        split
        · unfold Spec.clampTo; congr 1; split <;> (try split) <;> omega
        · rw [arith_ok t hw (x + y) (by rw [inR_iff]; omega)]
          unfold Spec.clampTo; congr 1; split <;> (try split) <;> omega
      · rw [arith_ok t hw (t.min - x) (by rw [inR_iff]; omega)]
        simp only [ok_bind]
        split
        · unfold Spec.clampTo; congr 1; split <;> (try split) <;> omega
        · rw [arith_ok t hw (x + y) (by rw [inR_iff]; omega)]
          unfold Spec.clampTo; congr 1; split <;> (try split) <;> omega

/-! ## midpoint -/

theorem conv_add_mul (t : ITy) (x k : Int) : t.conv (x + k * 2^t.w) = t.conv x := by
  unfold ITy.conv; rw [Int.add_mul_emod_self_right]

theorem lt_two_pow_int (w : Nat) : (w : Int) < 2^w := by
  have : w < 2^w := Nat.lt_two_pow_self
  exact_mod_cast this

/-- the unsigned intermediate `half` of `midpoint` is `(b - a) /ₜ 2` reduced modulo `2^w` -/
theorem midpoint_half (w : Nat) (hw : 1 ≤ w) (a b : Int) (hab : -(2:Int)^w < b - a ∧ b - a < 2^w) :
    let diff := ((b - a) % 2^w).toNat
    let sign : Nat := if b < a then 1 else 0
    (((diff / 2 + (sign <<< (w - 1)) + (sign &&& diff) : Nat) : Int)) % 2^w = (Int.tdiv (b - a) 2) % 2^w := by
  intro diff sign
  have h2 := two_pow_split w hw
  have hp : (0:Int) < 2^(w-1) := Int.pow_pos (by decide)
  have hcast : (((2:Nat)^(w-1) : Nat) : Int) = (2:Int)^(w-1) := by simp
  by_cases hlt : b < a
  · have hs : sign = 1 := by simp [sign, hlt]
    have hD : (b - a) % 2^w = b - a + 2^w := by
      rw [emod_shift (b - a) (2^w) (-1) (by omega) (by omega)]; omega
    have hd : (diff : Int) = b - a + 2^w := by
      simp only [diff]; rw [hD]; exact Int.toNat_of_nonneg (by omega)
    rw [hs, Nat.shiftLeft_eq, Nat.one_and_eq_mod_two, Nat.one_mul]
    have ht : Int.tdiv (b - a) 2 = -((a - b) / 2) := by
      have : b - a = -(a - b) := by omega
      rw [this, Int.neg_tdiv, Int.tdiv_eq_ediv_of_nonneg (by omega)]
    rw [ht]
    simp only [Int.natCast_add, hcast]
    generalize (2:Int)^(w-1) = P at *
    generalize (2:Int)^w = Q at *
    by_cases he : a - b = 1
    · rw [emod_shift _ Q 1 (by omega) (by omega), emod_shift (-((a - b) / 2)) Q 0 (by omega) (by omega)]
      omega
    · rw [emod_shift _ Q 0 (by omega) (by omega), emod_shift (-((a - b) / 2)) Q (-1) (by omega) (by omega)]
      omega
  · have hs : sign = 0 := by simp [sign, hlt]
    have hD : (b - a) % 2^w = b - a := Int.emod_eq_of_lt (by omega) (by omega)
    have hd : (diff : Int) = b - a := by
      simp only [diff]; rw [hD]; exact Int.toNat_of_nonneg (by omega)
    rw [hs, Nat.zero_shiftLeft, Nat.zero_and, Nat.add_zero]; try rw [Nat.add_zero]
    rw [Int.tdiv_eq_ediv_of_nonneg (by omega)]
    congr 1
    omega

theorem conv_emod (t : ITy) (x : Int) : t.conv (x % 2^t.w) = t.conv x := by
  unfold ITy.conv; rw [Int.emod_emod]

theorem conv_sub_mul (t : ITy) (x k : Int) : t.conv (x - k * 2^t.w) = t.conv x := by
  have : x - k * 2^t.w = x + (-k) * 2^t.w := by rw [Int.neg_mul]; omega
  rw [this, conv_add_mul]

theorem tdiv2_bounds (d : Int) : (0 ≤ d → 0 ≤ Int.tdiv d 2 ∧ 2 * Int.tdiv d 2 ≤ d ∧ d ≤ 2 * Int.tdiv d 2 + 1) ∧
    (d < 0 → Int.tdiv d 2 ≤ 0 ∧ d ≤ 2 * Int.tdiv d 2 ∧ 2 * Int.tdiv d 2 - 1 ≤ d) := by
  constructor
  · intro h; rw [Int.tdiv_eq_ediv_of_nonneg h]; omega
  · intro h
    have : d = -(-d) := by omega
    rw [this, Int.neg_tdiv, Int.tdiv_eq_ediv_of_nonneg (by omega)]; omega

theorem midpoint_eq (t : ITy) (hw : 1 ≤ t.w) (hstd : t.w ≤ 16 ∨ 32 ≤ t.w) (a b : Int)
    (ha : t.inR a = true) (hb : t.inR b = true) :
    midpoint t a b = .ok (Spec.midpoint a b) ∧ t.inR (Spec.midpoint a b) = true := by
  have h2 := two_pow_split t.w hw
  have hp : (0:Int) < 2^(t.w-1) := Int.pow_pos (by decide)
  have hwlt := lt_two_pow_int t.w
  have hb2 := tdiv2_bounds (b - a)
  have hmm := min_max_zero t
  rw [inR_iff] at ha hb
  -- the result lies between a and b
  have hm : t.inR (Spec.midpoint a b) = true := by
    rw [inR_iff]; unfold Spec.midpoint
    by_cases h : 0 ≤ b - a
    · have := hb2.1 h; omega
    · have := hb2.2 (by omega); omega
  refine ⟨?_, hm⟩
  have hrange : -(2:Int)^t.w < b - a ∧ b - a < 2^t.w := by
    obtain ⟨w, sg⟩ := t
    cases sg <;> simp only [ITy.min, ITy.max] at ha hb <;> simp at ha hb <;> simp only [] at h2 ⊢ <;> omega
  have hhalf := midpoint_half t.w hw a b hrange
  unfold midpoint
  have hshift : (t.uns.conv ((t.w : Int) - 1)).toNat = t.w - 1 := by
    show (ITy.conv ⟨t.w, false⟩ ((t.w : Int) - 1)).toNat = t.w - 1
    rw [convU, Int.emod_eq_of_lt (by omega) (by omega)]; omega
  have hdiff : t.uns.conv (t.uns.conv b - t.uns.conv a) = (b - a) % 2^t.w := by
    show ITy.conv ⟨t.w, false⟩ (ITy.conv ⟨t.w, false⟩ b - ITy.conv ⟨t.w, false⟩ a) = _
    rw [convU, convU, convU, ← Int.sub_emod]
  simp only [hshift, hdiff]
  have hpw : t.w - 1 < pw t.w := by unfold pw; split <;> omega
  simp only [hpw, decide_true, Bool.not_true, Bool.false_eq_true, if_false]
  have hconvhalf : ∀ N : Int, N % 2^t.w = (Int.tdiv (b - a) 2) % 2^t.w →
      t.conv (t.uns.conv N) = t.conv (Int.tdiv (b - a) 2) := by
    intro N hN
    show t.conv (ITy.conv ⟨t.w, false⟩ N) = _
    rw [convU, hN, conv_emod]
  rw [hconvhalf _ hhalf]
  obtain ⟨hcr, k, hck⟩ := conv_spec t hw (Int.tdiv (b - a) 2)
  have hfinal : t.conv (a + t.conv (Int.tdiv (b - a) 2)) = Spec.midpoint a b := by
    rw [hck]
    have : a + (Int.tdiv (b - a) 2 - k * 2^t.w) = Spec.midpoint a b - k * 2^t.w := by
      unfold Spec.midpoint; omega
    rw [this, conv_sub_mul, conv_of_inR t hw _ hm]
  rcases hstd with hn | hwide
  · -- narrower than int: the addition is exact in `int`
    have hprom : t.promote = ⟨32, true⟩ := by unfold ITy.promote; simp; omega
    rw [hprom]
    have h16 := pow_mono t.w 16 hn
    have h15 := pow_mono (t.w - 1) 16 (by omega)
    have hin : ITy.inR ⟨32, true⟩ (a + t.conv (Int.tdiv (b - a) 2)) = true := by
      rw [inR_iff]
      obtain ⟨w, sg⟩ := t
      cases sg <;> simp only [ITy.min, ITy.max] at ha hb hcr ⊢ <;> simp at ha hb hcr ⊢ <;> simp only [] at h16 h15 <;> omega
    rw [arith_ok _ (by simp) _ hin]
    simp only [ok_bind, hfinal]
  · have hprom : t.promote = t := by unfold ITy.promote; simp; omega
    rw [hprom]
    unfold arith
    cases hs : t.sg
    · simp only [Bool.false_eq_true, if_false, ok_bind]
      rw [conv_of_inR t hw (t.conv _) (by rw [inR_iff]; exact (conv_spec t hw _).1), hfinal]
    · have hh : t.inR (Int.tdiv (b - a) 2) = true := by
        rw [inR_iff]
        obtain ⟨w, sg⟩ := t
        simp only [] at hs; subst hs
        simp only [ITy.min, ITy.max] at ha hb ⊢; simp at ha hb ⊢; simp only [] at h2
        by_cases h : 0 ≤ b - a
        · have := hb2.1 h; omega
        · have := hb2.2 (by omega); omega
      rw [conv_of_inR t hw _ hh] at hfinal ⊢
      have : a + Int.tdiv (b - a) 2 = Spec.midpoint a b := rfl
      rw [this] at hfinal ⊢
      simp only [if_true, hm, ok_bind, hfinal]

/-! ## rotations -/

theorem rot_core (w t r : Nat) (ht : t < 2^w) (hrw : r < w) :
    ((t <<< r) ||| (t >>> (w - r))) % 2^w = (t * 2^r) % 2^w + t / 2^(w - r) := by
  have hsplit : 2^w = 2^(w-r) * 2^r := by rw [← Nat.pow_add]; congr 1; omega
  have hhi : t / 2^(w-r) < 2^r := by
    apply Nat.div_lt_of_lt_mul; rw [← hsplit]; exact ht
  rw [Nat.shiftRight_eq_div_pow, ← Nat.shiftLeft_add_eq_or_of_lt hhi, Nat.shiftLeft_eq]
  have hlo : (t * 2^r) % 2^w = (t % 2^(w-r)) * 2^r := by
    rw [hsplit, Nat.mul_mod_mul_right]
  have hlt : t % 2^(w-r) < 2^(w-r) := Nat.mod_lt _ (Nat.pow_pos (by decide))
  have hbound : (t % 2^(w-r)) * 2^r + t / 2^(w-r) < 2^w := by
    calc (t % 2^(w-r)) * 2^r + t / 2^(w-r) < (t % 2^(w-r)) * 2^r + 2^r := by omega
      _ = (t % 2^(w-r) + 1) * 2^r := by rw [Nat.add_mul, Nat.one_mul]
      _ ≤ 2^(w-r) * 2^r := Nat.mul_le_mul_right _ hlt
      _ = 2^w := hsplit.symm
  rw [Nat.add_mod, hlo, Nat.mod_eq_of_lt (a := t / 2^(w-r)) (by omega), Nat.mod_eq_of_lt hbound]

/-- `unsigned(s) % digits` is the mathematical `s mod digits` when `digits` divides `2^32` -/
theorem rot_count (w : Nat) (hdvd : (w : Int) ∣ 2^32) (s : Int) :
    (u32.conv s).toNat % w = (s % (w : Int)).toNat := by
  show (ITy.conv ⟨32, false⟩ s).toNat % w = _
  rw [convU]
  have h0 : 0 ≤ s % 2^32 := Int.emod_nonneg _ (by decide)
  have : ((((s % 2^32).toNat % w : Nat)) : Int) = s % (w : Int) := by
    rw [Int.natCast_emod, Int.toNat_of_nonneg h0, Int.emod_emod_of_dvd _ hdvd]
  omega

theorem rotl_eq (w t : Nat) (s : Int) (hw : 0 < w) (hdvd : (w : Int) ∣ 2^32) (ht : t < 2^w) :
    rotl w t s = .ok (Spec.rotl w t s) := by
  unfold rotl Spec.rotl
  simp only [rot_count w hdvd s]
  have hrlt : (s % (w : Int)).toNat < w := by
    have := Int.emod_lt_of_pos s (by omega : (0:Int) < w)
    have := Int.emod_nonneg s (by omega : (w:Int) ≠ 0)
    omega
  generalize (s % (w : Int)).toNat = r at *
  by_cases hr : r = 0
  · subst hr
    simp [Nat.mod_eq_of_lt ht, Nat.div_eq_of_lt ht]
  · simp only [beq_iff_eq, hr, if_false]
    rw [rot_core w t r ht hrlt]

theorem rotr_eq (w t : Nat) (s : Int) (hw : 0 < w) (hdvd : (w : Int) ∣ 2^32) (ht : t < 2^w) :
    rotr w t s = .ok (Spec.rotr w t s) := by
  unfold rotr Spec.rotr
  simp only [rot_count w hdvd s]
  have hrlt : (s % (w : Int)).toNat < w := by
    have := Int.emod_lt_of_pos s (by omega : (0:Int) < w)
    have := Int.emod_nonneg s (by omega : (w:Int) ≠ 0)
    omega
  generalize (s % (w : Int)).toNat = r at *
  by_cases hr : r = 0
  · subst hr
    simp
  · simp only [beq_iff_eq, hr, if_false]
    have h := rot_core w t (w - r) ht (by omega)
    have hwr : w - (w - r) = r := by omega
    rw [hwr] at h
    rw [Nat.or_comm, h, Nat.add_comm]


/-! ## safe comparisons -/

/-- every value of `A` is a value of `C` -/
def ITy.sub (A C : ITy) : Prop := C.min ≤ A.min ∧ A.max ≤ C.max

theorem sub_inR {A C : ITy} (h : A.sub C) (x : Int) (hx : A.inR x = true) : C.inR x = true := by
  rw [inR_iff] at *; unfold ITy.sub at h; omega

theorem sub_refl (A : ITy) : A.sub A := ⟨Int.le_refl _, Int.le_refl _⟩

theorem sub_ss (a b : Nat) (h : a ≤ b) : ITy.sub ⟨a, true⟩ ⟨b, true⟩ := by
  have := pow_mono (a-1) (b-1) (by omega)
  unfold ITy.sub ITy.min ITy.max; simp; omega

theorem sub_uu (a b : Nat) (h : a ≤ b) : ITy.sub ⟨a, false⟩ ⟨b, false⟩ := by
  have := pow_mono a b h
  unfold ITy.sub ITy.min ITy.max; simp; omega

theorem sub_us (a b : Nat) (h : a < b) : ITy.sub ⟨a, false⟩ ⟨b, true⟩ := by
  have := pow_mono a (b-1) (by omega)
  have hp : (0:Int) < 2^(b-1) := Int.pow_pos (by decide)
  unfold ITy.sub ITy.min ITy.max; simp; omega

/-- with equal signedness the usual arithmetic conversions preserve both values -/
theorem usual_sub (A B : ITy) (hs : A.sg = B.sg) :
    A.sub (ITy.usual A B) ∧ B.sub (ITy.usual A B) ∧ 1 ≤ (ITy.usual A B).w := by
  obtain ⟨a, sa⟩ := A
  obtain ⟨b, sb⟩ := B
  simp only [] at hs; subst hs
  unfold ITy.usual ITy.promote
  cases sa
  · by_cases ha : a < 32 <;> by_cases hb : b < 32 <;> simp [ha, hb]
    · exact ⟨sub_us a 32 ha, sub_us b 32 hb⟩
    · have hb' : 32 ≤ b := by omega
      simp [hb']
      exact ⟨sub_uu a b (by omega), sub_refl _, by omega⟩
    · have ha' : 32 ≤ a := by omega
      simp [ha']
      exact ⟨sub_refl _, sub_uu b a (by omega), by omega⟩
    · by_cases hab : b ≤ a <;> simp [hab]
      · exact ⟨sub_refl _, sub_uu b a hab, by omega⟩
      · exact ⟨sub_uu a b (by omega), sub_refl _, by omega⟩
  · by_cases ha : a < 32 <;> by_cases hb : b < 32 <;> simp [ha, hb]
    · exact ⟨sub_ss a 32 (by omega), sub_ss b 32 (by omega)⟩
    · have : ¬ b ≤ 32 ∨ b = 32 := by omega
      by_cases hb2 : b ≤ 32 <;> simp [hb2]
      · have : b = 32 := by omega
        subst this; exact ⟨sub_ss a 32 (by omega), sub_refl _⟩
      · exact ⟨sub_ss a b (by omega), sub_refl _, by omega⟩
    · by_cases ha2 : 32 ≤ a <;> simp [ha2]
      · exact ⟨sub_refl _, sub_ss b a (by omega), by omega⟩
      · omega
    · by_cases hab : b ≤ a <;> simp [hab]
      · exact ⟨sub_refl _, sub_ss b a hab, by omega⟩
      · exact ⟨sub_ss a b (by omega), sub_refl _, by omega⟩

theorem builtinLt_eq (A B : ITy) (hs : A.sg = B.sg) (a b : Int)
    (ha : A.inR a = true) (hb : B.inR b = true) : builtinLt A B a b = decide (a < b) := by
  obtain ⟨hA, hB, hw⟩ := usual_sub A B hs
  unfold builtinLt
  simp only [conv_of_inR _ hw a (sub_inR hA a ha), conv_of_inR _ hw b (sub_inR hB b hb)]

theorem builtinEq_eq (A B : ITy) (hs : A.sg = B.sg) (a b : Int)
    (ha : A.inR a = true) (hb : B.inR b = true) : builtinEq A B a b = decide (a = b) := by
  obtain ⟨hA, hB, hw⟩ := usual_sub A B hs
  unfold builtinEq
  simp only [conv_of_inR _ hw a (sub_inR hA a ha), conv_of_inR _ hw b (sub_inR hB b hb)]

/-- a non-negative value of a signed type is a value of the corresponding unsigned type -/
theorem uns_inR (T : ITy) (hw : 1 ≤ T.w) (t : Int) (ht : T.inR t = true) (h0 : 0 ≤ t) : T.uns.inR t = true := by
  obtain ⟨w, sg⟩ := T
  have h2 := two_pow_split w hw
  have hp : (0:Int) < 2^(w-1) := Int.pow_pos (by decide)
  rw [inR_iff] at *
  cases sg <;> simp only [ITy.uns, ITy.min, ITy.max] at * <;> simp at * <;> omega

theorem nonneg_of_unsigned (U : ITy) (hs : U.sg = false) (u : Int) (hu : U.inR u = true) : 0 ≤ u := by
  rw [inR_iff] at hu; unfold ITy.min at hu; simp [hs] at hu; exact hu.1

theorem cmpLess_eq (T U : ITy) (hT : 1 ≤ T.w) (hU : 1 ≤ U.w) (t u : Int)
    (ht : T.inR t = true) (hu : U.inR u = true) : cmpLess T U t u = decide (t < u) := by
  unfold cmpLess
  by_cases hs : T.sg = U.sg
  · simp only [hs, beq_self_eq_true, if_true]
    exact builtinLt_eq T U hs t u ht hu
  · have hne : (T.sg == U.sg) = false := by simp [hs]
    simp only [hne, Bool.false_eq_true, if_false]
    cases hTs : T.sg
    · -- T unsigned, U signed
      have hUs : U.sg = true := by cases h : U.sg <;> simp_all
      have ht0 := nonneg_of_unsigned T hTs t ht
      simp only [Bool.false_eq_true, if_false]
      by_cases hu0 : u < 0
      · simp only [hu0, if_true]; symm; simp; omega
      · simp only [hu0, if_false]
        have huu := uns_inR U hU u hu (by omega)
        rw [conv_of_inR U.uns hU u huu]
        exact builtinLt_eq T U.uns (by simp [ITy.uns, hTs]) t u ht huu
    · have hUs : U.sg = false := by cases h : U.sg <;> simp_all
      have hu0 := nonneg_of_unsigned U hUs u hu
      simp only [if_true]
      by_cases ht0 : t < 0
      · simp only [ht0, if_true]; symm; simp; omega
      · simp only [ht0, if_false]
        have htu := uns_inR T hT t ht (by omega)
        rw [conv_of_inR T.uns hT t htu]
        exact builtinLt_eq T.uns U (by simp [ITy.uns, hUs]) t u htu hu

theorem cmpEqual_eq (T U : ITy) (hT : 1 ≤ T.w) (hU : 1 ≤ U.w) (t u : Int)
    (ht : T.inR t = true) (hu : U.inR u = true) : cmpEqual T U t u = decide (t = u) := by
  unfold cmpEqual
  by_cases hs : T.sg = U.sg
  · simp only [hs, beq_self_eq_true, if_true]
    exact builtinEq_eq T U hs t u ht hu
  · have hne : (T.sg == U.sg) = false := by simp [hs]
    simp only [hne, Bool.false_eq_true, if_false]
    cases hTs : T.sg
    · have hUs : U.sg = true := by cases h : U.sg <;> simp_all
      have ht0 := nonneg_of_unsigned T hTs t ht
      simp only [Bool.false_eq_true, if_false]
      by_cases hu0 : u < 0
      · simp only [hu0, if_true]; symm; simp; omega
      · simp only [hu0, if_false]
        have huu := uns_inR U hU u hu (by omega)
        rw [conv_of_inR U.uns hU u huu]
        exact builtinEq_eq T U.uns (by simp [ITy.uns, hTs]) t u ht huu
    · have hUs : U.sg = false := by cases h : U.sg <;> simp_all
      have hu0 := nonneg_of_unsigned U hUs u hu
      simp only [if_true]
      by_cases ht0 : t < 0
      · simp only [ht0, if_true]; symm; simp; omega
      · simp only [ht0, if_false]
        have htu := uns_inR T hT t ht (by omega)
        rw [conv_of_inR T.uns hT t htu]
        exact builtinEq_eq T.uns U (by simp [ITy.uns, hUs]) t u htu hu

theorem cmpNotEqual_eq (T U : ITy) (hT : 1 ≤ T.w) (hU : 1 ≤ U.w) (t u : Int)
    (ht : T.inR t = true) (hu : U.inR u = true) : cmpNotEqual T U t u = decide (t ≠ u) := by
  unfold cmpNotEqual; rw [cmpEqual_eq T U hT hU t u ht hu]; simp

theorem cmpGreater_eq (T U : ITy) (hT : 1 ≤ T.w) (hU : 1 ≤ U.w) (t u : Int)
    (ht : T.inR t = true) (hu : U.inR u = true) : cmpGreater T U t u = decide (t > u) := by
  unfold cmpGreater; rw [cmpLess_eq U T hU hT u t hu ht]

theorem cmpLessEqual_eq (T U : ITy) (hT : 1 ≤ T.w) (hU : 1 ≤ U.w) (t u : Int)
    (ht : T.inR t = true) (hu : U.inR u = true) : cmpLessEqual T U t u = decide (t ≤ u) := by
  unfold cmpLessEqual; rw [cmpGreater_eq T U hT hU t u ht hu]
  by_cases h : t ≤ u <;> simp [h] <;> omega

theorem cmpGreaterEqual_eq (T U : ITy) (hT : 1 ≤ T.w) (hU : 1 ≤ U.w) (t u : Int)
    (ht : T.inR t = true) (hu : U.inR u = true) : cmpGreaterEqual T U t u = decide (t ≥ u) := by
  unfold cmpGreaterEqual; rw [cmpLess_eq T U hT hU t u ht hu]
  by_cases h : t ≥ u <;> simp [h] <;> omega

theorem inR_min (t : ITy) : t.inR t.min = true := by
  have := min_max_zero t; rw [inR_iff]; omega
theorem inR_max (t : ITy) : t.inR t.max = true := by
  have := min_max_zero t; rw [inR_iff]; omega

theorem inRange_eq (R T : ITy) (hR : 1 ≤ R.w) (hT : 1 ≤ T.w) (t : Int) (ht : T.inR t = true) :
    inRange R T t = R.inR t := by
  unfold inRange
  rw [cmpGreaterEqual_eq T R hT hR t R.min ht (inR_min R), cmpLessEqual_eq T R hT hR t R.max ht (inR_max R)]
  unfold ITy.inR
  by_cases h1 : R.min ≤ t <;> by_cases h2 : t ≤ R.max <;> simp [h1, h2] <;> omega

theorem saturateCast_eq (To From : ITy) (hTo : 1 ≤ To.w) (hFrom : 1 ≤ From.w) (x : Int) (hx : From.inR x = true) :
    saturateCast To From x = .ok (Spec.clampTo To.min To.max x) := by
  unfold saturateCast Spec.clampTo
  rw [cmpLess_eq From To hFrom hTo x To.min hx (inR_min To), cmpGreater_eq From To hFrom hTo x To.max hx (inR_max To)]
  by_cases h1 : x < To.min
  · simp [h1]
  · by_cases h2 : x > To.max
    · simp [h1, h2]
    · simp only [h1, h2, decide_false, Bool.false_eq_true, if_false]
      rw [conv_of_inR To hTo x (by rw [inR_iff]; omega)]

/-! ## popcount and the leading-zero family -/

theorem pc_succ (w x : Nat) : Spec.popcount (w + 1) x = x % 2 + Spec.popcount w (x / 2) := by
  unfold Spec.popcount
  rw [List.range_succ_eq_map, List.filter_cons, List.filter_map]
  have h1 : ((fun i => x.testBit i) ∘ Nat.succ) = (fun i => (x / 2).testBit i) := by
    funext i; simp [Nat.testBit_succ]
  rw [h1]
  have hx : x % 2 = 0 ∨ x % 2 = 1 := by omega
  rcases hx with h | h <;> simp [Nat.testBit_zero, h] <;> omega

theorem pc_zero (w : Nat) : Spec.popcount w 0 = 0 := by
  unfold Spec.popcount; simp

/-- `v & (v - 1)` clears exactly one 1 bit -/
theorem pc_clear_lowest (w : Nat) : ∀ v, 0 < v → v < 2^w →
    Spec.popcount w (v &&& (v - 1)) + 1 = Spec.popcount w v := by
  induction w with
  | zero => intro v h0 h1; simp at h1; omega
  | succ w ih =>
    intro v h0 h1
    rw [pc_succ, pc_succ, Nat.and_div_two]
    have hm : (v &&& (v - 1)) % 2 = (v % 2) &&& ((v - 1) % 2) := by
      have := @Nat.and_mod_two_pow v (v - 1) 1; simpa using this
    have hx : v % 2 = 0 ∨ v % 2 = 1 := by omega
    rcases hx with h | h
    · -- even: recurse on v / 2
      have h1' : (v - 1) / 2 = v / 2 - 1 := by omega
      have hv2 : 0 < v / 2 := by omega
      have hlt : v / 2 < 2^w := by rw [Nat.pow_succ] at h1; omega
      rw [hm, h, Nat.zero_and, h1', ← ih (v / 2) hv2 hlt]; omega
    · have h1' : (v - 1) / 2 = v / 2 := by omega
      have h2 : (v - 1) % 2 = 0 := by omega
      rw [hm, h, h2, h1', Nat.and_self]; simp; omega

theorem popLoop_eq (w : Nat) : ∀ val c, val < 2^w → popLoop val c = c + Spec.popcount w val := by
  intro val
  induction val using Nat.strongRecOn with
  | _ val ih =>
    intro c hlt
    unfold popLoop
    by_cases h0 : val = 0
    · simp [h0, pc_zero]
    · simp only [h0, dite_false]
      have hle := @Nat.and_le_right val (val - 1)
      rw [ih (val &&& (val - 1)) (by omega) (c + 1) (by omega)]
      have := pc_clear_lowest w val (by omega) hlt
      omega

/-! ### countl_zero, bit_width, bit_floor, bit_ceil -/

theorem and_two_pow_eq_zero (x k : Nat) : x &&& 2^k = 0 ↔ x.testBit k = false := by
  constructor
  · intro h
    have := Nat.testBit_and x (2^k) k
    rw [h] at this; simpa [Nat.testBit_two_pow_self] using this.symm
  · intro h
    apply Nat.eq_of_testBit_eq
    intro i
    rw [Nat.testBit_and, Nat.testBit_two_pow]
    by_cases hi : k = i
    · subst hi; simp [h]
    · simp [hi]

theorem testBit_top (w x : Nat) (hw : 1 ≤ w) (hx : x < 2^w) : x.testBit (w - 1) = decide (2^(w-1) ≤ x) := by
  rw [Nat.testBit_eq_decide_div_mod_eq]
  have hsplit : 2^w = 2 * 2^(w-1) := by
    obtain ⟨k, rfl⟩ : ∃ k, w = k+1 := ⟨w-1, by omega⟩
    rw [Nat.pow_succ]; simp; omega
  have hpos : 0 < 2^(w-1) := Nat.pow_pos (by decide)
  have hq : x / 2^(w-1) < 2 := by
    apply Nat.div_lt_of_lt_mul; omega
  by_cases h : 2^(w-1) ≤ x
  · have : 1 ≤ x / 2^(w-1) := (Nat.le_div_iff_mul_le hpos).2 (by omega)
    simp [h]; omega
  · have : x / 2^(w-1) = 0 := Nat.div_eq_of_lt (by omega)
    simp [h, this]

theorem top_clear (w x : Nat) (hw : 1 ≤ w) (hx : x < 2^w) : (x &&& topMask w == 0) = decide (x < 2^(w-1)) := by
  unfold topMask
  rw [Nat.shiftLeft_eq, Nat.one_mul]
  by_cases h : x < 2^(w-1)
  · have : x &&& 2^(w-1) = 0 := (and_two_pow_eq_zero x (w-1)).2 (by rw [testBit_top w x hw hx]; simp; omega)
    simp [this, h]
  · have : ¬ (x &&& 2^(w-1) = 0) := by
      rw [and_two_pow_eq_zero, testBit_top w x hw hx]; simp; omega
    simp [this, h]

theorem bw_le (x k : Nat) : Spec.bitWidth x ≤ k ↔ x < 2^k := by
  unfold Spec.bitWidth
  by_cases h : x = 0
  · subst h; simp; exact Nat.pow_pos (by decide)
  · simp only [h, if_false]
    rw [← Nat.log2_lt h]; omega

theorem bw_two_mul (x : Nat) (h : x ≠ 0) : Spec.bitWidth (2 * x) = Spec.bitWidth x + 1 := by
  unfold Spec.bitWidth
  have : 2 * x ≠ 0 := by omega
  simp only [h, this, if_false, Nat.log2_two_mul h]

theorem clzLoop_eq (w : Nat) (hw : 1 ≤ w) : ∀ f x res, 0 < x → x < 2^w → w - Spec.bitWidth x < f →
    clzLoop w f x res = .ok (res + (w - Spec.bitWidth x)) := by
  have hsplit : 2^w = 2 * 2^(w-1) := by
    obtain ⟨k, rfl⟩ : ∃ k, w = k+1 := ⟨w-1, by omega⟩
    rw [Nat.pow_succ]; simp; omega
  intro f
  induction f with
  | zero => intro x res _ _ h; omega
  | succ f ih =>
    intro x res h0 hx hf
    unfold clzLoop
    rw [top_clear w x hw hx]
    have hbw := (bw_le x w).2 hx
    by_cases h : x < 2^(w-1)
    · simp only [h, decide_true, if_true]
      have h2x : (x <<< 1) % 2^w = 2 * x := by
        rw [Nat.shiftLeft_eq]; simp; rw [Nat.mod_eq_of_lt (by omega)]; omega
      have hb1 := (bw_le x (w-1)).2 h
      have hb2 := bw_two_mul x (by omega)
      rw [h2x, ih (2 * x) (res + 1) (by omega) (by omega) (by omega), hb2]
      congr 1; omega
    · simp only [h, decide_false, Bool.false_eq_true, if_false]
      have : ¬ Spec.bitWidth x ≤ w - 1 := by rw [bw_le]; exact h
      congr 1; omega

theorem countlZero_eq (w x : Nat) (hw : 1 ≤ w) (hx : x < 2^w) :
    countlZero w x = .ok (Spec.countlZero w x) := by
  unfold countlZero Spec.countlZero
  by_cases h : x = 0
  · subst h; simp [Spec.bitWidth]
  · simp only [beq_iff_eq, h, if_false]
    rw [clzLoop_eq w hw w x 0 (by omega) hx]
    · simp
    · have : 1 ≤ Spec.bitWidth x := by unfold Spec.bitWidth; simp [h]
      omega

theorem bitWidth_eq (w x : Nat) (hw : 1 ≤ w) (hx : x < 2^w) : bitWidth w x = .ok (Spec.bitWidth x) := by
  unfold bitWidth
  rw [countlZero_eq w x hw hx]
  have := (bw_le x w).2 hx
  simp only [ok_bind, Spec.countlZero]
  congr 1; omega

theorem pw_ge (w : Nat) : w ≤ pw w := by unfold pw; split <;> omega

theorem bitFloor_eq (w x : Nat) (hw : 1 ≤ w) (hx : x < 2^w) : bitFloor w x = .ok (Spec.bitFloor x) := by
  unfold bitFloor Spec.bitFloor
  by_cases h : x = 0
  · simp [h]
  · simp only [bne_iff_ne, ne_eq, h, not_false_eq_true, if_true, if_false]
    rw [bitWidth_eq w x hw hx]
    simp only [ok_bind]
    have hbw := (bw_le x w).2 hx
    have hb1 : Spec.bitWidth x = Nat.log2 x + 1 := by unfold Spec.bitWidth; simp [h]
    have hlt : Spec.bitWidth x < 2^w := Nat.lt_of_le_of_lt hbw Nat.lt_two_pow_self
    have hsh : (ITy.conv ⟨w, false⟩ (((Spec.bitWidth x % 2^w : Nat) : Int) - 1)).toNat = Nat.log2 x := by
      rw [convU, Nat.mod_eq_of_lt hlt]
      have hc : ((2:Nat)^w : Int) = (2:Int)^w := by simp
      rw [Int.emod_eq_of_lt (by omega) (by rw [← hc]; omega)]; omega
    rw [hsh]
    have hpw := pw_ge w
    have hl : Nat.log2 x < w := by omega
    simp only [show Nat.log2 x < pw w by omega, if_true]
    rw [Nat.shiftLeft_eq, Nat.one_mul, Nat.mod_eq_of_lt (Nat.pow_lt_pow_right (by decide) hl)]

/-- documented domain of `bit_ceil`: the result `2^k >= x` must be representable -/
theorem bitCeil_eq (w x : Nat) (hw : 1 ≤ w) (hx : x ≤ 2^(w-1)) : bitCeil w x = .ok (Spec.bitCeil x) := by
  have hsplit : 2^w = 2 * 2^(w-1) := by
    obtain ⟨k, rfl⟩ : ∃ k, w = k+1 := ⟨w-1, by omega⟩
    rw [Nat.pow_succ]; simp; omega
  have hpos : 0 < 2^(w-1) := Nat.pow_pos (by decide)
  unfold bitCeil Spec.bitCeil
  by_cases h : x ≤ 1
  · simp [h]
  · simp only [h, if_false]
    have hx1 : x - 1 < 2^w := by omega
    rw [Nat.mod_eq_of_lt hx1, bitWidth_eq w (x - 1) hw hx1]
    simp only [ok_bind]
    have hne : x - 1 ≠ 0 := by omega
    have hb1 : Spec.bitWidth (x - 1) = Nat.log2 (x - 1) + 1 := by unfold Spec.bitWidth; simp [hne]
    have hb : Spec.bitWidth (x - 1) ≤ w - 1 := (bw_le (x - 1) (w - 1)).2 (by omega)
    rw [← hb1]
    generalize Spec.bitWidth (x - 1) = b at *
    have hbw : b < w := by omega
    by_cases hwide : w ≥ 32
    · simp only [hwide, if_true, hbw]
      rw [Nat.shiftLeft_eq, Nat.one_mul, Nat.mod_eq_of_lt (Nat.pow_lt_pow_right (by decide) hbw)]
    · simp only [hwide, if_false]
      have ho : b + (32 - w) < 32 := by omega
      simp only [ho, if_true]
      rw [Nat.shiftLeft_eq, Nat.one_mul, Nat.mod_eq_of_lt (Nat.pow_lt_pow_right (by decide) ho),
        Nat.shiftRight_eq_div_pow, Nat.pow_add, Nat.mul_div_cancel _ (Nat.pow_pos (by decide)),
        Nat.mod_eq_of_lt (Nat.pow_lt_pow_right (by decide) hbw)]

end Tetl.C14
