import Tetl.C14.Model
import Tetl.C14.Spec
namespace Tetl.C14
open Tetl

@[simp] theorem ok_bind {ε α β} (a : α) (f : α → Except ε β) : (Except.ok a >>= f) = f a := rfl
@[simp] theorem error_bind {ε α β} (e : ε) (f : α → Except ε β) : (Except.error e >>= f) = Except.error e := rfl
@[simp] theorem pure_eq_ok {ε α} (a : α) : (pure a : Except ε α) = Except.ok a := rfl

theorem gcdLoop_eq (a b : Nat) : gcdLoop a b = Nat.gcd a b := by
  induction b using Nat.strongRecOn generalizing a with
  | _ b ih =>
    unfold gcdLoop
    by_cases hb : b = 0
    · simp [hb]
    · simp only [hb, dite_false]
      rw [ih (a % b) (Nat.mod_lt _ (Nat.pos_of_ne_zero hb)) b]
      rw [Nat.gcd_comm a b, Nat.gcd_rec b a]
      exact Nat.gcd_comm _ _

end Tetl.C14
