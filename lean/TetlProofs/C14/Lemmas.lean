import Tetl.C14.Model
import Tetl.C14.Spec
namespace Tetl.C14
open Tetl


@[simp] theorem ok_bind {ε α β} (a : α) (f : α → Except ε β) : (Except.ok a >>= f) = f a := rfl
@[simp] theorem error_bind {ε α β} (e : ε) (f : α → Except ε β) : (Except.error e >>= f) = Except.error e := rfl
@[simp] theorem pure_eq_ok {ε α} (a : α) : (pure a : Except ε α) = Except.ok a := rfl

theorem gcdLoop_eq (a b : Nat) : gcdLoop a b = Nat.gcd a b := by
  induction b using Nat.strongRecOn generalizing a with
  | _ b ih =>
    unfold gcdLoop
    by_cases hb : b = 0
    · simp [hb]
    · simp only [hb, dite_false]
      rw [ih (a % b) (Nat.mod_lt _ (Nat.pos_of_ne_zero hb)) b]
      rw [Nat.gcd_comm a b, Nat.gcd_rec b a]
      exact Nat.gcd_comm _ _

/-! ## conversions -/

theorem two_pow_split (w : Nat) (hw : 1 ≤ w) : (2:Int)^w = 2 * 2^(w-1) := by
  obtain ⟨k, rfl⟩ : ∃ k, w = k+1 := ⟨w-1, by omega⟩
  rw [Int.pow_succ]; simp; omega

theorem emod_shift (x Q k : Int) (h0 : 0 ≤ x - k*Q) (h1 : x - k*Q < Q) : x % Q = x - k*Q := by
  have : x % Q = (x - k*Q) % Q := by
    rw [Int.sub_mul_emod_self_right]
  rw [this]; exact Int.emod_eq_of_lt h0 h1

theorem inR_iff (t : ITy) (x : Int) : t.inR x = true ↔ t.min ≤ x ∧ x ≤ t.max := by
  simp [ITy.inR]

theorem convU (w : Nat) (x : Int) : ITy.conv ⟨w, false⟩ x = x % 2^w := by
  simp [ITy.conv]

theorem convS (w : Nat) (x : Int) :
    ITy.conv ⟨w, true⟩ x = if x % 2^w ≥ 2^(w-1) then x % 2^w - 2^w else x % 2^w := by
  simp [ITy.conv]

theorem conv_of_inR (t : ITy) (hw : 1 ≤ t.w) (x : Int) (h : t.inR x = true) : t.conv x = x := by
  obtain ⟨w, sg⟩ := t
  have h2 := two_pow_split w hw
  have hp : (0:Int) < 2^(w-1) := Int.pow_pos (by decide)
  rw [inR_iff] at h
  cases sg
  · rw [convU]; simp only [ITy.min, ITy.max] at h
    simp at h
    exact Int.emod_eq_of_lt h.1 (by omega)
  · rw [convS]; simp only [ITy.min, ITy.max] at h
    simp at h
    generalize (2:Int)^(w-1) = P at *
    generalize (2:Int)^w = Q at *
    by_cases hx : 0 ≤ x
    · rw [emod_shift x Q 0 (by omega) (by omega)]; simp; omega
    · rw [emod_shift x Q (-1) (by omega) (by omega)]; simp
      omega

/-- `static_cast` lands in the range of the type and differs from the argument by a multiple of `2^w` -/
theorem conv_spec (t : ITy) (hw : 1 ≤ t.w) (x : Int) :
    (t.min ≤ t.conv x ∧ t.conv x ≤ t.max) ∧ ∃ k : Int, t.conv x = x - k * 2^t.w := by
  obtain ⟨w, sg⟩ := t
  have h2 := two_pow_split w hw
  have hp : (0:Int) < 2^(w-1) := Int.pow_pos (by decide)
  have hq : (0:Int) < 2^w := Int.pow_pos (by decide)
  have hm0 := Int.emod_nonneg x (Int.ne_of_gt hq)
  have hm1 := Int.emod_lt_of_pos x hq
  have hd : x % 2^w = x - (x / 2^w) * 2^w := by
    have := Int.emod_def x (2^w); rw [this, Int.mul_comm]
  cases sg
  · rw [convU]; simp only [ITy.min, ITy.max]; simp
    exact ⟨⟨hm0, by omega⟩, x / 2^w, hd⟩
  · rw [convS]; simp only [ITy.min, ITy.max]; simp
    generalize (x / 2^w) = d at *
    generalize x % (2:Int)^w = r at *
    generalize (2:Int)^(w-1) = P at *
    generalize (2:Int)^w = Q at *
    by_cases hr : P ≤ r
    · simp only [hr, if_true]
      refine ⟨by omega, d + 1, ?_⟩
      rw [Int.add_mul]; omega
    · simp only [hr, if_false]
      exact ⟨by omega, d, by omega⟩

/-! ## saturating addition -/

theorem arith_ok (p : ITy) (hw : 1 ≤ p.w) (x : Int) (h : p.inR x = true) : arith p x = .ok x := by
  unfold arith
  cases hs : p.sg
  · simp [conv_of_inR p hw x h]
  · simp [h]

theorem promote_w (t : ITy) (hw : 1 ≤ t.w) : 1 ≤ t.promote.w := by
  unfold ITy.promote; split
  · simp
  · exact hw

theorem min_max_zero (t : ITy) : t.min ≤ 0 ∧ 0 ≤ t.max := by
  have hp : (0:Int) < 2^(t.w-1) := Int.pow_pos (by decide)
  have hq : (0:Int) < 2^t.w := Int.pow_pos (by decide)
  unfold ITy.min ITy.max; cases t.sg <;> simp <;> omega

theorem pow_mono (a b : Nat) (h : a ≤ b) : (2:Int)^a ≤ 2^b := by
  have : (2:Nat)^a ≤ 2^b := Nat.pow_le_pow_right (by decide) h
  exact_mod_cast this

/-- every value of `t` is a value of `t.promote` -/
theorem promote_inR (t : ITy) (hw : 1 ≤ t.w) (x : Int) (h : t.inR x = true) : t.promote.inR x = true := by
  obtain ⟨w, sg⟩ := t
  unfold ITy.promote
  split
  · rename_i hlt
    simp at hlt
    rw [inR_iff] at h ⊢
    have h1 := pow_mono w 31 (by omega)
    have h2 := pow_mono (w-1) 31 (by omega)
    cases sg <;> simp only [ITy.min, ITy.max] at * <;> simp at * <;> omega
  · exact h

/-! ## midpoint -/

theorem conv_add_mul (t : ITy) (x k : Int) : t.conv (x + k * 2^t.w) = t.conv x := by
  unfold ITy.conv; rw [Int.add_mul_emod_self_right]

theorem lt_two_pow_int (w : Nat) : (w : Int) < 2^w := by
  have : w < 2^w := Nat.lt_two_pow_self
  exact_mod_cast this

/-- the unsigned intermediate `half` of `midpoint` is `(b - a) /ₜ 2` reduced modulo `2^w` -/
theorem midpoint_half (w : Nat) (hw : 1 ≤ w) (a b : Int) (hab : -(2:Int)^w < b - a ∧ b - a < 2^w) :
    let diff := ((b - a) % 2^w).toNat
    let sign : Nat := if b < a then 1 else 0
    (((diff / 2 + (sign <<< (w - 1)) + (sign &&& diff) : Nat) : Int)) % 2^w = (Int.tdiv (b - a) 2) % 2^w := by
  intro diff sign
  have h2 := two_pow_split w hw
  have hp : (0:Int) < 2^(w-1) := Int.pow_pos (by decide)
  have hcast : (((2:Nat)^(w-1) : Nat) : Int) = (2:Int)^(w-1) := by simp
  by_cases hlt : b < a
  · have hs : sign = 1 := by simp [sign, hlt]
    have hD : (b - a) % 2^w = b - a + 2^w := by
      rw [emod_shift (b - a) (2^w) (-1) (by omega) (by omega)]; omega
    have hd : (diff : Int) = b - a + 2^w := by
      simp only [diff]; rw [hD]; exact Int.toNat_of_nonneg (by omega)
    rw [hs, Nat.shiftLeft_eq, Nat.one_and_eq_mod_two, Nat.one_mul]
    have ht : Int.tdiv (b - a) 2 = -((a - b) / 2) := by
      have : b - a = -(a - b) := by omega
      rw [this, Int.neg_tdiv, Int.tdiv_eq_ediv_of_nonneg (by omega)]
    rw [ht]
    simp only [Int.natCast_add, hcast]
    generalize (2:Int)^(w-1) = P at *
    generalize (2:Int)^w = Q at *
    by_cases he : a - b = 1
    · rw [emod_shift _ Q 1 (by omega) (by omega), emod_shift (-((a - b) / 2)) Q 0 (by omega) (by omega)]
      omega
    · rw [emod_shift _ Q 0 (by omega) (by omega), emod_shift (-((a - b) / 2)) Q (-1) (by omega) (by omega)]
      omega
  · have hs : sign = 0 := by simp [sign, hlt]
    have hD : (b - a) % 2^w = b - a := Int.emod_eq_of_lt (by omega) (by omega)
    have hd : (diff : Int) = b - a := by
      simp only [diff]; rw [hD]; exact Int.toNat_of_nonneg (by omega)
    rw [hs, Nat.zero_shiftLeft, Nat.zero_and, Nat.add_zero]; try rw [Nat.add_zero]
    rw [Int.tdiv_eq_ediv_of_nonneg (by omega)]
    congr 1
    omega

theorem conv_emod (t : ITy) (x : Int) : t.conv (x % 2^t.w) = t.conv x := by
  unfold ITy.conv; rw [Int.emod_emod]

theorem conv_sub_mul (t : ITy) (x k : Int) : t.conv (x - k * 2^t.w) = t.conv x := by
  have : x - k * 2^t.w = x + (-k) * 2^t.w := by rw [Int.neg_mul]; omega
  rw [this, conv_add_mul]

theorem tdiv2_bounds (d : Int) : (0 ≤ d → 0 ≤ Int.tdiv d 2 ∧ 2 * Int.tdiv d 2 ≤ d ∧ d ≤ 2 * Int.tdiv d 2 + 1) ∧
    (d < 0 → Int.tdiv d 2 ≤ 0 ∧ d ≤ 2 * Int.tdiv d 2 ∧ 2 * Int.tdiv d 2 - 1 ≤ d) := by
  constructor
  · intro h; rw [Int.tdiv_eq_ediv_of_nonneg h]; omega
  · intro h
    have : d = -(-d) := by omega
    rw [this, Int.neg_tdiv, Int.tdiv_eq_ediv_of_nonneg (by omega)]; omega

/-! ## rotations -/

theorem rot_core (w t r : Nat) (ht : t < 2^w) (hrw : r < w) :
    ((t <<< r) ||| (t >>> (w - r))) % 2^w = (t * 2^r) % 2^w + t / 2^(w - r) := by
  have hsplit : 2^w = 2^(w-r) * 2^r := by rw [← Nat.pow_add]; congr 1; omega
  have hhi : t / 2^(w-r) < 2^r := by
    apply Nat.div_lt_of_lt_mul; rw [← hsplit]; exact ht
  rw [Nat.shiftRight_eq_div_pow, ← Nat.shiftLeft_add_eq_or_of_lt hhi, Nat.shiftLeft_eq]
  have hlo : (t * 2^r) % 2^w = (t % 2^(w-r)) * 2^r := by
    rw [hsplit, Nat.mul_mod_mul_right]
  have hlt : t % 2^(w-r) < 2^(w-r) := Nat.mod_lt _ (Nat.pow_pos (by decide))
  have hbound : (t % 2^(w-r)) * 2^r + t / 2^(w-r) < 2^w := by
    calc (t % 2^(w-r)) * 2^r + t / 2^(w-r) < (t % 2^(w-r)) * 2^r + 2^r := by omega
      _ = (t % 2^(w-r) + 1) * 2^r := by rw [Nat.add_mul, Nat.one_mul]
      _ ≤ 2^(w-r) * 2^r := Nat.mul_le_mul_right _ hlt
      _ = 2^w := hsplit.symm
  rw [Nat.add_mod, hlo, Nat.mod_eq_of_lt (a := t / 2^(w-r)) (by omega), Nat.mod_eq_of_lt hbound]

/-- `unsigned(s) % digits` is the mathematical `s mod digits` when `digits` divides `2^32` -/
theorem rot_count (w : Nat) (hdvd : (w : Int) ∣ 2^32) (s : Int) :
    (u32.conv s).toNat % w = (s % (w : Int)).toNat := by
  show (ITy.conv ⟨32, false⟩ s).toNat % w = _
  rw [convU]
  have h0 : 0 ≤ s % 2^32 := Int.emod_nonneg _ (by decide)
  have : ((((s % 2^32).toNat % w : Nat)) : Int) = s % (w : Int) := by
    rw [Int.natCast_emod, Int.toNat_of_nonneg h0, Int.emod_emod_of_dvd _ hdvd]
  omega

/-! ## safe comparisons -/

/-- every value of `A` is a value of `C` -/
def ITy.sub (A C : ITy) : Prop := C.min ≤ A.min ∧ A.max ≤ C.max

theorem sub_inR {A C : ITy} (h : A.sub C) (x : Int) (hx : A.inR x = true) : C.inR x = true := by
  rw [inR_iff] at *; unfold ITy.sub at h; omega

theorem sub_refl (A : ITy) : A.sub A := ⟨Int.le_refl _, Int.le_refl _⟩

theorem sub_ss (a b : Nat) (h : a ≤ b) : ITy.sub ⟨a, true⟩ ⟨b, true⟩ := by
  have := pow_mono (a-1) (b-1) (by omega)
  unfold ITy.sub ITy.min ITy.max; simp; omega

theorem sub_uu (a b : Nat) (h : a ≤ b) : ITy.sub ⟨a, false⟩ ⟨b, false⟩ := by
  have := pow_mono a b h
  unfold ITy.sub ITy.min ITy.max; simp; omega

theorem sub_us (a b : Nat) (h : a < b) : ITy.sub ⟨a, false⟩ ⟨b, true⟩ := by
  have := pow_mono a (b-1) (by omega)
  have hp : (0:Int) < 2^(b-1) := Int.pow_pos (by decide)
  unfold ITy.sub ITy.min ITy.max; simp; omega

/-- with equal signedness the usual arithmetic conversions preserve both values -/
theorem usual_sub (A B : ITy) (hs : A.sg = B.sg) :
    A.sub (ITy.usual A B) ∧ B.sub (ITy.usual A B) ∧ 1 ≤ (ITy.usual A B).w := by
  obtain ⟨a, sa⟩ := A
  obtain ⟨b, sb⟩ := B
  simp only [] at hs; subst hs
  unfold ITy.usual ITy.promote
  cases sa
  · by_cases ha : a < 32 <;> by_cases hb : b < 32 <;> simp [ha, hb]
    · exact ⟨sub_us a 32 ha, sub_us b 32 hb⟩
    · have hb' : 32 ≤ b := by omega
      simp [hb']
      exact ⟨sub_uu a b (by omega), sub_refl _, by omega⟩
    · have ha' : 32 ≤ a := by omega
      simp [ha']
      exact ⟨sub_refl _, sub_uu b a (by omega), by omega⟩
    · by_cases hab : b ≤ a <;> simp [hab]
      · exact ⟨sub_refl _, sub_uu b a hab, by omega⟩
      · exact ⟨sub_uu a b (by omega), sub_refl _, by omega⟩
  · by_cases ha : a < 32 <;> by_cases hb : b < 32 <;> simp [ha, hb]
    · exact ⟨sub_ss a 32 (by omega), sub_ss b 32 (by omega)⟩
    · have : ¬ b ≤ 32 ∨ b = 32 := by omega
      by_cases hb2 : b ≤ 32 <;> simp [hb2]
      · have : b = 32 := by omega
        subst this; exact ⟨sub_ss a 32 (by omega), sub_refl _⟩
      · exact ⟨sub_ss a b (by omega), sub_refl _, by omega⟩
    · by_cases ha2 : 32 ≤ a <;> simp [ha2]
      · exact ⟨sub_refl _, sub_ss b a (by omega), by omega⟩
      · omega
    · by_cases hab : b ≤ a <;> simp [hab]
      · exact ⟨sub_refl _, sub_ss b a hab, by omega⟩
      · exact ⟨sub_ss a b (by omega), sub_refl _, by omega⟩

theorem builtinLt_eq (A B : ITy) (hs : A.sg = B.sg) (a b : Int)
    (ha : A.inR a = true) (hb : B.inR b = true) : builtinLt A B a b = decide (a < b) := by
  obtain ⟨hA, hB, hw⟩ := usual_sub A B hs
  unfold builtinLt
  simp only [conv_of_inR _ hw a (sub_inR hA a ha), conv_of_inR _ hw b (sub_inR hB b hb)]

theorem builtinEq_eq (A B : ITy) (hs : A.sg = B.sg) (a b : Int)
    (ha : A.inR a = true) (hb : B.inR b = true) : builtinEq A B a b = decide (a = b) := by
  obtain ⟨hA, hB, hw⟩ := usual_sub A B hs
  unfold builtinEq
  simp only [conv_of_inR _ hw a (sub_inR hA a ha), conv_of_inR _ hw b (sub_inR hB b hb)]

/-- a non-negative value of a signed type is a value of the corresponding unsigned type -/
theorem uns_inR (T : ITy) (hw : 1 ≤ T.w) (t : Int) (ht : T.inR t = true) (h0 : 0 ≤ t) : T.uns.inR t = true := by
  obtain ⟨w, sg⟩ := T
  have h2 := two_pow_split w hw
  have hp : (0:Int) < 2^(w-1) := Int.pow_pos (by decide)
  rw [inR_iff] at *
  cases sg <;> simp only [ITy.uns, ITy.min, ITy.max] at * <;> simp at * <;> omega

theorem nonneg_of_unsigned (U : ITy) (hs : U.sg = false) (u : Int) (hu : U.inR u = true) : 0 ≤ u := by
  rw [inR_iff] at hu; unfold ITy.min at hu; simp [hs] at hu; exact hu.1

theorem inR_min (t : ITy) : t.inR t.min = true := by
  have := min_max_zero t; rw [inR_iff]; omega
theorem inR_max (t : ITy) : t.inR t.max = true := by
  have := min_max_zero t; rw [inR_iff]; omega

/-! ## popcount and the leading-zero family -/

theorem pc_succ (w x : Nat) : Spec.popcount (w + 1) x = x % 2 + Spec.popcount w (x / 2) := by
  unfold Spec.popcount
  rw [List.range_succ_eq_map, List.filter_cons, List.filter_map]
  have h1 : ((fun i => x.testBit i) ∘ Nat.succ) = (fun i => (x / 2).testBit i) := by
    funext i; simp [Nat.testBit_succ]
  rw [h1]
  have hx : x % 2 = 0 ∨ x % 2 = 1 := by omega
  rcases hx with h | h <;> simp [Nat.testBit_zero, h] <;> omega

theorem pc_zero (w : Nat) : Spec.popcount w 0 = 0 := by
  unfold Spec.popcount; simp

/-- `v & (v - 1)` clears exactly one 1 bit -/
theorem pc_clear_lowest (w : Nat) : ∀ v, 0 < v → v < 2^w →
    Spec.popcount w (v &&& (v - 1)) + 1 = Spec.popcount w v := by
  induction w with
  | zero => intro v h0 h1; simp at h1; omega
  | succ w ih =>
    intro v h0 h1
    rw [pc_succ, pc_succ, Nat.and_div_two]
    have hm : (v &&& (v - 1)) % 2 = (v % 2) &&& ((v - 1) % 2) := by
      have := @Nat.and_mod_two_pow v (v - 1) 1; simpa using this
    have hx : v % 2 = 0 ∨ v % 2 = 1 := by omega
    rcases hx with h | h
    · -- even: recurse on v / 2
      have h1' : (v - 1) / 2 = v / 2 - 1 := by omega
      have hv2 : 0 < v / 2 := by omega
      have hlt : v / 2 < 2^w := by rw [Nat.pow_succ] at h1; omega
      rw [hm, h, Nat.zero_and, h1', ← ih (v / 2) hv2 hlt]; omega
    · have h1' : (v - 1) / 2 = v / 2 := by omega
      have h2 : (v - 1) % 2 = 0 := by omega
      rw [hm, h, h2, h1', Nat.and_self]; simp; omega

theorem popLoop_eq (w : Nat) : ∀ val c, val < 2^w → popLoop val c = c + Spec.popcount w val := by
  intro val
  induction val using Nat.strongRecOn with
  | _ val ih =>
    intro c hlt
    unfold popLoop
    by_cases h0 : val = 0
    · simp [h0, pc_zero]
    · simp only [h0, dite_false]
      have hle := @Nat.and_le_right val (val - 1)
      rw [ih (val &&& (val - 1)) (by omega) (c + 1) (by omega)]
      have := pc_clear_lowest w val (by omega) hlt
      omega

/-! ### countl_zero, bit_width, bit_floor, bit_ceil -/

theorem and_two_pow_eq_zero (x k : Nat) : x &&& 2^k = 0 ↔ x.testBit k = false := by
  constructor
  · intro h
    have := Nat.testBit_and x (2^k) k
    rw [h] at this; simpa [Nat.testBit_two_pow_self] using this.symm
  · intro h
    apply Nat.eq_of_testBit_eq
    intro i
    rw [Nat.testBit_and, Nat.testBit_two_pow]
    by_cases hi : k = i
    · subst hi; simp [h]
    · simp [hi]

theorem testBit_top (w x : Nat) (hw : 1 ≤ w) (hx : x < 2^w) : x.testBit (w - 1) = decide (2^(w-1) ≤ x) := by
  rw [Nat.testBit_eq_decide_div_mod_eq]
  have hsplit : 2^w = 2 * 2^(w-1) := by
    obtain ⟨k, rfl⟩ : ∃ k, w = k+1 := ⟨w-1, by omega⟩
    rw [Nat.pow_succ]; simp; omega
  have hpos : 0 < 2^(w-1) := Nat.pow_pos (by decide)
  have hq : x / 2^(w-1) < 2 := by
    apply Nat.div_lt_of_lt_mul; omega
  by_cases h : 2^(w-1) ≤ x
  · have : 1 ≤ x / 2^(w-1) := (Nat.le_div_iff_mul_le hpos).2 (by omega)
    simp [h]; omega
  · have : x / 2^(w-1) = 0 := Nat.div_eq_of_lt (by omega)
    simp [h, this]

theorem top_clear (w x : Nat) (hw : 1 ≤ w) (hx : x < 2^w) : (x &&& topMask w == 0) = decide (x < 2^(w-1)) := by
  unfold topMask
  rw [Nat.shiftLeft_eq, Nat.one_mul]
  by_cases h : x < 2^(w-1)
  · have : x &&& 2^(w-1) = 0 := (and_two_pow_eq_zero x (w-1)).2 (by rw [testBit_top w x hw hx]; simp; omega)
    simp [this, h]
  · have : ¬ (x &&& 2^(w-1) = 0) := by
      rw [and_two_pow_eq_zero, testBit_top w x hw hx]; simp; omega
    simp [this, h]

theorem bw_le (x k : Nat) : Spec.bitWidth x ≤ k ↔ x < 2^k := by
  unfold Spec.bitWidth
  by_cases h : x = 0
  · subst h; simp; exact Nat.pow_pos (by decide)
  · simp only [h, if_false]
    rw [← Nat.log2_lt h]; omega

theorem bw_two_mul (x : Nat) (h : x ≠ 0) : Spec.bitWidth (2 * x) = Spec.bitWidth x + 1 := by
  unfold Spec.bitWidth
  have : 2 * x ≠ 0 := by omega
  simp only [h, this, if_false, Nat.log2_two_mul h]

theorem clzLoop_eq (w : Nat) (hw : 1 ≤ w) : ∀ f x res, 0 < x → x < 2^w → w - Spec.bitWidth x < f →
    clzLoop w f x res = .ok (res + (w - Spec.bitWidth x)) := by
  have hsplit : 2^w = 2 * 2^(w-1) := by
    obtain ⟨k, rfl⟩ : ∃ k, w = k+1 := ⟨w-1, by omega⟩
    rw [Nat.pow_succ]; simp; omega
  intro f
  induction f with
  | zero => intro x res _ _ h; omega
  | succ f ih =>
    intro x res h0 hx hf
    unfold clzLoop
    rw [top_clear w x hw hx]
    have hbw := (bw_le x w).2 hx
    by_cases h : x < 2^(w-1)
    · simp only [h, decide_true, if_true]
      have h2x : (x <<< 1) % 2^w = 2 * x := by
        rw [Nat.shiftLeft_eq]; simp; rw [Nat.mod_eq_of_lt (by omega)]; omega
      have hb1 := (bw_le x (w-1)).2 h
      have hb2 := bw_two_mul x (by omega)
      rw [h2x, ih (2 * x) (res + 1) (by omega) (by omega) (by omega), hb2]
      congr 1; omega
    · simp only [h, decide_false, Bool.false_eq_true, if_false]
      have : ¬ Spec.bitWidth x ≤ w - 1 := by rw [bw_le]; exact h
      congr 1; omega

theorem pw_ge (w : Nat) : w ≤ pw w := by unfold pw; split <;> omega

/-! ## ilog2, gcd, lcm, abs -/

theorem ilog2Loop_eq : ∀ x r, ilog2Loop x r = r + Nat.log2 x := by
  intro x
  induction x using Nat.strongRecOn with
  | _ x ih =>
    intro r
    unfold ilog2Loop
    rw [Nat.log2_def]
    by_cases h : x > 1
    · have h2 : 2 ≤ x := h
      simp only [h, h2, dite_true, if_true]
      rw [ih (x / 2) (by omega)]; omega
    · have h2 : ¬ 2 ≤ x := by omega
      simp [h, h2]

/-- `|x|` computed in the unsigned common type -/
theorem absAs_eq (U : ITy) (hw : 1 ≤ U.w) (hs : U.sg = false) (x : Int) (hx : (x.natAbs : Int) < 2^U.w) :
    absAs U x = x.natAbs := by
  obtain ⟨w, sg⟩ := U
  simp only [] at hs; subst hs
  have h2 := two_pow_split w hw
  unfold absAs
  simp only [convU]
  simp only [] at hx h2
  generalize (2:Int)^(w-1) = P at *
  generalize (2:Int)^w = Q at *
  by_cases h : x < 0
  · simp only [h, if_true]
    rw [emod_shift x Q (-1) (by omega) (by omega), emod_shift (0 - (x - -1 * Q)) Q (-1) (by omega) (by omega)]
    omega
  · simp only [h, if_false]
    rw [emod_shift x Q 0 (by omega) (by omega)]; omega

theorem common_w (M N : ITy) (hM : 1 ≤ M.w) (hN : 1 ≤ N.w) : 1 ≤ (ITy.common M N).w := by
  have ha := promote_w M hM
  have hb := promote_w N hN
  unfold ITy.common ITy.usual
  generalize M.promote = a at *
  generalize N.promote = b at *
  dsimp only
  repeat' split
  all_goals assumption

theorem max_lt_pow (R : ITy) (hw : 1 ≤ R.w) : R.max < 2^R.w := by
  have h2 := two_pow_split R.w hw
  have hp : (0:Int) < 2^(R.w-1) := Int.pow_pos (by decide)
  unfold ITy.max; cases R.sg <;> simp <;> omega

theorem neg_inR (t : ITy) (hs : t.sg = true) (_hw : 1 ≤ t.w) (x : Int) (hx : t.inR x = true) (hmin : x ≠ t.min) (_hneg : x < 0) :
    t.inR (-x) = true := by
  rw [inR_iff] at *
  unfold ITy.min ITy.max at *
  simp only [hs, if_true] at *
  omega

/-! ## division -/


/-- the truncated quotient of two values of a type is a value of the type, except for `min / -1` -/
theorem tdiv_inR (t : ITy) (hw : 1 ≤ t.w) (x y : Int) (hx : t.inR x = true) (hy : t.inR y = true) (hy0 : y ≠ 0)
    (hex : ¬ (t.sg = true ∧ x = t.min ∧ y = -1)) : t.inR (Int.tdiv x y) = true := by
  have h2 := two_pow_split t.w hw
  have hp : (0:Int) < 2^(t.w-1) := Int.pow_pos (by decide)
  cases hs : t.sg
  · have hx0 := nonneg_of_unsigned t hs x hx
    have hy0' := nonneg_of_unsigned t hs y hy
    rw [inR_iff] at *
    have h1 : 0 ≤ Int.tdiv x y := Int.tdiv_nonneg hx0 hy0'
    have h3 : Int.tdiv x y ≤ x := Int.tdiv_le_self y hx0
    unfold ITy.min at *; simp only [hs] at *; simp at *; omega
  · have hq : (Int.tdiv x y).natAbs = x.natAbs / y.natAbs := Int.natAbs_tdiv x y
    rw [inR_iff] at *
    unfold ITy.min ITy.max at *
    simp only [hs, if_true, true_and] at *
    by_cases hy1 : y.natAbs = 1
    · have : y = 1 ∨ y = -1 := by omega
      rcases this with h | h
      · subst h; rw [Int.tdiv_one]; omega
      · subst h
        have : Int.tdiv x (-1) = -x := by rw [Int.tdiv_neg, Int.tdiv_one]
        rw [this]; omega
    · have hy2 : 2 ≤ y.natAbs := by omega
      have : x.natAbs / y.natAbs ≤ x.natAbs / 2 := Nat.div_le_div_left hy2 (by decide)
      omega

/-! ## single-bit access -/


/-- `static_cast<UInt>(numeric_limits<UInt>::digits)` is the width itself -/
theorem digits_as_uint (w : Nat) : w % 2 ^ w = w := Nat.mod_eq_of_lt Nat.lt_two_pow_self

theorem bitPosPre_iff (w pos : Nat) : bitPosPre w pos = true ↔ pos < w := by
  unfold bitPosPre; rw [digits_as_uint]; simp

theorem bitPosPre_ok (w pos : Nat) (hpos : pos < w) : bitPosPre w pos = true :=
  (bitPosPre_iff w pos).2 hpos

theorem oneShl_ok (w pos : Nat) (hpos : pos < w) : oneShl w pos = .ok (2^pos) := by
  unfold oneShl
  have := pw_ge w
  simp only [show pos < pw w by omega, if_true]
  rw [Nat.shiftLeft_eq, Nat.one_mul, Nat.mod_eq_of_lt (Nat.pow_lt_pow_right (by decide) hpos)]

end Tetl.C14
