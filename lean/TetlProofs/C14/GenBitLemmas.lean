/-
C14 — bridge lemmas between the generated kernels of Tetl/C14/Gen.lean (Int arithmetic with `wrapU/wrapS/shl/shr/band/…`)
and the hand model of Tetl/C14/Model.lean (Nat `<<< >>> ||| &&& ^^^ % 2^w`), and one lemma per body shape of the <bit>
kernels, generic in the width `w`: "narrow" = the 8/16-bit instantiations (computed in the promoted type `int`),
"wide" = the 32/64-bit ones (computed in the type itself).  TetlProofs/C14/GenBits.lean instantiates them.
-/
import Tetl.C14.Gen
import TetlProofs.C14.Props
set_option linter.unusedSimpArgs false
set_option linter.unusedVariables false
namespace Tetl.C14.GenBitLemmas
open Tetl Tetl.C14 Tetl.CSem

theorem wrapU_nat (w n : Nat) : wrapU w (n : Int) = ((n % 2^w : Nat) : Int) := by
  simp [wrapU]
theorem wrapU_id (w : Nat) (x : Int) (h0 : 0 ≤ x) (h1 : x < ((2^w : Nat) : Int)) : wrapU w x = x :=
  Int.emod_eq_of_lt h0 h1
theorem wrapS32_id (x : Int) (h0 : -2147483648 ≤ x) (h1 : x < 2147483648) : wrapS 32 x = x := by
  simp [wrapS]; omega
theorem wrapS32_nat (n : Nat) (h : n < 2^31) : wrapS 32 (n : Int) = (n : Int) := by
  apply wrapS32_id <;> omega
theorem shl_nat (a k : Nat) : shl (a : Int) (k : Int) = ((a <<< k : Nat) : Int) := by
  simp [shl, Nat.shiftLeft_eq]
theorem shl_one_nat (k : Nat) : shl 1 (k : Int) = ((2 ^ k : Nat) : Int) := by
  simp [shl]
theorem shr_nat (a k : Nat) : shr (a : Int) (k : Int) = ((a >>> k : Nat) : Int) := by
  simp [shr, Nat.shiftRight_eq_div_pow]
theorem band_nat (a b : Nat) : band (a : Int) (b : Int) = ((a &&& b : Nat) : Int) := by simp [band]
theorem bor_nat (a b : Nat) : bor (a : Int) (b : Int) = ((a ||| b : Nat) : Int) := by simp [bor]
theorem bxor_nat (a b : Nat) : bxor (a : Int) (b : Int) = ((a ^^^ b : Nat) : Int) := by simp [bxor]
theorem bandS_nat (a b : Nat) (ha : a < 2^31) (hb : b < 2^31) : bandS 32 (a : Int) (b : Int) = ((a &&& b : Nat) : Int) := by
  have h1 : wrapU 32 (a : Int) = a := wrapU_id _ _ (by omega) (by simp; omega)
  have h2 : wrapU 32 (b : Int) = b := wrapU_id _ _ (by omega) (by simp; omega)
  rw [bandS, h1, h2, band_nat, wrapS32_nat]
  exact Nat.lt_of_le_of_lt Nat.and_le_left ha
theorem borS_nat (a b : Nat) (ha : a < 2^31) (hb : b < 2^31) : borS 32 (a : Int) (b : Int) = ((a ||| b : Nat) : Int) := by
  have h1 : wrapU 32 (a : Int) = a := wrapU_id _ _ (by omega) (by simp; omega)
  have h2 : wrapU 32 (b : Int) = b := wrapU_id _ _ (by omega) (by simp; omega)
  rw [borS, h1, h2, bor_nat, wrapS32_nat]
  exact Nat.or_lt_two_pow ha hb
theorem bxorS_nat (a b : Nat) (ha : a < 2^31) (hb : b < 2^31) : bxorS 32 (a : Int) (b : Int) = ((a ^^^ b : Nat) : Int) := by
  have h1 : wrapU 32 (a : Int) = a := wrapU_id _ _ (by omega) (by simp; omega)
  have h2 : wrapU 32 (b : Int) = b := wrapU_id _ _ (by omega) (by simp; omega)
  rw [bxorS, h1, h2, bxor_nat, wrapS32_nat]
  exact Nat.xor_lt_two_pow ha hb

theorem pow_lt_of_lt {p w : Nat} (h : p < w) : 2 ^ p < 2 ^ w := Nat.pow_lt_pow_right (by omega) h
theorem pow_le_16 {w : Nat} (h : w ≤ 16) : 2 ^ w ≤ 65536 := by
  have := Nat.pow_le_pow_right (n := 2) (by omega) h; omega

theorem wrapU_bnotS_nat (w m : Nat) (h : m < 2^w) : wrapU w (bnotS (m:Int)) = ((2^w - 1 - m : Nat) : Int) := by
  unfold wrapU bnotS
  have e : (-(m:Int) - 1) = ((2^w - 1 - m : Nat) : Int) + (-1) * ((2^w : Nat) : Int) := by omega
  rw [e, Int.add_mul_emod_self_right]; exact Int.emod_eq_of_lt (by omega) (by omega)

theorem bnotU_nat (w m : Nat) (h : m < 2^w) : bnotU w (m:Int) = ((2^w - 1 - m : Nat) : Int) := by
  unfold bnotU; omega

/-- narrow mask `wrapS 32 (wrapU w (wrapS 32 (shl 1 (wrapS 32 pos))))` -/
theorem mask_narrow (w pos : Nat) (hw : w ≤ 16) (hpos : pos < w) :
    wrapS 32 (wrapU w (wrapS 32 (shl 1 (wrapS 32 (pos : Int))))) = ((2 ^ pos : Nat) : Int) := by
  have h1 := pow_lt_of_lt hpos
  have h2 := pow_le_16 hw
  rw [wrapS32_nat pos (by omega), shl_one_nat, wrapS32_nat _ (by omega), wrapU_nat, Nat.mod_eq_of_lt h1,
    wrapS32_nat _ (by omega)]

theorem nmask_narrow (w pos : Nat) (hw : w ≤ 16) (hpos : pos < w) :
    wrapS 32 (wrapU w (bnotS (wrapS 32 (shl 1 (wrapS 32 (pos : Int)))))) = ((notU w (2 ^ pos) : Nat) : Int) := by
  have h1 := pow_lt_of_lt hpos
  have h2 := pow_le_16 hw
  have h3 : 2 ^ w - 1 - 2 ^ pos < 2 ^ 31 := by
    generalize 2 ^ w = A at *; generalize 2 ^ pos = B at *; omega
  rw [wrapS32_nat pos (by omega), shl_one_nat, wrapS32_nat _ (by omega), wrapU_bnotS_nat _ _ h1,
    wrapS32_nat _ h3, notU, Nat.mod_eq_of_lt h1]

theorem mask_wide (w pos : Nat) (hpos : pos < w) :
    wrapU w (shl 1 (pos : Int)) = ((2 ^ pos : Nat) : Int) := by
  rw [shl_one_nat, wrapU_nat, Nat.mod_eq_of_lt (pow_lt_of_lt hpos)]

theorem nmask_wide (w pos : Nat) (hpos : pos < w) :
    bnotU w (wrapU w (shl 1 (pos : Int))) = ((notU w (2 ^ pos) : Nat) : Int) := by
  have h1 := pow_lt_of_lt hpos
  rw [mask_wide w pos hpos, bnotU_nat _ _ h1, notU, Nat.mod_eq_of_lt h1]

theorem notU_lt (w e : Nat) : notU w e < 2 ^ w := by
  unfold notU; have := Nat.two_pow_pos w; omega

theorem shiftOk_nat (w k : Nat) (h : k < w) : shiftOk w (k : Int) = true := by
  simp [shiftOk]; omega

theorem assemble {ub : Bool} {m : Except Err Nat} {g : Int} (n : Nat) (hu : ub = true) (hg : g = (n : Int))
    (hm : m = .ok n) : ub = true ∧ m = .ok g.toNat ∧ 0 ≤ g := by
  subst hg; exact ⟨hu, by simpa using hm, Int.natCast_nonneg _⟩

theorem assembleB {ub : Bool} {m : Except Err Bool} {g : Bool} (n : Bool) (hu : ub = true) (hg : g = n)
    (hm : m = .ok n) : ub = true ∧ m = .ok g := by
  subst hg; exact ⟨hu, hm⟩

theorem testBit_unf (w word pos : Nat) (hpos : pos < w) :
    Tetl.C14.testBit w word pos = .ok ((word &&& 2 ^ pos) % 2 ^ w != 0) := by
  unfold Tetl.C14.testBit
  rw [bitPosPre_ok w pos hpos, oneShl_ok w pos hpos]
  simp only [Bool.not_true, Bool.false_eq_true, if_false, ok_bind]
theorem setBit_unf (w word pos : Nat) (hpos : pos < w) :
    Tetl.C14.setBit w word pos = .ok ((word ||| 2 ^ pos) % 2 ^ w) := by
  unfold Tetl.C14.setBit
  rw [bitPosPre_ok w pos hpos, oneShl_ok w pos hpos]
  simp only [Bool.not_true, Bool.false_eq_true, if_false, ok_bind]
theorem resetBit_unf (w word pos : Nat) (hpos : pos < w) :
    Tetl.C14.resetBit w word pos = .ok ((word &&& notU w (2 ^ pos)) % 2 ^ w) := by
  unfold Tetl.C14.resetBit
  rw [bitPosPre_ok w pos hpos, oneShl_ok w pos hpos]
  simp only [Bool.not_true, Bool.false_eq_true, if_false, ok_bind]
theorem flipBit_unf (w word pos : Nat) (hpos : pos < w) :
    Tetl.C14.flipBit w word pos = .ok ((word ^^^ 2 ^ pos) % 2 ^ w) := by
  unfold Tetl.C14.flipBit
  rw [bitPosPre_ok w pos hpos, oneShl_ok w pos hpos]
  simp only [Bool.not_true, Bool.false_eq_true, if_false, ok_bind]
theorem setBitTo_unf (w word pos : Nat) (value : Bool) (hpos : pos < w) :
    Tetl.C14.setBitTo w word pos value
      = .ok (((word &&& notU w (2 ^ pos)) ||| (if value then 2 ^ pos else 0)) % 2 ^ w) := by
  unfold Tetl.C14.setBitTo
  rw [bitPosPre_ok w pos hpos, oneShl_ok w pos hpos]
  have hpw : pos < pw w := Nat.lt_of_lt_of_le hpos (pw_ge w)
  simp only [Bool.not_true, Bool.false_eq_true, if_false, ok_bind, hpw, decide_true]
  rw [boolShl]

/-- common setup of the narrow (8/16-bit, computed in `int`) bodies -/
theorem narrow_facts (w : Nat) (hw : w ≤ 16) (word pos : Int) (hword : 0 ≤ word ∧ word < ((2 ^ w : Nat) : Int))
    (hp : 0 ≤ pos ∧ pos < (w : Int)) :
    ∃ a p : Nat, word = a ∧ pos = p ∧ a < 2 ^ w ∧ p < w ∧ a < 2 ^ 31 ∧ 2 ^ p < 2 ^ 31 ∧ p < 2 ^ 31 ∧ 2 ^ w ≤ 65536 := by
  obtain ⟨a, rfl⟩ := Int.eq_ofNat_of_zero_le hword.1
  obtain ⟨p, rfl⟩ := Int.eq_ofNat_of_zero_le hp.1
  have h2 := pow_le_16 hw
  have hp' : p < w := by omega
  have h1 := pow_lt_of_lt hp'
  exact ⟨a, p, rfl, rfl, by omega, hp', by omega, by omega, by omega, h2⟩

theorem wide_facts (w : Nat) (word pos : Int) (hword : 0 ≤ word ∧ word < ((2 ^ w : Nat) : Int))
    (hp : 0 ≤ pos ∧ pos < (w : Int)) :
    ∃ a p : Nat, word = a ∧ pos = p ∧ a < 2 ^ w ∧ p < w ∧ 2 ^ p < 2 ^ w := by
  obtain ⟨a, rfl⟩ := Int.eq_ofNat_of_zero_le hword.1
  obtain ⟨p, rfl⟩ := Int.eq_ofNat_of_zero_le hp.1
  have hp' : p < w := by omega
  exact ⟨a, p, rfl, rfl, by omega, hp', pow_lt_of_lt hp'⟩

theorem set_bit_narrow (w : Nat) (hw : w ≤ 16) (word pos : Int) (hword : 0 ≤ word ∧ word < ((2 ^ w : Nat) : Int))
    (hp : 0 ≤ pos ∧ pos < (w : Int)) :
    shiftOk 32 (wrapS 32 pos) = true
    ∧ Tetl.C14.setBit w word.toNat pos.toNat
        = .ok (wrapU w (borS 32 (wrapS 32 word) (wrapS 32 (wrapU w (wrapS 32 (shl (1 : Int) (wrapS 32 pos))))))).toNat
    ∧ 0 ≤ wrapU w (borS 32 (wrapS 32 word) (wrapS 32 (wrapU w (wrapS 32 (shl (1 : Int) (wrapS 32 pos)))))) := by
  obtain ⟨a, p, rfl, rfl, ha, hp', ha31, hp31, hpp, h2⟩ := narrow_facts w hw word pos hword hp
  refine assemble ((a ||| 2 ^ p) % 2 ^ w) ?_ ?_ ?_
  · rw [wrapS32_nat p hpp]; exact shiftOk_nat 32 p (by omega)
  · rw [mask_narrow w p hw hp', wrapS32_nat a ha31, borS_nat _ _ ha31 hp31, wrapU_nat]
  · simpa using setBit_unf w a p hp'

theorem set_bit_wide (w : Nat) (word pos : Int) (hword : 0 ≤ word ∧ word < ((2 ^ w : Nat) : Int))
    (hp : 0 ≤ pos ∧ pos < (w : Int)) :
    shiftOk w pos = true
    ∧ Tetl.C14.setBit w word.toNat pos.toNat = .ok (bor word (wrapU w (shl (1 : Int) pos))).toNat
    ∧ 0 ≤ bor word (wrapU w (shl (1 : Int) pos)) := by
  obtain ⟨a, p, rfl, rfl, ha, hp', hpw⟩ := wide_facts w word pos hword hp
  refine assemble ((a ||| 2 ^ p) % 2 ^ w) ?_ ?_ ?_
  · exact shiftOk_nat w p hp'
  · rw [mask_wide w p hp', bor_nat, Nat.mod_eq_of_lt (Nat.or_lt_two_pow ha hpw)]
  · simpa using setBit_unf w a p hp'


theorem ne_zero_nat (n : Nat) : (((n : Nat) : Int) != 0) = (n != 0) := by
  cases n <;> simp [bne] <;> omega

theorem test_bit_narrow (w : Nat) (hw : w ≤ 16) (word pos : Int) (hword : 0 ≤ word ∧ word < ((2 ^ w : Nat) : Int))
    (hp : 0 ≤ pos ∧ pos < (w : Int)) :
    shiftOk 32 (wrapS 32 pos) = true
    ∧ Tetl.C14.testBit w word.toNat pos.toNat
        = .ok ((wrapS 32 (wrapU w (bandS 32 (wrapS 32 word) (wrapS 32 (wrapU w (wrapS 32 (shl (1 : Int) (wrapS 32 pos)))))))) != (0 : Int)) := by
  obtain ⟨a, p, rfl, rfl, ha, hp', ha31, hp31, hpp, h2⟩ := narrow_facts w hw word pos hword hp
  refine assembleB ((a &&& 2 ^ p) % 2 ^ w != 0) ?_ ?_ ?_
  · rw [wrapS32_nat p hpp]; exact shiftOk_nat 32 p (by omega)
  · have := Nat.mod_lt (a &&& 2 ^ p) (Nat.two_pow_pos w)
    rw [mask_narrow w p hw hp', wrapS32_nat a ha31, bandS_nat _ _ ha31 hp31, wrapU_nat, wrapS32_nat _ (by omega),
      ne_zero_nat]
  · simpa using testBit_unf w a p hp'

theorem test_bit_wide (w : Nat) (word pos : Int) (hword : 0 ≤ word ∧ word < ((2 ^ w : Nat) : Int))
    (hp : 0 ≤ pos ∧ pos < (w : Int)) :
    shiftOk w pos = true
    ∧ Tetl.C14.testBit w word.toNat pos.toNat = .ok ((band word (wrapU w (shl (1 : Int) pos))) != (0 : Int)) := by
  obtain ⟨a, p, rfl, rfl, ha, hp', hpw⟩ := wide_facts w word pos hword hp
  refine assembleB ((a &&& 2 ^ p) % 2 ^ w != 0) ?_ ?_ ?_
  · exact shiftOk_nat w p hp'
  · rw [mask_wide w p hp', band_nat, ne_zero_nat, Nat.mod_eq_of_lt (and_lt w a _ ha)]
  · simpa using testBit_unf w a p hp'

theorem reset_bit_narrow (w : Nat) (hw : w ≤ 16) (word pos : Int) (hword : 0 ≤ word ∧ word < ((2 ^ w : Nat) : Int))
    (hp : 0 ≤ pos ∧ pos < (w : Int)) :
    shiftOk 32 (wrapS 32 pos) = true
    ∧ Tetl.C14.resetBit w word.toNat pos.toNat
        = .ok (wrapU w (bandS 32 (wrapS 32 word) (wrapS 32 (wrapU w (bnotS (wrapS 32 (shl (1 : Int) (wrapS 32 pos)))))))).toNat
    ∧ 0 ≤ wrapU w (bandS 32 (wrapS 32 word) (wrapS 32 (wrapU w (bnotS (wrapS 32 (shl (1 : Int) (wrapS 32 pos))))))) := by
  obtain ⟨a, p, rfl, rfl, ha, hp', ha31, hp31, hpp, h2⟩ := narrow_facts w hw word pos hword hp
  refine assemble ((a &&& notU w (2 ^ p)) % 2 ^ w) ?_ ?_ ?_
  · rw [wrapS32_nat p hpp]; exact shiftOk_nat 32 p (by omega)
  · have := notU_lt w (2 ^ p)
    rw [nmask_narrow w p hw hp', wrapS32_nat a ha31, bandS_nat _ _ ha31 (by omega), wrapU_nat]
  · simpa using resetBit_unf w a p hp'

theorem reset_bit_wide (w : Nat) (word pos : Int) (hword : 0 ≤ word ∧ word < ((2 ^ w : Nat) : Int))
    (hp : 0 ≤ pos ∧ pos < (w : Int)) :
    shiftOk w pos = true
    ∧ Tetl.C14.resetBit w word.toNat pos.toNat = .ok (band word (bnotU w (wrapU w (shl (1 : Int) pos)))).toNat
    ∧ 0 ≤ band word (bnotU w (wrapU w (shl (1 : Int) pos))) := by
  obtain ⟨a, p, rfl, rfl, ha, hp', hpw⟩ := wide_facts w word pos hword hp
  refine assemble ((a &&& notU w (2 ^ p)) % 2 ^ w) ?_ ?_ ?_
  · exact shiftOk_nat w p hp'
  · rw [nmask_wide w p hp', band_nat, Nat.mod_eq_of_lt (and_lt w a _ ha)]
  · simpa using resetBit_unf w a p hp'

theorem flip_bit_narrow (w : Nat) (hw : w ≤ 16) (word pos : Int) (hword : 0 ≤ word ∧ word < ((2 ^ w : Nat) : Int))
    (hp : 0 ≤ pos ∧ pos < (w : Int)) :
    shiftOk 32 (wrapS 32 pos) = true
    ∧ Tetl.C14.flipBit w word.toNat pos.toNat
        = .ok (wrapU w (bxorS 32 (wrapS 32 word) (wrapS 32 (wrapU w (wrapS 32 (shl (1 : Int) (wrapS 32 pos))))))).toNat
    ∧ 0 ≤ wrapU w (bxorS 32 (wrapS 32 word) (wrapS 32 (wrapU w (wrapS 32 (shl (1 : Int) (wrapS 32 pos)))))) := by
  obtain ⟨a, p, rfl, rfl, ha, hp', ha31, hp31, hpp, h2⟩ := narrow_facts w hw word pos hword hp
  refine assemble ((a ^^^ 2 ^ p) % 2 ^ w) ?_ ?_ ?_
  · rw [wrapS32_nat p hpp]; exact shiftOk_nat 32 p (by omega)
  · rw [mask_narrow w p hw hp', wrapS32_nat a ha31, bxorS_nat _ _ ha31 hp31, wrapU_nat]
  · simpa using flipBit_unf w a p hp'

theorem flip_bit_wide (w : Nat) (word pos : Int) (hword : 0 ≤ word ∧ word < ((2 ^ w : Nat) : Int))
    (hp : 0 ≤ pos ∧ pos < (w : Int)) :
    shiftOk w pos = true
    ∧ Tetl.C14.flipBit w word.toNat pos.toNat = .ok (bxor word (wrapU w (shl (1 : Int) pos))).toNat
    ∧ 0 ≤ bxor word (wrapU w (shl (1 : Int) pos)) := by
  obtain ⟨a, p, rfl, rfl, ha, hp', hpw⟩ := wide_facts w word pos hword hp
  refine assemble ((a ^^^ 2 ^ p) % 2 ^ w) ?_ ?_ ?_
  · exact shiftOk_nat w p hp'
  · rw [mask_wide w p hp', bxor_nat, Nat.mod_eq_of_lt (Nat.xor_lt_two_pow ha hpw)]
  · simpa using flipBit_unf w a p hp'

theorem ite_nat (v : Bool) : (if v then (1 : Int) else 0) = ((if v then 1 else 0 : Nat) : Int) := by cases v <;> rfl

theorem vshl_wide (w p : Nat) (v : Bool) (hp : p < w) :
    wrapU w (shl (wrapU w (if v then 1 else 0)) (p : Int)) = ((if v then 2 ^ p else 0 : Nat) : Int) := by
  have h1 : 1 < 2 ^ w := Nat.one_lt_two_pow (by omega)
  have h2 := pow_lt_of_lt hp
  rw [ite_nat, wrapU_nat, Nat.mod_eq_of_lt (by split <;> omega), shl_nat, boolShl, wrapU_nat,
    Nat.mod_eq_of_lt (by split <;> omega)]

theorem vshl_narrow (w p : Nat) (v : Bool) (hw : w ≤ 16) (hp : p < w) :
    wrapS 32 (shl (wrapS 32 (wrapU w (if v then 1 else 0))) (wrapS 32 (p : Int))) = ((if v then 2 ^ p else 0 : Nat) : Int) := by
  have h1 : 1 < 2 ^ w := Nat.one_lt_two_pow (by omega)
  have h2 := pow_lt_of_lt hp
  have h3 := pow_le_16 hw
  rw [ite_nat, wrapU_nat, Nat.mod_eq_of_lt (by split <;> omega), wrapS32_nat _ (by split <;> omega),
    wrapS32_nat p (by omega), shl_nat, boolShl, wrapS32_nat _ (by split <;> omega)]

theorem set_bit_to_narrow (w : Nat) (hw : w ≤ 16) (word pos : Int) (value : Bool)
    (hword : 0 ≤ word ∧ word < ((2 ^ w : Nat) : Int)) (hp : 0 ≤ pos ∧ pos < (w : Int)) :
    (shiftOk 32 (wrapS 32 pos) && shiftOk 32 (wrapS 32 pos)) = true
    ∧ Tetl.C14.setBitTo w word.toNat pos.toNat value
        = .ok (wrapU w (borS 32 (bandS 32 (wrapS 32 word) (wrapS 32 (wrapU w (bnotS (wrapS 32 (shl (1 : Int) (wrapS 32 pos))))))) (wrapS 32 (shl (wrapS 32 (wrapU w (if value then 1 else 0))) (wrapS 32 pos))))).toNat
    ∧ 0 ≤ wrapU w (borS 32 (bandS 32 (wrapS 32 word) (wrapS 32 (wrapU w (bnotS (wrapS 32 (shl (1 : Int) (wrapS 32 pos))))))) (wrapS 32 (shl (wrapS 32 (wrapU w (if value then 1 else 0))) (wrapS 32 pos)))) := by
  obtain ⟨a, p, rfl, rfl, ha, hp', ha31, hp31, hpp, h2⟩ := narrow_facts w hw word pos hword hp
  refine assemble (((a &&& notU w (2 ^ p)) ||| (if value then 2 ^ p else 0)) % 2 ^ w) ?_ ?_ ?_
  · rw [wrapS32_nat p hpp, shiftOk_nat 32 p (by omega)]; rfl
  · have := notU_lt w (2 ^ p)
    have h4 : a &&& notU w (2 ^ p) < 2 ^ 31 := Nat.lt_of_le_of_lt Nat.and_le_left ha31
    rw [nmask_narrow w p hw hp', wrapS32_nat a ha31, bandS_nat _ _ ha31 (by omega), vshl_narrow w p value hw hp',
      borS_nat _ _ h4 (by split <;> omega), wrapU_nat]
  · simpa using setBitTo_unf w a p value hp'

theorem set_bit_to_wide (w : Nat) (word pos : Int) (value : Bool)
    (hword : 0 ≤ word ∧ word < ((2 ^ w : Nat) : Int)) (hp : 0 ≤ pos ∧ pos < (w : Int)) :
    (shiftOk w pos && shiftOk w pos) = true
    ∧ Tetl.C14.setBitTo w word.toNat pos.toNat value
        = .ok (bor (band word (bnotU w (wrapU w (shl (1 : Int) pos)))) (wrapU w (shl (wrapU w (if value then 1 else 0)) pos))).toNat
    ∧ 0 ≤ bor (band word (bnotU w (wrapU w (shl (1 : Int) pos)))) (wrapU w (shl (wrapU w (if value then 1 else 0)) pos)) := by
  obtain ⟨a, p, rfl, rfl, ha, hp', hpw⟩ := wide_facts w word pos hword hp
  refine assemble (((a &&& notU w (2 ^ p)) ||| (if value then 2 ^ p else 0)) % 2 ^ w) ?_ ?_ ?_
  · rw [shiftOk_nat w p hp']; rfl
  · have h4 : a &&& notU w (2 ^ p) < 2 ^ w := and_lt w a _ ha
    have h5 : (if value then 2 ^ p else 0) < 2 ^ w := by split <;> omega
    rw [nmask_wide w p hp', band_nat, vshl_wide w p value hp', bor_nat, Nat.mod_eq_of_lt (Nat.or_lt_two_pow h4 h5)]
  · simpa using setBitTo_unf w a p value hp'

/-! ## rotl / rotr -/

theorem beq_zero_nat (n : Nat) : (((n : Nat) : Int) == 0) = (n == 0) := by
  cases n <;> simp [BEq.beq] <;> omega

theorem conv_u32 (s : Int) : u32.conv s = wrapU 32 s := by
  show ITy.conv ⟨32, false⟩ s = _
  rw [convU]; simp [wrapU]

/-- the count of a rotation: `c = unsigned(s)`, `c % d` -/
theorem rot_facts (w : Nat) (hw0 : 0 < w) (s : Int) :
    ∃ C : Nat, wrapU 32 s = C ∧ (u32.conv s).toNat = C ∧ (wrapU 32 s % (w : Int)) = ((C % w : Nat) : Int) ∧ C % w < w := by
  have h0 : 0 ≤ wrapU 32 s := Int.emod_nonneg _ (by simp)
  obtain ⟨C, hC⟩ := Int.eq_ofNat_of_zero_le h0
  refine ⟨C, hC, ?_, ?_, Nat.mod_lt _ hw0⟩
  · rw [conv_u32, hC]; simp
  · rw [hC]; simp

/-- `_ub` of `rotl`/`rotr` (`pw` = width of the promoted left operand) -/
def rotUb (pw w : Nat) (s : Int) : Bool :=
  ((w : Int) != 0) &&
    (!(!(((wrapU 32 s) % (w : Int)) == (0 : Int))) || ((w : Int) != 0)) &&
    (!(!(((wrapU 32 s) % (w : Int)) == (0 : Int))) || (shiftOk pw ((wrapU 32 s) % (w : Int)))) &&
    (!(!(((wrapU 32 s) % (w : Int)) == (0 : Int))) || ((w : Int) != 0)) &&
    (!(!(((wrapU 32 s) % (w : Int)) == (0 : Int))) || (shiftOk pw (wrapU 32 ((w : Int) - ((wrapU 32 s) % (w : Int))))))

theorem sub_count (w r : Nat) (hr : r < w) (h32 : w < 2 ^ 32) :
    wrapU 32 ((w : Int) - ((r : Nat) : Int)) = ((w - r : Nat) : Int) := by
  have e : (w : Int) - (r : Int) = ((w - r : Nat) : Int) := by omega
  rw [e, wrapU_nat, Nat.mod_eq_of_lt (by omega)]

theorem rotUb_true (pw w : Nat) (hw0 : 0 < w) (hle : w ≤ pw) (h32 : w < 2 ^ 32) (s : Int) : rotUb pw w s = true := by
  obtain ⟨C, hC, _, hr, hlt⟩ := rot_facts w hw0 s
  unfold rotUb
  rw [hr, beq_zero_nat, sub_count w _ hlt h32]
  have hw : ((w : Int) != 0) = true := by simp; omega
  rw [hw]
  by_cases h0 : C % w = 0
  · simp [h0]
  · rw [shiftOk_nat pw _ (by omega), shiftOk_nat pw _ (by omega)]; simp

def rotlNarrow (w : Nat) (t s : Int) : Int :=
  (if (((wrapU 32 s) % (w : Int)) == (0 : Int)) then t else (wrapU w (borS 32 (wrapS 32 (shl (wrapS 32 t) ((wrapU 32 s) % (w : Int)))) (shr (wrapS 32 t) (wrapU 32 ((w : Int) - ((wrapU 32 s) % (w : Int))))))))
def rotlWide (w : Nat) (t s : Int) : Int :=
  (if (((wrapU 32 s) % (w : Int)) == (0 : Int)) then t else (bor (wrapU w (shl t ((wrapU 32 s) % (w : Int)))) (shr t (wrapU 32 ((w : Int) - ((wrapU 32 s) % (w : Int)))))))
def rotrNarrow (w : Nat) (t s : Int) : Int :=
  (if (((wrapU 32 s) % (w : Int)) == (0 : Int)) then t else (wrapU w (borS 32 (shr (wrapS 32 t) ((wrapU 32 s) % (w : Int))) (wrapS 32 (shl (wrapS 32 t) (wrapU 32 ((w : Int) - ((wrapU 32 s) % (w : Int)))))))))
def rotrWide (w : Nat) (t s : Int) : Int :=
  (if (((wrapU 32 s) % (w : Int)) == (0 : Int)) then t else (bor (shr t ((wrapU 32 s) % (w : Int))) (wrapU w (shl t (wrapU 32 ((w : Int) - ((wrapU 32 s) % (w : Int))))))))

theorem rotl_unf (w t : Nat) (s : Int) (C : Nat) (hC : (u32.conv s).toNat = C) :
    Tetl.C14.rotl w t s = .ok (if C % w == 0 then t else ((t <<< (C % w)) ||| (t >>> (w - C % w))) % 2 ^ w) := by
  unfold Tetl.C14.rotl; simp only [hC]; split <;> rfl
theorem rotr_unf (w t : Nat) (s : Int) (C : Nat) (hC : (u32.conv s).toNat = C) :
    Tetl.C14.rotr w t s = .ok (if C % w == 0 then t else ((t >>> (C % w)) ||| (t <<< (w - C % w))) % 2 ^ w) := by
  unfold Tetl.C14.rotr; simp only [hC]; split <;> rfl

/-- `t << k` computed in `int` for a narrow `t`: no wrap -/
theorem shl_lt_31 (w t k : Nat) (hw : w ≤ 16) (ht : t < 2 ^ w) (hk : k < w) : t <<< k < 2 ^ 31 := by
  rw [Nat.shiftLeft_eq]
  have h1 : 2 ^ k ≤ 2 ^ 15 := Nat.pow_le_pow_right (by omega) (by omega)
  have h2 := pow_le_16 hw
  calc t * 2 ^ k ≤ t * 2 ^ 15 := Nat.mul_le_mul_left _ h1
    _ < 2 ^ 31 := by omega

theorem rotl_narrow (w : Nat) (hw0 : 0 < w) (hw : w ≤ 16) (t s : Int) (ht : 0 ≤ t ∧ t < ((2 ^ w : Nat) : Int)) :
    rotUb 32 w s = true ∧ Tetl.C14.rotl w t.toNat s = .ok (rotlNarrow w t s).toNat ∧ 0 ≤ rotlNarrow w t s := by
  obtain ⟨a, rfl⟩ := Int.eq_ofNat_of_zero_le ht.1
  obtain ⟨C, hC, hC', hr, hlt⟩ := rot_facts w hw0 s
  have h2 := pow_le_16 hw
  have ha : a < 2 ^ w := by omega
  refine assemble (if C % w == 0 then a else ((a <<< (C % w)) ||| (a >>> (w - C % w))) % 2 ^ w)
    (rotUb_true 32 w hw0 (by omega) (by omega) s) ?_ (by simpa using rotl_unf w a s C hC')
  unfold rotlNarrow
  rw [hr, beq_zero_nat, sub_count w _ hlt (by omega)]
  by_cases h0 : C % w = 0
  · simp [h0]
  · have hs : a >>> (w - C % w) < 2 ^ 31 := Nat.lt_of_le_of_lt (Nat.shiftRight_le _ _) (by omega)
    have hl := shl_lt_31 w a (C % w) hw ha hlt
    rw [wrapS32_nat a (by omega), shl_nat, shr_nat, wrapS32_nat _ hl, borS_nat _ _ hl hs, wrapU_nat]
    simp [h0]

theorem rotr_narrow (w : Nat) (hw0 : 0 < w) (hw : w ≤ 16) (t s : Int) (ht : 0 ≤ t ∧ t < ((2 ^ w : Nat) : Int)) :
    rotUb 32 w s = true ∧ Tetl.C14.rotr w t.toNat s = .ok (rotrNarrow w t s).toNat ∧ 0 ≤ rotrNarrow w t s := by
  obtain ⟨a, rfl⟩ := Int.eq_ofNat_of_zero_le ht.1
  obtain ⟨C, hC, hC', hr, hlt⟩ := rot_facts w hw0 s
  have h2 := pow_le_16 hw
  have ha : a < 2 ^ w := by omega
  refine assemble (if C % w == 0 then a else ((a >>> (C % w)) ||| (a <<< (w - C % w))) % 2 ^ w)
    (rotUb_true 32 w hw0 (by omega) (by omega) s) ?_ (by simpa using rotr_unf w a s C hC')
  unfold rotrNarrow
  rw [hr, beq_zero_nat, sub_count w _ hlt (by omega)]
  by_cases h0 : C % w = 0
  · simp [h0]
  · have hs : a >>> (C % w) < 2 ^ 31 := Nat.lt_of_le_of_lt (Nat.shiftRight_le _ _) (by omega)
    have hl := shl_lt_31 w a (w - C % w) hw ha (by omega)
    rw [wrapS32_nat a (by omega), shl_nat, shr_nat, wrapS32_nat _ hl, borS_nat _ _ hs hl, wrapU_nat]
    simp [h0]

theorem rotl_wide (w : Nat) (hw0 : 0 < w) (h32 : w < 2 ^ 32) (t s : Int) (ht : 0 ≤ t ∧ t < ((2 ^ w : Nat) : Int)) :
    rotUb w w s = true ∧ Tetl.C14.rotl w t.toNat s = .ok (rotlWide w t s).toNat ∧ 0 ≤ rotlWide w t s := by
  obtain ⟨a, rfl⟩ := Int.eq_ofNat_of_zero_le ht.1
  obtain ⟨C, hC, hC', hr, hlt⟩ := rot_facts w hw0 s
  have ha : a < 2 ^ w := by omega
  refine assemble (if C % w == 0 then a else ((a <<< (C % w)) ||| (a >>> (w - C % w))) % 2 ^ w)
    (rotUb_true w w hw0 (by omega) h32 s) ?_ (by simpa using rotl_unf w a s C hC')
  unfold rotlWide
  rw [hr, beq_zero_nat, sub_count w _ hlt h32]
  by_cases h0 : C % w = 0
  · simp [h0]
  · have hs : a >>> (w - C % w) < 2 ^ w := Nat.lt_of_le_of_lt (Nat.shiftRight_le _ _) ha
    rw [shl_nat, shr_nat, wrapU_nat, bor_nat, Nat.or_mod_two_pow, Nat.mod_eq_of_lt hs]
    simp [h0]

theorem rotr_wide (w : Nat) (hw0 : 0 < w) (h32 : w < 2 ^ 32) (t s : Int) (ht : 0 ≤ t ∧ t < ((2 ^ w : Nat) : Int)) :
    rotUb w w s = true ∧ Tetl.C14.rotr w t.toNat s = .ok (rotrWide w t s).toNat ∧ 0 ≤ rotrWide w t s := by
  obtain ⟨a, rfl⟩ := Int.eq_ofNat_of_zero_le ht.1
  obtain ⟨C, hC, hC', hr, hlt⟩ := rot_facts w hw0 s
  have ha : a < 2 ^ w := by omega
  refine assemble (if C % w == 0 then a else ((a >>> (C % w)) ||| (a <<< (w - C % w))) % 2 ^ w)
    (rotUb_true w w hw0 (by omega) h32 s) ?_ (by simpa using rotr_unf w a s C hC')
  unfold rotrWide
  rw [hr, beq_zero_nat, sub_count w _ hlt h32]
  by_cases h0 : C % w = 0
  · simp [h0]
  · have hs : a >>> (C % w) < 2 ^ w := Nat.lt_of_le_of_lt (Nat.shiftRight_le _ _) ha
    rw [shl_nat, shr_nat, wrapU_nat, bor_nat, Nat.or_mod_two_pow, Nat.mod_eq_of_lt hs]
    simp [h0]


/-! ## bit_width, bit_floor, bit_ceil, has_single_bit -/

def bitWidthG (w : Nat) (x : Int) : Int := (w : Int) - GenExt.countlZero w x
def bitWidthUb (w : Nat) (x : Int) : Bool :=
  GenExt.countlZeroOk w x && inRangeS 32 ((w : Int) - GenExt.countlZero w x)

theorem inRangeS32_nat (n : Nat) (h : n < 2 ^ 31) : inRangeS 32 (n : Int) = true := by
  simp [inRangeS]; omega

theorem bitWidthG_eq (w n : Nat) (hw : 1 ≤ w) (h31 : w < 2 ^ 31) (hn : n < 2 ^ w) :
    bitWidthG w (n : Int) = ((Spec.bitWidth n : Nat) : Int) ∧ bitWidthUb w (n : Int) = true := by
  have hb := (bw_le n w).2 hn
  have hc := Props.countlZero_eq w n hw hn
  have e : (w : Int) - GenExt.countlZero w (n : Int) = ((Spec.bitWidth n : Nat) : Int) := by
    simp only [GenExt.countlZero, Int.toNat_natCast, hc, GenExt.val, Spec.countlZero]; omega
  refine ⟨e, ?_⟩
  unfold bitWidthUb
  rw [e, inRangeS32_nat _ (by omega)]
  simp [GenExt.countlZeroOk, hc, GenExt.isOk]

theorem bw_pos (n : Nat) (h : n ≠ 0) : Spec.bitWidth n = Nat.log2 n + 1 := by unfold Spec.bitWidth; simp [h]

def bitFloorNarrow (w : Nat) (x : Int) : Int :=
  (if ((wrapS 32 x) != (0 : Int)) then (wrapU w (wrapS 32 (shl (1 : Int) (wrapS 32 (wrapU w ((wrapS 32 (wrapU w (bitWidthG w x))) - (1 : Int))))))) else (0 : Int))
def bitFloorNarrowUb (w : Nat) (x : Int) : Bool :=
  (!((wrapS 32 x) != (0 : Int)) || (bitWidthUb w x)) &&
    (!((wrapS 32 x) != (0 : Int)) || (inRangeS 32 ((wrapS 32 (wrapU w (bitWidthG w x))) - (1 : Int)))) &&
    (!((wrapS 32 x) != (0 : Int)) || (shiftOk 32 (wrapS 32 (wrapU w ((wrapS 32 (wrapU w (bitWidthG w x))) - (1 : Int))))))
def bitFloorWide (w : Nat) (x : Int) : Int :=
  (if (x != (0 : Int)) then (wrapU w (shl (1 : Int) (wrapU w ((wrapU w (bitWidthG w x)) - (1 : Int))))) else (0 : Int))
def bitFloorWideUb (w : Nat) (x : Int) : Bool :=
  (!(x != (0 : Int)) || (bitWidthUb w x)) &&
    (!(x != (0 : Int)) || (shiftOk w (wrapU w ((wrapU w (bitWidthG w x)) - (1 : Int)))))

theorem bit_floor_narrow (w : Nat) (hw1 : 1 ≤ w) (hw : w ≤ 16) (x : Int) (hx : 0 ≤ x ∧ x < ((2 ^ w : Nat) : Int)) :
    bitFloorNarrowUb w x = true ∧ Tetl.C14.bitFloor w x.toNat = .ok (bitFloorNarrow w x).toNat ∧ 0 ≤ bitFloorNarrow w x := by
  obtain ⟨n, rfl⟩ := Int.eq_ofNat_of_zero_le hx.1
  have h2 := pow_le_16 hw
  have hn : n < 2 ^ w := by omega
  obtain ⟨hbw, hbu⟩ := bitWidthG_eq w n hw1 (by omega) hn
  have hb := (bw_le n w).2 hn
  have hwl : w < 2 ^ w := Nat.lt_two_pow_self
  unfold bitFloorNarrowUb bitFloorNarrow
  rw [hbw, hbu, wrapS32_nat n (by omega), ne_zero_nat]
  by_cases h0 : n = 0
  · subst h0
    refine assemble 0 (by simp) (by simp) (by simpa [Spec.bitFloor] using Props.bitFloor_eq w 0 hw1 hn)
  · have hb1 := bw_pos n h0
    have hl : Nat.log2 n < w := by omega
    have hp := pow_lt_of_lt hl
    have e : ((Spec.bitWidth n : Nat) : Int) - 1 = ((Nat.log2 n : Nat) : Int) := by omega
    have hsh : wrapS 32 (wrapU w (wrapS 32 (wrapU w ((Spec.bitWidth n : Nat) : Int)) - 1)) = ((Nat.log2 n : Nat) : Int) := by
      rw [wrapU_nat, Nat.mod_eq_of_lt (by omega), wrapS32_nat _ (by omega), e, wrapU_nat, Nat.mod_eq_of_lt (by omega),
        wrapS32_nat _ (by omega)]
    have hin : inRangeS 32 (wrapS 32 (wrapU w ((Spec.bitWidth n : Nat) : Int)) - 1) = true := by
      rw [wrapU_nat, Nat.mod_eq_of_lt (by omega), wrapS32_nat _ (by omega), e]; exact inRangeS32_nat _ (by omega)
    rw [hsh, hin, shiftOk_nat 32 _ (by omega), shl_one_nat, wrapS32_nat _ (by omega), wrapU_nat, Nat.mod_eq_of_lt hp]
    refine assemble (2 ^ Nat.log2 n) (by simp) (by simp [h0]) (by simpa [Spec.bitFloor, h0] using Props.bitFloor_eq w n hw1 hn)

theorem bit_floor_wide (w : Nat) (hw1 : 1 ≤ w) (x : Int) (hx : 0 ≤ x ∧ x < ((2 ^ w : Nat) : Int)) (h31 : w < 2 ^ 31) :
    bitFloorWideUb w x = true ∧ Tetl.C14.bitFloor w x.toNat = .ok (bitFloorWide w x).toNat ∧ 0 ≤ bitFloorWide w x := by
  obtain ⟨n, rfl⟩ := Int.eq_ofNat_of_zero_le hx.1
  have hn : n < 2 ^ w := by omega
  obtain ⟨hbw, hbu⟩ := bitWidthG_eq w n hw1 h31 hn
  have hb := (bw_le n w).2 hn
  have hwl : w < 2 ^ w := Nat.lt_two_pow_self
  unfold bitFloorWideUb bitFloorWide
  rw [hbw, hbu, ne_zero_nat]
  by_cases h0 : n = 0
  · subst h0
    refine assemble 0 (by simp) (by simp) (by simpa [Spec.bitFloor] using Props.bitFloor_eq w 0 hw1 hn)
  · have hb1 := bw_pos n h0
    have hl : Nat.log2 n < w := by omega
    have hp := pow_lt_of_lt hl
    have e : ((Spec.bitWidth n : Nat) : Int) - 1 = ((Nat.log2 n : Nat) : Int) := by omega
    have hsh : wrapU w (wrapU w ((Spec.bitWidth n : Nat) : Int) - 1) = ((Nat.log2 n : Nat) : Int) := by
      rw [wrapU_nat, Nat.mod_eq_of_lt (by omega), e, wrapU_nat, Nat.mod_eq_of_lt (by omega)]
    rw [hsh, shiftOk_nat w _ hl, shl_one_nat, wrapU_nat, Nat.mod_eq_of_lt hp]
    refine assemble (2 ^ Nat.log2 n) (by simp) (by simp [h0]) (by simpa [Spec.bitFloor, h0] using Props.bitFloor_eq w n hw1 hn)

def bitCeilNarrow (w : Nat) (x : Int) : Int :=
  (if (decide ((wrapU 32 x) ≤ (1 : Int))) then (1 : Int) else (wrapU w (shr (wrapU 32 (shl (1 : Int) ((bitWidthG w (wrapU w (wrapU 32 ((wrapU 32 x) - (1 : Int))))) + ((32 : Int) - (w : Int))))) ((32 : Int) - (w : Int)))))
def bitCeilNarrowUb (w : Nat) (x : Int) : Bool :=
  (!(!(decide ((wrapU 32 x) ≤ (1 : Int)))) || (inRangeS 32 ((32 : Int) - (w : Int)))) &&
    (!(!(decide ((wrapU 32 x) ≤ (1 : Int)))) || (bitWidthUb w (wrapU w (wrapU 32 ((wrapU 32 x) - (1 : Int)))))) &&
    (!(!(decide ((wrapU 32 x) ≤ (1 : Int)))) || (inRangeS 32 ((bitWidthG w (wrapU w (wrapU 32 ((wrapU 32 x) - (1 : Int))))) + ((32 : Int) - (w : Int))))) &&
    (!(!(decide ((wrapU 32 x) ≤ (1 : Int)))) || (shiftOk 32 ((bitWidthG w (wrapU w (wrapU 32 ((wrapU 32 x) - (1 : Int))))) + ((32 : Int) - (w : Int))))) &&
    (!(!(decide ((wrapU 32 x) ≤ (1 : Int)))) || (shiftOk 32 ((32 : Int) - (w : Int))))
def bitCeilWide (w : Nat) (x : Int) : Int :=
  (if (decide (x ≤ (1 : Int))) then (1 : Int) else (wrapU w (shl (1 : Int) (bitWidthG w (wrapU w (x - (1 : Int)))))))
def bitCeilWideUb (w : Nat) (x : Int) : Bool :=
  (!(!(decide (x ≤ (1 : Int)))) || (bitWidthUb w (wrapU w (x - (1 : Int))))) &&
    (!(!(decide (x ≤ (1 : Int)))) || (shiftOk w (bitWidthG w (wrapU w (x - (1 : Int))))))

theorem two_pow_split_nat (w : Nat) (hw : 1 ≤ w) : 2 ^ w = 2 * 2 ^ (w - 1) := by
  obtain ⟨k, rfl⟩ : ∃ k, w = k + 1 := ⟨w - 1, by omega⟩
  rw [Nat.pow_succ]; simp; omega

theorem bit_ceil_narrow (w : Nat) (hw1 : 1 ≤ w) (hw : w ≤ 16) (x : Int) (hx : 0 ≤ x ∧ x ≤ ((2 ^ (w - 1) : Nat) : Int)) :
    bitCeilNarrowUb w x = true ∧ Tetl.C14.bitCeil w x.toNat = .ok (bitCeilNarrow w x).toNat ∧ 0 ≤ bitCeilNarrow w x := by
  obtain ⟨n, rfl⟩ := Int.eq_ofNat_of_zero_le hx.1
  have h2 := pow_le_16 hw
  have hsp := two_pow_split_nat w hw1
  have hn : n ≤ 2 ^ (w - 1) := by omega
  have hm := Props.bitCeil_eq w n hw1 hn
  unfold bitCeilNarrowUb bitCeilNarrow
  have hx32 : wrapU 32 (n : Int) = n := by rw [wrapU_nat, Nat.mod_eq_of_lt (by omega)]
  rw [hx32]
  by_cases h1 : n ≤ 1
  · have : ((n : Int) ≤ 1) := by omega
    refine assemble 1 (by simp [this]) (by simp [this]) (by simpa [Spec.bitCeil, h1] using hm)
  · have hd : decide ((n : Int) ≤ 1) = false := by simp; omega
    have e1 : (n : Int) - 1 = ((n - 1 : Nat) : Int) := by omega
    have hx1 : wrapU w (wrapU 32 ((n : Int) - 1)) = ((n - 1 : Nat) : Int) := by
      rw [e1, wrapU_nat, Nat.mod_eq_of_lt (by omega), wrapU_nat, Nat.mod_eq_of_lt (by omega)]
    obtain ⟨hbw, hbu⟩ := bitWidthG_eq w (n - 1) hw1 (by omega) (by omega)
    have hb : Spec.bitWidth (n - 1) ≤ w - 1 := (bw_le (n - 1) (w - 1)).2 (by omega)
    have hb1 := bw_pos (n - 1) (by omega)
    generalize Spec.bitWidth (n - 1) = b at *
    have eo : (32 : Int) - (w : Int) = ((32 - w : Nat) : Int) := by omega
    have es : ((b : Nat) : Int) + ((32 - w : Nat) : Int) = ((b + (32 - w) : Nat) : Int) := by omega
    have hlt : b + (32 - w) < 32 := by omega
    have hbw' : b < w := by omega
    rw [hd, hx1, hbw, hbu, eo, es, inRangeS32_nat _ (by omega), inRangeS32_nat _ (by omega), shiftOk_nat 32 _ hlt,
      shiftOk_nat 32 _ (by omega), shl_one_nat, wrapU_nat, Nat.mod_eq_of_lt (pow_lt_of_lt hlt), shr_nat,
      Nat.shiftRight_eq_div_pow, Nat.pow_add, Nat.mul_div_cancel _ (Nat.pow_pos (by decide)), wrapU_nat,
      Nat.mod_eq_of_lt (pow_lt_of_lt hbw')]
    refine assemble (2 ^ b) (by simp) (by simp) (by simpa [Spec.bitCeil, h1, hb1] using hm)

theorem bit_ceil_wide (w : Nat) (hw1 : 1 ≤ w) (h31 : w < 2 ^ 31) (x : Int) (hx : 0 ≤ x ∧ x ≤ ((2 ^ (w - 1) : Nat) : Int)) :
    bitCeilWideUb w x = true ∧ Tetl.C14.bitCeil w x.toNat = .ok (bitCeilWide w x).toNat ∧ 0 ≤ bitCeilWide w x := by
  obtain ⟨n, rfl⟩ := Int.eq_ofNat_of_zero_le hx.1
  have hsp := two_pow_split_nat w hw1
  have hn : n ≤ 2 ^ (w - 1) := by omega
  have hm := Props.bitCeil_eq w n hw1 hn
  unfold bitCeilWideUb bitCeilWide
  by_cases h1 : n ≤ 1
  · have : ((n : Int) ≤ 1) := by omega
    refine assemble 1 (by simp [this]) (by simp [this]) (by simpa [Spec.bitCeil, h1] using hm)
  · have hd : decide ((n : Int) ≤ 1) = false := by simp; omega
    have e1 : (n : Int) - 1 = ((n - 1 : Nat) : Int) := by omega
    have hx1 : wrapU w ((n : Int) - 1) = ((n - 1 : Nat) : Int) := by
      rw [e1, wrapU_nat, Nat.mod_eq_of_lt (by omega)]
    obtain ⟨hbw, hbu⟩ := bitWidthG_eq w (n - 1) hw1 h31 (by omega)
    have hb : Spec.bitWidth (n - 1) ≤ w - 1 := (bw_le (n - 1) (w - 1)).2 (by omega)
    have hb1 := bw_pos (n - 1) (by omega)
    generalize Spec.bitWidth (n - 1) = b at *
    have hbw' : b < w := by omega
    rw [hd, hx1, hbw, hbu, shiftOk_nat w _ hbw', shl_one_nat, wrapU_nat, Nat.mod_eq_of_lt (pow_lt_of_lt hbw')]
    refine assemble (2 ^ b) (by simp) (by simp) (by simpa [Spec.bitCeil, h1, hb1] using hm)

theorem has_single_bit_gen (w : Nat) (x : Int) (hx : 0 ≤ x ∧ x < ((2 ^ w : Nat) : Int)) :
    GenExt.popcountOk w x = true ∧ Tetl.C14.hasSingleBit w x.toNat = .ok (GenExt.popcount w x == (1 : Int)) := by
  obtain ⟨n, rfl⟩ := Int.eq_ofNat_of_zero_le hx.1
  have hn : n < 2 ^ w := by omega
  have hc := Props.popcount_eq w n hn
  unfold Tetl.C14.hasSingleBit GenExt.popcountOk GenExt.popcount
  simp only [Int.toNat_natCast, hc, GenExt.val, GenExt.isOk, ok_bind, true_and]
  congr 1
  rw [Bool.eq_iff_iff]; simp; omega


/-! ## byteswap_fallback -/

theorem shr_lt {w : Nat} (v k : Nat) (h : v < 2 ^ w) : v >>> k < 2 ^ w := Nat.lt_of_le_of_lt (Nat.shiftRight_le _ _) h
theorem mod_lt_pow (v w : Nat) : v % 2 ^ w < 2 ^ w := Nat.mod_lt _ (Nat.two_pow_pos w)
theorem and_lt_l {w : Nat} (x y : Nat) (h : x < 2 ^ w) : x &&& y < 2 ^ w := Nat.lt_of_le_of_lt Nat.and_le_left h

theorem byteswap16_gen (val : Int) (hv : 0 ≤ val ∧ val < 65536) :
    (shiftOk 32 (8 : Int) && shiftOk 32 (8 : Int)) = true
    ∧ Tetl.C14.byteswapFallback 16 val.toNat
        = .ok (wrapU 16 (borS 32 (wrapS 32 (shl (wrapS 32 val) (8 : Int))) (shr (wrapS 32 val) (8 : Int)))).toNat
    ∧ 0 ≤ wrapU 16 (borS 32 (wrapS 32 (shl (wrapS 32 val) (8 : Int))) (shr (wrapS 32 val) (8 : Int))) := by
  obtain ⟨n, rfl⟩ := Int.eq_ofNat_of_zero_le hv.1
  have hn : n < 65536 := by omega
  refine assemble (bswap16 n) (by decide) ?_ (by simp [byteswapFallback])
  show wrapU 16 (borS 32 (wrapS 32 (shl (wrapS 32 (n : Int)) ((8 : Nat) : Int))) (shr (wrapS 32 (n : Int)) ((8 : Nat) : Int))) = _
  have hl : n <<< 8 < 2 ^ 31 := by rw [Nat.shiftLeft_eq]; omega
  have hr : n >>> 8 < 2 ^ 31 := Nat.lt_of_le_of_lt (Nat.shiftRight_le _ _) (by omega)
  rw [wrapS32_nat n (by omega), shl_nat, shr_nat, wrapS32_nat _ hl, borS_nat _ _ hl hr, wrapU_nat]; rfl

theorem byteswap32_gen (val : Int) (hv : 0 ≤ val ∧ val < 4294967296) :
    (shiftOk 32 (24 : Int) && shiftOk 32 (8 : Int) && shiftOk 32 (8 : Int) && shiftOk 32 (24 : Int)) = true
    ∧ Tetl.C14.byteswapFallback 32 val.toNat
        = .ok (bor (bor (bor (wrapU 32 (shl val (24 : Int))) (band (wrapU 32 (shl val (8 : Int))) (16711680 : Int))) (band (shr val (8 : Int)) (65280 : Int))) (shr val (24 : Int))).toNat
    ∧ 0 ≤ bor (bor (bor (wrapU 32 (shl val (24 : Int))) (band (wrapU 32 (shl val (8 : Int))) (16711680 : Int))) (band (shr val (8 : Int)) (65280 : Int))) (shr val (24 : Int)) := by
  obtain ⟨n, rfl⟩ := Int.eq_ofNat_of_zero_le hv.1
  have hn : n < 2 ^ 32 := by omega
  refine assemble (bswap32 n) (by decide) ?_ (by simp [byteswapFallback])
  show bor (bor (bor (wrapU 32 (shl (n : Int) ((24 : Nat) : Int))) (band (wrapU 32 (shl (n : Int) ((8 : Nat) : Int))) ((16711680 : Nat) : Int))) (band (shr (n : Int) ((8 : Nat) : Int)) ((65280 : Nat) : Int))) (shr (n : Int) ((24 : Nat) : Int)) = _
  simp only [shl_nat, shr_nat, wrapU_nat, band_nat, bor_nat]
  unfold bswap32
  congr 1; symm; apply Nat.mod_eq_of_lt
  exact Nat.or_lt_two_pow (Nat.or_lt_two_pow (Nat.or_lt_two_pow (mod_lt_pow _ _) (and_lt_l _ _ (mod_lt_pow _ _)))
    (and_lt_l _ _ (shr_lt _ _ hn))) (shr_lt _ _ hn)

theorem byteswap64_gen (val : Int) (hv : 0 ≤ val ∧ val < 18446744073709551616) :
    (shiftOk 64 (56 : Int) && shiftOk 64 (40 : Int) && shiftOk 64 (24 : Int) && shiftOk 64 (8 : Int) &&
      shiftOk 64 (8 : Int) && shiftOk 64 (24 : Int) && shiftOk 64 (40 : Int) && shiftOk 64 (56 : Int)) = true
    ∧ Tetl.C14.byteswapFallback 64 val.toNat
        = .ok (bor (bor (bor (bor (bor (bor (bor (wrapU 64 (shl val (56 : Int))) (band (wrapU 64 (shl val (40 : Int))) (71776119061217280 : Int))) (band (wrapU 64 (shl val (24 : Int))) (280375465082880 : Int))) (band (wrapU 64 (shl val (8 : Int))) (1095216660480 : Int))) (band (shr val (8 : Int)) (4278190080 : Int))) (band (shr val (24 : Int)) (16711680 : Int))) (band (shr val (40 : Int)) (65280 : Int))) (shr val (56 : Int))).toNat
    ∧ 0 ≤ bor (bor (bor (bor (bor (bor (bor (wrapU 64 (shl val (56 : Int))) (band (wrapU 64 (shl val (40 : Int))) (71776119061217280 : Int))) (band (wrapU 64 (shl val (24 : Int))) (280375465082880 : Int))) (band (wrapU 64 (shl val (8 : Int))) (1095216660480 : Int))) (band (shr val (8 : Int)) (4278190080 : Int))) (band (shr val (24 : Int)) (16711680 : Int))) (band (shr val (40 : Int)) (65280 : Int))) (shr val (56 : Int)) := by
  obtain ⟨n, rfl⟩ := Int.eq_ofNat_of_zero_le hv.1
  have hn : n < 2 ^ 64 := by omega
  refine assemble (bswap64 n) (by decide) ?_ (by simp [byteswapFallback])
  show bor (bor (bor (bor (bor (bor (bor (wrapU 64 (shl (n : Int) ((56 : Nat) : Int))) (band (wrapU 64 (shl (n : Int) ((40 : Nat) : Int))) ((71776119061217280 : Nat) : Int))) (band (wrapU 64 (shl (n : Int) ((24 : Nat) : Int))) ((280375465082880 : Nat) : Int))) (band (wrapU 64 (shl (n : Int) ((8 : Nat) : Int))) ((1095216660480 : Nat) : Int))) (band (shr (n : Int) ((8 : Nat) : Int)) ((4278190080 : Nat) : Int))) (band (shr (n : Int) ((24 : Nat) : Int)) ((16711680 : Nat) : Int))) (band (shr (n : Int) ((40 : Nat) : Int)) ((65280 : Nat) : Int))) (shr (n : Int) ((56 : Nat) : Int)) = _
  simp only [shl_nat, shr_nat, wrapU_nat, band_nat, bor_nat]
  unfold bswap64
  congr 1; symm; apply Nat.mod_eq_of_lt
  exact Nat.or_lt_two_pow (Nat.or_lt_two_pow (Nat.or_lt_two_pow (Nat.or_lt_two_pow (Nat.or_lt_two_pow
    (Nat.or_lt_two_pow (Nat.or_lt_two_pow (mod_lt_pow _ _) (and_lt_l _ _ (mod_lt_pow _ _)))
      (and_lt_l _ _ (mod_lt_pow _ _))) (and_lt_l _ _ (mod_lt_pow _ _))) (and_lt_l _ _ (shr_lt _ _ hn)))
    (and_lt_l _ _ (shr_lt _ _ hn))) (and_lt_l _ _ (shr_lt _ _ hn))) (shr_lt _ _ hn)


end Tetl.C14.GenBitLemmas
