/-
C14 — helper lemmas for set_bit, reset_bit, flip_bit.
-/
import TetlProofs.C14.Lemmas
namespace Tetl.C14
open Tetl

theorem specTestBit_eq (x p : Nat) : Spec.testBit x p = x.testBit p := by
  unfold Spec.testBit
  rw [Nat.testBit_eq_decide_div_mod_eq]
  by_cases h : x / 2^p % 2 = 1 <;> simp [h]

/-- a word whose bit `p` is clear: or-ing the bit in adds `2^p` -/
theorem or_two_pow_of_clear (x p : Nat) (h : x.testBit p = false) : x ||| 2^p = x + 2^p := by
  -- x = 2^(p+1) * a + lo with lo < 2^p
  have hlo : x % 2^(p+1) < 2^p := by
    rw [Nat.testBit_eq_decide_div_mod_eq] at h
    have h2 : x / 2^p % 2 = 0 := by
      have : ¬ (x / 2^p % 2 = 1) := by simpa using h
      omega
    have hd : x % 2^(p+1) = 2^p * (x / 2^p % 2) + x % 2^p := by
      rw [Nat.pow_succ, Nat.mod_mul]; omega
    rw [hd, h2]
    have := Nat.mod_lt x (Nat.pow_pos (n := p) (by decide : 0 < 2))
    omega
  have hx : x = 2^(p+1) * (x / 2^(p+1)) + x % 2^(p+1) := (Nat.div_add_mod x (2^(p+1))).symm
  generalize x / 2^(p+1) = a at hx
  generalize x % 2^(p+1) = lo at hx hlo
  have hlo2 : lo + 2^p < 2^(p+1) := by rw [Nat.pow_succ]; omega
  have hlo1 : lo < 2^(p+1) := by omega
  subst hx
  rw [Nat.two_pow_add_eq_or_of_lt hlo1, Nat.or_assoc, Nat.or_two_pow_eq_add_of_lt hlo,
    ← Nat.two_pow_add_eq_or_of_lt hlo2, ← Nat.two_pow_add_eq_or_of_lt hlo1, Nat.add_assoc]

theorem xor_two_pow_of_clear (x p : Nat) (h : x.testBit p = false) : x ^^^ 2^p = x + 2^p := by
  rw [← or_two_pow_of_clear x p h]
  apply Nat.eq_of_testBit_eq
  intro i
  rw [Nat.testBit_xor, Nat.testBit_or, Nat.testBit_two_pow]
  by_cases hi : p = i
  · subst hi; simp [h]
  · simp [hi]

/-- bits of the mask `UInt(~(UInt(1) << pos))` -/
theorem notU_two_pow_testBit (w p i : Nat) (hp : p < w) :
    (notU w (2^p)).testBit i = (decide (i < w) && !decide (p = i)) := by
  have hlt : 2^p < 2^w := Nat.pow_lt_pow_right (by decide) hp
  unfold notU
  rw [Nat.mod_eq_of_lt hlt]
  have : 2^w - 1 - 2^p = 2^w - (2^p + 1) := by omega
  rw [this, Nat.testBit_two_pow_sub_succ hlt, Nat.testBit_two_pow]

theorem testBit_high (v w j : Nat) (hv : v < 2^w) (hj : w ≤ j) : v.testBit j = false :=
  Nat.testBit_lt_two_pow (Nat.lt_of_lt_of_le hv (Nat.pow_le_pow_right (by decide) hj))

theorem and_notU_of_clear (w x p : Nat) (hx : x < 2^w) (hp : p < w) (h : x.testBit p = false) :
    x &&& notU w (2^p) = x := by
  apply Nat.eq_of_testBit_eq
  intro i
  rw [Nat.testBit_and, notU_two_pow_testBit w p i hp]
  by_cases hi : p = i
  · subst hi; simp [h]
  · by_cases hiw : i < w
    · simp [hi, hiw]
    · simp [testBit_high x w i hx (by omega)]

/-- a word whose bit `p` is set is `y + 2^p` for a `y` whose bit `p` is clear -/
theorem split_of_set (x p : Nat) (h : x.testBit p = true) :
    2^p ≤ x ∧ (x - 2^p).testBit p = false := by
  have hge := Nat.ge_two_pow_of_testBit h
  refine ⟨hge, ?_⟩
  have h2 := Nat.testBit_two_pow_add_eq (x - 2^p) p
  have : 2^p + (x - 2^p) = x := by omega
  rw [this, h] at h2
  cases hb : (x - 2^p).testBit p
  · rfl
  · rw [hb] at h2; simp at h2

theorem or_two_pow_of_set (x p : Nat) (h : x.testBit p = true) : x ||| 2^p = x := by
  obtain ⟨hge, hy⟩ := split_of_set x p h
  have hx : x = (x - 2^p) ||| 2^p := by rw [or_two_pow_of_clear _ p hy]; omega
  rw [hx, Nat.or_assoc, Nat.or_self]

theorem xor_two_pow_of_set (x p : Nat) (h : x.testBit p = true) : x ^^^ 2^p = x - 2^p := by
  obtain ⟨hge, hy⟩ := split_of_set x p h
  have hx : x = (x - 2^p) ^^^ 2^p := by rw [xor_two_pow_of_clear _ p hy]; omega
  have : (x - 2^p) ^^^ 2^p ^^^ 2^p = x - 2^p := by
    rw [Nat.xor_assoc, Nat.xor_self, Nat.xor_zero]
  rw [← hx] at this; exact this

theorem and_notU_of_set (w x p : Nat) (hx : x < 2^w) (hp : p < w) (h : x.testBit p = true) :
    x &&& notU w (2^p) = x - 2^p := by
  obtain ⟨hge, hy⟩ := split_of_set x p h
  have hxy : x = (x - 2^p) ||| 2^p := by rw [or_two_pow_of_clear _ p hy]; omega
  have hylt : x - 2^p < 2^w := Nat.lt_of_le_of_lt (Nat.sub_le _ _) hx
  have hz : 2^p &&& notU w (2^p) = 0 := by
    apply Nat.eq_of_testBit_eq
    intro i
    rw [Nat.testBit_and, notU_two_pow_testBit w p i hp, Nat.testBit_two_pow]
    by_cases hi : p = i <;> simp [hi]
  have : ((x - 2^p) ||| 2^p) &&& notU w (2^p) = x - 2^p := by
    rw [Nat.and_or_distrib_right, and_notU_of_clear w _ p hylt hp hy, hz, Nat.or_zero]
  rw [← hxy] at this; exact this

theorem or_lt (w x p : Nat) (hx : x < 2^w) (hp : p < w) : x ||| 2^p < 2^w :=
  Nat.or_lt_two_pow hx (Nat.pow_lt_pow_right (by decide) hp)

theorem xor_lt (w x p : Nat) (hx : x < 2^w) (hp : p < w) : x ^^^ 2^p < 2^w :=
  Nat.xor_lt_two_pow hx (Nat.pow_lt_pow_right (by decide) hp)

theorem and_lt (w x y : Nat) (hx : x < 2^w) : x &&& y < 2^w :=
  Nat.lt_of_le_of_lt Nat.and_le_left hx

/-- `UInt(value) << pos` -/
theorem boolShl (p : Nat) (v : Bool) : (if v then 1 else 0) <<< p = if v then 2^p else 0 := by
  cases v <;> simp [Nat.shiftLeft_eq]

end Tetl.C14
