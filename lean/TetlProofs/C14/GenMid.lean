/-
C14 — the generated translation of `etl::midpoint<Int>(a, b)` (include/etl/_numeric/midpoint.hpp; `Gen.midpoint_S`
in Tetl/C14/Gen.lean) for every builtin integer type S: no undefined behaviour (`Gen.midpoint_S_ub`), the value is
`Spec.midpoint a b = a + (b - a) /ₜ 2`, and the hand model `Tetl.C14.midpoint` returns the same value.
-/
import TetlProofs.C14.Props
import Tetl.C14.Gen
set_option linter.unusedSimpArgs false
set_option linter.unusedVariables false
open Tetl.CSem Tetl.C14
namespace Tetl.C14.GenProps

/-! ## helper lemmas -/

theorem mid_band_one (d : Int) (h : 0 ≤ d) : band 1 d = d % 2 := by
  unfold band
  have : (1:Int).toNat = 1 := rfl
  rw [this, Nat.and_comm, Nat.and_one_is_mod]
  omega

theorem mid_band_zero (d : Int) : band 0 d = 0 := by
  unfold band; simp

theorem mid_bandS_one (d : Int) (h : 0 ≤ d) (h2 : d < 2147483648) : bandS 32 1 d = d % 2 := by
  unfold bandS
  have h1 : wrapU 32 1 = 1 := by simp [wrapU]
  have h3 : wrapU 32 d = d := by simp [wrapU]; omega
  rw [h1, h3, mid_band_one d h]; simp [wrapS]; omega

theorem mid_bandS_zero (d : Int) : bandS 32 0 d = 0 := by
  unfold bandS
  have h1 : wrapU 32 0 = 0 := by simp [wrapU]
  rw [h1, mid_band_zero]; simp [wrapS]

theorem mid_wrapS32_id (x : Int) (h : -2147483648 ≤ x ∧ x < 2147483648) : wrapS 32 x = x := by
  simp [wrapS]; omega

theorem mid_cdiv2_nonneg (x : Int) (h : 0 ≤ x) : cdiv x 2 = x / 2 := by
  unfold cdiv; exact Int.tdiv_eq_ediv_of_nonneg h

/-! ## midpoint -/

theorem gen_midpoint_u8 (a b : Int) (ha : 0 ≤ a ∧ a < 256) (hb : 0 ≤ b ∧ b < 256) :
    Gen.midpoint_u8_ub a b = true ∧ Gen.midpoint_u8 a b = Tetl.C14.Spec.midpoint a b ∧
    Tetl.C14.midpoint ⟨8, false⟩ a b = .ok (Gen.midpoint_u8 a b) := by
  have hsh : Gen.midpoint_u8_shift = 7 := by simp [Gen.midpoint_u8_shift, wrapU]
  have hb2 := Tetl.C14.tdiv2_bounds (b - a)
  have hwa := mid_wrapS32_id a (by omega)
  have hwb := mid_wrapS32_id b (by omega)
  have hs0 : wrapS 32 0 = 0 := by simp [wrapS]
  have hs1 : wrapS 32 1 = 1 := by simp [wrapS]
  have hs7 : wrapS 32 7 = 7 := by simp [wrapS]
  have hu0 : wrapU 8 0 = 0 := by simp [wrapU]
  have hu1 : wrapU 8 1 = 1 := by simp [wrapU]
  have hsl1 : wrapS 32 (shl 1 7) = 128 := by simp [shl, wrapS]
  have hsl0 : wrapS 32 (shl 0 7) = 0 := by simp [shl, wrapS]
  have hall : Gen.midpoint_u8_ub a b = true ∧ Gen.midpoint_u8 a b = Tetl.C14.Spec.midpoint a b := by
    simp only [Gen.midpoint_u8_ub, Gen.midpoint_u8, hsh, Gen.midpoint_u8_half, Gen.midpoint_u8_sign,
      Gen.midpoint_u8_diff, Spec.midpoint, hwa, hwb]
    by_cases hlt : b < a
    · have hd : wrapU 8 (b - a) = b - a + 256 := by simp [wrapU, wrapS]; omega
      have hdd := mid_wrapS32_id (b - a + 256) (by omega)
      have := hb2.2 (by omega)
      simp only [hlt, decide_true, if_true, hd, hdd, hu1, hs1, hs7, hsl1, mid_bandS_one (b - a + 256) (by omega) (by omega),
        mid_cdiv2_nonneg (b - a + 256) (by omega)]
      simp only [inRangeS, shiftOk, Bool.and_eq_true, decide_eq_true_eq]; simp [wrapU, wrapS]; omega
    · have hd : wrapU 8 (b - a) = b - a := by simp [wrapU, wrapS]; omega
      have hdd := mid_wrapS32_id (b - a) (by omega)
      have := hb2.1 (by omega)
      simp only [hlt, decide_false, Bool.false_eq_true, if_false, hd, hdd, hu0, hs0, hs7, hsl0, mid_bandS_zero,
        mid_cdiv2_nonneg (b - a) (by omega)]
      simp only [inRangeS, shiftOk, Bool.and_eq_true, decide_eq_true_eq]; simp [wrapU, wrapS]; omega
  refine ⟨hall.1, hall.2, ?_⟩
  rw [hall.2]
  exact (Props.midpoint_eq ⟨8, false⟩ (by decide) (by decide) a b (by simp [ITy.inR, ITy.min, ITy.max]; omega)
    (by simp [ITy.inR, ITy.min, ITy.max]; omega)).1

theorem gen_midpoint_u16 (a b : Int) (ha : 0 ≤ a ∧ a < 65536) (hb : 0 ≤ b ∧ b < 65536) :
    Gen.midpoint_u16_ub a b = true ∧ Gen.midpoint_u16 a b = Tetl.C14.Spec.midpoint a b ∧
    Tetl.C14.midpoint ⟨16, false⟩ a b = .ok (Gen.midpoint_u16 a b) := by
  have hsh : Gen.midpoint_u16_shift = 15 := by simp [Gen.midpoint_u16_shift, wrapU]
  have hb2 := Tetl.C14.tdiv2_bounds (b - a)
  have hwa := mid_wrapS32_id a (by omega)
  have hwb := mid_wrapS32_id b (by omega)
  have hs0 : wrapS 32 0 = 0 := by simp [wrapS]
  have hs1 : wrapS 32 1 = 1 := by simp [wrapS]
  have hs7 : wrapS 32 15 = 15 := by simp [wrapS]
  have hu0 : wrapU 16 0 = 0 := by simp [wrapU]
  have hu1 : wrapU 16 1 = 1 := by simp [wrapU]
  have hsl1 : wrapS 32 (shl 1 15) = 32768 := by simp [shl, wrapS]
  have hsl0 : wrapS 32 (shl 0 15) = 0 := by simp [shl, wrapS]
  have hall : Gen.midpoint_u16_ub a b = true ∧ Gen.midpoint_u16 a b = Tetl.C14.Spec.midpoint a b := by
    simp only [Gen.midpoint_u16_ub, Gen.midpoint_u16, hsh, Gen.midpoint_u16_half, Gen.midpoint_u16_sign,
      Gen.midpoint_u16_diff, Spec.midpoint, hwa, hwb]
    by_cases hlt : b < a
    · have hd : wrapU 16 (b - a) = b - a + 65536 := by simp [wrapU, wrapS]; omega
      have hdd := mid_wrapS32_id (b - a + 65536) (by omega)
      have := hb2.2 (by omega)
      simp only [hlt, decide_true, if_true, hd, hdd, hu1, hs1, hs7, hsl1, mid_bandS_one (b - a + 65536) (by omega) (by omega),
        mid_cdiv2_nonneg (b - a + 65536) (by omega)]
      simp only [inRangeS, shiftOk, Bool.and_eq_true, decide_eq_true_eq]; simp [wrapU, wrapS]; omega
    · have hd : wrapU 16 (b - a) = b - a := by simp [wrapU, wrapS]; omega
      have hdd := mid_wrapS32_id (b - a) (by omega)
      have := hb2.1 (by omega)
      simp only [hlt, decide_false, Bool.false_eq_true, if_false, hd, hdd, hu0, hs0, hs7, hsl0, mid_bandS_zero,
        mid_cdiv2_nonneg (b - a) (by omega)]
      simp only [inRangeS, shiftOk, Bool.and_eq_true, decide_eq_true_eq]; simp [wrapU, wrapS]; omega
  refine ⟨hall.1, hall.2, ?_⟩
  rw [hall.2]
  exact (Props.midpoint_eq ⟨16, false⟩ (by decide) (by decide) a b (by simp [ITy.inR, ITy.min, ITy.max]; omega)
    (by simp [ITy.inR, ITy.min, ITy.max]; omega)).1

theorem gen_midpoint_u32 (a b : Int) (ha : 0 ≤ a ∧ a < 4294967296) (hb : 0 ≤ b ∧ b < 4294967296) :
    Gen.midpoint_u32_ub a b = true ∧ Gen.midpoint_u32 a b = Tetl.C14.Spec.midpoint a b ∧
    Tetl.C14.midpoint ⟨32, false⟩ a b = .ok (Gen.midpoint_u32 a b) := by
  have hsh : Gen.midpoint_u32_shift = 31 := by simp [Gen.midpoint_u32_shift, wrapU]
  have hval : Gen.midpoint_u32 a b = Tetl.C14.Spec.midpoint a b := by
    have hb2 := Tetl.C14.tdiv2_bounds (b - a)
    simp only [Gen.midpoint_u32, hsh, Gen.midpoint_u32_half, Gen.midpoint_u32_sign, Gen.midpoint_u32_diff, Spec.midpoint]
    by_cases hlt : b < a
    · have hd : wrapU 32 (b - a) = b - a + 4294967296 := by simp [wrapU]; omega
      have := hb2.2 (by omega)
      simp only [hlt, decide_true, if_true, hd]
      have h1 : wrapU 32 1 = 1 := by simp [wrapU]
      rw [h1, mid_band_one _ (by omega)]
      simp [shl, wrapU]; omega
    · have hd : wrapU 32 (b - a) = b - a := by simp [wrapU]; omega
      have := hb2.1 (by omega)
      simp only [hlt, decide_false, hd]
      have h1 : wrapU 32 0 = 0 := by simp [wrapU]
      simp only [Bool.false_eq_true, if_false, h1, mid_band_zero]
      simp [shl, wrapU]; omega
  refine ⟨?_, hval, ?_⟩
  · simp [Gen.midpoint_u32_ub, hsh, inRangeS, shiftOk]
  · rw [hval]
    exact (Props.midpoint_eq ⟨32, false⟩ (by decide) (by decide) a b (by simp [ITy.inR, ITy.min, ITy.max]; omega)
      (by simp [ITy.inR, ITy.min, ITy.max]; omega)).1

theorem gen_midpoint_u64 (a b : Int) (ha : 0 ≤ a ∧ a < 18446744073709551616) (hb : 0 ≤ b ∧ b < 18446744073709551616) :
    Gen.midpoint_u64_ub a b = true ∧ Gen.midpoint_u64 a b = Tetl.C14.Spec.midpoint a b ∧
    Tetl.C14.midpoint ⟨64, false⟩ a b = .ok (Gen.midpoint_u64 a b) := by
  have hsh : Gen.midpoint_u64_shift = 63 := by simp [Gen.midpoint_u64_shift, wrapU]
  have hval : Gen.midpoint_u64 a b = Tetl.C14.Spec.midpoint a b := by
    have hb2 := Tetl.C14.tdiv2_bounds (b - a)
    simp only [Gen.midpoint_u64, hsh, Gen.midpoint_u64_half, Gen.midpoint_u64_sign, Gen.midpoint_u64_diff, Spec.midpoint]
    by_cases hlt : b < a
    · have hd : wrapU 64 (b - a) = b - a + 18446744073709551616 := by simp [wrapU]; omega
      have := hb2.2 (by omega)
      simp only [hlt, decide_true, if_true, hd]
      have h1 : wrapU 64 1 = 1 := by simp [wrapU]
      rw [h1, mid_band_one _ (by omega)]
      simp [shl, wrapU]; omega
    · have hd : wrapU 64 (b - a) = b - a := by simp [wrapU]; omega
      have := hb2.1 (by omega)
      simp only [hlt, decide_false, hd]
      have h1 : wrapU 64 0 = 0 := by simp [wrapU]
      simp only [Bool.false_eq_true, if_false, h1, mid_band_zero]
      simp [shl, wrapU]; omega
  refine ⟨?_, hval, ?_⟩
  · simp [Gen.midpoint_u64_ub, hsh, inRangeS, shiftOk]
  · rw [hval]
    exact (Props.midpoint_eq ⟨64, false⟩ (by decide) (by decide) a b (by simp [ITy.inR, ITy.min, ITy.max]; omega)
      (by simp [ITy.inR, ITy.min, ITy.max]; omega)).1

theorem gen_midpoint_i8 (a b : Int) (ha : -128 ≤ a ∧ a < 128) (hb : -128 ≤ b ∧ b < 128) :
    Gen.midpoint_i8_ub a b = true ∧ Gen.midpoint_i8 a b = Tetl.C14.Spec.midpoint a b ∧
    Tetl.C14.midpoint ⟨8, true⟩ a b = .ok (Gen.midpoint_i8 a b) := by
  have hsh : Gen.midpoint_i8_shift = 7 := by simp [Gen.midpoint_i8_shift, wrapU]
  have hb2 := Tetl.C14.tdiv2_bounds (b - a)
  have hwa := mid_wrapS32_id a (by omega)
  have hwb := mid_wrapS32_id b (by omega)
  have hs0 : wrapS 32 0 = 0 := by simp [wrapS]
  have hs1 : wrapS 32 1 = 1 := by simp [wrapS]
  have hs7 : wrapS 32 7 = 7 := by simp [wrapS]
  have hu0 : wrapU 8 0 = 0 := by simp [wrapU]
  have hu1 : wrapU 8 1 = 1 := by simp [wrapU]
  have hsl1 : wrapS 32 (shl 1 7) = 128 := by simp [shl, wrapS]
  have hsl0 : wrapS 32 (shl 0 7) = 0 := by simp [shl, wrapS]
  have hall : Gen.midpoint_i8_ub a b = true ∧ Gen.midpoint_i8 a b = Tetl.C14.Spec.midpoint a b := by
    simp only [Gen.midpoint_i8_ub, Gen.midpoint_i8, hsh, Gen.midpoint_i8_half, Gen.midpoint_i8_sign,
      Gen.midpoint_i8_diff, Spec.midpoint, hwa, hwb]
    by_cases hlt : b < a
    · have hd : wrapU 8 (wrapS 32 (wrapU 8 b) - wrapS 32 (wrapU 8 a)) = b - a + 256 := by simp [wrapU, wrapS]; omega
      have hdd := mid_wrapS32_id (b - a + 256) (by omega)
      have := hb2.2 (by omega)
      simp only [hlt, decide_true, if_true, hd, hdd, hu1, hs1, hs7, hsl1, mid_bandS_one (b - a + 256) (by omega) (by omega),
        mid_cdiv2_nonneg (b - a + 256) (by omega)]
      simp only [inRangeS, shiftOk, Bool.and_eq_true, decide_eq_true_eq]; simp [wrapU, wrapS]; omega
    · have hd : wrapU 8 (wrapS 32 (wrapU 8 b) - wrapS 32 (wrapU 8 a)) = b - a := by simp [wrapU, wrapS]; omega
      have hdd := mid_wrapS32_id (b - a) (by omega)
      have := hb2.1 (by omega)
      simp only [hlt, decide_false, Bool.false_eq_true, if_false, hd, hdd, hu0, hs0, hs7, hsl0, mid_bandS_zero,
        mid_cdiv2_nonneg (b - a) (by omega)]
      simp only [inRangeS, shiftOk, Bool.and_eq_true, decide_eq_true_eq]; simp [wrapU, wrapS]; omega
  refine ⟨hall.1, hall.2, ?_⟩
  rw [hall.2]
  exact (Props.midpoint_eq ⟨8, true⟩ (by decide) (by decide) a b (by simp [ITy.inR, ITy.min, ITy.max]; omega)
    (by simp [ITy.inR, ITy.min, ITy.max]; omega)).1

theorem gen_midpoint_i16 (a b : Int) (ha : -32768 ≤ a ∧ a < 32768) (hb : -32768 ≤ b ∧ b < 32768) :
    Gen.midpoint_i16_ub a b = true ∧ Gen.midpoint_i16 a b = Tetl.C14.Spec.midpoint a b ∧
    Tetl.C14.midpoint ⟨16, true⟩ a b = .ok (Gen.midpoint_i16 a b) := by
  have hsh : Gen.midpoint_i16_shift = 15 := by simp [Gen.midpoint_i16_shift, wrapU]
  have hb2 := Tetl.C14.tdiv2_bounds (b - a)
  have hwa := mid_wrapS32_id a (by omega)
  have hwb := mid_wrapS32_id b (by omega)
  have hs0 : wrapS 32 0 = 0 := by simp [wrapS]
  have hs1 : wrapS 32 1 = 1 := by simp [wrapS]
  have hs7 : wrapS 32 15 = 15 := by simp [wrapS]
  have hu0 : wrapU 16 0 = 0 := by simp [wrapU]
  have hu1 : wrapU 16 1 = 1 := by simp [wrapU]
  have hsl1 : wrapS 32 (shl 1 15) = 32768 := by simp [shl, wrapS]
  have hsl0 : wrapS 32 (shl 0 15) = 0 := by simp [shl, wrapS]
  have hall : Gen.midpoint_i16_ub a b = true ∧ Gen.midpoint_i16 a b = Tetl.C14.Spec.midpoint a b := by
    simp only [Gen.midpoint_i16_ub, Gen.midpoint_i16, hsh, Gen.midpoint_i16_half, Gen.midpoint_i16_sign,
      Gen.midpoint_i16_diff, Spec.midpoint, hwa, hwb]
    by_cases hlt : b < a
    · have hd : wrapU 16 (wrapS 32 (wrapU 16 b) - wrapS 32 (wrapU 16 a)) = b - a + 65536 := by simp [wrapU, wrapS]; omega
      have hdd := mid_wrapS32_id (b - a + 65536) (by omega)
      have := hb2.2 (by omega)
      simp only [hlt, decide_true, if_true, hd, hdd, hu1, hs1, hs7, hsl1, mid_bandS_one (b - a + 65536) (by omega) (by omega),
        mid_cdiv2_nonneg (b - a + 65536) (by omega)]
      simp only [inRangeS, shiftOk, Bool.and_eq_true, decide_eq_true_eq]; simp [wrapU, wrapS]; omega
    · have hd : wrapU 16 (wrapS 32 (wrapU 16 b) - wrapS 32 (wrapU 16 a)) = b - a := by simp [wrapU, wrapS]; omega
      have hdd := mid_wrapS32_id (b - a) (by omega)
      have := hb2.1 (by omega)
      simp only [hlt, decide_false, Bool.false_eq_true, if_false, hd, hdd, hu0, hs0, hs7, hsl0, mid_bandS_zero,
        mid_cdiv2_nonneg (b - a) (by omega)]
      simp only [inRangeS, shiftOk, Bool.and_eq_true, decide_eq_true_eq]; simp [wrapU, wrapS]; omega
  refine ⟨hall.1, hall.2, ?_⟩
  rw [hall.2]
  exact (Props.midpoint_eq ⟨16, true⟩ (by decide) (by decide) a b (by simp [ITy.inR, ITy.min, ITy.max]; omega)
    (by simp [ITy.inR, ITy.min, ITy.max]; omega)).1

theorem gen_midpoint_i32 (a b : Int) (ha : -2147483648 ≤ a ∧ a < 2147483648) (hb : -2147483648 ≤ b ∧ b < 2147483648) :
    Gen.midpoint_i32_ub a b = true ∧ Gen.midpoint_i32 a b = Tetl.C14.Spec.midpoint a b ∧
    Tetl.C14.midpoint ⟨32, true⟩ a b = .ok (Gen.midpoint_i32 a b) := by
  have hsh : Gen.midpoint_i32_shift = 31 := by simp [Gen.midpoint_i32_shift, wrapU]
  have hb2 := Tetl.C14.tdiv2_bounds (b - a)
  have hhalf : wrapS 32 (Gen.midpoint_i32_half (Gen.midpoint_i32_diff a b) 31 (Gen.midpoint_i32_sign a b)) = Int.tdiv (b - a) 2 := by
    simp only [Gen.midpoint_i32_half, Gen.midpoint_i32_sign, Gen.midpoint_i32_diff]
    by_cases hlt : b < a
    · have hd : wrapU 32 (wrapU 32 b - wrapU 32 a) = b - a + 4294967296 := by simp [wrapU]; omega
      have := hb2.2 (by omega)
      simp only [hlt, decide_true, if_true, hd]
      have h1 : wrapU 32 1 = 1 := by simp [wrapU]
      rw [h1, mid_band_one _ (by omega)]
      simp [shl, wrapU, wrapS]; omega
    · have hd : wrapU 32 (wrapU 32 b - wrapU 32 a) = b - a := by simp [wrapU]; omega
      have := hb2.1 (by omega)
      simp only [hlt, decide_false, hd]
      have h1 : wrapU 32 0 = 0 := by simp [wrapU]
      simp only [Bool.false_eq_true, if_false, h1, mid_band_zero]
      simp [shl, wrapU, wrapS]; omega
  have hval : Gen.midpoint_i32 a b = Tetl.C14.Spec.midpoint a b := by
    simp only [Gen.midpoint_i32, hsh, hhalf, Spec.midpoint]
  refine ⟨?_, hval, ?_⟩
  · simp only [Gen.midpoint_i32_ub, hsh, hhalf]
    have := hb2.1; have := hb2.2
    simp [inRangeS, shiftOk]; omega
  · rw [hval]
    exact (Props.midpoint_eq ⟨32, true⟩ (by decide) (by decide) a b (by simp [ITy.inR, ITy.min, ITy.max]; omega)
      (by simp [ITy.inR, ITy.min, ITy.max]; omega)).1

theorem gen_midpoint_i64 (a b : Int) (ha : -9223372036854775808 ≤ a ∧ a < 9223372036854775808) (hb : -9223372036854775808 ≤ b ∧ b < 9223372036854775808) :
    Gen.midpoint_i64_ub a b = true ∧ Gen.midpoint_i64 a b = Tetl.C14.Spec.midpoint a b ∧
    Tetl.C14.midpoint ⟨64, true⟩ a b = .ok (Gen.midpoint_i64 a b) := by
  have hsh : Gen.midpoint_i64_shift = 63 := by simp [Gen.midpoint_i64_shift, wrapU]
  have hb2 := Tetl.C14.tdiv2_bounds (b - a)
  have hhalf : wrapS 64 (Gen.midpoint_i64_half (Gen.midpoint_i64_diff a b) 63 (Gen.midpoint_i64_sign a b)) = Int.tdiv (b - a) 2 := by
    simp only [Gen.midpoint_i64_half, Gen.midpoint_i64_sign, Gen.midpoint_i64_diff]
    by_cases hlt : b < a
    · have hd : wrapU 64 (wrapU 64 b - wrapU 64 a) = b - a + 18446744073709551616 := by simp [wrapU]; omega
      have := hb2.2 (by omega)
      simp only [hlt, decide_true, if_true, hd]
      have h1 : wrapU 64 1 = 1 := by simp [wrapU]
      rw [h1, mid_band_one _ (by omega)]
      simp [shl, wrapU, wrapS]; omega
    · have hd : wrapU 64 (wrapU 64 b - wrapU 64 a) = b - a := by simp [wrapU]; omega
      have := hb2.1 (by omega)
      simp only [hlt, decide_false, hd]
      have h1 : wrapU 64 0 = 0 := by simp [wrapU]
      simp only [Bool.false_eq_true, if_false, h1, mid_band_zero]
      simp [shl, wrapU, wrapS]; omega
  have hval : Gen.midpoint_i64 a b = Tetl.C14.Spec.midpoint a b := by
    simp only [Gen.midpoint_i64, hsh, hhalf, Spec.midpoint]
  refine ⟨?_, hval, ?_⟩
  · simp only [Gen.midpoint_i64_ub, hsh, hhalf]
    have := hb2.1; have := hb2.2
    simp [inRangeS, shiftOk]; omega
  · rw [hval]
    exact (Props.midpoint_eq ⟨64, true⟩ (by decide) (by decide) a b (by simp [ITy.inR, ITy.min, ITy.max]; omega)
      (by simp [ITy.inR, ITy.min, ITy.max]; omega)).1

end Tetl.C14.GenProps
