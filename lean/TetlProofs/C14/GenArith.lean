/-
C14, tie T — add_sat (the __builtin_add_overflow path), div_sat and abs<T>, generated = arithmetic spec = hand model, no UB
WRITTEN by gen/c14_genprops.py (statements and proofs are uniform per family); re-checked against the regenerated
Tetl/C14/Gen.lean on every run of the C14 check.
-/
import TetlProofs.C14.GenArithLemmas
set_option linter.unusedSimpArgs false
set_option linter.unusedVariables false
namespace Tetl.C14.GenProps
open Tetl Tetl.C14 Tetl.CSem

theorem gen_add_sat_u8 (x y : Int) (hx : 0 ≤ x ∧ x < 256) (hy : 0 ≤ y ∧ y < 256) :
    Gen.add_sat_u8_ub x y = true ∧ Gen.add_sat_u8 x y = Spec.clampTo 0 255 (x + y) ∧
    Tetl.C14.addSat ⟨8, false⟩ x y = .ok (Gen.add_sat_u8 x y) := by
  have h2 : Gen.add_sat_u8 x y = Spec.clampTo 0 255 (x + y) := by
    simp only [Gen.add_sat_u8, Gen.add_sat_u8_min, Gen.add_sat_u8_max, Gen.add_sat_u8_sum, Gen.add_sat_u8_sum_1] <;> c_arith
  refine ⟨by simp only [Gen.add_sat_u8_ub] <;> c_arith, h2, ?_⟩
  rw [h2, Props.addSat_eq _ (by decide) x y (inR_u8 x hx) (inR_u8 y hy)]; rfl

theorem gen_abs_u8 (x : Int) (hx : 0 ≤ x ∧ x < 256) :
    Gen.abs_u8_ub x = true ∧ Gen.abs_u8 x = Spec.abs x ∧ Tetl.C14.absT ⟨8, false⟩ x = .ok (Gen.abs_u8 x) := by
  have h2 : Gen.abs_u8 x = Spec.abs x := by
    simp only [Gen.abs_u8, Spec.abs] <;> c_arith
  refine ⟨by simp only [Gen.abs_u8_ub] <;> c_arith, h2, ?_⟩
  rw [h2, Props.absT_eq _ (by decide) x (inR_u8 x hx) (fun h => by simp at h)]

theorem gen_div_sat_u8 (x y : Int) (hx : 0 ≤ x ∧ x < 256) (hy : 0 ≤ y ∧ y < 256) (hy0 : y ≠ 0) :
    Gen.div_sat_u8_ub x y = true ∧ Gen.div_sat_u8 x y = Spec.clampTo 0 255 (Int.tdiv x y) ∧
    Tetl.C14.divSat ⟨8, false⟩ x y = .ok (Gen.div_sat_u8 x y) := by
  have e1 : wrapS 32 x = x := by simp [wrapS]; omega
  have e2 : wrapS 32 y = y := by simp [wrapS]; omega
  have hq := tdiv_nonneg_le x y hx.1 hy.1
  have h12 : Gen.div_sat_u8_ub x y = true ∧ Gen.div_sat_u8 x y = Spec.clampTo 0 255 (Int.tdiv x y) := by
    simp only [Gen.div_sat_u8_ub, Gen.div_sat_u8, cdiv, e1, e2]
    generalize Int.tdiv x y = q at *
    constructor <;> c_arith
  refine ⟨h12.1, h12.2, ?_⟩
  rw [h12.2, Props.divSat_eq _ (by decide) x y (inR_u8 x hx) (inR_u8 y hy) hy0]; rfl

theorem gen_add_sat_u16 (x y : Int) (hx : 0 ≤ x ∧ x < 65536) (hy : 0 ≤ y ∧ y < 65536) :
    Gen.add_sat_u16_ub x y = true ∧ Gen.add_sat_u16 x y = Spec.clampTo 0 65535 (x + y) ∧
    Tetl.C14.addSat ⟨16, false⟩ x y = .ok (Gen.add_sat_u16 x y) := by
  have h2 : Gen.add_sat_u16 x y = Spec.clampTo 0 65535 (x + y) := by
    simp only [Gen.add_sat_u16, Gen.add_sat_u16_min, Gen.add_sat_u16_max, Gen.add_sat_u16_sum, Gen.add_sat_u16_sum_1] <;> c_arith
  refine ⟨by simp only [Gen.add_sat_u16_ub] <;> c_arith, h2, ?_⟩
  rw [h2, Props.addSat_eq _ (by decide) x y (inR_u16 x hx) (inR_u16 y hy)]; rfl

theorem gen_abs_u16 (x : Int) (hx : 0 ≤ x ∧ x < 65536) :
    Gen.abs_u16_ub x = true ∧ Gen.abs_u16 x = Spec.abs x ∧ Tetl.C14.absT ⟨16, false⟩ x = .ok (Gen.abs_u16 x) := by
  have h2 : Gen.abs_u16 x = Spec.abs x := by
    simp only [Gen.abs_u16, Spec.abs] <;> c_arith
  refine ⟨by simp only [Gen.abs_u16_ub] <;> c_arith, h2, ?_⟩
  rw [h2, Props.absT_eq _ (by decide) x (inR_u16 x hx) (fun h => by simp at h)]

theorem gen_div_sat_u16 (x y : Int) (hx : 0 ≤ x ∧ x < 65536) (hy : 0 ≤ y ∧ y < 65536) (hy0 : y ≠ 0) :
    Gen.div_sat_u16_ub x y = true ∧ Gen.div_sat_u16 x y = Spec.clampTo 0 65535 (Int.tdiv x y) ∧
    Tetl.C14.divSat ⟨16, false⟩ x y = .ok (Gen.div_sat_u16 x y) := by
  have e1 : wrapS 32 x = x := by simp [wrapS]; omega
  have e2 : wrapS 32 y = y := by simp [wrapS]; omega
  have hq := tdiv_nonneg_le x y hx.1 hy.1
  have h12 : Gen.div_sat_u16_ub x y = true ∧ Gen.div_sat_u16 x y = Spec.clampTo 0 65535 (Int.tdiv x y) := by
    simp only [Gen.div_sat_u16_ub, Gen.div_sat_u16, cdiv, e1, e2]
    generalize Int.tdiv x y = q at *
    constructor <;> c_arith
  refine ⟨h12.1, h12.2, ?_⟩
  rw [h12.2, Props.divSat_eq _ (by decide) x y (inR_u16 x hx) (inR_u16 y hy) hy0]; rfl

theorem gen_add_sat_u32 (x y : Int) (hx : 0 ≤ x ∧ x < 4294967296) (hy : 0 ≤ y ∧ y < 4294967296) :
    Gen.add_sat_u32_ub x y = true ∧ Gen.add_sat_u32 x y = Spec.clampTo 0 4294967295 (x + y) ∧
    Tetl.C14.addSat ⟨32, false⟩ x y = .ok (Gen.add_sat_u32 x y) := by
  have h2 : Gen.add_sat_u32 x y = Spec.clampTo 0 4294967295 (x + y) := by
    simp only [Gen.add_sat_u32, Gen.add_sat_u32_min, Gen.add_sat_u32_max, Gen.add_sat_u32_sum, Gen.add_sat_u32_sum_1] <;> c_arith
  refine ⟨by simp only [Gen.add_sat_u32_ub] <;> c_arith, h2, ?_⟩
  rw [h2, Props.addSat_eq _ (by decide) x y (inR_u32 x hx) (inR_u32 y hy)]; rfl

theorem gen_abs_u32 (x : Int) (hx : 0 ≤ x ∧ x < 4294967296) :
    Gen.abs_u32_ub x = true ∧ Gen.abs_u32 x = Spec.abs x ∧ Tetl.C14.absT ⟨32, false⟩ x = .ok (Gen.abs_u32 x) := by
  have h2 : Gen.abs_u32 x = Spec.abs x := by
    simp only [Gen.abs_u32, Spec.abs] <;> c_arith
  refine ⟨by simp only [Gen.abs_u32_ub] <;> c_arith, h2, ?_⟩
  rw [h2, Props.absT_eq _ (by decide) x (inR_u32 x hx) (fun h => by simp at h)]

theorem gen_div_sat_u32 (x y : Int) (hx : 0 ≤ x ∧ x < 4294967296) (hy : 0 ≤ y ∧ y < 4294967296) (hy0 : y ≠ 0) :
    Gen.div_sat_u32_ub x y = true ∧ Gen.div_sat_u32 x y = Spec.clampTo 0 4294967295 (Int.tdiv x y) ∧
    Tetl.C14.divSat ⟨32, false⟩ x y = .ok (Gen.div_sat_u32 x y) := by
  have hq := tdiv_nonneg_le x y hx.1 hy.1
  have e3 : x / y = Int.tdiv x y := (Int.tdiv_eq_ediv_of_nonneg hx.1).symm
  have h12 : Gen.div_sat_u32_ub x y = true ∧ Gen.div_sat_u32 x y = Spec.clampTo 0 4294967295 (Int.tdiv x y) := by
    simp only [Gen.div_sat_u32_ub, Gen.div_sat_u32, cdiv, e3]
    generalize Int.tdiv x y = q at *
    constructor <;> c_arith
  refine ⟨h12.1, h12.2, ?_⟩
  rw [h12.2, Props.divSat_eq _ (by decide) x y (inR_u32 x hx) (inR_u32 y hy) hy0]; rfl

theorem gen_add_sat_u64 (x y : Int) (hx : 0 ≤ x ∧ x < 18446744073709551616) (hy : 0 ≤ y ∧ y < 18446744073709551616) :
    Gen.add_sat_u64_ub x y = true ∧ Gen.add_sat_u64 x y = Spec.clampTo 0 18446744073709551615 (x + y) ∧
    Tetl.C14.addSat ⟨64, false⟩ x y = .ok (Gen.add_sat_u64 x y) := by
  have h2 : Gen.add_sat_u64 x y = Spec.clampTo 0 18446744073709551615 (x + y) := by
    simp only [Gen.add_sat_u64, Gen.add_sat_u64_min, Gen.add_sat_u64_max, Gen.add_sat_u64_sum, Gen.add_sat_u64_sum_1] <;> c_arith
  refine ⟨by simp only [Gen.add_sat_u64_ub] <;> c_arith, h2, ?_⟩
  rw [h2, Props.addSat_eq _ (by decide) x y (inR_u64 x hx) (inR_u64 y hy)]; rfl

theorem gen_abs_u64 (x : Int) (hx : 0 ≤ x ∧ x < 18446744073709551616) :
    Gen.abs_u64_ub x = true ∧ Gen.abs_u64 x = Spec.abs x ∧ Tetl.C14.absT ⟨64, false⟩ x = .ok (Gen.abs_u64 x) := by
  have h2 : Gen.abs_u64 x = Spec.abs x := by
    simp only [Gen.abs_u64, Spec.abs] <;> c_arith
  refine ⟨by simp only [Gen.abs_u64_ub] <;> c_arith, h2, ?_⟩
  rw [h2, Props.absT_eq _ (by decide) x (inR_u64 x hx) (fun h => by simp at h)]

theorem gen_div_sat_u64 (x y : Int) (hx : 0 ≤ x ∧ x < 18446744073709551616) (hy : 0 ≤ y ∧ y < 18446744073709551616) (hy0 : y ≠ 0) :
    Gen.div_sat_u64_ub x y = true ∧ Gen.div_sat_u64 x y = Spec.clampTo 0 18446744073709551615 (Int.tdiv x y) ∧
    Tetl.C14.divSat ⟨64, false⟩ x y = .ok (Gen.div_sat_u64 x y) := by
  have hq := tdiv_nonneg_le x y hx.1 hy.1
  have e3 : x / y = Int.tdiv x y := (Int.tdiv_eq_ediv_of_nonneg hx.1).symm
  have h12 : Gen.div_sat_u64_ub x y = true ∧ Gen.div_sat_u64 x y = Spec.clampTo 0 18446744073709551615 (Int.tdiv x y) := by
    simp only [Gen.div_sat_u64_ub, Gen.div_sat_u64, cdiv, e3]
    generalize Int.tdiv x y = q at *
    constructor <;> c_arith
  refine ⟨h12.1, h12.2, ?_⟩
  rw [h12.2, Props.divSat_eq _ (by decide) x y (inR_u64 x hx) (inR_u64 y hy) hy0]; rfl

theorem gen_add_sat_i8 (x y : Int) (hx : -128 ≤ x ∧ x < 128) (hy : -128 ≤ y ∧ y < 128) :
    Gen.add_sat_i8_ub x y = true ∧ Gen.add_sat_i8 x y = Spec.clampTo (-128) 127 (x + y) ∧
    Tetl.C14.addSat ⟨8, true⟩ x y = .ok (Gen.add_sat_i8 x y) := by
  have h2 : Gen.add_sat_i8 x y = Spec.clampTo (-128) 127 (x + y) := by
    simp only [Gen.add_sat_i8, Gen.add_sat_i8_min, Gen.add_sat_i8_max, Gen.add_sat_i8_sum, Gen.add_sat_i8_sum_1] <;> c_arith
  refine ⟨by simp only [Gen.add_sat_i8_ub] <;> c_arith, h2, ?_⟩
  rw [h2, Props.addSat_eq _ (by decide) x y (inR_i8 x hx) (inR_i8 y hy)]; rfl

theorem gen_abs_i8 (x : Int) (hx : -128 ≤ x ∧ x < 128) (hmin : x ≠ (-128)) :
    Gen.abs_i8_ub x = true ∧ Gen.abs_i8 x = Spec.abs x ∧ Tetl.C14.absT ⟨8, true⟩ x = .ok (Gen.abs_i8 x) := by
  have h2 : Gen.abs_i8 x = Spec.abs x := by
    simp only [Gen.abs_i8, Spec.abs] <;> c_arith
  refine ⟨by simp only [Gen.abs_i8_ub] <;> c_arith, h2, ?_⟩
  rw [h2, Props.absT_eq _ (by decide) x (inR_i8 x hx) (fun _ => hmin)]

theorem gen_div_sat_i8 (x y : Int) (hx : -128 ≤ x ∧ x < 128) (hy : -128 ≤ y ∧ y < 128) (hy0 : y ≠ 0) :
    Gen.div_sat_i8_ub x y = true ∧ Gen.div_sat_i8 x y = Spec.clampTo (-128) 127 (Int.tdiv x y) ∧
    Tetl.C14.divSat ⟨8, true⟩ x y = .ok (Gen.div_sat_i8 x y) := by
  have e1 : wrapS 32 x = x := by simp [wrapS]; omega
  have e2 : wrapS 32 y = y := by simp [wrapS]; omega
  have hq : ¬ (x = (-128) ∧ y = -1) → (-128) ≤ Int.tdiv x y ∧ Int.tdiv x y < 128 := tdiv_signed_range 128 x y hx hy0
  have hq' : x = (-128) ∧ y = -1 → Int.tdiv x y = 128 := by rintro ⟨rfl, rfl⟩; decide
  have h12 : Gen.div_sat_i8_ub x y = true ∧ Gen.div_sat_i8 x y = Spec.clampTo (-128) 127 (Int.tdiv x y) := by
    simp only [Gen.div_sat_i8_ub, Gen.div_sat_i8, cdiv, e1, e2]
    generalize Int.tdiv x y = q at *
    constructor <;> c_arith
  refine ⟨h12.1, h12.2, ?_⟩
  rw [h12.2, Props.divSat_eq _ (by decide) x y (inR_i8 x hx) (inR_i8 y hy) hy0]; rfl

theorem gen_add_sat_i16 (x y : Int) (hx : -32768 ≤ x ∧ x < 32768) (hy : -32768 ≤ y ∧ y < 32768) :
    Gen.add_sat_i16_ub x y = true ∧ Gen.add_sat_i16 x y = Spec.clampTo (-32768) 32767 (x + y) ∧
    Tetl.C14.addSat ⟨16, true⟩ x y = .ok (Gen.add_sat_i16 x y) := by
  have h2 : Gen.add_sat_i16 x y = Spec.clampTo (-32768) 32767 (x + y) := by
    simp only [Gen.add_sat_i16, Gen.add_sat_i16_min, Gen.add_sat_i16_max, Gen.add_sat_i16_sum, Gen.add_sat_i16_sum_1] <;> c_arith
  refine ⟨by simp only [Gen.add_sat_i16_ub] <;> c_arith, h2, ?_⟩
  rw [h2, Props.addSat_eq _ (by decide) x y (inR_i16 x hx) (inR_i16 y hy)]; rfl

theorem gen_abs_i16 (x : Int) (hx : -32768 ≤ x ∧ x < 32768) (hmin : x ≠ (-32768)) :
    Gen.abs_i16_ub x = true ∧ Gen.abs_i16 x = Spec.abs x ∧ Tetl.C14.absT ⟨16, true⟩ x = .ok (Gen.abs_i16 x) := by
  have h2 : Gen.abs_i16 x = Spec.abs x := by
    simp only [Gen.abs_i16, Spec.abs] <;> c_arith
  refine ⟨by simp only [Gen.abs_i16_ub] <;> c_arith, h2, ?_⟩
  rw [h2, Props.absT_eq _ (by decide) x (inR_i16 x hx) (fun _ => hmin)]

theorem gen_div_sat_i16 (x y : Int) (hx : -32768 ≤ x ∧ x < 32768) (hy : -32768 ≤ y ∧ y < 32768) (hy0 : y ≠ 0) :
    Gen.div_sat_i16_ub x y = true ∧ Gen.div_sat_i16 x y = Spec.clampTo (-32768) 32767 (Int.tdiv x y) ∧
    Tetl.C14.divSat ⟨16, true⟩ x y = .ok (Gen.div_sat_i16 x y) := by
  have e1 : wrapS 32 x = x := by simp [wrapS]; omega
  have e2 : wrapS 32 y = y := by simp [wrapS]; omega
  have hq : ¬ (x = (-32768) ∧ y = -1) → (-32768) ≤ Int.tdiv x y ∧ Int.tdiv x y < 32768 := tdiv_signed_range 32768 x y hx hy0
  have hq' : x = (-32768) ∧ y = -1 → Int.tdiv x y = 32768 := by rintro ⟨rfl, rfl⟩; decide
  have h12 : Gen.div_sat_i16_ub x y = true ∧ Gen.div_sat_i16 x y = Spec.clampTo (-32768) 32767 (Int.tdiv x y) := by
    simp only [Gen.div_sat_i16_ub, Gen.div_sat_i16, cdiv, e1, e2]
    generalize Int.tdiv x y = q at *
    constructor <;> c_arith
  refine ⟨h12.1, h12.2, ?_⟩
  rw [h12.2, Props.divSat_eq _ (by decide) x y (inR_i16 x hx) (inR_i16 y hy) hy0]; rfl

theorem gen_add_sat_i32 (x y : Int) (hx : -2147483648 ≤ x ∧ x < 2147483648) (hy : -2147483648 ≤ y ∧ y < 2147483648) :
    Gen.add_sat_i32_ub x y = true ∧ Gen.add_sat_i32 x y = Spec.clampTo (-2147483648) 2147483647 (x + y) ∧
    Tetl.C14.addSat ⟨32, true⟩ x y = .ok (Gen.add_sat_i32 x y) := by
  have h2 : Gen.add_sat_i32 x y = Spec.clampTo (-2147483648) 2147483647 (x + y) := by
    simp only [Gen.add_sat_i32, Gen.add_sat_i32_min, Gen.add_sat_i32_max, Gen.add_sat_i32_sum, Gen.add_sat_i32_sum_1] <;> c_arith
  refine ⟨by simp only [Gen.add_sat_i32_ub] <;> c_arith, h2, ?_⟩
  rw [h2, Props.addSat_eq _ (by decide) x y (inR_i32 x hx) (inR_i32 y hy)]; rfl

theorem gen_abs_i32 (x : Int) (hx : -2147483648 ≤ x ∧ x < 2147483648) (hmin : x ≠ (-2147483648)) :
    Gen.abs_i32_ub x = true ∧ Gen.abs_i32 x = Spec.abs x ∧ Tetl.C14.absT ⟨32, true⟩ x = .ok (Gen.abs_i32 x) := by
  have h2 : Gen.abs_i32 x = Spec.abs x := by
    simp only [Gen.abs_i32, Spec.abs] <;> c_arith
  refine ⟨by simp only [Gen.abs_i32_ub] <;> c_arith, h2, ?_⟩
  rw [h2, Props.absT_eq _ (by decide) x (inR_i32 x hx) (fun _ => hmin)]

theorem gen_div_sat_i32 (x y : Int) (hx : -2147483648 ≤ x ∧ x < 2147483648) (hy : -2147483648 ≤ y ∧ y < 2147483648) (hy0 : y ≠ 0) :
    Gen.div_sat_i32_ub x y = true ∧ Gen.div_sat_i32 x y = Spec.clampTo (-2147483648) 2147483647 (Int.tdiv x y) ∧
    Tetl.C14.divSat ⟨32, true⟩ x y = .ok (Gen.div_sat_i32 x y) := by
  have hq : ¬ (x = (-2147483648) ∧ y = -1) → (-2147483648) ≤ Int.tdiv x y ∧ Int.tdiv x y < 2147483648 := tdiv_signed_range 2147483648 x y hx hy0
  have hq' : x = (-2147483648) ∧ y = -1 → Int.tdiv x y = 2147483648 := by rintro ⟨rfl, rfl⟩; decide
  have h12 : Gen.div_sat_i32_ub x y = true ∧ Gen.div_sat_i32 x y = Spec.clampTo (-2147483648) 2147483647 (Int.tdiv x y) := by
    simp only [Gen.div_sat_i32_ub, Gen.div_sat_i32, cdiv]
    generalize Int.tdiv x y = q at *
    constructor <;> c_arith
  refine ⟨h12.1, h12.2, ?_⟩
  rw [h12.2, Props.divSat_eq _ (by decide) x y (inR_i32 x hx) (inR_i32 y hy) hy0]; rfl

theorem gen_add_sat_i64 (x y : Int) (hx : -9223372036854775808 ≤ x ∧ x < 9223372036854775808) (hy : -9223372036854775808 ≤ y ∧ y < 9223372036854775808) :
    Gen.add_sat_i64_ub x y = true ∧ Gen.add_sat_i64 x y = Spec.clampTo (-9223372036854775808) 9223372036854775807 (x + y) ∧
    Tetl.C14.addSat ⟨64, true⟩ x y = .ok (Gen.add_sat_i64 x y) := by
  have h2 : Gen.add_sat_i64 x y = Spec.clampTo (-9223372036854775808) 9223372036854775807 (x + y) := by
    simp only [Gen.add_sat_i64, Gen.add_sat_i64_min, Gen.add_sat_i64_max, Gen.add_sat_i64_sum, Gen.add_sat_i64_sum_1] <;> c_arith
  refine ⟨by simp only [Gen.add_sat_i64_ub] <;> c_arith, h2, ?_⟩
  rw [h2, Props.addSat_eq _ (by decide) x y (inR_i64 x hx) (inR_i64 y hy)]; rfl

theorem gen_abs_i64 (x : Int) (hx : -9223372036854775808 ≤ x ∧ x < 9223372036854775808) (hmin : x ≠ (-9223372036854775808)) :
    Gen.abs_i64_ub x = true ∧ Gen.abs_i64 x = Spec.abs x ∧ Tetl.C14.absT ⟨64, true⟩ x = .ok (Gen.abs_i64 x) := by
  have h2 : Gen.abs_i64 x = Spec.abs x := by
    simp only [Gen.abs_i64, Spec.abs] <;> c_arith
  refine ⟨by simp only [Gen.abs_i64_ub] <;> c_arith, h2, ?_⟩
  rw [h2, Props.absT_eq _ (by decide) x (inR_i64 x hx) (fun _ => hmin)]

theorem gen_div_sat_i64 (x y : Int) (hx : -9223372036854775808 ≤ x ∧ x < 9223372036854775808) (hy : -9223372036854775808 ≤ y ∧ y < 9223372036854775808) (hy0 : y ≠ 0) :
    Gen.div_sat_i64_ub x y = true ∧ Gen.div_sat_i64 x y = Spec.clampTo (-9223372036854775808) 9223372036854775807 (Int.tdiv x y) ∧
    Tetl.C14.divSat ⟨64, true⟩ x y = .ok (Gen.div_sat_i64 x y) := by
  have hq : ¬ (x = (-9223372036854775808) ∧ y = -1) → (-9223372036854775808) ≤ Int.tdiv x y ∧ Int.tdiv x y < 9223372036854775808 := tdiv_signed_range 9223372036854775808 x y hx hy0
  have hq' : x = (-9223372036854775808) ∧ y = -1 → Int.tdiv x y = 9223372036854775808 := by rintro ⟨rfl, rfl⟩; decide
  have h12 : Gen.div_sat_i64_ub x y = true ∧ Gen.div_sat_i64 x y = Spec.clampTo (-9223372036854775808) 9223372036854775807 (Int.tdiv x y) := by
    simp only [Gen.div_sat_i64_ub, Gen.div_sat_i64, cdiv]
    generalize Int.tdiv x y = q at *
    constructor <;> c_arith
  refine ⟨h12.1, h12.2, ?_⟩
  rw [h12.2, Props.divSat_eq _ (by decide) x y (inR_i64 x hx) (inR_i64 y hy) hy0]; rfl

end Tetl.C14.GenProps
