/-
C14 — helper lemmas for ipow (the multiplication loop).
-/
import TetlProofs.C14.Lemmas
namespace Tetl.C14
open Tetl

/-- the loop multiplies `n` more times; no product leaves the type -/
theorem ipowLoop_eq (t : ITy) (hw : 1 ≤ t.w) (base : Int) : ∀ n r,
    (∀ k, 1 ≤ k → k ≤ n → t.inR (r * base^k) = true) →
    ipowLoop t base n r = .ok (r * base^n) := by
  intro n
  induction n with
  | zero => intro r _; simp [ipowLoop]
  | succ n ih =>
    intro r h
    unfold ipowLoop
    have h1 : t.inR (r * base) = true := by
      have := h 1 (by omega) (by omega); rwa [Int.pow_one] at this
    rw [arith_ok _ (promote_w t hw) _ (promote_inR t hw _ h1)]
    simp only [ok_bind, conv_of_inR t hw _ h1]
    rw [ih (r * base)]
    · congr 1; rw [Int.pow_succ, Int.mul_assoc, Int.mul_comm (base^n) base]
    · intro k hk1 hkn
      have := h (k + 1) (by omega) (by omega)
      rw [Int.pow_succ, Int.mul_comm (base^k) base, ← Int.mul_assoc] at this
      exact this

theorem nat_pow_double (b k n : Nat) (hb : 2 ≤ b) (hkn : k < n) : 2 * b^k ≤ b^n := by
  have h1 : b^(k+1) ≤ b^n := Nat.pow_le_pow_right (by omega) hkn
  have h2 : b^k * 2 ≤ b^k * b := Nat.mul_le_mul_left _ hb
  rw [Nat.pow_succ] at h1
  omega

/-- if the final power is a value of the type, so is every intermediate power -/
theorem pow_inR (t : ITy) (hw : 1 ≤ t.w) (base : Int) (n : Nat) (h1 : t.inR 1 = true) (hb : t.inR base = true)
    (hn : t.inR (base^n) = true) : ∀ k, 1 ≤ k → k ≤ n → t.inR (base^k) = true := by
  intro k hk1 hkn
  by_cases hkeq : k = n
  · subst hkeq; exact hn
  have hklt : k < n := by omega
  have hmm := min_max_zero t
  by_cases h0 : 0 ≤ base
  · -- non-negative base: the powers are monotone
    obtain ⟨b, rfl⟩ : ∃ b : Nat, base = (b : Int) := ⟨base.toNat, by omega⟩
    rw [inR_iff] at hn ⊢
    rw [← Int.natCast_pow] at hn ⊢
    by_cases hb0 : b = 0
    · subst hb0
      have : (0:Nat)^k = 0 := Nat.zero_pow (by omega)
      rw [this]; simp; exact hmm
    · have : b^k ≤ b^n := Nat.pow_le_pow_right (by omega) hkn
      omega
  · -- negative base: the type is signed
    have hs : t.sg = true := by
      cases hs : t.sg
      · have := nonneg_of_unsigned t hs base hb; omega
      · rfl
    have h2 := two_pow_split t.w hw
    have hp : (0:Int) < 2^(t.w-1) := Int.pow_pos (by decide)
    have hak : (base^k).natAbs = base.natAbs^k := Int.natAbs_pow base k
    have han : (base^n).natAbs = base.natAbs^n := Int.natAbs_pow base n
    have hpos : 1 ≤ base.natAbs^k := Nat.pow_pos (by omega)
    rw [inR_iff] at hn h1 hb ⊢
    unfold ITy.min ITy.max at *
    simp only [hs, if_true] at *
    by_cases hone : base.natAbs = 1
    · rw [hone, Nat.one_pow] at hak
      omega
    · have hd := nat_pow_double base.natAbs k n (by omega) hklt
      omega

end Tetl.C14
